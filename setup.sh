#!/bin/bash
# MANIFEST.setup_cmd: full (.vo) build of every hand-written theory, from files on disk only.
set -e
cd "$(dirname "$0")/coq"
/venv/bin/python -c "import sys; sys.path.insert(0,'/verif'); from harness import common; common.gen_coqproject()"
coq_makefile -f _CoqProject -o Makefile
timeout 3000 make -j16

# whole-tree gate: nothing admitted / assumed anywhere in the development
/venv/bin/python -c "
import sys; sys.path.insert(0,'/verif')
from harness import common
bad = common.grep_gate()
print('\n'.join(bad))
sys.exit(1 if bad else 0)"
echo "grep gate ok"
echo "setup ok"
