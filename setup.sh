#!/bin/bash
# MANIFEST.setup_cmd: full (.vo) build of every hand-written theory, from files on disk only.
# Every check re-builds (make) exactly the targets it needs and gates on them, so a theory file
# that fails to build here breaks only the checks that depend on it (reported by those checks).
cd "$(dirname "$0")/coq"
/venv/bin/python -c "import sys; sys.path.insert(0,'/verif'); from harness import common; common.gen_coqproject()"
coq_makefile -f _CoqProject -o Makefile || exit 1
timeout 3000 make -k -j16
rc=$?
# whole-tree gate: nothing admitted / assumed anywhere in the development
/venv/bin/python -c "
import sys; sys.path.insert(0,'/verif')
from harness import common
bad = common.grep_gate()
print('\n'.join(bad))
sys.exit(1 if bad else 0)" && echo "grep gate ok" || echo "GREP GATE FAILED (see above)"
echo "setup finished (make rc=$rc)"
exit 0
