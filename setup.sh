#!/bin/bash
# MANIFEST.setup_cmd: full (.vo) build of every hand-written theory, from files on disk only.
set -e
cd "$(dirname "$0")/coq"
/venv/bin/python -c "import sys; sys.path.insert(0,'/verif'); from harness import common; common.gen_coqproject()"
coq_makefile -f _CoqProject -o Makefile
timeout 3000 make -j16
echo "setup ok"
