(* Stable copy of the translator output for distributed_shampoo.batch (jnp.stack is the identity on
   the list layer); compared with the regenerated gen/C13/Gen.v on every run (GenEq obligation). *)
From Precond Require Import Base.PyLib Base.PyLib2.
Open Scope Z_scope.

Definition batch_src (A : Type) (x : list A) (num_devices : Z) : list (list A) :=
(let n := (zlen x) in
(let b := (Z.quot n num_devices) in
( (map (fun idx => ( (slice x idx (idx + b)))) (zrange3 0 n b))))).
