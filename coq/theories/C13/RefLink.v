(* The translated source of distributed_shampoo.batch is the model's batch_raw (chunks) whenever
   Python does not raise in range(): num_devices > 0 and b = n / num_devices > 0. *)
From Coq Require Import ZArith List Lia Arith.
From Precond Require Import Base.PyLib Base.PyLib2 C13.Model.
From Precond Require C13.Ref.
Import ListNotations.

Section Chunks.
Context {A : Type}.

Lemma count_step (len b : nat) : (0 < b)%nat -> (0 < len)%nat ->
  ((len + b - 1) / b = S ((len - b + b - 1) / b))%nat.
Proof.
  intros Hb Hl.
  destruct (le_lt_dec b len) as [H|H].
  - replace (len - b + b - 1)%nat with (len - 1)%nat by lia.
    replace (len + b - 1)%nat with (len - 1 + 1 * b)%nat by lia.
    rewrite Nat.div_add by lia. lia.
  - replace (len - b + b - 1)%nat with (b - 1)%nat by lia.
    rewrite (Nat.div_small (b - 1) b) by lia.
    replace (len + b - 1)%nat with ((len - 1) + 1 * b)%nat by lia.
    rewrite Nat.div_add by lia. rewrite (Nat.div_small (len - 1) b) by lia. reflexivity.
Qed.

Lemma skipn_add (a b : nat) (l : list A) : skipn a (skipn b l) = skipn (b + a) l.
Proof.
  revert l; induction b as [|b IH]; intros l; [reflexivity|].
  destruct l as [|x l]; [cbn; apply skipn_nil | cbn [skipn plus]; apply IH].
Qed.

Lemma chunks_seq (b : nat) : (0 < b)%nat -> forall fuel (xs : list A), (length xs <= fuel)%nat ->
  chunks fuel b xs = map (fun k => firstn b (skipn (k * b) xs)) (seq 0 ((length xs + b - 1) / b)).
Proof.
  intros Hb. induction fuel as [|fuel IH]; intros xs Hl.
  - destruct xs as [|x xs]; [|cbn in Hl; lia]. cbn [chunks length].
    rewrite (Nat.div_small (0 + b - 1) b) by lia. reflexivity.
  - destruct xs as [|x xs].
    + cbn [chunks length]. rewrite (Nat.div_small (0 + b - 1) b) by lia. reflexivity.
    + set (l := x :: xs) in *. assert (Hpos : (0 < length l)%nat) by (subst l; cbn; lia).
      change (chunks (S fuel) b l) with (firstn b l :: chunks fuel b (skipn b l)).
      rewrite (count_step (length l) b Hb Hpos).
      cbn [seq map]. rewrite Nat.mul_0_l. cbn [skipn]. f_equal.
      rewrite IH by (rewrite skipn_length; lia).
      rewrite skipn_length. rewrite <- seq_shift, map_map.
      apply map_ext. intros k. f_equal. rewrite skipn_add. reflexivity.
Qed.
End Chunks.

Lemma slice_chunk {A} (xs : list A) (k b : nat) : (k * b < length xs)%nat ->
  slice xs (0 + Z.of_nat k * Z.of_nat b) (0 + Z.of_nat k * Z.of_nat b + Z.of_nat b)
  = firstn b (skipn (k * b) xs).
Proof.
  intros Hk. unfold slice, clamp_slice, zlen.
  destruct (0 + Z.of_nat k * Z.of_nat b <? 0)%Z eqn:E1; [lia|].
  destruct (0 + Z.of_nat k * Z.of_nat b + Z.of_nat b <? 0)%Z eqn:E2; [lia|].
  rewrite (Z.max_r 0 (Z.min (Z.of_nat (length xs)) (0 + Z.of_nat k * Z.of_nat b))) by lia.
  rewrite (Z.min_r (Z.of_nat (length xs)) (0 + Z.of_nat k * Z.of_nat b)) by lia.
  replace (Z.to_nat (0 + Z.of_nat k * Z.of_nat b)) with (k * b)%nat by lia.
  destruct (Z.le_gt_cases (0 + Z.of_nat k * Z.of_nat b + Z.of_nat b) (Z.of_nat (length xs))) as [H|H].
  - rewrite Z.min_r by lia. rewrite Z.max_r by lia. f_equal. lia.
  - rewrite Z.min_l by lia. rewrite Z.max_r by lia.
    rewrite !firstn_all2; [reflexivity | rewrite skipn_length; lia | rewrite skipn_length; lia].
Qed.

Theorem batch_src_is_model {A} (xs : list A) (D : Z) :
  (0 < D)%Z -> (0 < zlen xs / D)%Z -> Ref.batch_src A xs D = batch_raw xs D.
Proof.
  intros HD Hb. unfold Ref.batch_src, batch_raw. cbv zeta.
  rewrite Z.quot_div_nonneg by (unfold zlen; lia).
  set (bz := (zlen xs / D)%Z) in *.
  assert (Hbn : (0 < Z.to_nat bz)%nat) by lia.
  rewrite (chunks_seq (Z.to_nat bz) Hbn (length xs) xs (le_n _)).
  unfold zrange3. destruct (bz <=? 0)%Z eqn:E; [lia|].
  assert (Hcount : Z.to_nat ((zlen xs - 0 + bz - 1) / bz)
                   = ((length xs + Z.to_nat bz - 1) / Z.to_nat bz)%nat).
  { unfold zlen. rewrite <- (Z2Nat.id bz) at 1 2 by lia.
    replace (Z.of_nat (length xs) - 0 + Z.of_nat (Z.to_nat bz) - 1)%Z
      with (Z.of_nat (length xs + Z.to_nat bz - 1)) by lia.
    rewrite <- Nat2Z.inj_div. apply Nat2Z.id. }
  rewrite Hcount, map_map.
  apply map_ext_in. intros k Hk. apply in_seq in Hk.
  rewrite <- (Z2Nat.id bz) at 1 2 3 by lia.
  apply slice_chunk.
  (* k < ceil(len / b)  ->  k * b < len *)
  destruct Hk as [_ Hk]. cbn in Hk.
  set (b := Z.to_nat bz) in *. set (len := length xs) in *.
  assert (H : (k * b <= ((len + b - 1) / b - 1) * b)%nat) by (apply Nat.mul_le_mono_r; lia).
  pose proof (Nat.mul_div_le (len + b - 1) b ltac:(lia)) as H2.
  nia.
Qed.

(* hence the source's batch agrees with the model's option-valued batch whenever the latter is defined *)
Corollary batch_src_is_model_batch {A} (xs : list A) (D : Z) cs :
  (0 < D)%Z -> batch xs D = Some cs -> Ref.batch_src A xs D = cs.
Proof.
  intros HD. unfold batch. destruct (zlen xs / D <=? 0)%Z eqn:E; [discriminate|].
  destruct (forallb _ _); [|discriminate]. intros H; injection H as <-.
  apply batch_src_is_model; lia.
Qed.
