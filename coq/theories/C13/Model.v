(* C13/Model.v — executable model of the device-parallel preconditioner computation of
   precondition/distributed_shampoo.py (definitions only, no proofs).

   Two layers:
   (1) list layer (any item type): [pad] (to_pad = -N % D with a dummy item), [batch] (the Python
       list comprehension  [x[idx:idx+b] for idx in range(0, n, b)]  with b = int(n / D), stacked:
       fails on ragged chunks or b = 0), per-replica slice + vmap + all_gather ([gathered]),
       [unbatch_l] (order of the results), [firstn N] (the zip against the N original shapes);
       sharded padding ([sharded_pad], to_pad = D when there is no statistic) and the
       index_start/len slices of _convert_to_parameter_stats.
   (2) array layer (shape + row-major data): literal transcription of jnp.stack / jnp.split /
       jnp.squeeze as used by batch() / unbatch(), in the two variants
         [unbatch_arr Bare]  : jnp.squeeze(v)          (all unit dims dropped; the code before the
                                                        fix, finding D9)
         [unbatch_arr Axis0] : jnp.squeeze(v, axis=0)  (only the split axis dropped; the code after
                                                        "fix: unbatch squeezes only the two batching axes")
*)
From Precond Require Import Base.PyLib.
Open Scope Z_scope.

(* ------------------------------------------------------------------ list layer *)
Section ListLayer.
Context {A B : Type}.

(* to_pad = -num_statistics % num_devices  (Python % = Z.modulo for a positive divisor) *)
Definition pad_count (D n : Z) : Z := (- n) mod D.

Definition pad (D : Z) (dummy : A) (xs : list A) : list A :=
  xs ++ repeat_z dummy (pad_count D (zlen xs)).

(* [x[idx:idx+b] for idx in range(0, n, b)] for b >= 1; fuel = n suffices since every round
   consumes b >= 1 elements *)
Fixpoint chunks (fuel b : nat) (xs : list A) : list (list A) :=
  match fuel with
  | O => []
  | S fuel' =>
      match xs with
      | [] => []
      | _ => firstn b xs :: chunks fuel' b (skipn b xs)
      end
  end.

Definition batch_raw (xs : list A) (D : Z) : list (list A) :=
  chunks (length xs) (Z.to_nat (zlen xs / D)) xs.

(* batch(x, D): None when Python raises (range() step 0, or jnp.stack of ragged chunks) *)
Definition batch (xs : list A) (D : Z) : option (list (list A)) :=
  let b := zlen xs / D in
  if b <=? 0 then None
  else
    let cs := batch_raw xs D in
    if forallb (fun c => zlen c =? b) cs then Some cs else None.

End ListLayer.

Section Gather.
Context {A B : Type}.

(* replica r runs vmap f over all_xxx[r] *)
Definition replica_compute (f : A -> B) (batched : list (list A)) (r : Z) : list B :=
  map f (nth (Z.to_nat r) batched []).

(* jax.lax.all_gather over the D replicas, in axis-index order *)
Definition all_gather (D : Z) (per : Z -> list B) : list (list B) := map per (zrange D).

Definition gathered (f : A -> B) (batched : list (list A)) (D : Z) : list (list B) :=
  all_gather D (replica_compute f batched).

(* order in which unbatch() emits the items: replica-major, slot-minor *)
Definition unbatch_l (bs : list (list B)) : list B := concat bs.

(* the whole pmap pipeline on N statistics: what the zip against original_shapes keeps *)
Definition pmap_pipeline (D : Z) (dummy : A) (f : A -> B) (xs : list A) : option (list B) :=
  match batch (pad D dummy xs) D with
  | None => None
  | Some cs => Some (firstn (length xs) (unbatch_l (gathered f cs D)))
  end.
End Gather.

(* which statistic index lands in which (replica, slot): -1 marks padding *)
Definition layout (N D : Z) : option (list (list Z)) := batch (pad D (-1) (zrange N)) D.

(* ------------------------------------------------------------------ sharded (pjit) mode *)
Section Sharded.
Context {A B : Type}.

(* to_pad = -N % D; if there is no statistic at all, to_pad = D *)
Definition sharded_pad_count (D n : Z) : Z := if n =? 0 then D else pad_count D n.

Definition sharded_pad (D : Z) (dummy : A) (xs : list A) : list A :=
  xs ++ repeat_z dummy (sharded_pad_count D (zlen xs)).

(* global stack = concatenation of every parameter's statistics, in parameter order *)
Definition global_rows (pss : list (list A)) : list A := concat pss.

(* index_start of parameter k = number of statistics of the parameters before it *)
Fixpoint index_starts_from (acc : nat) (pss : list (list A)) : list nat :=
  match pss with
  | [] => []
  | ps :: rest => acc :: index_starts_from (acc + length ps) rest
  end.
Definition index_starts (pss : list (list A)) : list nat := index_starts_from 0%nat pss.

(* _convert_to_parameter_stats: global[index_start : index_start + len(sizes)] *)
Definition param_slice (rows : list B) (start len : nat) : list B := firstn len (skipn start rows).
End Sharded.

(* ------------------------------------------------------------------ array layer *)
Record arr (A : Type) := mkarr { shp : list Z; dat : list A }.
Arguments mkarr {A} _ _.
Arguments shp {A} _.
Arguments dat {A} _.

Inductive squeeze_mode := Bare | Axis0.

Section ArrayLayer.
Context {A : Type}.

Definition size (s : list Z) : Z := prod_z s.

(* exactly k chunks of m elements *)
Fixpoint take_chunks (k m : nat) (xs : list A) : list (list A) :=
  match k with
  | O => []
  | S k' => firstn m xs :: take_chunks k' m (skipn m xs)
  end.

Definition not_one (d : Z) : bool := negb (d =? 1).

(* jnp.squeeze(a): drop every unit dimension; the data are untouched *)
Definition squeeze_all (a : arr A) : arr A := mkarr (filter not_one (shp a)) (dat a).

(* jnp.squeeze(a, axis=0): the leading dimension must be 1 and is dropped *)
Definition squeeze0 (a : arr A) : arr A :=
  match shp a with
  | 1 :: rest => mkarr rest (dat a)
  | _ => a
  end.

Definition squeeze (m : squeeze_mode) (a : arr A) : arr A :=
  match m with Bare => squeeze_all a | Axis0 => squeeze0 a end.

(* jnp.split(a, k, axis=0): k sections of d0/k rows each *)
Definition split0 (k : Z) (a : arr A) : list (arr A) :=
  match shp a with
  | [] => []
  | d0 :: rest =>
      let rows := d0 / k in
      map (fun c => mkarr (rows :: rest) c)
          (take_chunks (Z.to_nat k) (Z.to_nat (rows * size rest)) (dat a))
  end.

(* jnp.stack(items): all shapes equal, at least one item *)
Definition stack (items : list (arr A)) : option (arr A) :=
  match items with
  | [] => None
  | a0 :: _ =>
      if forallb (fun a => list_eqb_z (shp a) (shp a0)) items
      then Some (mkarr (zlen items :: shp a0) (concat (map dat items)))
      else None
  end.

Fixpoint all_some {X} (l : list (option X)) : option (list X) :=
  match l with
  | [] => Some []
  | None :: _ => None
  | Some x :: t => match all_some t with Some r => Some (x :: r) | None => None end
  end.

(* batch(x, D) = jnp.stack([jnp.stack(x[idx:idx+b]) for idx in range(0, n, b)]) *)
Definition batch_arr (xs : list (arr A)) (D : Z) : option (arr A) :=
  let b := zlen xs / D in
  if b <=? 0 then None
  else match all_some (map stack (batch_raw xs D)) with
       | None => None
       | Some rows => stack rows
       end.

(* unbatch(batched_values), literally:
     b1, b2 = shape[0], shape[1]
     for v_array in split(batched_values, b1, axis=0):
       v_array = squeeze(v_array)
       if b2 > 1:  for v in split(v_array, b2, axis=0): results.append(squeeze(v))
       else:       results.append(v_array)
   With explicit axes (Axis0) the b2 = 1 branch needs the second squeeze as well, so the repaired
   code always takes the split branch. *)
Definition unbatch_arr (m : squeeze_mode) (a : arr A) : list (arr A) :=
  match shp a with
  | b1 :: b2 :: _ =>
      flat_map
        (fun v_array =>
           let v := squeeze m v_array in
           match m with
           | Bare => if 1 <? b2 then map (squeeze Bare) (split0 b2 v) else [v]
           | Axis0 => map (squeeze Axis0) (split0 b2 v)
           end)
        (split0 b1 a)
  | _ => []
  end.

Definition no_unit_dims (s : list Z) : bool := forallb not_one s.
End ArrayLayer.

(* ------------------------------------------------------------------ executable checks (tests) *)
(* tagged item i of shape s: entries i*1000 + 0, 1, ... *)
Definition tagged (s : list Z) (i : Z) : arr Z :=
  mkarr s (map (fun j => i * 1000 + j) (zrange (size s))).

Definition arr_eqb (a b : arr Z) : bool := list_eqb_z (shp a) (shp b) && list_eqb_z (dat a) (dat b).

Fixpoint arrs_eqb (l1 l2 : list (arr Z)) : bool :=
  match l1, l2 with
  | [], [] => true
  | a :: s, b :: t => arr_eqb a b && arrs_eqb s t
  | _, _ => false
  end.

(* items 0..N-1 tagged, padding items tagged -1 *)
Definition padded_items (N D : Z) (s : list Z) : list (arr Z) :=
  pad D (tagged s (-1)) (map (tagged s) (zrange N)).

(* correspondence of batch(): observed = Some (shape, flat data) or None when Python raised *)
Definition chk_batch (n D : Z) (s : list Z) (raised : bool) (oshape odata : list Z) : bool :=
  match batch_arr (map (tagged s) (zrange n)) D with
  | None => raised
  | Some a => negb raised && arr_eqb a (mkarr oshape odata)
  end.

(* correspondence of unbatch() on an arange array of shape b1 :: b2 :: s.
   Result code: 3 = both variants predict the observation (no unit dims involved),
   1 = only the bare-squeeze variant, 2 = only the explicit-axis variant, 0 = neither. *)
Definition chk_unbatch (b1 b2 : Z) (s : list Z) (obs : list (arr Z)) : Z :=
  let a := mkarr (b1 :: b2 :: s) (zrange (b1 * b2 * size s)) in
  (if arrs_eqb (unbatch_arr Bare a) obs then 1 else 0) +
  (if arrs_eqb (unbatch_arr Axis0 a) obs then 2 else 0).

Fixpoint lleqb13 (a b : list (list Z)) : bool :=
  match a, b with
  | [], [] => true
  | x :: s, y :: t => list_eqb_z x y && lleqb13 s t
  | _, _ => false
  end.

(* the layout the model predicts for N statistics on D devices vs the tags read back from the
   real batch() *)
Definition chk_layout (N D : Z) (obs : list (list Z)) : bool :=
  match layout N D with
  | Some l => lleqb13 l obs
  | None => false
  end.

(* shape of the batched arrays inside the optimizer: (b1, b2) for n packed items on D devices *)
Definition batched_dims (n D : Z) : option (Z * Z) :=
  match batch (zrange n) D with
  | Some cs => Some (zlen cs, n / D)
  | None => None
  end.

(* full pipeline on tags with f = (fun x => 2*x+1): expected list of results *)
Definition chk_pipeline (N D : Z) (obs : list Z) : bool :=
  match pmap_pipeline D (-1) (fun x => 2 * x + 1) (zrange N) with
  | Some r => list_eqb_z r obs
  | None => false
  end.

(* number of rows of the sharded global stack *)
Definition sharded_rows (N D : Z) : Z := N + sharded_pad_count D N.
