(* C13/Proofs.v — list layer: padding, batch/unbatch round trip, device-count invariance,
   padding never selected, sharded padding and parameter slices.  All statements are for every
   device count D > 0, every number of statistics, every per-item function f (no bounds). *)
From Precond Require Import Base.PyLib C13.Model.
From Coq Require Import ZifyBool.
Open Scope Z_scope.

(* ---------- arithmetic ---------- *)
Lemma pad_count_range D n : 0 < D -> 0 <= pad_count D n < D.
Proof. intro H. unfold pad_count. apply Z.mod_pos_bound. lia. Qed.

Lemma pad_count_divides D n : 0 < D -> (n + pad_count D n) mod D = 0.
Proof.
  intro H. unfold pad_count. rewrite Z.add_mod_idemp_r by lia.
  replace (n + - n) with 0 by lia. apply Z.mod_0_l. lia.
Qed.

Lemma pad_count_zero_iff D n : 0 < D -> (pad_count D n = 0 <-> n mod D = 0).
Proof.
  intro H. unfold pad_count. split; intro E.
  - apply Z.mod_divide in E; [|lia]. apply Z.mod_divide; [lia|].
    destruct E as [k Ek]. exists (- k). lia.
  - apply Z.mod_divide in E; [|lia]. apply Z.mod_divide; [lia|].
    destruct E as [k Ek]. exists (- k). lia.
Qed.

(* the padding is minimal: nothing smaller makes the count a multiple of D *)
Lemma pad_count_minimal D n k : 0 < D -> 0 <= k -> (n + k) mod D = 0 -> pad_count D n <= k.
Proof.
  intros HD Hk E.
  pose proof (pad_count_range D n HD) as R.
  pose proof (pad_count_divides D n HD) as P.
  apply Z.mod_divide in E; [|lia]. apply Z.mod_divide in P; [|lia].
  destruct E as [a Ea]. destruct P as [b Eb].
  destruct (Z_lt_le_dec k (pad_count D n)) as [L|L]; [|lia].
  exfalso. assert (H1 : pad_count D n - k = (b - a) * D) by lia.
  assert (H2 : 0 < (b - a) * D < D) by lia.
  destruct (Z_lt_le_dec 0 (b - a)) as [P|P].
  - assert (1 * D <= (b - a) * D) by (apply Z.mul_le_mono_nonneg_r; lia). lia.
  - assert ((b - a) * D <= 0 * D) by (apply Z.mul_le_mono_nonneg_r; lia). lia.
Qed.

Lemma zlen_repeat_z {A} (x : A) k : 0 <= k -> zlen (repeat_z x k) = k.
Proof. intro H. unfold zlen, repeat_z. rewrite repeat_length. lia. Qed.

Lemma zlen_pad {A} D (d : A) xs : 0 < D -> zlen (pad D d xs) = zlen xs + pad_count D (zlen xs).
Proof.
  intro H. unfold pad. rewrite zlen_app, zlen_repeat_z; [reflexivity|].
  pose proof (pad_count_range D (zlen xs) H). lia.
Qed.

(* ---------- chunks ---------- *)
Lemma firstn_app_exact {A} (l r : list A) : firstn (length l) (l ++ r) = l.
Proof.
  rewrite firstn_app, Nat.sub_diag, firstn_all. simpl. apply app_nil_r.
Qed.

Lemma skipn_app_exact {A} (l r : list A) : skipn (length l) (l ++ r) = r.
Proof.
  rewrite skipn_app, Nat.sub_diag, skipn_all. reflexivity.
Qed.

Lemma chunks_concat {A} fuel b (xs : list A) :
  (0 < b)%nat -> (length xs <= fuel)%nat -> concat (chunks fuel b xs) = xs.
Proof.
  intro Hb. revert xs. induction fuel as [|f IH]; intros xs Hf.
  - destruct xs; [reflexivity | simpl in Hf; lia].
  - destruct xs as [|x t]; [reflexivity|].
    cbn [chunks concat]. rewrite IH.
    + apply firstn_skipn.
    + rewrite skipn_length. simpl length in *. lia.
Qed.

Lemma chunks_exact {A} k : forall fuel b (xs : list A),
  (0 < b)%nat -> length xs = (k * b)%nat -> (k <= fuel)%nat ->
  length (chunks fuel b xs) = k /\ Forall (fun c => length c = b) (chunks fuel b xs).
Proof.
  induction k as [|k IH]; intros fuel b xs Hb Hl Hf.
  - destruct xs; [|simpl in Hl; lia]. destruct fuel; simpl; split; auto.
  - destruct fuel as [|f]; [lia|].
    destruct xs as [|x t]; [simpl in Hl; lia|].
    cbn [chunks].
    destruct (IH f b (skipn b (x :: t)) Hb) as [L F].
    + rewrite skipn_length, Hl. simpl. lia.
    + lia.
    + split; [simpl; rewrite L; reflexivity|].
      constructor; [|exact F]. rewrite firstn_length, Hl. simpl. lia.
Qed.

Lemma forallb_zlen {A} (cs : list (list A)) b :
  Forall (fun c => length c = Z.to_nat b) cs -> 0 <= b ->
  forallb (fun c => zlen c =? b) cs = true.
Proof.
  intros F Hb. apply forallb_forall. intros c Hc.
  rewrite Forall_forall in F. specialize (F c Hc). unfold zlen. lia.
Qed.

(* batch succeeds exactly as the code intends whenever D divides a non-zero count *)
Lemma batch_divisible {A} (xs : list A) D :
  0 < D -> zlen xs mod D = 0 -> xs <> [] ->
  exists cs, batch xs D = Some cs /\ concat cs = xs /\ zlen cs = D /\
             Forall (fun c => zlen c = zlen xs / D) cs.
Proof.
  intros HD Hm Hne.
  assert (Hn : 0 < zlen xs) by (destruct xs; [congruence | rewrite zlen_cons; pose proof (zlen_nonneg xs); lia]).
  apply Z.mod_divide in Hm; [|lia]. destruct Hm as [b Eb].
  assert (Hb : 0 < b) by nia.
  assert (Hq : zlen xs / D = b) by (rewrite Eb; apply Z.div_mul; lia).
  unfold batch. rewrite Hq. replace (b <=? 0) with false by lia.
  unfold batch_raw. rewrite Hq.
  destruct (chunks_exact (Z.to_nat D) (length xs) (Z.to_nat b) xs) as [L F].
  - lia.
  - unfold zlen in Eb. nia.
  - unfold zlen in Eb. nia.
  - rewrite forallb_zlen by (auto; lia).
    eexists. split; [reflexivity|]. split; [|split].
    + apply chunks_concat; lia.
    + unfold zlen. rewrite L. lia.
    + eapply Forall_impl; [|exact F]. intros c Hc. cbv beta in Hc. unfold zlen. lia.
Qed.

Lemma batch_unbatch_id_lemma {A} (xs : list A) D :
  0 < D -> zlen xs mod D = 0 -> xs <> [] ->
  exists cs, batch xs D = Some cs /\ zlen cs = D /\ unbatch_l cs = xs.
Proof.
  intros HD Hm Hne. destruct (batch_divisible xs D HD Hm Hne) as [cs [E [C [L _]]]].
  exists cs. auto.
Qed.

(* Python raises in every other case: the model returns None *)
Lemma batch_fails_when_short {A} (xs : list A) D : 0 < D -> zlen xs < D -> batch xs D = None.
Proof.
  intros HD Hs. unfold batch. pose proof (zlen_nonneg xs).
  rewrite Z.div_small by lia. reflexivity.
Qed.

(* ---------- gather ---------- *)
Lemma map_nth_seq {A} (l : list A) d :
  map (fun k => nth k l d) (seq 0 (length l)) = l.
Proof.
  induction l as [|x t IH]; [reflexivity|].
  cbn [length seq map nth]. f_equal.
  rewrite <- seq_shift, map_map. exact IH.
Qed.

Lemma gathered_full {A B} (f : A -> B) (cs : list (list A)) D :
  zlen cs = D -> gathered f cs D = map (map f) cs.
Proof.
  intro L. unfold gathered, all_gather, replica_compute, zrange.
  rewrite map_map. subst D. unfold zlen. rewrite Nat2Z.id.
  transitivity (map (map f) (map (fun k => nth k cs []) (seq 0 (length cs)))).
  - rewrite map_map. apply map_ext. intro k. rewrite Nat2Z.id. reflexivity.
  - rewrite map_nth_seq. reflexivity.
Qed.

Lemma unbatch_gathered {A B} (f : A -> B) (cs : list (list A)) D :
  zlen cs = D -> unbatch_l (gathered f cs D) = map f (concat cs).
Proof.
  intro L. rewrite gathered_full by exact L. unfold unbatch_l. symmetry. apply concat_map.
Qed.

(* ---------- the pmap pipeline ---------- *)
Lemma map_repeat13 {A B} (f : A -> B) x n : map f (repeat x n) = repeat (f x) n.
Proof. induction n as [|n IH]; [reflexivity|]. simpl. rewrite IH. reflexivity. Qed.

Lemma pad_nonempty {A} D (d : A) xs : xs <> [] -> pad D d xs <> [].
Proof. intros H E. unfold pad in E. apply app_eq_nil in E. tauto. Qed.

Lemma pipeline_full {A B} D (dummy : A) (f : A -> B) xs :
  0 < D -> xs <> [] ->
  exists cs, batch (pad D dummy xs) D = Some cs /\ zlen cs = D /\
    unbatch_l (gathered f cs D) =
      map f xs ++ repeat_z (f dummy) (pad_count D (zlen xs)).
Proof.
  intros HD Hne.
  destruct (batch_divisible (pad D dummy xs) D HD) as [cs [E [C [L _]]]].
  - rewrite zlen_pad by exact HD. apply pad_count_divides. exact HD.
  - apply pad_nonempty. exact Hne.
  - exists cs. split; [exact E|]. split; [exact L|].
    rewrite unbatch_gathered by exact L. rewrite C. unfold pad.
    rewrite map_app. f_equal. unfold repeat_z. apply map_repeat13.
Qed.

Lemma device_count_invariant_lemma {A B} D (dummy : A) (f : A -> B) xs :
  0 < D -> xs <> [] -> pmap_pipeline D dummy f xs = Some (map f xs).
Proof.
  intros HD Hne. unfold pmap_pipeline.
  destruct (pipeline_full D dummy f xs HD Hne) as [cs [E [L U]]].
  rewrite E, U. f_equal.
  rewrite <- (map_length f xs). apply firstn_app_exact.
Qed.

(* no statistic at all: nothing is padded and the code returns the states unchanged before
   calling batch *)
Lemma pad_empty {A} D (dummy : A) : 0 < D -> pad D dummy [] = [].
Proof.
  intro H. unfold pad, pad_count. change (zlen (@nil A)) with 0. simpl Z.opp.
  rewrite Z.mod_0_l by lia. reflexivity.
Qed.

(* same result whatever the device count *)
Lemma any_two_device_counts_agree {A B} D1 D2 (dummy : A) (f : A -> B) xs :
  0 < D1 -> 0 < D2 -> xs <> [] ->
  pmap_pipeline D1 dummy f xs = pmap_pipeline D2 dummy f xs.
Proof.
  intros. rewrite !device_count_invariant_lemma by assumption. reflexivity.
Qed.

(* the dummy items (identity statistics, exponent 1) never reach the kept results: they sit
   strictly after the N real results, and the kept results do not depend on them *)
Lemma padding_never_selected_lemma {A B} D (d1 d2 : A) (f : A -> B) xs :
  0 < D -> xs <> [] ->
  pmap_pipeline D d1 f xs = pmap_pipeline D d2 f xs /\
  exists cs, batch (pad D d1 xs) D = Some cs /\
    skipn (length xs) (unbatch_l (gathered f cs D)) = repeat_z (f d1) (pad_count D (zlen xs)).
Proof.
  intros HD Hne. split.
  - rewrite !device_count_invariant_lemma by assumption. reflexivity.
  - destruct (pipeline_full D d1 f xs HD Hne) as [cs [E [L U]]].
    exists cs. split; [exact E|]. rewrite U.
    rewrite <- (map_length f xs). apply skipn_app_exact.
Qed.

(* layout: statistic i sits on replica i / b at slot i mod b, b = (N + to_pad) / D *)
Lemma nth_concat_uniform {A} (cs : list (list A)) b d :
  (0 < b)%nat -> Forall (fun c => length c = b) cs ->
  forall i, (i < length cs * b)%nat ->
    nth i (concat cs) d = nth (i mod b) (nth (i / b) cs []) d.
Proof.
  intros Hb F. induction F as [|c cs Hc F IH]; intros i Hi.
  - simpl in Hi. lia.
  - cbn [concat length] in *.
    destruct (Nat.lt_ge_cases i b) as [L|G].
    + rewrite app_nth1 by lia. rewrite Nat.div_small, Nat.mod_small by lia. reflexivity.
    + rewrite app_nth2 by lia. rewrite Hc. rewrite IH by lia.
      assert (Ed : (i / b = S ((i - b) / b))%nat).
      { replace i with ((i - b) + 1 * b)%nat at 1 by lia. rewrite Nat.div_add by lia. lia. }
      assert (Em : (i mod b = (i - b) mod b)%nat).
      { replace i with ((i - b) + 1 * b)%nat at 1 by lia. apply Nat.mod_add. lia. }
      rewrite Ed, Em. reflexivity.
Qed.

Lemma layout_position {A} D (dummy : A) xs :
  0 < D -> xs <> [] ->
  exists cs, batch (pad D dummy xs) D = Some cs /\
    let b := Z.to_nat ((zlen xs + pad_count D (zlen xs)) / D) in
    forall i, (i < length xs)%nat ->
      nth (i mod b) (nth (i / b) cs []) dummy = nth i xs dummy.
Proof.
  intros HD Hne.
  destruct (batch_divisible (pad D dummy xs) D HD) as [cs [E [C [L F]]]].
  - rewrite zlen_pad by exact HD. apply pad_count_divides. exact HD.
  - apply pad_nonempty. exact Hne.
  - exists cs. split; [exact E|]. intros b i Hi.
    rewrite zlen_pad in F by exact HD. fold b in F.
    pose proof (pad_count_range D (zlen xs) HD) as R.
    pose proof (pad_count_divides D (zlen xs) HD) as P.
    apply Z.mod_divide in P; [|lia]. destruct P as [q Eq].
    assert (Hq : (zlen xs + pad_count D (zlen xs)) / D = q) by (rewrite Eq; apply Z.div_mul; lia).
    assert (Hxs : 0 < zlen xs) by (destruct xs; [congruence | rewrite zlen_cons; pose proof (zlen_nonneg xs); lia]).
    assert (Hqpos : 0 < q) by nia.
    assert (Fb : Forall (fun c : list A => length c = b) cs).
    { eapply Forall_impl; [|exact F]. intros c Hc. cbv beta in Hc. rewrite Hq in Hc.
      subst b. rewrite Hq. unfold zlen in Hc. lia. }
    rewrite <- nth_concat_uniform with (b := b) (cs := cs).
    + rewrite C. unfold pad. apply app_nth1. exact Hi.
    + subst b. rewrite Hq. lia.
    + exact Fb.
    + subst b. rewrite Hq. unfold zlen in *. nia.
Qed.

(* ---------- sharded mode ---------- *)
Lemma sharded_pad_count_pos D n : 0 < D -> 0 <= n -> 0 <= sharded_pad_count D n <= D.
Proof.
  intros HD Hn. unfold sharded_pad_count. destruct (n =? 0); [lia|].
  pose proof (pad_count_range D n HD). lia.
Qed.

Lemma sharded_rows_multiple D n : 0 < D -> 0 <= n ->
  sharded_rows n D mod D = 0 /\ 0 < sharded_rows n D.
Proof.
  intros HD Hn. unfold sharded_rows, sharded_pad_count.
  destruct (Z.eqb_spec n 0) as [E|E].
  - subst n. simpl. rewrite Z.mod_same by lia. lia.
  - split; [apply pad_count_divides; exact HD|].
    pose proof (pad_count_range D n HD). lia.
Qed.

Lemma sharded_any_D_lemma {A B} D (dummy : A) (f : A -> B) xs :
  0 < D ->
  firstn (length xs) (map f (sharded_pad D dummy xs)) = map f xs /\
  zlen (sharded_pad D dummy xs) mod D = 0 /\ 0 < zlen (sharded_pad D dummy xs).
Proof.
  intro HD. split.
  - unfold sharded_pad. rewrite map_app. rewrite <- (map_length f xs). apply firstn_app_exact.
  - unfold sharded_pad. rewrite zlen_app, zlen_repeat_z.
    + apply (sharded_rows_multiple D (zlen xs) HD (zlen_nonneg xs)).
    + apply sharded_pad_count_pos; [exact HD | apply zlen_nonneg].
Qed.

Lemma param_slice_from {A} (pre ps post : list A) :
  param_slice (pre ++ ps ++ post) (length pre) (length ps) = ps.
Proof.
  unfold param_slice. rewrite skipn_app_exact. apply firstn_app_exact.
Qed.

Lemma index_starts_from_spec {A} (pss : list (list A)) : forall acc k,
  (k < length pss)%nat ->
  nth k (index_starts_from acc pss) 0%nat = (acc + length (concat (firstn k pss)))%nat.
Proof.
  induction pss as [|ps rest IH]; intros acc k Hk; [simpl in Hk; lia|].
  destruct k as [|k]; simpl.
  - lia.
  - rewrite IH by (simpl in Hk; lia). rewrite app_length. lia.
Qed.

(* every parameter reads back exactly its own rows of the padded, per-row transformed global
   stack, whatever the declared device count *)
Lemma sharded_slices_correct_lemma {A B} D (dummy : A) (f : A -> B) (pss : list (list A)) k :
  (k < length pss)%nat ->
  param_slice (map f (sharded_pad D dummy (global_rows pss)))
              (nth k (index_starts pss) 0%nat) (length (nth k pss [])) =
  map f (nth k pss []).
Proof.
  intro Hk. unfold index_starts. rewrite index_starts_from_spec by exact Hk. simpl.
  unfold sharded_pad, global_rows.
  rewrite <- (firstn_skipn k pss) at 1.
  assert (Hs : skipn k pss = nth k pss [] :: skipn (S k) pss).
  { clear -Hk. revert k Hk. induction pss as [|p r IH]; intros k Hk; [simpl in Hk; lia|].
    destruct k; [reflexivity|]. simpl. apply IH. simpl in Hk. lia. }
  rewrite Hs. rewrite concat_app. cbn [concat]. rewrite <- !app_assoc. rewrite !map_app.
  rewrite <- (map_length f (concat (firstn k pss))).
  rewrite <- (map_length f (nth k pss [])).
  apply param_slice_from.
Qed.
