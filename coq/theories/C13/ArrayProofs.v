(* C13/ArrayProofs.v — array layer: the literal jnp.stack / jnp.split / jnp.squeeze model of
   batch() and unbatch() agrees with the list layer on the data, and the effect of the bare
   jnp.squeeze on the item shapes (finding D9: 1x1 statistics lose their matrix dimensions). *)
From Precond Require Import Base.PyLib C13.Model C13.Proofs.
From Coq Require Import ZifyBool.
Open Scope Z_scope.

Section Arr.
Context {A : Type}.

Definition wf_item (s : list Z) (a : arr A) : Prop :=
  shp a = s /\ length (dat a) = Z.to_nat (size s).

Lemma map_length_z {X Y} (g : X -> Y) l : zlen (map g l) = zlen l.
Proof. unfold zlen. rewrite map_length. reflexivity. Qed.

Lemma to_nat_mul_nat (n : nat) z : Z.to_nat (Z.of_nat n * z) = (n * Z.to_nat z)%nat.
Proof.
  destruct (Z_le_gt_dec 0 z) as [H|H].
  - rewrite Z2Nat.inj_mul by lia. rewrite Nat2Z.id. reflexivity.
  - assert (Z.of_nat n * z <= 0) by nia.
    lia.
Qed.

(* ---------- chunks of a concatenation of equally long lists ---------- *)
Lemma take_chunks_concat (ls : list (list A)) m :
  Forall (fun l => length l = m) ls -> take_chunks (length ls) m (concat ls) = ls.
Proof.
  induction 1 as [|l ls Hl F IH]; [reflexivity|].
  cbn [length take_chunks concat]. subst m.
  rewrite firstn_app_exact, skipn_app_exact, IH. reflexivity.
Qed.

Lemma length_concat_uniform {X} (ls : list (list X)) m :
  Forall (fun l => length l = m) ls -> length (concat ls) = (length ls * m)%nat.
Proof.
  induction 1 as [|l ls Hl F IH]; [reflexivity|].
  cbn [concat length]. rewrite app_length, IH, Hl. lia.
Qed.

Lemma flat_map_map_concat {X Y} (g : X -> Y) (css : list (list X)) :
  flat_map (fun c => map g c) css = map g (concat css).
Proof.
  induction css as [|c css IH]; [reflexivity|].
  cbn [flat_map concat]. rewrite map_app, IH. reflexivity.
Qed.

Lemma flat_map_map_l {X Y W} (h : X -> Y) (g : Y -> list W) l :
  flat_map g (map h l) = flat_map (fun x => g (h x)) l.
Proof. induction l as [|x t IH]; [reflexivity|]. simpl. rewrite IH. reflexivity. Qed.

Lemma flat_map_ext_in {X Y} (g h : X -> list Y) l :
  (forall x, In x l -> g x = h x) -> flat_map g l = flat_map h l.
Proof.
  induction l as [|x t IH]; intro H; [reflexivity|]. simpl.
  rewrite H by (left; reflexivity). rewrite IH; [reflexivity|].
  intros y Hy. apply H. right. exact Hy.
Qed.

Lemma concat_rows_data (css : list (list (arr A))) :
  concat (map (fun c => concat (map dat c)) css) = concat (map dat (concat css)).
Proof.
  induction css as [|c css IH]; [reflexivity|].
  cbn [map concat]. rewrite map_app, concat_app, IH. reflexivity.
Qed.

(* ---------- shapes ---------- *)
Lemma size_cons d s : size (d :: s) = d * size s.
Proof. unfold size. apply prod_z_cons. Qed.

Lemma size_filter_not_one s : size (filter not_one s) = size s.
Proof.
  induction s as [|d s IH]; [reflexivity|].
  cbn [filter]. unfold not_one at 1.
  destruct (Z.eqb_spec d 1) as [E|E]; cbn [negb].
  - subst d. rewrite size_cons, IH. lia.
  - rewrite !size_cons, IH. reflexivity.
Qed.

Lemma filter_not_one_idem s : filter not_one (filter not_one s) = filter not_one s.
Proof.
  induction s as [|d s IH]; [reflexivity|].
  cbn [filter]. destruct (not_one d) eqn:E; [|exact IH].
  cbn [filter]. rewrite E, IH. reflexivity.
Qed.

Lemma filter_no_unit s : no_unit_dims s = true -> filter not_one s = s.
Proof.
  unfold no_unit_dims. induction s as [|d s IH]; intro H; [reflexivity|].
  cbn [forallb] in H. apply andb_true_iff in H as [H1 H2].
  cbn [filter]. rewrite H1, IH by exact H2. reflexivity.
Qed.

(* ---------- stack ---------- *)
Lemma stack_wf s (c : list (arr A)) :
  c <> [] -> Forall (wf_item s) c ->
  stack c = Some (mkarr (zlen c :: s) (concat (map dat c))).
Proof.
  intros Hne F. destruct c as [|a0 c]; [congruence|].
  unfold stack.
  assert (H0 : shp a0 = s) by (inversion F as [|? ? [H _] _]; exact H).
  replace (forallb (fun a => list_eqb_z (shp a) (shp a0)) (a0 :: c)) with true.
  - rewrite H0. reflexivity.
  - symmetry. apply forallb_forall. intros a Ha. rewrite Forall_forall in F.
    destruct (F a Ha) as [Hs _]. rewrite Hs, H0. apply list_eqb_z_spec. reflexivity.
Qed.

Lemma all_some_map {X Y} (g : X -> option Y) (h : X -> Y) l :
  (forall x, In x l -> g x = Some (h x)) -> all_some (map g l) = Some (map h l).
Proof.
  induction l as [|x t IH]; intro H; [reflexivity|].
  cbn [map all_some]. rewrite H by (left; reflexivity).
  rewrite IH; [reflexivity|]. intros y Hy. apply H. right. exact Hy.
Qed.

Definition row_arr (s : list Z) (c : list (arr A)) : arr A :=
  mkarr (zlen c :: s) (concat (map dat c)).

Lemma row_data_length s b (c : list (arr A)) :
  Forall (wf_item s) c -> length c = b ->
  length (concat (map dat c)) = (b * Z.to_nat (size s))%nat.
Proof.
  intros F L. rewrite length_concat_uniform with (m := Z.to_nat (size s)).
  - rewrite map_length, L. reflexivity.
  - apply Forall_forall. intros d Hd. apply in_map_iff in Hd as [a [Ea Ha]]. subst d.
    rewrite Forall_forall in F. destruct (F a Ha) as [_ H]. exact H.
Qed.

(* batch() on N = D*b well-formed items of one shape s: the (D, b) ++ s array whose row-major
   data are the items' data in order *)
Lemma batch_arr_spec (xs : list (arr A)) D s :
  0 < D -> zlen xs mod D = 0 -> xs <> [] -> Forall (wf_item s) xs ->
  batch_arr xs D = Some (mkarr (D :: zlen xs / D :: s) (concat (map dat xs))).
Proof.
  intros HD Hm Hne F.
  destruct (batch_divisible xs D HD Hm Hne) as [cs [E [C [L Fc]]]].
  unfold batch in E. unfold batch_arr.
  destruct (zlen xs / D <=? 0) eqn:Eb; [discriminate|].
  destruct (forallb (fun c => zlen c =? zlen xs / D) (batch_raw xs D)) eqn:Ef; [|discriminate].
  injection E as E. rewrite E.
  assert (Fin : forall c, In c cs -> Forall (wf_item s) c /\ c <> [] /\ zlen c = zlen xs / D).
  { intros c Hc. rewrite Forall_forall in Fc. specialize (Fc c Hc). split; [|split; [|exact Fc]].
    - apply Forall_forall. intros a Ha. rewrite Forall_forall in F. apply F.
      rewrite <- C. apply in_concat. exists c. split; assumption.
    - intro Z0. subst c. change (zlen (@nil (arr A))) with 0 in Fc. lia. }
  rewrite all_some_map with (h := row_arr s).
  2:{ intros c Hc. destruct (Fin c Hc) as [F1 [F2 _]]. apply stack_wf; assumption. }
  assert (Hcs : cs <> []).
  { intro Z0. rewrite Z0 in L. unfold zlen in L. simpl in L. lia. }
  rewrite stack_wf with (s := zlen xs / D :: s).
  - rewrite map_length_z. f_equal. f_equal.
    + rewrite L. reflexivity.
    + rewrite map_map. unfold row_arr. cbn [dat]. rewrite concat_rows_data, C. reflexivity.
  - intro Z0. apply map_eq_nil in Z0. contradiction.
  - apply Forall_forall. intros r Hr. apply in_map_iff in Hr as [c [Ec Hc]]. subst r.
    destruct (Fin c Hc) as [F1 [F2 F3]]. unfold wf_item, row_arr. cbn [shp dat]. split.
    + rewrite F3. reflexivity.
    + rewrite row_data_length with (s := s) (b := length c) by auto.
      rewrite size_cons. rewrite <- F3. unfold zlen. rewrite to_nat_mul_nat. reflexivity.
Qed.

(* ---------- split0 ---------- *)
Lemma split0_full b rest (ds : list (list A)) m :
  0 < b -> zlen ds = b -> m = Z.to_nat (size rest) ->
  Forall (fun d => length d = m) ds ->
  split0 b (mkarr (b :: rest) (concat ds)) = map (fun d => mkarr (1 :: rest) d) ds.
Proof.
  intros Hb L Hm F. unfold split0. cbn [shp dat].
  rewrite Z.div_same by lia. rewrite Z.mul_1_l. rewrite <- Hm.
  replace (Z.to_nat b) with (length ds) by (unfold zlen in L; lia).
  rewrite take_chunks_concat by exact F. reflexivity.
Qed.

(* ---------- unbatch ---------- *)
Definition squeeze_item (m : squeeze_mode) (a : arr A) : arr A :=
  match m with Bare => squeeze_all a | Axis0 => a end.

Lemma arr_eta (a : arr A) : mkarr (shp a) (dat a) = a.
Proof. destruct a. reflexivity. Qed.

Lemma squeeze_all_lead1 s (d : list A) : squeeze_all (mkarr (1 :: s) d) = squeeze_all (mkarr s d).
Proof. reflexivity. Qed.

Lemma squeeze_all_keep b s (d : list A) :
  b <> 1 -> squeeze_all (mkarr (b :: s) d) = mkarr (b :: filter not_one s) d.
Proof.
  intro H. unfold squeeze_all. cbn [shp dat filter]. unfold not_one at 1.
  replace (b =? 1) with false by lia. reflexivity.
Qed.

Lemma unbatch_row m s b2 (c : list (arr A)) :
  0 < b2 -> zlen c = b2 -> Forall (wf_item s) c ->
  (let v := squeeze m (mkarr (1 :: b2 :: s) (concat (map dat c))) in
   match m with
   | Bare => if 1 <? b2 then map (squeeze Bare) (split0 b2 v) else [v]
   | Axis0 => map (squeeze Axis0) (split0 b2 v)
   end) = map (squeeze_item m) c.
Proof.
  intros Hb L F.
  assert (Fd : Forall (fun d => length d = Z.to_nat (size s)) (map dat c)).
  { apply Forall_forall. intros d Hd. apply in_map_iff in Hd as [a [Ea Ha]]. subst d.
    rewrite Forall_forall in F. destruct (F a Ha) as [_ H]. exact H. }
  assert (Ld : zlen (map dat c) = b2) by (unfold zlen in *; rewrite map_length; exact L).
  destruct m; cbv zeta.
  - (* bare squeeze *)
    change (squeeze Bare) with (@squeeze_all A).
    rewrite squeeze_all_lead1.
    destruct (Z.ltb_spec 1 b2) as [G|G].
    + rewrite squeeze_all_keep by lia.
      rewrite split0_full with (m := Z.to_nat (size s)); try assumption.
      2:{ rewrite size_filter_not_one. reflexivity. }
      rewrite !map_map. apply map_ext_in. intros a Ha.
      rewrite Forall_forall in F. destruct (F a Ha) as [Hs _].
      cbv beta. unfold squeeze_item, squeeze_all. cbn [shp dat filter].
      change (not_one 1) with false. cbv iota.
      rewrite filter_not_one_idem, Hs. reflexivity.
    + assert (E1 : b2 = 1) by lia. rewrite E1 in *. rewrite squeeze_all_lead1.
      destruct c as [|a [|a' c']]; unfold zlen in L; cbn [length] in L; try lia.
      cbn [map concat]. rewrite app_nil_r.
      inversion F as [|? ? [Hs _] _]. unfold squeeze_item, squeeze_all. cbn [shp dat].
      rewrite Hs. reflexivity.
  - (* explicit axis *)
    change (squeeze Axis0) with (@squeeze0 A).
    change (squeeze0 (mkarr (1 :: b2 :: s) (concat (map dat c)))) with
      (mkarr (b2 :: s) (concat (map dat c))).
    rewrite split0_full with (m := Z.to_nat (size s)); try assumption; [|reflexivity].
    rewrite !map_map. apply map_ext_in. intros a Ha.
    rewrite Forall_forall in F. destruct (F a Ha) as [Hs _].
    unfold squeeze0, squeeze_item. cbn [shp dat]. rewrite <- Hs. apply arr_eta.
Qed.

Lemma unbatch_arr_spec m s b1 b2 (css : list (list (arr A))) :
  0 < b1 -> 0 < b2 -> zlen css = b1 ->
  Forall (fun c => zlen c = b2 /\ Forall (wf_item s) c) css ->
  unbatch_arr m (mkarr (b1 :: b2 :: s) (concat (map (fun c => concat (map dat c)) css))) =
  map (squeeze_item m) (concat css).
Proof.
  intros H1 H2 L F. unfold unbatch_arr. cbn [shp].
  rewrite split0_full with (m := Z.to_nat (size (b2 :: s))); try assumption.
  - rewrite map_map, flat_map_map_l.
    rewrite <- flat_map_map_concat. apply flat_map_ext_in. intros c Hc.
    rewrite Forall_forall in F. destruct (F c Hc) as [Lc Fc].
    apply (unbatch_row m s b2 c H2 Lc Fc).
  - unfold zlen in *. rewrite map_length. exact L.
  - reflexivity.
  - apply Forall_forall. intros d Hd. apply in_map_iff in Hd as [c [Ec Hc]]. subst d.
    rewrite Forall_forall in F. destruct (F c Hc) as [Lc Fc].
    rewrite row_data_length with (s := s) (b := length c) by auto.
    rewrite size_cons. rewrite <- Lc. unfold zlen. rewrite to_nat_mul_nat. reflexivity.
Qed.

(* round trip on arrays: batch then unbatch gives the items back in order; with the bare
   squeeze every unit dimension of the item shape is lost, with explicit axes nothing is *)
Lemma unbatch_batch_arr m (xs : list (arr A)) D s :
  0 < D -> zlen xs mod D = 0 -> xs <> [] -> Forall (wf_item s) xs ->
  exists a, batch_arr xs D = Some a /\ unbatch_arr m a = map (squeeze_item m) xs.
Proof.
  intros HD Hm Hne F.
  destruct (batch_divisible xs D HD Hm Hne) as [cs [E [C [L Fc]]]].
  eexists. split; [apply batch_arr_spec; eassumption|].
  assert (Hn : 0 < zlen xs) by (destruct xs; [congruence | rewrite zlen_cons; pose proof (zlen_nonneg xs); lia]).
  assert (Hq : 0 < zlen xs / D).
  { apply Z.mod_divide in Hm; [|lia]. destruct Hm as [q Eq]. rewrite Eq, Z.div_mul by lia. nia. }
  rewrite <- C at 2. rewrite <- concat_rows_data.
  rewrite unbatch_arr_spec with (css := cs); try assumption.
  - rewrite C. reflexivity.
  - apply Forall_forall. intros c Hc. rewrite Forall_forall in Fc. split; [apply Fc; exact Hc|].
    apply Forall_forall. intros a Ha. rewrite Forall_forall in F. apply F.
    rewrite <- C. apply in_concat. exists c. split; assumption.
Qed.

Lemma squeeze_item_id s (xs : list (arr A)) :
  no_unit_dims s = true -> Forall (wf_item s) xs -> map (squeeze_item Bare) xs = xs.
Proof.
  intros Hs F. rewrite <- (map_id xs) at 2. apply map_ext_in. intros a Ha.
  rewrite Forall_forall in F. destruct (F a Ha) as [E _].
  unfold squeeze_item, squeeze_all. rewrite E, filter_no_unit by exact Hs.
  rewrite <- E. apply arr_eta.
Qed.

End Arr.

(* ---------- shape preservation ---------- *)
Lemma squeeze_safe_lemma {A} (xs : list (arr A)) D s :
  0 < D -> zlen xs mod D = 0 -> xs <> [] -> Forall (wf_item s) xs ->
  no_unit_dims s = true ->
  exists a, batch_arr xs D = Some a /\ unbatch_arr Bare a = xs.
Proof.
  intros HD Hm Hne F Hs.
  destruct (unbatch_batch_arr Bare xs D s HD Hm Hne F) as [a [E U]].
  exists a. split; [exact E|]. rewrite U. apply (squeeze_item_id s); assumption.
Qed.

Lemma axis0_safe_lemma {A} (xs : list (arr A)) D s :
  0 < D -> zlen xs mod D = 0 -> xs <> [] -> Forall (wf_item s) xs ->
  exists a, batch_arr xs D = Some a /\ unbatch_arr Axis0 a = xs.
Proof.
  intros HD Hm Hne F.
  destruct (unbatch_batch_arr Axis0 xs D s HD Hm Hne F) as [a [E U]].
  exists a. split; [exact E|]. rewrite U. unfold squeeze_item. apply map_id.
Qed.

(* the data always survive, in order, whatever the shape does *)
Lemma unbatch_data_lemma {A} m (xs : list (arr A)) D s :
  0 < D -> zlen xs mod D = 0 -> xs <> [] -> Forall (wf_item s) xs ->
  exists a, batch_arr xs D = Some a /\ map dat (unbatch_arr m a) = map dat xs.
Proof.
  intros HD Hm Hne F.
  destruct (unbatch_batch_arr m xs D s HD Hm Hne F) as [a [E U]].
  exists a. split; [exact E|]. rewrite U, map_map. apply map_ext. intro x. destruct m; reflexivity.
Qed.

(* the statement without the no-unit-dims hypothesis is false of the code as written:
   a single 1x1 statistic on one device comes back as a 0-dimensional array *)
Lemma squeeze_unsafe_witness :
  exists (xs : list (arr Z)) D s a,
    0 < D /\ zlen xs mod D = 0 /\ xs <> [] /\ Forall (wf_item s) xs /\
    batch_arr xs D = Some a /\ unbatch_arr Bare a <> xs /\
    map shp (unbatch_arr Bare a) = [[]].
Proof.
  exists [tagged [1; 1] 0], 1, [1; 1], (mkarr [1; 1; 1; 1] [0]).
  repeat split; try (vm_compute; congruence).
  - constructor; [|constructor]. split; reflexivity.
Qed.
