(* Stable copy of the translation (tools/py2v_gate.py) of the four preconditioner acceptance gates of
   precondition/distributed_shampoo.py; compared with the regenerated gen/C03/Gen.v on every run. *)
From Precond Require Import C03.FloatCls.

Definition pmap_skip (inverse_failure_threshold error : fv) : bool :=
  let condition := ((isnan error) || (fleb inverse_failure_threshold error)) in condition.
Definition pmap_select {A : Type} (inverse_failure_threshold error : fv) (new_p old_p : A) : A :=
  (if (pmap_skip inverse_failure_threshold error) then old_p else new_p).
Definition qpmap_skip (inverse_failure_threshold error : fv) : bool :=
  let condition := ((isnan error) || (fleb inverse_failure_threshold error)) in condition.
Definition qpmap_select {A : Type} (inverse_failure_threshold error : fv) (new_p old_p : A) : A :=
  (if (qpmap_skip inverse_failure_threshold error) then old_p else new_p).
Definition pjit_skip (inverse_failure_threshold error : fv) : bool :=
  let condition := ((isnan error) || (fleb inverse_failure_threshold error)) in condition.
Definition pjit_select {A : Type} (inverse_failure_threshold error : fv) (new_p old_p : A) : A :=
  (if (pjit_skip inverse_failure_threshold error) then old_p else new_p).
Definition sharded_predicate (inverse_failure_threshold errors : fv) : bool :=
  ((isnan errors) || (fleb inverse_failure_threshold errors)).
Definition sharded_select {A : Type} (inverse_failure_threshold errors : fv) (new_p old_p : A) : A :=
  (if (sharded_predicate inverse_failure_threshold errors) then old_p else new_p).
