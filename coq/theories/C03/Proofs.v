(* C03/Proofs.v — facts about the fault lattice and the acceptance gate. *)
From Precond Require Import C03.FloatCls C03.Model.
From Coq Require Import Lia.

(* ---------- lattice facts ---------- *)
Lemma fltb_irrefl x : fltb x x = false.
Proof.
  destruct x as [q| | |]; simpl; try reflexivity.
  assert (H : Qle_bool q q = true) by (apply Qle_bool_iff; apply Qle_refl).
  now rewrite H.
Qed.

Lemma fleb_refl_nonnan x : isnan x = false -> fleb x x = true.
Proof.
  destruct x as [q| | |]; simpl; intro H; try reflexivity; try discriminate.
  apply Qle_bool_iff; apply Qle_refl.
Qed.

Lemma Qle_bool_total a b : Qle_bool a b = false -> Qle_bool b a = true.
Proof.
  intro H. apply Qle_bool_iff. destruct (Qlt_le_dec b a) as [L|L].
  - apply Qlt_le_weak; exact L.
  - apply Qle_bool_iff in L. congruence.
Qed.

(* not (thr <= e), neither NaN  ==>  e < thr *)
Lemma not_fleb_fltb thr e :
  isnan thr = false -> isnan e = false -> fleb thr e = false -> fltb e thr = true.
Proof.
  destruct thr as [a| | |], e as [b| | |]; simpl; intros H1 H2 H3;
    try reflexivity; try discriminate.
  now rewrite H3.
Qed.

Lemma fmul_zero_nan : fmul (FFin 0) FNaN = FNaN.   Proof. reflexivity. Qed.
Lemma fmul_nan_l x : fmul FNaN x = FNaN.           Proof. now destruct x. Qed.
Lemma fmul_nan_r x : fmul x FNaN = FNaN.           Proof. now destruct x. Qed.
Lemma fadd_nan_l x : fadd FNaN x = FNaN.           Proof. now destruct x. Qed.
Lemma fadd_nan_r x : fadd x FNaN = FNaN.           Proof. now destruct x. Qed.
Lemma fmul_zero_pinf : fmul (FFin 0) FPInf = FNaN. Proof. reflexivity. Qed.
Lemma fsub_inf_inf : fsub FPInf FPInf = FNaN.      Proof. reflexivity. Qed.

(* ---------- the gate ---------- *)
Lemma skip_nan thr : skip thr FNaN = true.
Proof. reflexivity. Qed.

Lemma skip_at_threshold thr : skip thr thr = true.
Proof.
  unfold skip. destruct (isnan thr) eqn:E; [reflexivity|].
  simpl. now apply fleb_refl_nonnan.
Qed.

Lemma select_skip {A} thr e (new old : A) : skip thr e = true -> select thr e new old = old.
Proof. unfold select. now intros ->. Qed.

Lemma select_noskip {A} thr e (new old : A) : skip thr e = false -> select thr e new old = new.
Proof. unfold select. now intros ->. Qed.

Lemma noskip_verified thr e :
  isnan thr = false -> e <> FNInf -> skip thr e = false -> verified thr e = true.
Proof.
  unfold skip, verified. intros Ht Hn H.
  apply orb_false_iff in H as [Hnan Hle].
  pose proof (not_fleb_fltb thr e Ht Hnan Hle) as Hlt.
  rewrite Hlt, andb_true_r.
  destruct e as [q| | |]; try reflexivity; try discriminate.
  - (* +Inf < thr is impossible *) destruct thr; discriminate.
  - congruence.
Qed.

Lemma verified_noskip thr e : verified thr e = true -> skip thr e = false.
Proof.
  unfold skip, verified. intro H. apply andb_true_iff in H as [Hf Hlt].
  destruct e as [b| | |]; try discriminate.
  destruct thr as [a| | |]; simpl in *; try discriminate; try reflexivity.
  destruct (Qle_bool a b); [discriminate | reflexivity].
Qed.

Lemma select_old_or_verified {A} (thr e : fv) (new old r : A) :
  isnan thr = false -> e <> FNInf ->
  r = select thr e new old ->
  r = old \/ (r = new /\ isfinite e = true /\ fltb e thr = true).
Proof.
  intros Ht Hn ->. destruct (skip thr e) eqn:E.
  - left. now apply select_skip.
  - right. split; [now apply select_noskip|].
    pose proof (noskip_verified thr e Ht Hn E) as V.
    unfold verified in V. now apply andb_true_iff in V.
Qed.

(* the two side conditions are necessary: the literal statement fails without them *)
Lemma select_unconditional_refuted :
  (exists thr e, isnan thr = false /\ select thr e true false = true /\ isfinite e = false) /\
  (exists thr e, e <> FNInf /\ select thr e true false = true /\ fltb e thr = false).
Proof.
  split.
  - exists (FFin 0), FNInf. repeat split; reflexivity.
  - exists FNaN, FPInf. repeat split; try reflexivity. discriminate.
Qed.

Lemma nan_error_keeps_old {A} (thr : fv) (new old : A) : select thr FNaN new old = old.
Proof. apply select_skip, skip_nan. Qed.

Lemma nonrefresh_keeps_old {A} (thr : fv) (dummy old : A) : select thr thr dummy old = old.
Proof. apply select_skip, skip_at_threshold. Qed.

Lemma select_changes_only_if_verified {A} (thr e : fv) (new old : A) :
  isnan thr = false -> e <> FNInf ->
  select thr e new old <> old -> verified thr e = true.
Proof.
  intros Ht Hn H. destruct (skip thr e) eqn:E.
  - exfalso. apply H. now apply select_skip.
  - now apply noskip_verified.
Qed.

Lemma quantized_select_consistent {A B C} (thr e : fv) (new old : A * B * C) :
  qselect thr e new old = select thr e new old /\
  (qselect thr e new old = old \/
   (qselect thr e new old = new /\ skip thr e = false)).
Proof.
  destruct new as [[nq nd] nb], old as [[oq od] ob]. unfold qselect, select.
  destruct (skip thr e); split; auto.
Qed.

(* ---------- sharded: arithmetic blend ---------- *)
Lemma sharded_blend_refuted :
  exists thr e old new,
    skip thr e = true /\ all_finite old = true /\
    fsame_list (blend thr e old new) old = false /\ blend thr e old new <> old /\
    all_finite (blend thr e old new) = false.
Proof.
  exists (FFin (1 # 10)), FNaN, [FFin 1], [FNaN].
  repeat split; try reflexivity. discriminate.
Qed.

(* the same with a finite-but-too-large error and an infinite candidate entry *)
Lemma sharded_blend_refuted_inf :
  exists thr e old new,
    skip thr e = true /\ isfinite e = true /\ all_finite old = true /\
    all_finite (blend thr e old new) = false.
Proof.
  exists (FFin (1 # 10)), (FFin 1), [FFin 1], [FPInf]. repeat split; reflexivity.
Qed.

(* once poisoned, never repaired: 1*NaN + 0*new = NaN and 0*NaN + 1*new = NaN *)
Lemma blend1_nan_sticky p n : blend1 p FNaN n = FNaN.
Proof. unfold blend1. rewrite fmul_nan_r. apply fadd_nan_l. Qed.

Lemma sharded_blend_poison_sticky thr e n : blend thr e [FNaN] [n] = [FNaN].
Proof. unfold blend. simpl. now rewrite blend1_nan_sticky. Qed.

Lemma blend_nan_cons thr e c cs : blend thr e [FNaN] (c :: cs) = [FNaN].
Proof. unfold blend. cbn [map2]. now rewrite blend1_nan_sticky. Qed.

(* why the existing tests never see it: with finite operands the blend is a select *)
Lemma blend1_finite_skip o n :
  isfinite o = true -> isfinite n = true -> fsame (blend1 (FFin 1) o n) o = true.
Proof.
  destruct o as [a| | |], n as [b| | |]; simpl; intros; try discriminate.
  apply Qeq_bool_iff. ring.
Qed.

Lemma blend1_finite_noskip o n :
  isfinite o = true -> isfinite n = true -> fsame (blend1 (FFin 0) o n) n = true.
Proof.
  destruct o as [a| | |], n as [b| | |]; simpl; intros; try discriminate.
  apply Qeq_bool_iff. ring.
Qed.

Lemma blend_finite_is_select thr e : forall old new,
  all_finite old = true -> all_finite new = true -> length old = length new ->
  fsame_list (blend thr e old new) (select thr e new old) = true.
Proof.
  unfold blend, pred_fv, select. destruct (skip thr e).
  - induction old as [|o old IH]; intros [|n new] Ho Hn HL; simpl in *; try reflexivity;
      try discriminate.
    apply andb_true_iff in Ho as [Ho1 Ho2]. apply andb_true_iff in Hn as [Hn1 Hn2].
    rewrite (blend1_finite_skip o n Ho1 Hn1). simpl. apply IH; auto.
  - induction old as [|o old IH]; intros [|n new] Ho Hn HL; simpl in *; try reflexivity;
      try discriminate.
    apply andb_true_iff in Ho as [Ho1 Ho2]. apply andb_true_iff in Hn as [Hn1 Hn2].
    rewrite (blend1_finite_noskip o n Ho1 Hn1). simpl. apply IH; auto.
Qed.

(* ---------- sharded: where-select (repaired) ---------- *)
Lemma wselect_is_select thr e : forall old new,
  length old = length new -> wselect thr e old new = select thr e new old.
Proof.
  unfold wselect, select. destruct (skip thr e).
  - induction old as [|o old IH]; intros [|n new] HL; simpl in *; try reflexivity;
      try discriminate. f_equal. apply IH. now inversion HL.
  - induction old as [|o old IH]; intros [|n new] HL; simpl in *; try reflexivity;
      try discriminate. f_equal. apply IH. now inversion HL.
Qed.

Lemma sharded_select_old_or_verified (thr e : fv) (old new r : list fv) :
  isnan thr = false -> e <> FNInf -> length old = length new ->
  r = wselect thr e old new ->
  r = old \/ (r = new /\ isfinite e = true /\ fltb e thr = true).
Proof.
  intros Ht Hn HL ->. rewrite (wselect_is_select thr e old new HL).
  now apply select_old_or_verified.
Qed.

(* ---------- finiteness invariant over all histories ---------- *)
Lemma map2_all_finite (f : fv -> fv -> fv) (P : fv -> fv -> Prop) :
  (forall o n, P o n -> isfinite (f o n) = true) ->
  forall old new, (forall o n, In (o, n) (combine old new) -> P o n) ->
  all_finite (map2 f old new) = true.
Proof.
  intros Hf. induction old as [|o old IH]; intros [|n new] H; simpl; try reflexivity.
  rewrite (Hf o n) by (apply H; now left). simpl. apply IH. intros; apply H; now right.
Qed.

Lemma all_finite_In l x : all_finite l = true -> In x l -> isfinite x = true.
Proof. unfold all_finite. rewrite forallb_forall. auto. Qed.

Lemma wselect_finite thr e old new :
  (skip thr e = true -> all_finite old = true) ->
  (skip thr e = false -> all_finite new = true) ->
  all_finite (wselect thr e old new) = true.
Proof.
  intros Ho Hn. unfold wselect.
  apply (map2_all_finite _ (fun o n => In o old /\ In n new)).
  - intros o n [Io In']. destruct (skip thr e).
    + apply (all_finite_In old); auto.
    + apply (all_finite_In new); auto.
  - intros o n H. split; [eapply in_combine_l | eapply in_combine_r]; eauto.
Qed.

Lemma sel_select_finite thr e old new :
  (skip thr e = true -> all_finite old = true) ->
  (skip thr e = false -> all_finite new = true) ->
  all_finite (sel_select thr e old new) = true.
Proof. unfold sel_select, select. destruct (skip thr e); auto. Qed.

Section Invariant.
  Variable S : Type.
  Variable upd : S -> list fv -> S.
  Variable root : S -> list fv * fv.
  Variable dummy : S -> list fv.
  Variable refresh : Z -> bool.
  Variable thr : fv.
  Variable sel : fv -> fv -> list fv -> list fv -> list fv.

  (* the ONLY thing assumed about the root kernel: a finite reported error comes with a finite
     root, and the reported error (a max of absolute values) is never -Inf.  Monitored at run time. *)
  Hypothesis root_finite : forall s, isfinite (snd (root s)) = true -> all_finite (fst (root s)) = true.
  Hypothesis root_err_not_ninf : forall s, snd (root s) <> FNInf.
  Hypothesis thr_not_nan : isnan thr = false.
  (* the selection primitive is a genuine select as far as finiteness goes *)
  Hypothesis sel_ok : forall e old new,
    (skip thr e = true -> all_finite old = true) ->
    (skip thr e = false -> all_finite new = true) ->
    all_finite (sel thr e old new) = true.

  Let stepM := step S upd root dummy refresh thr sel.
  Let runM := run S upd root dummy refresh thr sel.

  Lemma step_preserves_finite x g :
    all_finite (precond x) = true -> all_finite (precond (stepM x g)) = true.
  Proof.
    intro Hx. unfold stepM, step. simpl. apply sel_ok; [auto|].
    intro Hs. unfold candidate in *. destruct (refresh (count x)).
    - apply root_finite.
      pose proof (noskip_verified thr _ thr_not_nan (root_err_not_ninf (upd (stats x) g)) Hs) as V.
      unfold verified in V. now apply andb_true_iff in V.
    - simpl in Hs. now rewrite skip_at_threshold in Hs.
  Qed.

  Lemma run_preserves_finite gs : forall x,
    all_finite (precond x) = true -> all_finite (precond (runM x gs)) = true.
  Proof.
    induction gs as [|g gs IH]; intros x Hx; [exact Hx|].
    unfold runM, run in *. simpl. apply IH. now apply step_preserves_finite.
  Qed.

  (* every prefix, i.e. every stored preconditioner along the way *)
  Lemma all_prefixes_finite gs x :
    all_finite (precond x) = true ->
    forall k, all_finite (precond (runM x (firstn k gs))) = true.
  Proof. intros Hx k. now apply run_preserves_finite. Qed.

  (* a transition changes the stored preconditioner only on a refresh step with a verified error *)
  Lemma step_changes_only_if_verified x g :
    (forall e old new, skip thr e = true -> sel thr e old new = old) ->
    precond (stepM x g) <> precond x ->
    refresh (count x) = true /\ verified thr (snd (root (upd (stats x) g))) = true.
  Proof.
    intros Hsel Hneq. unfold stepM, step, candidate in Hneq. simpl in Hneq.
    destruct (refresh (count x)) eqn:R.
    - split; [reflexivity|].
      destruct (skip thr (snd (root (upd (stats x) g)))) eqn:E.
      + exfalso. apply Hneq. now apply Hsel.
      + apply noskip_verified; auto.
    - exfalso. apply Hneq. apply Hsel. simpl. apply skip_at_threshold.
  Qed.
End Invariant.

Lemma precond_finite_invariant :
  forall (S : Type) (upd : S -> list fv -> S) (root : S -> list fv * fv) (dummy : S -> list fv)
         (refresh : Z -> bool) (thr : fv),
    (forall s, isfinite (snd (root s)) = true -> all_finite (fst (root s)) = true) ->
    (forall s, snd (root s) <> FNInf) ->
    isnan thr = false ->
    forall (x0 : st S) (gs : list (list fv)) (k : nat),
      all_finite (precond x0) = true ->
      all_finite (precond (run S upd root dummy refresh thr sel_select x0 (firstn k gs))) = true.
Proof.
  intros S upd root dummy refresh thr H1 H2 H3 x0 gs k Hx.
  apply (all_prefixes_finite S upd root dummy refresh thr sel_select H1 H2 H3); auto.
  intros; now apply sel_select_finite.
Qed.

Lemma sharded_where_finite_invariant :
  forall (S : Type) (upd : S -> list fv -> S) (root : S -> list fv * fv) (dummy : S -> list fv)
         (refresh : Z -> bool) (thr : fv),
    (forall s, isfinite (snd (root s)) = true -> all_finite (fst (root s)) = true) ->
    (forall s, snd (root s) <> FNInf) ->
    isnan thr = false ->
    forall (x0 : st S) (gs : list (list fv)) (k : nat),
      all_finite (precond x0) = true ->
      all_finite (precond (run S upd root dummy refresh thr wselect x0 (firstn k gs))) = true.
Proof.
  intros S upd root dummy refresh thr H1 H2 H3 x0 gs k Hx.
  apply (all_prefixes_finite S upd root dummy refresh thr wselect H1 H2 H3); auto.
  intros; now apply wselect_finite.
Qed.

Lemma transition_changes_only_if_verified :
  forall (S : Type) (upd : S -> list fv -> S) (root : S -> list fv * fv) (dummy : S -> list fv)
         (refresh : Z -> bool) (thr : fv),
    (forall s, snd (root s) <> FNInf) -> isnan thr = false ->
    forall (x : st S) (g : list fv),
      precond (step S upd root dummy refresh thr sel_select x g) <> precond x ->
      refresh (count x) = true /\ verified thr (snd (root (upd (stats x) g))) = true.
Proof.
  intros S upd root dummy refresh thr H2 H3 x g.
  apply (step_changes_only_if_verified S upd root dummy refresh thr sel_select H2 H3).
  intros e old new Hs. unfold sel_select. now apply select_skip.
Qed.

(* the blend machine violates the invariant although the kernel satisfies the oracle hypothesis:
   one NaN gradient (statistics become NaN, the kernel reports a NaN error and a NaN candidate) *)
Definition poison_upd (s : fv) (g : list fv) : fv := fold_left fadd g s.
Definition poison_root (s : fv) : list fv * fv :=
  if isfinite s then ([FFin 1], FFin 0) else ([FNaN], FNaN).

Lemma sharded_blend_history_refuted :
  exists (thr : fv) (x0 : st fv) (gs : list (list fv)),
    (forall s, isfinite (snd (poison_root s)) = true -> all_finite (fst (poison_root s)) = true) /\
    (forall s, snd (poison_root s) <> FNInf) /\
    isnan thr = false /\
    all_finite (precond x0) = true /\
    all_finite (precond (run fv poison_upd poison_root (fun s => [s]) (fun _ => true) thr
                             blend x0 gs)) = false /\
    (* and it never recovers, whatever finite gradients follow *)
    (forall more, Forall (fun g => all_finite g = true) more ->
       precond (run fv poison_upd poison_root (fun s => [s]) (fun _ => true) thr blend x0
                    (gs ++ more)) = [FNaN]).
Proof.
  exists (FFin (1 # 10)), (mkst (FFin 0) [FFin 1] 0%Z), [[FNaN]].
  split; [|split; [|split; [|split; [|split]]]]; try reflexivity.
  - intros s. unfold poison_root. destruct (isfinite s); simpl; [reflexivity | discriminate].
  - intros s. unfold poison_root. destruct (isfinite s); simpl; discriminate.
  - intros more _. unfold run. rewrite fold_left_app. simpl fold_left at 2.
    set (x1 := step _ _ _ _ _ _ _ _ _).
    assert (Hx1 : precond x1 = [FNaN]) by reflexivity.
    clearbody x1. revert x1 Hx1.
    induction more as [|g more IH]; intros x1 Hx1; [exact Hx1|].
    simpl. apply IH. unfold step at 1. cbn [precond stats count]. rewrite Hx1.
    unfold candidate, poison_root.
    destruct (isfinite (poison_upd (stats x1) g)); cbn [fst snd]; apply blend_nan_cons.
Qed.
