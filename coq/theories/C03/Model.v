(* C03/Model.v — executable model of the preconditioner acceptance gate of
   precondition/distributed_shampoo.py.  Definitions only.

   _skip(error)                 = isnan(error) or error >= inverse_failure_threshold
   _select_preconditioner       = lax.cond(_skip(error), old, new)            (replicated / pmap)
   quantized mode               = the same lax.cond applied to (quantized, diagonal, bucket_size)
   sharded mode (unrepaired)    = predicate*old + (1-predicate)*new   element-wise, IEEE arithmetic
   sharded mode (repaired)      = where(predicate, old, new)
   non-refresh steps            : error := inverse_failure_threshold, new := slice of statistics *)
From Precond Require Import C03.FloatCls.

Definition skip (thr e : fv) : bool := isnan e || fleb thr e.

Definition select {A : Type} (thr e : fv) (new old : A) : A :=
  if skip thr e then old else new.

(* "verified root": the reported error is finite and strictly below the threshold *)
Definition verified (thr e : fv) : bool := isfinite e && fltb e thr.

(* quantized preconditioner = (int16 matrix, diagonal, bucket sizes); three lax.cond on one flag *)
Definition qselect {A B C : Type} (thr e : fv) (new old : A * B * C) : A * B * C :=
  let '(nq, nd, nb) := new in
  let '(oq, od, ob) := old in
  (select thr e nq oq, select thr e nd od, select thr e nb ob).

(* sharded: arithmetic blend, as the unrepaired code computes it *)
Definition pred_fv (thr e : fv) : fv := if skip thr e then FFin 1 else FFin 0.
Definition blend1 (p o n : fv) : fv := fadd (fmul p o) (fmul (fsub (FFin 1) p) n).
Definition blend (thr e : fv) (old new : list fv) : list fv := map2 (blend1 (pred_fv thr e)) old new.

(* sharded: element-wise where-select (repaired code) *)
Definition wselect (thr e : fv) (old new : list fv) : list fv :=
  map2 (fun o n => if skip thr e then o else n) old new.

(* ---------------------------------------------------------------------------------------------
   History machine for ONE statistic.  Everything the gate does not control is arbitrary:
   S       the statistics (any type), upd their update from a gradient of arbitrary fv entries,
   root    the inverse-pth-root kernel: candidate preconditioner and reported error,
   dummy   what non-refresh steps pass as the "new" value (a slice of the statistics),
   refresh the schedule (step number -> is a root computed),
   sel     the selection primitive (select / blend / wselect). *)
Section Machine.
  Variable S : Type.
  Variable upd : S -> list fv -> S.
  Variable root : S -> list fv * fv.
  Variable dummy : S -> list fv.
  Variable refresh : Z -> bool.
  Variable thr : fv.
  Variable sel : fv -> fv -> list fv -> list fv -> list fv.   (* thr e old new *)

  Record st : Type := mkst { stats : S; precond : list fv; count : Z }.

  Definition candidate (s : S) (t : Z) : list fv * fv :=
    if refresh t then root s else (dummy s, thr).

  Definition step (x : st) (g : list fv) : st :=
    let s' := upd (stats x) g in
    let c := candidate s' (count x) in
    mkst s' (sel thr (snd c) (precond x) (fst c)) (count x + 1)%Z.

  Definition run (x : st) (gs : list (list fv)) : st := fold_left step gs x.
End Machine.

Arguments mkst {S}.
Arguments stats {S}.
Arguments precond {S}.
Arguments count {S}.

Definition sel_select (thr e : fv) (old new : list fv) : list fv := select thr e new old.

(* ---------------------------------------------------------------------------------------------
   Correspondence: one observed transition of one stored preconditioner.
     refresh  : a root was computed at this step (count mod preconditioning_compute_steps = 0)
     e        : reported inverse_pth_root_error (only meaningful when refresh)
     changed  : stored leaves after the update differ bitwise from those before
   Codes: 0 consistent; 1 model keeps old but the implementation changed the preconditioner;
          2 model takes the new root but the implementation's preconditioner is bitwise unchanged
            (benign only if the new root equals the old one: decided by the caller). *)
Definition tr_code (thr : fv) (refresh : bool) (e : fv) (changed : bool) : Z :=
  let e' := if refresh then e else thr in
  if skip thr e' then (if changed then 1%Z else 0%Z)
  else (if changed then 0%Z else 2%Z).

(* property oracle decided in Coq: unchanged, or (refresh and verified error) *)
Definition tr_prop (thr : fv) (refresh : bool) (e : fv) (changed : bool) : bool :=
  negb changed || (refresh && verified thr e).

Fixpoint index_codes (k : Z) (l : list (Z * bool)) : list (Z * Z) :=
  match l with
  | [] => []
  | (c, p) :: t =>
      let rest := index_codes (k + 1)%Z t in
      if (Z.eqb c 0 && p)%bool then rest else (k, if p then c else (c + 10)%Z) :: rest
  end.

(* a whole history of one preconditioner: returns the (index, code) pairs that are not clean;
   code+10 marks a transition on which the property itself fails *)
Definition chk_history (thr : fv) (trs : list (bool * fv * bool)) : list (Z * Z) :=
  index_codes 0%Z
    (map (fun t => let '(r, e, c) := t in (tr_code thr r e c, tr_prop thr r e c)) trs).
