(* Every acceptance gate in the source (pmap, quantized pmap, pjit: _skip / _select_preconditioner;
   sharded: predicate / jnp.where) is the model's skip / select. *)
From Precond Require Import C03.FloatCls C03.Model.
From Precond Require C03.Ref C03.Proofs.

Lemma source_skips_are_model : forall thr e,
  Ref.pmap_skip thr e = skip thr e /\ Ref.qpmap_skip thr e = skip thr e /\
  Ref.pjit_skip thr e = skip thr e /\ Ref.sharded_predicate thr e = skip thr e.
Proof. intros; repeat split; reflexivity. Qed.

Lemma source_selects_are_model : forall (A : Type) thr e (new old : A),
  Ref.pmap_select thr e new old = select thr e new old /\
  Ref.qpmap_select thr e new old = select thr e new old /\
  Ref.pjit_select thr e new old = select thr e new old /\
  Ref.sharded_select thr e new old = select thr e new old.
Proof. intros; repeat split; reflexivity. Qed.

(* the sharded where-select on a whole statistic is the model's element-wise wselect *)
Lemma sharded_select_is_wselect : forall thr e (old new : list fv),
  length old = length new ->
  Ref.sharded_select thr e new old = wselect thr e old new.
Proof.
  intros thr e old new Hl. unfold Ref.sharded_select, Ref.sharded_predicate, wselect.
  change (isnan e || fleb thr e)%bool with (skip thr e).
  destruct (skip thr e).
  - revert new Hl; induction old as [|o os IH]; intros [|n ns] Hl; simpl in *; try discriminate; auto.
    f_equal. apply IH. congruence.
  - revert new Hl; induction old as [|o os IH]; intros [|n ns] Hl; simpl in *; try discriminate; auto.
    f_equal. apply IH. congruence.
Qed.

(* the headline fact transported to the source's own functions *)
Lemma source_gate_old_or_verified : forall (A : Type) (thr e : fv) (new old : A),
  isnan thr = false -> e <> FNInf ->
  forall r, (r = Ref.pmap_select thr e new old \/ r = Ref.qpmap_select thr e new old \/
             r = Ref.pjit_select thr e new old \/ r = Ref.sharded_select thr e new old) ->
  r = old \/ (r = new /\ isfinite e = true /\ fltb e thr = true).
Proof.
  intros A thr e new old Ht He r Hr.
  apply (@Proofs.select_old_or_verified A thr e new old r Ht He).
  destruct Hr as [H|[H|[H|H]]]; exact H.
Qed.
