(* C03/FloatCls.v — IEEE-754 special-value lattice.  A float is abstracted to
   "a finite rational | +Inf | -Inf | NaN"; the operations follow IEEE for the special values
   (NaN is absorbing and compares false with everything, 0*Inf = NaN, Inf-Inf = NaN).  Finite
   overflow/rounding is NOT modelled: this lattice is about the propagation of faults through the
   acceptance gate, not about magnitudes.  Definitions only (facts are in FloatFacts.v). *)
From Coq Require Export QArith Bool List.
Export ListNotations.

Inductive fv : Type := FFin (q : Q) | FPInf | FNInf | FNaN.

Definition isnan (x : fv) : bool := match x with FNaN => true | _ => false end.
Definition isfinite (x : fv) : bool := match x with FFin _ => true | _ => false end.
Definition isinf (x : fv) : bool := match x with FPInf | FNInf => true | _ => false end.

Definition fneg (x : fv) : fv :=
  match x with FFin q => FFin (- q) | FPInf => FNInf | FNInf => FPInf | FNaN => FNaN end.

Definition fadd (x y : fv) : fv :=
  match x, y with
  | FNaN, _ | _, FNaN => FNaN
  | FFin a, FFin b => FFin (a + b)
  | FPInf, FNInf | FNInf, FPInf => FNaN
  | FPInf, _ | _, FPInf => FPInf
  | FNInf, _ | _, FNInf => FNInf
  end.

Definition fsub (x y : fv) : fv := fadd x (fneg y).

(* (+-Inf) * finite q : sign rule, and 0 * Inf = NaN *)
Definition fmul_inf (pos : bool) (q : Q) : fv :=
  match (q ?= 0)%Q with
  | Eq => FNaN
  | Gt => if pos then FPInf else FNInf
  | Lt => if pos then FNInf else FPInf
  end.

Definition fmul (x y : fv) : fv :=
  match x, y with
  | FNaN, _ | _, FNaN => FNaN
  | FFin a, FFin b => FFin (a * b)
  | FPInf, FFin q | FFin q, FPInf => fmul_inf true q
  | FNInf, FFin q | FFin q, FNInf => fmul_inf false q
  | FPInf, FPInf | FNInf, FNInf => FPInf
  | FPInf, FNInf | FNInf, FPInf => FNInf
  end.

(* IEEE comparisons: anything involving NaN is false *)
Definition fleb (x y : fv) : bool :=
  match x, y with
  | FNaN, _ | _, FNaN => false
  | FFin a, FFin b => Qle_bool a b
  | FNInf, _ => true
  | _, FPInf => true
  | _, _ => false
  end.

Definition fltb (x y : fv) : bool :=
  match x, y with
  | FNaN, _ | _, FNaN => false
  | FFin a, FFin b => negb (Qle_bool b a)
  | FNInf, FNInf => false
  | FPInf, FPInf => false
  | FNInf, _ => true
  | _, FPInf => true
  | _, _ => false
  end.

Definition fgeb (x y : fv) : bool := fleb y x.

(* same value (rational equality on finite values; the three specials are each one class) *)
Definition fsame (x y : fv) : bool :=
  match x, y with
  | FFin a, FFin b => Qeq_bool a b
  | FPInf, FPInf | FNInf, FNInf | FNaN, FNaN => true
  | _, _ => false
  end.

Definition all_finite (l : list fv) : bool := forallb isfinite l.

Fixpoint fsame_list (a b : list fv) : bool :=
  match a, b with
  | [], [] => true
  | x :: s, y :: t => fsame x y && fsame_list s t
  | _, _ => false
  end.

Fixpoint map2 {A B C} (f : A -> B -> C) (l1 : list A) (l2 : list B) : list C :=
  match l1, l2 with
  | x :: s, y :: t => f x y :: map2 f s t
  | _, _ => []
  end.
