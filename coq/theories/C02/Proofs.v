(* C02/Proofs.v — facts about the documented update formulas, for all inputs. *)
From Precond Require Import Base.PyLib Base.QMat Base.PyFloat C06.Records C06.Ref C06.BlockProofs C02.Records C02.Ref C02.Model.
From Coq Require Import QArith Lqa Lia.
Open Scope Q_scope.

(* ---------- statistics: exponential accumulation closed form ---------- *)
Fixpoint qpow (q : Q) (n : nat) : Q := match n with O => 1 | S n' => q * qpow q n' end.
Fixpoint ema_sum (w1 : Q) (xs : list Q) : Q :=
  match xs with [] => 0 | x :: r => qpow w1 (length r) * x + ema_sum w1 r end.

Lemma ema_fold w1 w2 : forall xs s,
  fold_left (fun s x => w1 * s + w2 * x) xs s == qpow w1 (length xs) * s + w2 * ema_sum w1 xs.
Proof.
  induction xs as [|x r IH]; intro s; cbn [fold_left length qpow ema_sum]; [ring|].
  rewrite IH. ring.
Qed.

(* every statistics entry after T statistics steps: beta2^T * S_0 + w2 * sum_t beta2^(T-1-t) x_t
   with x_t the corresponding entry of G_(i) G_(i)^T at statistics step t *)
Theorem stats_closed_form beta2 s0 xs :
  fold_left (fun s x => beta2 * s + w2_of beta2 * x) xs s0
  == qpow beta2 (length xs) * s0 + w2_of beta2 * ema_sum beta2 xs.
Proof. apply ema_fold. Qed.

Lemma qpow_one n : qpow 1 n == 1.
Proof. induction n; simpl; [reflexivity | rewrite IHn; ring]. Qed.

Lemma ema_sum_one xs : ema_sum 1 xs == fold_right Qplus 0 xs.
Proof. induction xs as [|x r IH]; simpl; [reflexivity|]. rewrite IH, qpow_one. ring. Qed.

(* beta2 = 1: plain sum (weight 1, not 1 - beta2 = 0) *)
Theorem stats_sum_when_beta2_is_one s0 xs :
  fold_left (fun s x => 1 * s + w2_of 1 * x) xs s0 == s0 + fold_right Qplus 0 xs.
Proof.
  rewrite (stats_closed_form 1 s0 xs). rewrite qpow_one, ema_sum_one.
  unfold w2_of. simpl. ring.
Qed.

(* ---------- arithmetic blend = switch ---------- *)
Theorem blend_is_switch (run : bool) (a b : Q) :
  let r := if run then 1 else 0 in r * a + (1 - r) * b == if run then a else b.
Proof. destruct run; simpl; ring. Qed.

(* ---------- ordering facts of _transform_grad (the TRANSLATED function C02.Ref.transform_grad) ---------- *)
Notation tg := transform_grad.

(* the destructuring lets of the translated function are stuck on these three tests *)
Ltac unstick g wd dwd :=
  unfold transform_grad;
  destruct ((g =? 2)%Z || (g =? 6)%Z); destruct ((g =? 3)%Z || (g =? 4)%Z);
  destruct (negb (Qeq_bool wd (inject_Z 0)) && negb dwd).

(* decoupled learning rate: the optimizer state does not depend on the learning rate at all *)
Theorem state_independent_of_decoupled_lr :
  forall g b1 b2 lr1 lr2 wd dwd nes mavg de st clip eps step skip param grad pg sd sdm sm,
  snd (tg g b1 b2 lr1 wd dwd true nes mavg de st clip eps step skip param grad pg sd sdm sm)
  = snd (tg g b1 b2 lr2 wd dwd true nes mavg de st clip eps step skip param grad pg sd sdm sm).
Proof. intros. unstick g wd dwd; reflexivity. Qed.

(* ... and the update is an lr-free direction scaled by -lr *)
Theorem update_linear_in_decoupled_lr :
  forall g b1 b2 lr wd dwd nes mavg de st clip eps step skip param grad pg sd sdm sm,
  exists nest,
    fst (tg g b1 b2 lr wd dwd true nes mavg de st clip eps step skip param grad pg sd sdm sm)
      = sv_mul (Qmult (Qopp (1 # 1)) lr) nest /\
    fst (tg g b1 b2 (1 # 1) wd dwd true nes mavg de st clip eps step skip param grad pg sd sdm sm)
      = sv_mul (Qmult (Qopp (1 # 1)) (1 # 1)) nest.
Proof. intros. unstick g wd dwd; (eexists; split; reflexivity). Qed.

(* parameters excluded from preconditioning get the grafting update whatever the preconditioners *)
Theorem skipped_ignores_preconditioner :
  forall g b1 b2 lr wd dwd dlr nes mavg de st clip eps step param grad pg1 pg2 sd sdm sm,
  tg g b1 b2 lr wd dwd dlr nes mavg de st clip eps step true param grad pg1 sd sdm sm
  = tg g b1 b2 lr wd dwd dlr nes mavg de st clip eps step true param grad pg2 sd sdm sm.
Proof. intros. unstick g wd dwd; reflexivity. Qed.

(* decoupled weight decay stays outside the momentum: the new momenta and diagonal statistics do
   not depend on the parameter values *)
Theorem decoupled_wd_outside_momentum :
  forall g b1 b2 lr wd dlr nes mavg de st clip eps step skip param1 param2 grad pg sd sdm sm,
  snd (tg g b1 b2 lr wd true dlr nes mavg de st clip eps step skip param1 grad pg sd sdm sm)
  = snd (tg g b1 b2 lr wd true dlr nes mavg de st clip eps step skip param2 grad pg sd sdm sm).
Proof.
  intros. unfold transform_grad.
  destruct ((g =? 2)%Z || (g =? 6)%Z); destruct ((g =? 3)%Z || (g =? 4)%Z);
  destruct (negb (Qeq_bool wd (inject_Z 0))); reflexivity.
Qed.

(* zero weight decay: the parameter values are irrelevant altogether *)
Theorem no_wd_ignores_params :
  forall g b1 b2 lr wd dwd dlr nes mavg de st clip eps step skip param1 param2 grad pg sd sdm sm,
  Qeq_bool wd (inject_Z 0) = true ->
  tg g b1 b2 lr wd dwd dlr nes mavg de st clip eps step skip param1 grad pg sd sdm sm
  = tg g b1 b2 lr wd dwd dlr nes mavg de st clip eps step skip param2 grad pg sd sdm sm.
Proof.
  intros. unfold transform_grad. rewrite H.
  destruct ((g =? 2)%Z || (g =? 6)%Z); destruct ((g =? 3)%Z || (g =? 4)%Z); reflexivity.
Qed.

(* the arithmetic warm-up blend  run*a + (1-run)*b  on vectors is a switch (exact arithmetic) *)
Definition veq (x y : vec) : Prop := Forall2 Qeq x y.

Lemma vblend_before_start : forall (a b : vec), length a = length b ->
  veq (vv_add (sv_mul (b2q false) a) (sv_mul (Qminus (1 # 1) (b2q false)) b)) b.
Proof.
  unfold veq, vv_add, vmap2, sv_mul, b2q.
  induction a as [|x a IH]; intros [|y b] H; simpl in *; try discriminate; [constructor|].
  constructor; [ring | apply IH; lia].
Qed.

Lemma vblend_from_start : forall (a b : vec), length a = length b ->
  veq (vv_add (sv_mul (b2q true) a) (sv_mul (Qminus (1 # 1) (b2q true)) b)) a.
Proof.
  unfold veq, vv_add, vmap2, sv_mul, b2q.
  induction a as [|x a IH]; intros [|y b] H; simpl in *; try discriminate; [constructor|].
  constructor; [ring | apply IH; lia].
Qed.

(* exponent: twice the number of preconditioned axes unless overridden *)
Theorem exponent_is_2k c tsh :
  (c_expo_override c = 0)%Z ->
  exponent c tsh = (2 * num_preconditioned (c_ptype c)
                          (zlen (snd (block_partitioner_init tsh (c_block c)))))%Z.
Proof. intro H. unfold exponent. rewrite H. simpl. apply exponent_spec. Qed.

(* sqrt_q is a lower approximation, 2^-40 relative *)
Lemma sqrt_q_nonneg x : 0 <= sqrt_q x.
Proof.
  unfold sqrt_q. destruct (Qleb x 0); [apply Qle_refl|].
  unfold Qle. simpl. rewrite Z.mul_1_r. apply Z.sqrt_nonneg.
Qed.
