(* C02/Proofs.v — facts about the documented update formulas, for all inputs. *)
From Precond Require Import Base.PyLib Base.QMat C06.Records C06.Ref C06.BlockProofs C02.Model.
From Coq Require Import QArith Lqa Lia.
Open Scope Q_scope.

(* ---------- statistics: exponential accumulation closed form ---------- *)
Fixpoint qpow (q : Q) (n : nat) : Q := match n with O => 1 | S n' => q * qpow q n' end.
Fixpoint ema_sum (w1 : Q) (xs : list Q) : Q :=
  match xs with [] => 0 | x :: r => qpow w1 (length r) * x + ema_sum w1 r end.

Lemma ema_fold w1 w2 : forall xs s,
  fold_left (fun s x => w1 * s + w2 * x) xs s == qpow w1 (length xs) * s + w2 * ema_sum w1 xs.
Proof.
  induction xs as [|x r IH]; intro s; cbn [fold_left length qpow ema_sum]; [ring|].
  rewrite IH. ring.
Qed.

(* every statistics entry after T statistics steps: beta2^T * S_0 + w2 * sum_t beta2^(T-1-t) x_t
   with x_t the corresponding entry of G_(i) G_(i)^T at statistics step t *)
Theorem stats_closed_form beta2 s0 xs :
  fold_left (fun s x => beta2 * s + w2_of beta2 * x) xs s0
  == qpow beta2 (length xs) * s0 + w2_of beta2 * ema_sum beta2 xs.
Proof. apply ema_fold. Qed.

Lemma qpow_one n : qpow 1 n == 1.
Proof. induction n; simpl; [reflexivity | rewrite IHn; ring]. Qed.

Lemma ema_sum_one xs : ema_sum 1 xs == fold_right Qplus 0 xs.
Proof. induction xs as [|x r IH]; simpl; [reflexivity|]. rewrite IH, qpow_one. ring. Qed.

(* beta2 = 1: plain sum (weight 1, not 1 - beta2 = 0) *)
Theorem stats_sum_when_beta2_is_one s0 xs :
  fold_left (fun s x => 1 * s + w2_of 1 * x) xs s0 == s0 + fold_right Qplus 0 xs.
Proof.
  rewrite (stats_closed_form 1 s0 xs). rewrite qpow_one, ema_sum_one.
  unfold w2_of. simpl. ring.
Qed.

(* ---------- arithmetic blend = switch ---------- *)
Theorem blend_is_switch (run : bool) (a b : Q) :
  let r := if run then 1 else 0 in r * a + (1 - r) * b == if run then a else b.
Proof. destruct run; simpl; ring. Qed.

(* ---------- ordering facts of _transform_grad ---------- *)
Definition set_lr (c : cfg) (lr : Q) : cfg :=
  mkcfg (c_beta1 c) (c_beta2 c) lr (c_wd c) (c_decoupled_wd c) (c_decoupled_lr c) (c_nesterov c)
        (c_moving_avg c) (c_graft c) (c_diag_eps c) (c_start c) (c_stats_every c) (c_block c)
        (c_merge c) (c_best_effort c) (c_ptype c) (c_expo_override c) (c_skip_rank_lt c)
        (c_skip_dim_gt c).

(* decoupled learning rate: the optimizer state does not depend on the learning rate at all *)
Theorem state_independent_of_decoupled_lr c step skip param grad pg s lr1 lr2 :
  c_decoupled_lr c = true ->
  snd (transform (set_lr c lr1) step skip param grad pg s)
  = snd (transform (set_lr c lr2) step skip param grad pg s).
Proof. intro H. unfold transform, set_lr. cbn [c_decoupled_lr c_lr c_graft c_beta2 c_diag_eps c_wd
  c_decoupled_wd c_moving_avg c_beta1 c_start c_nesterov]. rewrite H. reflexivity. Qed.

(* ... and the update is the lr-free direction scaled by -lr *)
Theorem update_linear_in_decoupled_lr c step skip param grad pg s lr :
  c_decoupled_lr c = true ->
  exists nest, fst (transform (set_lr c lr) step skip param grad pg s) = vscale (- lr) nest /\
               fst (transform (set_lr c 1) step skip param grad pg s) = vscale (- (1)) nest.
Proof.
  intro H. unfold transform, set_lr. cbn [c_decoupled_lr c_lr c_graft c_beta2 c_diag_eps c_wd
  c_decoupled_wd c_moving_avg c_beta1 c_start c_nesterov]. rewrite H.
  eexists. split; reflexivity.
Qed.

(* warm-up: before the start step the update does not depend on the preconditioned gradient *)
Theorem warmup_ignores_preconditioner c step skip param grad pg1 pg2 s :
  (step < c_start c)%Z ->
  fst (transform c step skip param grad pg1 s) = fst (transform c step skip param grad pg2 s).
Proof.
  intro H. unfold transform. replace (c_start c <=? step)%Z with false by (symmetry; apply Z.leb_gt; exact H).
  reflexivity.
Qed.

(* parameters excluded from preconditioning get the grafting update whatever the preconditioners *)
Theorem skipped_ignores_preconditioner c step param grad pg1 pg2 s :
  transform c step true param grad pg1 s = transform c step true param grad pg2 s.
Proof. reflexivity. Qed.

(* decoupled weight decay stays outside the momentum: the new momenta and diagonal statistics do
   not depend on the parameter values *)
Theorem decoupled_wd_outside_momentum c step skip param1 param2 grad pg s :
  c_decoupled_wd c = true ->
  snd (transform c step skip param1 grad pg s) = snd (transform c step skip param2 grad pg s).
Proof.
  intro H. unfold transform. rewrite H. rewrite andb_false_r. reflexivity.
Qed.

(* zero weight decay: the parameter values are irrelevant altogether *)
Theorem no_wd_ignores_params c step skip param1 param2 grad pg s :
  c_wd c == 0 ->
  transform c step skip param1 grad pg s = transform c step skip param2 grad pg s.
Proof.
  intro H. unfold transform. apply Qeq_bool_iff in H. rewrite H. reflexivity.
Qed.

(* exponent: twice the number of preconditioned axes unless overridden *)
Theorem exponent_is_2k c tsh :
  (c_expo_override c = 0)%Z ->
  exponent c tsh = (2 * num_preconditioned (c_ptype c)
                          (zlen (snd (block_partitioner_init tsh (c_block c)))))%Z.
Proof. intro H. unfold exponent. rewrite H. simpl. apply exponent_spec. Qed.

(* sqrt_q is a lower approximation to 2^-40: r^2 <= x < (r + 2^-40)^2 for x > 0 *)
Lemma sqrt_q_nonneg x : 0 <= sqrt_q x.
Proof.
  unfold sqrt_q. destruct (Qleb x 0); [apply Qle_refl|].
  unfold Qle. simpl. rewrite Z.mul_1_r. apply Z.sqrt_nonneg.
Qed.
