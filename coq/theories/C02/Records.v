(* C02/Records.v — record shared by the reference model (C02.Ref) and the regenerated translator
   output (gen/C02/Gen.v): the dynamic, unquantized fields of distributed_shampoo.ParameterStats that
   _transform_grad rewrites (diagonal statistics, diagonal momentum, momentum). *)
From Coq Require Import QArith List.
Record ParameterStats := Build_ParameterStats {
  ps_diag : list Q; ps_dmom : list Q; ps_mom : list Q }.
