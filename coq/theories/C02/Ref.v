(* C02/Ref.v — stable reference copy of the translator's output for
   distributed_shampoo._transform_grad on the current tree (tools/py2v_float.py).  The C02 theorems
   and the per-step check use THIS definition; on every run the fresh translation
   (coq/gen/C02/Gen.v) must be equal to it (obligation GenEq_transform_grad, by reflexivity).
   Definitions only. *)
From Precond Require Import Base.PyLib Base.QMat Base.PyFloat C02.Records.
Open Scope Q_scope.

Definition transform_grad (graft_type : Z) (beta1 : Q) (beta2 : Q) (lr_t : Q) (weight_decay : Q) (decoupled_weight_decay : bool) (decoupled_learning_rate : bool) (nesterov : bool) (moving_average_for_momentum : bool) (diagonal_epsilon : Q) (start_preconditioning_step : Z) (clip : Q) (eps25 : Q) (step : Z) (skip : bool) (param : list Q) (grad : list Q) (pgrad : list Q) (s_diag : list Q) (s_dmom : list Q) (s_mom : list Q) : (list Q) * ParameterStats :=
(let sgd_update := grad in
(let new_diagonal_statistics := s_diag in
(let '(new_diagonal_statistics, grafting_update) := (if ((graft_type =? 2)%Z || (graft_type =? 6)%Z) then
(let scaled_grad := grad in
(let scaled_grad := (if (graft_type =? 6)%Z then
(let scaled_grad := (vs_div grad (Qplus (vnorm grad) eps25)) in
scaled_grad)
else
scaled_grad) in
(let new_diagonal_statistics := (vv_add s_diag (vv_mul scaled_grad scaled_grad)) in
(let adagrad_update := (vv_div scaled_grad (vs_add (vsqrt new_diagonal_statistics) diagonal_epsilon)) in
(let grafting_update := adagrad_update in
(new_diagonal_statistics, grafting_update))))))
else
(let '(new_diagonal_statistics, grafting_update) := (if ((graft_type =? 3)%Z || (graft_type =? 4)%Z) then
(let scaled_grad := grad in
(let scaled_grad := (if (graft_type =? 4)%Z then
(let scaled_grad := (vs_div grad (Qplus (vnorm grad) eps25)) in
scaled_grad)
else
scaled_grad) in
(let w1 := beta2 in
(let w2 := (if (Qeq_bool beta2 (1 # 1)) then beta2 else (Qminus (1 # 1) beta2)) in
(let new_diagonal_statistics := (vv_add (sv_mul w1 s_diag) (sv_mul w2 (vv_mul scaled_grad scaled_grad))) in
(let rmsprop_update := (vv_div scaled_grad (vs_add (vsqrt new_diagonal_statistics) diagonal_epsilon)) in
(let rmsprop_update := (if (truthy_q clip) then
(let scaled_grad_norm := (Qdiv (vnorm rmsprop_update) (sqrt_q (inject_Z (zlen rmsprop_update)))) in
(let clipping_denom := (Qmax (1 # 1) (Qdiv scaled_grad_norm clip)) in
(let rmsprop_update := (vs_div rmsprop_update clipping_denom) in
rmsprop_update)))
else
rmsprop_update) in
(let grafting_update := rmsprop_update in
(new_diagonal_statistics, grafting_update)))))))))
else
(let grafting_update := (if (graft_type =? 1)%Z then
(let grafting_update := sgd_update in
grafting_update)
else
(let grafting_update := (if (graft_type =? 0)%Z then
(let grafting_update := sgd_update in
grafting_update)
else
(let grafting_update := (vv_mul (vones sgd_update) (vsign sgd_update)) in
grafting_update)) in
grafting_update)) in
(new_diagonal_statistics, grafting_update))) in
(new_diagonal_statistics, grafting_update))) in
(let lr := lr_t in
(let preconditioner_multiplier := (if (negb decoupled_learning_rate) then lr else (1 # 1)) in
(let grafting_update := (vs_mul grafting_update preconditioner_multiplier) in
(let precond_grad := grad in
(let precond_grad := (if (negb skip) then
(let precond_grad := pgrad in
precond_grad)
else
(let precond_grad := grafting_update in
precond_grad)) in
(let grafting_update_norm := (vnorm grafting_update) in
(let precond_grad_norm := (vnorm precond_grad) in
(let multiplier := (if (negb (graft_type =? 0)%Z) then
(let multiplier := (Qdiv grafting_update_norm (Qplus precond_grad_norm eps25)) in
multiplier)
else
(let multiplier := (1 # 1) in
multiplier)) in
(let shampoo_update := (vs_mul precond_grad multiplier) in
(let shampoo_update_with_wd := shampoo_update in
(let grafting_update_with_wd := grafting_update in
(let '(shampoo_update_with_wd, grafting_update_with_wd) := (if ((negb (Qeq_bool weight_decay (inject_Z 0))) && (negb decoupled_weight_decay)) then
(let shampoo_update_with_wd := (vv_add shampoo_update (sv_mul weight_decay param)) in
(let grafting_update_with_wd := (vv_add grafting_update (sv_mul weight_decay param)) in
(shampoo_update_with_wd, grafting_update_with_wd)))
else
(shampoo_update_with_wd, grafting_update_with_wd)) in
(let w := (if moving_average_for_momentum then (Qminus (1 # 1) beta1) else (1 # 1)) in
(let shampoo_update_with_wd_momentum := (vv_add (vs_mul s_mom beta1) (sv_mul w shampoo_update_with_wd)) in
(let grafting_update_with_wd_momentum := (vv_add (vs_mul s_dmom beta1) (sv_mul w grafting_update_with_wd)) in
(let run_shampoo := (b2q (step >=? start_preconditioning_step)%Z) in
(let momentum_update := (vv_add (sv_mul run_shampoo shampoo_update_with_wd_momentum) (sv_mul (Qminus (1 # 1) run_shampoo) grafting_update_with_wd_momentum)) in
(let wd_update := (vv_add (sv_mul run_shampoo shampoo_update_with_wd) (sv_mul (Qminus (1 # 1) run_shampoo) grafting_update_with_wd)) in
(let nesterov_momentum_update := momentum_update in
(let nesterov_momentum_update := (if nesterov then
(let nesterov_momentum_update := (vv_add (sv_mul w wd_update) (sv_mul beta1 momentum_update)) in
nesterov_momentum_update)
else
nesterov_momentum_update) in
(let nesterov_momentum_update := (if ((negb (Qeq_bool weight_decay (inject_Z 0))) && decoupled_weight_decay) then
(let wd_lr := (if decoupled_learning_rate then (1 # 1) else lr) in
(let nesterov_momentum_update := (vv_add nesterov_momentum_update (sv_mul (Qmult wd_lr weight_decay) param)) in
nesterov_momentum_update))
else
nesterov_momentum_update) in
(let momentum_multiplier := (if decoupled_learning_rate then lr else (1 # 1)) in
(let transformed_update := (sv_mul (Qmult (Qopp (1 # 1)) momentum_multiplier) nesterov_momentum_update) in
(let new_diagonal_momentum := grafting_update_with_wd_momentum in
(let new_momentum := shampoo_update_with_wd_momentum in
(let param_stats := (Build_ParameterStats new_diagonal_statistics new_diagonal_momentum new_momentum) in
(transformed_update, param_stats)))))))))))))))))))))))))))))).

