(* C02/Check.v — per-step, per-parameter comparison of the implementation with the model. *)
From Precond Require Import Base.PyLib Base.QMat Base.PyFloat C06.Records C06.Ref C09.Check C02.Records C02.Ref C02.Model.
Open Scope Q_scope.

Definition vclose_rel (tol : Q) (a b : vec) : bool :=
  vclose (tol * Qmax (maxabs_vec a) (maxabs_vec b)) a b.
Definition mclose_rel (tol : Q) (A B : mat) : bool :=
  mclose (tol * Qmax (maxabs A) (maxabs B)) A B.

(* 0 ok; 1 statistics; 2 update; 3 diagonal statistics; 4 diagonal momentum; 5 momentum;
   6 number of statistics / preconditioners differs from the announced count *)
Record pstate := mkps { s_diag : vec; s_dmom : vec; s_mom : vec }.

(* the translated _transform_grad applied to a configuration record *)
Definition transform (c : cfg) (eps : Q) (step : Z) (skip : bool) (param grad pg : vec) (s : pstate)
  : vec * pstate :=
  let '(u, ps) := transform_grad (c_graft c) (c_beta1 c) (c_beta2 c) (c_lr c) (c_wd c)
                    (c_decoupled_wd c) (c_decoupled_lr c) (c_nesterov c) (c_moving_avg c)
                    (c_diag_eps c) (c_start c) 0 eps step skip param grad pg
                    (s_diag s) (s_dmom s) (s_mom s) in
  (u, mkps (ps_diag ps) (ps_dmom ps) (ps_mom ps)).

Definition chk_leaf (tol eps : Q) (c : cfg) (step : Z) (shape : list Z) (param grad : vec)
           (stats_b : list mat) (sb : pstate)
           (stats_a preconds_a : list mat) (sa : pstate) (upd : vec) : Z :=
  let skip := skip_precond c shape in
  let tsh := transformed_shape c shape in
  let announced := if skip then 0%nat
                   else length (shapes_for_preconditioners
                                  (snd (block_partitioner_init tsh (c_block c))) (c_ptype c) 0) in
  if negb (Nat.eqb (length stats_a) announced && Nat.eqb (length preconds_a) announced) then 6%Z
  else
  let stats_m := if skip then stats_b
                 else if (step mod c_stats_every c =? 0)%Z then new_statistics c shape grad stats_b
                 else stats_b in
  if negb (Nat.eqb (length stats_m) (length stats_a) &&
           forallb (fun '(a, b) => mclose_rel tol a b) (combine stats_m stats_a)) then 1%Z
  else
    let pg := if skip then grad else preconditioned_grad c shape grad preconds_a in
    (* float32 rounding of the stored preconditioners and of the chain of products is amplified by the
       cancellation in P g: (|P_1| x .. x |P_k| |g|) / |P g|, the same blocked product evaluated on
       absolute values (block-aware and independent of the gradient's magnitude; the former bound
       multiplied the norms of the preconditioners of ALL blocks and collapsed to 1 for large
       gradients, where every |P_i| is small): tolerance of everything downstream of P g *)
    let amp := if skip then 1
               else Qmax 1 (maxabs_vec (preconditioned_grad c shape (map Qabs grad)
                                                            (map (map (map Qabs)) preconds_a))
                            / Qmax (maxabs_vec pg) (1 # 1000000000000000000000000000000)) in
    let tolp := tol * Qmin amp 1024 in
    let '(u, s') := transform c eps step skip param grad pg sb in
    (* sums such as beta1*m + w*u may cancel: tolerances are relative to the operands' scale *)
    let ops := Qmax (Qmax (maxabs_vec (s_mom sb)) (maxabs_vec (s_dmom sb)))
                    (Qmax (Qmax (maxabs_vec (s_mom s')) (maxabs_vec (s_dmom s')))
                          (Qabs (c_wd c) * maxabs_vec param)) in
    let close t a b := vclose (t * Qmax ops (Qmax (maxabs_vec a) (maxabs_vec b))) a b in
    if negb (close tolp u upd) then 2%Z
    else if negb (vclose_rel tol (s_diag s') (s_diag sa)) then 3%Z
    else if negb (close tol (s_dmom s') (s_dmom sa)) then 4%Z
    else if negb (close tolp (s_mom s') (s_mom sa)) then 5%Z
    else 0%Z.
