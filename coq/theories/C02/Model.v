(* C02/Model.v — Distributed Shampoo update of one parameter, executable over Q, definitions only.

   Shapes / blocking come from C06.Ref (regenerated from /repo's source on every run):
   merge_small_dims, block_partitioner_init, should_precondition_dims, exponent_for_preconditioner.
   Tensors are (shape, flat row-major data).  Matrix inverse roots are NOT computed: the stored
   preconditioners are oracle answers (checked against the root spec by C01's certificate);
   square roots are computed by an integer square root on 2^-40-scaled rationals (sqrt_q). *)
From Precond Require Import Base.PyLib Base.QMat Base.PyFloat Base.Tensor C06.Records C06.Ref.
From Coq Require Import QArith Qround.
Open Scope Q_scope.

(* ---------- tensors (Base.Tensor, over Q) ---------- *)
Notation tensor := (Base.Tensor.tensor Q) (only parsing).
Notation prodn := Base.Tensor.prodn (only parsing).

(* leading-dimension unfolding: d0 x (product of the rest) *)
Definition unfold0 (t : tensor) : mat :=
  match t_shape t with
  | [] => [t_data t]
  | d0 :: rest => chunks (prodn rest) d0 (t_data t)
  end.

(* jnp.tensordot(g, P, axes=[[0],[0]]) (axis 0 contracted, result axis appended) when P is given;
   jnp.transpose(g, roll) when the axis is not preconditioned.  Both are G^T-based on the unfolding. *)
Definition roll_with (P : option mat) (t : tensor) : tensor :=
  match t_shape t with
  | [] => t
  | d0 :: rest =>
    let G := unfold0 t in
    let Gt := transpose_n (prodn rest) G in
    match P with
    | None => mkT (rest ++ [d0]) (concat Gt)
    | Some Pm => mkT (rest ++ [ncols Pm]) (concat (mmul Gt Pm))
    end
  end.

Definition precondition_block (t : tensor) (Ps : list (option mat)) : tensor :=
  fold_left (fun g P => roll_with P g) Ps t.

(* Gram matrices U_i U_i^T for every axis i (in axis order) *)
Fixpoint grams_from (k : nat) (t : tensor) : list mat :=
  match k with
  | O => []
  | S k' => let G := unfold0 t in mmul G (transpose_n (ncols G) G) :: grams_from k' (roll_with None t)
  end.
Definition grams (t : tensor) : list mat := grams_from (length (t_shape t)) t.

(* ---------- configuration ---------- *)
Record cfg := mkcfg {
  c_beta1 : Q; c_beta2 : Q; c_lr : Q;              (* lr already evaluated at this step *)
  c_wd : Q; c_decoupled_wd : bool; c_decoupled_lr : bool;
  c_nesterov : bool; c_moving_avg : bool;
  c_graft : Z;                                     (* GraftingType value *)
  c_diag_eps : Q;
  c_start : Z; c_stats_every : Z;
  c_block : Z; c_merge : Z; c_best_effort : bool; c_ptype : Z; c_expo_override : Z;
  c_skip_rank_lt : Z; c_skip_dim_gt : Z
}.

Definition transformed_shape (c : cfg) (shape : list Z) : list Z :=
  if c_best_effort c then merge_small_dims shape (c_merge c) else shape.

Definition skip_precond (c : cfg) (shape : list Z) : bool :=
  (zlen shape <? c_skip_rank_lt c)%Z || existsb (fun s => (s >? c_skip_dim_gt c)%Z) shape.

Definition exponent (c : cfg) (tshape : list Z) : Z :=
  if (c_expo_override c =? 0)%Z
  then exponent_for_preconditioner (snd (block_partitioner_init tshape (c_block c))) (c_ptype c)
  else c_expo_override c.

Definition nat_shape (s : list Z) : list nat := map Z.to_nat s.
Definition nat_splits (tshape : list Z) (b : Z) : list (list nat) :=
  map (map Z.to_nat) (snd (block_partitioner_init tshape b)).

(* statistics of one parameter: for each block (partition order), for each preconditioned axis *)
Definition w2_of (beta2 : Q) : Q := if Qeq_bool beta2 1 then beta2 else 1 - beta2.

Definition select_axes {A} (should : list bool) (l : list A) : list A :=
  map snd (filter (fun p => fst p) (combine should l)).

Definition new_statistics (c : cfg) (shape : list Z) (grad : vec) (stats : list mat) : list mat :=
  let tsh := transformed_shape c shape in
  let ss := snd (block_partitioner_init tsh (c_block c)) in
  let should := should_precondition_dims ss (c_ptype c) in
  let blocks := partition (nat_splits tsh (c_block c)) (mkT (nat_shape tsh) grad) in
  let gs := flat_map (fun b => select_axes should (grams b)) blocks in
  map (fun '(St, G) => madd (mscale (c_beta2 c) St) (mscale (w2_of (c_beta2 c)) G)) (combine stats gs).

(* preconditioned gradient with the given (stored) preconditioners *)
Definition slots (should : list bool) (ps : list mat) : list (option mat) :=
  (* one slot per axis: the next unused preconditioner where the axis is preconditioned *)
  fst (fold_left (fun '(acc, rest) (b : bool) =>
                    if b then (acc ++ [match rest with p :: _ => Some p | [] => None end], tl rest)
                    else (acc ++ [None], rest)) should ([], ps)).

Definition preconditioned_grad (c : cfg) (shape : list Z) (grad : vec) (ps : list mat) : vec :=
  let tsh := transformed_shape c shape in
  let splits := nat_splits tsh (c_block c) in
  let ss := snd (block_partitioner_init tsh (c_block c)) in
  let should := should_precondition_dims ss (c_ptype c) in
  let np := Z.to_nat (count_true should) in
  let blocks := partition splits (mkT (nat_shape tsh) grad) in
  let pss := group np (length blocks) ps in
  let out := map (fun '(b, pb) => precondition_block b (slots should pb)) (combine blocks pss) in
  t_data (merge_partitions splits out).

(* _transform_grad itself is NOT hand-modelled: see C02.Ref.transform_grad (translated from source). *)
Definition eps25 : Q := 1 # (10 ^ 25)%positive.
