(* C17/F32Inst.v — binary32 instance of the generic reallocation model (definitions only) and the
   whole-dictionary pipeline used by the correspondence check.  The implementation computes on
   float32 jax scalars:
     total_score = sum(scores)            0 + s1 + s2 + ...   (sequential float32 additions)
     unit_rsc    = group_resource / total_score if total_score else 0.0     (int -> float32, true division)
     rd(score * unit_rsc) - 1             float32 product, x // 1 = floor, int()
     total_score -= score                 float32 subtraction
     sorted(..., key = score, reverse = True)   float32 comparisons
   Arithmetic is the DAZ/FTZ-wrapped IEEE arithmetic of C11/F32.v; `if total_score` is evaluated on
   the host (bool(np.float32)), i.e. without DAZ. *)
From Coq Require Import ZArith List Bool.
From Flocq Require Import IEEE754.BinarySingleNaN.
From Precond Require Import C11.F32 C17.Model.
Import ListNotations.
Open Scope Z_scope.

Definition f_prop (total s : f32) (R : Z) : option Z :=
  if Beqb total fzero then Some 0
  else to_int_opt (ffloor (fmul s (fdiv (of_Z R) total))).
Definition f_adv (total s : f32) : f32 := fsub total s.
Definition f_total0 (l : list f32) : f32 := fold_left fadd l fzero.

Definition fentry := entry f32.

(* code 0: dictionary returned; 1: AssertionError; 2: int() raised *)
Definition run_all (fixed : bool) (rank : Z) (raw : list (Z * Z * Z * Z)) : Z * list (Z * list Z) :=
  let es : list fentry := map (fun '(l, a, d, b) => (l, a, d, of_bits b)) raw in
  let '(c, alloc) := realloc_all f32 f32 f_prop f_adv flt f_total0 fixed rank es in
  if c =? 0 then (0, redist_all f32 es alloc) else (c, []).
