(* C17/ExactProofs.v — exact-arithmetic (Q) facts.
   (1) With exact arithmetic and non-negative scores the ORIGINAL phase 1 never needs the clamp:
       the running total equals the sum of the remaining scores, so 0 <= floor(s * R / total) <= R.
       Hence range and budget hold after phase 1 (phase1_budget_exact).
   (2) The ORIGINAL leftover pass nevertheless over-allocates, already in exact arithmetic
       (leftover_pass_budget_refuted): it is the loop, not rounding. *)
From Coq Require Import ZArith List Bool Lia QArith Qround Lqa.
From Precond Require Import C17.Model C17.Proofs.
Import ListNotations.
Open Scope Z_scope.

Definition qsuml (l : list Q) : Q := fold_right Qplus 0%Q l.

Lemma q_prop_total : forall st s R, q_prop st s R <> None.
Proof. intros. unfold q_prop. destruct (Qeq_bool st 0); discriminate. Qed.

Lemma qsuml_nonneg l : Forall (fun s => (0 <= s)%Q) l -> (0 <= qsuml l)%Q.
Proof. induction 1 as [|x t Hx _ IH]; simpl; [apply Qle_refl|]. lra. Qed.

Lemma fold_left_qplus l a : (fold_left Qplus l a == a + qsuml l)%Q.
Proof.
  revert a; induction l as [|x t IH]; intro a; simpl; [lra|]. rewrite IH. lra.
Qed.

Lemma q_total0_sum l : (q_total0 l == qsuml l)%Q.
Proof. unfold q_total0. rewrite Qred_correct, fold_left_qplus. lra. Qed.

(* the exact proposal lies in [0, R] *)
Lemma q_prop_bounds st s R p rest :
  0 <= R -> (0 <= s)%Q -> (0 <= rest)%Q -> (st == s + rest)%Q ->
  q_prop st s R = Some p -> 0 <= p <= R.
Proof.
  intros HR Hs Hrest Hst. unfold q_prop.
  destruct (Qeq_bool st 0) eqn:E; intro H; inversion H; subst p; clear H; [lia|].
  apply Qeq_bool_neq in E.
  assert (Hpos : (0 < st)%Q) by (apply Qle_lt_or_eq in Hrest; lra).
  assert (HRq : (0 <= inject_Z R)%Q) by (change 0%Q with (inject_Z 0); rewrite <- Zle_Qle; exact HR).
  assert (E1 : (s * (inject_Z R / st) == (s * inject_Z R) / st)%Q) by (field; lra).
  split.
  - assert ((0 <= s * (inject_Z R / st))%Q).
    { rewrite E1. apply Qle_shift_div_l; [exact Hpos|]. nra. }
    apply Qfloor_resp_le in H. change 0%Q with (inject_Z 0) in H. rewrite Qfloor_Z in H. exact H.
  - assert ((s * (inject_Z R / st) <= inject_Z R)%Q).
    { rewrite E1. apply Qle_shift_div_r; [exact Hpos|]. nra. }
    apply Qfloor_resp_le in H. rewrite Qfloor_Z in H. exact H.
Qed.

Lemma q_prop_comp st st' s R : (st == st')%Q -> q_prop st s R = q_prop st' s R.
Proof.
  intro H. unfold q_prop.
  assert (E : Qeq_bool st 0 = Qeq_bool st' 0).
  { destruct (Qeq_bool st 0) eqn:A, (Qeq_bool st' 0) eqn:B; try reflexivity.
    - apply Qeq_bool_iff in A. apply Qeq_bool_neq in B. rewrite H in A. contradiction.
    - apply Qeq_bool_iff in B. apply Qeq_bool_neq in A. rewrite <- H in B. contradiction. }
  rewrite E. destruct (Qeq_bool st' 0); [reflexivity|]. f_equal.
  apply Qfloor_comp. rewrite H. reflexivity.
Qed.

(* (1) in exact arithmetic the clamp of the repaired loop is the identity *)
Lemma phase1_exact_noclamp : forall dim l st R,
  1 <= dim -> 0 <= R ->
  Forall (fun s => (0 <= s)%Q) l -> (st == qsuml l)%Q ->
  phase1_orig Q Q q_prop q_adv dim st R l = phase1 Q Q q_prop q_adv dim st R l.
Proof.
  intros dim l. induction l as [|s t IH]; intros st R Hd HR Hl Hst; simpl; [reflexivity|].
  inversion Hl as [|? ? Hs Ht]; subst. simpl in Hst.
  destruct (q_prop st s R) as [p|] eqn:E; [|reflexivity].
  pose proof (q_prop_bounds st s R p (qsuml t) HR Hs (qsuml_nonneg t Ht) Hst E) as Hp.
  assert (Hc : Z.max 0 (Z.min (cap dim p) R) = cap dim p).
  { unfold cap. destruct (p >? dim - 1) eqn:G; lia. }
  rewrite Hc.
  assert (Hc2 : 0 <= cap dim p <= R) by (unfold cap; destruct (p >? dim - 1) eqn:G; lia).
  rewrite IH; [reflexivity|exact Hd|lia|exact Ht|].
  unfold q_adv. rewrite Qred_correct. lra.
Qed.

Theorem phase1_budget_exact_lemma : forall dim l R r,
  1 <= dim -> 0 <= R ->
  Forall (fun s => (0 <= s)%Q) l ->
  phase1_orig Q Q q_prop q_adv dim (q_total0 l) R l = Some r ->
  in_range dim r /\ sumz r - zlength r <= R /\ length r = length l.
Proof.
  intros dim l R r Hd HR Hl H.
  rewrite phase1_exact_noclamp in H; [|exact Hd|exact HR|exact Hl|apply q_total0_sum].
  apply phase1_spec in H; [|exact Hd|exact HR]. tauto.
Qed.

(* the repaired algorithm in exact arithmetic: always returns, within range and budget *)
Theorem realloc_exact_budget_lemma : forall dim rank l,
  1 <= dim -> 1 <= rank ->
  exists r, realloc_sorted_q true dim rank l = ROk r /\
            in_range dim r /\ sumz r <= zlength l * rank /\ length r = length l.
Proof.
  intros dim rank l Hd Hr. unfold realloc_sorted_q.
  pose proof (realloc_sorted_budget Q Q q_prop q_adv dim rank (q_total0 l) l Hd Hr) as (_ & OK & TOT).
  destruct (TOT q_prop_total) as (r & E). exists r. split; [exact E|]. apply OK, E.
Qed.

(* (2) the ORIGINAL algorithm, exact arithmetic: three axes of dimension 3, base rank 2,
   scores (1, 0, 0) -> ranks (3, 2, 2), sum 7 > 3 * 2.  Also reproduced on the implementation. *)
Theorem leftover_pass_budget_refuted_lemma :
  exists dim rank (scores : list Q) r,
    1 <= dim /\ 1 <= rank /\ Forall (fun s => (0 <= s)%Q) scores /\
    realloc_sorted_q false dim rank scores = ROk r /\
    zlength scores * rank < sumz r.
Proof.
  exists 3, 2, [1%Q; 0%Q; 0%Q], [3; 2; 2].
  split; [lia|]. split; [lia|]. split.
  - repeat constructor; discriminate.
  - split; vm_compute; reflexivity.
Qed.
