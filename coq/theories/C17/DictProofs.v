(* C17/DictProofs.v — the whole-dictionary theorem: create_groups partitions the sketched axes by
   dimension, and the repaired allocation respects range and budget in every group, for an
   arbitrary proposal function.  Axiom-free. *)
From Coq Require Import ZArith List Bool Lia ZifyBool Permutation.
From Precond Require Import C17.Model C17.Proofs.
Import ListNotations.
Open Scope Z_scope.

Section Dict.
  Variables Sc St : Type.
  Variable prop : St -> Sc -> Z -> option Z.
  Variable adv : St -> Sc -> St.
  Variable lt : Sc -> Sc -> bool.
  Variable total0 : list Sc -> St.
  Notation entry := (entry Sc).
  Notation e_dim := (e_dim Sc).

  Definition group_ok (g : Z * list entry) : Prop :=
    Forall (fun e => e_dim e = fst g) (snd g).

  (* ---------------- create_groups ---------------- *)
  Lemma group_add_ok e gs : Forall group_ok gs -> Forall group_ok (group_add Sc e gs).
  Proof.
    induction gs as [|[d ms] t IH]; intro H; simpl.
    - constructor; [|constructor]. unfold group_ok; simpl. constructor; [reflexivity|constructor].
    - inversion H as [|? ? Hg Ht]; subst. destruct (d =? e_dim e) eqn:E.
      + constructor; [|exact Ht]. unfold group_ok in *; simpl in *.
        apply Forall_app. split; [exact Hg|]. constructor; [lia|constructor].
      + constructor; [exact Hg|]. apply IH, Ht.
  Qed.

  Lemma group_add_perm e gs :
    Permutation (concat (map snd (group_add Sc e gs))) (e :: concat (map snd gs)).
  Proof.
    induction gs as [|[d ms] t IH]; simpl; [reflexivity|].
    destruct (d =? e_dim e); simpl.
    - rewrite <- app_assoc. simpl. apply Permutation_sym, Permutation_middle.
    - rewrite IH. apply Permutation_sym, Permutation_middle.
  Qed.

  Lemma create_groups_ok es : Forall group_ok (create_groups Sc es).
  Proof.
    unfold create_groups.
    assert (G : forall es acc, Forall group_ok acc ->
              Forall group_ok (fold_left (fun gs e => group_add Sc e gs) es acc)).
    { clear es. induction es as [|e t IH]; intros acc H; simpl; [exact H|].
      apply IH, group_add_ok, H. }
    apply G. constructor.
  Qed.

  Lemma create_groups_perm es :
    Permutation (concat (map snd (create_groups Sc es))) es.
  Proof.
    unfold create_groups.
    assert (G : forall es acc,
              Permutation (concat (map snd (fold_left (fun gs e => group_add Sc e gs) es acc)))
                          (rev es ++ concat (map snd acc))).
    { clear es. induction es as [|e t IH]; intro acc; simpl; [reflexivity|].
      rewrite IH, group_add_perm. rewrite <- app_assoc. reflexivity. }
    rewrite G. simpl. rewrite app_nil_r. apply Permutation_sym, Permutation_rev.
  Qed.

  Lemma create_groups_partition_lemma es :
    Permutation (concat (map snd (create_groups Sc es))) es /\
    Forall (fun g => Forall (fun e => e_dim e = fst g) (snd g)) (create_groups Sc es).
  Proof. split; [apply create_groups_perm|apply create_groups_ok]. Qed.

  (* ---------------- all groups ---------------- *)
  Definition of_dim (d : Z) (alloc : list (entry * Z)) : list (entry * Z) :=
    filter (fun er => e_dim (fst er) =? d) alloc.

  Lemma of_dim_app d a b : of_dim d (a ++ b) = of_dim d a ++ of_dim d b.
  Proof. apply filter_app. Qed.

  Lemma of_dim_all d l : Forall (fun er => e_dim (fst er) = d) l -> of_dim d l = l.
  Proof.
    induction 1 as [|x t Hx _ IH]; simpl; [reflexivity|].
    replace (e_dim (fst x) =? d) with true by lia. f_equal. exact IH.
  Qed.
  Lemma of_dim_none d d' l : d <> d' -> Forall (fun er => e_dim (fst er) = d') l -> of_dim d l = [].
  Proof.
    intros Hn. induction 1 as [|x t Hx _ IH]; simpl; [reflexivity|].
    replace (e_dim (fst x) =? d) with false by lia. exact IH.
  Qed.

  Definition alloc_ok (rank : Z) (alloc : list (entry * Z)) : Prop :=
    Forall (fun er => 1 <= snd er <= e_dim (fst er)) alloc /\
    forall d, sumz (map snd (of_dim d alloc)) <= zlength (of_dim d alloc) * rank.

  Lemma group_alloc_ok rank g l :
    group_ok g ->
    Permutation (map fst l) (snd g) ->
    Forall (fun kr : entry * Z => 1 <= snd kr <= fst g) l ->
    sumz (map snd l) <= zlength (snd g) * rank ->
    alloc_ok rank l.
  Proof.
    intros Hg P F S.
    assert (D : Forall (fun er : entry * Z => e_dim (fst er) = fst g) l).
    { apply Forall_forall. intros [e r] Hin. simpl.
      unfold group_ok in Hg. rewrite Forall_forall in Hg. apply Hg.
      eapply Permutation_in; [exact P|]. apply (in_map fst) in Hin. exact Hin. }
    split.
    - rewrite Forall_forall in *. intros er Hin. specialize (F er Hin). specialize (D er Hin). lia.
    - intro d. destruct (Z.eq_dec d (fst g)) as [->|Hn].
      + rewrite (of_dim_all _ _ D).
        replace (zlength l) with (zlength (snd g)); [exact S|].
        unfold zlength. f_equal. rewrite <- (Permutation_length P), map_length. reflexivity.
      + rewrite (of_dim_none _ _ _ Hn D). simpl. unfold zlength. simpl. lia.
  Qed.

  Lemma alloc_ok_app rank a b : alloc_ok rank a -> alloc_ok rank b -> alloc_ok rank (a ++ b).
  Proof.
    intros [Fa Sa] [Fb Sb]. split; [apply Forall_app; auto|].
    intro d. rewrite of_dim_app, map_app, sumz_app.
    unfold zlength. rewrite app_length. specialize (Sa d). specialize (Sb d).
    unfold zlength in *. lia.
  Qed.

  Theorem realloc_groups_budget : forall rank gs,
    1 <= rank ->
    Forall (fun g => 1 <= fst g /\ group_ok g) gs ->
    let res := realloc_groups Sc St prop adv lt total0 true rank gs in
    fst res <> 1 /\
    (fst res = 0 ->
       Permutation (map fst (snd res)) (concat (map snd gs)) /\ alloc_ok rank (snd res)) /\
    ((forall st s R, prop st s R <> None) -> fst res = 0).
  Proof.
    intros rank gs Hr. induction gs as [|g t IH]; intros Hg; simpl.
    - split; [discriminate|]. split; [|reflexivity]. intros _. split; [reflexivity|].
      split; [constructor|]. intro d. simpl. unfold zlength; simpl; lia.
    - inversion Hg as [|? ? [Hd Hok] Ht]; subst. specialize (IH Ht).
      unfold realloc_group_e.
      pose proof (realloc_group_budget Sc St prop adv lt total0 (fst g) rank
                    (map (fun e => (e, e_score Sc e)) (snd g)) Hd Hr) as (NA & OK & TOT).
      destruct (realloc_group Sc St prop adv lt total0 true (fst g) rank
                  (map (fun e => (e, e_score Sc e)) (snd g))) as [[l|] o] eqn:E; simpl in *.
      + destruct (realloc_groups Sc St prop adv lt total0 true rank t) as [c r] eqn:Er.
        simpl in *. destruct IH as (I1 & I2 & I3).
        split; [exact I1|]. split; [|exact I3].
        intros Hc. destruct (I2 Hc) as (P2 & A2).
        destruct (OK l eq_refl) as (P & F & S).
        rewrite map_map in P. simpl in P. rewrite map_id in P.
        split.
        * rewrite map_app. apply Permutation_app; assumption.
        * apply alloc_ok_app; [|exact A2].
          apply (group_alloc_ok rank g l Hok P F).
          unfold zlength in *. rewrite map_length in S. exact S.
      + destruct o; simpl.
        * split; [discriminate|]. split; [discriminate|].
          intros Hp. destruct (TOT Hp) as (l & Hl). discriminate.
        * exfalso. apply NA. reflexivity.
        * split; [discriminate|]. split; [discriminate|].
          intros Hp. destruct (TOT Hp) as (l & Hl). discriminate.
  Qed.

  (* headline: the whole dictionary *)
  Theorem realloc_all_budget : forall rank (es : list entry),
    1 <= rank ->
    Forall (fun e => 1 <= e_dim e) es ->
    let res := realloc_all Sc St prop adv lt total0 true rank es in
    fst res <> 1 /\
    (fst res = 0 ->
       Permutation (map fst (snd res)) es /\
       (forall e r, In (e, r) (snd res) -> 1 <= r <= e_dim e) /\
       (forall d, sumz (map snd (of_dim d (snd res))) <= zlength (of_dim d (snd res)) * rank)) /\
    ((forall st s R, prop st s R <> None) -> fst res = 0).
  Proof.
    intros rank es Hr Hd res. subst res. unfold realloc_all.
    assert (Hg : Forall (fun g => 1 <= fst g /\ group_ok g) (create_groups Sc es)).
    { pose proof (create_groups_ok es) as Hok. pose proof (create_groups_perm es) as Hp.
      rewrite Forall_forall in *. intros g Hin. split; [|apply Hok, Hin].
      (* a group is never empty and all its members have dimension fst g >= 1 *)
      assert (Hne : forall es acc, Forall (fun g : Z * list entry => snd g <> []) acc ->
                Forall (fun g : Z * list entry => snd g <> [])
                       (fold_left (fun gs e => group_add Sc e gs) es acc)).
      { clear. induction es as [|e t IH]; intros acc H; simpl; [exact H|]. apply IH.
        clear IH. induction acc as [|[d ms] u IHu]; simpl.
        - constructor; [simpl; discriminate|constructor].
        - inversion H; subst. destruct (d =? Model.e_dim Sc e).
          + constructor; [simpl; destruct ms; discriminate|assumption].
          + constructor; [assumption|apply IHu; assumption]. }
      specialize (Hne es [] (Forall_nil _)). fold (create_groups Sc es) in Hne.
      rewrite Forall_forall in Hne. specialize (Hne g Hin).
      destruct (snd g) as [|e0 ms] eqn:Eg; [congruence|].
      specialize (Hok g Hin). unfold group_ok in Hok. rewrite Eg in Hok.
      inversion Hok; subst.
      assert (In e0 es).
      { eapply Permutation_in; [exact Hp|]. apply in_concat. exists (snd g). split.
        - apply in_map, Hin.
        - rewrite Eg. left; reflexivity. }
      specialize (Hd e0 H). lia. }
    pose proof (realloc_groups_budget rank (create_groups Sc es) Hr Hg) as (A & B & C).
    split; [exact A|]. split; [|exact C].
    intros Hc. destruct (B Hc) as (P & (F & S)).
    split; [rewrite P; apply create_groups_perm|]. split; [|exact S].
    intros e r Hin. rewrite Forall_forall in F. apply (F (e, r) Hin).
  Qed.
End Dict.
