(* C17/Proofs.v — budget and range theorems for the REPAIRED allocation, for an arbitrary proposal
   function (axiom-free, over Z). *)
From Coq Require Import ZArith List Bool Lia ZifyBool Permutation.
From Precond Require Import C17.Model.
Import ListNotations.
Open Scope Z_scope.

Definition in_range (dim : Z) (l : list Z) : Prop := Forall (fun r => 1 <= r <= dim) l.
Definition zlength {A} (l : list A) : Z := Z.of_nat (length l).

Lemma sumz_cons x l : sumz (x :: l) = x + sumz l.
Proof. reflexivity. Qed.
Lemma sumz_app l1 l2 : sumz (l1 ++ l2) = sumz l1 + sumz l2.
Proof. induction l1 as [|x t IH]; simpl; [reflexivity|]. rewrite IH. lia. Qed.
Lemma zlength_cons {A} (x : A) l : zlength (x :: l) = 1 + zlength l.
Proof. unfold zlength. simpl length. lia. Qed.
Lemma zlength_nonneg {A} (l : list A) : 0 <= zlength l.
Proof. unfold zlength. lia. Qed.

Lemma map_fst_combine {A B} (a : list A) (b : list B) :
  length a = length b -> map fst (combine a b) = a.
Proof.
  revert b; induction a as [|x t IH]; intros [|y u] H; simpl in *; try reflexivity; try discriminate.
  f_equal. apply IH. lia.
Qed.
Lemma map_snd_combine {A B} (a : list A) (b : list B) :
  length a = length b -> map snd (combine a b) = b.
Proof.
  revert b; induction a as [|x t IH]; intros [|y u] H; simpl in *; try reflexivity; try discriminate.
  f_equal. apply IH. lia.
Qed.

Section Generic.
  Variables Sc St : Type.
  Variable prop : St -> Sc -> Z -> option Z.
  Variable adv : St -> Sc -> St.

  Lemma cap_le dim p : cap dim p <= dim - 1.
  Proof. unfold cap. destruct (p >? dim - 1) eqn:E; lia. Qed.

  (* phase 1 of the repaired loop: every rank in [1, dim] and the resource handed out never
     exceeds the remaining resource *)
  Lemma phase1_spec : forall dim l st R r,
    1 <= dim -> 0 <= R ->
    phase1 Sc St prop adv dim st R l = Some r ->
    in_range dim r /\ sumz r - zlength r <= R /\ zlength r <= sumz r /\ length r = length l.
  Proof.
    intros dim l. induction l as [|s t IH]; intros st R r Hd HR H; simpl in H.
    - inversion H; subst. unfold in_range, zlength. simpl. repeat split; try constructor; lia.
    - destruct (prop st s R) as [p|]; [|discriminate].
      set (e := Z.max 0 (Z.min (cap dim p) R)) in *.
      destruct (phase1 Sc St prop adv dim (adv st s) (R - e) t) as [r'|] eqn:E; [|discriminate].
      inversion H; subst r. clear H.
      assert (He : 0 <= e <= R /\ e <= dim - 1).
      { pose proof (cap_le dim p). unfold e. lia. }
      apply IH in E; [|lia|lia]. destruct E as (F & S1 & S2 & L).
      rewrite sumz_cons, zlength_cons. repeat split.
      + constructor; [lia|exact F].
      + lia.
      + lia.
      + simpl. congruence.
  Qed.

  Lemma phase1_total : forall dim l st R,
    (forall st s R, prop st s R <> None) ->
    phase1 Sc St prop adv dim st R l <> None.
  Proof.
    intros dim l. induction l as [|s t IH]; intros st R Hp; simpl; [discriminate|].
    destruct (prop st s R) as [p|] eqn:E; [|exfalso; eapply Hp; eauto].
    specialize (IH (adv st s) (R - Z.max 0 (Z.min (cap dim p) R)) Hp).
    destruct (phase1 Sc St prop adv dim (adv st s) _ t); [discriminate|congruence].
  Qed.

  (* the repaired leftover pass: every increment is counted *)
  Lemma leftover_spec : forall dim l extra,
    in_range dim l ->
    in_range dim (leftover dim extra l) /\
    sumz l <= sumz (leftover dim extra l) <= sumz l + Z.max 0 extra /\
    length (leftover dim extra l) = length l.
  Proof.
    intros dim l. induction l as [|r t IH]; intros extra F; simpl.
    - repeat split; try constructor; simpl; lia.
    - inversion F as [|? ? Hr Ft]; subst.
      destruct (extra <=? 0) eqn:E0.
      + repeat split; try assumption; simpl; lia.
      + destruct (r <? dim) eqn:E1.
        * destruct (IH (extra - 1) Ft) as (F' & S' & L'). rewrite !sumz_cons.
          repeat split; [constructor; [lia|exact F'] | lia | lia | simpl; congruence].
        * destruct (IH extra Ft) as (F' & S' & L'). rewrite !sumz_cons.
          repeat split; [constructor; [lia|exact F'] | lia | lia | simpl; congruence].
  Qed.

  Lemma forallb_range dim l : in_range dim l -> forallb (fun r => r <=? dim) l = true.
  Proof.
    induction 1 as [|x t Hx _ IH]; simpl; [reflexivity|]. rewrite IH. lia.
  Qed.

  (* one group, scores already sorted *)
  Theorem realloc_sorted_budget : forall dim rank st0 sorted,
    1 <= dim -> 1 <= rank ->
    let n := zlength sorted in
    let o := realloc_sorted Sc St prop adv true dim rank st0 sorted in
    o <> RAssert /\
    (forall r, o = ROk r -> in_range dim r /\ sumz r <= n * rank /\ length r = length sorted) /\
    ((forall st s R, prop st s R <> None) -> exists r, o = ROk r).
  Proof.
    intros dim rank st0 sorted Hd Hr n o. subst o. unfold realloc_sorted. fold (zlength sorted). fold n.
    assert (Hn : 0 <= n) by apply zlength_nonneg.
    replace (negb (n * rank >=? n)) with false by (symmetry; nia).
    destruct (phase1 Sc St prop adv dim st0 (n * rank - n) sorted) as [l1|] eqn:E.
    - apply phase1_spec in E; [|lia|nia]. destruct E as (F & S1 & S2 & L).
      assert (Ln : zlength l1 = n) by (unfold zlength, n; rewrite L; reflexivity).
      unfold finish. rewrite (forallb_range _ _ F). simpl negb.
      replace (sumz l1 <=? n * rank) with true by (symmetry; nia). simpl negb.
      destruct (sumz l1 <? n * rank) eqn:E2.
      + destruct (leftover_spec dim l1 (n * rank - sumz l1) F) as (F' & S' & L').
        split; [discriminate|]. split.
        * intros r Hr'. inversion Hr'; subst r. split; [exact F'|]. split; [lia|congruence].
        * intros _. eexists; reflexivity.
      + split; [discriminate|]. split.
        * intros r Hr'. inversion Hr'; subst r. split; [exact F|]. split; [lia|exact L].
        * intros _. eexists; reflexivity.
    - split; [discriminate|]. split.
      + intros r Hr'. discriminate.
      + intros Hp. exfalso. eapply phase1_total; eauto.
  Qed.

  (* sorting is a permutation (stability / order are irrelevant for the budget) *)
  Variable lt : Sc -> Sc -> bool.
  Lemma insert_desc_perm {K} (x : K * Sc) l : Permutation (insert_desc Sc lt x l) (x :: l).
  Proof.
    induction l as [|y t IH]; simpl; [reflexivity|].
    destruct (lt (snd y) (snd x)); [reflexivity|].
    rewrite IH. apply perm_swap.
  Qed.
  Lemma sort_desc_perm {K} (l : list (K * Sc)) : Permutation (sort_desc Sc lt l) l.
  Proof.
    unfold sort_desc.
    assert (G : forall l acc, Permutation (fold_left (fun acc (x : K * Sc) => insert_desc Sc lt x acc) l acc)
                                          (rev l ++ acc)).
    { clear l. induction l as [|x t IH]; intro acc; simpl; [reflexivity|].
      rewrite IH. rewrite insert_desc_perm. rewrite <- app_assoc. simpl. reflexivity. }
    rewrite G, app_nil_r. apply Permutation_sym, Permutation_rev.
  Qed.

  Variable total0 : list Sc -> St.

  (* one group with keys *)
  Theorem realloc_group_budget : forall {K} dim rank (members : list (K * Sc)),
    1 <= dim -> 1 <= rank ->
    let res := realloc_group Sc St prop adv lt total0 true dim rank members in
    snd res <> RAssert /\
    (forall l, fst res = Some l ->
       Permutation (map fst l) (map fst members) /\
       Forall (fun kr => 1 <= snd kr <= dim) l /\
       sumz (map snd l) <= zlength members * rank) /\
    ((forall st s R, prop st s R <> None) -> exists l, fst res = Some l).
  Proof.
    intros K dim rank members Hd Hr res. subst res. unfold realloc_group.
    set (srt := sort_desc Sc lt members).
    pose proof (realloc_sorted_budget dim rank (total0 (map snd members)) (map snd srt) Hd Hr)
      as (NA & OK & TOT).
    assert (Lsrt : zlength (map snd srt) = zlength members).
    { unfold zlength. rewrite map_length. f_equal.
      apply Permutation_length. apply sort_desc_perm. }
    destruct (realloc_sorted Sc St prop adv true dim rank (total0 (map snd members)) (map snd srt))
      as [ranks| |] eqn:E; simpl.
    - split; [discriminate|]. split.
      + intros l Hl. inversion Hl; subst l. clear Hl.
        destruct (OK ranks eq_refl) as (F & S & L). rewrite map_length in L.
        assert (L2 : length (map fst srt) = length ranks) by (rewrite map_length; congruence).
        split; [|split].
        * rewrite (map_fst_combine _ _ L2).
          apply Permutation_map, sort_desc_perm.
        * clear - F L2. revert ranks F L2. generalize (map fst srt) as ks.
          induction ks as [|k ks IH]; intros [|r rs] F L2; simpl in *; try constructor; try discriminate.
          -- inversion F; subst. simpl. assumption.
          -- inversion F; subst. apply IH; [assumption|lia].
        * rewrite (map_snd_combine _ _ L2). rewrite Lsrt in S. exact S.
      + intros _. eexists; reflexivity.
    - exfalso. apply NA. reflexivity.
    - split; [discriminate|]. split.
      + intros l Hl. discriminate.
      + intros Hp. destruct (TOT Hp) as (r & Hr'). discriminate.
  Qed.
End Generic.
