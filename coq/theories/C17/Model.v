(* C17/Model.v — executable model of precondition/tearfree/reallocation.py:create_redist_dict.
   Definitions only.

   Per group of equal-dimension axes (dimension [dim], [n] members, base rank [rank]):
     group_resource = n * rank ; assert group_resource >= n ; group_resource -= n
     total_score    = sum of the scores (in the group's enumeration order)
     sorted_scores  = sorted(..., key = score, reverse = True)      (stable, descending)
     phase 1: for each member in sorted order
        e_raw = dim - 1                       if is_outlier  (rd(s * unit) - 1 > dim - 1)
              = rd(s * unit) - 1              otherwise      (unit = R / total, or 0.0 if total == 0)
        REPAIRED: e = max(0, min(e_raw, R))   ORIGINAL: e = e_raw
        rank_i = e + 1 ; R -= e ; total -= s
     assert every rank_i <= dim ; assert sum rank_i <= n * rank
     leftover pass over the sorted members while extra = n * rank - sum > 0
        REPAIRED: if rank_i < dim then rank_i += 1, extra -= 1
        ORIGINAL: rank_i = min(rank_i + 1, dim); extra -= 1 only if rank_i + 1 < dim
   Since rd(x) = int(x // 1) + 1, the quantity rd(s * unit) - 1 is floor(s * unit); it is the
   [proposal].  The generic algorithm below takes the proposal as an ARBITRARY function of the
   running state (so theorems about it are independent of floating-point rounding); the binary32
   instance (C17/F32Inst.v) and the exact rational instance (below) plug in the arithmetic. *)
From Coq Require Import ZArith List Bool QArith Qround.
Import ListNotations.
Open Scope Z_scope.

Inductive outcome :=
  | ROk (ranks : list Z)       (* ranks in sorted order *)
  | RAssert                    (* an internal `assert` fired *)
  | RConv.                     (* int() of a non-finite float raised *)

Definition sumz (l : list Z) : Z := fold_right Z.add 0 l.

Section Generic.
  Variables Sc St : Type.
  (* proposal = rd(score * unit_rsc) - 1, given running total, score, remaining resource;
     None models Python's int() raising on inf / nan *)
  Variable prop : St -> Sc -> Z -> option Z.
  Variable adv : St -> Sc -> St.          (* total_score -= score *)

  (* is_outlier capping: both branches of the `if` evaluate the same proposal *)
  Definition cap (dim p : Z) : Z := if p >? dim - 1 then dim - 1 else p.

  (* REPAIRED phase 1 *)
  Fixpoint phase1 (dim : Z) (st : St) (R : Z) (l : list Sc) : option (list Z) :=
    match l with
    | [] => Some []
    | s :: t =>
        match prop st s R with
        | None => None
        | Some p =>
            let e := Z.max 0 (Z.min (cap dim p) R) in
            match phase1 dim (adv st s) (R - e) t with
            | None => None
            | Some r => Some ((e + 1) :: r)
            end
        end
    end.

  (* ORIGINAL phase 1 (no clamp) *)
  Fixpoint phase1_orig (dim : Z) (st : St) (R : Z) (l : list Sc) : option (list Z) :=
    match l with
    | [] => Some []
    | s :: t =>
        match prop st s R with
        | None => None
        | Some p =>
            let e := cap dim p in
            match phase1_orig dim (adv st s) (R - e) t with
            | None => None
            | Some r => Some ((e + 1) :: r)
            end
        end
    end.

  (* REPAIRED leftover pass *)
  Fixpoint leftover (dim extra : Z) (l : list Z) : list Z :=
    match l with
    | [] => []
    | r :: t =>
        if extra <=? 0 then r :: t
        else if r <? dim then (r + 1) :: leftover dim (extra - 1) t
        else r :: leftover dim extra t
    end.

  (* ORIGINAL leftover pass *)
  Fixpoint leftover_orig (dim extra : Z) (l : list Z) : list Z :=
    match l with
    | [] => []
    | r :: t =>
        let r' := Z.min (r + 1) dim in
        let extra' := if r' + 1 <? dim then extra - 1 else extra in
        if extra' <=? 0 then r' :: t else r' :: leftover_orig dim extra' t
    end.

  Definition finish (fixed : bool) (dim n rank : Z) (l1 : list Z) : outcome :=
    if negb (forallb (fun r => r <=? dim) l1) then RAssert
    else
      let allocated := sumz l1 in
      let budget := n * rank in
      if negb (allocated <=? budget) then RAssert
      else if allocated <? budget then
        ROk ((if fixed then leftover else leftover_orig) dim (budget - allocated) l1)
      else ROk l1.

  (* one group; [sorted] are the scores in sorted order, [st0] the initial total *)
  Definition realloc_sorted (fixed : bool) (dim rank : Z) (st0 : St) (sorted : list Sc) : outcome :=
    let n := Z.of_nat (length sorted) in
    if negb (n * rank >=? n) then RAssert
    else
      match (if fixed then phase1 else phase1_orig) dim st0 (n * rank - n) sorted with
      | None => RConv
      | Some l1 => finish fixed dim n rank l1
      end.

  (* sorted(..., key = score, reverse = True): stable, descending.  [lt a b] is  a < b. *)
  Variable lt : Sc -> Sc -> bool.
  Fixpoint insert_desc {K} (x : K * Sc) (l : list (K * Sc)) : list (K * Sc) :=
    match l with
    | [] => [x]
    | y :: t => if lt (snd y) (snd x) then x :: y :: t else y :: insert_desc x t
    end.
  Definition sort_desc {K} (l : list (K * Sc)) : list (K * Sc) :=
    fold_left (fun acc x => insert_desc x acc) l [].

  Variable total0 : list Sc -> St.        (* sum(score_dict[key] for key in group) *)

  (* one group with keys: returns (key, rank) in sorted order *)
  Definition realloc_group {K} (fixed : bool) (dim rank : Z) (members : list (K * Sc))
    : option (list (K * Z)) * outcome :=
    let srt := sort_desc members in
    let o := realloc_sorted fixed dim rank (total0 (map snd members)) (map snd srt) in
    match o with
    | ROk ranks => (Some (combine (map fst srt) ranks), o)
    | _ => (None, o)
    end.
End Generic.

(* ------------------------------------------------------------------------------------------ *)
(* dictionary plumbing as list functions.  An entry is one sketched axis:
   (layer id, axis id, dimension, score), listed in the order in which the implementation
   enumerates `layer_names` (a Python set: the order is an input of the model). *)
Section Plumbing.
  Variable Sc : Type.
  Definition entry := (Z * Z * Z * Sc)%type.
  Definition e_layer (e : entry) : Z := fst (fst (fst e)).
  Definition e_axis (e : entry) : Z := snd (fst (fst e)).
  Definition e_dim (e : entry) : Z := snd (fst e).
  Definition e_score (e : entry) : Sc := snd e.

  (* create_groups: dict dim -> list of members, insertion ordered *)
  Fixpoint group_add (e : entry) (gs : list (Z * list entry)) : list (Z * list entry) :=
    match gs with
    | [] => [(e_dim e, [e])]
    | (d, ms) :: t => if d =? e_dim e then (d, ms ++ [e]) :: t else (d, ms) :: group_add e t
    end.
  Definition create_groups (es : list entry) : list (Z * list entry) :=
    fold_left (fun gs e => group_add e gs) es [].

  (* layers_and_axes: number of distinct axis ids *)
  Fixpoint distinct (l : list Z) : list Z :=
    match l with [] => [] | x :: t => if existsb (Z.eqb x) t then distinct t else x :: distinct t end.
  Definition num_axes (es : list entry) : Z := Z.of_nat (length (distinct (map e_axis es))).

  (* create_redist + alloc_fn: every layer gets [0] * num_axes, slot axis := rank *)
  Fixpoint set_nth (l : list Z) (k : nat) (v : Z) : list Z :=
    match l, k with
    | [], _ => []
    | _ :: t, O => v :: t
    | x :: t, S k' => x :: set_nth t k' v
    end.
  Fixpoint redist_set (layer axis v : Z) (rd : list (Z * list Z)) : list (Z * list Z) :=
    match rd with
    | [] => []
    | (l, slots) :: t =>
        if l =? layer then (l, set_nth slots (Z.to_nat axis) v) :: t
        else (l, slots) :: redist_set layer axis v t
    end.
  Definition create_redist (es : list entry) : list (Z * list Z) :=
    map (fun l => (l, repeat 0 (Z.to_nat (num_axes es)))) (rev (distinct (rev (map e_layer es)))).
End Plumbing.

(* ------------------------------------------------------------------------------------------ *)
(* the whole dictionary, generic in the arithmetic *)
Section Whole.
  Variables Sc St : Type.
  Variable prop : St -> Sc -> Z -> option Z.
  Variable adv : St -> Sc -> St.
  Variable lt : Sc -> Sc -> bool.
  Variable total0 : list Sc -> St.

  (* one group -> (entry, rank) list in sorted order *)
  Definition realloc_group_e (fixed : bool) (rank : Z) (g : Z * list (entry Sc))
    : option (list (entry Sc * Z)) * outcome :=
    realloc_group Sc St prop adv lt total0 fixed (fst g) rank
                  (map (fun e => (e, e_score Sc e)) (snd g)).

  (* all groups in dictionary order; stops at the first group that raises.
     code 0: all groups allocated; 1: AssertionError; 2: int() raised *)
  Fixpoint realloc_groups (fixed : bool) (rank : Z) (gs : list (Z * list (entry Sc)))
    : Z * list (entry Sc * Z) :=
    match gs with
    | [] => (0, [])
    | g :: t =>
        match realloc_group_e fixed rank g with
        | (Some l, _) => let '(c, r) := realloc_groups fixed rank t in (c, l ++ r)
        | (None, RAssert) => (1, [])
        | (None, _) => (2, [])
        end
    end.

  Definition realloc_all (fixed : bool) (rank : Z) (es : list (entry Sc)) : Z * list (entry Sc * Z) :=
    realloc_groups fixed rank (create_groups Sc es).

  (* the returned dictionary: per layer (first-appearance order) the slots *)
  Definition redist_all (es : list (entry Sc)) (alloc : list (entry Sc * Z)) : list (Z * list Z) :=
    fold_left (fun rd '(e, r) => redist_set (e_layer Sc e) (e_axis Sc e) r rd) alloc
              (create_redist Sc es).
End Whole.

(* ------------------------------------------------------------------------------------------ *)
(* exact rational instance: what the code computes if rounding is ignored *)
Definition q_prop (total s : Q) (R : Z) : option Z :=
  if Qeq_bool total 0 then Some 0 else Some (Qfloor (s * (inject_Z R / total))).
Definition q_adv (total s : Q) : Q := Qred (total - s).
Definition q_lt (a b : Q) : bool := negb (Qle_bool b a).
Definition q_total0 (l : list Q) : Q := Qred (fold_left Qplus l 0%Q).

Definition realloc_sorted_q (fixed : bool) (dim rank : Z) (sorted : list Q) : outcome :=
  realloc_sorted Q Q q_prop q_adv fixed dim rank (q_total0 sorted) sorted.
