(* C17/Check.v — boolean comparators for the correspondence check (definitions only). *)
From Coq Require Import ZArith List Bool QArith Qround Qabs.
From Flocq Require Import IEEE754.BinarySingleNaN.
From Precond Require Import C11.F32 C17.Model C17.F32Inst.
Import ListNotations.
Open Scope Z_scope.

Fixpoint zeqb_list (a b : list Z) : bool :=
  match a, b with
  | [], [] => true
  | x :: s, y :: t => (x =? y) && zeqb_list s t
  | _, _ => false
  end.

Fixpoint redist_eqb (a b : list (Z * list Z)) : bool :=
  match a, b with
  | [], [] => true
  | (l, x) :: s, (k, y) :: t => (l =? k) && zeqb_list x y && redist_eqb s t
  | _, _ => false
  end.

(* observed: code (0 dictionary / 1 AssertionError / 2 other exception from int()) and dictionary *)
Definition chk_all (fixed : bool) (rank : Z) (raw : list (Z * Z * Z * Z)) (code : Z)
           (obs : list (Z * list Z)) : bool :=
  let '(c, rd) := run_all fixed rank raw in
  (c =? code) && (if c =? 0 then redist_eqb rd obs else true).

(* exact rational model on the same inputs (scores as exact dyadics) — used to measure how often
   float32 rounding makes the implementation differ from exact arithmetic; sorted input *)
Definition f32_to_Q (x : f32) : Q :=
  match x with
  | B754_finite s m e _ =>
      let z := if s then Z.neg m else Z.pos m in
      if 0 <=? e then inject_Z (z * 2 ^ e) else Qmake z (Z.to_pos (2 ^ (- e)))
  | _ => 0%Q
  end.

(* score rules of score_fn as functions of the per-state data matrix (list of rows) *)
Definition qsum (l : list Q) : Q := fold_left Qplus l 0%Q.
Fixpoint qmax (l : list Q) : Q :=
  match l with [] => 0%Q | x :: t => match t with [] => x | _ => let m := qmax t in if Qle_bool x m then m else x end end.
Fixpoint diag_of (k : nat) (m : list (list Q)) : list Q :=
  match m with [] => [] | r :: t => nth k r 0%Q :: diag_of (S k) t end.
Definition row0 (m : list (list Q)) : list Q := nth 0 m [].
(* rule: 1 ggt_intrinsic_rank (diagonal PSD data: spectral norm = max diagonal), 2 ggt_trace,
         3 tail_rho, 4 sketch_intrinsic_rank, 5 sketch_trace *)
Definition rule_q (rule : Z) (m : list (list Q)) : Q :=
  if rule =? 1 then (let d := diag_of 0 m in if Qeq_bool (qmax d) 0 then 0 else qsum d / qmax d)%Q
  else if rule =? 2 then qsum (diag_of 0 m)
  else if rule =? 3 then nth 0 (row0 m) 0%Q
  else if rule =? 4 then (if Qeq_bool (qsum (row0 m)) 0 then 0 else qsum (row0 m) / qmax (row0 m))%Q
  else qsum (row0 m).
Definition score_q (rule : Z) (states : list (list (list Q))) : Q :=
  (qsum (map (rule_q rule) states) / inject_Z (Z.of_nat (length states)))%Q.
(* |obs - model| <= tol * |model| *)
Definition chk_score (rule : Z) (states : list (list (list Q))) (obs : Z) (tol : Q) : bool :=
  let mq := Qred (score_q rule states) in
  let o := f32_to_Q (of_bits obs) in
  Qle_bool (Qabs (o - mq)) (tol * Qabs mq).

(* create_groups / layers_and_axes plumbing against the implementation's own dictionaries *)
Fixpoint pairs_eqb (a b : list (Z * Z)) : bool :=
  match a, b with
  | [], [] => true
  | (x1, x2) :: s, (y1, y2) :: t => (x1 =? y1) && (x2 =? y2) && pairs_eqb s t
  | _, _ => false
  end.
Fixpoint groups_eqb (a b : list (Z * list (Z * Z))) : bool :=
  match a, b with
  | [], [] => true
  | (d, x) :: s, (e, y) :: t => (d =? e) && pairs_eqb x y && groups_eqb s t
  | _, _ => false
  end.
Definition chk_groups (raw : list (Z * Z * Z * Z)) (naxes : Z) (obs : list (Z * list (Z * Z))) : bool :=
  let es : list fentry := map (fun '(l, a, d, b) => (l, a, d, of_bits b)) raw in
  groups_eqb (map (fun '(d, ms) => (d, map (fun e => (e_layer f32 e, e_axis f32 e)) ms))
                  (create_groups f32 es)) obs
  && (num_axes f32 es =? naxes).

Definition chk_scores (rule : Z) (l : list (list (list (list Q)) * Z * Q)) : bool :=
  forallb (fun '(states, obs, tol) => chk_score rule states obs tol) l.
