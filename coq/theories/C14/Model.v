(* C14/Model.v — abstract model of checkpoint / resume (definitions only).

   A state is a pytree: dynamic leaves carry a payload (the bytes of an array: here a list of
   integers; for the correspondence the payload is the leaf's (shape, dtype) descriptor), inner
   nodes carry static metadata (node kind, dict keys, `pytree_node=False` fields) that is NOT
   serialized.  [serialize] keeps the dynamic leaves only, in order (flax.serialization state
   dict -> msgpack);  [restore template dyn] re-attaches the template's static structure
   (flax.serialization.from_bytes(template, bytes)).  The optimizer step is an abstract
   function of (state, input) only -- nothing else can influence it: that is purity. *)
From Precond Require Import Base.PyLib C07.Layout.
Open Scope Z_scope.

Inductive pytree :=
  | PLeaf (payload : list Z)
  | PNode (static : list Z) (ch : list pytree).

(* dynamic leaves, left to right *)
Fixpoint serialize (t : pytree) : list (list Z) :=
  match t with
  | PLeaf p => [p]
  | PNode _ ch => flat_map serialize ch
  end.

(* rebuild the template with the given payloads; returns the unused rest *)
Fixpoint restore_aux (tmpl : pytree) (dyn : list (list Z)) {struct tmpl} : pytree * list (list Z) :=
  match tmpl with
  | PLeaf p => match dyn with x :: r => (PLeaf x, r) | [] => (PLeaf p, []) end
  | PNode st ch =>
      let '(ch', r) :=
        (fix go (c : list pytree) (d : list (list Z)) {struct c} : list pytree * list (list Z) :=
           match c with
           | [] => ([], d)
           | u :: c' => let '(u', r1) := restore_aux u d in
                        let '(c'', r2) := go c' r1 in (u' :: c'', r2)
           end) ch dyn in
      (PNode st ch', r)
  end.
Definition restore (tmpl : pytree) (dyn : list (list Z)) : pytree := fst (restore_aux tmpl dyn).

(* same static skeleton: same tree, same static metadata, payloads arbitrary *)
Fixpoint same_static (a b : pytree) {struct a} : Prop :=
  match a, b with
  | PLeaf _, PLeaf _ => True
  | PNode s ch, PNode s' ch' =>
      s = s' /\
      (fix go (x y : list pytree) {struct x} : Prop :=
         match x, y with
         | [], [] => True
         | u :: x', v :: y' => same_static u v /\ go x' y'
         | _, _ => False
         end) ch ch'
  | _, _ => False
  end.

(* --- the optimizer as a pure step function --- *)
Section Run.
  Variable input output : Type.
  Variable step : pytree -> input -> output * pytree.

  Fixpoint run (s : pytree) (gs : list input) : list output * pytree :=
    match gs with
    | [] => ([], s)
    | g :: r => let '(u, s') := step s g in
                let '(us, sf) := run s' r in (u :: us, sf)
    end.

  Definition final (s : pytree) (gs : list input) : pytree := snd (run s gs).
End Run.

(* --- a step function that ALSO reads and writes state outside the pytree (a Python-side counter,
   a cache): the thing the property forbids --- *)
Section Hidden.
  Variable input output hidden : Type.
  Variable hstep : hidden -> pytree -> input -> output * pytree * hidden.

  Fixpoint hrun (h : hidden) (s : pytree) (gs : list input) : list output * pytree * hidden :=
    match gs with
    | [] => ([], s, h)
    | g :: r => let '(u, s', h') := hstep h s g in
                let '(us, sf, hf) := hrun h' s' r in (u :: us, sf, hf)
    end.
End Hidden.

(* --- embedding of C07 layouts: the payload of a leaf is its (dtype, shape) descriptor, the static
   part of a node its kind and static metadata --- *)
Definition sval_code (s : sval) : list Z :=
  match s with
  | SInt z => [0; z]
  | SBool b => [1; if b then 1 else 0]
  | SDt d => [2; dtype_code d]
  | SZs l => 3 :: zlen l :: l
  | SOther => [4]
  end.

Fixpoint of_layout (l : layout) : pytree :=
  match l with
  | Leaf s d => PLeaf (dtype_code d :: s)
  | PSpec n => PLeaf [-1; n]
  | Node k st ch => PNode (nkind_code k :: flat_map sval_code st) (map of_layout ch)
  end.

(* the leaves flax emitted, as (dtype code :: shape) descriptors, must be exactly serialize *)
Fixpoint lleqb (a b : list (list Z)) : bool :=
  match a, b with
  | [], [] => true
  | x :: s, y :: t => list_eqb_z x y && lleqb s t
  | _, _ => false
  end.
Definition flax_agrees (state : layout) (emitted : list (list Z)) : bool :=
  lleqb (serialize (of_layout state)) emitted.
