(* C14/Proofs.v — restore o serialize is the identity on states with the template's static
   skeleton; hence resuming from a checkpoint taken after ANY number of steps continues exactly
   like the uninterrupted run, provided the step function is pure and never changes the static
   skeleton (C07's layout fixed point).  With state outside the pytree the statement is false. *)
From Coq Require Import ZArith List Bool Lia.
From Precond Require Import Base.PyLib C07.Layout C14.Model.
Import ListNotations.
Open Scope Z_scope.

Section PytreeInd.
  Variable P : pytree -> Prop.
  Hypothesis Hleaf : forall p, P (PLeaf p).
  Hypothesis Hnode : forall st ch, Forall P ch -> P (PNode st ch).
  Fixpoint pytree_ind' (t : pytree) : P t :=
    match t with
    | PLeaf p => Hleaf p
    | PNode st ch =>
        Hnode st ch
          ((fix go (c : list pytree) : Forall P c :=
              match c with
              | [] => Forall_nil P
              | x :: r => Forall_cons x (pytree_ind' x) (go r)
              end) ch)
    end.
End PytreeInd.

Fixpoint restore_list (c : list pytree) (d : list (list Z)) : list pytree * list (list Z) :=
  match c with
  | [] => ([], d)
  | u :: c' => let '(u', r1) := restore_aux u d in
               let '(c'', r2) := restore_list c' r1 in (u' :: c'', r2)
  end.

Lemma restore_node st ch d :
  restore_aux (PNode st ch) d = let '(ch', r) := restore_list ch d in (PNode st ch', r).
Proof. reflexivity. Qed.

Fixpoint same_static_list (x y : list pytree) : Prop :=
  match x, y with
  | [], [] => True
  | u :: x', v :: y' => same_static u v /\ same_static_list x' y'
  | _, _ => False
  end.

Lemma same_static_node s ch s' ch' :
  same_static (PNode s ch) (PNode s' ch') <-> s = s' /\ same_static_list ch ch'.
Proof. reflexivity. Qed.

Lemma roundtrip_aux s : forall tmpl rest,
  same_static s tmpl -> restore_aux tmpl (serialize s ++ rest) = (s, rest).
Proof.
  induction s as [p|st ch IH] using pytree_ind'; intros [q|st' ch'] rest H; try contradiction.
  - reflexivity.
  - apply same_static_node in H as [<- H]. rewrite restore_node. cbn [serialize].
    assert (G : forall ch' rest, same_static_list ch ch' ->
              restore_list ch' (flat_map serialize ch ++ rest) = (ch, rest)).
    { clear ch' rest H. induction IH as [|u r Hu Hr IHr]; intros [|v r'] rest H; try contradiction.
      - reflexivity.
      - destruct H as [H1 H2]. cbn [flat_map restore_list]. rewrite <- app_assoc.
        rewrite (Hu v _ H1). rewrite (IHr r' rest H2). reflexivity. }
    rewrite (G ch' rest H). reflexivity.
Qed.

Theorem restore_roundtrip s tmpl : same_static s tmpl -> restore tmpl (serialize s) = s.
Proof.
  intro H. unfold restore. pose proof (roundtrip_aux s tmpl [] H) as E.
  rewrite app_nil_r in E. rewrite E. reflexivity.
Qed.

(* same_static is an equivalence *)
Lemma same_static_refl t : same_static t t.
Proof.
  induction t as [p|st ch IH] using pytree_ind'; [exact I|].
  apply same_static_node. split; [reflexivity|].
  induction IH as [|u r Hu Hr IHr]; [exact I|]. split; assumption.
Qed.

Lemma same_static_sym a : forall b, same_static a b -> same_static b a.
Proof.
  induction a as [p|st ch IH] using pytree_ind'; intros [q|st' ch'] H; try contradiction; [exact I|].
  apply same_static_node in H as [<- H]. apply same_static_node. split; [reflexivity|].
  revert ch' H. induction IH as [|u r Hu Hr IHr]; intros [|v r'] H; try contradiction; [exact I|].
  destruct H as [H1 H2]. split; [apply Hu; exact H1|apply IHr; exact H2].
Qed.

Lemma same_static_trans a : forall b c, same_static a b -> same_static b c -> same_static a c.
Proof.
  induction a as [p|st ch IH] using pytree_ind'; intros [q|st' ch'] [r|st'' ch''] H1 H2;
    try contradiction; [exact I|].
  apply same_static_node in H1 as [<- H1]. apply same_static_node in H2 as [<- H2].
  apply same_static_node. split; [reflexivity|].
  revert ch' ch'' H1 H2.
  induction IH as [|u r Hu Hr IHr]; intros [|v r'] [|w r''] H1 H2; try contradiction; [exact I|].
  destruct H1 as [A1 A2]. destruct H2 as [B1 B2].
  split; [eapply Hu; eassumption|eapply IHr; eassumption].
Qed.

(* ------------------------------------------------------------------------------------------ *)
Section Resume.
  Variable input output : Type.
  Variable step : pytree -> input -> output * pytree.
  (* C07: an update never changes tree structure / static metadata *)
  Hypothesis static_invariant : forall s g, same_static (snd (step s g)) s.

  Lemma final_same_static s gs : same_static (final input output step s gs) s.
  Proof.
    revert s. induction gs as [|g r IH]; intro s; unfold final; cbn [run].
    - apply same_static_refl.
    - destruct (step s g) as [u s'] eqn:E.
      destruct (run input output step s' r) as [us sf] eqn:R. cbn [snd].
      pose proof (IH s') as H. unfold final in H. rewrite R in H. cbn [snd] in H.
      eapply same_static_trans; [exact H|].
      pose proof (static_invariant s g) as K. rewrite E in K. exact K.
  Qed.

  Lemma run_app s pre suf :
    run input output step s (pre ++ suf) =
    (fst (run input output step s pre) ++
     fst (run input output step (final input output step s pre) suf),
     final input output step (final input output step s pre) suf).
  Proof.
    revert s. induction pre as [|g r IH]; intro s; unfold final in *; cbn [app run fst snd].
    - destruct (run input output step s suf); reflexivity.
    - destruct (step s g) as [u s'].
      rewrite (IH s').
      destruct (run input output step s' r) as [us sf]. cbn [fst snd]. reflexivity.
  Qed.

  (* crash after |pre| steps; a fresh optimizer's init state [tmpl] (any state with the same static
     skeleton as the running state's) serves as the restore target *)
  Theorem resume_identical init tmpl pre suf :
    same_static tmpl init ->
    let sk := final input output step init pre in
    let resumed := restore tmpl (serialize sk) in
    resumed = sk /\
    run input output step resumed suf = run input output step sk suf /\
    run input output step init (pre ++ suf) =
    (fst (run input output step init pre) ++ fst (run input output step resumed suf),
     final input output step resumed suf).
  Proof.
    intros Ht sk resumed.
    assert (E : resumed = sk).
    { unfold resumed. apply restore_roundtrip.
      eapply same_static_trans; [apply final_same_static|]. apply same_static_sym. exact Ht. }
    split; [exact E|]. split; [rewrite E; reflexivity|].
    rewrite E. apply run_app.
  Qed.
End Resume.

(* the static skeleton of a state is its C07 layout *)
Definition has_layout (l : layout) (s : pytree) : Prop := same_static s (of_layout l).

Theorem static_invariant_from_layout l s s' : has_layout l s -> has_layout l s' -> same_static s s'.
Proof.
  intros H1 H2. eapply same_static_trans; [exact H1|]. apply same_static_sym. exact H2.
Qed.

(* ------------------------------------------------------------------------------------------ *)
(* state outside the pytree breaks the statement                                                *)
(* ------------------------------------------------------------------------------------------ *)
Definition counter_step (h : Z) (s : pytree) (g : unit) : Z * pytree * Z := (h, s, h + 1).

Theorem hidden_state_breaks_resume :
  exists (init : pytree) (pre suf : list unit),
    let '(_, sk, _) := hrun unit Z Z counter_step 0 init pre in
    let resumed := restore init (serialize sk) in
    resumed = sk /\
    (* a fresh optimizer object starts with fresh hidden state 0 *)
    fst (fst (hrun unit Z Z counter_step 0 resumed suf)) <>
    skipn (length pre) (fst (fst (hrun unit Z Z counter_step 0 init (pre ++ suf)))).
Proof.
  exists (PNode [1] [PLeaf [7]; PNode [2; 3] [PLeaf [8; 9]]]), [tt], [tt].
  cbn. split; [reflexivity|]. discriminate.
Qed.

(* a non-trivial tree, by computation *)
Example roundtrip_example :
  let tmpl := PNode [6] [PLeaf [0]; PNode [3; 0; 1] [PNode [8; 2; 3] [PLeaf []; PNode [2] []; PLeaf [0; 0]];
                                                      PNode [4] []; PLeaf [0; 0; 0]]] in
  let s := PNode [6] [PLeaf [5]; PNode [3; 0; 1] [PNode [8; 2; 3] [PLeaf [1; 2]; PNode [2] []; PLeaf [3]];
                                                   PNode [4] []; PLeaf [4; 5; 6]]] in
  serialize s = [[5]; [1; 2]; [3]; [4; 5; 6]] /\ restore tmpl (serialize s) = s.
Proof. cbn. split; reflexivity. Qed.
