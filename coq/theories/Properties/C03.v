(* Properties/C03.v — ONLY the property theorems of C03 (each closed by [exact lemma]) and their
   Print Assumptions.  fv = IEEE special-value lattice (C03/FloatCls.v); skip/select/qselect/
   blend/wselect and the history machine are in C03/Model.v and are tied to
   precondition/distributed_shampoo.py by the fault-injection correspondence of harness/c03.py. *)
From Precond Require Import C03.FloatCls C03.Model C03.Proofs.
From Precond Require C03.Ref C03.RefLink.

(* A stored preconditioner is either the old one or a new root whose reported error is finite and
   strictly below the threshold.  Side conditions: the configured threshold is not NaN and the
   reported error (a max of absolute values) is not -Inf; both are necessary (next theorem). *)
Theorem c03_select_old_or_verified :
  forall (A : Type) (thr e : fv) (new old r : A),
    isnan thr = false -> e <> FNInf ->
    r = select thr e new old ->
    r = old \/ (r = new /\ isfinite e = true /\ fltb e thr = true).
Proof. exact @select_old_or_verified. Qed.
Print Assumptions c03_select_old_or_verified.

Theorem c03_select_unconditional_refuted :
  (exists thr e, isnan thr = false /\ select thr e true false = true /\ isfinite e = false) /\
  (exists thr e, e <> FNInf /\ select thr e true false = true /\ fltb e thr = false).
Proof. exact select_unconditional_refuted. Qed.
Print Assumptions c03_select_unconditional_refuted.

(* a NaN error never passes, whatever the threshold (the isnan test) *)
Theorem c03_nan_error_keeps_old :
  forall (A : Type) (thr : fv) (new old : A), select thr FNaN new old = old.
Proof. exact @nan_error_keeps_old. Qed.
Print Assumptions c03_nan_error_keeps_old.

(* non-refresh steps feed error := threshold: the old preconditioner is kept for EVERY threshold,
   including 0, +-Inf and NaN *)
Theorem c03_nonrefresh_keeps_old :
  forall (A : Type) (thr : fv) (dummy old : A), select thr thr dummy old = old.
Proof. exact @nonrefresh_keeps_old. Qed.
Print Assumptions c03_nonrefresh_keeps_old.

(* quantized mode: the three lax.cond move together *)
Theorem c03_quantized_select_consistent :
  forall (A B C : Type) (thr e : fv) (new old : A * B * C),
    qselect thr e new old = select thr e new old /\
    (qselect thr e new old = old \/ (qselect thr e new old = new /\ skip thr e = false)).
Proof. exact @quantized_select_consistent. Qed.
Print Assumptions c03_quantized_select_consistent.

(* ALL histories: for any statistics type and update, any root kernel with "finite reported error
   => finite root", any schedule, any non-NaN threshold, any list of gradients with arbitrary fv
   entries: every stored preconditioner along the history is finite if the initial one is. *)
Theorem c03_precond_finite_invariant :
  forall (S : Type) (upd : S -> list fv -> S) (root : S -> list fv * fv) (dummy : S -> list fv)
         (refresh : Z -> bool) (thr : fv),
    (forall s, isfinite (snd (root s)) = true -> all_finite (fst (root s)) = true) ->
    (forall s, snd (root s) <> FNInf) ->
    isnan thr = false ->
    forall (x0 : st S) (gs : list (list fv)) (k : nat),
      all_finite (precond x0) = true ->
      all_finite (precond (run S upd root dummy refresh thr sel_select x0 (firstn k gs))) = true.
Proof. exact precond_finite_invariant. Qed.
Print Assumptions c03_precond_finite_invariant.

(* ALL transitions: the stored preconditioner changes only on a refresh step whose reported error
   is verified *)
Theorem c03_transition_changes_only_if_verified :
  forall (S : Type) (upd : S -> list fv -> S) (root : S -> list fv * fv) (dummy : S -> list fv)
         (refresh : Z -> bool) (thr : fv),
    (forall s, snd (root s) <> FNInf) -> isnan thr = false ->
    forall (x : st S) (g : list fv),
      precond (step S upd root dummy refresh thr sel_select x g) <> precond x ->
      refresh (count x) = true /\ verified thr (snd (root (upd (stats x) g))) = true.
Proof. exact transition_changes_only_if_verified. Qed.
Print Assumptions c03_transition_changes_only_if_verified.

(* sharded mode as the UNREPAIRED code computes it (pred*old + (1-pred)*new in IEEE arithmetic):
   the gate says "keep old" and yet the stored value is not the old one and not finite
   (witness new = NaN: 0 * NaN = NaN).  Defect D2. *)
Theorem c03_sharded_blend_refuted :
  exists thr e old new,
    skip thr e = true /\ all_finite old = true /\
    fsame_list (blend thr e old new) old = false /\ blend thr e old new <> old /\
    all_finite (blend thr e old new) = false.
Proof. exact sharded_blend_refuted. Qed.
Print Assumptions c03_sharded_blend_refuted.

Theorem c03_sharded_blend_history_refuted :
  exists (thr : fv) (x0 : st fv) (gs : list (list fv)),
    (forall s, isfinite (snd (poison_root s)) = true -> all_finite (fst (poison_root s)) = true) /\
    (forall s, snd (poison_root s) <> FNInf) /\
    isnan thr = false /\
    all_finite (precond x0) = true /\
    all_finite (precond (run fv poison_upd poison_root (fun s => [s]) (fun _ => true) thr
                             blend x0 gs)) = false /\
    (forall more, Forall (fun g => all_finite g = true) more ->
       precond (run fv poison_upd poison_root (fun s => [s]) (fun _ => true) thr blend x0
                    (gs ++ more)) = [FNaN]).
Proof. exact sharded_blend_history_refuted. Qed.
Print Assumptions c03_sharded_blend_history_refuted.

(* ... and why no existing test sees it: on finite operands the blend IS the select *)
Theorem c03_sharded_blend_is_select_on_finite :
  forall thr e old new,
    all_finite old = true -> all_finite new = true -> length old = length new ->
    fsame_list (blend thr e old new) (select thr e new old) = true.
Proof. exact blend_finite_is_select. Qed.
Print Assumptions c03_sharded_blend_is_select_on_finite.

(* sharded mode REPAIRED (where-select) *)
Theorem c03_sharded_select_old_or_verified :
  forall (thr e : fv) (old new r : list fv),
    isnan thr = false -> e <> FNInf -> length old = length new ->
    r = wselect thr e old new ->
    r = old \/ (r = new /\ isfinite e = true /\ fltb e thr = true).
Proof. exact sharded_select_old_or_verified. Qed.
Print Assumptions c03_sharded_select_old_or_verified.

Theorem c03_sharded_where_finite_invariant :
  forall (S : Type) (upd : S -> list fv -> S) (root : S -> list fv * fv) (dummy : S -> list fv)
         (refresh : Z -> bool) (thr : fv),
    (forall s, isfinite (snd (root s)) = true -> all_finite (fst (root s)) = true) ->
    (forall s, snd (root s) <> FNInf) ->
    isnan thr = false ->
    forall (x0 : st S) (gs : list (list fv)) (k : nat),
      all_finite (precond x0) = true ->
      all_finite (precond (run S upd root dummy refresh thr wselect x0 (firstn k gs))) = true.
Proof. exact sharded_where_finite_invariant. Qed.
Print Assumptions c03_sharded_where_finite_invariant.

(* The acceptance gates as written in the source — translated on every run by tools/py2v_gate.py
   (C03.Ref; regenerated and re-proved equal: GenEq obligations) — are the model's skip / select at
   all four sites (pmap, quantized pmap, pjit, sharded), for every threshold, error and value type;
   hence the headline fact holds of the source's own functions. *)
Theorem c03_source_gates_are_model : forall (A : Type) thr e (new old : A),
  C03.Ref.pmap_select thr e new old = select thr e new old /\
  C03.Ref.qpmap_select thr e new old = select thr e new old /\
  C03.Ref.pjit_select thr e new old = select thr e new old /\
  C03.Ref.sharded_select thr e new old = select thr e new old.
Proof. exact C03.RefLink.source_selects_are_model. Qed.
Print Assumptions c03_source_gates_are_model.

Theorem c03_source_gate_old_or_verified : forall (A : Type) (thr e : fv) (new old : A),
  isnan thr = false -> e <> FNInf ->
  forall r, (r = C03.Ref.pmap_select thr e new old \/ r = C03.Ref.qpmap_select thr e new old \/
             r = C03.Ref.pjit_select thr e new old \/ r = C03.Ref.sharded_select thr e new old) ->
  r = old \/ (r = new /\ isfinite e = true /\ fltb e thr = true).
Proof. exact C03.RefLink.source_gate_old_or_verified. Qed.
Print Assumptions c03_source_gate_old_or_verified.

Theorem c03_source_sharded_select_is_elementwise : forall thr e (old new : list fv),
  length old = length new ->
  C03.Ref.sharded_select thr e new old = wselect thr e old new.
Proof. exact C03.RefLink.sharded_select_is_wselect. Qed.
Print Assumptions c03_source_sharded_select_is_elementwise.
