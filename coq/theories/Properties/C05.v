(* Properties/C05.v — ONLY the property theorems of C05 (each closed by [exact lemma]) and their
   Print Assumptions.  Model: C05/Model.v, tied to /repo by harness/c05.py on every run.
   Every theorem quantifies over the norm oracle [nrm] (any function meeting sqrt_spec), over all
   vectors of any dimension and, for the closed forms, over all gradient histories. *)
From Coq Require Import ZArith QArith Qabs List Bool.
From Precond Require Import C05.Model C05.Proofs.
From Precond Require C05.Ref C05.RefLink.
Import ListNotations.
Open Scope Q_scope.

(* Over Q no total function meets sqrt_spec at every vector (irrational norms), so each theorem
   assumes the spec exactly at the vectors it mentions ([spec_at]); satisfiable:
   ds_hypotheses_satisfiable.  Ordered-field reasoning only. *)
Theorem ds_hypotheses_satisfiable :
  exists nrm s p, spec_at nrm s /\ spec_at nrm p /\ spec_at nrm (ds_graft nrm s p) /\ 0 < nrm p.
Proof. exact ds_hypotheses_satisfiable_l. Qed.
Print Assumptions ds_hypotheses_satisfiable.

(* homogeneity is DERIVED from the spec (squares are injective on non-negatives) *)
Theorem norm_homogeneous : forall nrm c v, spec_at nrm v -> spec_at nrm (scale c v) ->
  nrm (scale c v) == Qabs c * nrm v.
Proof. exact nrm_scale. Qed.
Print Assumptions norm_homogeneous.

(* ---- Distributed Shampoo ---------------------------------------------------------------------- *)
Theorem ds_from_start_is_graft : forall nrm step start s pg, (start <= step)%Z -> length pg = length s ->
  veq (ds_update nrm false false step start s pg) (ds_graft nrm s pg).
Proof. exact ds_from_start_l. Qed.
Print Assumptions ds_from_start_is_graft.

Theorem ds_graft_direction : forall nrm s p, spec_at nrm s -> spec_at nrm p ->
  exists c, 0 <= c /\ ds_graft nrm s p = scale c p.
Proof. exact ds_graft_direction_l. Qed.
Print Assumptions ds_graft_direction.

Theorem ds_graft_norm : forall nrm s p,
  spec_at nrm s -> spec_at nrm p -> spec_at nrm (ds_graft nrm s p) ->
  nrm (ds_graft nrm s p) * (nrm p + eps) == nrm s * nrm p.
Proof. exact ds_graft_norm_l. Qed.
Print Assumptions ds_graft_norm.

Theorem ds_norm_deficit : forall nrm s p,
  spec_at nrm s -> spec_at nrm p -> spec_at nrm (ds_graft nrm s p) ->
  nrm s - nrm (ds_graft nrm s p) == nrm s * eps / (nrm p + eps).
Proof. exact ds_norm_deficit_l. Qed.
Print Assumptions ds_norm_deficit.

Theorem ds_graft_norm_at_most_graft : forall nrm s p,
  spec_at nrm s -> spec_at nrm p -> spec_at nrm (ds_graft nrm s p) ->
  nrm (ds_graft nrm s p) <= nrm s.
Proof. exact ds_graft_norm_le. Qed.
Print Assumptions ds_graft_norm_at_most_graft.

Theorem ds_graft_zero : forall nrm s p, vzero p -> vzero (ds_graft nrm s p).
Proof. exact ds_graft_zero_l. Qed.
Print Assumptions ds_graft_zero.

Theorem norm_zero_iff_vector_zero : forall nrm v, spec_at nrm v -> (nrm v == 0 <-> vzero v).
Proof. exact nrm_zero_iff. Qed.
Print Assumptions norm_zero_iff_vector_zero.

Theorem ds_without_grafting_is_preconditioned_grad : forall nrm step start s pg,
  (start <= step)%Z -> length pg = length s -> veq (ds_update nrm true false step start s pg) pg.
Proof. exact ds_from_start_none_l. Qed.
Print Assumptions ds_without_grafting_is_preconditioned_grad.

Theorem before_start_is_graft : forall nrm gn skip step start s pg,
  (step < start)%Z -> length pg = length s -> veq (ds_update nrm gn skip step start s pg) s.
Proof. exact ds_before_start_l. Qed.
Print Assumptions before_start_is_graft.

(* A skipped parameter gets the graft step itself up to the factor |s| / (|s| + 1e-25) that the code
   applies to it from the start step on (exactly the graft step before it, and always when
   graft_type = NONE). *)
Theorem skipped_is_graft : forall nrm step start s pg, (start <= step)%Z ->
  veq (ds_update nrm false true step start s pg) (scale (nrm s / (nrm s + eps)) s).
Proof. exact ds_skipped_l. Qed.
Print Assumptions skipped_is_graft.

Theorem skipped_is_graft_without_grafting : forall nrm step start s pg,
  veq (ds_update nrm true true step start s pg) s.
Proof. exact ds_skipped_none_l. Qed.
Print Assumptions skipped_is_graft_without_grafting.

(* ---- Tearfree --------------------------------------------------------------------------------- *)
Theorem tf_graft_direction : forall nrm count start s b, spec_at nrm s -> (start <= count)%Z ->
  exists c, 0 <= c /\ tf_update nrm false count start s b = scale c b.
Proof. exact tf_graft_direction_l. Qed.
Print Assumptions tf_graft_direction.

Theorem tf_graft_norm_exact : forall nrm count start s b,
  spec_at nrm s -> spec_at nrm b -> spec_at nrm (tf_update nrm false count start s b) ->
  (start <= count)%Z -> 0 < nrm b ->
  nrm (tf_update nrm false count start s b) == nrm s.
Proof. exact tf_graft_norm_exact_l. Qed.
Print Assumptions tf_graft_norm_exact.

Theorem tf_graft_zero : forall nrm count start s b, (start <= count)%Z -> vzero b ->
  vzero (tf_update nrm false count start s b).
Proof. exact tf_graft_zero_l. Qed.
Print Assumptions tf_graft_zero.

Theorem tf_before_start_is_graft : forall nrm masked count start s b, (count < start)%Z ->
  tf_update nrm masked count start s b = s.
Proof. exact tf_before_start_l. Qed.
Print Assumptions tf_before_start_is_graft.

Theorem tf_skipped_is_graft : forall nrm count start s b, tf_update nrm true count start s b = s.
Proof. exact tf_masked_l. Qed.
Print Assumptions tf_skipped_is_graft.

(* ---- closed forms of the graft steps, ALL histories -------------------------------------------- *)
Theorem graft_step_sgd : forall nrm sq b d hist g,
  ds_graft_step nrm sq GSgd b d hist g = g /\ ds_graft_step nrm sq GNone b d hist g = g.
Proof. exact graft_step_sgd_l. Qed.
Print Assumptions graft_step_sgd.

Theorem graft_step_sign : forall nrm sq b d hist g, ds_graft_step nrm sq GSqrtN b d hist g = map sgn g.
Proof. exact graft_step_sign_l. Qed.
Print Assumptions graft_step_sign.

(* accumulator coordinate k after any history = sum_s w2 * w1^(T-s) * x_{s,k}^2 *)
Theorem accumulator_closed_form : forall nrm w1 w2 nz hist n k, all_len n hist -> (k < n)%nat ->
  nth k (acc_after nrm w1 w2 nz hist n) 0 ==
  acc_closed w1 w2 (map (fun g => nth k (scaled nrm nz g) 0) hist).
Proof. exact acc_after_closed. Qed.
Print Assumptions accumulator_closed_form.

Theorem graft_step_adagrad : forall nrm sq, (forall a b, a == b -> sq a == sq b) ->
  forall beta2 deps hist g k, all_len (length g) hist -> (k < length g)%nat ->
  nth k (ds_graft_step nrm sq GAdagrad beta2 deps hist g) 0 ==
  nth k g 0 / (sq (acc_closed 1 1 (coord_hist nrm false k (hist ++ [g]))) + deps).
Proof. exact graft_step_adagrad_l. Qed.
Print Assumptions graft_step_adagrad.

Theorem graft_step_rmsprop : forall nrm sq, (forall a b, a == b -> sq a == sq b) ->
  forall beta2 deps hist g k, all_len (length g) hist -> (k < length g)%nat ->
  nth k (ds_graft_step nrm sq GRmsprop beta2 deps hist g) 0 ==
  nth k g 0 / (sq (acc_closed beta2 (rms_w2 beta2) (coord_hist nrm false k (hist ++ [g]))) + deps).
Proof. exact graft_step_rmsprop_l. Qed.
Print Assumptions graft_step_rmsprop.

Theorem graft_step_adagrad_normalized : forall nrm sq, (forall a b, a == b -> sq a == sq b) ->
  forall beta2 deps hist g k, all_len (length g) hist -> (k < length g)%nat ->
  nth k (ds_graft_step nrm sq GAdagradN beta2 deps hist g) 0 ==
  nth k (scaled nrm true g) 0 / (sq (acc_closed 1 1 (coord_hist nrm true k (hist ++ [g]))) + deps).
Proof. exact graft_step_adagrad_normalized_l. Qed.
Print Assumptions graft_step_adagrad_normalized.

Theorem graft_step_rmsprop_normalized : forall nrm sq, (forall a b, a == b -> sq a == sq b) ->
  forall beta2 deps hist g k, all_len (length g) hist -> (k < length g)%nat ->
  nth k (ds_graft_step nrm sq GRmspropN beta2 deps hist g) 0 ==
  nth k (scaled nrm true g) 0 /
  (sq (acc_closed beta2 (rms_w2 beta2) (coord_hist nrm true k (hist ++ [g]))) + deps).
Proof. exact graft_step_rmsprop_normalized_l. Qed.
Print Assumptions graft_step_rmsprop_normalized.

Theorem graft_step_tearfree_rmsprop : forall nrm rsq, (forall a b, a == b -> rsq a == rsq b) ->
  forall b e hist g k, all_len (length g) hist -> (k < length g)%nat ->
  nth k (tf_rms_step nrm rsq b e hist g) 0 ==
  nth k g 0 * rsq (acc_closed (fst (tf_w b)) (snd (tf_w b)) (coord_hist nrm false k (hist ++ [g])) + e).
Proof. exact tf_rms_step_closed_l. Qed.
Print Assumptions graft_step_tearfree_rmsprop.

(* tearfree/grafting.py maybe_graft as written in the source (C05.Ref: translated on every run and
   re-proved equal, GenEq obligation; the Euclidean norm is the oracle [nrm]) is the model's
   tf_update for every norm oracle, step, start step and pair of equally long vectors; a shape
   mismatch is rejected and a skipped (masked) leaf gets the graft step whatever the shapes. *)
Theorem c05_tf_source_is_model : forall (nrm : list Q -> Q) masked count start (s base : list Q),
  length s = length base ->
  C05.Ref.tf_maybe_graft nrm masked count start s base = Some (tf_update nrm masked count start s base).
Proof. exact C05.RefLink.maybe_graft_is_model. Qed.
Print Assumptions c05_tf_source_is_model.

Theorem c05_tf_source_masked : forall (nrm : list Q -> Q) count start (s base : list Q),
  C05.Ref.tf_maybe_graft nrm true count start s base = Some s.
Proof. exact C05.RefLink.maybe_graft_masked. Qed.
Print Assumptions c05_tf_source_masked.

Theorem c05_tf_source_shape_mismatch : forall (nrm : list Q -> Q) count start (s base : list Q),
  length s <> length base -> C05.Ref.tf_maybe_graft nrm false count start s base = None.
Proof. exact C05.RefLink.maybe_graft_shape_mismatch. Qed.
Print Assumptions c05_tf_source_shape_mismatch.
