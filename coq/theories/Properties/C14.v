(* Properties/C14.v — ONLY the property theorems of C14 (each closed by [exact lemma]) and their
   Print Assumptions.  They speak about the abstract pytree model C14.Model; flax/msgpack are
   oracles whose observable behaviour (which leaves are serialized, in which order; restore returns
   the serialized state bit for bit) is monitored by ./check C14 on every run. *)
From Precond Require Import Base.PyLib C07.Layout C14.Model C14.Proofs.
Open Scope Z_scope.

Theorem c14_restore_roundtrip : forall s tmpl,
  same_static s tmpl -> restore tmpl (serialize s) = s.
Proof. exact restore_roundtrip. Qed.
Print Assumptions c14_restore_roundtrip.

(* For every pure step function that never changes the static skeleton (C07), every initial state,
   every history split pre ++ suf (crash point = |pre|, any length): restoring the serialized state
   into a fresh template gives the very same state, the continuation equals the uninterrupted
   run's suffix, update by update, and ends in the same final state. *)
Theorem c14_resume_identical :
  forall (input output : Type) (step : pytree -> input -> output * pytree),
  (forall s g, same_static (snd (step s g)) s) ->
  forall init tmpl pre suf, same_static tmpl init ->
    let sk := final input output step init pre in
    let resumed := restore tmpl (serialize sk) in
    resumed = sk /\
    run input output step resumed suf = run input output step sk suf /\
    run input output step init (pre ++ suf) =
    (fst (run input output step init pre) ++ fst (run input output step resumed suf),
     final input output step resumed suf).
Proof. exact resume_identical. Qed.
Print Assumptions c14_resume_identical.

(* the hypothesis "static skeleton is invariant" is what C07 proves about layouts *)
Theorem c14_static_invariant_from_layout : forall l s s',
  has_layout l s -> has_layout l s' -> same_static s s'.
Proof. exact static_invariant_from_layout. Qed.
Print Assumptions c14_static_invariant_from_layout.

(* purity is necessary: with state outside the pytree (a Python-side counter) the statement fails *)
Theorem c14_resume_identical_refuted_with_hidden_state :
  exists (init : pytree) (pre suf : list unit),
    let '(_, sk, _) := hrun unit Z Z counter_step 0 init pre in
    let resumed := restore init (serialize sk) in
    resumed = sk /\
    fst (fst (hrun unit Z Z counter_step 0 resumed suf)) <>
    skipn (length pre) (fst (fst (hrun unit Z Z counter_step 0 init (pre ++ suf)))).
Proof. exact hidden_state_breaks_resume. Qed.
Print Assumptions c14_resume_identical_refuted_with_hidden_state.
