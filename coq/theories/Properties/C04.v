(* Properties/C04.v — ONLY the property theorems of C04 (refresh cadence and warm-up), each closed
   by [exact lemma], and their Print Assumptions.  They speak about the automaton of C04.Model,
   which harness/c04.py ties to /repo on every run: for every tested schedule the automaton must
   predict, step by step, which state leaves of the real optimizers change bitwise, which depend on
   the current gradient, and which update (graft / preconditioned) is emitted.
   All statements hold for EVERY statistics interval s, EVERY (possibly step-dependent)
   preconditioner interval, EVERY start step and EVERY horizon (induction over the step list). *)
From Precond Require Import Base.PyLib C04.Model C04.Proofs.
From Precond Require C04.Ref C04.RefLink.
From Coq Require Import QArith.
Open Scope Z_scope.

(* the step counter advances by exactly one per update *)
Theorem c04_count_advances : forall s p x, count (sched_step s p x) = count x + 1.
Proof. exact count_step. Qed.
Print Assumptions c04_count_advances.

Theorem c04_count_after_n_updates : forall s pf n, count (run s pf n) = Z.of_nat n.
Proof. exact count_run. Qed.
Print Assumptions c04_count_after_n_updates.

(* every reachable state satisfies the invariant (versions lie in the past, the preconditioners
   never stem from statistics newer than the stored ones, metrics move with the preconditioners) *)
Theorem c04_invariant : forall s pf n, Inv (run s pf n).
Proof. exact Inv_run. Qed.
Print Assumptions c04_invariant.

(* statistics change only on multiples of the statistics interval, and do change on each *)
Theorem c04_stats_change_only_on_multiples : forall s p x, Inv x ->
  (stats_ver (sched_step s p x) <> stats_ver x <-> count x mod s = 0).
Proof. exact stats_change_iff. Qed.
Print Assumptions c04_stats_change_only_on_multiples.

Theorem c04_stats_written_on_multiples : forall s p x,
  count x mod s = 0 -> stats_ver (sched_step s p x) = count x.
Proof. exact stats_written. Qed.
Print Assumptions c04_stats_written_on_multiples.

Theorem c04_stats_identical_otherwise : forall s p x,
  count x mod s <> 0 -> stats_ver (sched_step s p x) = stats_ver x.
Proof. exact stats_kept. Qed.
Print Assumptions c04_stats_identical_otherwise.

(* preconditioners (and their diagnostics) are written only on multiples of the preconditioner
   interval in force at that step, and on each of them *)
Theorem c04_precond_change_only_on_multiples : forall s p x, Inv x ->
  (precond_ver (sched_step s p x) <> precond_ver x <-> count x mod p = 0).
Proof. exact precond_written_iff. Qed.
Print Assumptions c04_precond_change_only_on_multiples.

Theorem c04_precond_identical_otherwise : forall s p x, count x mod p <> 0 ->
  precond_ver (sched_step s p x) = precond_ver x /\
  precond_src (sched_step s p x) = precond_src x /\
  metrics_ver (sched_step s p x) = metrics_ver x.
Proof. exact precond_kept. Qed.
Print Assumptions c04_precond_identical_otherwise.

Theorem c04_metrics_move_with_preconditioners : forall s pf n,
  metrics_ver (run s pf n) = precond_ver (run s pf n).
Proof. exact metrics_with_precond. Qed.
Print Assumptions c04_metrics_move_with_preconditioners.

(* ordering: a refresh at step t reflects the statistics current at that step (after this step's
   statistics update); when t is also a statistics step these are the statistics of step t *)
Theorem c04_refresh_uses_current_stats : forall s p x, count x mod p = 0 ->
  precond_ver (sched_step s p x) = count x /\
  precond_src (sched_step s p x) = stats_ver (sched_step s p x).
Proof. exact refresh_uses_current_stats. Qed.
Print Assumptions c04_refresh_uses_current_stats.

Theorem c04_refresh_sees_same_step_stats : forall s p x,
  count x mod p = 0 -> count x mod s = 0 -> precond_src (sched_step s p x) = count x.
Proof. exact refresh_sees_same_step_stats. Qed.
Print Assumptions c04_refresh_sees_same_step_stats.

(* the preconditioner VALUE changes exactly when a refresh sees statistics it has not seen *)
Theorem c04_precond_value_changes_iff : forall s p x,
  precond_src (sched_step s p x) <> precond_src x <->
  count x mod p = 0 /\ stats_ver (sched_step s p x) <> precond_src x.
Proof. exact precond_value_changes_iff. Qed.
Print Assumptions c04_precond_value_changes_iff.

(* closed forms for fixed intervals, any horizon *)
Theorem c04_stats_closed_form : forall s pf n, 0 < s ->
  stats_ver (run s pf (S n)) = s * (Z.of_nat n / s).
Proof. exact stats_closed_form. Qed.
Print Assumptions c04_stats_closed_form.

Theorem c04_precond_closed_form : forall s p n, 0 < s -> 0 < p ->
  precond_ver (run s (fixed p) (S n)) = p * (Z.of_nat n / p) /\
  precond_src (run s (fixed p) (S n)) = s * ((p * (Z.of_nat n / p)) / s).
Proof.
  exact (fun s p n Hs Hp => conj (precond_ver_closed_form s p n Hp)
                                 (precond_src_closed_form s p n Hs Hp)).
Qed.
Print Assumptions c04_precond_closed_form.

(* the scheduled interval is always >= 1, and is 1 or a multiple of 10; it is the floor of the
   documented rational expression *)
Theorem c04_interval_ge_1 : forall start end_ num den, 1 <= sched_interval start end_ num den.
Proof. exact interval_ge_1_lemma. Qed.
Print Assumptions c04_interval_ge_1.

Theorem c04_interval_shape : forall start end_ num den,
  sched_interval start end_ num den = 1 \/ sched_interval start end_ num den mod 10 = 0.
Proof. exact interval_shape. Qed.
Print Assumptions c04_interval_shape.

Theorem c04_interval_is_floor : forall start end_ num den, 0 < den ->
  let v := (start * den + (den - num) * end_) in
  let q := v / (10 * den) in
  10 * den * q <= v < 10 * den * (q + 1).
Proof. exact interval_is_floor. Qed.
Print Assumptions c04_interval_is_floor.

(* warm-up boundary, off-by-one excluded: strictly before the start step the update is the
   grafting optimizer's, from the start step on the preconditioned one *)
Theorem c04_warmup_boundary : forall start t,
  (t < start -> selected start t = Graft) /\ (start <= t -> selected start t = Precond).
Proof. exact selected_spec. Qed.
Print Assumptions c04_warmup_boundary.

Theorem c04_warmup_ds_blend : forall start t (shampoo graft : Q),
  (t < start -> (ds_update start t shampoo graft == graft)%Q) /\
  (start <= t -> (ds_update start t shampoo graft == shampoo)%Q).
Proof.
  exact (fun start t a b => conj (ds_update_before start t a b) (ds_update_from start t a b)).
Qed.
Print Assumptions c04_warmup_ds_blend.

Theorem c04_warmup_tearfree_select : forall (U : Type) start t (precond graft : U),
  (t < start -> tf_update start t precond graft = graft) /\
  (start <= t -> tf_update start t precond graft = precond).
Proof.
  exact (fun U start t a b => conj (tf_update_before start t a b) (tf_update_from start t a b)).
Qed.
Print Assumptions c04_warmup_tearfree_select.

(* sharded mode applies the preconditioners stored in the incoming state: what the sharded update
   uses at step t+1 is what the replicated update used at step t (one-step lag) *)
Theorem c04_sharded_one_step_lag : forall s p x,
  used_src_sharded (sched_step s p x) = used_src_replicated s p x.
Proof. exact sharded_lag. Qed.
Print Assumptions c04_sharded_one_step_lag.

Theorem c04_sharded_lag_every_step : forall n,
  used_src_replicated 1 1 (run 1 (fixed 1) n) = Z.of_nat n /\
  used_src_sharded (run 1 (fixed 1) (S n)) = Z.of_nat n /\
  used_src_sharded (run 1 (fixed 1) 0) = -2.
Proof.
  exact (fun n => conj (replicated_every_step_fresh n)
                       (conj (sharded_every_step_stale n) (sharded_first_step_uses_initial 1 (fixed 1)))).
Qed.
Print Assumptions c04_sharded_lag_every_step.

Theorem c04_update_depends_on_stored_precond : forall sharded start p x,
  depends_on_stored_precond sharded start p x = true <->
  start <= count x /\ (sharded = true \/ count x mod p <> 0).
Proof. exact depends_on_stored_spec. Qed.
Print Assumptions c04_update_depends_on_stored_precond.

(* the translated source of preconditioning_compute_steps_schedule (C04.Ref, regenerated from /repo on
   every run and re-proved equal: GenEq obligation) computes the model's integer interval formula
   whenever the learning-rate ratio lr(t)/lr(0) is the rational num/den *)
Theorem c04_schedule_source_is_model : forall (base lr : Q) (start end_ num : Z) (den : positive),
  (lr / base == num # den)%Q ->
  (C04.Ref.compute_steps_schedule base lr start end_
   == inject_Z (sched_interval start end_ num (Z.pos den)))%Q.
Proof. exact C04.RefLink.schedule_is_model. Qed.
Print Assumptions c04_schedule_source_is_model.
