(* Properties/C06_blockify.v — ONLY property theorems (each closed by [exact lemma]) of the
   tensor-level part of C06: axis transposition / reshape / pad / slice on flat row-major tensors
   (C06.Transpose), Tearfree _blockify / _deblockify and reshaper merge / unmerge
   (C06.BlockifyModel, whose integer metadata is the translated C06.Ref.blocks_metadata /
   C06.Ref.derive_shapes, re-derived from /repo's source on every run).  All theorems hold for every
   element type, rank, shape and block size. *)
From Coq Require Import List Arith ZArith.
From Precond Require Import Base.PyLib Base.Tensor C06.Records C06.Ref C06.TensorProofs
     C06.Transpose C06.TransposeProofs C06.BlockifyModel C06.BlockifyProofs.
Import ListNotations.
Local Open Scope nat_scope.

(* ---------- multi-indices ---------- *)
Theorem c06_unflatten_flatten : forall shape idx,
  in_range shape idx -> unflatten_index shape (flatten_index shape idx) = idx.
Proof. exact unflatten_flatten. Qed.
Print Assumptions c06_unflatten_flatten.

Theorem c06_flatten_unflatten : forall shape k,
  k < prodn shape -> flatten_index shape (unflatten_index shape k) = k.
Proof. exact flatten_unflatten. Qed.
Print Assumptions c06_flatten_unflatten.

Theorem c06_all_indices_row_major : forall shape,
  all_indices shape = map (unflatten_index shape) (seq 0 (prodn shape)).
Proof. exact all_indices_spec. Qed.
Print Assumptions c06_all_indices_row_major.

(* ---------- at / tabulate ---------- *)
Theorem c06_at_tabulate : forall (A : Type) (zero : A) shape (f : list nat -> A) idx,
  in_range shape idx -> t_at zero (tabulate shape f) idx = f idx.
Proof. exact t_at_tabulate. Qed.
Print Assumptions c06_at_tabulate.

Theorem c06_tabulate_at : forall (A : Type) (zero : A) (t : tensor A),
  wf A t -> tabulate (t_shape t) (t_at zero t) = t.
Proof. exact tabulate_t_at. Qed.
Print Assumptions c06_tabulate_at.

Theorem c06_tensor_ext : forall (A : Type) (zero : A) (t1 t2 : tensor A),
  wf A t1 -> wf A t2 -> t_shape t1 = t_shape t2 ->
  (forall idx, in_range (t_shape t1) idx -> t_at zero t1 idx = t_at zero t2 idx) -> t1 = t2.
Proof. exact tensor_ext. Qed.
Print Assumptions c06_tensor_ext.

(* ---------- reshape / expand_dims / squeeze ---------- *)
Theorem c06_reshape_round_trip : forall (A : Type) sh (t : tensor A),
  reshape (t_shape t) (reshape sh t) = t.
Proof. exact reshape_round_trip. Qed.
Print Assumptions c06_reshape_round_trip.

Theorem c06_squeeze_expand_dims : forall (A : Type) axis (t : tensor A),
  axis <= length (t_shape t) -> squeeze axis (expand_dims axis t) = t.
Proof. exact squeeze_expand_dims. Qed.
Print Assumptions c06_squeeze_expand_dims.

(* ---------- transpose (jnp.transpose: result axis j is input axis perm[j]) ---------- *)
Theorem c06_at_transpose : forall (A : Type) (zero : A) perm (t : tensor A) idx,
  in_range (permute perm (t_shape t)) idx ->
  t_at zero (transpose zero perm t) idx = t_at zero t (apply_perm perm idx).
Proof. exact t_at_transpose. Qed.
Print Assumptions c06_at_transpose.

Theorem c06_transpose_inverse : forall (A : Type) (zero : A) perm (t : tensor A),
  is_perm (length (t_shape t)) perm -> wf A t ->
  transpose zero (inverse_perm perm) (transpose zero perm t) = t.
Proof. exact transpose_inverse. Qed.
Print Assumptions c06_transpose_inverse.

Theorem c06_move_perm_inverse : forall n i j, i < n -> j < n ->
  move_perm n j i = inverse_perm (move_perm n i j).
Proof. exact move_perm_inverse. Qed.
Print Assumptions c06_move_perm_inverse.

Theorem c06_transpose_move_round_trip : forall (A : Type) (zero : A) n i j (t : tensor A),
  length (t_shape t) = n -> i < n -> j < n -> wf A t ->
  transpose zero (move_perm n j i) (transpose zero (move_perm n i j) t) = t.
Proof. exact transpose_move_round_trip. Qed.
Print Assumptions c06_transpose_move_round_trip.

(* ---------- pad / slice ---------- *)
Theorem c06_slice_pad : forall (A : Type) (zero : A) padded (t : tensor A),
  wf A t -> Forall2 le (t_shape t) padded ->
  Transpose.slice_to zero (t_shape t) (pad_to zero padded t) = t.
Proof. exact slice_pad. Qed.
Print Assumptions c06_slice_pad.

Theorem c06_pad_inside : forall (A : Type) (zero : A) padded (t : tensor A) idx,
  Forall2 le (t_shape t) padded -> in_range (t_shape t) idx ->
  t_at zero (pad_to zero padded t) idx = t_at zero t idx.
Proof. exact pad_inside. Qed.
Print Assumptions c06_pad_inside.

Theorem c06_pad_outside_zero : forall (A : Type) (zero : A) padded (t : tensor A) idx,
  in_range padded idx -> ~ in_range (t_shape t) idx -> t_at zero (pad_to zero padded t) idx = zero.
Proof. exact pad_outside. Qed.
Print Assumptions c06_pad_outside_zero.

(* ---------- Tearfree _blockify / _deblockify ---------- *)
(* _deblockify(_blockify(x)) = x for every parameter shape that _init accepts (no unit dims, at
   most two dims >= block_size, those divisible by it) and every block_size > 1 (_validate) *)
Theorem c06_deblockify_blockify_id : forall (A : Type) (zero : A) (shape : list Z) (b : Z) (t : tensor A),
  (1 < b)%Z -> accepted shape b -> wf A t -> t_shape t = map Z.to_nat shape ->
  deblockify zero (blocks_metadata b shape) (blockify zero (blocks_metadata b shape) t) = t.
Proof. exact deblockify_blockify_id. Qed.
Print Assumptions c06_deblockify_blockify_id.

Theorem c06_blockify_shape_wf : forall (A : Type) (zero : A) (shape : list Z) (b : Z) (t : tensor A),
  (1 < b)%Z -> accepted shape b -> wf A t -> t_shape t = map Z.to_nat shape ->
  let meta := blocks_metadata b shape in
  t_shape (blockify zero meta t)
  = insert_at (Z.to_nat (bm_blocks_axis meta)) (Z.to_nat (bm_num_blocks meta))
              (map Z.to_nat (bm_block_sizes meta)) /\
  Z.to_nat (bm_blocks_axis meta) <= length (map Z.to_nat (bm_block_sizes meta)) /\
  wf A (blockify zero meta t).
Proof. exact blockify_shape_wf. Qed.
Print Assumptions c06_blockify_shape_wf.

(* block number k (row-major over the block grid of the large axes) of the blocked tensor is the
   contiguous sub-tensor x[i*b:(i+1)*b, ...]: element-wise and as tensors *)
Theorem c06_blockify_block_is_subtensor_at :
  forall (A : Type) (zero : A) (shape : list Z) (b : Z) (t : tensor A) k widx,
  (1 < b)%Z -> accepted shape b -> wf A t -> t_shape t = map Z.to_nat shape ->
  let meta := blocks_metadata b shape in
  k < Z.to_nat (bm_num_blocks meta) -> in_range (map Z.to_nat (bm_block_sizes meta)) widx ->
  t_at zero (blockify zero meta t) (insert_at (Z.to_nat (bm_blocks_axis meta)) k widx)
  = t_at zero t (block_origin 0 (map Z.to_nat (bm_large_axes meta))
                   (unflatten_index (map Z.to_nat (bm_blocks_per_large_axis meta)) k)
                   (Z.to_nat (bm_large_block_size meta)) widx).
Proof. exact blockify_block_is_subtensor_at. Qed.
Print Assumptions c06_blockify_block_is_subtensor_at.

Theorem c06_blockify_block_is_subtensor :
  forall (A : Type) (zero : A) (shape : list Z) (b : Z) (t : tensor A) k,
  (1 < b)%Z -> accepted shape b -> wf A t -> t_shape t = map Z.to_nat shape ->
  let meta := blocks_metadata b shape in
  k < Z.to_nat (bm_num_blocks meta) ->
  take_axis zero (Z.to_nat (bm_blocks_axis meta)) k (blockify zero meta t) = block_subtensor zero meta k t.
Proof. exact blockify_block_is_subtensor. Qed.
Print Assumptions c06_blockify_block_is_subtensor.

(* the two-large-axes case with its segments explicit: entry (ip, i*r+j, u, im, v, iq) of the blocked
   tensor is entry (ip, i*b+u, im, j*b+v, iq) of x *)
Theorem c06_blockify_two_at : forall (A : Type) (zero : A) P M Q l r bn (t : tensor A) ip im iq i j u v,
  t_shape t = P ++ (l * bn) :: M ++ (r * bn) :: Q ->
  in_range P ip -> in_range M im -> in_range Q iq -> i < l -> j < r -> u < bn -> v < bn ->
  t_at zero (blockify_nat zero [length P; length P + 1 + length M] [l; r] (length P) (l * r) bn t)
       (ip ++ (i * r + j) :: u :: im ++ v :: iq)
  = t_at zero t (ip ++ (i * bn + u) :: im ++ (j * bn + v) :: iq).
Proof. exact blockify_two_at. Qed.
Print Assumptions c06_blockify_two_at.

(* ---------- reshaper merge / unmerge ---------- *)
Theorem c06_unmerge_merge_id : forall (A : Type) (zero : A) (m b : Z) (shape : list Z) (t : tensor A),
  (1 <= m)%Z -> (0 <= b)%Z -> Forall (fun d => (1 <= d)%Z) shape ->
  wf A t -> t_shape t = map Z.to_nat shape ->
  unmerge zero m b shape (merge zero m b shape t) = t.
Proof. exact unmerge_merge_id. Qed.
Print Assumptions c06_unmerge_merge_id.

Theorem c06_merge_shape_wf : forall (A : Type) (zero : A) (m b : Z) (shape : list Z) (t : tensor A),
  (1 <= m)%Z -> (0 <= b)%Z -> Forall (fun d => (1 <= d)%Z) shape -> wf A t -> t_shape t = map Z.to_nat shape ->
  t_shape (merge zero m b shape t) = map Z.to_nat (sh_padded_shape (derive_shapes m b shape)) /\
  wf A (merge zero m b shape t).
Proof. exact merge_shape_wf. Qed.
Print Assumptions c06_merge_shape_wf.

Theorem c06_merge_real_entries : forall (A : Type) (zero : A) (m b : Z) (shape : list Z) (t : tensor A) idx,
  (1 <= m)%Z -> (0 <= b)%Z -> Forall (fun d => (1 <= d)%Z) shape ->
  in_range (map Z.to_nat (sh_merged_shape (derive_shapes m b shape))) idx ->
  t_at zero (merge zero m b shape t) idx
  = nth (flatten_index (map Z.to_nat (sh_merged_shape (derive_shapes m b shape))) idx) (t_data t) zero.
Proof. exact merge_real_entries. Qed.
Print Assumptions c06_merge_real_entries.

Theorem c06_merge_padding_zero : forall (A : Type) (zero : A) (m b : Z) (shape : list Z) (t : tensor A) idx,
  (1 <= m)%Z -> (0 <= b)%Z -> Forall (fun d => (1 <= d)%Z) shape ->
  in_range (map Z.to_nat (sh_padded_shape (derive_shapes m b shape))) idx ->
  ~ in_range (map Z.to_nat (sh_merged_shape (derive_shapes m b shape))) idx ->
  t_at zero (merge zero m b shape t) idx = zero.
Proof. exact merge_padding_zero. Qed.
Print Assumptions c06_merge_padding_zero.

Theorem c06_derive_shapes_padded_multiple : forall (m b : Z) (shape : list Z),
  (0 < b)%Z ->
  let s := derive_shapes m b shape in
  Forall2 (fun md pd => ((b <= md -> pd mod b = 0 /\ md <= pd < md + b) /\ (md < b -> pd = md))%Z)
          (sh_merged_shape s) (sh_padded_shape s).
Proof. exact derive_shapes_padded_multiple. Qed.
Print Assumptions c06_derive_shapes_padded_multiple.
