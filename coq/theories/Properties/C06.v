(* Properties/C06.v — ONLY property theorems of C06 (each closed by [exact lemma]) and their
   Print Assumptions.  The definitions they speak about (C06.Ref) are re-derived from /repo's
   source on every run (coq/gen/C06/GenEq.v). *)
From Precond Require Import Base.PyLib Base.Tensor C06.Ref C06.MergeProofs C06.TensorProofs C06.BlockProofs.
Open Scope Z_scope.

(* merge_small_dims: the result is the list of products (>1) of a contiguous grouping of the input,
   each group within the limit or a single over-limit dimension; or [1] for an all-ones shape. *)
Theorem c06_merge_grouping : forall l m, 1 <= m -> all_ge1 l ->
  (l <> [] /\ Forall (fun x => x = 1) l /\ merge_small_dims l m = [1]) \/
  exists gs, concat gs = l /\ Forall (good_group m) gs /\
             merge_small_dims l m = filter gt1 (map prod_z gs).
Proof. exact merge_small_dims_grouping. Qed.
Print Assumptions c06_merge_grouping.

Theorem c06_merge_preserves_count : forall l m, 1 <= m -> all_ge1 l ->
  prod_z (merge_small_dims l m) = prod_z l.
Proof. exact merge_small_dims_product. Qed.
Print Assumptions c06_merge_preserves_count.

Theorem c06_merge_respects_limit : forall l m x, 1 <= m -> all_ge1 l ->
  In x (merge_small_dims l m) -> x <= m \/ (In x l /\ m < x).
Proof. exact merge_small_dims_limit. Qed.
Print Assumptions c06_merge_respects_limit.

Theorem c06_merge_no_unit_dims : forall l m, 1 <= m -> all_ge1 l ->
  merge_small_dims l m = [1] \/ Forall (fun x => 1 < x) (merge_small_dims l m).
Proof. exact merge_small_dims_no_unit. Qed.
Print Assumptions c06_merge_no_unit_dims.

(* BlockPartitioner: split sizes per dimension *)
Theorem c06_split_sizes_per_dim : forall shape b,
  snd (block_partitioner_init shape b) = map (dim_sizes b) shape.
Proof. exact split_sizes_spec. Qed.
Print Assumptions c06_split_sizes_per_dim.

Theorem c06_dim_sizes : forall b d, 0 < b -> b < d ->
  Forall (fun s => 1 <= s <= b) (dim_sizes b d) /\
  sum_z (dim_sizes b d) = d /\
  zlen (dim_sizes b d) = (d + b - 1) / b.
Proof. exact dim_sizes_props. Qed.
Print Assumptions c06_dim_sizes.

Theorem c06_split_sizes_sum : forall shape b, Forall (fun d => 1 <= d) shape ->
  map sum_z (snd (block_partitioner_init shape b)) = shape.
Proof. exact split_sizes_sum. Qed.
Print Assumptions c06_split_sizes_sum.

Theorem c06_split_sizes_bounded : forall shape b, 0 < b -> Forall (fun d => 1 <= d) shape ->
  Forall (Forall (fun s => 1 <= s <= b)) (snd (block_partitioner_init shape b)).
Proof. exact split_sizes_bounded. Qed.
Print Assumptions c06_split_sizes_bounded.

(* Announced preconditioner shapes = per block (itertools.product order of the split sizes), one
   per preconditioned axis of that block. *)
Theorem c06_announced_shapes_match_blocks : forall ss ptype cr,
  shapes_for_preconditioners ss ptype cr =
  flat_map (fun t => map (preconditioner_shape cr) (axes_of_block ptype (zlen ss) t)) (cart_prod ss).
Proof. exact shapes_for_preconditioners_spec. Qed.
Print Assumptions c06_announced_shapes_match_blocks.

Theorem c06_exponent : forall ss ptype,
  exponent_for_preconditioner ss ptype = 2 * num_preconditioned ptype (zlen ss).
Proof. exact exponent_spec. Qed.
Print Assumptions c06_exponent.

(* Slot bookkeeping of _preconds_for_grad never trips its assertion: every block receives exactly
   one slot per axis, for every preconditioner type and every rank >= 0.  (Before the fix: commit
   for finding D6 this was refuted for INPUT type at rank <= 1.) *)
Theorem c06_slots_total : forall ptype (ps : list Z) rank i,
  (ptype = 1 \/ ptype = 2 \/ ptype = 3) -> 0 <= rank -> 0 <= i ->
  let np := num_preconditioned ptype rank in
  (i + 1) * np <= zlen ps ->
  exists r, preconds_for_grad ptype ps rank (i * np) ((i + 1) * np) = Some r /\ zlen r = rank.
Proof. exact preconds_for_grad_total. Qed.
Print Assumptions c06_slots_total.

(* Tensor level (any element type, any rank/shape/block size): splitting along an axis and
   concatenating back is the identity, and BlockPartitioner.merge_partitions (partition t) = t with
   the split sizes computed by the (translated) BlockPartitioner.__init__. *)
Theorem c06_concat_split_axis : forall (A : Type) axis sizes (t : tensor A),
  wf A t -> (axis < length (t_shape t))%nat -> sumn sizes = nth axis (t_shape t) 0%nat -> sizes <> [] ->
  concat_axis axis (split_axis axis sizes t) = t.
Proof. exact concat_split_axis. Qed.
Print Assumptions c06_concat_split_axis.

Theorem c06_partition_merge_id : forall (A : Type) (shape : list Z) (b : Z) (data : list A),
  Forall (fun d => 1 <= d) shape ->
  length data = prodn (map Z.to_nat shape) ->
  let ss := nat_split_sizes shape b in
  let t := mkT (map Z.to_nat shape) data in
  merge_partitions ss (partition ss t) = t.
Proof. exact @partition_merge_id. Qed.
Print Assumptions c06_partition_merge_id.

(* non-vacuity *)
Example c06_partition_example :
  map (@t_data Z) (partition (nat_split_sizes [2; 3] 2) (mkT [2; 3]%nat [1; 2; 3; 4; 5; 6]))
  = [[1; 2; 4; 5]; [3; 6]].
Proof. reflexivity. Qed.
