(* Properties/C16.v — ONLY property theorems of C16 and their Print Assumptions. *)
From Precond Require Import Base.PyLib Base.QMat Base.PyFloat C09.Model C09.Proofs C16.Model C16.Proofs C16.Ref C16.RefLink.
Open Scope Q_scope.

(* OGD closed form, for every reciprocal-square-root oracle, learning rate, delta and history *)
Theorem c16_ogd_closed_form : forall (rs : Q -> Q) lr delta gs,
  fst (ogd_run rs lr delta gs) == - (lr * ogd_sum rs delta 0 gs) /\
  snd (ogd_run rs lr delta gs) == inject_Z (Z.of_nat (length gs)).
Proof. exact ogd_closed_form. Qed.
Print Assumptions c16_ogd_closed_form.

(* diagonal AdaGrad closed form *)
Theorem c16_ada_closed_form : forall (rs : Q -> Q) lr delta gs,
  fst (ada_run rs lr delta gs) == - (lr * ada_sum rs delta gs) /\
  snd (ada_run rs lr delta gs) == delta + sumsq gs.
Proof. exact ada_closed_form. Qed.
Print Assumptions c16_ada_closed_form.

(* every sketched method keeps its last sketch row at eigenvalue zero *)
Theorem c16_fd_last_row_zero : forall s : vec, s <> [] -> last (oco_deflate s) 0 == 0.
Proof. exact fd_last_row_zero. Qed.
Print Assumptions c16_fd_last_row_zero.

(* S-AdaGrad's diagonal term: alpha_T = delta + f * sum rho_t^2 (f = 1) *)
Theorem c16_sada_alpha : forall f delta rhos, alpha_run f delta rhos == delta + f * sumsq rhos.
Proof. exact sada_alpha. Qed.
Print Assumptions c16_sada_alpha.

(* lossless case (all escaped mass zero): alpha stays delta, and (C09) the sketch equals the exact
   covariance; each retained direction is then scaled by rsqrt(delta + s_i) whose square inverts
   delta + s_i, i.e. full-matrix AdaGrad's factor for delta*I + C in that direction. *)
Theorem c16_sada_alpha_lossless : forall f delta rhos,
  Forall (fun r => r == 0) rhos -> alpha_run f delta rhos == delta.
Proof. exact sada_alpha_lossless. Qed.
Print Assumptions c16_sada_alpha_lossless.

Theorem c16_sada_sketch_exact_lossless : forall (X : Type) (n2 : X -> Q) b k sts s,
  exact_state X s -> specs_ok X n2 b k s sts -> cutoffs_zero X k sts -> exact_state X (fd_run X b k s sts).
Proof. exact fd_zero_cutoff_exact. Qed.
Print Assumptions c16_sada_sketch_exact_lossless.

Theorem c16_sada_direction_factor_partial : forall rs : Q -> Q, rs_spec rs ->
  forall delta s, 0 < delta -> 0 <= s -> rs (delta + s) * rs (delta + s) * (delta + s) == 1.
Proof. exact sada_direction_factor. Qed.
Print Assumptions c16_sada_direction_factor_partial.

(* Matrix level: with Pi the projector onto the sketch's row space, Qc = I - Pi, Dm the sketch
   (= exact covariance when lossless, c16_sada_sketch_exact_lossless), Fm the sketch-space inverse
   root, S-AdaGrad's preconditioner X = Fm + rsqrt(delta) Qc satisfies X X (delta I + Dm) = I in every
   (non-commutative) matrix algebra: it IS full-matrix AdaGrad's (delta I + C)^(-1/2). *)
Theorem c16_sada_lossless_is_full_adagrad :
  forall (M : Type) (mul add : M -> M -> M) (one zero : M) (sm : Q -> M -> M),
  (forall a b c, mul a (mul b c) = mul (mul a b) c) ->
  (forall a b c, mul a (add b c) = add (mul a b) (mul a c)) ->
  (forall a b c, mul (add a b) c = add (mul a c) (mul b c)) ->
  (forall a, mul zero a = zero) -> (forall a, mul a zero = zero) ->
  (forall a, add zero a = a) -> (forall a, add a zero = a) ->
  (forall a b c, add a (add b c) = add (add a b) c) -> (forall a b, add a b = add b a) ->
  (forall a, mul one a = a) ->
  (forall q a b, mul (sm q a) b = sm q (mul a b)) -> (forall q a b, mul a (sm q b) = sm q (mul a b)) ->
  (forall q a b, sm q (add a b) = add (sm q a) (sm q b)) ->
  (forall p q a, sm p (sm q a) = sm (p * q) a) -> (forall p q a, p == q -> sm p a = sm q a) ->
  (forall a, sm 1 a = a) -> (forall q, sm q zero = zero) ->
  forall (Pi Qc Dm Fm : M) (delta a : Q),
  add Pi Qc = one -> mul Pi Qc = zero -> mul Qc Pi = zero ->
  mul Fm Pi = Fm -> mul Pi Fm = Fm -> mul Pi Dm = Dm ->
  mul (mul Fm Fm) (add (sm delta Pi) Dm) = Pi -> a * a * delta == 1 ->
  mul (mul (Xs M add sm Qc Fm a) (Xs M add sm Qc Fm a)) (As M add one sm Dm delta) = one.
Proof. exact sada_lossless_is_full_adagrad. Qed.
Print Assumptions c16_sada_lossless_is_full_adagrad.

(* The model steps of the closed-form theorems ARE the code: C16.Ref.ogd_update_fn / ada_update_fn are
   translated from precondition/oco/algorithms.py on every run (GenEq obligations) and act, coordinate
   by coordinate, exactly as ogd_step / ada_step. *)
Theorem c16_ogd_update_is_model_step : forall rs lr delta (w : vec) t (g : vec) i,
  length w = length g -> (i < length w)%nat ->
  nth i (fst (ogd_update_fn rs lr delta w t g)) 0
    == fst (ogd_step rs lr delta (nth i w 0, t) (nth i g 0)) /\
  snd (ogd_update_fn rs lr delta w t g) = snd (ogd_step rs lr delta (nth i w 0, t) (nth i g 0)).
Proof. exact ogd_update_is_model_step. Qed.
Print Assumptions c16_ogd_update_is_model_step.

Theorem c16_ada_update_is_model_step : forall rs lr (w h g : vec) i,
  length w = length g -> length h = length g -> (i < length w)%nat ->
  nth i (fst (ada_update_fn rs lr w h g)) 0
    = fst (ada_step rs lr (nth i w 0, nth i h 0) (nth i g 0)) /\
  nth i (snd (ada_update_fn rs lr w h g)) 0
    = snd (ada_step rs lr (nth i w 0, nth i h 0) (nth i g 0)) /\
  length (fst (ada_update_fn rs lr w h g)) = length w /\
  length (snd (ada_update_fn rs lr w h g)) = length h.
Proof. exact ada_update_is_model_step. Qed.
Print Assumptions c16_ada_update_is_model_step.
