(* Properties/C01.v — ONLY property theorems of C01 and their Print Assumptions. *)
From Coq Require Import QArith Qminmax ZArith NArith List Ring.
From Precond Require Import Base.QMat Base.PsdCheck C01.Model C01.Proofs C01.Check C01.CheckSound.
Import ListNotations.
Open Scope Q_scope.

(* mat_power (binary exponentiation with a traced exponent) computes the p-th power, in every
   commutative ring *)
Theorem c01_mat_power_correct : forall (R : Type) (rO rI : R) (radd rmul rsub : R -> R -> R)
  (ropp : R -> R), ring_theory rO rI radd rmul rsub ropp (@eq R) ->
  forall m p, mat_power R rI rmul m p = rpow R rI rmul m (N.to_nat p).
Proof. exact mat_power_correct. Qed.
Print Assumptions c01_mat_power_correct.

(* every Newton step preserves the coupling H^p * Ad = M *)
Theorem c01_coupled_step : forall (R : Type) (rO rI : R) (radd rmul rsub : R -> R -> R)
  (ropp : R -> R), ring_theory rO rI radd rmul rsub ropp (@eq R) ->
  forall (scal : Q -> R) p alpha Ad M H,
  rmul (rpow R rI rmul H p) Ad = M ->
  let '(M', H') := newton_step R rI radd rmul scal p alpha (M, H) in
  rmul (rpow R rI rmul H' p) Ad = M'.
Proof. exact coupled_step. Qed.
Print Assumptions c01_coupled_step.

(* honesty of the reported error, for every number of iterations and whatever the blend selects *)
Theorem c01_reported_error_honest : forall (R : Type) (rO rI : R) (radd rmul rsub : R -> R -> R)
  (ropp : R -> R), ring_theory rO rI radd rmul rsub ropp (@eq R) ->
  forall (scal : Q -> R) (res : R -> Q) p alpha Ad tol iters fuel s0,
  0 <= tol -> inv R rI rmul res p Ad s0 ->
  let s := inner R rI radd rmul scal res fuel iters tol p alpha s0 in
  let '(X, reported) := attempt_result R res s in
  res (rmul (rpow R rI rmul X p) Ad) <= reported /\
  (converged R s = true -> res (rmul (rpow R rI rmul X p) Ad) == reported).
Proof. exact newton_reported_error_honest. Qed.
Print Assumptions c01_reported_error_honest.

(* padding masks: closed under the iteration *)
Theorem c01_masked_closed : forall (R : Type) (rI : R) (radd rmul : R -> R -> R)
  (scal : Q -> R) (res : R -> Q) (Pm : R -> Prop),
  (forall x y, Pm x -> Pm y -> Pm (rmul x y)) -> (forall x y, Pm x -> Pm y -> Pm (radd x y)) ->
  (forall q, Pm (scal q)) -> Pm rI ->
  forall p alpha tol iters fuel s,
  Pm (n_M R s) -> Pm (n_H R s) -> Pm (n_Hold R s) ->
  let s' := inner R rI radd rmul scal res fuel iters tol p alpha s in
  Pm (n_M R s') /\ Pm (n_H R s') /\ Pm (n_Hold R s').
Proof. exact masked_closed. Qed.
Print Assumptions c01_masked_closed.

(* retry loop: the returned triple is that of the last attempt n-1 (ridge eps*10^(n-1)); earlier
   attempts all failed; the last succeeded or was the final allowed try *)
Theorem c01_retry_result : forall (A : Type) (attempt : nat -> A * Q) tries fuel i last,
  (tries - i <= fuel)%nat -> (i < tries)%nat ->
  let '(n, r) := outer A attempt fuel i last true tries in
  (i < n <= tries)%nat /\ r = attempt (n - 1)%nat /\
  (forall j, (i <= j < n - 1)%nat -> failed_at A attempt j = true) /\
  (failed_at A attempt (n - 1)%nat = false \/ n = tries).
Proof. exact retry_result. Qed.
Print Assumptions c01_retry_result.

(* the eigenvalue estimate (a Rayleigh quotient) never exceeds a bound of the quadratic form *)
Theorem c01_rayleigh_le_lmax : forall (A : list (list Q)) (v : list Q) (lam : Q),
  0 < dot v v -> (forall x, length x = length v -> qf A x <= lam * dot x x) ->
  qf A v / dot v v <= lam.
Proof. exact rayleigh_le_lmax. Qed.
Print Assumptions c01_rayleigh_le_lmax.

Theorem c01_one_by_one : forall (p : positive) (x a d : Q),
  0 < x /\ x ^ (Zpos p) * (a + d) == 1 -> x ^ (Zpos p) * (a + d) - 1 == 0.
Proof. exact one_by_one. Qed.
Print Assumptions c01_one_by_one.

(* run-time verdicts *)
Theorem c01_root_cert_sound : forall tau_sym slack err d n s p X A,
  root_cert tau_sym slack err d n s p X A = 0%Z ->
  zero_outside s X = true /\ sym_ok tau_sym X = true /\ cert_residual n s p X A d <= err + slack.
Proof. exact root_cert_sound. Qed.
Print Assumptions c01_root_cert_sound.

Theorem c01_maxev_ok_sound : forall eps c lam_ub n A, is_square n A = true ->
  maxev_ok eps c lam_ub n A = true ->
  (forall x, length x = n -> qf A x <= lam_ub * dot x x) /\ c <= lam_ub * (1 + eps).
Proof. exact maxev_ok_sound. Qed.
Print Assumptions c01_maxev_ok_sound.

(* eigh variant: X^p Ad = I + U f(E)^p R U^T where R is the eigen-residual the routine reports;
   holds in every (non-commutative) ring of matrices *)
Theorem c01_eigh_residual_identity : forall (M : Type) (mul add : M -> M -> M) (one : M),
  (forall a b c, mul a (mul b c) = mul (mul a b) c) ->
  (forall a, mul one a = a) -> (forall a, mul a one = a) ->
  (forall a b c, mul a (add b c) = add (mul a b) (mul a c)) ->
  (forall a b c, mul (add a b) c = add (mul a c) (mul b c)) ->
  forall U Ut E R Fp Ad Xp : M,
  mul U Ut = one -> mul Ut U = one -> mul Fp E = one ->
  mul (mul Ut Ad) U = add E R -> Xp = mul (mul U Fp) Ut ->
  mul Xp Ad = add one (mul (mul (mul U Fp) R) Ut).
Proof. exact eigh_residual_identity. Qed.
Print Assumptions c01_eigh_residual_identity.
