(* Properties/C09.v — ONLY property theorems of C09 and their Print Assumptions. *)
From Precond Require Import Base.QMat Base.PsdCheck C09.Model C09.Proofs C09.Bessel C09.Check C09.CheckSound.
From Precond Require C09.Budget.
Open Scope Q_scope.

(* One FD step preserves  0 <= t  and  B <= C <= B + t*|x|^2  for EVERY answer of the SVD oracle
   meeting its spec, every decay b >= 0, rank k, gradient form G >= 0 and per-step ridge R >= 0. *)
Theorem c09_fd_step_bracket : forall (X : Type) (n2 : X -> Q) b k (s : state X) (st : step X),
  0 <= b -> bracket X n2 s -> svd_spec X n2 b (fst (fst s)) st -> bracket X n2 (fd_step X b k s st).
Proof. exact fd_step_bracket. Qed.
Print Assumptions c09_fd_step_bracket.

(* ... hence along every history of any length. *)
Theorem c09_fd_history_bracket : forall (X : Type) (n2 : X -> Q) b k, 0 <= b ->
  forall sts s, bracket X n2 s -> specs_ok X n2 b k s sts -> bracket X n2 (fd_run X b k s sts).
Proof. exact fd_history_bracket. Qed.
Print Assumptions c09_fd_history_bracket.

(* escaped mass recurrence t' = b*t + rho *)
Theorem c09_tail_recurrence : forall (X : Type) b k (s : state X) st,
  snd (fst (fd_step X b k s st)) = b * snd (fst s) + cutoff k (st_sigma X st).
Proof. exact fd_step_tail. Qed.
Print Assumptions c09_tail_recurrence.

(* new eigenvalues are non-negative *)
Theorem c09_new_eigs_nonneg : forall k s, sorted_desc s -> Forall (fun a => 0 <= a) s ->
  Forall (fun a => 0 <= a) (deflate k s).
Proof. exact deflate_nonneg. Qed.
Print Assumptions c09_new_eigs_nonneg.

(* zero-gradient step (zero cut-off, no ridge): sketch and escaped mass scaled by the same b *)
Theorem c09_zero_grad_step : forall (X : Type) (n2 : X -> Q) b k (s : state X) st,
  svd_spec X n2 b (fst (fst s)) st -> cutoff k (st_sigma X st) == 0 ->
  (forall x, st_G X st x == 0) -> (forall x, st_R X st x == 0) ->
  (forall x, fst (fst (fd_step X b k s st)) x == b * fst (fst s) x) /\
  snd (fst (fd_step X b k s st)) == b * snd (fst s).
Proof. exact fd_zero_grad_step. Qed.
Print Assumptions c09_zero_grad_step.

(* histories whose cut-offs vanish (rank <= k) are tracked exactly *)
Theorem c09_zero_cutoff_exact : forall (X : Type) (n2 : X -> Q) b k sts s,
  exact_state X s -> specs_ok X n2 b k s sts -> cutoffs_zero X k sts -> exact_state X (fd_run X b k s sts).
Proof. exact fd_zero_cutoff_exact. Qed.
Print Assumptions c09_zero_cutoff_exact.

(* stored inverse roots: the quantity inverted (sigma_i + b*t + eps) is l'_i + t' + eps *)
Theorem c09_roots_spec : forall p r sigma_i rho b t eps,
  root_spec p r (sigma_i + b * t + eps) -> root_spec p r ((sigma_i - rho) + (b * t + rho) + eps).
Proof. exact fd_roots_spec. Qed.
Print Assumptions c09_roots_spec.

(* Bessel's inequality: the only consequence of orthonormality the step needs — proved. *)
Theorem c09_bessel : forall n U x, ortho n U -> length x = n -> sumq (coeffs U x) <= dot x x.
Proof. exact bessel. Qed.
Print Assumptions c09_bessel.

(* a concrete orthonormal SVD answer (list vectors) meets the abstract spec *)
Theorem c09_concrete_svd_spec : forall n b (B Gf Rf : vecn n -> Q) (U : list vec) (sigma : list Q),
  ortho n U -> sorted_desc sigma -> Forall (fun a => 0 <= a) sigma -> length U = length sigma ->
  (forall x : vecn n, 0 <= Gf x /\ 0 <= Rf x /\
        dot sigma (coeffs U (proj1_sig x)) == b * (B x + Rf x) + Gf x) ->
  svd_spec (vecn n) vn2 b B (mkstep (vecn n) Gf Rf sigma (fun x => coeffs U (proj1_sig x))).
Proof. exact concrete_svd_spec. Qed.
Print Assumptions c09_concrete_svd_spec.

(* verified checkers used at run time on the implementation's state *)
Theorem c09_psd_check_sound : forall n M, psd_check n M = true -> forall x, length x = n -> 0 <= qf M x.
Proof. exact psd_check_sound. Qed.
Print Assumptions c09_psd_check_sound.

Theorem c09_chk_bracket_sound : forall tau n C V l t, chk_bracket tau n C V l t = true ->
  forall x, length x = n ->
    qf (sketch_mat n V l) x - tau * dot x x <= qf C x /\
    qf C x <= qf (sketch_mat n V l) x + (t + tau) * dot x x.
Proof. exact chk_bracket_sound. Qed.
Print Assumptions c09_chk_bracket_sound.

(* non-vacuity: a 2-d step with k = 1 meets the hypotheses *)
Example c09_example_cutoff : cutoff 1 [4; 1; 0] == 1 /\ deflate 1 [4; 1; 0] = [4 - 1].
Proof. split; reflexivity. Qed.

(* the same verdict stated on the sketch's own quadratic form  B(x) = sum_i l_i (v_i . x)^2,
   i.e. literally the bracket predicate of c09_fd_step_bracket on the implementation's state *)
Theorem c09_chk_bracket_sound_form : forall tau n C V l t, chk_bracket tau n C V l t = true ->
  Forall (fun v => length v = n) V -> length V = length l ->
  forall x, length x = n ->
    sketch_form V l x - tau * dot x x <= qf C x /\
    qf C x <= sketch_form V l x + (t + tau) * dot x x.
Proof. exact chk_bracket_sound_form. Qed.
Print Assumptions c09_chk_bracket_sound_form.

(* Escaped-mass budget (trace level, C09/Budget.v): a deflation by r lowers k+1 eigenvalues by r, so
   (k+1) t <= tr C - tr S is an invariant of every history of steps  C' = b (C + R) + G G^T,
   t' = b t + r;  a history whose sketch is exact has no escaped mass.  This is the invariant
   harness/c09 evaluates on optimizer states (chk_states code 8). *)
Theorem c09_deflation_lowers_trace : forall (top rest : list Q) (r : Q),
  Forall (fun x => 0 <= x) rest ->
  Budget.qsum (map (fun x => x - r) top) + inject_Z (Z.of_nat (S (length top))) * r
  <= Budget.qsum (top ++ r :: rest).
Proof. exact Budget.deflation_lowers_trace. Qed.
Print Assumptions c09_deflation_lowers_trace.

Theorem c09_budget_history : forall k1 xs,
  Budget.all_ok k1 {| Budget.trC := 0; Budget.trS := 0; Budget.esc := 0 |} xs ->
  Budget.budget k1 (Budget.run {| Budget.trC := 0; Budget.trS := 0; Budget.esc := 0 |} xs).
Proof. exact Budget.budget_history. Qed.
Print Assumptions c09_budget_history.

Theorem c09_exact_sketch_no_escaped_mass : forall k1 s,
  0 < k1 -> Budget.budget k1 s -> Budget.trS s == Budget.trC s -> 0 <= Budget.esc s -> Budget.esc s == 0.
Proof. exact Budget.exact_sketch_no_escaped_mass. Qed.
Print Assumptions c09_exact_sketch_no_escaped_mass.
