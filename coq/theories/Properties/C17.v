(* Properties/C17.v — ONLY property theorems of C17 (each closed by [exact lemma]) and their
   Print Assumptions.  The model (C17.Model) is tied to precondition/tearfree/reallocation.py by the
   bit-exact correspondence of harness/c17.py on every run (binary32 instance C17.F32Inst).
   The theorems about the allocation hold for the REPAIRED algorithm (proposed fix
   proposed_fixes/c17-reallocation-budget.diff); the defect of the original leftover loop is kept
   as [leftover_pass_budget_refuted]. *)
From Coq Require Import ZArith List Bool QArith Permutation.
From Precond Require Import C17.Model C17.Proofs C17.DictProofs C17.ExactProofs.
Import ListNotations.
Open Scope Z_scope.

(* Headline.  For every arithmetic (score type Sc, running state St, ARBITRARY proposal function
   [prop] standing for rd(score * unit_rsc) - 1 in whatever rounding, arbitrary comparison and
   summation), every list of sketched axes [es] (layer, axis, dimension >= 1, score) and every
   base rank >= 1, the repaired create_redist_dict
     - never trips an internal assertion (code <> 1),
     - when it returns (code 0) assigns exactly one rank to every sketched axis, each rank in
       [1, dim], and within each group of equal-dimension axes the ranks sum to at most
       group size * base rank,
     - and it returns whenever no proposal raises (int() of inf / nan). *)
Theorem realloc_budget :
  forall (Sc St : Type) (prop : St -> Sc -> Z -> option Z) (adv : St -> Sc -> St)
         (lt : Sc -> Sc -> bool) (total0 : list Sc -> St) (rank : Z) (es : list (entry Sc)),
    1 <= rank ->
    Forall (fun e => 1 <= e_dim Sc e) es ->
    let res := realloc_all Sc St prop adv lt total0 true rank es in
    fst res <> 1 /\
    (fst res = 0 ->
       Permutation (map fst (snd res)) es /\
       (forall e r, In (e, r) (snd res) -> 1 <= r <= e_dim Sc e) /\
       (forall d, sumz (map snd (of_dim Sc d (snd res))) <= zlength (of_dim Sc d (snd res)) * rank)) /\
    ((forall st s R, prop st s R <> None) -> fst res = 0).
Proof. exact realloc_all_budget. Qed.
Print Assumptions realloc_budget.

(* One group, scores in sorted order: no assertion, ranks in [1, dim], sum <= n * rank. *)
Theorem realloc_group_budget_sorted :
  forall (Sc St : Type) (prop : St -> Sc -> Z -> option Z) (adv : St -> Sc -> St)
         (dim rank : Z) (st0 : St) (sorted : list Sc),
    1 <= dim -> 1 <= rank ->
    let n := zlength sorted in
    let o := realloc_sorted Sc St prop adv true dim rank st0 sorted in
    o <> RAssert /\
    (forall r, o = ROk r -> in_range dim r /\ sumz r <= n * rank /\ length r = length sorted) /\
    ((forall st s R, prop st s R <> None) -> exists r, o = ROk r).
Proof. exact realloc_sorted_budget. Qed.
Print Assumptions realloc_group_budget_sorted.

(* Repaired phase 1: the resource handed out never exceeds what is left, for any proposals. *)
Theorem phase1_clamped_budget :
  forall (Sc St : Type) (prop : St -> Sc -> Z -> option Z) (adv : St -> Sc -> St)
         (dim : Z) (l : list Sc) (st : St) (R : Z) (r : list Z),
    1 <= dim -> 0 <= R ->
    phase1 Sc St prop adv dim st R l = Some r ->
    in_range dim r /\ sumz r - zlength r <= R /\ zlength r <= sumz r /\ length r = length l.
Proof. exact phase1_spec. Qed.
Print Assumptions phase1_clamped_budget.

(* Repaired leftover pass: every increment is counted. *)
Theorem leftover_pass_budget :
  forall (dim : Z) (l : list Z) (extra : Z),
    in_range dim l ->
    in_range dim (leftover dim extra l) /\
    sumz l <= sumz (leftover dim extra l) <= sumz l + Z.max 0 extra /\
    length (leftover dim extra l) = length l.
Proof. exact leftover_spec. Qed.
Print Assumptions leftover_pass_budget.

(* create_groups partitions the sketched axes by dimension. *)
Theorem create_groups_partition :
  forall (Sc : Type) (es : list (entry Sc)),
    Permutation (concat (map snd (create_groups Sc es))) es /\
    Forall (fun g => Forall (fun e => e_dim Sc e = fst g) (snd g)) (create_groups Sc es).
Proof. exact create_groups_partition_lemma. Qed.
Print Assumptions create_groups_partition.

(* Exact arithmetic (Q), ORIGINAL phase 1, non-negative scores: the invariant "running total =
   sum of the remaining scores" gives 0 <= floor(s * R / total) <= R, so range and budget hold
   after phase 1 without any clamp. *)
Theorem phase1_budget_exact :
  forall (dim : Z) (l : list Q) (R : Z) (r : list Z),
    1 <= dim -> 0 <= R ->
    Forall (fun s => (0 <= s)%Q) l ->
    phase1_orig Q Q q_prop q_adv dim (q_total0 l) R l = Some r ->
    in_range dim r /\ sumz r - zlength r <= R /\ length r = length l.
Proof. exact phase1_budget_exact_lemma. Qed.
Print Assumptions phase1_budget_exact.

(* Repaired algorithm, exact arithmetic: always returns, within range and budget. *)
Theorem realloc_exact_budget :
  forall (dim rank : Z) (l : list Q),
    1 <= dim -> 1 <= rank ->
    exists r, realloc_sorted_q true dim rank l = ROk r /\
              in_range dim r /\ sumz r <= zlength l * rank /\ length r = length l.
Proof. exact realloc_exact_budget_lemma. Qed.
Print Assumptions realloc_exact_budget.

(* REFUTED for the ORIGINAL leftover loop, in exact arithmetic (no rounding involved): three axes
   of dimension 3, base rank 2, scores (1, 0, 0) -> ranks (3, 2, 2), sum 7 > 6.  The unrepaired
   implementation returns exactly this (corpus/C17/seeds.json, case 1). *)
Theorem leftover_pass_budget_refuted :
  exists (dim rank : Z) (scores : list Q) (r : list Z),
    1 <= dim /\ 1 <= rank /\ Forall (fun s => (0 <= s)%Q) scores /\
    realloc_sorted_q false dim rank scores = ROk r /\
    zlength scores * rank < sumz r.
Proof. exact leftover_pass_budget_refuted_lemma. Qed.
Print Assumptions leftover_pass_budget_refuted.
