(* Properties/C11.v — ONLY property theorems of C11 (each closed by [exact lemma]) and their
   Print Assumptions.
   Part 1: real-number model over Q (C11.QModel) — complete, axiom-free.
   Part 2: bit-exact binary32 model (C11.F32 + C11.Model, Flocq BinarySingleNaN with DAZ/FTZ), the
           model that the correspondence check of harness/c11.py compares bit for bit with
           QuantizedValue.quantize / to_float on every run.  These theorems inherit the standard
           library's real-number axioms through Flocq. *)
From Coq Require Import ZArith List Bool QArith Qabs Reals.
From Flocq Require Import Core IEEE754.BinarySingleNaN.
From Precond Require Import C11.QModel C11.QProofs C11.F32 C11.Model C11.F32Basics C11.F32Ops
                            C11.F32Proofs C11.F32NoWrap C11.F32HalfBucket C11.Refuted C11.Bf16Proofs.
Import ListNotations.

(* ------------------------------- Part 1: Q ------------------------------- *)
Open Scope Q_scope.

(* the stored integer never leaves [-N, N]: the most negative value -N-1 is unused, no wrap *)
Theorem no_wrap_q : forall (N : Z), (0 < N)%Z -> forall (xs : list Q) (x : Q),
  In x xs -> (Z.abs (qquant (qbucket_nz (qbucket N xs)) x) <= N)%Z.
Proof. exact no_wrap_q_lemma. Qed.
Print Assumptions no_wrap_q.

Theorem half_bucket_q : forall (N : Z), (0 < N)%Z -> forall (xs : list Q) (x : Q),
  In x xs ->
  let b := qbucket N xs in
  Qabs (x - qdeq b (qquant (qbucket_nz b) x)) <= b / 2.
Proof. exact half_bucket_q_lemma. Qed.
Print Assumptions half_bucket_q.

Theorem zero_exact_q : forall (bnz b : Q), 0 < bnz ->
  qquant bnz 0 = 0%Z /\ qdeq b (qquant bnz 0) == 0.
Proof. exact zero_exact_q_lemma. Qed.
Print Assumptions zero_exact_q.

(* re-quantizing a de-quantized column reproduces the same integers and the same bucket *)
Theorem requantize_fixed_q : forall (N : Z), (0 < N)%Z -> forall (xs : list Q),
  let qs := fst (qquantize_col N xs) in
  let b := snd (qquantize_col N xs) in
  let r := qquantize_col N (qto_float_col b qs) in
  fst r = qs /\ snd r == b.
Proof. exact requantize_fixed_q_lemma. Qed.
Print Assumptions requantize_fixed_q.

(* extract_diagonal: the diagonal is reproduced exactly, off-diagonal entries within half a bucket *)
Theorem diag_exact_q : forall (n : nat) (M : nat -> nat -> Q) (N : Z) (i : nat),
  diag_to_float n M N i i == M i i.
Proof. exact diag_exact_q_lemma. Qed.
Print Assumptions diag_exact_q.

Theorem offdiag_half_bucket_q : forall (n : nat) (M : nat -> nat -> Q) (N : Z), (0 < N)%Z ->
  forall i j, (i < n)%nat -> i <> j ->
  Qabs (M i j - diag_to_float n M N i j) <= diag_bucket n M N j / 2.
Proof. exact offdiag_half_bucket_q_lemma. Qed.
Print Assumptions offdiag_half_bucket_q.

Close Scope Q_scope.

(* ---------------------------- Part 2: binary32 ---------------------------- *)
Open Scope R_scope.

(* no wrap-around, both division variants, int8 (N = 127) up to int16 (N = 32767), every finite
   column (subnormal, underflowing and near-overflow magnitudes included) *)
Theorem no_wrap_f32 : forall (N : Z), (127 <= N <= 32767)%Z ->
  forall (xs : list f32), Forall (fun x => is_finite x = true) xs ->
  forall (rb rr : bool) (x : f32), In x xs ->
  (- N <= quant1 rr N (bucket_nz (bucket rb N xs)) x <= N)%Z.
Proof. exact no_wrap_f32_lemma. Qed.
Print Assumptions no_wrap_f32.

(* zeros are stored as 0 and de-quantize to a zero *)
Theorem zero_exact_f32 : forall (rr : bool) (N : Z) (bnz b : f32) (s : bool),
  (0 <= N)%Z -> is_finite b = true ->
  quant1 rr N bnz (B754_zero s) = 0%Z /\
  B2R (dequant1 b (quant1 rr N bnz (B754_zero s))) = 0.
Proof. exact zero_exact_f32_lemma. Qed.
Print Assumptions zero_exact_f32.

(* extracted diagonal entry d: d - d is stored as 0 and 0 * bucket + d gives d back — bit for bit
   when d is a normal number, as a zero when d is a zero; a SUBNORMAL d comes back as 0 (DAZ),
   which is finding D12b *)
Theorem diag_entry_exact_f32 : forall (rr : bool) (N : Z) (bnz b d : f32),
  (0 <= N)%Z -> is_finite b = true -> is_finite d = true ->
  let res := fadd (dequant1 b (quant1 rr N bnz (fsub d d))) d in
  quant1 rr N bnz (fsub d d) = 0%Z /\
  B2R res = B2R (daz d) /\
  (is_subnormal d = false -> B2R res = B2R d /\ (B2R d <> 0 -> res = d)).
Proof. exact diag_entry_exact_f32_lemma. Qed.
Print Assumptions diag_entry_exact_f32.

(* half a bucket, up to the stated float32 rounding of x * fl(1/bucket) (or x / bucket) and of
   q * bucket; hypotheses exclude exactly the three refuted regions below *)
Theorem half_bucket_f32 : forall (N : Z), (127 <= N <= 32767)%Z ->
  forall (xs : list f32), Forall (fun x => is_finite x = true) xs ->
  forall (rb rr : bool) (x : f32), In x xs ->
  let b := bucket rb N xs in
  2 * minnorm <= B2R b ->                       (* bucket >= 2^-125 (excludes D12a, D12b) *)
  IZR N * B2R b <= bpow radix2 127 ->           (* N * bucket does not overflow (excludes D13) *)
  Rabs (B2R x - B2R (dequant1 b (quant1 rr N (bucket_nz b) x)))
    <= B2R b * (/ 2 + IZR (3 * N + 2) * uro).
Proof. exact half_bucket_f32_lemma. Qed.
Print Assumptions half_bucket_f32.

Close Scope R_scope.
Open Scope Z_scope.

(* REFUTED without the magnitude hypotheses (witnesses on the executable model, vm_compute;
   replayed on the implementation from corpus/C11/ftz_daz.json): *)
Theorem half_bucket_f32_underflow_refuted :
  let xs := map of_bits [66846720; 8388608] in      (* 126 * 2^-126, 2^-126 *)
  all_finite xs = true /\ half_bucket_okb true true 127 xs = false /\
  to_bits (snd (quantize_col true true 127 xs)) = 0 /\
  fst (quantize_col true true 127 xs) = [0; 0].
Proof. exact refuted_bucket_underflow. Qed.
Print Assumptions half_bucket_f32_underflow_refuted.

Theorem half_bucket_f32_subnormal_entry_refuted :
  let xs := map of_bits [66977792; 6291456] in      (* 127 * 2^-126, 1.5 * 2^-127 *)
  all_finite xs = true /\ half_bucket_okb true true 127 xs = false /\
  to_bits (snd (quantize_col true true 127 xs)) = 8388608 /\
  fst (quantize_col true true 127 xs) = [127; 0].
Proof. exact refuted_subnormal_entry. Qed.
Print Assumptions half_bucket_f32_subnormal_entry_refuted.

Theorem half_bucket_f32_overflow_refuted :
  let xs := map of_bits [2139095039] in             (* FLT_MAX *)
  all_finite xs = true /\ half_bucket_okb false false 127 xs = false /\
  map to_bits (to_float_col (snd (quantize_col false false 127 xs))
                            (fst (quantize_col false false 127 xs))) = [2139095040].
Proof. exact refuted_overflow. Qed.
Print Assumptions half_bucket_f32_overflow_refuted.

(* bfloat16 mode is a cast; casting twice changes nothing (integer bit model, axiom-free) *)
Theorem bf16_requantize_fixed : forall z,
  is_nan_bits (bf16_round_bits z) = false ->
  bf16_round_bits (bf16_round_bits z) = bf16_round_bits z.
Proof. exact bf16_requantize_fixed_lemma. Qed.
Print Assumptions bf16_requantize_fixed.
