(* Properties/C02.v — ONLY property theorems of C02 and their Print Assumptions. *)
From Precond Require Import Base.PyLib Base.QMat C06.Records C06.Ref C06.BlockProofs C02.Model C02.Proofs.
From Coq Require Import QArith.
Open Scope Q_scope.

(* statistics: S_T = beta2^T S_0 + w2 * sum_t beta2^(T-1-t) (G_t G_t^T), entrywise, over the
   statistics steps of any history (w2 = 1 if beta2 = 1 else 1 - beta2) *)
Theorem c02_stats_closed_form : forall beta2 s0 xs,
  fold_left (fun s x => beta2 * s + w2_of beta2 * x) xs s0
  == qpow beta2 (length xs) * s0 + w2_of beta2 * ema_sum beta2 xs.
Proof. exact stats_closed_form. Qed.
Print Assumptions c02_stats_closed_form.

Theorem c02_stats_sum_when_beta2_is_one : forall s0 xs,
  fold_left (fun s x => 1 * s + w2_of 1 * x) xs s0 == s0 + fold_right Qplus 0 xs.
Proof. exact stats_sum_when_beta2_is_one. Qed.
Print Assumptions c02_stats_sum_when_beta2_is_one.

Theorem c02_blend_is_switch : forall (run : bool) (a b : Q),
  let r := if run then 1 else 0 in r * a + (1 - r) * b == if run then a else b.
Proof. exact blend_is_switch. Qed.
Print Assumptions c02_blend_is_switch.

Theorem c02_state_independent_of_decoupled_lr : forall c step skip param grad pg s lr1 lr2,
  c_decoupled_lr c = true ->
  snd (transform (set_lr c lr1) step skip param grad pg s)
  = snd (transform (set_lr c lr2) step skip param grad pg s).
Proof. exact state_independent_of_decoupled_lr. Qed.
Print Assumptions c02_state_independent_of_decoupled_lr.

Theorem c02_update_linear_in_decoupled_lr : forall c step skip param grad pg s lr,
  c_decoupled_lr c = true ->
  exists nest, fst (transform (set_lr c lr) step skip param grad pg s) = vscale (- lr) nest /\
               fst (transform (set_lr c 1) step skip param grad pg s) = vscale (- (1)) nest.
Proof. exact update_linear_in_decoupled_lr. Qed.
Print Assumptions c02_update_linear_in_decoupled_lr.

Theorem c02_warmup_ignores_preconditioner : forall c step skip param grad pg1 pg2 s,
  (step < c_start c)%Z ->
  fst (transform c step skip param grad pg1 s) = fst (transform c step skip param grad pg2 s).
Proof. exact warmup_ignores_preconditioner. Qed.
Print Assumptions c02_warmup_ignores_preconditioner.

Theorem c02_skipped_ignores_preconditioner : forall c step param grad pg1 pg2 s,
  transform c step true param grad pg1 s = transform c step true param grad pg2 s.
Proof. exact skipped_ignores_preconditioner. Qed.
Print Assumptions c02_skipped_ignores_preconditioner.

Theorem c02_decoupled_wd_outside_momentum : forall c step skip param1 param2 grad pg s,
  c_decoupled_wd c = true ->
  snd (transform c step skip param1 grad pg s) = snd (transform c step skip param2 grad pg s).
Proof. exact decoupled_wd_outside_momentum. Qed.
Print Assumptions c02_decoupled_wd_outside_momentum.

Theorem c02_no_wd_ignores_params : forall c step skip param1 param2 grad pg s,
  c_wd c == 0 ->
  transform c step skip param1 grad pg s = transform c step skip param2 grad pg s.
Proof. exact no_wd_ignores_params. Qed.
Print Assumptions c02_no_wd_ignores_params.

Theorem c02_exponent_is_2k : forall c tsh, (c_expo_override c = 0)%Z ->
  exponent c tsh = (2 * num_preconditioned (c_ptype c)
                          (zlen (snd (block_partitioner_init tsh (c_block c)))))%Z.
Proof. exact exponent_is_2k. Qed.
Print Assumptions c02_exponent_is_2k.
