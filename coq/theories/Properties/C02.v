(* Properties/C02.v — ONLY property theorems of C02 and their Print Assumptions. *)
From Precond Require Import Base.PyLib Base.QMat Base.PyFloat C06.Records C06.Ref C06.BlockProofs C02.Records C02.Ref C02.Model C02.Proofs.
From Coq Require Import QArith.
Open Scope Q_scope.

(* statistics: S_T = beta2^T S_0 + w2 * sum_t beta2^(T-1-t) (G_t G_t^T), entrywise, over the
   statistics steps of any history (w2 = 1 if beta2 = 1 else 1 - beta2) *)
Theorem c02_stats_closed_form : forall beta2 s0 xs,
  fold_left (fun s x => beta2 * s + w2_of beta2 * x) xs s0
  == qpow beta2 (length xs) * s0 + w2_of beta2 * ema_sum beta2 xs.
Proof. exact stats_closed_form. Qed.
Print Assumptions c02_stats_closed_form.

Theorem c02_stats_sum_when_beta2_is_one : forall s0 xs,
  fold_left (fun s x => 1 * s + w2_of 1 * x) xs s0 == s0 + fold_right Qplus 0 xs.
Proof. exact stats_sum_when_beta2_is_one. Qed.
Print Assumptions c02_stats_sum_when_beta2_is_one.

Theorem c02_blend_is_switch : forall (run : bool) (a b : Q),
  let r := if run then 1 else 0 in r * a + (1 - r) * b == if run then a else b.
Proof. exact blend_is_switch. Qed.
Print Assumptions c02_blend_is_switch.

(* The following are about C02.Ref.transform_grad, the TRANSLATION of
   distributed_shampoo._transform_grad (obligation GenEq_transform_grad re-checked on every run). *)
Theorem c02_state_independent_of_decoupled_lr :
  forall g b1 b2 lr1 lr2 wd dwd nes mavg de st clip eps step skip param grad pg sd sdm sm,
  snd (transform_grad g b1 b2 lr1 wd dwd true nes mavg de st clip eps step skip param grad pg sd sdm sm)
  = snd (transform_grad g b1 b2 lr2 wd dwd true nes mavg de st clip eps step skip param grad pg sd sdm sm).
Proof. exact state_independent_of_decoupled_lr. Qed.
Print Assumptions c02_state_independent_of_decoupled_lr.

Theorem c02_update_linear_in_decoupled_lr :
  forall g b1 b2 lr wd dwd nes mavg de st clip eps step skip param grad pg sd sdm sm,
  exists nest,
    fst (transform_grad g b1 b2 lr wd dwd true nes mavg de st clip eps step skip param grad pg sd sdm sm)
      = sv_mul (Qmult (Qopp (1 # 1)) lr) nest /\
    fst (transform_grad g b1 b2 (1 # 1) wd dwd true nes mavg de st clip eps step skip param grad pg sd sdm sm)
      = sv_mul (Qmult (Qopp (1 # 1)) (1 # 1)) nest.
Proof. exact update_linear_in_decoupled_lr. Qed.
Print Assumptions c02_update_linear_in_decoupled_lr.

Theorem c02_skipped_ignores_preconditioner :
  forall g b1 b2 lr wd dwd dlr nes mavg de st clip eps step param grad pg1 pg2 sd sdm sm,
  transform_grad g b1 b2 lr wd dwd dlr nes mavg de st clip eps step true param grad pg1 sd sdm sm
  = transform_grad g b1 b2 lr wd dwd dlr nes mavg de st clip eps step true param grad pg2 sd sdm sm.
Proof. exact skipped_ignores_preconditioner. Qed.
Print Assumptions c02_skipped_ignores_preconditioner.

Theorem c02_decoupled_wd_outside_momentum :
  forall g b1 b2 lr wd dlr nes mavg de st clip eps step skip param1 param2 grad pg sd sdm sm,
  snd (transform_grad g b1 b2 lr wd true dlr nes mavg de st clip eps step skip param1 grad pg sd sdm sm)
  = snd (transform_grad g b1 b2 lr wd true dlr nes mavg de st clip eps step skip param2 grad pg sd sdm sm).
Proof. exact decoupled_wd_outside_momentum. Qed.
Print Assumptions c02_decoupled_wd_outside_momentum.

Theorem c02_no_wd_ignores_params :
  forall g b1 b2 lr wd dwd dlr nes mavg de st clip eps step skip param1 param2 grad pg sd sdm sm,
  Qeq_bool wd (inject_Z 0) = true ->
  transform_grad g b1 b2 lr wd dwd dlr nes mavg de st clip eps step skip param1 grad pg sd sdm sm
  = transform_grad g b1 b2 lr wd dwd dlr nes mavg de st clip eps step skip param2 grad pg sd sdm sm.
Proof. exact no_wd_ignores_params. Qed.
Print Assumptions c02_no_wd_ignores_params.

(* the warm-up blend  run*a + (1-run)*b  of the translated code is a switch in exact arithmetic *)
Theorem c02_vblend_before_start : forall (a b : vec), length a = length b ->
  veq (vv_add (sv_mul (b2q false) a) (sv_mul (Qminus (1 # 1) (b2q false)) b)) b.
Proof. exact vblend_before_start. Qed.
Print Assumptions c02_vblend_before_start.

Theorem c02_vblend_from_start : forall (a b : vec), length a = length b ->
  veq (vv_add (sv_mul (b2q true) a) (sv_mul (Qminus (1 # 1) (b2q true)) b)) a.
Proof. exact vblend_from_start. Qed.
Print Assumptions c02_vblend_from_start.

Theorem c02_exponent_is_2k : forall c tsh, (c_expo_override c = 0)%Z ->
  exponent c tsh = (2 * num_preconditioned (c_ptype c)
                          (zlen (snd (block_partitioner_init tsh (c_block c)))))%Z.
Proof. exact exponent_is_2k. Qed.
Print Assumptions c02_exponent_is_2k.
