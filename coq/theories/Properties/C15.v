(* Properties/C15.v — ONLY property theorems of C15 (each closed by [exact lemma]) and their
   Print Assumptions.  tf_spec is C15.Model (tf_leaf / tf_run); its shape logic is C06.Ref. *)
From Precond Require Import Base.PyLib Base.QMat C06.Records C06.Ref C06.MergeProofs C09.Model
     C15.Tensor C15.Model C15.Proofs C15.Padding C15.PaddedRoot.
Open Scope Q_scope.

(* One step, every configuration / state / oracle answer: the new state does not see the learning
   rate and the update is lr times the update at lr = 1. *)
Theorem c15_tf_linear_in_lr_step : forall c lr gc sc shape x g s ans ada,
  snd (tf_leaf c lr gc sc shape x g s ans ada) = snd (tf_leaf c 1 gc sc shape x g s ans ada) /\
  veqv (fst (tf_leaf c lr gc sc shape x g s ans ada))
       (vscale lr (fst (tf_leaf c 1 gc sc shape x g s ans ada))).
Proof. exact tf_leaf_linear. Qed.
Print Assumptions c15_tf_linear_in_lr_step.

(* Whole histories of any length (induction), any schedule lr(t): update_t(lr) == lr(t) * update_t(1)
   and the final state is the one reached with lr = 1 (same parameter trajectory and oracle answers). *)
Theorem c15_tf_linear_in_lr : forall c lr shape h k s,
  snd (tf_run c lr k shape s h) = snd (tf_run c (fun _ => 1) k shape s h) /\
  Forall2 veqv (fst (tf_run c lr k shape s h)) (scaled lr k (fst (tf_run c (fun _ => 1) k shape s h))).
Proof. exact tf_run_linear. Qed.
Print Assumptions c15_tf_linear_in_lr.

Theorem c15_tf_state_independent_of_lr : forall c lr lr' shape h k s,
  snd (tf_run c lr k shape s h) = snd (tf_run c lr' k shape s h).
Proof. exact tf_state_independent_of_lr. Qed.
Print Assumptions c15_tf_state_independent_of_lr.

(* momentum.apply's chain of optax transforms (scale(1-d) if ema; trace(d, nesterov); weight decay
   placed before or after) equals the documented formula, for all 2^5 option combinations and all
   vectors. *)
Theorem c15_tf_momentum_order : forall c u tr x, length u = length tr -> length u = length x ->
  veqv (fst (momentum_apply c u tr x)) (fst (doc_momentum c u tr x)) /\
  veqv (snd (momentum_apply c u tr x)) (snd (doc_momentum c u tr x)).
Proof. exact tf_momentum_order. Qed.
Print Assumptions c15_tf_momentum_order.

(* Writing a box into a tensor and reading it back (any rank, any position): zero padding and
   blocking are instances. *)
Theorem c15_slice_put : forall shape starts sizes block data,
  box_ok shape starts sizes -> length data = prodn shape -> length block = prodn sizes ->
  slice_rec shape starts sizes (put_rec shape starts sizes block data) = block.
Proof. exact slice_put. Qed.
Print Assumptions c15_slice_put.

(* unmerge (merge + pad g) = g for every configuration and parameter shape (shapes from C06.Ref's
   derive_shapes): merging / zero-padding never changes the values delivered for real entries. *)
Theorem c15_tf_unmerge_merge_id : forall c shape g,
  (0 <= so_block c)%Z ->
  length g = prodn (nats (sh_merged_shape (shapes_of c shape))) ->
  unmerge (shapes_of c shape) (merge_pad (shapes_of c shape) g) = g.
Proof. exact tf_unmerge_merge_id. Qed.
Print Assumptions c15_tf_unmerge_merge_id.

(* ... where the merged shape has exactly the parameter's number of entries *)
Theorem c15_merged_size : forall c shape, (1 <= c_merge c)%Z -> all_ge1 shape ->
  prodn (nats (sh_merged_shape (shapes_of c shape))) = prodn (nats shape).
Proof. exact merged_size. Qed.
Print Assumptions c15_merged_size.

(* Root spec, over any associative algebra with unit (square matrices): for every eigh answer
   (V^T V = I, cov = V Dw V^T) and scalar roots on the diagonal (Dr^p Dw = Dm, the 0/1 mask of the
   eigenvalues kept by the per-block cut-off), root = V Dr V^T satisfies
   root^p cov = projector, root projector = root, projector idempotent. *)
Theorem c15_tf_roots_spec : forall (M : Type) (mul : M -> M -> M) (one : M),
  (forall a b c, mul a (mul b c) = mul (mul a b) c) -> (forall a, mul a one = a) ->
  forall V Vt Dw Dr Dm : M, mul Vt V = one ->
  forall p, (1 <= p)%nat ->
  mul (mpw M mul one Dr p) Dw = Dm -> mul Dr Dm = Dr -> mul Dm Dm = Dm ->
  let R := mul (mul V Dr) Vt in
  let C := mul (mul V Dw) Vt in
  let P := mul (mul V Dm) Vt in
  mul (mpw M mul one R p) C = P /\ mul R P = R /\ mul P P = P.
Proof. exact roots_spec. Qed.
Print Assumptions c15_tf_roots_spec.

(* the diagonal hypothesis of the root spec is what the run-time check scalar_roots_ok establishes *)
Theorem c15_scalar_root_mask : forall (p : positive) (kept : bool) (r w : Q),
  (if kept then Qpower r (Zpos p) * w == 1 else r == 0) ->
  Qpower r (Zpos p) * w == (if kept then 1 else 0).
Proof. exact scalar_root_mask. Qed.
Print Assumptions c15_scalar_root_mask.

(* ---- zero padding (C15.Padding): list matrices of Base.QMat, entrywise == ---- *)
(* statistics of the padded axis are block diagonal with a zero block *)
Theorem c15_tf_padding_zero_rows_stats : forall T k m,
  meqv (gram_rows (padr T k m)) (bd (gram_rows T) k).
Proof. exact gram_padded_axis. Qed.
Print Assumptions c15_tf_padding_zero_rows_stats.

(* statistics of the other axis do not change *)
Theorem c15_tf_padding_zero_rows_other_axis : forall T k m n, Forall (fun _ => True) T ->
  meqv (gram_rows (transpose_n n (padr T k m))) (gram_rows (transpose_n n T)).
Proof. exact gram_other_axis. Qed.
Print Assumptions c15_tf_padding_zero_rows_other_axis.

(* with root (+) 0 on the padded axis, and any matrix on the other axis, the values delivered for
   real entries are those of the unpadded block; the padding rows stay zero *)
Theorem c15_tf_padding_zero_rows : forall L T k m,
  T <> [] -> length L = length T -> Forall (fun l => length l = length T) L ->
  Forall (fun r => length r = m) T ->
  meqv (mmul (bd L k) (padr T k m)) (padr (mmul L T) k m).
Proof. exact precondition_padded_axis. Qed.
Print Assumptions c15_tf_padding_zero_rows.

Theorem c15_tf_padding_zero_rows_right : forall T R k m,
  meqv (mmul (padr T k m) R) (padr (mmul T R) k (length (transpose R))).
Proof. exact precondition_other_axis. Qed.
Print Assumptions c15_tf_padding_zero_rows_right.

(* the spec-side root of the padded statistics: any multiplicative embedding (C |-> C (+) 0)
   preserves the pseudo-inverse-root spec ... *)
Theorem c15_tf_padded_root_spec : forall (M M' : Type) (mul : M -> M -> M) (one : M)
    (mul' : M' -> M' -> M') (one' : M'),
  (forall a, mul a one = a) -> (forall a, mul' a one' = a) ->
  forall emb : M -> M', (forall a b, emb (mul a b) = mul' (emb a) (emb b)) ->
  forall p C R P, (1 <= p)%nat ->
  pinv_spec M mul one p C R P -> pinv_spec' M' mul' one' p (emb C) (emb R) (emb P).
Proof. exact padded_root_spec. Qed.
Print Assumptions c15_tf_padded_root_spec.

(* ... concretely for d x d list matrices with Base.QMat.mmul and entrywise ==: C |-> C (+) 0_k is
   multiplicative (bd_mul), so root (+) 0 satisfies the spec of the zero-padded statistics, for every
   exponent q + 1 >= 1, block dimension d >= 1 and padding k *)
Theorem c15_bd_mul : forall A B k d, (1 <= d)%nat ->
  length A = d -> Forall (fun r => length r = d) A ->
  length B = d -> Forall (fun r => length r = d) B ->
  meqv (mmul (bd A k) (bd B k)) (bd (mmul A B) k).
Proof. exact bd_mul. Qed.
Print Assumptions c15_bd_mul.

Theorem c15_tf_padded_root_spec_concrete : forall d k q C R P,
  (1 <= d)%nat -> sq d C -> sq d R -> sq d P ->
  pspec mat mmul meqv q C R P -> pspec mat mmul meqv q (bd C k) (bd R k) (bd P k).
Proof. exact padded_root_spec_concrete. Qed.
Print Assumptions c15_tf_padded_root_spec_concrete.

(* hence, GIVEN UNIQUENESS OF THE ROOT (first hypothesis: pinv_root_unique — an assumption, not
   proved), the root of the zero-padded statistics is root_unpadded (+) 0 *)
Theorem c15_tf_padding_zero_rows_root : forall d k q C R P Rpad Ppad,
  (forall C0 R1 R2 P1 P2, pspec mat mmul meqv q C0 R1 P1 -> pspec mat mmul meqv q C0 R2 P2 -> meqv R1 R2) ->
  (1 <= d)%nat -> sq d C -> sq d R -> sq d P ->
  pspec mat mmul meqv q C R P -> pspec mat mmul meqv q (bd C k) Rpad Ppad ->
  meqv Rpad (bd R k).
Proof. exact padded_root_unique_concrete. Qed.
Print Assumptions c15_tf_padding_zero_rows_root.
