(* Properties/C08.v — ONLY property theorems of C08 (each closed by [exact lemma]) and their
   Print Assumptions.  The model (C08.Model) keeps Distributed Shampoo's state the way the code
   does — one flat list of statistics / preconditioners per parameter, one flat list over all
   parameters through the padded root computation — and these theorems show that layout to be
   block diagonal.  Partition arithmetic: C06.Ref (regenerated from /repo's source by C06). *)
From Precond Require Import Base.PyLib Base.QMat C06.Records C06.Ref C15.Tensor C15.Model C15.Proofs
     C08.Model C08.Proofs.
Open Scope Q_scope.

(* One statistics update: the entries [k*np, (k+1)*np) of the flat list are block k's own entries
   updated with block k's own Gram matrices (all block counts / ranks). *)
Theorem c08_ds_stats_block_local : forall w1 w2 np blocks stats k blk,
  uniform_rank np blocks -> length stats = (length blocks * np)%nat ->
  nth_error blocks k = Some blk ->
  blockview np k (ds_new_stats w1 w2 blocks stats) =
  map2 (stat_update w1 w2) (blockview np k stats) (grams blk).
Proof. exact ds_stats_block_local. Qed.
Print Assumptions c08_ds_stats_block_local.

(* Non-interference along histories of every length, for every root oracle, block size, shape and
   refresh pattern: two gradient histories that agree on block k (and refresh statistics at the same
   steps) give equal statistics, equal roots and an equal preconditioned gradient on block k. *)
Theorem c08_ds_block_local : forall (root : positive -> mat -> mat) w1 w2 b shape p k h h' stats g0 g g',
  agree_on b shape k h h' ->
  length stats = (length (ds_blocks b shape g0) * length shape)%nat ->
  (k < length (ds_blocks b shape g0))%nat ->
  nth_error (ds_blocks b shape g) k = nth_error (ds_blocks b shape g') k ->
  let S := stats_run w1 w2 b shape stats h in let S' := stats_run w1 w2 b shape stats h' in
  blockview (length shape) k S = blockview (length shape) k S' /\
  blockview (length shape) k (map (root p) S) = blockview (length shape) k (map (root p) S') /\
  nth_error (ds_precond_blocks (length shape) (ds_blocks b shape g) (map (root p) S)) k =
  nth_error (ds_precond_blocks (length shape) (ds_blocks b shape g') (map (root p) S')) k.
Proof. exact ds_block_local_closed. Qed.
Print Assumptions c08_ds_block_local.

(* A parameter's roots do not depend on other parameters: the flat list over ALL parameters, padded
   to the common maximum size, rooted (vmap = map) and regrouped, gives every parameter the roots of
   its own statistics.  Hypothesis (named): root_padding_invariant — the root of a statistic padded
   to any size and cropped back is the root of the statistic (C01: masked_closed / padding_start). *)
Theorem c08_ds_param_local : forall (root : positive -> mat -> nat -> mat),
  (forall p mx M, (length M <= mx)%nat ->
     crop (length M) (root p (pad_square mx M) (length M)) = root p M (length M)) ->
  forall p statss, tree_roots root p statss = map (map (fun M => root p M (length M))) statss.
Proof. exact ds_param_local. Qed.
Print Assumptions c08_ds_param_local.

Theorem c08_ds_param_local_nth : forall (root : positive -> mat -> nat -> mat),
  (forall p mx M, (length M <= mx)%nat ->
     crop (length M) (root p (pad_square mx M) (length M)) = root p M (length M)) ->
  forall p statss statss' l, nth_error statss l = nth_error statss' l ->
  nth_error (tree_roots root p statss) l = nth_error (tree_roots root p statss') l.
Proof. exact ds_param_local_nth. Qed.
Print Assumptions c08_ds_param_local_nth.

(* update (blocked tensor) = assemble (map update_single blocks): block by block, the preconditioned
   gradient of the blocked tensor is what a parameter consisting of that block alone obtains from its
   own np preconditioners (the grafting multiplier, a parameter-level scalar, is applied afterwards
   and is C05's subject) ... *)
Theorem c08_blocked_equals_separate : forall np blocks pre,
  ds_precond_blocks np blocks pre =
  map (fun '(k, blk) => hd blk (ds_precond_blocks np [blk] (blockview np k pre)))
      (combine (seq 0 (length blocks)) blocks).
Proof. exact blocked_equals_separate. Qed.
Print Assumptions c08_blocked_equals_separate.

(* ... and a parameter none of whose dimensions exceeds the block size is its own single block. *)
Theorem c08_single_block : forall (b : Z) (shape : list nat) (g : vec),
  Forall (fun d => ~ (0 < b /\ b < Z.of_nat d)%Z) shape -> length g = prodn shape ->
  Forall (fun d => (0 < d)%nat) shape ->
  ds_blocks b shape g = [mkT shape g].
Proof. exact single_block. Qed.
Print Assumptions c08_single_block.

(* Tearfree shampoo._pth_inv_root with the per-block maximum (current code): block local, for every
   eigh / scalar-root oracle. *)
Theorem c08_tf_pth_inv_root_block_local : forall eigh hroot p covs covs' k,
  nth_error covs k = nth_error covs' k ->
  nth_error (pth_inv_root eigh hroot p covs) k = nth_error (pth_inv_root eigh hroot p covs') k.
Proof. exact tf_pth_inv_root_block_local. Qed.
Print Assumptions c08_tf_pth_inv_root_block_local.

(* The whole-batch maximum (code before fix 615398e): refuted — blocks with gradient scales 1 and
   1e-7 (covariances 1 and 1e-14): the small block's root is 0 next to the unit-scale block. *)
Theorem c08_tf_pth_inv_root_old_refuted :
  exists covs covs' k,
    nth_error covs k = nth_error covs' k /\
    nth_error (pth_inv_root_old eigh_1x1 (fun _ _ => 1) 2 covs) k <>
    nth_error (pth_inv_root_old eigh_1x1 (fun _ _ => 1) 2 covs') k.
Proof. exact tf_pth_inv_root_old_refuted. Qed.
Print Assumptions c08_tf_pth_inv_root_old_refuted.
