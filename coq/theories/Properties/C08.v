(* placeholder *)
From Precond Require Import Base.QMat C08.Model C08.Check.
