(* Properties/C12.v — ONLY the property theorems of C12 (each closed by [exact lemma]) and their
   Print Assumptions.  The model (C12/Model.v: moving_averages / sketch / step / run, exact_run) is
   tied to precondition/sm3.py by the correspondence of harness/c12.py.  All statements hold for
   every shape of rank >= 1 (a list of dimensions), every history (list of gradient tensors =
   index functions) and every beta in (0,1]. *)
From Precond Require Import C12.Model C12.Proofs C12.Exec.
From Precond Require C12.Ref C12.RefLink.
Open Scope Q_scope.

(* the minimum over a coordinate's accumulators covers the exact decayed sum of squares *)
Theorem c12_sm3_cover :
  forall (shape : list Z) (beta : Q) (gs : list tensor) (ix : idx),
    shape <> [] -> 0 < beta -> beta <= 1 -> in_shape shape ix ->
    exact_run beta gs ix <= min_acc (run shape beta gs) ix.
Proof. exact sm3_cover. Qed.
Print Assumptions c12_sm3_cover.

Theorem c12_sm3_cover_axis :
  forall (shape : list Z) (beta : Q) (gs : list tensor) (ix : idx) (i : nat),
    shape <> [] -> 0 < beta -> beta <= 1 -> in_shape shape ix -> (i < length shape)%nat ->
    exact_run beta gs ix <= acc_at (run shape beta gs) i (ix_at ix i).
Proof. exact sm3_cover_axis. Qed.
Print Assumptions c12_sm3_cover_axis.

(* key step, for ANY state: each new accumulator dominates nu at every index through it *)
Theorem c12_step_dominates :
  forall (shape : list Z) (beta : Q) (a : list acc) (g : tensor) (ix : idx) (i : nat),
    in_shape shape ix -> (i < length shape)%nat ->
    moving_averages shape beta a g ix <= acc_at (step shape beta a g) i (ix_at ix i).
Proof. exact step_dominates. Qed.
Print Assumptions c12_step_dominates.

(* reachable states satisfy the "attained" invariant ... *)
Theorem c12_reachable_attained :
  forall (shape : list Z) (beta : Q) (gs : list tensor),
    Forall (fun d => (1 <= d)%Z) shape -> attained shape (run shape beta gs).
Proof. exact run_attained. Qed.
Print Assumptions c12_reachable_attained.

(* ... hence with decay 1 no accumulator entry ever decreases along any history *)
Theorem c12_sm3_monotone :
  forall (shape : list Z) (beta : Q) (gs : list tensor) (g : tensor) (i : nat) (j : Z),
    shape <> [] -> Forall (fun d => (1 <= d)%Z) shape -> beta == 1 ->
    (i < length shape)%nat -> (0 <= j < nth i shape 0%Z)%Z ->
    acc_at (run shape beta gs) i j <= acc_at (run shape beta (gs ++ [g])) i j.
Proof. exact sm3_monotone. Qed.
Print Assumptions c12_sm3_monotone.

(* monotonicity from an arbitrary state that satisfies the invariant *)
Theorem c12_monotone_step :
  forall (shape : list Z) (beta : Q) (a : list acc) (g : tensor) (i : nat) (j : Z),
    shape <> [] -> beta == 1 -> length a = length shape -> attained shape a ->
    (i < length shape)%nat -> (0 <= j < nth i shape 0%Z)%Z ->
    acc_at a i j <= acc_at (step shape beta a g) i j.
Proof. exact monotone_step. Qed.
Print Assumptions c12_monotone_step.

(* the invariant cannot be dropped: an unreachable state loses mass with beta = 1 *)
Theorem c12_sm3_monotone_unreachable_refuted :
  exists shape a g,
    length a = length shape /\ ~ attained shape a /\
    ~ (acc_at a 0 0%Z <= acc_at (step shape 1 a g) 0 0%Z).
Proof. exact sm3_monotone_unreachable_refuted. Qed.
Print Assumptions c12_sm3_monotone_unreachable_refuted.

(* rank 1: SM3's accumulator IS the diagonal AdaGrad (beta = 1) / RMSProp accumulator *)
Theorem c12_sm3_rank1_is_adagrad :
  forall (d : Z) (beta : Q) (gs : list tensor) (j : Z),
    acc_at (run [d] beta gs) 0 j == exact_run beta gs [j].
Proof. exact sm3_rank1_is_adagrad. Qed.
Print Assumptions c12_sm3_rank1_is_adagrad.

(* squared per-coordinate step: g^2/(nu+eps) <= g^2/(e+eps), nu = the statistic SM3 preconditions
   with at this step, e = the exact accumulator including this step's gradient *)
Theorem c12_sm3_step_le_adagrad :
  forall (shape : list Z) (beta : Q) (gs : list tensor) (g : tensor) (ix : idx) (eps : Q),
    shape <> [] -> 0 < beta -> beta <= 1 -> 0 < eps -> in_shape shape ix ->
    sq (g ix) / (moving_averages shape beta (run shape beta gs) g ix + eps)
    <= sq (g ix) / (exact_run beta (gs ++ [g]) ix + eps).
Proof. exact sm3_step_le_adagrad. Qed.
Print Assumptions c12_sm3_step_le_adagrad.

(* the list-backed step that the correspondence check executes (Model.step_l) is the model step:
   same accumulators at every in-range position ... *)
Theorem c12_step_l_sound :
  forall (shape : list Z) (beta : Q) (al : list (list Q)) (gl : list Q),
    acc_eq_in shape (map acc_of_list (step_l shape beta al gl))
                    (step shape beta (map acc_of_list al) (tensor_of_list shape gl)).
Proof. exact step_l_sound. Qed.
Print Assumptions c12_step_l_sound.

(* ... so iterating it from any covered list state keeps the cover (this is the statement the
   per-transition correspondence chains together) *)
Theorem c12_cover_lists :
  forall (shape : list Z) (beta : Q) (gls : list (list Q)) (ix : idx) (al : list (list Q))
         (e : tensor),
    shape <> [] -> 0 < beta -> beta <= 1 -> in_shape shape ix ->
    covers shape e (map acc_of_list al) ->
    exact_run_from beta e (map (tensor_of_list shape) gls) ix
    <= min_acc (map acc_of_list (run_l shape beta al gls)) ix.
Proof. exact cover_lists. Qed.
Print Assumptions c12_cover_lists.

(* sm3._moving_averages as written in the source (C12.Ref: translated on every run and re-proved equal,
   GenEq obligations; tensors flattened, the broadcast accumulators[0] and reduce(minimum, accumulators)
   supplied as vectors) applied to the tabulated accumulators IS the tabulated model, for every shape,
   beta2, accumulators and gradient -- so the cover theorems above speak about the source's formula. *)
Theorem c12_source_moving_averages_is_model : forall (shape : list Z) (beta : Q) (a : list acc) (g : tensor),
  C12.Ref.sm3_moving_averages beta (length shape <? 2)%nat
      (map (fun ix => acc_at a 0 (ix_at ix 0)) (all_idx shape))
      (map (min_acc a) (all_idx shape))
      (map g (all_idx shape))
  = map (moving_averages shape beta a g) (all_idx shape).
Proof. exact C12.RefLink.source_moving_averages_is_model. Qed.
Print Assumptions c12_source_moving_averages_is_model.

(* the momentum moving average of the source: beta1 * m + w(beta1) * g, coordinate by coordinate *)
Theorem c12_source_momentum_average : forall (beta : Q) (g m : list Q),
  C12.Ref.sm3_moving_averages_momentum beta g m
  = map (fun '(mm, gg) => (beta * mm + wt beta * gg)%Q) (combine m g).
Proof. exact C12.RefLink.momentum_on_list. Qed.
Print Assumptions c12_source_momentum_average.
