(* Properties/C07.v — ONLY the property theorems of C07 (each closed by [exact lemma]) and their
   Print Assumptions.  They speak about the layout calculus C07.Model / C07.ModelTF (tied to /repo
   by the correspondence of ./check C07; its shape arithmetic is C06.Ref).  [repaired] = the
   behaviour after the fix: commits (plus the two findings still open, N2/N5, repaired),
   [as_is] = the pinned tree before those commits, one flag per defect. *)
From Coq Require Import QArith.
From Precond Require Import Base.PyLib C06.Ref.
From Precond Require Import C07.Layout C07.Model C07.ModelTF C07.Infra C07.Proofs C07.ProofsSharded
     C07.ProofsTF C07.Witness.
Open Scope Z_scope.

(* The parameters' dtype (ds_pdt / tf_pdt / the [d] of sm3: float32, bfloat16, ...) is a field of the
   configuration, so every statement below holds for every parameter dtype.

   Distributed Shampoo, all modes: after init, ANY number of updates leaves the state layout (tree,
   static metadata, leaf shapes, dtypes) exactly the initial one; the only other possible outcome
   is the explicit rejection "all layers are too small for compression_rank" (site 6); an internal
   error is impossible.  For every configuration, parameter tree, rank and number of updates. *)
Theorem c07_layout_fixed_point : forall c t l k,
  ds_accepts repaired c = Ok tt -> valid_ptype c -> 0 < ds_ndev c ->
  (ds_sharded c = true -> sizes_positive c (leaves t)) ->
  ds_init repaired c t = Ok l ->
  stable_or_rejected l (iterate repaired c t k l).
Proof. exact ds_layout_fixed_point. Qed.
Print Assumptions c07_layout_fixed_point.

(* one update, replicated / pmap (incl. int16-quantized, compressed, frequent directions) *)
Theorem c07_layout_fixed_point_step : forall c t,
  ds_accepts repaired c = Ok tt -> valid_ptype c -> ds_sharded c = false ->
  ds_update_plain repaired c t (ds_init_plain c t) = Ok (ds_init_plain c t) \/
  ds_update_plain repaired c t (ds_init_plain c t) = Reject 6.
Proof. exact ds_plain_fixed_point. Qed.
Print Assumptions c07_layout_fixed_point_step.

(* one update, sharded *)
Theorem c07_layout_fixed_point_sharded : forall c t l,
  ds_accepts repaired c = Ok tt -> valid_ptype c -> ds_sharded c = true -> 0 < ds_ndev c ->
  sizes_positive c (leaves t) ->
  ds_init_sharded repaired c t = Ok l -> ds_update_sharded repaired c t l = Ok l.
Proof. exact ds_sharded_fixed_point. Qed.
Print Assumptions c07_layout_fixed_point_sharded.

(* init never ends in an internal error *)
Theorem c07_init_rejects_explicitly : forall c t tags, ds_init repaired c t <> Internal tags.
Proof. exact ds_init_no_internal. Qed.
Print Assumptions c07_init_rejects_explicitly.

(* SM3 and Tearfree (Shampoo / Sketchy second-order state, grafting, momentum, lr) *)
Theorem c07_layout_fixed_point_sm3 : forall d t l k,
  sm3_init d t = Ok l -> iter_upd (sm3_update repaired d t) k l = Ok l.
Proof. exact sm3_layout_fixed_point. Qed.
Print Assumptions c07_layout_fixed_point_sm3.

Theorem c07_layout_fixed_point_tearfree : forall c t l k,
  shapes_pos c t -> tf_init repaired c t = Ok l -> iter_upd (tf_update repaired c t) k l = Ok l.
Proof. exact tf_layout_fixed_point. Qed.
Print Assumptions c07_layout_fixed_point_tearfree.

Theorem c07_tearfree_rejects_explicitly : forall c tags, tf_accepts repaired c <> Internal tags.
Proof. exact tf_accepts_no_internal. Qed.
Print Assumptions c07_tearfree_rejects_explicitly.

(* the update tree is the parameter tree; the preconditioned blocks merge and reshape back to the
   parameter's shape (element count preserved by merging, block sizes sum to the dimensions) *)
Theorem c07_update_tree_like_params : forall t,
  layout_eqb (updates_layout t) t = true /\ leaves (updates_layout t) = leaves t.
Proof. exact updates_like_params. Qed.
Print Assumptions c07_update_tree_like_params.

Theorem c07_update_reshapes_back : forall c p,
  1 <= ds_merge c -> Forall (fun d => 1 <= d) p ->
  prod_z (tshape c p) = prod_z p /\ map sum_z (split_sizes c p) = tshape c p /\
  layout_eqb (updates_layout (Leaf p F32)) (Leaf p F32) = true.
Proof. exact update_reshapes_back. Qed.
Print Assumptions c07_update_reshapes_back.

(* sharded mode: the initial state, the declared shapes/dtypes and the partition specs describe
   one and the same tree *)
Theorem c07_sharded_three_views_agree : forall c t l,
  ds_init_sharded repaired c t = Ok l ->
  ds_declared repaired c t = Ok l /\
  exists pl, ds_pspec repaired c t = Ok pl /\ pspec_matches l pl = true.
Proof. exact three_views_agree. Qed.
Print Assumptions c07_sharded_three_views_agree.

(* every list index / slice of the model is in range: one slot per block and preconditioned axis
   (announced = produced statistics), _preconds_for_grad hands every block exactly rank slots, and
   the -N % D padding makes the stacked statistics a multiple of the device count *)
Theorem c07_bookkeeping_total : forall c p,
  valid_ptype c ->
  zlen (pshapes c p) = num_blocks c p * num_pre c p /\
  slots_ok c p (zlen (pshapes c p)) = true /\
  map dim0 (pshapes c p) = produced_dims c p /\
  (forall n d, 0 < d -> (n + (- n) mod d) mod d = 0 /\ 0 <= (- n) mod d < d).
Proof. exact bookkeeping. Qed.
Print Assumptions c07_bookkeeping_total.

(* --- the tree before the fix: commits ([as_is]): the full statements are refuted, the provable ones
   carry the exclusion --- *)
Theorem c07_accepted_runs_refuted_D7 : exists c t l,
  ds_accepts as_is c = Ok tt /\ ds_init as_is c t = Ok l /\ ds_update as_is c t l = Internal [7].
Proof. exact d7_refuted. Qed.
Print Assumptions c07_accepted_runs_refuted_D7.

Theorem c07_accepts_outside_known_finding_D7 : forall c,
  (ds_fd c && negb (ds_reuse c)) = false -> ds_accepts as_is c = ds_accepts repaired c.
Proof. exact as_is_accepts_outside_d7. Qed.
Print Assumptions c07_accepts_outside_known_finding_D7.

Theorem c07_layout_fixed_point_refuted_D8 : exists c t l l',
  ds_init as_is c t = Ok l /\ ds_update as_is c t l = Ok l' /\ layout_eqb l l' = false.
Proof. exact d8_refuted. Qed.
Print Assumptions c07_layout_fixed_point_refuted_D8.

Theorem c07_compute_stats_outside_known_finding_D8 : forall c q p st,
  (skipped c p = false /\ (ds_fd c && ds_avg c) = true) \/ ps_avg st = masked ->
  compute_stats as_is c q p st = compute_stats repaired c q p st.
Proof. exact compute_stats_outside_d8. Qed.
Print Assumptions c07_compute_stats_outside_known_finding_D8.

Theorem c07_layout_fixed_point_refuted_N9 : exists c t l l',
  ds_init as_is c t = Ok l /\ ds_update as_is c t l = Ok l' /\ layout_eqb l l' = false.
Proof. exact n9_refuted. Qed.
Print Assumptions c07_layout_fixed_point_refuted_N9.

Theorem c07_sharded_three_views_refuted_D10 : exists c t l d,
  ds_init as_is c t = Ok l /\ ds_declared as_is c t = Ok d /\ layout_eqb l d = false.
Proof. exact d10_refuted. Qed.
Print Assumptions c07_sharded_three_views_refuted_D10.

Theorem c07_accepted_runs_refuted_D11_N1_N6 :
  (exists c t l, ds_init as_is c t = Ok l /\ ds_update as_is c t l = Internal [11]) /\
  (exists c t l, ds_init as_is c t = Ok l /\ ds_update as_is c t l = Internal [21]) /\
  (exists c t l, ds_init as_is c t = Ok l /\ ds_update as_is c t l = Internal [26]).
Proof. exact d11_n1_n6_refuted. Qed.
Print Assumptions c07_accepted_runs_refuted_D11_N1_N6.
