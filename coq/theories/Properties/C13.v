(* Properties/C13.v — ONLY the property theorems of C13 (device-count invariance), each closed by
   [exact lemma], and their Print Assumptions.  They speak about C13.Model, which is tied to
   /repo on every run by harness/c13.py (exhaustive correspondence of the real batch()/unbatch()
   for N <= 40, D <= 8 and bitwise cross-device comparison of the optimizer).
   Every theorem quantifies over ALL device counts D > 0, all numbers of statistics, all item
   types and all per-item functions f (the vmapped inverse-root computation is any function). *)
From Precond Require Import Base.PyLib C13.Model C13.Proofs C13.ArrayProofs.
From Precond Require C13.Ref C13.RefLink.
Open Scope Z_scope.

(* to_pad = -N % D lies in [0, D), makes the count a multiple of D, and is the least such number *)
Theorem c13_pad_count_range : forall D n, 0 < D -> 0 <= pad_count D n < D.
Proof. exact pad_count_range. Qed.
Print Assumptions c13_pad_count_range.

Theorem c13_pad_count_divides : forall D n, 0 < D -> (n + pad_count D n) mod D = 0.
Proof. exact pad_count_divides. Qed.
Print Assumptions c13_pad_count_divides.

Theorem c13_pad_count_minimal : forall D n k,
  0 < D -> 0 <= k -> (n + k) mod D = 0 -> pad_count D n <= k.
Proof. exact pad_count_minimal. Qed.
Print Assumptions c13_pad_count_minimal.

(* batch / unbatch round trip (order of items) whenever D divides the count *)
Theorem c13_batch_unbatch_id : forall (A : Type) (xs : list A) D,
  0 < D -> zlen xs mod D = 0 -> xs <> [] ->
  exists cs, batch xs D = Some cs /\ zlen cs = D /\ unbatch_l cs = xs.
Proof. exact @batch_unbatch_id_lemma. Qed.
Print Assumptions c13_batch_unbatch_id.

(* fewer items than devices: Python raises (range() step 0) — this is why padding comes first *)
Theorem c13_batch_rejects_short : forall (A : Type) (xs : list A) D,
  0 < D -> zlen xs < D -> batch xs D = None.
Proof. exact @batch_fails_when_short. Qed.
Print Assumptions c13_batch_rejects_short.

(* the whole pmap pipeline: pad to a multiple of D, batch, every replica maps f over its own
   chunk, all_gather, unbatch, keep the first N: the result is map f over the N statistics, for
   every D > 0 and every N >= 1 (hence every residue N mod D) *)
Theorem c13_device_count_invariant : forall (A B : Type) D (dummy : A) (f : A -> B) xs,
  0 < D -> xs <> [] -> pmap_pipeline D dummy f xs = Some (map f xs).
Proof. exact @device_count_invariant_lemma. Qed.
Print Assumptions c13_device_count_invariant.

Theorem c13_any_two_device_counts_agree : forall (A B : Type) D1 D2 (dummy : A) (f : A -> B) xs,
  0 < D1 -> 0 < D2 -> xs <> [] ->
  pmap_pipeline D1 dummy f xs = pmap_pipeline D2 dummy f xs.
Proof. exact @any_two_device_counts_agree. Qed.
Print Assumptions c13_any_two_device_counts_agree.

(* N = 0: nothing is padded (and the code returns before batching) *)
Theorem c13_no_statistics_no_padding : forall (A : Type) D (dummy : A), 0 < D -> pad D dummy [] = [].
Proof. exact @pad_empty. Qed.
Print Assumptions c13_no_statistics_no_padding.

(* padding items are never selected: the kept results do not depend on the dummy, and the
   results of the dummy items are exactly the discarded tail *)
Theorem c13_padding_never_selected : forall (A B : Type) D (d1 d2 : A) (f : A -> B) xs,
  0 < D -> xs <> [] ->
  pmap_pipeline D d1 f xs = pmap_pipeline D d2 f xs /\
  exists cs, batch (pad D d1 xs) D = Some cs /\
    skipn (length xs) (unbatch_l (gathered f cs D)) = repeat_z (f d1) (pad_count D (zlen xs)).
Proof. exact @padding_never_selected_lemma. Qed.
Print Assumptions c13_padding_never_selected.

(* index layout: statistic i is computed by replica i / b in slot i mod b, b = (N + to_pad) / D *)
Theorem c13_layout_position : forall (A : Type) D (dummy : A) xs,
  0 < D -> xs <> [] ->
  exists cs, batch (pad D dummy xs) D = Some cs /\
    let b := Z.to_nat ((zlen xs + pad_count D (zlen xs)) / D) in
    forall i, (i < length xs)%nat ->
      nth (i mod b) (nth (i / b) cs []) dummy = nth i xs dummy.
Proof. exact @layout_position. Qed.
Print Assumptions c13_layout_position.

(* sharded (pjit) mode: the global stack has a positive multiple of D rows (to_pad = D when there is
   no statistic), and the first N results are map f of the statistics for any declared D *)
Theorem c13_sharded_any_D : forall (A B : Type) D (dummy : A) (f : A -> B) xs,
  0 < D ->
  firstn (length xs) (map f (sharded_pad D dummy xs)) = map f xs /\
  zlen (sharded_pad D dummy xs) mod D = 0 /\ 0 < zlen (sharded_pad D dummy xs).
Proof. exact @sharded_any_D_lemma. Qed.
Print Assumptions c13_sharded_any_D.

(* every parameter reads back exactly its own rows (index_start : index_start + len) *)
Theorem c13_sharded_slices_correct : forall (A B : Type) D (dummy : A) (f : A -> B)
    (pss : list (list A)) k,
  (k < length pss)%nat ->
  param_slice (map f (sharded_pad D dummy (global_rows pss)))
              (nth k (index_starts pss) 0%nat) (length (nth k pss [])) =
  map f (nth k pss []).
Proof. exact @sharded_slices_correct_lemma. Qed.
Print Assumptions c13_sharded_slices_correct.

(* array level (jnp.stack / jnp.split / jnp.squeeze as written in batch()/unbatch()): the item
   data always come back in order *)
Theorem c13_unbatch_batch_data : forall (A : Type) m (xs : list (arr A)) D s,
  0 < D -> zlen xs mod D = 0 -> xs <> [] -> Forall (wf_item s) xs ->
  exists a, batch_arr xs D = Some a /\ map dat (unbatch_arr m a) = map dat xs.
Proof. exact @unbatch_data_lemma. Qed.
Print Assumptions c13_unbatch_batch_data.

(* ... and the shapes too, provided the item shape has no unit dimension (bare jnp.squeeze) *)
Theorem c13_squeeze_safe : forall (A : Type) (xs : list (arr A)) D s,
  0 < D -> zlen xs mod D = 0 -> xs <> [] -> Forall (wf_item s) xs ->
  no_unit_dims s = true ->
  exists a, batch_arr xs D = Some a /\ unbatch_arr Bare a = xs.
Proof. exact @squeeze_safe_lemma. Qed.
Print Assumptions c13_squeeze_safe.

(* without that hypothesis the statement is false of the bare-squeeze code (finding D9, the code
   before "fix: unbatch squeezes only the two batching axes"): a 1x1 statistic comes back
   0-dimensional.  harness/c13.py reports a VIOLATION if the real unbatch() behaves like [Bare]. *)
Theorem c13_squeeze_safe_refuted :
  exists (xs : list (arr Z)) D s a,
    0 < D /\ zlen xs mod D = 0 /\ xs <> [] /\ Forall (wf_item s) xs /\
    batch_arr xs D = Some a /\ unbatch_arr Bare a <> xs /\
    map shp (unbatch_arr Bare a) = [[]].
Proof. exact squeeze_unsafe_witness. Qed.
Print Assumptions c13_squeeze_safe_refuted.

(* with explicit axes (jnp.squeeze(v, axis=0), the repaired code) shapes are always preserved *)
Theorem c13_squeeze_axis0_safe : forall (A : Type) (xs : list (arr A)) D s,
  0 < D -> zlen xs mod D = 0 -> xs <> [] -> Forall (wf_item s) xs ->
  exists a, batch_arr xs D = Some a /\ unbatch_arr Axis0 a = xs.
Proof. exact @axis0_safe_lemma. Qed.
Print Assumptions c13_squeeze_axis0_safe.

(* distributed_shampoo.batch as written in the source (C13.Ref: translated on every run and re-proved
   equal, GenEq obligation; jnp.stack is the identity on the list layer) is the model's chunking for
   every item type, every list and every device count for which Python's range() does not raise
   (num_devices > 0, b = n / num_devices > 0); in particular it equals the model's batch whenever
   that is defined. *)
Theorem c13_source_batch_is_model : forall (A : Type) (xs : list A) (D : Z),
  0 < D -> 0 < zlen xs / D -> C13.Ref.batch_src A xs D = batch_raw xs D.
Proof. exact @C13.RefLink.batch_src_is_model. Qed.
Print Assumptions c13_source_batch_is_model.

Theorem c13_source_batch_is_model_batch : forall (A : Type) (xs : list A) (D : Z) cs,
  0 < D -> batch xs D = Some cs -> C13.Ref.batch_src A xs D = cs.
Proof. exact @C13.RefLink.batch_src_is_model_batch. Qed.
Print Assumptions c13_source_batch_is_model_batch.
