(* Properties/C10.v — ONLY the property theorems of C10 (each closed by [exact lemma]) and their
   Print Assumptions.  Model: C10/Model.v (tied to /repo by harness/c10.py on every run);
   precond_dim / should_compress are C06.Ref's (regenerated from the source by tools/py2v.py). *)
From Coq Require Import ZArith QArith Qminmax List Bool.
From Precond Require Import Base.PyLib C06.Ref C10.Sums C10.Model C10.Proofs C10.Loop.

(* ---- sizes ------------------------------------------------------------------------------- *)
Theorem precond_dim_consistent : forall cr d,
  should_compress cr d = true <-> (precond_dim cr d = Z.abs cr + 2 /\ Z.abs cr + 2 < d)%Z.
Proof. exact precond_dim_consistent_l. Qed.
Print Assumptions precond_dim_consistent.

(* the assertions inside _fd_low_rank_pack / _fd_low_rank_unpack hold exactly when
   _should_compress says so (for the storage width announced by _precond_dim) *)
Theorem pack_defined_iff_should_compress : forall cr d, cr <> 0%Z ->
  fd_pack_ok d cr = should_compress cr d.
Proof. exact pack_ok_iff_should_compress. Qed.
Print Assumptions pack_defined_iff_should_compress.

Theorem unpack_defined_iff_should_compress : forall cr d,
  fd_unpack_ok d (precond_dim cr d) cr = should_compress cr d.
Proof. exact unpack_ok_iff_should_compress. Qed.
Print Assumptions unpack_defined_iff_should_compress.

(* ---- pack / unpack, every carrier, ALL d and r with |r| + 2 <= d --------------------------- *)
Theorem unpack_pack_id : forall (A : Type) (zero : A) (of_bool : bool -> A) (to_bool : A -> bool),
  (forall b, to_bool (of_bool b) = b) ->
  forall d cr (F : fields A), let r := Z.abs cr in
  (0 < r)%Z -> (r + 2 <= d)%Z ->
  let F' := fd_unpack to_bool d cr (fd_pack zero of_bool d cr F) in
  (forall i j, (0 <= i < d)%Z -> (0 <= j < r)%Z -> f_vecs F' i j = f_vecs F i j) /\
  (forall k, (0 <= k < r)%Z -> f_defl F' k = f_defl F k) /\
  (forall k, (0 <= k < r)%Z -> f_inv F' k = f_inv F k) /\
  f_const F' = f_const F /\ f_tail F' = f_tail F /\ f_hz F' = f_hz F.
Proof. exact @unpack_pack_id_l. Qed.
Print Assumptions unpack_pack_id.

(* the size condition cannot be weakened: at d = |r| + 1 the tail slot is overwritten *)
Theorem unpack_pack_id_bound_is_tight :
  exists (d cr : Z) (F : fields Z), (Z.abs cr + 1 = d)%Z /\
    f_tail (fd_unpack z_to_bool d cr (fd_pack 0%Z z_of_bool d cr F)) <> f_tail F.
Proof. exact unpack_pack_needs_bound. Qed.
Print Assumptions unpack_pack_id_bound_is_tight.

Theorem pack_unpack_id_on_image : forall (A : Type) (zero : A) (of_bool : bool -> A) (to_bool : A -> bool),
  forall d cr (P : Z -> Z -> A), let r := Z.abs cr in
  (0 < r)%Z -> (r + 2 <= d)%Z ->
  (forall i j, (0 <= i < d)%Z -> unused_slot d r i j = true -> P i j = zero) ->
  of_bool (to_bool (P (d - 1)%Z r)) = P (d - 1)%Z r ->
  forall i j, (0 <= i < d)%Z -> (0 <= j < r + 2)%Z ->
    fd_pack zero of_bool d cr (fd_unpack to_bool d cr P) i j = P i j.
Proof. exact @pack_unpack_id_on_image_l. Qed.
Print Assumptions pack_unpack_id_on_image.

Theorem packed_matrices_are_in_the_image : forall (A : Type) (zero : A) (of_bool : bool -> A) (to_bool : A -> bool),
  (forall b, to_bool (of_bool b) = b) ->
  forall d cr (F : fields A), let r := Z.abs cr in
  (0 < r)%Z -> (r + 2 <= d)%Z ->
  let P := fd_pack zero of_bool d cr F in
  (forall i j, (0 <= i < d)%Z -> unused_slot d r i j = true -> P i j = zero) /\
  of_bool (to_bool (P (d - 1)%Z r)) = P (d - 1)%Z r.
Proof. exact @pack_image. Qed.
Print Assumptions packed_matrices_are_in_the_image.

(* ---- compressed application == dense matrix, ALL d, r, tensor ranks ------------------------- *)
(* T is the (arbitrary) index type of the trailing axes of g, so g is a tensor of any rank whose
   leading axis is being preconditioned; no orthogonality of V is assumed. *)
Theorem compressed_apply_is_dense : forall (T : Type) d r V e c (g : Z -> T -> Q) rest j,
  (0 <= j < d)%Z ->
  lr_new d r V e c g rest j == mode0 d g (dense_of r V e c) rest j.
Proof. exact @lr_new_is_dense. Qed.
Print Assumptions compressed_apply_is_dense.

Theorem apply_packed_is_dense : forall (T : Type) d cr P (g : Z -> T -> Q) rest j,
  (0 <= j < d)%Z ->
  apply_packed d cr P g rest j == mode0 d g (dense_of_packed d cr P) rest j.
Proof. exact @apply_packed_is_dense_l. Qed.
Print Assumptions apply_packed_is_dense.

Theorem has_zeros_is_identity : forall (T : Type) d cr P (g : Z -> T -> Q) rest j,
  q_to_bool (P (d - 1)%Z (Z.abs cr)) = true ->
  apply_packed d cr P g rest j = g j rest.
Proof. exact @has_zeros_is_identity_l. Qed.
Print Assumptions has_zeros_is_identity.

(* the whole loop of _precondition_block on a tensor of ANY rank n: processing the n axes (mixing
   skipped, full and packed preconditioners) equals the mode products with the denoted dense
   matrices along axis 0, 1, .., n-1 *)
Theorem precondition_block_is_dense : forall (shape : list Z) (ps : list precond) (t : tens),
  length ps = length shape -> dims_match ps shape ->
  forall idx, in_shape shape idx ->
    precondition_block ps t idx == dense_all ps 0 t idx.
Proof. exact precondition_block_is_dense_l. Qed.
Print Assumptions precondition_block_is_dense.

(* ---- _low_rank_root ---------------------------------------------------------------------- *)
(* For every answer (ev, U) of eigh with U orthogonal, and every value of the power kernel: the dense
   matrix denoted by the packed result is the spectral sum in which the retained eigen-directions
   (largest |r| for r > 0, smallest unpadded |r| for r < 0) carry their own inverse-root weight and
   ALL others carry the mean of the non-retained weights over the unpadded dimensions. *)
Theorem low_rank_root_denotes : forall d cr ps ridge ev U rootp,
  (0 < Z.abs cr)%Z -> (Z.abs cr + 2 <= d)%Z -> (Z.abs cr <= ps <= d)%Z ->
  (forall i j, (0 <= i < d)%Z -> (0 <= j < d)%Z -> sumZ d (fun k => U i k * U j k) == delta i j) ->
  forall i j, (0 < ps)%Z -> (0 <= i < d)%Z -> (0 <= j < d)%Z ->
    dense_of_packed d cr (low_rank_root d cr ps ridge ev U rootp) i j ==
    sumZ d (fun k => root_weight d cr ps ridge ev rootp k * U i k * U j k).
Proof. exact low_rank_root_denotes_l. Qed.
Print Assumptions low_rank_root_denotes.

(* the spectral sum has the eigenpairs (weight m, u_m) when the columns of U are orthonormal ... *)
Theorem denoted_matrix_eigpairs : forall d U,
  (forall k m, (0 <= k < d)%Z -> (0 <= m < d)%Z -> sumZ d (fun i => U i k * U i m) == delta k m) ->
  forall (w : Z -> Q) m i, (0 <= m < d)%Z ->
    sumZ d (fun j => sumZ d (fun k => w k * U i k * U j k) * U j m) == w m * U i m.
Proof. exact denoted_eigpairs. Qed.
Print Assumptions denoted_matrix_eigpairs.

(* ... and the retained weights are exact inverse p-th roots of the ridge-clamped eigenvalues, for
   every power kernel meeting root_spec.  (_partial: that U diag(ev) U' equals the regularized input
   — the other half of eigh_spec — is checked per run on the captured answer, and the step from
   "same eigenpairs" to a matrix-power identity X^p A = I is not mechanised.) *)
Theorem retained_weights_are_roots_partial : forall d ps ridge ev rootp (p : positive) k,
  let x := Qmax (ev_masked d ps ev k) ridge in
  (0 < rootp x /\ Qpower (rootp x) (Zpos p) * x == 1) ->
  ~ ev_masked d ps ev k == 0 ->
  0 < inv_e d ps ridge ev rootp k /\
  Qpower (inv_e d ps ridge ev rootp k) (Zpos p) * x == 1.
Proof. exact inv_e_is_root. Qed.
Print Assumptions retained_weights_are_roots_partial.

(* the orthogonality hypotheses above are satisfiable for every size (U = I) *)
Theorem eigh_hypotheses_satisfiable : forall d,
  (forall i j, (0 <= i < d)%Z -> (0 <= j < d)%Z -> sumZ d (fun k => delta i k * delta j k) == delta i j) /\
  (forall k m, (0 <= k < d)%Z -> (0 <= m < d)%Z -> sumZ d (fun i => delta i k * delta i m) == delta k m).
Proof. exact eigh_hypotheses_satisfiable_l. Qed.
Print Assumptions eigh_hypotheses_satisfiable.

Theorem low_rank_root_all_padding_is_zero : forall d cr ps ridge ev U rootp i j, ps = 0%Z ->
  low_rank_root d cr ps ridge ev U rootp i j = 0.
Proof. exact low_rank_root_all_padding. Qed.
Print Assumptions low_rank_root_all_padding_is_zero.
