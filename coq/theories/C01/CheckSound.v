(* C01/CheckSound.v — meaning of the run-time verdicts. *)
From Precond Require Import Base.QMat Base.PsdCheck Base.PsdRound C09.Check C09.CheckSound C01.Check.
From Coq Require Import Lqa Lia.
Open Scope Q_scope.

(* maxev_ok: the estimate c is at most (1+eps) times a number lam_ub that bounds the quadratic form,
   i.e. lam_ub >= largest eigenvalue *)
Theorem maxev_ok_sound eps c lam_ub n A : is_square n A = true ->
  maxev_ok eps c lam_ub n A = true ->
  (forall x, length x = n -> qf A x <= lam_ub * dot x x) /\ c <= lam_ub * (1 + eps).
Proof.
  intros Hsq H. unfold maxev_ok in H. apply andb_true_iff in H as [H1 H2].
  pose proof (is_square_wf _ _ Hsq) as Hwf. split.
  - intros x Hx. pose proof (psd_any_sound _ _ _ H1 x Hx) as P.
    rewrite (qf_add_ridge n) in P by (try apply mscale_wf; assumption).
    rewrite qf_mscale in P. lra.
  - apply Qleb_true. exact H2.
Qed.

(* root_cert = 0: the returned matrix is exactly zero outside the leading s x s block and the
   entrywise residual of X^p (A + d I_s) against the masked identity is at most err + slack *)
Theorem root_cert_sound tau_sym slack err d n s p X A :
  root_cert tau_sym slack err d n s p X A = 0%Z ->
  zero_outside s X = true /\ sym_ok tau_sym X = true /\
  cert_residual n s p X A d <= err + slack.
Proof.
  unfold root_cert. intro H.
  destruct (is_square n X && zero_outside s X) eqn:E1; cbn [negb] in H; [|discriminate].
  destruct (sym_ok tau_sym X) eqn:E2; cbn [negb] in H; [|discriminate].
  destruct (Qleb (cert_residual n s p X A d) (err + slack)) eqn:E3; cbn [negb] in H; [|discriminate].
  apply andb_true_iff in E1 as [_ E1]. apply Qleb_true in E3. auto.
Qed.
