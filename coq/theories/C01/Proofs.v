(* C01/Proofs.v — algebra of the coupled Newton iteration in a commutative ring, honesty of the
   reported error, retry-loop bookkeeping, Rayleigh quotient bound. *)
From Coq Require Import QArith Qminmax Qround ZArith NArith List Ring Lia Lqa.
From Precond Require Import Base.QMat C01.Model.
Import ListNotations.
Open Scope Q_scope.

Section Algebra.
  Variable R : Type.
  Variables (rO rI : R) (radd rmul rsub : R -> R -> R) (ropp : R -> R).
  Hypothesis Rth : ring_theory rO rI radd rmul rsub ropp (@eq R).
  Add Ring Rring : Rth.

  Declare Scope ring_scope.
  Notation "x * y" := (rmul x y) : ring_scope.
  Notation "x + y" := (radd x y) : ring_scope.
  Delimit Scope ring_scope with r.
  Notation pw := (rpow R rI rmul).

  Lemma rpow_add x n m : pw x (n + m) = (pw x n * pw x m)%r.
  Proof. induction n as [|n IH]; simpl; [ring | rewrite IH; ring]. Qed.

  Lemma rpow_mul_distr x y n : pw (x * y)%r n = (pw x n * pw y n)%r.
  Proof. induction n as [|n IH]; simpl; [ring | rewrite IH; ring]. Qed.

  Lemma rpow_sq x n : pw (x * x)%r n = pw x (2 * n).
  Proof.
    rewrite rpow_mul_distr. replace (2 * n)%nat with (n + n)%nat by lia. rewrite rpow_add. reflexivity.
  Qed.

  (* mat_power: the binary-exponentiation loop computes mat^i * power *)
  Lemma mat_power_loop_correct : forall fuel i P M,
    (N.to_nat i < 2 ^ fuel)%nat ->
    mat_power_loop R rmul fuel i P M = (pw M (N.to_nat i) * P)%r.
  Proof.
    induction fuel as [|f IH]; intros i P M Hlt.
    - simpl in Hlt. assert (N.to_nat i = 0%nat) by lia. rewrite H. simpl. ring.
    - cbn [mat_power_loop]. destruct (N.eqb i 0) eqn:E0.
      + apply N.eqb_eq in E0. subst. simpl. ring.
      + pose proof (N.div2_odd i) as Hd.
        assert (Hn : N.to_nat i = (2 * N.to_nat (N.div2 i) + (if N.odd i then 1 else 0))%nat).
        { rewrite Hd at 1. rewrite N2Nat.inj_add, N2Nat.inj_mul. destruct (N.odd i); simpl; lia. }
        rewrite IH.
        * rewrite rpow_sq. rewrite Hn. destruct (N.odd i).
          -- rewrite rpow_add. simpl. ring.
          -- rewrite Nat.add_0_r. reflexivity.
        * cbn [Nat.pow] in Hlt. destruct (N.odd i); lia.
  Qed.

  Theorem mat_power_correct m p : mat_power R rI rmul m p = pw m (N.to_nat p).
  Proof.
    unfold mat_power. rewrite mat_power_loop_correct.
    - ring.
    - assert (forall n, (n < 2 ^ S n)%nat) as L.
      { induction n as [|n IHn]; simpl in *; lia. }
      apply L.
  Qed.

  Variable scal : Q -> R.

  (* the coupled invariant: H^p * Ad = M is preserved by every Newton step *)
  Theorem coupled_step p alpha Ad M H :
    (pw H p * Ad)%r = M ->
    let '(M', H') := newton_step R rI radd rmul scal p alpha (M, H) in (pw H' p * Ad)%r = M'.
  Proof.
    intro Hinv. unfold newton_step.
    set (Mi := radd (scal (1 - alpha)) (rmul (scal alpha) M)).
    rewrite rpow_mul_distr. rewrite <- Hinv. ring.
  Qed.

  Variable res : R -> Q.
  Hypothesis res_nonneg : forall x, 0 <= res x.

  Notation nst := (nstate R).

  (* loop invariant: H^p Ad = M; the error is the residual of M; Hold is the previous H and its
     residual is err / ratio (when the previous error was positive) or, initially, Hold = H. *)
  Definition inv (p : nat) (Ad : R) (s : nst) : Prop :=
    (pw (n_H R s) p * Ad)%r = n_M R s /\
    n_err R s == res (n_M R s) /\
    ((n_Hold R s = n_H R s /\ n_ratio R s == 1) \/
     (exists Mold, (pw (n_Hold R s) p * Ad)%r = Mold /\ 0 < res Mold /\
                   n_ratio R s == n_err R s / res Mold)).

  Lemma body_inv p alpha Ad tol iters s :
    inv p Ad s -> guard R iters tol s = true -> 0 <= tol ->
    inv p Ad (body R rI radd rmul scal res p alpha s).
  Proof.
    intros [H1 [H2 H3]] Hg Htol. unfold body.
    pose proof (coupled_step p alpha Ad (n_M R s) (n_H R s) H1) as Hc.
    destruct (newton_step R rI radd rmul scal p alpha (n_M R s, n_H R s)) as [M' H'].
    cbn [n_H n_M n_err n_Hold n_ratio]. split; [exact Hc | split; [reflexivity|]].
    right. exists (n_M R s). split; [exact H1|].
    unfold guard in Hg. apply andb_true_iff in Hg as [Hg _]. apply andb_true_iff in Hg as [_ Hg].
    destruct (Qlt_le_dec tol (n_err R s)) as [Hlt|]; [|discriminate].
    split; [lra | unfold Qdiv; apply Qmult_comp; [reflexivity | apply Qinv_comp; exact H2]].
  Qed.

  Lemma inner_inv p alpha Ad tol iters : 0 <= tol -> forall fuel s,
    inv p Ad s -> inv p Ad (inner R rI radd rmul scal res fuel iters tol p alpha s).
  Proof.
    intros Htol. induction fuel as [|f IH]; intros s Hs; [exact Hs|].
    cbn [inner]. destruct (guard R iters tol s) eqn:Hg; [|exact Hs].
    apply IH. eapply body_inv; eauto.
  Qed.

  (* Honesty of the reported error: whatever the blend selects, the residual of the returned
     matrix  X^p Ad - I  (measured by res) is at most the reported figure; it equals it when the
     iteration converged. *)
  Theorem newton_reported_error_honest p alpha Ad tol iters fuel s0 :
    0 <= tol -> inv p Ad s0 ->
    let s := inner R rI radd rmul scal res fuel iters tol p alpha s0 in
    let '(X, reported) := attempt_result R res s in
    res (pw X p * Ad)%r <= reported /\ (converged R s = true -> res (pw X p * Ad)%r == reported).
  Proof.
    intros Htol H0. pose proof (inner_inv p alpha Ad tol iters Htol fuel s0 H0) as [H1 [H2 H3]].
    set (s := inner R rI radd rmul scal res fuel iters tol p alpha s0) in *.
    unfold attempt_result. destruct (converged R s) eqn:Hc.
    - rewrite H1. split; [lra | intros _; reflexivity].
    - split; [|discriminate]. unfold converged in Hc.
      destruct (Qlt_le_dec (n_ratio R s) (12 # 10)) as [|Hge]; [discriminate|].
      destruct H3 as [[_ Hr] | [Mold [Ho [Hpos Hr]]]].
      + rewrite Hr in Hge. lra.
      + rewrite Ho. rewrite Hr in Hge. rewrite <- H2.
        assert (12 # 10 <= n_err R s / res Mold) by exact Hge.
        assert (Hm : (12 # 10) * res Mold <= n_err R s).
        { assert (E : n_err R s == (n_err R s / res Mold) * res Mold) by (field; lra).
          assert (L : (12 # 10) * res Mold <= (n_err R s / res Mold) * res Mold)
            by (apply Qmult_le_compat_r; [exact H | lra]).
          lra. }
        lra.
  Qed.

  (* masks: any property of ring elements closed under the operations the iteration uses (such as
     "zero outside the leading s x s block", with the masked identity as rI and scal q = q * rI)
     holds for every iterate *)
  Variable Pm : R -> Prop.
  Hypothesis Pm_mul : forall x y, Pm x -> Pm y -> Pm (x * y)%r.
  Hypothesis Pm_add : forall x y, Pm x -> Pm y -> Pm (x + y)%r.
  Hypothesis Pm_scal : forall q, Pm (scal q).
  Hypothesis Pm_one : Pm rI.

  Lemma Pm_pow x n : Pm x -> Pm (pw x n).
  Proof. intro H. induction n; simpl; auto. Qed.

  Theorem masked_closed p alpha tol iters : forall fuel s,
    Pm (n_M R s) -> Pm (n_H R s) -> Pm (n_Hold R s) ->
    let s' := inner R rI radd rmul scal res fuel iters tol p alpha s in
    Pm (n_M R s') /\ Pm (n_H R s') /\ Pm (n_Hold R s').
  Proof.
    induction fuel as [|f IH]; intros s HM HH HO; cbn [inner]; [auto|].
    destruct (guard R iters tol s); [|auto].
    apply IH; unfold body, newton_step; cbn [n_M n_H n_Hold].
    - apply Pm_mul; [apply Pm_pow; apply Pm_add; [apply Pm_scal | apply Pm_mul; [apply Pm_scal | exact HM]] | exact HM].
    - apply Pm_mul; [exact HH | apply Pm_add; [apply Pm_scal | apply Pm_mul; [apply Pm_scal | exact HM]]].
    - exact HH.
  Qed.
End Algebra.

(* ---------- retry loop ---------- *)
Section Retry.
  Local Close Scope Q_scope.
  Local Open Scope nat_scope.
  Variable A : Type.
  Variable attempt : nat -> A * Q.

  Definition failed_at (i : nat) : bool := if Qlt_le_dec (5 # 100)%Q (snd (attempt i)) then true else false.

  Lemma outer_false fuel i last tries : outer A attempt fuel i last false tries = (i, last).
  Proof. destruct fuel; reflexivity. Qed.

  Lemma outer_done fuel i last failed tries : (tries <= i)%nat ->
    outer A attempt fuel i last failed tries = (i, last).
  Proof.
    intro H. destruct fuel; [reflexivity|]. cbn [outer].
    replace (i <? tries)%nat with false by (symmetry; apply Nat.ltb_ge; lia).
    rewrite andb_false_r. reflexivity.
  Qed.

  (* The retry loop returns the result of its LAST attempt, number n-1, where n is the number of
     attempts made: all earlier attempts failed (error > 0.05) and the last one either succeeded
     or was the final allowed try. *)
  Theorem retry_result tries : forall fuel i last,
    (tries - i <= fuel)%nat -> (i < tries)%nat ->
    let '(n, r) := outer A attempt fuel i last true tries in
    (i < n <= tries)%nat /\ r = attempt (n - 1) /\
    (forall j, (i <= j < n - 1)%nat -> failed_at j = true) /\
    (failed_at (n - 1) = false \/ n = tries).
  Proof.
    induction fuel as [|f IH]; intros i last Hf Hi; [lia|].
    cbn [outer]. replace (i <? tries)%nat with true by (symmetry; apply Nat.ltb_lt; lia).
    cbn [andb]. fold (failed_at i).
    destruct (failed_at i) eqn:Ef.
    - destruct (Nat.lt_ge_cases (S i) tries) as [Hlt|Hge].
      + specialize (IH (S i) (attempt i) ltac:(lia) Hlt).
        destruct (outer A attempt f (S i) (attempt i) true tries) as [n r].
        destruct IH as [Hn [Hr [Hall Hlast]]]. split; [lia|]. split; [exact Hr|]. split; [|exact Hlast].
        intros j Hj. destruct (Nat.eq_dec j i) as [->|Hne]; [exact Ef | apply Hall; lia].
      + rewrite outer_done by lia. split; [lia|]. replace (S i - 1)%nat with i by lia.
        split; [reflexivity|]. split; [intros; lia | right; lia].
    - rewrite outer_false. split; [lia|]. replace (S i - 1)%nat with i by lia.
      split; [reflexivity|]. split; [intros; lia | left; exact Ef].
  Qed.
End Retry.

(* ---------- Rayleigh quotient never exceeds any upper bound of the form ---------- *)
Theorem rayleigh_le_lmax (A : list (list Q)) (v : list Q) (lam : Q) :
  0 < dot v v -> (forall x, length x = length v -> qf A x <= lam * dot x x) ->
  qf A v / dot v v <= lam.
Proof.
  intros Hv Hub. apply Qle_shift_div_r; [exact Hv|]. apply Hub. reflexivity.
Qed.

(* 1x1 branch: X = (a + d)^(-1/p) given by a root oracle, exact residual zero *)
Theorem one_by_one (p : positive) (x a d : Q) :
  0 < x /\ x ^ (Zpos p) * (a + d) == 1 -> x ^ (Zpos p) * (a + d) - 1 == 0.
Proof. intros [_ H]. rewrite H. ring. Qed.

(* ---------- eigh variant: exact residual identity (non-commutative) ---------- *)
(* X = U f(E) U^T with f(E)^p E = I.  If the computed decomposition has residual R, i.e.
   U^T Ad U = E + R with U orthogonal, then  X^p Ad = I + U f(E)^p R U^T : the error of the returned
   root is the eigen-residual R (which is what the routine reports, max|R|) amplified by
   f(E)^p = E^-1, i.e. by 1/lambda_min(Ad) — the regularised condition number in the slack. *)
Section EighResidual.
  Variable M : Type.
  Variables (mul add : M -> M -> M) (one : M).
  Hypothesis mul_assoc : forall a b c, mul a (mul b c) = mul (mul a b) c.
  Hypothesis mul_1_l : forall a, mul one a = a.
  Hypothesis mul_1_r : forall a, mul a one = a.
  Hypothesis distr_l : forall a b c, mul a (add b c) = add (mul a b) (mul a c).
  Hypothesis distr_r : forall a b c, mul (add a b) c = add (mul a c) (mul b c).

  Theorem eigh_residual_identity (U Ut E R Fp Ad Xp : M) :
    mul U Ut = one -> mul Ut U = one ->
    mul Fp E = one ->
    mul (mul Ut Ad) U = add E R ->
    Xp = mul (mul U Fp) Ut ->
    mul Xp Ad = add one (mul (mul (mul U Fp) R) Ut).
  Proof.
    intros HUUt HUtU HFE HT HX.
    assert (HAd : Ad = mul (mul U (add E R)) Ut).
    { rewrite <- HT. rewrite !mul_assoc. rewrite HUUt, mul_1_l.
      rewrite <- (mul_assoc Ad U Ut). rewrite HUUt, mul_1_r. reflexivity. }
    rewrite HX. rewrite HAd at 1.
    rewrite !mul_assoc.
    rewrite <- (mul_assoc (mul U Fp) Ut U). rewrite HUtU, mul_1_r.
    rewrite <- (mul_assoc U Fp (add E R)). rewrite distr_l, HFE.
    rewrite distr_l, mul_1_r. rewrite distr_r. rewrite HUUt. rewrite !mul_assoc. reflexivity.
  Qed.
End EighResidual.

(* ---------- non-vacuity: the loop invariant is satisfiable (ring Z, scalars floored) ---------- *)
Example inv_satisfiable :
  inv Z 1%Z Z.mul (fun x => inject_Z (Z.abs (x - 1))) 1 3%Z
      (mkn Z 0 6%Z 2%Z 2%Z (inject_Z 5) 1).
Proof.
  unfold inv. cbn [n_H n_M n_err n_Hold n_ratio rpow]. split; [reflexivity|]. split; [reflexivity|].
  left. split; reflexivity.
Qed.

Example honest_on_example :
  let s := inner Z 1%Z Z.add Z.mul (fun q => Qfloor q) (fun x => inject_Z (Z.abs (x - 1)))
                 3 100 (1 # 1000000) 1 (- (1)) (mkn Z 0 6%Z 2%Z 2%Z (inject_Z 5) 1) in
  let '(X, reported) := attempt_result Z (fun x => inject_Z (Z.abs (x - 1))) s in
  inject_Z (Z.abs (X * 3 - 1)) <= reported.
Proof. vm_compute. discriminate. Qed.
