(* C01/Check.v — run-time checks evaluated by vm_compute on exact dyadics. *)
From Precond Require Import Base.PyLib Base.QMat Base.PyFloat Base.PsdCheck Base.PsdRound C09.Check C01.Ref.
Open Scope Q_scope.

(* masked identity: ones on the first s diagonal entries *)
Definition eye_masked (n s : nat) : mat :=
  map (fun i => map (fun j => if Nat.eqb i j && Nat.ltb i s then 1 else 0) (seq 0 n)) (seq 0 n).

Definition res_id (n s : nat) (M : mat) : Q := maxabs (msub M (eye_masked n s)).

(* one recorded Newton transition  pre -> post  is a tol-approximate execution of the TRANSLATED loop
   body (C01.Ref.newton_iter_body, i.e. Mi = (1-a) I + a M;  M' = Mi^p M;  H' = H Mi;
   err' = max|M' - I|;  ratio' = err'/err) computed exactly from the recorded pre-state *)
Definition newton_transition_ok (tol : Q) (n s : nat) (p : positive) (a : Q)
           (i : Z) (M H : mat) (err : Q) (M' H' Hold' : mat) (err' ratio' : Q) (i' : Z) : bool :=
  let '(im, Mp, Hp, Holdp, errp, ratiop) :=
      newton_iter_body a (eye_masked n s) p (i, M, H, H, err, 1) in
  let scm := Qmax 1 (Qmax (maxabs Mp) (maxabs M')) in
  let sch := Qmax (maxabs Hp) (maxabs H') in
  (im =? i')%Z &&
  mclose (tol * scm * inject_Z (Zpos p)) Mp M' && mclose (tol * sch) Hp H' &&
  mclose 0 Holdp Hold' &&
  qclose (tol * scm) (res_id n s M') err' &&
  (* the recorded ratio is err'/err of the recorded (float) errors *)
  qclose (tol * Qmax 1 (Qabs ratio')) (err' / err) ratio'.

(* loop guard replayed exactly on the recorded floats, through the TRANSLATED condition *)
Definition guard_s (iters i : Z) (tol maxr err ratio : Q) : bool :=
  newton_iter_condition iters tol maxr (i, [], [], [], err, ratio).

(* certificate for a returned root *)
Definition zero_outside (s : nat) (X : mat) : bool :=
  forallb (fun '(i, r) => forallb (fun '(j, x) => if Nat.ltb i s && Nat.ltb j s then true else Qeq_bool x 0)
                                  (combine (seq 0 (length r)) r))
          (combine (seq 0 (length X)) X).
Definition sym_ok (tau : Q) (X : mat) : bool := mclose (tau * maxabs X) X (transpose X).

Definition cert_residual (n s : nat) (p : positive) (X A : mat) (d : Q) : Q :=
  res_id n s (mmul (mpow_pos X p) (madd A (mscale d (eye_masked n s)))).

(* 0 ok; 1 not zero on padding; 2 not symmetric; 3 residual exceeds err + slack *)
Definition root_cert (tau_sym slack err d : Q) (n s : nat) (p : positive) (X A : mat) : Z :=
  if negb (is_square n X && zero_outside s X) then 1%Z
  else if negb (sym_ok tau_sym X) then 2%Z
  else if negb (Qleb (cert_residual n s p X A d) (err + slack)) then 3%Z
  else 0%Z.

(* largest-eigenvalue estimate: c <= lam_ub * (1 + eps) where lam_ub is CERTIFIED to dominate the
   form ( lam_ub I - A PSD by the verified checker ) *)
Definition maxev_ok (eps c lam_ub : Q) (n : nat) (A : mat) : bool :=
  psd_any (pick_q n (eps * Qmax lam_ub (1 # 1000000000000000000000000000000)))
          n (add_ridge lam_ub (mscale (-(1)) A)) &&
  Qleb c (lam_ub * (1 + eps)).

(* Rayleigh quotient of the recorded (normalised) iterate: s_new ~ v.(A v) / v.v *)
Definition rayleigh_ok (tol : Q) (A : mat) (v : vec) (c : Q) : bool :=
  qclose (tol * Qmax 1 (Qabs c) * dot v v) (dot v (mv A v)) (c * dot v v).
