(* C01/Model.v — matrix inverse p-th root routines, definitions only.

   Every iterate of the coupled Newton iteration is a polynomial in the damped matrix Ad, so the
   iteration lives in a COMMUTATIVE ring (the subalgebra Q[Ad]); the algebraic model is therefore
   stated over an arbitrary commutative ring R (Section variables + ring_theory, no axioms).  The
   scalar bookkeeping (error, error ratio, retry loop) is over Q with "max-abs deviation from the
   identity" an uninterpreted function res : R -> Q. *)
From Coq Require Import QArith Qminmax ZArith List Ring.
Import ListNotations.
Open Scope Q_scope.

Section Algebra.
  Variable R : Type.
  Variables (rO rI : R) (radd rmul rsub : R -> R -> R) (ropp : R -> R).

  Fixpoint rpow (x : R) (n : nat) : R :=
    match n with O => rI | S n' => rmul x (rpow x n') end.

  (* mat_power: binary exponentiation loop  (i, power, mat) -> ...  with fuel *)
  Fixpoint mat_power_loop (fuel : nat) (i : N) (power mat : R) : R :=
    match fuel with
    | O => power
    | S f =>
      if N.eqb i 0 then power
      else
        let power' := if N.odd i then rmul mat power else power in
        mat_power_loop f (N.div2 i) power' (rmul mat mat)
    end.
  Definition mat_power (m : R) (p : N) : R := mat_power_loop (S (N.to_nat p)) p rI m.

  (* one coupled Newton step; a = -1/p as a ring element acting by multiplication (scalar * I) *)
  Variable scal : Q -> R.           (* q |-> q * I *)
  Definition newton_step (p : nat) (alpha : Q) (MH : R * R) : R * R :=
    let '(M, H) := MH in
    let Mi := radd (scal (1 - alpha)) (rmul (scal alpha) M) in
    (rmul (rpow Mi p) M, rmul H Mi).

  Variable res : R -> Q.            (* max |entries of (x - I)| *)

  (* inner loop state: (i, M, H, Hold, err, ratio) *)
  Record nstate := mkn { n_i : nat; n_M : R; n_H : R; n_Hold : R; n_err : Q; n_ratio : Q }.

  Definition guard (iters : nat) (tol : Q) (s : nstate) : bool :=
    Nat.ltb (n_i s) iters &&
    (if Qlt_le_dec tol (n_err s) then true else false) &&
    (if Qlt_le_dec (n_ratio s) (12 # 10) then true else false).

  Definition body (p : nat) (alpha : Q) (s : nstate) : nstate :=
    let '(M', H') := newton_step p alpha (n_M s, n_H s) in
    let e' := res M' in
    mkn (S (n_i s)) M' H' (n_H s) e' (e' / n_err s).

  Fixpoint inner (fuel : nat) (iters : nat) (tol : Q) (p : nat) (alpha : Q) (s : nstate) : nstate :=
    match fuel with
    | O => s
    | S f => if guard iters tol s then inner f iters tol p alpha (body p alpha s) else s
    end.

  (* result of one attempt: blend + reported error *)
  Definition converged (s : nstate) : bool := if Qlt_le_dec (n_ratio s) (12 # 10) then true else false.
  Definition attempt_result (s : nstate) : R * Q :=
    ((if converged s then n_H s else n_Hold s), res (n_M s)).
End Algebra.

(* ---------- retry loop (scalars only) ---------- *)
(* attempt i uses ridge eps * 10^i and yields an error; loop while the error exceeds 0.05 and
   i < num_tries; returns (i + 1, result of the last attempt). *)
Section Retry.
  Variable A : Type.
  Variable attempt : nat -> A * Q.          (* attempt number |-> (result, error) *)
  Fixpoint outer (fuel : nat) (i : nat) (last : A * Q) (failed : bool) (tries : nat) : nat * (A * Q) :=
    match fuel with
    | O => (i, last)
    | S f =>
      if failed && Nat.ltb i tries then
        let r := attempt i in
        outer f (S i) r (if Qlt_le_dec (5 # 100) (snd r) then true else false) tries
      else (i, last)
    end.
End Retry.

Definition ridge_used (eps maxev : Q) (retries : nat) : Q :=
  eps * Qmax maxev (1 # 10 ^ 25) * inject_Z (10 ^ Z.of_nat (retries - 1)).
