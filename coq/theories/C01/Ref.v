(* C01/Ref.v — stable reference copy of the translator's output (tools/py2v_float.py) for the two
   closures of distributed_shampoo.matrix_inverse_pth_root that make up the coupled Newton loop:
   _iter_body and _iter_condition.  The trace simulation checks every recorded loop transition and
   guard decision against THESE functions; on every run the fresh translation (coq/gen/C01/Gen.v) must
   be equal to them (obligations GenEq_newton_*, by reflexivity).  Definitions only. *)
From Precond Require Import Base.PyLib Base.QMat Base.PyFloat.
Open Scope Q_scope.

Definition newton_iter_body (alpha : Q) (identity : (list (list Q))) (p : positive) (state : Z * (list (list Q)) * (list (list Q)) * (list (list Q)) * Q * Q) : Z * (list (list Q)) * (list (list Q)) * (list (list Q)) * Q * Q :=
(let '(i, mat_m, mat_h, unused_old_mat_h, error, unused_error_ratio) := state in
(let mat_m_i := (madd (mscale (Qminus (inject_Z 1) alpha) identity) (mscale alpha mat_m)) in
(let new_mat_m := (mmul (mpow_pos mat_m_i p) mat_m) in
(let new_mat_h := (mmul mat_h mat_m_i) in
(let new_error := (maxabs (msub new_mat_m identity)) in
((i + 1)%Z, new_mat_m, new_mat_h, mat_h, new_error, (Qdiv new_error error))))))).

Definition newton_iter_condition (num_iters : Z) (error_tolerance : Q) (max_error_ratio : Q) (state : Z * (list (list Q)) * (list (list Q)) * (list (list Q)) * Q * Q) : bool :=
(let '(i, unused_mat_m, unused_mat_h, unused_old_mat_h, error, error_ratio) := state in
(let error_above_threshold := ((Qltb error_tolerance error) && (Qltb error_ratio max_error_ratio)) in
((i <? num_iters)%Z && error_above_threshold))).

