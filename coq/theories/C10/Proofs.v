(* C10/Proofs.v — pack/unpack are mutually inverse; the compressed application equals the dense
   mode product; _low_rank_root denotes the spectral sum with the non-retained weights replaced by
   their mean.  All statements are for ALL sizes d, ranks r and (for the apply theorem) all tensor
   ranks (the trailing axes are an arbitrary index type).  No axioms. *)
From Coq Require Import ZArith QArith Qminmax Lqa List Bool Lia ZifyBool.
From Precond Require Import Base.PyLib C06.Ref C10.Sums C10.Model.
Open Scope Z_scope.

(* ------------------------------------------------------------------------------------------- *)
(* _precond_dim / _should_compress (C06.Ref, regenerated from source)                           *)
(* ------------------------------------------------------------------------------------------- *)
Lemma precond_dim_consistent_l cr d :
  should_compress cr d = true <-> (precond_dim cr d = Z.abs cr + 2 /\ Z.abs cr + 2 < d).
Proof.
  unfold should_compress, precond_dim, truthy_z.
  destruct (Z.eqb_spec cr 0) as [->|Hc]; simpl.
  - split; [discriminate|]. intros [H1 H2]. simpl in *. lia.
  - destruct (Z.abs cr + 2 >=? d) eqn:E; split; intro H; try lia.
Qed.

Lemma pack_ok_iff_should_compress cr d : cr <> 0 ->
  fd_pack_ok d cr = should_compress cr d.
Proof.
  intro Hc. unfold fd_pack_ok, should_compress, precond_dim, truthy_z.
  destruct (Z.eqb_spec (Z.abs cr) 0); [lia|]. simpl.
  rewrite Z.abs_involutive.
  destruct (Z.eqb_spec cr 0); [lia|]. simpl.
  destruct (Z.abs cr + 2 >=? d) eqn:E; lia.
Qed.

Lemma unpack_ok_iff_should_compress cr d :
  fd_unpack_ok d (precond_dim cr d) cr = should_compress cr d.
Proof.
  unfold fd_unpack_ok, should_compress, precond_dim, truthy_z.
  destruct (Z.eqb_spec cr 0) as [->|Hc]; simpl; [reflexivity|].
  destruct (Z.eqb_spec (Z.abs cr) 0); [lia|]. simpl.
  destruct (Z.abs cr + 2 >=? d) eqn:E; lia.
Qed.

(* ------------------------------------------------------------------------------------------- *)
(* pack / unpack                                                                                *)
(* ------------------------------------------------------------------------------------------- *)
Ltac split_ifs :=
  repeat match goal with
         | |- context [if ?b then _ else _] => destruct b eqn:?
         end.

Section PackProofs.
  Context {A : Type}.
  Variable zero : A.
  Variable of_bool : bool -> A.
  Variable to_bool : A -> bool.
  Hypothesis to_of : forall b, to_bool (of_bool b) = b.

  (* slot disjointness: needs exactly r + 2 <= d (implied by the code's |r| + 2 < d) *)
  Lemma unpack_pack_id_l d cr (F : fields A) :
    let r := Z.abs cr in
    0 < r -> r + 2 <= d ->
    let F' := fd_unpack to_bool d cr (fd_pack zero of_bool d cr F) in
    (forall i j, 0 <= i < d -> 0 <= j < r -> f_vecs F' i j = f_vecs F i j) /\
    (forall k, 0 <= k < r -> f_defl F' k = f_defl F k) /\
    (forall k, 0 <= k < r -> f_inv F' k = f_inv F k) /\
    f_const F' = f_const F /\ f_tail F' = f_tail F /\ f_hz F' = f_hz F.
  Proof.
    intros r Hr Hd. unfold fd_unpack, fd_pack. cbn [f_vecs f_defl f_inv f_const f_tail f_hz].
    fold r.
    repeat split.
    - intros i j Hi Hj. split_ifs; try lia; reflexivity.
    - intros k Hk. split_ifs; try lia. f_equal. lia.
    - intros k Hk. split_ifs; try lia; reflexivity.
    - split_ifs; try lia; reflexivity.
    - split_ifs; try lia; reflexivity.
    - split_ifs; try lia. apply to_of.
  Qed.

  Lemma pack_unpack_id_on_image_l d cr (P : Z -> Z -> A) :
    let r := Z.abs cr in
    0 < r -> r + 2 <= d ->
    (forall i j, 0 <= i < d -> unused_slot d r i j = true -> P i j = zero) ->
    of_bool (to_bool (P (d - 1) r)) = P (d - 1) r ->
    forall i j, 0 <= i < d -> 0 <= j < r + 2 ->
      fd_pack zero of_bool d cr (fd_unpack to_bool d cr P) i j = P i j.
  Proof.
    intros r Hr Hd Hun Hhz i j Hi Hj. unfold fd_unpack, fd_pack.
    cbn [f_vecs f_defl f_inv f_const f_tail f_hz]. fold r.
    split_ifs; try lia.
    - replace i with (d - 1) by lia. replace j with r by lia. exact Hhz.
    - f_equal; lia.
    - f_equal; lia.
    - f_equal; lia.
    - f_equal; lia.
    - reflexivity.
    - symmetry. apply Hun; [lia|]. unfold unused_slot. lia.
  Qed.

  (* every packed matrix produced by fd_pack is in that image *)
  Lemma pack_image d cr (F : fields A) :
    let r := Z.abs cr in
    0 < r -> r + 2 <= d ->
    let P := fd_pack zero of_bool d cr F in
    (forall i j, 0 <= i < d -> unused_slot d r i j = true -> P i j = zero) /\
    of_bool (to_bool (P (d - 1) r)) = P (d - 1) r.
  Proof.
    intros r Hr Hd P. unfold P, fd_pack, unused_slot. fold r. split.
    - intros i j Hi Hu. split_ifs; try lia; reflexivity.
    - split_ifs; try lia. rewrite to_of. reflexivity.
  Qed.
End PackProofs.

(* the bound is tight: at d = r + 1 the tail slot [1,-1] is overwritten by deflated_eigs[-r:] *)
Lemma unpack_pack_needs_bound :
  exists (d cr : Z) (F : fields Z), Z.abs cr + 1 = d /\
    f_tail (fd_unpack z_to_bool d cr (fd_pack 0 z_of_bool d cr F)) <> f_tail F.
Proof.
  exists 2, 1, (mkFields (fun _ _ => 0) (fun _ => 7) (fun _ => 0) 0 5 false).
  split; [reflexivity|]. vm_compute. discriminate.
Qed.

(* ------------------------------------------------------------------------------------------- *)
(* compressed application == dense mode product (ring identity, no orthogonality)                *)
(* ------------------------------------------------------------------------------------------- *)
Open Scope Q_scope.

Lemma sum_assoc d r (a : Z -> Q) (b : Z -> Z -> Q) (w : Z -> Q) :
  sumZ r (fun k => sumZ d (fun i => a i * b i k) * w k) ==
  sumZ d (fun i => a i * sumZ r (fun k => b i k * w k)).
Proof.
  rewrite (sumZ_ext r _ (fun k => sumZ d (fun i => a i * b i k * w k))).
  2:{ intros k _. rewrite <- sumZ_scal_r. reflexivity. }
  rewrite sumZ_swap. apply sumZ_ext. intros i _.
  rewrite <- sumZ_scal_l. apply sumZ_ext. intros k _. ring.
Qed.

Lemma sum_delta_r d j (a : Z -> Q) : (0 <= j < d)%Z ->
  sumZ d (fun i => a i * delta i j) == a j.
Proof.
  intro H. rewrite <- (sumZ_delta d j a H). apply sumZ_ext. intros i _.
  unfold delta. destruct (i =? j)%Z; ring.
Qed.

Section ApplyProofs.
  Context {T : Type}.
  Variables (d r : Z) (V : Z -> Z -> Q) (e : Z -> Q) (c : Q) (g : Z -> T -> Q).

  Lemma lr_new_is_dense rest j : (0 <= j < d)%Z ->
    lr_new d r V e c g rest j == mode0 d g (dense_of r V e c) rest j.
  Proof.
    intro Hj. unfold lr_new, lr_complement, lr_component, lr_scaled, lr_basis, mode0, dense_of.
    (* right-hand side, term by term *)
    rewrite (sumZ_ext d (fun i => g i rest *
                 (c * (delta i j - sumZ r (fun k => V i k * V j k)) +
                  sumZ r (fun k => V i k * e k * V j k)))
             (fun i => (c * (g i rest * delta i j) -
                        c * (g i rest * sumZ r (fun k => V i k * V j k))) +
                       g i rest * sumZ r (fun k => V i k * (e k * V j k)))).
    2:{ intros i _.
        rewrite (sumZ_ext r (fun k => V i k * e k * V j k) (fun k => V i k * (e k * V j k)))
          by (intros; ring).
        ring. }
    rewrite sumZ_add, sumZ_sub, !sumZ_scal_l.
    rewrite (sum_delta_r d j (fun i => g i rest) Hj).
    rewrite <- (sum_assoc d r (fun i => g i rest) V (fun k => V j k)).
    rewrite <- (sum_assoc d r (fun i => g i rest) V (fun k => e k * V j k)).
    rewrite (sumZ_ext r (fun k => sumZ d (fun i => g i rest * V i k) * e k * V j k)
                        (fun k => sumZ d (fun i => g i rest * V i k) * (e k * V j k)))
      by (intros; ring).
    ring.
  Qed.

  Lemma mode0_delta rest j : (0 <= j < d)%Z -> mode0 d g delta rest j == g j rest.
  Proof. intro Hj. unfold mode0. apply (sum_delta_r d j (fun i => g i rest) Hj). Qed.

  Lemma apply_lowrank_is_dense skip rest j : (0 <= j < d)%Z ->
    apply_lowrank d r V e c skip g rest j ==
    mode0 d g (if skip then delta else dense_of r V e c) rest j.
  Proof.
    intro Hj. unfold apply_lowrank. destruct skip.
    - symmetry. apply mode0_delta; assumption.
    - apply lr_new_is_dense; assumption.
  Qed.
End ApplyProofs.

Lemma apply_packed_is_dense_l {T} d cr P (g : Z -> T -> Q) rest j : (0 <= j < d)%Z ->
  apply_packed d cr P g rest j == mode0 d g (dense_of_packed d cr P) rest j.
Proof.
  intro Hj. unfold apply_packed, dense_of_packed, low_rank_unpack.
  apply apply_lowrank_is_dense; assumption.
Qed.

Lemma has_zeros_is_identity_l {T} d cr P (g : Z -> T -> Q) rest j :
  q_to_bool (P (d - 1)%Z (Z.abs cr)) = true ->
  apply_packed d cr P g rest j = g j rest.
Proof.
  intro H. unfold apply_packed, low_rank_unpack, fd_unpack, apply_lowrank.
  cbn [f_vecs f_inv f_const f_hz]. rewrite H. reflexivity.
Qed.

(* ------------------------------------------------------------------------------------------- *)
(* _low_rank_root                                                                               *)
(* ------------------------------------------------------------------------------------------- *)
Section RootProofs.
  Variables (d cr ps : Z) (ridge : Q) (ev : Z -> Q) (U : Z -> Z -> Q) (rootp : Q -> Q).
  Let r := Z.abs cr.
  Hypothesis Hr : (0 < r)%Z.
  Hypothesis Hd : (r + 2 <= d)%Z.
  Hypothesis Hps : (r <= ps <= d)%Z.       (* the retained directions are unpadded ones *)
  (* eigh answer: the eigenvector matrix is orthogonal (U U' = I) *)
  Hypothesis U_complete : forall i j, (0 <= i < d)%Z -> (0 <= j < d)%Z ->
    sumZ d (fun k => U i k * U j k) == delta i j.

  Lemma perm_range k : (0 <= k < d)%Z -> (0 <= perm d cr ps k < d)%Z.
  Proof.
    intro Hk. unfold perm. destruct (cr <? 0)%Z; [apply Z.mod_pos_bound|]; lia.
  Qed.

  Lemma sum_perm (F : Z -> Q) : sumZ d (fun k => F (perm d cr ps k)) == sumZ d F.
  Proof.
    unfold perm. destruct (cr <? 0)%Z.
    - apply (sumZ_roll d (d - ps) F). lia.
    - apply (sumZ_flip d F).
  Qed.

  Lemma kept_perm k : (0 <= k < d)%Z -> kept d cr ps (perm d cr ps k) = (k <? r)%Z.
  Proof.
    intro Hk. unfold kept, perm, split_ix. fold r. destruct (cr <? 0)%Z.
    - destruct (Z_lt_dec k ps) as [Hlt|Hge].
      + rewrite Z.mod_small by lia. lia.
      + replace (k + (d - ps))%Z with ((k - ps) + 1 * d)%Z by lia.
        rewrite Z.mod_add by lia. rewrite Z.mod_small by lia. lia.
    - lia.
  Qed.

  Lemma low_rank_root_denotes_l i j : (0 < ps)%Z -> (0 <= i < d)%Z -> (0 <= j < d)%Z ->
    dense_of_packed d cr (low_rank_root d cr ps ridge ev U rootp) i j ==
    sumZ d (fun k => root_weight d cr ps ridge ev rootp k * U i k * U j k).
  Proof.
    intros Hps0 Hi Hj.
    set (c := root_const d cr ps ridge ev rootp).
    set (ie := inv_e' d cr ps ridge ev rootp).
    set (V := U' d cr ps U).
    (* 1. unpack (pack fields) = fields *)
    assert (E1 : dense_of_packed d cr (low_rank_root d cr ps ridge ev U rootp) i j ==
                 dense_of r V ie c i j).
    { unfold low_rank_root. destruct (Z.eqb_spec ps 0) as [E|_]; [lia|].
      fold c ie V.
      pose proof (unpack_pack_id_l 0 q_of_bool q_to_bool
                    ltac:(intros [|]; reflexivity) d cr
                    (mkFields V (fun _ => 0) ie c 0 false) Hr Hd) as H.
      cbv zeta in H. destruct H as (Hv & _ & Hi' & Hc & _ & Hz).
      cbn [f_vecs f_inv f_const f_hz] in Hv, Hi', Hc, Hz.
      unfold dense_of_packed, low_rank_unpack, low_rank_pack. cbv zeta beta iota.
      set (P := fd_pack 0 q_of_bool d cr (mkFields V (fun _ => 0) ie c 0 false)) in *.
      change (fun i0 j0 : Z => P i0 j0) with P.
      rewrite Hz. unfold dense_of. fold r. rewrite Hc.
      rewrite (sumZ_ext r _ (fun k => V i k * V j k)).
      2:{ intros k Hk. rewrite !Hv by lia. reflexivity. }
      rewrite (sumZ_ext r (fun k => _ * _ * _) (fun k => V i k * ie k * V j k)).
      2:{ intros k Hk. rewrite !Hv, Hi' by lia. reflexivity. }
      reflexivity. }
    rewrite E1. clear E1. unfold dense_of.
    (* 2. delta = sum over all permuted columns; split at r *)
    assert (E2 : delta i j == sumZ d (fun k => V i k * V j k)).
    { unfold V, U'. rewrite (sum_perm (fun m => U i m * U j m)). symmetry. apply U_complete; assumption. }
    rewrite E2.
    assert (Ed : forall F, sumZ d F == sumZ (r + (d - r)) F).
    { intro F. replace (r + (d - r))%Z with d by lia. reflexivity. }
    rewrite (Ed (fun k => V i k * V j k)), sumZ_split by lia.
    (* 3. right-hand side through the same permutation and split *)
    rewrite <- (sum_perm (fun k => root_weight d cr ps ridge ev rootp k * U i k * U j k)).
    rewrite (Ed (fun k => _ * _ * _)), sumZ_split by lia.
    rewrite (sumZ_ext r (fun k => root_weight d cr ps ridge ev rootp (perm d cr ps k) *
                                  U i (perm d cr ps k) * U j (perm d cr ps k))
                        (fun k => V i k * ie k * V j k)).
    2:{ intros k Hk. unfold root_weight. rewrite kept_perm by lia.
        replace (k <? r)%Z with true by lia. unfold V, U', ie, inv_e'. ring. }
    rewrite (sumZ_ext (d - r) (fun k => root_weight d cr ps ridge ev rootp (perm d cr ps (r + k)) *
                                        U i (perm d cr ps (r + k)) * U j (perm d cr ps (r + k)))
                              (fun k => c * (V i (r + k)%Z * V j (r + k)%Z))).
    2:{ intros k Hk. unfold root_weight. rewrite kept_perm by lia.
        replace (r + k <? r)%Z with false by lia. unfold V, U'. fold c. ring. }
    rewrite sumZ_scal_l. ring.
  Qed.

  (* padding_start = 0: the whole packed matrix is zero *)
  Lemma low_rank_root_all_padding i j : ps = 0%Z ->
    low_rank_root d cr ps ridge ev U rootp i j = 0.
  Proof. intro E. unfold low_rank_root. rewrite E. reflexivity. Qed.

  (* With orthonormal columns (U'U = I), the denoted matrix has the eigenpairs (weight m, u_m). *)
  Hypothesis U_orthonormal : forall k m, (0 <= k < d)%Z -> (0 <= m < d)%Z ->
    sumZ d (fun i => U i k * U i m) == delta k m.

  Lemma denoted_eigpairs (w : Z -> Q) m i : (0 <= m < d)%Z ->
    sumZ d (fun j => sumZ d (fun k => w k * U i k * U j k) * U j m) == w m * U i m.
  Proof.
    intro Hm.
    rewrite (sumZ_ext d _ (fun j => sumZ d (fun k => (w k * U i k) * U j k * U j m))).
    2:{ intros j _. rewrite <- sumZ_scal_r. apply sumZ_ext. intros; ring. }
    rewrite sumZ_swap.
    rewrite (sumZ_ext d _ (fun k => (w k * U i k) * delta k m)).
    2:{ intros k Hk. rewrite <- (U_orthonormal k m Hk Hm). rewrite <- sumZ_scal_l.
        apply sumZ_ext. intros; ring. }
    apply (sum_delta_r d m (fun k => w k * U i k) Hm).
  Qed.

  (* the kept weights are exact inverse p-th roots of the (ridge-clamped) eigenvalues, whenever the
     power kernel meets root_spec AT that eigenvalue (over Q no function is an exact p-th root
     everywhere, so the hypothesis is pointwise) *)
  Lemma inv_e_is_root (p : positive) k :
    let x := Qmax (ev_masked d ps ev k) ridge in
    (0 < rootp x /\ Qpower (rootp x) (Zpos p) * x == 1) ->
    ~ ev_masked d ps ev k == 0 ->
    0 < inv_e d ps ridge ev rootp k /\
    Qpower (inv_e d ps ridge ev rootp k) (Zpos p) * x == 1.
  Proof.
    intros x Hroot Hnz. unfold inv_e.
    destruct (Qeq_bool (ev_masked d ps ev k) 0) eqn:E.
    - apply Qeq_bool_iff in E. contradiction.
    - exact Hroot.
  Qed.
End RootProofs.

(* the hypotheses on the eigenvector matrix are satisfiable for every size (U = I) *)
Lemma eigh_hypotheses_satisfiable_l d :
  (forall i j, (0 <= i < d)%Z -> (0 <= j < d)%Z -> sumZ d (fun k => delta i k * delta j k) == delta i j) /\
  (forall k m, (0 <= k < d)%Z -> (0 <= m < d)%Z -> sumZ d (fun i => delta i k * delta i m) == delta k m).
Proof.
  split.
  - intros i j Hi Hj.
    rewrite (sumZ_ext d _ (fun k => delta i k * delta k j)).
    2:{ intros k _. unfold delta. rewrite (Z.eqb_sym j k). reflexivity. }
    apply (sum_delta_r d j (fun k => delta i k) Hj).
  - intros k m Hk Hm.
    rewrite (sumZ_ext d _ (fun i => delta k i * delta i m)).
    2:{ intros i _. unfold delta. rewrite (Z.eqb_sym i k). reflexivity. }
    apply (sum_delta_r d m (fun i => delta k i) Hm).
Qed.
