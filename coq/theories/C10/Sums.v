(* C10/Sums.v — finite sums over Q indexed by Z ranges [0, n), with the algebra needed for the
   ring identities of C10 (linearity, Fubini, Kronecker delta, split, flip, roll).  No axioms. *)
From Coq Require Import ZArith QArith Lqa Lia.
Open Scope Q_scope.

Fixpoint sumn (n : nat) (f : nat -> Q) : Q :=
  match n with O => 0 | S m => sumn m f + f m end.

(* sum_{0 <= k < n} f k   (0 when n <= 0) *)
Definition sumZ (n : Z) (f : Z -> Q) : Q := sumn (Z.to_nat n) (fun k => f (Z.of_nat k)).

Lemma sumn_ext n f g : (forall k, (k < n)%nat -> f k == g k) -> sumn n f == sumn n g.
Proof.
  induction n as [|n IH]; intro H; simpl; [reflexivity|].
  rewrite IH, (H n) by (intros; try apply H; lia). reflexivity.
Qed.

Lemma sumn_zero n f : (forall k, (k < n)%nat -> f k == 0) -> sumn n f == 0.
Proof.
  induction n as [|n IH]; intro H; simpl; [reflexivity|].
  rewrite IH, (H n) by (intros; try apply H; lia). lra.
Qed.

Lemma sumn_add n f g : sumn n (fun k => f k + g k) == sumn n f + sumn n g.
Proof. induction n as [|n IH]; simpl; [lra|]. rewrite IH. lra. Qed.

Lemma sumn_sub n f g : sumn n (fun k => f k - g k) == sumn n f - sumn n g.
Proof. induction n as [|n IH]; simpl; [lra|]. rewrite IH. lra. Qed.

Lemma sumn_scal_l n c f : sumn n (fun k => c * f k) == c * sumn n f.
Proof. induction n as [|n IH]; simpl; [lra|]. rewrite IH. lra. Qed.

Lemma sumn_scal_r n c f : sumn n (fun k => f k * c) == sumn n f * c.
Proof. induction n as [|n IH]; simpl; [lra|]. rewrite IH. lra. Qed.

Lemma sumn_swap n m (f : nat -> nat -> Q) :
  sumn n (fun i => sumn m (fun j => f i j)) == sumn m (fun j => sumn n (fun i => f i j)).
Proof.
  induction n as [|n IH]; simpl.
  - symmetry. apply sumn_zero. intros; reflexivity.
  - rewrite IH. rewrite <- sumn_add. reflexivity.
Qed.

Lemma sumn_delta n j (f : nat -> Q) : (j < n)%nat ->
  sumn n (fun k => if Nat.eqb k j then f k else 0) == f j.
Proof.
  induction n as [|n IH]; intro H; [lia|]. simpl.
  destruct (Nat.eqb n j) eqn:E.
  - apply Nat.eqb_eq in E. subst.
    rewrite sumn_zero; [lra|]. intros k Hk.
    destruct (Nat.eqb k j) eqn:E2; [apply Nat.eqb_eq in E2; lia | reflexivity].
  - apply Nat.eqb_neq in E. rewrite IH by lia. lra.
Qed.

Lemma sumn_split n m f : sumn (n + m) f == sumn n f + sumn m (fun k => f (n + k)%nat).
Proof.
  induction m as [|m IH]; simpl.
  - rewrite Nat.add_0_r. lra.
  - rewrite Nat.add_succ_r. simpl. rewrite IH. lra.
Qed.

Lemma sumn_S_front n g : sumn (S n) g == g O + sumn n (fun k => g (S k)).
Proof. induction n as [|n IH]; simpl; [lra|]. simpl in IH. rewrite IH. lra. Qed.

Lemma sumn_flip n f : sumn n (fun k => f (n - 1 - k)%nat) == sumn n f.
Proof.
  induction n as [|n IH]; [reflexivity|].
  rewrite sumn_S_front.
  rewrite (sumn_ext n (fun k => f (S n - 1 - S k)%nat) (fun k => f (n - 1 - k)%nat)).
  2:{ intros k Hk. replace (S n - 1 - S k)%nat with (n - 1 - k)%nat by lia. reflexivity. }
  rewrite IH. replace (S n - 1 - 0)%nat with n by lia. simpl. lra.
Qed.

(* ---- Z-indexed versions ---- *)

Lemma sumZ_ext n f g : (forall k, (0 <= k < n)%Z -> f k == g k) -> sumZ n f == sumZ n g.
Proof. intro H. unfold sumZ. apply sumn_ext. intros k Hk. apply H. lia. Qed.

Lemma sumZ_zero n f : (forall k, (0 <= k < n)%Z -> f k == 0) -> sumZ n f == 0.
Proof. intro H. unfold sumZ. apply sumn_zero. intros k Hk. apply H. lia. Qed.

Lemma sumZ_add n f g : sumZ n (fun k => f k + g k) == sumZ n f + sumZ n g.
Proof. unfold sumZ. apply sumn_add. Qed.

Lemma sumZ_sub n f g : sumZ n (fun k => f k - g k) == sumZ n f - sumZ n g.
Proof. unfold sumZ. apply sumn_sub. Qed.

Lemma sumZ_scal_l n c f : sumZ n (fun k => c * f k) == c * sumZ n f.
Proof. unfold sumZ. apply sumn_scal_l. Qed.

Lemma sumZ_scal_r n c f : sumZ n (fun k => f k * c) == sumZ n f * c.
Proof. unfold sumZ. apply sumn_scal_r. Qed.

Lemma sumZ_swap n m (f : Z -> Z -> Q) :
  sumZ n (fun i => sumZ m (fun j => f i j)) == sumZ m (fun j => sumZ n (fun i => f i j)).
Proof. unfold sumZ. apply (sumn_swap _ _ (fun i j => f (Z.of_nat i) (Z.of_nat j))). Qed.

Lemma sumZ_delta n j (f : Z -> Q) : (0 <= j < n)%Z ->
  sumZ n (fun k => if (k =? j)%Z then f k else 0) == f j.
Proof.
  intro H. unfold sumZ.
  rewrite (sumn_ext _ _ (fun k => if Nat.eqb k (Z.to_nat j) then f (Z.of_nat k) else 0)).
  - rewrite sumn_delta by lia. rewrite Z2Nat.id by lia. reflexivity.
  - intros k Hk. destruct (Z.eqb_spec (Z.of_nat k) j); destruct (Nat.eqb_spec k (Z.to_nat j));
      try reflexivity; lia.
Qed.

Lemma sumZ_split n m f : (0 <= n)%Z -> (0 <= m)%Z ->
  sumZ (n + m) f == sumZ n f + sumZ m (fun k => f (n + k)%Z).
Proof.
  intros Hn Hm. unfold sumZ. rewrite Z2Nat.inj_add by lia. rewrite sumn_split.
  apply Qplus_comp; [reflexivity|]. apply sumn_ext. intros k Hk.
  rewrite Nat2Z.inj_add, Z2Nat.id by lia. reflexivity.
Qed.

Lemma sumZ_flip n f : sumZ n (fun k => f (n - 1 - k)%Z) == sumZ n f.
Proof.
  unfold sumZ.
  rewrite <- (sumn_flip (Z.to_nat n) (fun k => f (Z.of_nat k))).
  apply sumn_ext. intros k Hk. replace (n - 1 - Z.of_nat k)%Z with (Z.of_nat (Z.to_nat n - 1 - k)) by lia.
  reflexivity.
Qed.

(* cyclic shift: sum_{k<n} f ((k + s) mod n) == sum_{k<n} f k   for 0 <= s <= n *)
Lemma sumZ_roll n s f : (0 <= s <= n)%Z ->
  sumZ n (fun k => f ((k + s) mod n)%Z) == sumZ n f.
Proof.
  intros Hs.
  destruct (Z.eq_dec n 0) as [->|Hn0]; [reflexivity|].
  assert (E1 : forall F, sumZ n F == sumZ ((n - s) + s) F).
  { intro F. replace ((n - s) + s)%Z with n by lia. reflexivity. }
  assert (E2 : forall F, sumZ n F == sumZ (s + (n - s)) F).
  { intro F. replace (s + (n - s))%Z with n by lia. reflexivity. }
  rewrite E1, (E2 f).
  rewrite (sumZ_split (n - s) s) by lia.
  rewrite (sumZ_split s (n - s)) by lia.
  rewrite (sumZ_ext (n - s) (fun k => f ((k + s) mod n)%Z) (fun k => f (s + k)%Z)).
  2:{ intros k Hk. rewrite Z.mod_small by lia. replace (k + s)%Z with (s + k)%Z by lia. reflexivity. }
  rewrite (sumZ_ext s (fun k => f ((n - s + k + s) mod n)%Z) f).
  2:{ intros k Hk. replace (n - s + k + s)%Z with (k + 1 * n)%Z by lia.
      rewrite Z.mod_add by lia. rewrite Z.mod_small by lia. reflexivity. }
  lra.
Qed.

Lemma sumZ_nonpos n f : (n <= 0)%Z -> sumZ n f == 0.
Proof. intro H. unfold sumZ. replace (Z.to_nat n) with O by lia. reflexivity. Qed.

Lemma sumZ_succ n f : (0 <= n)%Z -> sumZ (n + 1) f == sumZ n f + f n.
Proof.
  intro H. rewrite sumZ_split by lia. apply Qplus_comp; [reflexivity|].
  unfold sumZ. simpl. rewrite Z.add_0_r. lra.
Qed.
