(* C10/Loop.v — the whole loop of Preconditioner._precondition_block on a tensor of ARBITRARY rank:
   after processing every axis (skipped / full / packed, each step = contraction of the leading axis
   followed by the cyclic transpose) the result is the tensor obtained by the mode products with the
   denoted dense matrices along axes 0,1,..,n-1 in the original axis order.  No axioms. *)
From Coq Require Import ZArith QArith Lqa List Bool Lia.
From Precond Require Import Base.PyLib C10.Sums C10.Model C10.Proofs.
Import ListNotations.

Lemma in_shape_length shape idx : in_shape shape idx -> length idx = length shape.
Proof.
  revert idx; induction shape as [|s st IH]; intros [|i it] H; simpl in *; try tauto.
  f_equal. apply IH. tauto.
Qed.

Lemma in_shape_app sa sb a b : in_shape sa a -> in_shape sb b -> in_shape (sa ++ sb) (a ++ b).
Proof.
  revert a; induction sa as [|s st IH]; intros [|i it] Ha Hb; simpl in *; try tauto.
  split; [tauto|]. apply IH; tauto.
Qed.

Lemma in_shape_app_inv sa sb ab : in_shape (sa ++ sb) ab ->
  exists a b, ab = a ++ b /\ in_shape sa a /\ in_shape sb b.
Proof.
  revert ab; induction sa as [|s st IH]; intros ab H.
  - exists [], ab. simpl. tauto.
  - destruct ab as [|i it]; simpl in H; [tauto|]. destruct H as [Hi H].
    destruct (IH it H) as (a & b & E & Ha & Hb). exists (i :: a), b. subst. simpl. tauto.
Qed.

Lemma in_shape_single s a : in_shape [s] a -> exists x, a = [x] /\ (0 <= x < s)%Z.
Proof.
  destruct a as [|x [|y t]]; simpl; try tauto. intros [H _]. exists x. tauto.
Qed.

Lemma set_at_middle (a b : list Z) x i : set_at (a ++ x :: b) (length a) i = a ++ i :: b.
Proof. induction a as [|y t IH]; simpl; [reflexivity|]. rewrite IH. reflexivity. Qed.

Lemma removelast_app1 {A} (l : list A) x : removelast (l ++ [x]) = l.
Proof. apply removelast_last. Qed.

Lemma precondition_block_cons p ps t : precondition_block (p :: ps) t = precondition_block ps (block_step p t).
Proof. reflexivity. Qed.

Lemma loop_invariant : forall (ps : list precond) (sa sb : list Z) (T D : tens),
  length ps = length sb -> dims_match ps sb ->
  (forall a b, in_shape sa a -> in_shape sb b -> T (b ++ a) == D (a ++ b)) ->
  forall idx, in_shape (sa ++ sb) idx ->
    precondition_block ps T idx == dense_all ps (length sa) D idx.
Proof.
  induction ps as [|p pt IH]; intros sa sb T D Hlen Hdm Hinv idx Hidx.
  - destruct sb; [|discriminate]. simpl. rewrite app_nil_r in Hidx.
    pose proof (Hinv idx [] Hidx I) as H. simpl in H. rewrite app_nil_r in H. exact H.
  - destruct sb as [|s st]; [discriminate|]. simpl in Hlen, Hdm. destruct Hdm as [Hd Hdm].
    rewrite precondition_block_cons. simpl dense_all.
    replace (sa ++ s :: st) with ((sa ++ [s]) ++ st) in Hidx by (rewrite <- app_assoc; reflexivity).
    replace (S (length sa)) with (length (sa ++ [s])) by (rewrite app_length; simpl; lia).
    apply (IH (sa ++ [s]) st); [lia | exact Hdm | | exact Hidx].
    clear idx Hidx IH.
    intros a' b' Ha' Hb'.
    destruct (in_shape_app_inv _ _ _ Ha') as (a & xs & -> & Ha & Hx).
    destruct (in_shape_single _ _ Hx) as (x & -> & Hxr).
    pose proof (in_shape_length _ _ Ha) as Hla.
    assert (Hrl : removelast (b' ++ a ++ [x]) = b' ++ a).
    { rewrite app_assoc. apply removelast_last. }
    assert (Hl : last (b' ++ a ++ [x]) 0%Z = x).
    { rewrite app_assoc. apply last_last. }
    assert (Happ : (a ++ [x]) ++ b' = a ++ x :: b') by (rewrite <- app_assoc; reflexivity).
    rewrite Happ.
    assert (Hmode : forall d M, d = s ->
      mode0 d (fun i rest => T (i :: rest)) M (b' ++ a) x ==
      mode_product d M (length sa) D (a ++ x :: b')).
    { intros d M ->. unfold mode0, mode_product. apply sumZ_ext. intros i Hi.
      rewrite <- Hla. rewrite set_at_middle, nth_middle.
      change (i :: b' ++ a) with ((i :: b') ++ a).
      rewrite (Hinv a (i :: b') Ha) by (simpl; tauto). reflexivity. }
    destruct p as [|d M|d cr P]; simpl in Hd.
    + (* not preconditioned: transpose only *)
      unfold block_step, t_roll, rot, dense_step. simpl dense_of_precond. cbv iota.
      rewrite Hrl, Hl. change (x :: b' ++ a) with ((x :: b') ++ a).
      apply Hinv; simpl; tauto.
    + unfold block_step, dense_step. simpl dense_of_precond. cbv iota beta.
      rewrite Hrl, Hl. apply Hmode. exact Hd.
    + unfold block_step, dense_step. simpl dense_of_precond. cbv iota beta.
      rewrite Hrl, Hl. rewrite apply_packed_is_dense_l by lia. apply Hmode. exact Hd.
Qed.

Lemma precondition_block_is_dense_l (shape : list Z) (ps : list precond) (t : tens) :
  length ps = length shape -> dims_match ps shape ->
  forall idx, in_shape shape idx ->
    precondition_block ps t idx == dense_all ps 0 t idx.
Proof.
  intros Hlen Hdm idx Hidx.
  apply (loop_invariant ps [] shape t t Hlen Hdm); [|exact Hidx].
  intros a b Ha Hb. destruct a; [|simpl in Ha; tauto]. rewrite app_nil_r. reflexivity.
Qed.
