(* C10/Check.v — boolean comparators for the correspondence check: the model (C10.Model) against
   the implementation's observed outputs.  Integers exactly; float64 data as exact rationals within
   tau_f64 = 2^-44.  Definitions only; evaluated by vm_compute from coq/gen/C10/cases_*.v. *)
From Coq Require Import ZArith QArith Qminmax Qabs List Bool.
From Precond Require Import Base.PyLib C06.Ref C10.Sums C10.Model.
Import ListNotations.
Open Scope Z_scope.

Fixpoint zll_eqb (a b : list (list Z)) : bool :=
  match a, b with
  | [], [] => true
  | x :: s, y :: t => list_eqb_z x y && zll_eqb s t
  | _, _ => false
  end.

Definition zfields (vecs : list (list Z)) (defl inv : list Z) (const tail : Z) (hz : bool) : fields Z :=
  mkFields (mat_of 0 vecs) (vec_of 0 defl) (vec_of 0 inv) const tail hz.

(* _fd_low_rank_pack on integer-valued fields == observed matrix; also the size assertions *)
Definition chk_pack (d cr : Z) (vecs : list (list Z)) (defl inv : list Z) (const tail : Z) (hz : bool)
           (observed : list (list Z)) : bool :=
  fd_pack_ok d cr && Bool.eqb (fd_pack_ok d cr) (should_compress cr d) &&
  zll_eqb (tab d (Z.abs cr + 2) (fd_pack 0 z_of_bool d cr (zfields vecs defl inv const tail hz))) observed.

(* _fd_low_rank_unpack of an observed integer-valued matrix == observed fields *)
Definition chk_unpack (d cr : Z) (P : list (list Z)) (vecs : list (list Z)) (defl inv : list Z)
           (const tail : Z) (hz : bool) : bool :=
  let r := Z.abs cr in
  let F := fd_unpack z_to_bool d cr (mat_of 0 P) in
  fd_unpack_ok d (r + 2) cr &&
  zll_eqb (tab d r (f_vecs F)) vecs && list_eqb_z (tabv r (f_defl F)) defl &&
  list_eqb_z (tabv r (f_inv F)) inv && (f_const F =? const) && (f_tail F =? tail) &&
  Bool.eqb (f_hz F) hz.

(* _low_rank_pack / _low_rank_unpack *)
Definition chk_lr_pack (d cr : Z) (vecs : list (list Z)) (inv : list Z) (const : Z)
           (observed : list (list Z)) : bool :=
  zll_eqb (tab d (Z.abs cr + 2) (low_rank_pack 0 z_of_bool d cr (mat_of 0 vecs) (vec_of 0 inv) const)) observed.

Definition chk_lr_unpack (d cr : Z) (P : list (list Z)) (vecs : list (list Z)) (inv : list Z)
           (const : Z) (hz : bool) : bool :=
  let r := Z.abs cr in
  let '(V, e, c, s) := low_rank_unpack z_to_bool d cr (mat_of 0 P) in
  zll_eqb (tab d r V) vecs && list_eqb_z (tabv r e) inv && (c =? const) && Bool.eqb s hz.

(* _precond_dim / _should_compress observed values *)
Definition chk_dims (cr d pd : Z) (sc : bool) : bool :=
  (precond_dim cr d =? pd) && Bool.eqb (should_compress cr d) sc.

(* ---- _precondition_block on integer data ---------------------------------------------------- *)
Open Scope Q_scope.
Definition qmat (l : list (list Z)) : Z -> Z -> Q := mat_of 0 (map (map inject_Z) l).
Definition qtens (shape : list Z) (flat : list Z) : tens := tens_of shape (map inject_Z flat).
Definition lrot (s : list Z) : list Z := match s with [] => [] | x :: t => t ++ [x] end.

(* direct evaluation of the model's loop (faithful transcription of the code) *)
Definition chk_block (shape : list Z) (g : list Z) (ps : list precond) (observed : list Z) : bool :=
  qlist_eqb (tens_tab shape (precondition_block ps (qtens shape g))) (map inject_Z observed).

(* the same loop, tabulating the tensor after every iteration (evaluation strategy only: cost
   linear instead of exponential in the number of axes) *)
Definition memo (shape : list Z) (t : tens) : tens := tens_of shape (tens_tab shape t).
Fixpoint block_memo (ps : list precond) (shape : list Z) (t : tens) : tens :=
  match ps with
  | [] => t
  | p :: rest => let s' := lrot shape in block_memo rest s' (memo s' (block_step p t))
  end.
Definition chk_block_memo (shape : list Z) (g : list Z) (ps : list precond) (observed : list Z) : bool :=
  qlist_eqb (tens_tab shape (block_memo ps shape (qtens shape g))) (map inject_Z observed).

(* the dense formula of the theorem: mode products with the denoted dense matrices, axis by axis *)
Definition memo_precond (p : precond) : precond :=
  match dense_of_precond p with
  | None => PNone
  | Some (d, M) => PFull d (mat_of 0 (tab d d M))
  end.
Fixpoint dense_memo (ps : list precond) (k : nat) (shape : list Z) (t : tens) : tens :=
  match ps with
  | [] => t
  | p :: rest => dense_memo rest (S k) shape (memo shape (dense_step (memo_precond p) k t))
  end.
Definition chk_block_dense (shape : list Z) (g : list Z) (ps : list precond) (observed : list Z) : bool :=
  qlist_eqb (tens_tab shape (dense_memo ps 0 shape (qtens shape g))) (map inject_Z observed).

(* ---- _low_rank_root on float64 data (exact rationals) ---------------------------------------- *)
Definition tau64 : Q := 1 # (2 ^ 44).

(* sums with normalisation, for the checkers only *)
Definition rsum (n : Z) (f : Z -> Q) : Q :=
  fold_left (fun acc k => Qred (acc + f k)) (zrange n) 0.
Definition forall_lt (n : Z) (f : Z -> bool) : bool := forallb f (zrange n).
Definition qmaxabs (d c : Z) (M : Z -> Z -> Q) : Q :=
  fold_left (fun acc i => fold_left (fun a j => Qmax a (Qabs (M i j))) (zrange c) acc) (zrange d) 0.
Definition close (tol : Q) (a b : Q) : bool := Qle_bool (Qabs (a - b)) tol.

Definition rootp_of (xs ys : list Q) (x : Q) : Q :=
  match find (fun xy => Qeq_bool (fst xy) x) (zip xs ys) with Some xy => snd xy | None => 0 end.

Definition qpow (x : Q) (p : Z) : Q := Qpower x p.

(* eigh answer within tau of its spec: U'U = I, UU' = I, U diag(e) U' = Areg *)
Definition eigh_ok (d : Z) (Areg : Z -> Z -> Q) (ev : Z -> Q) (U : Z -> Z -> Q) : bool :=
  let tol1 := tau64 * inject_Z d in
  let tolA := tau64 * inject_Z d * qmaxabs d d Areg in
  forall_lt d (fun i => forall_lt d (fun j =>
    close tol1 (rsum d (fun k => U k i * U k j)) (delta i j) &&
    close tol1 (rsum d (fun k => U i k * U j k)) (delta i j) &&
    close tolA (rsum d (fun k => U i k * ev k * U j k)) (Areg i j))).

(* regularized input = mask(A) + ridge * I_mask, to rounding *)
Definition areg_ok (d ps : Z) (ridge : Q) (A Areg : Z -> Z -> Q) : bool :=
  forall_lt d (fun i => forall_lt d (fun j =>
    let m := A i j * ix ps i * ix ps j + ridge * (delta i j * ix ps j) in
    close (tau64 * Qabs m) (Areg i j) m)).

(* jnp.power answers within tau of root_spec: y^p * x = 1 *)
Definition power_ok (p : Z) (xs ys : list Q) : bool :=
  forallb (fun xy => Qle_bool 0 (snd xy) &&
                     close (tau64 * inject_Z p) (qpow (snd xy) p * fst xy) 1) (zip xs ys).

(* packed result of the model (from the captured kernel answers) vs the observed packed result *)
Definition root_val_ok (d cr ps : Z) (ridge : Q) (ev : Z -> Q) (U : Z -> Z -> Q) (rootp : Q -> Q)
           (observed : Z -> Z -> Q) : bool :=
  let val := low_rank_root d cr ps ridge ev U rootp in
  forall_lt d (fun i => forall_lt (Z.abs cr + 2) (fun j =>
    close (tau64 * Qabs (val i j)) (observed i j) (val i j))).

(* the conclusion of theorem low_rank_root_denotes evaluated on the observed packed matrix, with
   tolerance scaled by the largest weight (the captured U is orthogonal only to tau) *)
Definition root_denotes_ok (d cr ps : Z) (ridge : Q) (ev : Z -> Q) (U : Z -> Z -> Q) (rootp : Q -> Q)
           (observed : Z -> Z -> Q) : bool :=
  let w := root_weight d cr ps ridge ev rootp in
  let wmax := fold_left (fun a k => Qmax a (Qabs (w k))) (zrange d) 0 in
  let D := dense_of_packed d cr observed in
  forall_lt d (fun i => forall_lt d (fun j =>
    close (tau64 * inject_Z (4 * d) * wmax) (D i j) (rsum d (fun k => w k * U i k * U j k)))).

Definition chk_root (d cr ps p : Z) (ridge : Q) (A Areg : list (list Q)) (ev : list Q) (U : list (list Q))
           (xs ys : list Q) (observed : list (list Q)) : bool * bool * bool * bool * bool :=
  let Am := mat_of 0 A in let Ar := mat_of 0 Areg in let e := vec_of 0 ev in let Um := mat_of 0 U in
  let rp := rootp_of xs ys in let obs := mat_of 0 observed in
  (areg_ok d ps ridge Am Ar, eigh_ok d Ar e Um, power_ok p xs ys,
   root_val_ok d cr ps ridge e Um rp obs, root_denotes_ok d cr ps ridge e Um rp obs).
