(* C10/Model.v — executable model of the low-rank packed preconditioner of
   precondition/distributed_shampoo.py.  Definitions only (no proofs).

   Matrices / vectors are index functions over Z (rows 0..d-1, columns 0..c-1); Python's negative
   indices are written out ([-1] = d-1, [-2] of a (r+2)-column matrix = r, [-r:] = rows d-r..d-1).
   `_precond_dim` / `_should_compress` are NOT re-modelled: C06.Ref (regenerated from the source on
   every C06 run) is imported. *)
From Coq Require Import ZArith QArith Qminmax List Bool.
From Precond Require Import Base.PyLib C06.Ref C10.Sums.
Open Scope Z_scope.

(* ------------------------------------------------------------------------------------------- *)
(* 1. pack / unpack, any carrier                                                                *)
(* ------------------------------------------------------------------------------------------- *)
Section Pack.
  Context {A : Type}.
  Variable zero : A.
  Variable of_bool : bool -> A.      (* jnp.asarray(has_zeros).astype(float32) *)
  Variable to_bool : A -> bool.      (* .astype(bool) *)

  Record fields := mkFields {
    f_vecs : Z -> Z -> A;   (* eigvecs        d x r *)
    f_defl : Z -> A;        (* deflated_eigs  r     (FD only; zeros for _low_rank_pack) *)
    f_inv : Z -> A;         (* inverted_eigs  r *)
    f_const : A;
    f_tail : A;             (* FD only; 0 for _low_rank_pack *)
    f_hz : bool }.

  (* _fd_low_rank_pack: a zero (d, r+2) matrix followed by six .at[..].set(..) stores; a later
     store overrides an earlier one, so the stores are tested in reverse program order. *)
  Definition fd_pack (d cr : Z) (F : fields) : Z -> Z -> A :=
    let r := Z.abs cr in
    fun i j =>
      if (i =? d - 1) && (j =? r) then of_bool (f_hz F)                               (* [-1, -2] *)
      else if (Z.max 0 (d - r) <=? i) && (i <? d) && (j =? r + 1)
           then f_defl F (i - Z.max 0 (d - r))                                         (* [-r:, -1] *)
      else if (i =? 1) && (j =? r + 1) then f_tail F                                   (* [1, -1]  *)
      else if (i =? 0) && (j =? r + 1) then f_const F                                  (* [0, -1]  *)
      else if (0 <=? i) && (i <? r) && (j =? r) then f_inv F i                         (* [:r, -2] *)
      else if (0 <=? j) && (j <? r) then f_vecs F i j                                  (* [:, :r]  *)
      else zero.

  (* the assertions of _fd_low_rank_pack that concern (rank, d) *)
  Definition fd_pack_ok (d cr : Z) : bool :=
    let r := Z.abs cr in
    (0 <? r) && (precond_dim r d =? r + 2) && (precond_dim r d <? d).

  (* _fd_low_rank_unpack *)
  Definition fd_unpack (d cr : Z) (P : Z -> Z -> A) : fields :=
    let r := Z.abs cr in
    mkFields (fun i j => P i j)                 (* [:, :r]  *)
             (fun k => P (d - r + k) (r + 1))   (* [-r:, -1] *)
             (fun k => P k r)                   (* [:r, -2] *)
             (P 0 (r + 1))                      (* [0, -1]  *)
             (P 1 (r + 1))                      (* [1, -1]  *)
             (to_bool (P (d - 1) r)).           (* [-1, -2] *)

  (* its assertions: r != 0, storage_dim < dim, storage_dim == r + 2 *)
  Definition fd_unpack_ok (d sd cr : Z) : bool :=
    let r := Z.abs cr in negb (r =? 0) && (sd <? d) && (sd =? r + 2).

  (* _low_rank_pack / _low_rank_unpack *)
  Definition low_rank_pack (d cr : Z) (vecs : Z -> Z -> A) (inv : Z -> A) (const : A) :=
    fd_pack d cr (mkFields vecs (fun _ => zero) inv const zero false).

  Definition low_rank_unpack (d cr : Z) (P : Z -> Z -> A) :=
    let F := fd_unpack d cr P in (f_vecs F, f_inv F, f_const F, f_hz F).

  (* slots of the packed matrix that carry no field *)
  Definition unused_slot (d r i j : Z) : bool :=
    ((j =? r) && (r <=? i) && (i <? d - 1)) || ((j =? r + 1) && (2 <=? i) && (i <? d - r)).
End Pack.

Arguments fields : clear implicits.

(* ------------------------------------------------------------------------------------------- *)
(* 2. compressed application (one iteration of the loop of Preconditioner._precondition_block)  *)
(* ------------------------------------------------------------------------------------------- *)
Open Scope Q_scope.

Definition q_of_bool (b : bool) : Q := if b then 1 else 0.
Definition q_to_bool (q : Q) : bool := negb (Qeq_bool q 0).

Section Apply.
  (* The tensor g has a leading axis of size d; all its remaining axes are abstracted into one
     index of an arbitrary type T (so the rank of g is arbitrary).  g i rest = g[i, *rest]. *)
  Context {T : Type}.
  Variables (d r : Z).
  Variable V : Z -> Z -> Q.    (* eigvecs d x r *)
  Variable e : Z -> Q.         (* inverted eigenvalues r *)
  Variable c : Q.              (* const *)
  Variable skip : bool.        (* has_zeros *)
  Variable g : Z -> T -> Q.

  (* lowrank_basis = tensordot(g, eigvecs, axes=[[0],[0]])            : (rest.., r) *)
  Definition lr_basis (rest : T) (k : Z) : Q := sumZ d (fun i => g i rest * V i k).
  (* lowrank_component = tensordot(lowrank_basis, eigvecs, [[rank-1],[1]]) : (rest.., d) *)
  Definition lr_component (rest : T) (j : Z) : Q := sumZ r (fun k => lr_basis rest k * V j k).
  (* g = transpose(g, roll): (rest.., d);  complement = g - lowrank_component *)
  Definition lr_complement (rest : T) (j : Z) : Q := g j rest - lr_component rest j.
  (* scaled_basis = lowrank_basis * eigvals; scaled_lowrank_component = tensordot(..) *)
  Definition lr_scaled (rest : T) (j : Z) : Q := sumZ r (fun k => (lr_basis rest k * e k) * V j k).
  Definition lr_new (rest : T) (j : Z) : Q := c * lr_complement rest j + lr_scaled rest j.
  (* g = where(skip, old_g, new_g), indexed (rest.., j) *)
  Definition apply_lowrank (rest : T) (j : Z) : Q := if skip then g j rest else lr_new rest j.

  (* the dense matrix the fields denote:  c (I - V V') + V diag(e) V' *)
  Definition delta (i j : Z) : Q := if (i =? j)%Z then 1 else 0.
  Definition dense_of (i j : Z) : Q :=
    c * (delta i j - sumZ r (fun k => V i k * V j k)) + sumZ r (fun k => V i k * e k * V j k).
  (* mode product along the leading axis followed by the roll the code performs *)
  Definition mode0 (M : Z -> Z -> Q) (rest : T) (j : Z) : Q := sumZ d (fun i => g i rest * M i j).
End Apply.

Definition apply_packed {T} (d cr : Z) (P : Z -> Z -> Q) (g : Z -> T -> Q) : T -> Z -> Q :=
  let '(V, e, c, skip) := low_rank_unpack q_to_bool d cr P in
  apply_lowrank d (Z.abs cr) V e c skip g.

Definition dense_of_packed (d cr : Z) (P : Z -> Z -> Q) : Z -> Z -> Q :=
  let '(V, e, c, skip) := low_rank_unpack q_to_bool d cr P in
  if skip then delta else dense_of (Z.abs cr) V e c.

(* ------------------------------------------------------------------------------------------- *)
(* 3. whole loop of _precondition_block on tensors indexed by lists (arbitrary rank)            *)
(* ------------------------------------------------------------------------------------------- *)
Definition tens := list Z -> Q.

(* jnp.transpose(g, axes=(1,..,n-1,0)) : new[i0..i(n-1)] = g[i(n-1), i0, .., i(n-2)] *)
Definition rot (idx : list Z) : list Z := last idx 0%Z :: removelast idx.
Definition t_roll (t : tens) : tens := fun idx => t (rot idx).

Inductive precond :=
| PNone                                        (* axis not preconditioned: only the roll *)
| PFull (d : Z) (M : Z -> Z -> Q)              (* tensordot(g, M, [[0],[0]]) *)
| PPacked (d cr : Z) (P : Z -> Z -> Q).        (* compressed branch *)

Definition block_step (p : precond) (t : tens) : tens :=
  match p with
  | PNone => t_roll t
  | PFull d M => fun idx => mode0 d (fun i rest => t (i :: rest)) M (removelast idx) (last idx 0%Z)
  | PPacked d cr P =>
      fun idx => apply_packed d cr P (fun i rest => t (i :: rest)) (removelast idx) (last idx 0%Z)
  end.

Definition precondition_block (ps : list precond) (t : tens) : tens :=
  fold_left (fun t p => block_step p t) ps t.

(* reference semantics: mode product along axis k (no roll) *)
Fixpoint set_at (idx : list Z) (k : nat) (v : Z) : list Z :=
  match idx, k with
  | [], _ => []
  | _ :: tl, O => v :: tl
  | x :: tl, S k' => x :: set_at tl k' v
  end.
Definition mode_product (d : Z) (M : Z -> Z -> Q) (k : nat) (t : tens) : tens :=
  fun idx => sumZ d (fun i => t (set_at idx k i) * M i (nth k idx 0%Z)).

Definition dense_of_precond (p : precond) : option (Z * (Z -> Z -> Q)) :=
  match p with
  | PNone => None
  | PFull d M => Some (d, M)
  | PPacked d cr P => Some (d, dense_of_packed d cr P)
  end.

(* dense semantics of one entry of the preconditioner list: mode product along axis k *)
Definition dense_step (p : precond) (k : nat) (t : tens) : tens :=
  match dense_of_precond p with
  | None => t
  | Some (d, M) => mode_product d M k t
  end.

Definition precond_dim_of (p : precond) : option Z :=
  match p with PNone => None | PFull d _ => Some d | PPacked d _ _ => Some d end.

Fixpoint in_shape (shape idx : list Z) : Prop :=
  match shape, idx with
  | [], [] => True
  | s :: st, i :: it => (0 <= i < s)%Z /\ in_shape st it
  | _, _ => False
  end.

Fixpoint dims_match (ps : list precond) (shape : list Z) : Prop :=
  match ps, shape with
  | [], [] => True
  | p :: pt, s :: st =>
      match precond_dim_of p with None => True | Some d => d = s end /\ dims_match pt st
  | _, _ => False
  end.

(* dense semantics: mode product along axis k, k+1, .. (no transposes) *)
Fixpoint dense_all (ps : list precond) (k : nat) (t : tens) : tens :=
  match ps with [] => t | p :: rest => dense_all rest (S k) (dense_step p k t) end.


(* ------------------------------------------------------------------------------------------- *)
(* 4. _low_rank_root, given the answers of its numeric kernels                                  *)
(* ------------------------------------------------------------------------------------------- *)
Section Root.
  Variables (d cr ps : Z).        (* matrix_size, compression_rank, padding_start (None = d) *)
  Variable ridge : Q.             (* ridge_epsilon * max(max_ev, error_tolerance) *)
  Variable ev : Z -> Q.           (* eigh: eigenvalues, ascending *)
  Variable U : Z -> Z -> Q.       (* eigh: eigenvectors in columns *)
  Variable rootp : Q -> Q.        (* x |-> x^(-1/p)  (jnp.power) *)

  Definition ix (i : Z) : Q := if (i <? ps)%Z then 1 else 0.
  (* e *= flip(ix) *)
  Definition ev_masked (i : Z) : Q := ev i * ix (d - 1 - i).
  (* inv_e = where(e == 0, 0, power(maximum(e, ridge), alpha)) *)
  Definition inv_e (i : Z) : Q :=
    if Qeq_bool (ev_masked i) 0 then 0 else rootp (Qmax (ev_masked i) ridge).
  (* position k of the re-ordered spectrum reads original position perm k:
     cr < 0: roll by -(d - ps);  cr > 0: flip *)
  Definition perm (k : Z) : Z := if (cr <? 0)%Z then ((k + (d - ps)) mod d)%Z else (d - 1 - k)%Z.
  Definition inv_e' (k : Z) : Q := inv_e (perm k).
  Definition U' (i k : Z) : Q := U i (perm k).
  Definition split_ix : Z := Z.abs cr.
  (* sum(to_avg_e) / where(real_dim - |cr| > 0, real_dim - |cr|, 1) *)
  Definition root_const : Q :=
    sumZ (d - split_ix) (fun k => inv_e' (split_ix + k)%Z) /
    (if (0 <? ps - split_ix)%Z then inject_Z (ps - split_ix) else 1).
  Definition low_rank_root : Z -> Z -> Q :=
    let val := low_rank_pack 0 q_of_bool d cr U' inv_e' root_const in
    fun i j => if (ps =? 0)%Z then 0 else val i j.

  (* weights of the dense matrix the packed root denotes, by ORIGINAL eigen-index *)
  Definition kept (k : Z) : bool :=
    if (cr <? 0)%Z then (d - ps <=? k)%Z && (k <? d - ps + split_ix)%Z
    else (d - split_ix <=? k)%Z && (k <? d)%Z.
  Definition root_weight (k : Z) : Q := if kept k then inv_e k else root_const.
End Root.

(* ------------------------------------------------------------------------------------------- *)
(* 5. executable glue for the correspondence checks (lists <-> index functions)                 *)
(* ------------------------------------------------------------------------------------------- *)
Definition vec_of {A} (dflt : A) (l : list A) : Z -> A := fun i => nth_z l i dflt.
Definition mat_of {A} (dflt : A) (l : list (list A)) : Z -> Z -> A :=
  fun i j => nth_z (nth_z l i []) j dflt.
Definition tab {A} (d c : Z) (P : Z -> Z -> A) : list (list A) :=
  map (fun i => map (fun j => P i j) (zrange c)) (zrange d).
Definition tabv {A} (n : Z) (f : Z -> A) : list A := map f (zrange n).

Definition z_of_bool (b : bool) : Z := if b then 1%Z else 0%Z.
Definition z_to_bool (z : Z) : bool := negb (z =? 0)%Z.

Fixpoint qlist_eqb (a b : list Q) : bool :=
  match a, b with
  | [], [] => true
  | x :: s, y :: t => Qeq_bool x y && qlist_eqb s t
  | _, _ => false
  end.

(* row-major tabulation of a tensor of the given shape *)
Definition tens_tab (shape : list Z) (t : tens) : list Q := map t (cart_prod (map zrange shape)).
(* row-major tensor from a flat list *)
Fixpoint flat_index (shape idx : list Z) : Z :=
  match shape, idx with
  | _ :: srest, i :: irest => (i * prod_z srest + flat_index srest irest)%Z
  | _, _ => 0%Z
  end.
Definition tens_of (shape : list Z) (flat : list Q) : tens := fun idx => nth_z flat (flat_index shape idx) 0.
