(* Stable copy of the translator output for sm3._moving_averages / _moving_averages_momentum (tensors
   flattened; the broadcast accumulators[0] and reduce(minimum, accumulators) are supplied as vectors);
   compared with the regenerated gen/C12/Gen.v on every run (GenEq obligations). *)
From Precond Require Import Base.PyLib Base.QMat Base.PyFloat.
Open Scope Q_scope.

Definition sm3_moving_averages (beta2 : Q) (rank_lt2 : bool) (acc0 : (list Q)) (min_acc_ : (list Q)) (grad : (list Q)) : vec :=
(let w := (if (negb (Qeq_bool beta2 (1 # 1))) then (Qminus (1 # 1) beta2) else (1 # 1)) in
(if rank_lt2 then
(vv_add (sv_mul beta2 acc0) (sv_mul w (vv_mul grad grad)))
else
(let min_accumulator := min_acc_ in
(vv_add (sv_mul beta2 min_accumulator) (sv_mul w (vv_mul grad grad)))))).

Definition sm3_moving_averages_momentum (beta1 : Q) (grad : (list Q)) (momentum : (list Q)) : vec :=
(let w := (if (negb (Qeq_bool beta1 (1 # 1))) then (Qminus (1 # 1) beta1) else (1 # 1)) in
(vv_add (sv_mul beta1 momentum) (sv_mul w grad))).
