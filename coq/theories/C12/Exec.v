(* C12/Exec.v — the list-backed execution (Model.step_l, used by the correspondence check) computes
   the same accumulators as the index-function model the theorems are about; hence the cover
   theorem holds for accumulator LISTS produced by iterating step_l. *)
From Precond Require Import C12.Model C12.Proofs.
From Coq Require Import Lia Lqa.
Open Scope Q_scope.

Definition acc_eq_in (shape : list Z) (a b : list acc) : Prop :=
  length a = length shape /\ length b = length shape /\
  forall i j, (i < length shape)%nat -> (0 <= j < nth i shape 0%Z)%Z -> acc_at a i j == acc_at b i j.

Lemma fold_Qmin_Qeq l : forall l' x x', x == x' -> Forall2 Qeq l l' ->
  fold_left Qmin l x == fold_left Qmin l' x'.
Proof.
  induction l as [|y l IH]; intros l' x x' Hx H; inversion H; subst; simpl; [exact Hx|].
  apply IH; [|assumption]. now apply Q.min_compat.
Qed.

Lemma minl_Qeq l l' : Forall2 Qeq l l' -> minl l == minl l'.
Proof. intro H. destruct H; simpl; [reflexivity|]. now apply fold_Qmin_Qeq. Qed.

Lemma fold_Qmax_Qeq l : forall l' x x', x == x' -> Forall2 Qeq l l' ->
  fold_left Qmax l x == fold_left Qmax l' x'.
Proof.
  induction l as [|y l IH]; intros l' x x' Hx H; inversion H; subst; simpl; [exact Hx|].
  apply IH; [|assumption]. now apply Q.max_compat.
Qed.

Lemma maxl_Qeq l l' : Forall2 Qeq l l' -> maxl l == maxl l'.
Proof. intro H. destruct H; simpl; [reflexivity|]. now apply fold_Qmax_Qeq. Qed.

Lemma map_Forall2_Qeq {A} (f f' : A -> Q) l :
  (forall x, In x l -> f x == f' x) -> Forall2 Qeq (map f l) (map f' l).
Proof.
  induction l as [|x l IH]; intro H; simpl; constructor.
  - apply H; now left.
  - apply IH. intros; apply H; now right.
Qed.

Lemma vals_Qeq shape : forall a b ix,
  length a = length shape -> length b = length shape -> in_shape shape ix ->
  (forall i j, (i < length shape)%nat -> (0 <= j < nth i shape 0%Z)%Z -> acc_at a i j == acc_at b i j) ->
  Forall2 Qeq (vals a ix) (vals b ix).
Proof.
  unfold in_shape. induction shape as [|d s IH]; intros a b ix Ha Hb Hix H.
  - destruct a, b; try discriminate. simpl. constructor.
  - destruct a as [|f a], b as [|f' b]; try discriminate.
    inversion Hix as [|? j ? t Hd Ht]; subst. simpl. constructor.
    + apply (H 0%nat j); simpl; [lia | exact Hd].
    + apply IH; auto. intros i j' Hi Hj. apply (H (S i) j'); simpl; [lia | exact Hj].
Qed.

Lemma moving_averages_ext shape beta a b g g' ix :
  shape <> [] -> acc_eq_in shape a b -> in_shape shape ix -> g ix == g' ix ->
  moving_averages shape beta a g ix == moving_averages shape beta b g' ix.
Proof.
  intros Hs (Ha & Hb & H) Hix Hg.
  pose proof (in_shape_length _ _ Hix) as HL.
  rewrite !moving_averages_nu by congruence. unfold nu, min_acc, sq.
  rewrite (minl_Qeq _ _ (vals_Qeq shape a b ix Ha Hb Hix H)). now rewrite Hg.
Qed.

Lemma step_ext shape beta a b g g' :
  shape <> [] -> acc_eq_in shape a b -> (forall ix, in_shape shape ix -> g ix == g' ix) ->
  acc_eq_in shape (step shape beta a g) (step shape beta b g').
Proof.
  intros Hs Hab Hg. split; [apply step_length|]. split; [apply step_length|].
  intros i j Hi Hj. unfold step.
  destruct shape as [|d [|d2 s]]; [congruence| |].
  - destruct i as [|i]; [|simpl in Hi; lia]. simpl in Hj. unfold acc_at. simpl.
    apply moving_averages_ext; auto.
    + repeat constructor; lia.
    + apply Hg. repeat constructor; lia.
  - set (shape := d :: d2 :: s) in *. unfold acc_at, sketch_all.
    rewrite !nth_map_seq by exact Hi. unfold sketch. apply maxl_Qeq. apply map_Forall2_Qeq.
    intros ix Hin. apply filter_In in Hin as [Hall _]. apply in_all_idx in Hall.
    apply moving_averages_ext; auto.
Qed.

(* reading back a tabulated accumulator *)
Lemma nth_zrange d k : (k < Z.to_nat d)%nat -> nth k (zrange d) 0%Z = Z.of_nat k.
Proof.
  intro H. unfold zrange. now apply nth_map_seq.
Qed.

Lemma acc_of_tabulate f d j : (0 <= j < d)%Z -> acc_of_list (tabulate f d) j == f j.
Proof.
  intro H. unfold acc_of_list, tabulate.
  assert (Hk : (Z.to_nat j < Z.to_nat d)%nat) by lia.
  unfold zrange. rewrite map_map. rewrite nth_map_seq by exact Hk.
  rewrite Z2Nat.id by lia. apply Qred_correct.
Qed.

Lemma tabulate_all_eq : forall shape a, length a = length shape ->
  acc_eq_in shape (map acc_of_list (tabulate_all a shape)) a.
Proof.
  induction shape as [|d s IH]; intros a Ha.
  - destruct a; [|discriminate]. repeat split; simpl; auto; try (intros i j Hi; simpl in Hi; lia).
  - destruct a as [|f a]; [discriminate|]. simpl in Ha.
    destruct (IH a ltac:(lia)) as (L1 & L2 & H).
    split; [simpl; now rewrite L1|]. split; [simpl; lia|].
    intros i j Hi Hj. destruct i as [|i]; simpl in *.
    + unfold acc_at. simpl. now apply acc_of_tabulate.
    + apply (H i j); [lia | exact Hj].
Qed.

Lemma acc_eq_in_trans shape a b c : acc_eq_in shape a b -> acc_eq_in shape b c -> acc_eq_in shape a c.
Proof.
  intros (A1 & A2 & A3) (B1 & B2 & B3). repeat split; auto.
  intros i j Hi Hj. now rewrite (A3 i j Hi Hj), (B3 i j Hi Hj).
Qed.

Lemma acc_eq_in_refl shape a : length a = length shape -> acc_eq_in shape a a.
Proof. intro H. repeat split; auto; try (intros; reflexivity). Qed.

(* one executed step = one model step, in range *)
Lemma step_l_sound shape beta al gl :
  acc_eq_in shape (map acc_of_list (step_l shape beta al gl))
                  (step shape beta (map acc_of_list al) (tensor_of_list shape gl)).
Proof. unfold step_l. apply tabulate_all_eq. apply step_length. Qed.

(* iterating the executed step *)
Definition run_l (shape : list Z) (beta : Q) (al : list (list Q)) (gls : list (list Q)) : list (list Q) :=
  fold_left (step_l shape beta) gls al.

Lemma run_l_sound shape beta gls : shape <> [] -> forall al a,
  acc_eq_in shape (map acc_of_list al) a ->
  acc_eq_in shape (map acc_of_list (run_l shape beta al gls))
                  (run_from shape beta a (map (tensor_of_list shape) gls)).
Proof.
  intro Hs. induction gls as [|gl gls IH]; intros al a H; [exact H|].
  unfold run_l, run_from in *. simpl. apply IH.
  eapply acc_eq_in_trans; [apply step_l_sound|].
  apply step_ext; auto. intros; reflexivity.
Qed.

Lemma min_acc_ext shape a b ix : acc_eq_in shape a b -> in_shape shape ix ->
  min_acc a ix == min_acc b ix.
Proof.
  intros (Ha & Hb & H) Hix. unfold min_acc. apply minl_Qeq. now apply (vals_Qeq shape).
Qed.

(* cover for the executed lists: from ANY list state whose accumulators cover e *)
Lemma cover_lists shape beta gls ix al e :
  shape <> [] -> 0 < beta -> beta <= 1 -> in_shape shape ix ->
  covers shape e (map acc_of_list al) ->
  exact_run_from beta e (map (tensor_of_list shape) gls) ix
  <= min_acc (map acc_of_list (run_l shape beta al gls)) ix.
Proof.
  intros Hs Hb H1 Hix Hc.
  destruct (cover_run_from shape beta (map (tensor_of_list shape) gls) Hs (Qlt_le_weak _ _ Hb) _ _ Hc)
    as [_ Hcov].
  rewrite (min_acc_ext shape _ _ ix (run_l_sound shape beta gls Hs al _
             (acc_eq_in_refl shape _ (proj1 Hc))) Hix).
  now apply Hcov.
Qed.
