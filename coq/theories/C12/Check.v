(* C12/Check.v — boolean checkers evaluated by vm_compute on the implementation's observed
   accumulators / updates (exact rationals of the floats).  Definitions only. *)
From Precond Require Import C12.Model.
Open Scope Q_scope.

(* |model - obs| <= tau * |model|   (tau = 0 : exact equality) *)
Definition close (tau model obs : Q) : bool := Qle_bool (Qabs (model - obs)) (tau * Qabs model).

Fixpoint all2 {A B} (f : A -> B -> bool) (l1 : list A) (l2 : list B) : bool :=
  match l1, l2 with
  | [], [] => true
  | x :: s, y :: t => f x y && all2 f s t
  | _, _ => false
  end.

Definition close_ll (tau : Q) (m o : list (list Q)) : bool := all2 (all2 (close tau)) m o.

(* one transition: model step from the OBSERVED previous accumulators vs observed new ones *)
Definition chk_step (shape : list Z) (beta tau : Q) (al : list (list Q)) (gl : list Q)
                    (al' : list (list Q)) : bool :=
  close_ll tau (step_l shape beta al gl) al'.

(* cover of the exact accumulator by the observed accumulators, entry by entry:
   e(ix) <= (1 + tau) * a_i(ix_i) for every axis i *)
Definition chk_cover (shape : list Z) (tau : Q) (el : list Q) (al : list (list Q)) : bool :=
  let a := map acc_of_list al in
  all2 (fun ix e => forallb (fun v => Qle_bool e ((1 + tau) * v)) (vals a ix)) (all_idx shape) el.

(* beta = 1: no accumulator entry decreases *)
Definition chk_monotone (al al' : list (list Q)) : bool := all2 (all2 Qle_bool) al al'.

(* update, beta1 = 0 and no weight decay: u = -lr * g / sqrt(nu + eps), checked without sqrt:
   sign(u) = -sign(g)  and  | u^2 (nu+eps) - lr^2 g^2 | <= tau * lr^2 g^2 *)
Definition chk_update1 (lr eps tau nu g u : Q) : bool :=
  Qle_bool (u * g * lr) 0 &&
  Qle_bool (Qabs (u * u * (nu + eps) - lr * lr * (g * g))) (tau * (lr * lr * (g * g))).

Fixpoint all3 (f : Q -> Q -> Q -> bool) (l1 l2 l3 : list Q) : bool :=
  match l1, l2, l3 with
  | [], [], [] => true
  | x :: s, y :: t, z :: r => f x y z && all3 f s t r
  | _, _, _ => false
  end.

Definition chk_update (shape : list Z) (beta lr eps tau : Q) (al : list (list Q)) (gl ul : list Q)
  : bool :=
  all3 (chk_update1 lr eps tau) (nu_l shape beta al gl) gl ul.

(* squared step-size comparison with exact AdaGrad/RMSProp, entry by entry, on the model's nu
   (computed from the observed accumulators) and the exact accumulator e' (after this step):
   g^2/(nu+eps) <= (1+tau) * g^2/(e'+eps) *)
Definition chk_stepsize (shape : list Z) (beta eps tau : Q) (al : list (list Q)) (gl el' : list Q)
  : bool :=
  all3 (fun v g e => Qle_bool (g * g / (v + eps)) ((1 + tau) * (g * g / (e + eps))))
       (nu_l shape beta al gl) gl el'.

Definition zeros_ll (shape : list Z) : list (list Q) := map (fun d => map (fun _ => 0) (zrange d)) shape.

(* Whole history.  steps = [(g_t, observed accumulators after step t, observed update or [])].
   Result 0 = all checks pass, otherwise 10*(t+1) + k with
     k = 1 model/implementation accumulators differ      (correspondence)
         2 cover violated                                (property, on the implementation)
         3 monotonicity violated (beta = 1)              (property, on the implementation)
         4 update differs from -lr*g/sqrt(nu+eps)         (correspondence; only if u given)
         5 squared step exceeds exact AdaGrad/RMSProp     (property, model nu on observed state)
         6 initial state not zero *)
Fixpoint chk_steps (shape : list Z) (beta lr eps tau tauu : Q) (t : Z)
                   (al : list (list Q)) (el : list Q)
                   (steps : list (list Q * list (list Q) * list Q)) : Z :=
  match steps with
  | [] => 0%Z
  | (gl, al', ul) :: rest =>
      let el' := exact_step_l beta el gl in
      if negb (chk_step shape beta tau al gl al') then (10 * (t + 1) + 1)%Z
      else if negb (chk_cover shape tau el' al') then (10 * (t + 1) + 2)%Z
      else if (Qeq_bool beta 1 && negb (chk_monotone al al'))%bool then (10 * (t + 1) + 3)%Z
      else if (negb (is_nil ul) && negb (chk_update shape beta lr eps tauu al gl ul))%bool
           then (10 * (t + 1) + 4)%Z
      else if negb (chk_stepsize shape beta eps tau al gl el') then (10 * (t + 1) + 5)%Z
      else chk_steps shape beta lr eps tau tauu (t + 1)%Z al' el' rest
  end.

Definition chk_history (shape : list Z) (beta lr eps tau tauu : Q) (a0 : list (list Q))
                       (steps : list (list Q * list (list Q) * list Q)) : Z :=
  if negb (close_ll 0 (zeros_ll shape) a0) then 6%Z
  else chk_steps shape beta lr eps tau tauu 0%Z a0
                 (map (fun _ => 0) (all_idx shape)) steps.
