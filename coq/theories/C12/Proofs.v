(* C12/Proofs.v — SM3 cover / monotonicity / rank-1 = AdaGrad / step-size lemmas. *)
From Precond Require Import C12.Model.
From Coq Require Import Lia Lqa.
Open Scope Q_scope.

(* ---------- min / max over lists ---------- *)
Lemma fold_Qmin_le_init l : forall x, fold_left Qmin l x <= x.
Proof.
  induction l as [|y l IH]; intro x; simpl; [apply Qle_refl|].
  eapply Qle_trans; [apply IH|]. apply Q.le_min_l.
Qed.

Lemma fold_Qmin_le_in l : forall x y, In y l -> fold_left Qmin l x <= y.
Proof.
  induction l as [|z l IH]; intros x y H; simpl in *; [contradiction|].
  destruct H as [->|H].
  - eapply Qle_trans; [apply fold_Qmin_le_init|]. apply Q.le_min_r.
  - now apply IH.
Qed.

Lemma minl_le l y : In y l -> minl l <= y.
Proof.
  destruct l as [|x l]; simpl; [contradiction|]. intros [->|H].
  - apply fold_Qmin_le_init.
  - now apply fold_Qmin_le_in.
Qed.

Lemma fold_Qmin_glb l : forall x y, y <= x -> (forall z, In z l -> y <= z) -> y <= fold_left Qmin l x.
Proof.
  induction l as [|z l IH]; intros x y Hx H; simpl; [exact Hx|].
  apply IH.
  - apply Q.min_glb; [exact Hx | apply H; now left].
  - intros; apply H; now right.
Qed.

Lemma minl_glb l y : l <> [] -> (forall z, In z l -> y <= z) -> y <= minl l.
Proof.
  destruct l as [|x l]; [congruence|]. intros _ H. simpl.
  apply fold_Qmin_glb; [apply H; now left | intros; apply H; now right].
Qed.

Lemma fold_Qmax_ge_init l : forall x, x <= fold_left Qmax l x.
Proof.
  induction l as [|y l IH]; intro x; simpl; [apply Qle_refl|].
  eapply Qle_trans; [|apply IH]. apply Q.le_max_l.
Qed.

Lemma fold_Qmax_ge_in l : forall x y, In y l -> y <= fold_left Qmax l x.
Proof.
  induction l as [|z l IH]; intros x y H; simpl in *; [contradiction|].
  destruct H as [->|H].
  - eapply Qle_trans; [|apply fold_Qmax_ge_init]. apply Q.le_max_r.
  - now apply IH.
Qed.

Lemma maxl_ge l y : In y l -> y <= maxl l.
Proof.
  destruct l as [|x l]; simpl; [contradiction|]. intros [->|H].
  - apply fold_Qmax_ge_init.
  - now apply fold_Qmax_ge_in.
Qed.

Lemma Qmax_is_arg x y : Qmax x y = x \/ Qmax x y = y.
Proof.
  unfold Qmax, GenericMinMax.gmax. destruct (x ?= y); auto.
Qed.

Lemma fold_Qmax_in l : forall x, fold_left Qmax l x = x \/ In (fold_left Qmax l x) l.
Proof.
  induction l as [|y l IH]; intro x; simpl; [now left|].
  destruct (IH (Qmax x y)) as [E|I].
  - rewrite E. destruct (Qmax_is_arg x y) as [->| ->]; auto.
  - right; now right.
Qed.

Lemma maxl_in l : l <> [] -> In (maxl l) l.
Proof.
  destruct l as [|x l]; [congruence|]. intros _. simpl.
  destruct (fold_Qmax_in l x) as [->|I]; auto.
Qed.

(* ---------- indices ---------- *)
Lemma in_zrange d i : In i (zrange d) <-> (0 <= i < d)%Z.
Proof.
  unfold zrange. rewrite in_map_iff. split.
  - intros (k & <- & Hk). apply in_seq in Hk. lia.
  - intros H. exists (Z.to_nat i). split; [lia|]. apply in_seq. lia.
Qed.

Lemma in_all_idx shape : forall ix, In ix (all_idx shape) <-> in_shape shape ix.
Proof.
  unfold in_shape. induction shape as [|d s IH]; intro ix; simpl.
  - split.
    + intros [<-|[]]. constructor.
    + intro H; inversion H; now left.
  - rewrite in_flat_map. split.
    + intros (i & Hi & Hm). apply in_map_iff in Hm as (t & <- & Ht).
      constructor; [now apply in_zrange | now apply IH].
    + intro H. inversion H as [|? i ? t Hd Ht]; subst.
      exists i. split; [now apply in_zrange|]. apply in_map_iff. exists t. split; auto. now apply IH.
Qed.

Lemma in_shape_length shape ix : in_shape shape ix -> length ix = length shape.
Proof. unfold in_shape. intro H. induction H; simpl; congruence. Qed.

Lemma in_shape_nth shape : forall ix i, in_shape shape ix -> (i < length shape)%nat ->
  (0 <= ix_at ix i < nth i shape 0%Z)%Z.
Proof.
  unfold in_shape, ix_at. induction shape as [|d s IH]; intros ix i H Hi; simpl in Hi; [lia|].
  inversion H as [|? j ? t Hd Ht]; subst. destruct i as [|i]; simpl; [exact Hd|].
  apply IH; [exact Ht | lia].
Qed.

(* an index inside the shape whose i-th coordinate is j *)
Lemma exists_ix_with shape : Forall (fun d => (1 <= d)%Z) shape ->
  forall i j, (i < length shape)%nat -> (0 <= j < nth i shape 0%Z)%Z ->
  exists ix, in_shape shape ix /\ ix_at ix i = j.
Proof.
  unfold in_shape, ix_at. induction shape as [|d s IH]; intros Hd i j Hi Hj; simpl in Hi; [lia|].
  inversion Hd as [|? ? Hd1 Hds]; subst. destruct i as [|i]; simpl in Hj.
  - assert (Hz : exists t, Forall2 (fun d i => (0 <= i < d)%Z) s t).
    { clear -Hds. induction s as [|d' s IH']; [exists []; constructor|].
      inversion Hds; subst. destruct IH' as [t Ht]; auto. exists (0%Z :: t). constructor; [lia|auto]. }
    destruct Hz as [t Ht]. exists (j :: t). split; [constructor; auto | reflexivity].
  - destruct (IH Hds i j) as (t & Ht & Hti); [lia | exact Hj |].
    exists (0%Z :: t). split; [constructor; [lia | exact Ht] | exact Hti].
Qed.

(* ---------- values of the accumulators along an index ---------- *)
Lemma vals_in a : forall ix x, In x (vals a ix) ->
  exists i, (i < length a)%nat /\ x = acc_at a i (ix_at ix i).
Proof.
  induction a as [|f a IH]; intros [|j ix] x H; simpl in H; try contradiction.
  destruct H as [<-|H].
  - exists 0%nat. split; [simpl; lia | reflexivity].
  - destruct (IH ix x H) as (i & Hi & ->). exists (S i). split; [simpl; lia | reflexivity].
Qed.

Lemma in_vals a : forall ix i, length ix = length a -> (i < length a)%nat ->
  In (acc_at a i (ix_at ix i)) (vals a ix).
Proof.
  induction a as [|f a IH]; intros [|j ix] i HL Hi; simpl in *; try lia.
  destruct i as [|i]; [now left|]. right. apply (IH ix i); lia.
Qed.

Lemma vals_nonempty a ix : a <> [] -> length ix = length a -> vals a ix <> [].
Proof. destruct a, ix; simpl; try congruence; discriminate. Qed.

Lemma min_acc_le a ix i : length ix = length a -> (i < length a)%nat ->
  min_acc a ix <= acc_at a i (ix_at ix i).
Proof. intros. apply minl_le. now apply in_vals. Qed.

Lemma min_acc_glb a ix y : a <> [] -> length ix = length a ->
  (forall i, (i < length a)%nat -> y <= acc_at a i (ix_at ix i)) -> y <= min_acc a ix.
Proof.
  intros Ha HL H. apply minl_glb; [now apply vals_nonempty|].
  intros z Hz. destruct (vals_in a ix z Hz) as (i & Hi & ->). now apply H.
Qed.

(* ---------- weights ---------- *)
Lemma wt_nonneg beta : beta <= 1 -> 0 <= wt beta.
Proof. unfold wt. intro H. destruct (Qeq_bool beta 1); lra. Qed.

Lemma wt_one beta : beta == 1 -> wt beta = 1.
Proof. unfold wt. intro H. apply Qeq_bool_iff in H. now rewrite H. Qed.

Lemma sq_nonneg x : 0 <= sq x.
Proof. unfold sq. nra. Qed.

(* ---------- moving_averages is nu on well-formed indices ---------- *)
Lemma moving_averages_nu shape beta a g ix :
  length a = length shape -> length ix = length shape -> shape <> [] ->
  moving_averages shape beta a g ix = nu beta a g ix.
Proof.
  intros Ha Hix Hs. unfold moving_averages.
  destruct shape as [|d [|d2 s]]; [congruence| |reflexivity].
  destruct a as [|f [|? ?]]; try discriminate. destruct ix as [|j [|? ?]]; try discriminate.
  reflexivity.
Qed.

(* ---------- the two key facts about one step ---------- *)
Lemma nth_map_seq {A} (f : nat -> A) n i d : (i < n)%nat -> nth i (map f (seq 0 n)) d = f i.
Proof.
  intro H. rewrite (nth_indep _ d (f 0%nat)) by (rewrite map_length, seq_length; exact H).
  rewrite map_nth. now rewrite seq_nth.
Qed.

Lemma step_length shape beta a g : length (step shape beta a g) = length shape.
Proof.
  unfold step. destruct shape as [|d [|d2 s]]; try reflexivity;
    unfold sketch_all; now rewrite map_length, seq_length.
Qed.

(* K1: every accumulator dominates nu at every index through it *)
Lemma step_dominates shape beta a g ix i :
  in_shape shape ix -> (i < length shape)%nat ->
  moving_averages shape beta a g ix <= acc_at (step shape beta a g) i (ix_at ix i).
Proof.
  intros Hix Hi. unfold step.
  destruct shape as [|d [|d2 s]]; [simpl in Hi; lia| |].
  - (* rank 1 *)
    inversion Hix as [|? j ? t Hd Ht]; subst. inversion Ht; subst.
    destruct i as [|i]; [|simpl in Hi; lia]. unfold acc_at, ix_at; simpl. apply Qle_refl.
  - set (shape := d :: d2 :: s) in *. unfold acc_at, sketch_all.
    rewrite nth_map_seq by exact Hi. unfold sketch.
    apply maxl_ge. apply in_map. apply filter_In. split.
    + now apply in_all_idx.
    + unfold ax_eq. apply Z.eqb_refl.
Qed.

(* K2: every accumulator value is nu at some index through it *)
Lemma step_attains shape beta a g i j :
  Forall (fun d => (1 <= d)%Z) shape -> (i < length shape)%nat -> (0 <= j < nth i shape 0%Z)%Z ->
  exists ix, in_shape shape ix /\ ix_at ix i = j /\
             acc_at (step shape beta a g) i j = moving_averages shape beta a g ix.
Proof.
  intros Hd Hi Hj. unfold step.
  destruct shape as [|d [|d2 s]]; [simpl in Hi; lia| |].
  - destruct i as [|i]; [|simpl in Hi; lia]. simpl in Hj.
    exists [j]. split; [repeat constructor; lia|]. split; reflexivity.
  - set (shape := d :: d2 :: s) in *. unfold acc_at, sketch_all.
    rewrite nth_map_seq by exact Hi. unfold sketch.
    set (L := filter (ax_eq i j) (all_idx shape)).
    assert (HL : L <> []).
    { destruct (exists_ix_with shape Hd i j Hi Hj) as (ix & Hix & Hixi).
      assert (In ix L) as HI.
      { apply filter_In. split; [now apply in_all_idx|]. unfold ax_eq. now apply Z.eqb_eq. }
      intro E. rewrite E in HI. contradiction. }
    assert (Hm : map (moving_averages shape beta a g) L <> []) by (destruct L; [congruence|discriminate]).
    pose proof (maxl_in _ Hm) as HI. apply in_map_iff in HI as (ix & Hv & HixL).
    apply filter_In in HixL as [Hall Heq].
    exists ix. split; [now apply in_all_idx|]. split; [now apply Z.eqb_eq in Heq | now symmetry].
Qed.

(* ---------- cover ---------- *)
Definition covers (shape : list Z) (e : tensor) (a : list acc) : Prop :=
  length a = length shape /\ forall ix, in_shape shape ix -> e ix <= min_acc a ix.

Lemma cover_step shape beta e a g :
  shape <> [] -> 0 <= beta ->
  covers shape e a -> covers shape (exact_step beta e g) (step shape beta a g).
Proof.
  intros Hs Hb [Ha Hc]. split; [apply step_length|].
  intros ix Hix. pose proof (in_shape_length _ _ Hix) as HL.
  assert (Hnu : exact_step beta e g ix <= moving_averages shape beta a g ix).
  { rewrite moving_averages_nu by congruence. unfold exact_step, nu.
    specialize (Hc ix Hix). nra. }
  apply min_acc_glb.
  - intro E. apply Hs. apply length_zero_iff_nil. rewrite <- (step_length shape beta a g), E. reflexivity.
  - now rewrite step_length.
  - rewrite step_length. intros i Hi. eapply Qle_trans; [exact Hnu|]. now apply step_dominates.
Qed.

Lemma acc_at_init shape i : acc_at (init shape) i = zero_acc.
Proof.
  unfold acc_at, init. revert i. induction shape as [|d s IH]; intros [|i]; simpl; auto.
Qed.

Lemma cover_init shape : shape <> [] -> covers shape (fun _ => 0) (init shape).
Proof.
  intro Hs. split; [unfold init; now rewrite map_length|].
  intros ix Hix. apply min_acc_glb.
  - unfold init. destruct shape; [congruence|discriminate].
  - unfold init. rewrite map_length. now apply in_shape_length.
  - unfold init. rewrite map_length. intros i Hi. rewrite acc_at_init. unfold zero_acc. apply Qle_refl.
Qed.

Lemma cover_run_from shape beta gs : shape <> [] -> 0 <= beta ->
  forall e a, covers shape e a -> covers shape (exact_run_from beta e gs) (run_from shape beta a gs).
Proof.
  intros Hs Hb. induction gs as [|g gs IH]; intros e a H; [exact H|].
  unfold exact_run_from, run_from in *. simpl. apply IH. now apply cover_step.
Qed.

Lemma sm3_cover shape beta gs ix :
  shape <> [] -> 0 < beta -> beta <= 1 -> in_shape shape ix ->
  exact_run beta gs ix <= min_acc (run shape beta gs) ix.
Proof.
  intros Hs Hb _ Hix.
  destruct (cover_run_from shape beta gs Hs (Qlt_le_weak _ _ Hb) _ _ (cover_init shape Hs)) as [_ H].
  now apply H.
Qed.

(* per axis form: e_T(ix) <= a_{i,T}(ix_i) for every axis i *)
Lemma sm3_cover_axis shape beta gs ix i :
  shape <> [] -> 0 < beta -> beta <= 1 -> in_shape shape ix -> (i < length shape)%nat ->
  exact_run beta gs ix <= acc_at (run shape beta gs) i (ix_at ix i).
Proof.
  intros Hs Hb H1 Hix Hi.
  destruct (cover_run_from shape beta gs Hs (Qlt_le_weak _ _ Hb) _ _ (cover_init shape Hs)) as [HL _].
  apply Qle_trans with (min_acc (run shape beta gs) ix); [now apply sm3_cover|].
  fold (run shape beta gs) in HL.
  apply min_acc_le; [rewrite (in_shape_length _ _ Hix); now symmetry | now rewrite HL].
Qed.

(* ---------- reachable-state invariant and monotonicity (beta = 1) ---------- *)
Lemma step_attained shape beta a g :
  Forall (fun d => (1 <= d)%Z) shape -> attained shape (step shape beta a g).
Proof.
  intros Hd i j Hi Hj.
  destruct (step_attains shape beta a g i j Hd Hi Hj) as (ix & Hix & Hixi & Hv).
  exists ix. split; [exact Hix|]. split; [exact Hixi|].
  intros k Hk. rewrite Hv. now apply step_dominates.
Qed.

Lemma init_attained shape : Forall (fun d => (1 <= d)%Z) shape -> attained shape (init shape).
Proof.
  intros Hd i j Hi Hj. destruct (exists_ix_with shape Hd i j Hi Hj) as (ix & Hix & Hixi).
  exists ix. split; [exact Hix|]. split; [exact Hixi|].
  intros k _. rewrite !acc_at_init. unfold zero_acc. apply Qle_refl.
Qed.

Lemma run_from_attained shape beta gs : Forall (fun d => (1 <= d)%Z) shape ->
  forall a, attained shape a -> attained shape (run_from shape beta a gs).
Proof.
  intro Hd. induction gs as [|g gs IH]; intros a Ha; [exact Ha|].
  unfold run_from in *. simpl. apply IH. now apply step_attained.
Qed.

Lemma run_attained shape beta gs : Forall (fun d => (1 <= d)%Z) shape ->
  attained shape (run shape beta gs).
Proof. intro Hd. apply run_from_attained; [exact Hd | now apply init_attained]. Qed.

Lemma run_from_length shape beta gs : forall a, length a = length shape ->
  length (run_from shape beta a gs) = length shape.
Proof.
  induction gs as [|g gs IH]; intros a Ha; [exact Ha|].
  unfold run_from in *. simpl. apply IH. apply step_length.
Qed.

Lemma run_length shape beta gs : length (run shape beta gs) = length shape.
Proof. apply run_from_length. unfold init. now rewrite map_length. Qed.

Lemma monotone_step shape beta a g i j :
  shape <> [] -> beta == 1 -> length a = length shape -> attained shape a ->
  (i < length shape)%nat -> (0 <= j < nth i shape 0%Z)%Z ->
  acc_at a i j <= acc_at (step shape beta a g) i j.
Proof.
  intros Hs Hb Ha Hatt Hi Hj.
  destruct (Hatt i j Hi Hj) as (ix & Hix & Hixi & Hk).
  pose proof (in_shape_length _ _ Hix) as HL.
  apply Qle_trans with (moving_averages shape beta a g ix).
  - rewrite moving_averages_nu by congruence. unfold nu. rewrite (wt_one beta Hb).
    assert (Hm : acc_at a i j <= min_acc a ix).
    { apply min_acc_glb.
      - intro E. apply Hs. apply length_zero_iff_nil. now rewrite <- Ha, E.
      - congruence.
      - rewrite Ha. exact Hk. }
    pose proof (sq_nonneg (g ix)). rewrite Hb. lra.
  - rewrite <- Hixi. now apply step_dominates.
Qed.

Lemma sm3_monotone shape beta gs g i j :
  shape <> [] -> Forall (fun d => (1 <= d)%Z) shape -> beta == 1 ->
  (i < length shape)%nat -> (0 <= j < nth i shape 0%Z)%Z ->
  acc_at (run shape beta gs) i j <= acc_at (run shape beta (gs ++ [g])) i j.
Proof.
  intros Hs Hd Hb Hi Hj.
  unfold run at 2, run_from. rewrite fold_left_app. simpl.
  fold (run_from shape beta (init shape) gs). fold (run shape beta gs).
  apply monotone_step; auto; [apply run_length | now apply run_attained].
Qed.

(* the reachability hypothesis is needed: from an arbitrary (unreachable) state an accumulator
   can decrease even with beta = 1 and a zero gradient *)
Definition bad_state : list acc := [(fun j => if (j =? 0)%Z then 5 else 0); zero_acc].

Lemma sm3_monotone_unreachable_refuted :
  exists shape a g,
    length a = length shape /\ ~ attained shape a /\
    ~ (acc_at a 0 0%Z <= acc_at (step shape 1 a g) 0 0%Z).
Proof.
  exists [2%Z; 2%Z], bad_state, (fun _ => 0).
  split; [reflexivity|]. split.
  - intro H. destruct (H 0%nat 0%Z) as (ix & Hix & Hixi & Hk); [simpl; lia | simpl; lia |].
    specialize (Hk 1%nat ltac:(simpl; lia)). unfold bad_state, acc_at, zero_acc in Hk. simpl in Hk.
    revert Hk. unfold Qle. simpl. lia.
  - vm_compute. intro H. apply H. reflexivity.
Qed.

(* ---------- rank 1: SM3 is diagonal AdaGrad / RMSProp ---------- *)
Lemma rank1_run_from d beta gs : forall (f : acc) (e : tensor),
  (forall j, f j == e [j]) ->
  exists f', run_from [d] beta [f] gs = [f'] /\ forall j, f' j == exact_run_from beta e gs [j].
Proof.
  induction gs as [|g gs IH]; intros f e H.
  - exists f. split; [reflexivity | exact H].
  - unfold run_from, exact_run_from in *. simpl fold_left.
    apply IH. intro j. unfold moving_averages, nu_rank1, exact_step, acc_at, ix_at. simpl.
    now rewrite H.
Qed.

Lemma sm3_rank1_is_adagrad d beta gs j :
  acc_at (run [d] beta gs) 0 j == exact_run beta gs [j].
Proof.
  destruct (rank1_run_from d beta gs zero_acc (fun _ => 0)) as (f' & E & H).
  - intro; reflexivity.
  - unfold run, init. simpl map. rewrite E. unfold acc_at. simpl. apply H.
Qed.

(* ---------- step size: SM3's per-coordinate step never exceeds AdaGrad/RMSProp's ---------- *)
Lemma exact_run_from_nonneg beta gs : 0 <= beta -> beta <= 1 ->
  forall e, (forall ix, 0 <= e ix) -> forall ix, 0 <= exact_run_from beta e gs ix.
Proof.
  intros Hb H1. induction gs as [|g gs IH]; intros e He ix; [apply He|].
  unfold exact_run_from in *. simpl. apply IH. intro ix'. unfold exact_step.
  pose proof (He ix'). pose proof (wt_nonneg beta H1). pose proof (sq_nonneg (g ix')). nra.
Qed.

Lemma exact_run_snoc beta gs g ix :
  exact_run beta (gs ++ [g]) ix = exact_step beta (exact_run beta gs) g ix.
Proof. unfold exact_run, exact_run_from. now rewrite fold_left_app. Qed.

Lemma Qdiv_le_denominators x a b : 0 <= x -> 0 < a -> a <= b -> x / b <= x / a.
Proof.
  intros Hx Ha Hab. assert (Hb : 0 < b) by lra.
  apply Qle_shift_div_l; [exact Ha|].
  assert (E : x / b * a == x * (a / b)) by (field; lra). rewrite E.
  assert (Hq : a / b <= 1) by (apply Qle_shift_div_r; lra).
  assert (Hq0 : 0 <= a / b) by (apply Qle_shift_div_l; lra).
  nra.
Qed.

Lemma sm3_step_le_adagrad shape beta gs g ix eps :
  shape <> [] -> 0 < beta -> beta <= 1 -> 0 < eps -> in_shape shape ix ->
  sq (g ix) / (moving_averages shape beta (run shape beta gs) g ix + eps)
  <= sq (g ix) / (exact_run beta (gs ++ [g]) ix + eps).
Proof.
  intros Hs Hb H1 He Hix.
  assert (Hb0 : 0 <= beta) by lra.
  pose proof (in_shape_length _ _ Hix) as HL.
  assert (Hcov : exact_run beta (gs ++ [g]) ix <= moving_averages shape beta (run shape beta gs) g ix).
  { rewrite exact_run_snoc.
    rewrite moving_averages_nu; [| apply run_length | exact HL | exact Hs].
    unfold exact_step, nu. pose proof (sm3_cover shape beta gs ix Hs Hb H1 Hix). nra. }
  assert (Hnn : 0 <= exact_run beta (gs ++ [g]) ix).
  { apply exact_run_from_nonneg; auto. intro; apply Qle_refl. }
  apply Qdiv_le_denominators; [apply sq_nonneg | lra | lra].
Qed.
