(* C12/Model.v — executable model of precondition/sm3.py (accumulator part).  Definitions only.

   A tensor of arbitrary rank is an index function  list Z -> Q  together with a shape; the SM3
   state of one parameter is one accumulator function  Z -> Q  per axis.

     _moving_averages            nu(ix)  = beta * min_i a_i(ix_i) + w * g(ix)^2      (rank >= 2)
                                 nu(ix)  = beta * a_0(ix_0)       + w * g(ix)^2      (rank  < 2)
                                 w = 1 - beta if beta <> 1 else 1
     _sketch_diagonal_statistics a_i'(j) = max { nu(ix) | ix in shape, ix_i = j }    (rank >= 2)
                                 a_0'    = nu                                         (rank = 1)
     exact diagonal accumulator  e'(ix)  = beta * e(ix) + w * g(ix)^2   (AdaGrad / RMSProp)      *)
From Coq Require Export QArith Qminmax Qabs.
From Precond Require Export Base.PyLib.
Open Scope Q_scope.

Definition idx := list Z.
Definition tensor := idx -> Q.
Definition acc := Z -> Q.

Definition zero_acc : acc := fun _ => 0.
Definition acc_at (a : list acc) (i : nat) : acc := nth i a zero_acc.
Definition ix_at (ix : idx) (i : nat) : Z := nth i ix (-1)%Z.

Definition sq (x : Q) : Q := x * x.
Definition wt (beta : Q) : Q := if Qeq_bool beta 1 then 1 else 1 - beta.

(* all indices of a shape, row-major (last axis fastest) *)
Fixpoint all_idx (shape : list Z) : list idx :=
  match shape with
  | [] => [[]]
  | d :: s => flat_map (fun i => map (cons i) (all_idx s)) (zrange d)
  end.

Definition in_shape (shape : list Z) (ix : idx) : Prop :=
  Forall2 (fun d i => (0 <= i < d)%Z) shape ix.

Definition minl (l : list Q) : Q := match l with [] => 0 | x :: t => fold_left Qmin t x end.
Definition maxl (l : list Q) : Q := match l with [] => 0 | x :: t => fold_left Qmax t x end.

(* a_i(ix_i) for every axis i *)
Fixpoint vals (a : list acc) (ix : idx) : list Q :=
  match a, ix with
  | f :: a', i :: ix' => f i :: vals a' ix'
  | _, _ => []
  end.

(* functools.reduce(jnp.minimum, accumulators) at one index *)
Definition min_acc (a : list acc) (ix : idx) : Q := minl (vals a ix).

Definition nu (beta : Q) (a : list acc) (g : tensor) : tensor :=
  fun ix => beta * min_acc a ix + wt beta * sq (g ix).

(* the grad.ndim < 2 branch of _moving_averages *)
Definition nu_rank1 (beta : Q) (a : list acc) (g : tensor) : tensor :=
  fun ix => beta * acc_at a 0 (ix_at ix 0) + wt beta * sq (g ix).

Definition moving_averages (shape : list Z) (beta : Q) (a : list acc) (g : tensor) : tensor :=
  if (length shape <? 2)%nat then nu_rank1 beta a g else nu beta a g.

Definition ax_eq (i : nat) (j : Z) (ix : idx) : bool := (ix_at ix i =? j)%Z.

(* jnp.max(v, axis = all axes but i) at position j *)
Definition sketch (shape : list Z) (v : tensor) (i : nat) : acc :=
  fun j => maxl (map v (filter (ax_eq i j) (all_idx shape))).

Definition sketch_all (shape : list Z) (v : tensor) : list acc :=
  map (sketch shape v) (seq 0 (length shape)).

(* one SM3 accumulator update *)
Definition step (shape : list Z) (beta : Q) (a : list acc) (g : tensor) : list acc :=
  let v := moving_averages shape beta a g in
  match shape with
  | [_] => [fun j => v [j]]
  | _ => sketch_all shape v
  end.

Definition init (shape : list Z) : list acc := map (fun _ => zero_acc) shape.

Definition run_from (shape : list Z) (beta : Q) (a : list acc) (gs : list tensor) : list acc :=
  fold_left (step shape beta) gs a.
Definition run (shape : list Z) (beta : Q) (gs : list tensor) : list acc :=
  run_from shape beta (init shape) gs.

(* exact per-coordinate accumulator (diagonal AdaGrad for beta = 1, RMSProp otherwise) *)
Definition exact_step (beta : Q) (e g : tensor) : tensor :=
  fun ix => beta * e ix + wt beta * sq (g ix).
Definition exact_run_from (beta : Q) (e : tensor) (gs : list tensor) : tensor :=
  fold_left (exact_step beta) gs e.
Definition exact_run (beta : Q) (gs : list tensor) : tensor :=
  exact_run_from beta (fun _ => 0) gs.

(* reachable-state invariant used for monotonicity: every accumulator value is attained at an
   index all of whose accumulators are at least as large *)
Definition attained (shape : list Z) (a : list acc) : Prop :=
  forall i j, (i < length shape)%nat -> (0 <= j < nth i shape 0%Z)%Z ->
    exists ix, in_shape shape ix /\ ix_at ix i = j /\
               forall k, (k < length shape)%nat -> acc_at a i j <= acc_at a k (ix_at ix k).

(* ---------------------------------------------------------------------------------------------
   List-backed execution (for the correspondence check; the SAME step function is run, on
   functions that read lists) *)
Definition acc_of_list (l : list Q) : acc := fun j => nth (Z.to_nat j) l 0.

Fixpoint flat_index_from (k : Z) (shape : list Z) (ix : idx) : Z :=
  match shape, ix with
  | d :: s, i :: ix' => flat_index_from (k * d + i)%Z s ix'
  | _, _ => k
  end.
Definition flat_index (shape : list Z) (ix : idx) : Z := flat_index_from 0%Z shape ix.

Definition tensor_of_list (shape : list Z) (l : list Q) : tensor :=
  fun ix => nth (Z.to_nat (flat_index shape ix)) l 0.

Definition tabulate (f : acc) (d : Z) : list Q := map (fun j => Qred (f j)) (zrange d).

Fixpoint tabulate_all (a : list acc) (shape : list Z) : list (list Q) :=
  match a, shape with
  | f :: a', d :: s => tabulate f d :: tabulate_all a' s
  | _, _ => []
  end.

Definition step_l (shape : list Z) (beta : Q) (al : list (list Q)) (gl : list Q) : list (list Q) :=
  tabulate_all (step shape beta (map acc_of_list al) (tensor_of_list shape gl)) shape.

Definition nu_l (shape : list Z) (beta : Q) (al : list (list Q)) (gl : list Q) : list Q :=
  map (fun ix => Qred (moving_averages shape beta (map acc_of_list al) (tensor_of_list shape gl) ix))
      (all_idx shape).

Definition exact_step_l (beta : Q) (el gl : list Q) : list Q :=
  map (fun p => Qred (beta * fst p + wt beta * sq (snd p))) (zip el gl).
