(* The translated source of sm3._moving_averages, applied to the tabulated broadcasts of the
   accumulators, is the tabulated model [moving_averages] (every shape, beta2, accumulators, gradient). *)
From Coq Require Import QArith List Bool.
From Precond Require Import Base.PyLib Base.QMat Base.PyFloat.
From Precond Require Import C12.Model.
From Precond Require C12.Ref.
Open Scope Q_scope.

Lemma source_weight (beta : Q) :
  (if negb (Qeq_bool beta (1 # 1)) then Qminus (1 # 1) beta else (1 # 1)) = wt beta.
Proof. unfold wt. change (1 # 1) with 1. destruct (Qeq_bool beta 1); reflexivity. Qed.

Lemma moving_averages_on_list (beta : Q) (r : bool) (f0 fm gT : idx -> Q) (l : list idx) :
  Ref.sm3_moving_averages beta r (map f0 l) (map fm l) (map gT l)
  = map (fun ix => beta * (if r then f0 ix else fm ix) + wt beta * sq (gT ix)) l.
Proof.
  unfold Ref.sm3_moving_averages. cbv zeta. rewrite source_weight.
  destruct r; unfold vv_add, vv_mul, sv_mul, vmap2;
    (induction l as [|ix l IH]; cbn [map combine]; [reflexivity | f_equal; exact IH]).
Qed.

Theorem source_moving_averages_is_model (shape : list Z) (beta : Q) (a : list acc) (g : tensor) :
  Ref.sm3_moving_averages beta (length shape <? 2)%nat
      (map (fun ix => acc_at a 0 (ix_at ix 0)) (all_idx shape))
      (map (min_acc a) (all_idx shape))
      (map g (all_idx shape))
  = map (moving_averages shape beta a g) (all_idx shape).
Proof.
  rewrite moving_averages_on_list. apply map_ext. intros ix.
  unfold moving_averages, nu, nu_rank1. destruct (length shape <? 2)%nat; reflexivity.
Qed.

Lemma momentum_on_list (beta : Q) (g m : list Q) :
  Ref.sm3_moving_averages_momentum beta g m
  = map (fun '(mm, gg) => beta * mm + wt beta * gg) (combine m g).
Proof.
  unfold Ref.sm3_moving_averages_momentum. cbv zeta. rewrite source_weight.
  unfold vv_add, sv_mul, vmap2. revert g; induction m as [|mm m IH]; intros [|gg g]; cbn [map combine];
    try reflexivity. f_equal. apply IH.
Qed.
