(* C06/TensorProofs.v — splitting a tensor along an axis and concatenating the pieces back is the
   identity; hence BlockPartitioner.merge_partitions (partition t) = t for every rank, shape and
   block layout.  Tensors: Base.Tensor (shape, flat row-major data), any element type. *)
From Coq Require Import List Arith Lia.
From Precond Require Import Base.Tensor.
Import ListNotations.

Section Proofs.
  Variable A : Type.
  Notation tensor := (tensor A).

  Definition wf (t : tensor) : Prop := length (t_data t) = prodn (t_shape t).

  (* ---------- list lemmas ---------- *)
  Lemma firstn_add {B} (a b : nat) (l : list B) : firstn (a + b) l = firstn a l ++ firstn b (skipn a l).
  Proof.
    revert l; induction a as [|a IH]; intro l; [reflexivity|].
    destruct l as [|x l]; [simpl; rewrite firstn_nil; reflexivity|]. simpl. rewrite IH. reflexivity.
  Qed.

  Lemma skipn_skipn {B} (a b : nat) (l : list B) : skipn a (skipn b l) = skipn (b + a) l.
  Proof.
    revert l; induction b as [|b IH]; intro l; [reflexivity|].
    destruct l as [|x l]; [simpl; rewrite skipn_nil; reflexivity|]. simpl. apply IH.
  Qed.

  Lemma concat_chunks n : forall k (l : list A), length l = n * k -> concat (chunks n k l) = l.
  Proof.
    induction k as [|k IH]; intros l H.
    - rewrite Nat.mul_0_r in H. destruct l; [reflexivity | discriminate].
    - cbn [chunks concat]. rewrite IH.
      + apply firstn_skipn.
      + rewrite skipn_length. lia.
  Qed.

  Lemma chunks_length n k (l : list A) : length (chunks n k l) = k.
  Proof. revert l; induction k as [|k IH]; intro l; simpl; [reflexivity | rewrite IH; reflexivity]. Qed.

  Lemma chunks_all_length n : forall k (l : list A), length l = n * k ->
    Forall (fun c => length c = n) (chunks n k l).
  Proof.
    induction k as [|k IH]; intros l H; cbn [chunks]; constructor.
    - rewrite firstn_length. lia.
    - apply IH. rewrite skipn_length. lia.
  Qed.

  Lemma chunks_concat n : forall (rows : list (list A)),
    Forall (fun c => length c = n) rows -> chunks n (length rows) (concat rows) = rows.
  Proof.
    induction rows as [|r rows IH]; intro H; [reflexivity|].
    inversion H as [|? ? Hr Hrows]; subst. cbn [length chunks concat].
    rewrite firstn_app, firstn_all, Nat.sub_diag. cbn [firstn]. rewrite app_nil_r.
    rewrite skipn_app, skipn_all, Nat.sub_diag. cbn [skipn app]. rewrite IH by exact Hrows. reflexivity.
  Qed.

  Lemma map_nth_seq {B} (d : B) (l : list B) : map (fun o => nth o l d) (seq 0 (length l)) = l.
  Proof.
    induction l as [|x l IH]; [reflexivity|]. cbn [length seq map nth]. f_equal.
    rewrite <- seq_shift, map_map. exact IH.
  Qed.

  (* the pieces of a slab, at cumulative offsets, concatenate to the covered range *)
  Lemma sub_slabs_cover inner : forall sizes o (slab : list A),
    concat (map (fun '(o', s) => sub_slab inner o' s slab) (combine (offsets o sizes) sizes))
    = firstn (sumn sizes * inner) (skipn (o * inner) slab).
  Proof.
    induction sizes as [|s r IH]; intros o slab; cbn [offsets combine map concat sumn].
    - reflexivity.
    - rewrite IH. unfold sub_slab. rewrite (Nat.mul_add_distr_r s (sumn r) inner).
      rewrite (firstn_add (s * inner) (sumn r * inner)). f_equal. f_equal.
      rewrite skipn_skipn. f_equal. lia.
  Qed.

  Lemma sub_slab_length inner o s (slab : list A) :
    (o + s) * inner <= length slab -> length (sub_slab inner o s slab) = s * inner.
  Proof. intro H. unfold sub_slab. rewrite firstn_length, skipn_length. lia. Qed.

  (* ---------- shapes ---------- *)
  Lemma prodn_app l1 l2 : prodn (l1 ++ l2) = prodn l1 * prodn l2.
  Proof. induction l1 as [|d l1 IH]; simpl; [lia | rewrite IH; lia]. Qed.

  Lemma shape_split (sh : list nat) axis : axis < length sh ->
    sh = firstn axis sh ++ [nth axis sh 0] ++ skipn (S axis) sh.
  Proof.
    revert axis; induction sh as [|d sh IH]; intros axis H; [simpl in H; lia|].
    destruct axis as [|axis]; [reflexivity|]. simpl. f_equal. apply IH. simpl in H. lia.
  Qed.

  Lemma prodn_split (sh : list nat) axis : axis < length sh ->
    prodn sh = prodn (firstn axis sh) * (nth axis sh 0 * prodn (skipn (S axis) sh)).
  Proof.
    intro H. rewrite (shape_split sh axis H) at 1. rewrite !prodn_app. simpl. lia.
  Qed.

  Lemma firstn_piece (sh : list nat) axis s : axis < length sh ->
    firstn axis (firstn axis sh ++ [s] ++ skipn (S axis) sh) = firstn axis sh.
  Proof.
    intro H. rewrite firstn_app. rewrite firstn_length. replace (axis - Nat.min axis (length sh)) with 0 by lia.
    cbn [firstn]. rewrite app_nil_r. rewrite firstn_firstn. f_equal. lia.
  Qed.

  Lemma skipn_piece (sh : list nat) axis s : axis < length sh ->
    skipn (S axis) (firstn axis sh ++ [s] ++ skipn (S axis) sh) = skipn (S axis) sh.
  Proof.
    intro H. rewrite skipn_app. rewrite firstn_length.
    replace (Nat.min axis (length sh)) with axis by lia.
    rewrite (skipn_all2 (firstn axis sh)) by (rewrite firstn_length; lia).
    replace (S axis - axis) with 1 by lia. reflexivity.
  Qed.

  Lemma nth_piece (sh : list nat) axis s : axis < length sh ->
    nth axis (firstn axis sh ++ [s] ++ skipn (S axis) sh) 0 = s.
  Proof.
    intro H. rewrite app_nth2; rewrite firstn_length; [|lia].
    replace (axis - Nat.min axis (length sh)) with 0 by lia. reflexivity.
  Qed.

  Lemma nth_mid_other {B} (p q : list B) (x y d : B) a' : a' <> length p ->
    nth a' (p ++ [x] ++ q) d = nth a' (p ++ [y] ++ q) d.
  Proof.
    intro Hne. destruct (Nat.lt_ge_cases a' (length p)) as [Hlt|Hge].
    - rewrite !app_nth1 by exact Hlt. reflexivity.
    - rewrite !(app_nth2 p) by exact Hge. destruct (a' - length p) as [|k] eqn:E; [lia|]. reflexivity.
  Qed.

  Lemma nth_piece_other (sh : list nat) axis s a' : axis < length sh -> a' <> axis ->
    nth a' (firstn axis sh ++ [s] ++ skipn (S axis) sh) 0 = nth a' sh 0.
  Proof.
    intros H Hne.
    transitivity (nth a' (firstn axis sh ++ [nth axis sh 0] ++ skipn (S axis) sh) 0).
    - apply nth_mid_other. rewrite firstn_length. lia.
    - rewrite <- (shape_split sh axis H). reflexivity.
  Qed.

  Lemma piece_length (sh : list nat) axis s : axis < length sh ->
    length (firstn axis sh ++ [s] ++ skipn (S axis) sh) = length sh.
  Proof. intro H. rewrite !app_length, firstn_length, skipn_length. simpl. lia. Qed.

  (* ---------- one axis ---------- *)
  Lemma split_axis_length axis sizes (t : tensor) : length (split_axis axis sizes t) = length sizes.
  Proof.
    unfold split_axis. rewrite map_length, combine_length.
    assert (forall o, length (offsets o sizes) = length sizes) as L.
    { induction sizes as [|s r IH]; intro o; simpl; [reflexivity | rewrite IH; reflexivity]. }
    rewrite L. lia.
  Qed.

  (* data of the piece at (o, s) *)
  Definition piece_data (t : tensor) axis o s : list A :=
    let sh := t_shape t in
    concat (map (sub_slab (prodn (skipn (S axis) sh)) o s)
                (chunks (nth axis sh 0 * prodn (skipn (S axis) sh)) (prodn (firstn axis sh)) (t_data t))).

  Lemma split_axis_spec axis sizes (t : tensor) :
    split_axis axis sizes t =
    map (fun '(o, s) => mkT (firstn axis (t_shape t) ++ [s] ++ skipn (S axis) (t_shape t))
                            (piece_data t axis o s))
        (combine (offsets 0 sizes) sizes).
  Proof. reflexivity. Qed.

  Lemma offsets_bound : forall sizes o o' s, In (o', s) (combine (offsets o sizes) sizes) ->
    o <= o' /\ o' + s <= o + sumn sizes.
  Proof.
    induction sizes as [|s0 r IH]; intros o o' s Hin; [contradiction|].
    cbn [offsets combine sumn] in *. destruct Hin as [Hin|Hin].
    - inversion Hin; subst. lia.
    - apply IH in Hin. lia.
  Qed.

  Lemma split_pieces_wf axis sizes (t : tensor) :
    wf t -> axis < length (t_shape t) -> sumn sizes = nth axis (t_shape t) 0 ->
    Forall (fun p => wf p /\ length (t_shape p) = length (t_shape t) /\
                     forall a', a' <> axis -> nth a' (t_shape p) 0 = nth a' (t_shape t) 0)
           (split_axis axis sizes t).
  Proof.
    intros Hwf Hax Hsum. rewrite split_axis_spec. apply Forall_forall. intros p Hp.
    apply in_map_iff in Hp as [[o s] [<- Hin]].
    pose proof (offsets_bound sizes 0 o s Hin) as [_ Hb].
    set (sh := t_shape t) in *. set (inner := prodn (skipn (S axis) sh)).
    set (outer := prodn (firstn axis sh)). set (d := nth axis sh 0) in *.
    assert (Hlen : length (t_data t) = (d * inner) * outer).
    { unfold wf in Hwf. rewrite Hwf. fold sh. rewrite (prodn_split sh axis Hax). fold inner outer d. lia. }
    split; [|split].
    - unfold wf. cbn [t_data t_shape]. unfold piece_data. fold sh inner outer d.
      rewrite !prodn_app. cbn [prodn]. fold inner outer.
      assert (Hrows : forall rows : list (list A), Forall (fun c => length c = d * inner) rows ->
                length (concat (map (sub_slab inner o s) rows)) = length rows * (s * inner)).
      { induction rows as [|r rows IHr]; intro HF; [reflexivity|].
        inversion HF; subst. cbn [map concat length]. rewrite app_length, IHr by assumption.
        rewrite sub_slab_length; [lia|]. rewrite H1. nia. }
      rewrite Hrows by (apply chunks_all_length; exact Hlen).
      rewrite chunks_length. lia.
    - cbn [t_shape]. apply piece_length. exact Hax.
    - intros a' Hne. cbn [t_shape]. apply nth_piece_other; assumption.
  Qed.

  Lemma concat_axis_spec axis (ts : list tensor) pre post :
    ts <> [] ->
    Forall (fun t => firstn axis (t_shape t) = pre /\ skipn (S axis) (t_shape t) = post) ts ->
    concat_axis axis ts =
    mkT (pre ++ [sumn (map (fun t => nth axis (t_shape t) 0) ts)] ++ post)
        (concat (map (fun o => concat (map (fun t => nth o (chunks (nth axis (t_shape t) 0 * prodn post)
                                                                   (prodn pre) (t_data t)) []) ts))
                     (seq 0 (prodn pre)))).
  Proof.
    intros Hne HF. destruct ts as [|t0 ts']; [contradiction|].
    inversion HF as [|? ? [H1 H2] _]; subst. unfold concat_axis. f_equal. f_equal.
    apply map_ext. intro o. rewrite map_map. reflexivity.
  Qed.

  Lemma sumn_pieces axis (sh : list nat) (f : nat -> nat -> list A) : axis < length sh ->
    forall sizes o,
    sumn (map (fun t : tensor => nth axis (t_shape t) 0)
              (map (fun '(o', s) => mkT (firstn axis sh ++ [s] ++ skipn (S axis) sh) (f o' s))
                   (combine (offsets o sizes) sizes))) = sumn sizes.
  Proof.
    intros Hax. induction sizes as [|s r IH]; intro o; [reflexivity|].
    cbn [offsets combine map sumn t_shape]. rewrite nth_piece by exact Hax. f_equal. apply IH.
  Qed.

  Theorem concat_split_axis axis sizes (t : tensor) :
    wf t -> axis < length (t_shape t) -> sumn sizes = nth axis (t_shape t) 0 -> sizes <> [] ->
    concat_axis axis (split_axis axis sizes t) = t.
  Proof.
    intros Hwf Hax Hsum Hne.
    destruct t as [sh data]. cbn [t_shape t_data] in *. unfold wf in Hwf. cbn [t_shape t_data] in Hwf.
    set (inner := prodn (skipn (S axis) sh)). set (outer := prodn (firstn axis sh)).
    set (d := nth axis sh 0) in *.
    assert (Hlen : length data = (d * inner) * outer).
    { rewrite Hwf. rewrite (prodn_split sh axis Hax). fold inner outer d. lia. }
    set (slabs := chunks (d * inner) outer data).
    assert (Hslabs : Forall (fun c => length c = d * inner) slabs) by (apply chunks_all_length; exact Hlen).
    assert (Hnslabs : length slabs = outer) by apply chunks_length.
    rewrite split_axis_spec. cbn [t_shape t_data]. unfold piece_data. cbn [t_shape t_data].
    fold inner outer d slabs.
    set (pieces := map (fun '(o, s) => mkT (firstn axis sh ++ [s] ++ skipn (S axis) sh)
                                           (concat (map (sub_slab inner o s) slabs)))
                       (combine (offsets 0 sizes) sizes)).
    assert (Hpne : pieces <> []).
    { unfold pieces. destruct sizes; [contradiction|]. discriminate. }
    assert (Hpf : Forall (fun t : tensor => firstn axis (t_shape t) = firstn axis sh /\
                                            skipn (S axis) (t_shape t) = skipn (S axis) sh) pieces).
    { unfold pieces. apply Forall_forall. intros p Hp. apply in_map_iff in Hp as [[o s] [<- _]].
      cbn [t_shape]. split; [apply firstn_piece | apply skipn_piece]; exact Hax. }
    rewrite (concat_axis_spec axis pieces _ _ Hpne Hpf). fold inner outer.
    f_equal.
    - unfold pieces. rewrite (sumn_pieces axis sh _ Hax sizes 0). rewrite Hsum. fold d.
      symmetry. apply shape_split. exact Hax.
    - transitivity (concat slabs); [|apply (concat_chunks (d * inner) outer data Hlen)]. f_equal.
      transitivity (map (fun o => nth o slabs []) (seq 0 (length slabs))); [|apply map_nth_seq].
      rewrite Hnslabs. apply map_ext_in. intros o Ho.
      apply in_seq in Ho.
      assert (Hslab : length (nth o slabs []) = d * inner).
      { rewrite Forall_forall in Hslabs. apply Hslabs. apply nth_In. lia. }
      unfold pieces. rewrite map_map.
      transitivity (concat (map (fun '(o', s) => sub_slab inner o' s (nth o slabs []))
                                (combine (offsets 0 sizes) sizes))).
      + f_equal. apply map_ext_in. intros [o' s] Hin. cbn [t_shape t_data].
        rewrite nth_piece by exact Hax.
        pose proof (offsets_bound sizes 0 o' s Hin) as [_ Hb]. rewrite Hsum in Hb. fold d in Hb.
        rewrite <- Hnslabs at 1.
        replace (length slabs) with (length (map (sub_slab inner o' s) slabs)) by apply map_length.
        rewrite chunks_concat.
        * rewrite (nth_indep _ [] (sub_slab inner o' s [])) by (rewrite map_length; lia).
          rewrite map_nth. reflexivity.
        * apply Forall_forall. intros c Hc. apply in_map_iff in Hc as [sl [<- Hsl]].
          rewrite Forall_forall in Hslabs. apply sub_slab_length. rewrite (Hslabs sl Hsl). nia.
      + rewrite sub_slabs_cover. rewrite Hsum. fold d. cbn [Nat.mul skipn].
        rewrite <- Hslab. apply firstn_all.
  Qed.

  (* ---------- all axes ---------- *)
  Lemma group_flat_map {B C} (f : B -> list C) n : forall (l : list B),
    0 < n -> Forall (fun x => length (f x) = n) l ->
    forall fuel, length l <= fuel -> group n fuel (flat_map f l) = map f l.
  Proof.
    induction l as [|x l IH]; intros Hn HF fuel Hfuel.
    - destruct fuel; reflexivity.
    - inversion HF as [|x0 l0 Hx HF' Heq]. destruct fuel as [|fuel]; [simpl in Hfuel; lia|].
      cbn [flat_map map group].
      destruct (f x ++ flat_map f l) eqn:E.
      + assert (Hz : length (f x ++ flat_map f l) = 0) by (rewrite E; reflexivity).
        rewrite app_length in Hz. lia.
      + rewrite <- E. rewrite firstn_app, firstn_all2 by lia.
        rewrite Hx, Nat.sub_diag.
        cbn [firstn]. rewrite app_nil_r. rewrite skipn_app, skipn_all2 by lia.
        rewrite Hx, Nat.sub_diag. cbn [skipn app]. f_equal. apply IH; try assumption. simpl in Hfuel. lia.
  Qed.

  (* a tensor is compatible with the remaining axes' split sizes *)
  Definition good (axes : list (nat * list nat)) (t : tensor) : Prop :=
    wf t /\ forall ax sz, In (ax, sz) axes -> ax < length (t_shape t) /\ sumn sz = nth ax (t_shape t) 0.

  Lemma length_flat_map_split axis sizes (l : list tensor) :
    length (flat_map (split_axis axis sizes) l) = length l * length sizes.
  Proof.
    induction l as [|t l IH]; [reflexivity|]. cbn [flat_map length].
    rewrite app_length, split_axis_length, IH. lia.
  Qed.

  Theorem merge_part_axes : forall axes (ts : list tensor),
    NoDup (map fst axes) -> Forall (good axes) ts ->
    merge_axes axes (part_axes axes ts) = ts.
  Proof.
    induction axes as [|[axis sizes] rest IH]; intros ts Hnd Hgood; [reflexivity|].
    cbn [part_axes fold_left merge_axes fold_right].
    change (fold_left _ rest ?x) with (part_axes rest x).
    change (fold_right _ ?x rest) with (merge_axes rest x).
    inversion Hnd as [|? ? Hnotin Hnd']; subst.
    destruct (Nat.leb (length sizes) 1) eqn:E.
    - apply IH; [exact Hnd'|]. eapply Forall_impl; [|exact Hgood].
      intros t [Hwf Hall]. split; [exact Hwf|]. intros ax sz Hin. apply Hall. right. exact Hin.
    - apply Nat.leb_gt in E.
      assert (Hpieces : Forall (good rest) (flat_map (split_axis axis sizes) ts)).
      { apply Forall_forall. intros p Hp. apply in_flat_map in Hp as [t [Ht Hp]].
        rewrite Forall_forall in Hgood. destruct (Hgood t Ht) as [Hwf Hall].
        destruct (Hall axis sizes (or_introl eq_refl)) as [Hax Hsum].
        pose proof (split_pieces_wf axis sizes t Hwf Hax Hsum) as HF.
        rewrite Forall_forall in HF. destruct (HF p Hp) as [Hwfp [Hlenp Hnth]].
        split; [exact Hwfp|]. intros ax sz Hin.
        destruct (Hall ax sz (or_intror Hin)) as [H1 H2]. rewrite Hlenp. split; [exact H1|].
        rewrite Hnth; [exact H2|]. intro Heq. subst ax. apply Hnotin.
        apply in_map_iff. exists (axis, sz). split; [reflexivity | exact Hin]. }
      rewrite (IH _ Hnd' Hpieces).
      rewrite (group_flat_map (split_axis axis sizes) (length sizes) ts).
      + rewrite map_map. rewrite <- (map_id ts) at 2. apply map_ext_in. intros t Ht.
        rewrite Forall_forall in Hgood. destruct (Hgood t Ht) as [Hwf Hall].
        destruct (Hall axis sizes (or_introl eq_refl)) as [Hax Hsum].
        apply concat_split_axis; try assumption. destruct sizes; [simpl in E; lia | discriminate].
      + lia.
      + apply Forall_forall. intros t _. apply split_axis_length.
      + rewrite length_flat_map_split. nia.
  Qed.

  Lemma map_fst_combine_seq {B} : forall (l : list B) k, map fst (combine (seq k (length l)) l) = seq k (length l).
  Proof. induction l as [|x l IH]; intro k; [reflexivity|]. cbn [length seq combine map fst]. f_equal. apply IH. Qed.

  Lemma in_combine_seq {B} (d : B) : forall (l : list B) k ax sz,
    In (ax, sz) (combine (seq k (length l)) l) -> k <= ax < k + length l /\ nth (ax - k) l d = sz.
  Proof.
    induction l as [|x l IH]; intros k ax sz Hin; [contradiction|].
    cbn [length seq combine] in Hin. destruct Hin as [Hin|Hin].
    - inversion Hin; subst. split; [simpl; lia|]. rewrite Nat.sub_diag. reflexivity.
    - apply IH in Hin as [H1 H2]. split; [simpl; lia|].
      replace (ax - k) with (S (ax - S k)) by lia. exact H2.
  Qed.

  (* BlockPartitioner: merge_partitions (partition t) = t *)
  Theorem merge_partition_id (split_sizes : list (list nat)) (t : tensor) :
    wf t -> length split_sizes = length (t_shape t) ->
    map sumn split_sizes = t_shape t ->
    merge_partitions split_sizes (partition split_sizes t) = t.
  Proof.
    intros Hwf Hlen Hsum. unfold merge_partitions, partition.
    rewrite merge_part_axes; [reflexivity | |].
    - rewrite map_fst_combine_seq. apply seq_NoDup.
    - constructor; [|constructor]. split; [exact Hwf|]. intros ax sz Hin.
      apply (in_combine_seq []) in Hin as [Hlt Hnth]. rewrite Nat.sub_0_r in Hnth. split; [lia|].
      rewrite <- Hsum. change 0 with (sumn []). rewrite map_nth. rewrite Hnth. reflexivity.
  Qed.
End Proofs.
