(* C06/Ref.v — stable reference copy of the translator's output on the current tree (pinned e2425f6 + fix: commits).
   The theorems of C06 are proved about THESE definitions; on every run the translator's fresh
   output (coq/gen/C06/Gen.v) must be equal to them (obligations GenEq, closed by reflexivity).
   Definitions only, no proofs. *)
From Precond Require Import Base.PyLib C06.Records.

Open Scope Z_scope.

Definition merge_small_dims (shape_to_merge : list Z) (max_dim : Z) : list Z :=
(if ((truthy_list shape_to_merge) && (forallb (fun x => x =? 1) shape_to_merge)) then
[1]
else
(let resulting_shape := (@nil Z) in
(let product := 1 in
(let '(product, resulting_shape) := fold_left (fun '(product, resulting_shape) d =>
(let '(product, resulting_shape) := (if ((product * d) <=? max_dim) then
(let product := (product * d) in
(product, resulting_shape))
else
(let resulting_shape := (if (product >? 1) then
(let resulting_shape := resulting_shape ++ [product] in
resulting_shape)
else
resulting_shape) in
(let product := d in
(product, resulting_shape)))) in
(product, resulting_shape))) shape_to_merge (product, resulting_shape) in
(let resulting_shape := (if (product >? 1) then
(let resulting_shape := resulting_shape ++ [product] in
resulting_shape)
else
resulting_shape) in
resulting_shape))))).

Definition precond_dim (compression_rank : Z) (dim : Z) : Z :=
(if (negb (truthy_z compression_rank)) then
dim
else
(let compressed_size := ((Z.abs compression_rank) + 2) in
(if (compressed_size >=? dim) then
dim
else
compressed_size))).

Definition should_compress (compression_rank : Z) (dim : Z) : bool :=
((negb (compression_rank =? 0)) && (((Z.abs compression_rank) + 2) <? dim)).

Definition block_partitioner_init (param_shape : list Z) (block_size : Z) : (list (Z * list Z)) * (list (list Z)) :=
(let self_shape := param_shape in
(let self_splits := (@nil (Z * list Z)) in
(let split_sizes := (@nil (list Z)) in
(let '(self_splits, split_sizes) := fold_left (fun '(self_splits, split_sizes) '(i, d) =>
(let '(self_splits, split_sizes) := (if ((0 <? block_size) && (block_size <? d)) then
(let nsplit := ((d - 1) / block_size) in
(let indices := (map (fun k => (k + 1) * block_size) (zrange nsplit)) in
(let sizes := (repeat_z (1 * block_size) (nsplit + 1)) in
(let sizes := set_z sizes (-1) (d - (nth_z indices (- 1) 0)) in
(let self_splits := self_splits ++ [(i, indices)] in
(let split_sizes := split_sizes ++ [sizes] in
(self_splits, split_sizes)))))))
else
(let split_sizes := split_sizes ++ [[d]] in
(self_splits, split_sizes))) in
(self_splits, split_sizes))) (enumerate_z param_shape) (self_splits, split_sizes) in
(let self_split_sizes := split_sizes in
(self_splits, self_split_sizes)))))).

Definition should_precondition_dims (split_sizes_ : list (list Z)) (self_preconditioner_type : Z) : list bool :=
(let split_sizes := split_sizes_ in
(let rank := (zlen split_sizes) in
(if ((self_preconditioner_type =? 1) || (rank <=? 1)) then
(repeat_z true rank)
else
(if (self_preconditioner_type =? 2) then
((repeat_z true (rank - 1)) ++ [false])
else
(if (self_preconditioner_type =? 3) then
((repeat_z false (rank - 1)) ++ [true])
else
(@nil bool)))))).

Definition preconditioner_shape (self_compression_rank : Z) (dim : Z) : list Z :=
(if (truthy_z self_compression_rank) then
[dim; (precond_dim self_compression_rank dim)]
else
[dim; dim]).

Definition preconds_for_grad (self_preconditioner_type : Z) (preconditioners : list Z) (rank : Z) (start : Z) (end_ : Z) : option (list Z) :=
(let preconditioners_for_grad := (slice preconditioners start end_) in
(let preconditioners_for_grad := (if (rank <=? 1) then
preconditioners_for_grad
else
(let preconditioners_for_grad := (if (self_preconditioner_type =? 2) then
(let preconditioners_for_grad := (preconditioners_for_grad ++ [(-1)]) in
preconditioners_for_grad)
else
(let preconditioners_for_grad := (if (self_preconditioner_type =? 3) then
(let preconditioners_for_grad := ((repeat_z (-1) (rank - 1)) ++ preconditioners_for_grad) in
preconditioners_for_grad)
else
preconditioners_for_grad) in
preconditioners_for_grad)) in
preconditioners_for_grad)) in
(if ((zlen preconditioners_for_grad) =? rank) then (Some preconditioners_for_grad) else None))).

Definition shapes_for_preconditioners (split_sizes_ : list (list Z)) (self_preconditioner_type : Z) (self_compression_rank : Z) : list (list Z) :=
(let split_sizes := split_sizes_ in
(let rank := (zlen split_sizes) in
(let preconditioner_shapes := (@nil (list Z)) in
(let preconditioner_shapes := fold_left (fun preconditioner_shapes t =>
(let preconditioner_shapes := (if ((self_preconditioner_type =? 1) || (rank <=? 1)) then
(let preconditioner_shapes := preconditioner_shapes ++ (map (preconditioner_shape self_compression_rank) t) in
preconditioner_shapes)
else
(let preconditioner_shapes := (if (self_preconditioner_type =? 2) then
(let preconditioner_shapes := preconditioner_shapes ++ (map (preconditioner_shape self_compression_rank) (slice_to t (- 1))) in
preconditioner_shapes)
else
(let preconditioner_shapes := (if (self_preconditioner_type =? 3) then
(let preconditioner_shapes := preconditioner_shapes ++ (map (preconditioner_shape self_compression_rank) (slice_from t (- 1))) in
preconditioner_shapes)
else
preconditioner_shapes) in
preconditioner_shapes)) in
preconditioner_shapes)) in
preconditioner_shapes)) (cart_prod split_sizes) preconditioner_shapes in
preconditioner_shapes)))).

Definition exponent_for_preconditioner (split_sizes_ : list (list Z)) (self_preconditioner_type : Z) : Z :=
(let should_preconditioned_dims := should_precondition_dims split_sizes_ self_preconditioner_type in
(let num_preconditioners := (count_true should_preconditioned_dims) in
(2 * num_preconditioners))).

Definition blocks_metadata (block_size : Z) (param_shape : list Z) : BlocksMetadata :=
(let dims := (map (fun dim => (Z.min dim block_size)) param_shape) in
(let large_axes := (map (fun '(i, d) => i) (filter (fun '(i, d) => (d >=? block_size)) (enumerate_z param_shape))) in
(let blocks_per_large_axis := (map (fun i => ((nth_z param_shape i 0) / block_size)) large_axes) in
(let num_blocks := (prod_z (blocks_per_large_axis ++ [1])) in
(Build_BlocksMetadata dims num_blocks block_size large_axes param_shape blocks_per_large_axis (min_list_z large_axes 0)))))).

Definition derive_shapes (merge_dims : Z) (block_size : Z) (param_shape : list Z) : Shapes :=
(let merged := (merge_small_dims param_shape merge_dims) in
(if (list_eqb_z merged [1]) then
(Build_Shapes param_shape (@nil Z) (@nil Z))
else
(let padded := (if (block_size =? 0) then
(let padded := merged in
padded)
else
(let padded := (@nil Z) in
(let padded := fold_left (fun padded s =>
(let s := (if (s >=? block_size) then
(let s := (((s + block_size) - 1) / block_size) in
(let s := (s * block_size) in
s))
else
s) in
(let padded := padded ++ [s] in
padded))) merged padded in
padded))) in
(Build_Shapes param_shape merged padded)))).

Definition get_expanded_shape (shape : list Z) (i : Z) : list Z :=
(let rank := (zlen shape) in
(((repeat_z 1 i) ++ [(nth_z shape i 0)]) ++ (repeat_z 1 ((rank - i) - 1)))).

