(* C06/Transpose.v — axis transposition / reshape / pad / slice on flat row-major tensors
   (Base.Tensor: shape : list nat + flat data).  Models jnp.reshape, jnp.transpose, jnp.expand_dims,
   jnp.squeeze, jnp.pad (at the end of each axis, zeros) and x[tuple(slice(0, m) ...)].
   Definitions only (proofs: C06/TransposeProofs.v). *)
From Coq Require Import List Arith Bool Permutation.
From Precond Require Import Base.Tensor.
Import ListNotations.

(* ---------- multi-indices (row-major) ---------- *)
Fixpoint flatten_index (shape idx : list nat) : nat :=
  match shape, idx with
  | _ :: sh, i :: ix => i * prodn sh + flatten_index sh ix
  | _, _ => 0
  end.

Fixpoint unflatten_index (shape : list nat) (k : nat) : list nat :=
  match shape with
  | [] => []
  | _ :: sh => k / prodn sh :: unflatten_index sh (k mod prodn sh)
  end.

(* all multi-indices of a shape, in row-major order (last axis fastest) *)
Fixpoint all_indices (shape : list nat) : list (list nat) :=
  match shape with
  | [] => [[]]
  | d :: sh => flat_map (fun i => map (cons i) (all_indices sh)) (seq 0 d)
  end.

(* idx is a valid multi-index of shape: same rank, every coordinate below its dimension *)
Definition in_range (shape idx : list nat) : Prop := Forall2 lt idx shape.

Fixpoint in_rangeb (shape idx : list nat) : bool :=
  match shape, idx with
  | [], [] => true
  | d :: sh, i :: ix => (i <? d) && in_rangeb sh ix
  | _, _ => false
  end.

(* ---------- permutations as lists (perm[j] = source axis of result axis j) ---------- *)
(* gather: (permute p l)[j] = l[p[j]] *)
Definition permute (p : list nat) (l : list nat) : list nat := map (fun j => nth j l 0) p.

(* first position of a in p (length p when absent) *)
Fixpoint index_of (a : nat) (p : list nat) : nat :=
  match p with
  | [] => 0
  | x :: r => if Nat.eqb x a then 0 else S (index_of a r)
  end.

Definition inverse_perm (p : list nat) : list nat := map (fun a => index_of a p) (seq 0 (length p)).

(* index into the input of jnp.transpose(x, perm) for the result index idx:
   src[perm[j]] = idx[j] *)
Definition apply_perm (perm idx : list nat) : list nat := permute (inverse_perm perm) idx.

Definition is_perm (n : nat) (p : list nat) : Prop := Permutation p (seq 0 n).

(* Python list.pop(k) (the remaining list) and list.insert(k, x) *)
Definition remove_at {B} (k : nat) (l : list B) : list B := firstn k l ++ skipn (S k) l.
Definition insert_at {B} (k : nat) (x : B) (l : list B) : list B := firstn k l ++ x :: skipn k l.

(* perm = list(range(n)); perm.pop(from); perm.insert(to, from) *)
Definition move_perm (n from to : nat) : list nat := insert_at to from (remove_at from (seq 0 n)).

Section TensorOps.
  Variable A : Type.
  Variable zero : A.
  Notation tensor := (tensor A).

  (* x.reshape(new_shape): same row-major data *)
  Definition reshape (new_shape : list nat) (t : tensor) : tensor := mkT new_shape (t_data t).

  (* x[idx] *)
  Definition t_at (t : tensor) (idx : list nat) : A :=
    nth (flatten_index (t_shape t) idx) (t_data t) zero.

  Definition tabulate (shape : list nat) (f : list nat -> A) : tensor :=
    mkT shape (map f (all_indices shape)).

  (* jnp.transpose(x, perm): result axis j is input axis perm[j] *)
  Definition transpose (perm : list nat) (t : tensor) : tensor :=
    tabulate (permute perm (t_shape t)) (fun idx => t_at t (apply_perm perm idx)).

  (* jnp.expand_dims(x, axis) / jnp.squeeze(x, axis): shape only *)
  Definition expand_dims (axis : nat) (t : tensor) : tensor :=
    mkT (insert_at axis 1 (t_shape t)) (t_data t).
  Definition squeeze (axis : nat) (t : tensor) : tensor :=
    mkT (remove_at axis (t_shape t)) (t_data t).

  (* jnp.pad(x, [(0, p - m) ...]) with zeros: result shape padded_shape *)
  Definition pad_to (padded_shape : list nat) (t : tensor) : tensor :=
    tabulate padded_shape (fun idx => if in_rangeb (t_shape t) idx then t_at t idx else zero).

  (* x[tuple(slice(0, m) for m in shape)] *)
  Definition slice_to (shape : list nat) (t : tensor) : tensor :=
    tabulate shape (fun idx => t_at t idx).

  (* np.take(x, k, axis) *)
  Definition take_axis (axis k : nat) (t : tensor) : tensor :=
    tabulate (remove_at axis (t_shape t)) (fun idx => t_at t (insert_at axis k idx)).
End TensorOps.

Arguments reshape {A}. Arguments t_at {A}. Arguments tabulate {A}. Arguments transpose {A}.
Arguments expand_dims {A}. Arguments squeeze {A}. Arguments pad_to {A}. Arguments slice_to {A}.
Arguments take_axis {A}.
