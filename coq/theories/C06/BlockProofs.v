(* C06/BlockProofs.v — BlockPartitioner split sizes, block shapes, announced preconditioner shapes. *)
From Precond Require Import Base.PyLib C06.Ref.
From Coq Require Import ZifyBool.
Open Scope Z_scope.

(* ---------- list helpers ---------- *)
Lemma set_nth_app_len {A} (l1 l2 : list A) x v :
  set_nth (l1 ++ x :: l2) (length l1) v = l1 ++ v :: l2.
Proof. induction l1 as [|a t IH]; simpl; [reflexivity | rewrite IH; reflexivity]. Qed.

Lemma repeat_snoc {A} (x : A) n : repeat x (S n) = repeat x n ++ [x].
Proof. induction n as [|n IH]; [reflexivity|]. simpl in *. rewrite <- IH. reflexivity. Qed.

Lemma zlen_snoc {A} (l : list A) x : zlen (l ++ [x]) = zlen l + 1.
Proof. rewrite zlen_app. reflexivity. Qed.

Lemma nth_z_last {A} (l : list A) x d : nth_z (l ++ [x]) (-1) d = x.
Proof.
  unfold nth_z, norm_index. rewrite zlen_snoc.
  pose proof (zlen_nonneg l) as H.
  replace (-1 <? 0) with true by lia.
  replace (-1 + (zlen l + 1) <? 0) with false by lia.
  replace (Z.to_nat (-1 + (zlen l + 1))) with (length l) by (unfold zlen; lia).
  rewrite app_nth2 by lia. rewrite Nat.sub_diag. reflexivity.
Qed.

Lemma set_z_last {A} (l : list A) x v : set_z (l ++ [x]) (-1) v = l ++ [v].
Proof.
  unfold set_z, norm_index. rewrite zlen_snoc.
  pose proof (zlen_nonneg l) as H.
  replace (-1 <? 0) with true by lia.
  replace (-1 + (zlen l + 1) <? 0) with false by lia.
  replace (Z.to_nat (-1 + (zlen l + 1))) with (length l) by (unfold zlen; lia).
  apply set_nth_app_len.
Qed.

Lemma zrange_succ n : 0 <= n -> zrange (n + 1) = zrange n ++ [n].
Proof.
  intro H. unfold zrange. replace (Z.to_nat (n + 1)) with (S (Z.to_nat n)) by lia.
  rewrite seq_S, map_app. simpl. rewrite Z2Nat.id by lia. reflexivity.
Qed.

Lemma repeat_z_succ {A} (x : A) n : 0 <= n -> repeat_z x (n + 1) = repeat_z x n ++ [x].
Proof.
  intro H. unfold repeat_z. replace (Z.to_nat (n + 1)) with (S (Z.to_nat n)) by lia.
  apply repeat_snoc.
Qed.

Lemma sum_repeat b n : sum_z (repeat b n) = Z.of_nat n * b.
Proof. induction n as [|n IH]; [reflexivity|]. simpl repeat. rewrite sum_z_cons, IH. lia. Qed.

(* ---------- per-dimension split sizes ---------- *)
Definition dim_sizes (b d : Z) : list Z :=
  if ((0 <? b) && (b <? d)) then
    (let nsplit := ((d - 1) / b) in
     let indices := (map (fun k => (k + 1) * b) (zrange nsplit)) in
     let sizes := (repeat_z (1 * b) (nsplit + 1)) in
     set_z sizes (-1) (d - (nth_z indices (- 1) 0)))
  else [d].

Definition dim_indices (b d : Z) : list Z := map (fun k => (k + 1) * b) (zrange ((d - 1) / b)).

Definition bpi_body (b : Z) : (list (Z * list Z)) * (list (list Z)) -> Z * Z ->
                              (list (Z * list Z)) * (list (list Z)) :=
  fun '(self_splits, split_sizes) '(i, d) =>
     (let '(self_splits, split_sizes) := (if ((0 <? b) && (b <? d)) then
        (let nsplit := ((d - 1) / b) in
        (let indices := (map (fun k => (k + 1) * b) (zrange nsplit)) in
        (let sizes := (repeat_z (1 * b) (nsplit + 1)) in
        (let sizes := set_z sizes (-1) (d - (nth_z indices (- 1) 0)) in
        (let self_splits := self_splits ++ [(i, indices)] in
        (let split_sizes := split_sizes ++ [sizes] in
        (self_splits, split_sizes)))))))
      else
        (let split_sizes := split_sizes ++ [[d]] in
        (self_splits, split_sizes))) in
     (self_splits, split_sizes)).

Lemma bpi_unfold shape b :
  block_partitioner_init shape b =
  let '(sp, ss) := fold_left (bpi_body b) (enumerate_z shape) ([], []) in (sp, ss).
Proof. reflexivity. Qed.

Lemma bpi_fold b : forall l k sp ss,
  fold_left (bpi_body b) (enumerate_from k l) (sp, ss)
  = (sp ++ map (fun '(i, d) => (i, dim_indices b d))
             (filter (fun '(i, d) => (0 <? b) && (b <? d)) (enumerate_from k l)),
     ss ++ map (dim_sizes b) l).
Proof.
  induction l as [|d t IH]; intros k sp ss.
  - simpl. rewrite !app_nil_r. reflexivity.
  - cbn [enumerate_from fold_left filter map].
    assert (Hd : dim_sizes b d = if ((0 <? b) && (b <? d)) then dim_sizes b d else [d]).
    { unfold dim_sizes. destruct ((0 <? b) && (b <? d)); reflexivity. }
    rewrite Hd. clear Hd. unfold bpi_body at 2.
    destruct ((0 <? b) && (b <? d)) eqn:E.
    + rewrite IH. cbn [map]. rewrite <- !app_assoc. cbn [app].
      unfold dim_sizes, dim_indices. rewrite E. reflexivity.
    + rewrite IH. rewrite <- !app_assoc. reflexivity.
Qed.

Lemma split_sizes_spec shape b :
  snd (block_partitioner_init shape b) = map (dim_sizes b) shape.
Proof.
  rewrite bpi_unfold. unfold enumerate_z.
  rewrite (bpi_fold b shape 0 [] []). reflexivity.
Qed.

Lemma splits_spec shape b :
  fst (block_partitioner_init shape b) =
  map (fun '(i, d) => (i, dim_indices b d))
      (filter (fun '(i, d) => (0 <? b) && (b <? d)) (enumerate_z shape)).
Proof.
  rewrite bpi_unfold. unfold enumerate_z.
  rewrite (bpi_fold b shape 0 [] []). reflexivity.
Qed.

Lemma dim_sizes_closed b d :
  0 < b -> b < d ->
  dim_sizes b d = repeat b (Z.to_nat ((d - 1) / b)) ++ [d - ((d - 1) / b) * b].
Proof.
  intros Hb Hd. unfold dim_sizes.
  replace ((0 <? b) && (b <? d)) with true by lia.
  set (n := (d - 1) / b).
  assert (Hn : 1 <= n) by (unfold n; apply Z.div_le_lower_bound; lia).
  replace (zrange n) with (zrange ((n - 1) + 1)) by (f_equal; lia).
  rewrite zrange_succ by lia. rewrite map_app. cbn [map].
  rewrite nth_z_last. rewrite repeat_z_succ by lia. rewrite set_z_last.
  unfold repeat_z. replace (1 * b) with b by lia. f_equal. f_equal. lia.
Qed.

(* The split sizes of one dimension: positive, at most the block size, summing to the dimension,
   ceil(d/b) many — exact multiples included. *)
Lemma dim_sizes_props b d :
  0 < b -> b < d ->
  Forall (fun s => 1 <= s <= b) (dim_sizes b d) /\
  sum_z (dim_sizes b d) = d /\
  zlen (dim_sizes b d) = (d + b - 1) / b.
Proof.
  intros Hb Hd. rewrite dim_sizes_closed by assumption.
  set (n := (d - 1) / b).
  assert (Hn : 1 <= n) by (unfold n; apply Z.div_le_lower_bound; lia).
  assert (Hdm : n * b <= d - 1 < n * b + b).
  { unfold n. pose proof (Z.div_mod (d - 1) b ltac:(lia)) as H1.
    pose proof (Z.mod_pos_bound (d - 1) b Hb) as H2. lia. }
  split; [|split].
  - apply Forall_app. split.
    + apply Forall_forall. intros x Hx. apply repeat_spec in Hx. lia.
    + constructor; [lia | constructor].
  - rewrite sum_z_app, sum_repeat, sum_z_cons, sum_z_nil. lia.
  - rewrite zlen_app. unfold zlen. rewrite repeat_length. simpl length.
    replace (d + b - 1) with ((d - 1) + 1 * b) by lia.
    rewrite Z.div_add by lia. fold n. lia.
Qed.

Lemma dim_sizes_small b d : ~ (0 < b /\ b < d) -> dim_sizes b d = [d].
Proof. intro H. unfold dim_sizes. replace ((0 <? b) && (b <? d)) with false by lia. reflexivity. Qed.

(* Every split size of every dimension is positive and bounded by the block size (when blocking
   is on), and they sum to the dimension. *)
Lemma split_sizes_sum shape b :
  Forall (fun d => 1 <= d) shape ->
  map sum_z (snd (block_partitioner_init shape b)) = shape.
Proof.
  intro H. rewrite split_sizes_spec. rewrite map_map.
  induction H as [|d t Hd Ht IH]; [reflexivity|].
  cbn [map]. rewrite IH. f_equal.
  destruct (Z_lt_dec 0 b) as [Hb|Hb]; [destruct (Z_lt_dec b d) as [Hbd|Hbd]|].
  - apply dim_sizes_props; assumption.
  - rewrite dim_sizes_small by lia. rewrite sum_z_cons, sum_z_nil. lia.
  - rewrite dim_sizes_small by lia. rewrite sum_z_cons, sum_z_nil. lia.
Qed.

Lemma split_sizes_bounded shape b :
  0 < b -> Forall (fun d => 1 <= d) shape ->
  Forall (Forall (fun s => 1 <= s <= b)) (snd (block_partitioner_init shape b)).
Proof.
  intros Hb H. rewrite split_sizes_spec.
  induction H as [|d t Hd Ht IH]; [constructor|].
  cbn [map]. constructor; [|exact IH].
  destruct (Z_lt_dec b d) as [Hbd|Hbd].
  - apply dim_sizes_props; assumption.
  - rewrite dim_sizes_small by lia. constructor; [lia|constructor].
Qed.

(* ---------- block shapes produced by partition vs. announced shapes ---------- *)
(* Shape-level model of BlockPartitioner.partition: jnp.split along axis i at the given indices
   replaces dimension i by the successive differences. *)
Definition split_shape (shape : list Z) (i : Z) (sizes : list Z) : list (list Z) :=
  map (fun s => set_z shape i s) sizes.

Definition block_shapes (split_sizes : list (list Z)) : list (list Z) := cart_prod split_sizes.

Definition axes_of_block (ptype : Z) (rank : Z) (t : list Z) : list Z :=
  if (ptype =? 1) || (rank <=? 1) then t
  else if ptype =? 2 then slice_to t (-1)
  else if ptype =? 3 then slice_from t (-1)
  else [].

Lemma shapes_for_preconditioners_spec ss ptype cr :
  shapes_for_preconditioners ss ptype cr =
  flat_map (fun t => map (preconditioner_shape cr) (axes_of_block ptype (zlen ss) t)) (cart_prod ss).
Proof.
  unfold shapes_for_preconditioners.
  set (rank := zlen ss).
  assert (G : forall blocks acc,
    fold_left (fun preconditioner_shapes t =>
      (let preconditioner_shapes := (if ((ptype =? 1) || (rank <=? 1)) then
        (let preconditioner_shapes := preconditioner_shapes ++ (map (preconditioner_shape cr) t) in
         preconditioner_shapes)
       else
        (let preconditioner_shapes := (if (ptype =? 2) then
          (let preconditioner_shapes := preconditioner_shapes ++ (map (preconditioner_shape cr) (slice_to t (- 1))) in
           preconditioner_shapes)
         else
          (let preconditioner_shapes := (if (ptype =? 3) then
            (let preconditioner_shapes := preconditioner_shapes ++ (map (preconditioner_shape cr) (slice_from t (- 1))) in
             preconditioner_shapes)
           else preconditioner_shapes) in
           preconditioner_shapes)) in
         preconditioner_shapes)) in
       preconditioner_shapes)) blocks acc
    = acc ++ flat_map (fun t => map (preconditioner_shape cr) (axes_of_block ptype rank t)) blocks).
  { induction blocks as [|t r IH]; intro acc; cbn [fold_left flat_map].
    - rewrite app_nil_r. reflexivity.
    - rewrite IH. unfold axes_of_block at 2.
      destruct ((ptype =? 1) || (rank <=? 1)); [rewrite app_assoc; reflexivity|].
      destruct (ptype =? 2); [rewrite app_assoc; reflexivity|].
      destruct (ptype =? 3); [rewrite app_assoc; reflexivity|].
      cbn [map app]. reflexivity. }
  apply G.
Qed.

(* Number of announced preconditioners per block = number of preconditioned axes. *)
Lemma count_true_repeat_true n : 0 <= n -> count_true (repeat_z true n) = n.
Proof.
  intro H. unfold count_true, repeat_z, zlen.
  assert (E : forall k, filter (fun b : bool => b) (repeat true k) = repeat true k).
  { induction k as [|k IH]; [reflexivity|]. simpl. rewrite IH. reflexivity. }
  rewrite E, repeat_length. lia.
Qed.

Lemma count_true_repeat_false n : count_true (repeat_z false n) = 0.
Proof.
  unfold count_true, repeat_z, zlen.
  assert (E : forall k, filter (fun b : bool => b) (repeat false k) = []).
  { induction k as [|k IH]; [reflexivity|]. simpl. exact IH. }
  rewrite E. reflexivity.
Qed.

Lemma count_true_app l1 l2 : count_true (l1 ++ l2) = count_true l1 + count_true l2.
Proof. unfold count_true. rewrite filter_app, zlen_app. reflexivity. Qed.

Definition num_preconditioned (ptype rank : Z) : Z :=
  if (ptype =? 1) || (rank <=? 1) then rank else if (ptype =? 2) then rank - 1
  else if (ptype =? 3) then 1 else 0.

Lemma should_precondition_dims_count ss ptype :
  count_true (should_precondition_dims ss ptype) = num_preconditioned ptype (zlen ss).
Proof.
  unfold should_precondition_dims, num_preconditioned.
  pose proof (zlen_nonneg ss) as Hn.
  destruct ((ptype =? 1) || (zlen ss <=? 1)) eqn:E1.
  - apply count_true_repeat_true. exact Hn.
  - destruct (ptype =? 2) eqn:E2.
    + rewrite count_true_app, count_true_repeat_true by lia. cbn. lia.
    + destruct (ptype =? 3) eqn:E3.
      * rewrite count_true_app, count_true_repeat_false. reflexivity.
      * reflexivity.
Qed.

Lemma should_precondition_dims_len ss ptype :
  (ptype = 1 \/ ptype = 2 \/ ptype = 3) ->
  zlen (should_precondition_dims ss ptype) = zlen ss.
Proof.
  intro Hp. unfold should_precondition_dims.
  pose proof (zlen_nonneg ss) as Hn.
  assert (R : forall (x : bool) n, 0 <= n -> zlen (repeat_z x n) = n).
  { intros x n H. unfold zlen, repeat_z. rewrite repeat_length. lia. }
  destruct ((ptype =? 1) || (zlen ss <=? 1)) eqn:E1.
  - apply R. exact Hn.
  - destruct (ptype =? 2) eqn:E2.
    + rewrite zlen_snoc, R by lia. lia.
    + destruct (ptype =? 3) eqn:E3.
      * rewrite zlen_snoc, R by lia. lia.
      * lia.
Qed.

(* The exponent is twice the number of preconditioned axes. *)
Lemma exponent_spec ss ptype :
  exponent_for_preconditioner ss ptype = 2 * num_preconditioned ptype (zlen ss).
Proof.
  unfold exponent_for_preconditioner. rewrite should_precondition_dims_count. reflexivity.
Qed.

(* Slot bookkeeping: the list handed to a block has one slot per axis. *)
Lemma zlen_slice_exact {A} (l : list A) a b :
  0 <= a -> a <= b -> b <= zlen l -> zlen (slice l a b) = b - a.
Proof.
  intros Ha Hab Hb. unfold slice, clamp_slice.
  replace (a <? 0) with false by lia. replace (b <? 0) with false by lia.
  unfold zlen in *. rewrite firstn_length, skipn_length. lia.
Qed.

Lemma preconds_for_grad_total ptype (ps : list Z) rank i :
  (ptype = 1 \/ ptype = 2 \/ ptype = 3) -> 0 <= rank -> 0 <= i ->
  let np := num_preconditioned ptype rank in
  (i + 1) * np <= zlen ps ->
  exists r, preconds_for_grad ptype ps rank (i * np) ((i + 1) * np) = Some r /\ zlen r = rank.
Proof.
  intros Hp Hr Hi np Hlen. unfold preconds_for_grad.
  assert (Hnp : 0 <= np).
  { unfold np, num_preconditioned.
    destruct ((ptype =? 1) || (rank <=? 1)) eqn:F1; [lia|].
    destruct (ptype =? 2) eqn:F2; [lia|]. destruct (ptype =? 3); lia. }
  assert (Hs : zlen (slice ps (i * np) ((i + 1) * np)) = np).
  { rewrite zlen_slice_exact; nia. }
  assert (R : forall (x : Z) n, 0 <= n -> zlen (repeat_z x n) = n).
  { intros x n H. unfold zlen, repeat_z. rewrite repeat_length. lia. }
  destruct (rank <=? 1) eqn:E0.
  - assert (np = rank) by (unfold np, num_preconditioned; replace ((ptype =? 1) || (rank <=? 1)) with true by lia; reflexivity).
    rewrite Hs. replace (np =? rank) with true by lia.
    eexists. split; [reflexivity|]. lia.
  - destruct (ptype =? 2) eqn:E2.
    + assert (np = rank - 1) by (unfold np, num_preconditioned; replace ((ptype =? 1) || (rank <=? 1)) with false by lia; rewrite E2; reflexivity).
      rewrite zlen_snoc, Hs.
      replace (np + 1 =? rank) with true by lia.
      eexists. split; [reflexivity|]. rewrite zlen_snoc, Hs. lia.
    + destruct (ptype =? 3) eqn:E3.
      * assert (np = 1) by (unfold np, num_preconditioned; replace ((ptype =? 1) || (rank <=? 1)) with false by lia; rewrite E2, E3; reflexivity).
        rewrite zlen_app, Hs, R by lia.
        replace (rank - 1 + np =? rank) with true by lia.
        eexists. split; [reflexivity|]. rewrite zlen_app, Hs, R by lia. lia.
      * assert (np = rank) by (unfold np, num_preconditioned; replace ((ptype =? 1) || (rank <=? 1)) with true by lia; reflexivity).
        rewrite Hs. replace (np =? rank) with true by lia.
        eexists. split; [reflexivity|]. lia.
Qed.

(* Non-vacuity: the rank-1 / INPUT case that tripped the assertion before the fix (finding D6,
   fixed in /repo commit "fix: ignore one-sided preconditioner type for rank<=1 ...") now succeeds. *)
Example preconds_for_grad_input_rank1 :
  preconds_for_grad 2 [7] 1 0 (count_true (should_precondition_dims [[5]] 2)) = Some [7].
Proof. reflexivity. Qed.

(* ---------- tensor level: BlockPartitioner.merge_partitions (partition t) = t ---------- *)
From Precond Require Import Base.Tensor C06.TensorProofs.

Lemma dim_sizes_nonneg b d : 1 <= d -> Forall (fun s => 0 <= s) (dim_sizes b d).
Proof.
  intro Hd. destruct (Z_lt_dec 0 b) as [Hb|Hb]; [destruct (Z_lt_dec b d) as [Hbd|Hbd]|].
  - destruct (dim_sizes_props b d Hb Hbd) as [H _]. eapply Forall_impl; [|exact H]. intros a Ha. cbv beta in Ha. lia.
  - rewrite dim_sizes_small by lia. constructor; [lia|constructor].
  - rewrite dim_sizes_small by lia. constructor; [lia|constructor].
Qed.

Lemma sumn_to_nat l : Forall (fun s => 0 <= s) l -> sumn (map Z.to_nat l) = Z.to_nat (sum_z l).
Proof.
  induction 1 as [|x l Hx Hl IH]; [reflexivity|].
  cbn [map sumn]. rewrite sum_z_cons, IH.
  assert (0 <= sum_z l).
  { clear - Hl. induction Hl as [|y l Hy Hl IH]; [rewrite sum_z_nil; lia | rewrite sum_z_cons; lia]. }
  lia.
Qed.

Definition nat_split_sizes (shape : list Z) (b : Z) : list (list nat) :=
  map (map Z.to_nat) (snd (block_partitioner_init shape b)).

Theorem partition_merge_id {A} (shape : list Z) (b : Z) (data : list A) :
  Forall (fun d => 1 <= d) shape ->
  length data = prodn (map Z.to_nat shape) ->
  let ss := nat_split_sizes shape b in
  let t := mkT (map Z.to_nat shape) data in
  merge_partitions ss (partition ss t) = t.
Proof.
  intros Hsh Hlen ss t. apply merge_partition_id.
  - exact Hlen.
  - unfold ss, nat_split_sizes. rewrite split_sizes_spec. cbn [t_shape t]. rewrite !map_length. reflexivity.
  - unfold ss, nat_split_sizes. rewrite split_sizes_spec. cbn [t_shape t]. rewrite map_map.
    rewrite map_map. clear Hlen t ss data.
    induction Hsh as [|d l Hd Hl IH]; [reflexivity|]. cbn [map]. rewrite IH. f_equal.
    rewrite sumn_to_nat by (apply dim_sizes_nonneg; exact Hd). f_equal.
    destruct (Z_lt_dec 0 b) as [Hb|Hb]; [destruct (Z_lt_dec b d) as [Hbd|Hbd]|].
    + apply dim_sizes_props; assumption.
    + rewrite dim_sizes_small by lia. rewrite sum_z_cons, sum_z_nil. lia.
    + rewrite dim_sizes_small by lia. rewrite sum_z_cons, sum_z_nil. lia.
Qed.
