(* C06/Check.v — boolean comparators used by the correspondence check: the model's (C06.Ref)
   output against the implementation's observed output, exact integers. *)
From Precond Require Import Base.PyLib Base.Tensor C06.Records C06.Ref C06.BlockProofs.
Open Scope Z_scope.

Fixpoint lleqb (a b : list (list Z)) : bool :=
  match a, b with
  | [], [] => true
  | x :: s, y :: t => list_eqb_z x y && lleqb s t
  | _, _ => false
  end.

Fixpoint beqb_list (a b : list bool) : bool :=
  match a, b with
  | [], [] => true
  | x :: s, y :: t => Bool.eqb x y && beqb_list s t
  | _, _ => false
  end.

Fixpoint splits_eqb (a b : list (Z * list Z)) : bool :=
  match a, b with
  | [], [] => true
  | (i, x) :: s, (j, y) :: t => (i =? j) && list_eqb_z x y && splits_eqb s t
  | _, _ => false
  end.

Definition chk_merge (shape : list Z) (m : Z) (out : list Z) : bool :=
  list_eqb_z (merge_small_dims shape m) out.

Definition chk_partition (shape : list Z) (b : Z) (ss : list (list Z)) (splits : list (Z * list Z))
           (block_shapes : list (list Z)) : bool :=
  let r := block_partitioner_init shape b in
  lleqb (snd r) ss && splits_eqb (fst r) splits && lleqb (cart_prod (snd r)) block_shapes.

Definition chk_precond (shape : list Z) (b m ptype cr : Z) (transformed : list Z)
           (ss shapes : list (list Z)) (expo : Z) (should : list bool) : bool :=
  let tr := merge_small_dims shape m in
  let r := snd (block_partitioner_init tr b) in
  list_eqb_z tr transformed && lleqb r ss &&
  lleqb (shapes_for_preconditioners r ptype cr) shapes &&
  (exponent_for_preconditioner r ptype =? expo) &&
  beqb_list (should_precondition_dims r ptype) should.

Definition chk_blockify (shape : list Z) (b : Z) (bs : list Z) (nb : Z) (la bpl : list Z) (ba : Z) : bool :=
  let md := blocks_metadata b shape in
  list_eqb_z (bm_block_sizes md) bs && (bm_num_blocks md =? nb) &&
  list_eqb_z (bm_large_axes md) la && list_eqb_z (bm_blocks_per_large_axis md) bpl &&
  (bm_blocks_axis md =? ba) && list_eqb_z (bm_param_shape md) shape &&
  (bm_large_block_size md =? b).

Definition chk_reshaper (shape : list Z) (b m : Z) (orig merged padded : list Z) : bool :=
  let s := derive_shapes m b shape in
  list_eqb_z (sh_original_shape s) orig && list_eqb_z (sh_merged_shape s) merged &&
  list_eqb_z (sh_padded_shape s) padded.

(* tensor-level model against the implementation: the blocks' contents of an arange tensor *)
Definition chk_blocks (shape : list Z) (b : Z) (blocks : list (list Z)) : bool :=
  let ss := nat_split_sizes shape b in
  let n := prod_z shape in
  let t := mkT (map Z.to_nat shape) (zrange n) in
  let parts := partition ss t in
  lleqb (map (@t_data Z) parts) blocks &&
  list_eqb_z (t_data (merge_partitions ss parts)) (zrange n).
