(* C06/Records.v — record types shared by the reference model (C06.Ref) and the regenerated
   translator output (gen/C06/Gen.v); they mirror tearfree.shampoo._BlocksMetadata (without the
   debug string) and tearfree.reshaper._Shapes. *)
From Precond Require Import Base.PyLib.
Record BlocksMetadata := Build_BlocksMetadata {
  bm_block_sizes : list Z; bm_num_blocks : Z; bm_large_block_size : Z; bm_large_axes : list Z;
  bm_param_shape : list Z; bm_blocks_per_large_axis : list Z; bm_blocks_axis : Z }.
Record Shapes := Build_Shapes {
  sh_original_shape : list Z; sh_merged_shape : list Z; sh_padded_shape : list Z }.
