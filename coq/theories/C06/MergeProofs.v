(* C06/MergeProofs.v — merge_small_dims: the output is a grouping of a contiguous factorisation of
   the input; hence product, order, size limit and "no unit dims" follow. *)
From Precond Require Import Base.PyLib C06.Ref.
From Coq Require Import ZifyBool.
Open Scope Z_scope.

Definition all_ge1 (l : list Z) : Prop := Forall (fun x => 1 <= x) l.

Definition gt1 (x : Z) : bool := x >? 1.

(* a closed group: product within the limit, or a single dimension exceeding it *)
Definition good_group (m : Z) (g : list Z) : Prop :=
  prod_z g <= m \/ exists x, g = [x] /\ m < x.

(* The loop body, as it appears (up to conversion) in Ref.merge_small_dims. *)
Definition msd_body (max_dim : Z) : Z * list Z -> Z -> Z * list Z :=
  fun '(product, resulting_shape) d =>
    (let '(product, resulting_shape) := (if ((product * d) <=? max_dim) then
      (let product := (product * d) in (product, resulting_shape))
    else
      (let resulting_shape := (if (product >? 1) then
         (let resulting_shape := resulting_shape ++ [product] in resulting_shape)
       else resulting_shape) in
       (let product := d in (product, resulting_shape)))) in
    (product, resulting_shape)).

Lemma merge_small_dims_unfold l m :
  merge_small_dims l m =
  if (truthy_list l && forallb (fun x => x =? 1) l) then [1]
  else let '(p, rs) := fold_left (msd_body m) l (1, []) in
       if p >? 1 then rs ++ [p] else rs.
Proof. reflexivity. Qed.

Lemma prod_ge1 l : all_ge1 l -> 1 <= prod_z l.
Proof.
  induction 1 as [|x t Hx Ht IH]; [rewrite prod_z_nil; lia|].
  rewrite prod_z_cons. nia.
Qed.

Lemma all_ge1_app l1 l2 : all_ge1 (l1 ++ l2) <-> all_ge1 l1 /\ all_ge1 l2.
Proof. unfold all_ge1. apply Forall_app. Qed.

Lemma filter_gt1_app l1 l2 : filter gt1 (l1 ++ l2) = filter gt1 l1 ++ filter gt1 l2.
Proof. apply filter_app. Qed.

(* Invariant of the loop: [gs] closed groups, [cur] the open group. *)
Record msd_inv (m : Z) (pre : list Z) (st : Z * list Z) (gs : list (list Z)) (cur : list Z) : Prop := {
  inv_concat : concat gs ++ cur = pre;
  inv_prod : fst st = prod_z cur;
  inv_rs : snd st = filter gt1 (map prod_z gs);
  inv_good : Forall (good_group m) gs;
  inv_cur : good_group m cur
}.

Lemma msd_body_inv m pre st gs cur d :
  1 <= m -> all_ge1 pre -> 1 <= d ->
  msd_inv m pre st gs cur ->
  exists gs' cur', msd_inv m (pre ++ [d]) (msd_body m st d) gs' cur'.
Proof.
  intros Hm Hpre Hd [Hc Hp Hr Hg Hcur]. destruct st as [p rs]. simpl in Hp, Hr.
  unfold msd_body.
  destruct (p * d <=? m) eqn:E.
  - exists gs, (cur ++ [d]). split; simpl.
    + rewrite app_assoc, Hc. reflexivity.
    + rewrite prod_z_app, prod_z_cons, prod_z_nil. lia.
    + exact Hr.
    + exact Hg.
    + left. rewrite prod_z_app, prod_z_cons, prod_z_nil. lia.
  - exists (gs ++ [cur]), [d]. split; simpl.
    + rewrite concat_app. simpl. rewrite app_nil_r, Hc. reflexivity.
    + destruct (p >? 1); simpl; rewrite prod_z_cons, prod_z_nil; lia.
    + rewrite map_app, filter_gt1_app. simpl. unfold gt1 at 2. rewrite <- Hp.
      destruct (p >? 1) eqn:E2; simpl; rewrite Hr; [reflexivity | rewrite app_nil_r; reflexivity].
    + apply Forall_app. split; [exact Hg | constructor; [exact Hcur | constructor]].
    + assert (Hcg : all_ge1 cur).
      { rewrite <- Hc in Hpre. apply all_ge1_app in Hpre. tauto. }
      pose proof (prod_ge1 _ Hcg) as Hp1.
      destruct (d <=? m) eqn:E3.
      * left. rewrite prod_z_cons, prod_z_nil. lia.
      * right. exists d. split; [reflexivity | lia].
Qed.

Lemma msd_fold_inv m l : forall pre st gs cur,
  1 <= m -> all_ge1 (pre ++ l) ->
  msd_inv m pre st gs cur ->
  exists gs' cur', msd_inv m (pre ++ l) (fold_left (msd_body m) l st) gs' cur'.
Proof.
  induction l as [|d t IH]; intros pre st gs cur Hm Hall Hinv.
  - exists gs, cur. rewrite app_nil_r. exact Hinv.
  - cbn [fold_left].
    assert (Hpre : all_ge1 pre) by (apply all_ge1_app in Hall; tauto).
    assert (Hd : 1 <= d).
    { apply all_ge1_app in Hall. destruct Hall as [_ H]. inversion H; assumption. }
    destruct (msd_body_inv m pre st gs cur d Hm Hpre Hd Hinv) as [gs' [cur' Hinv']].
    replace (pre ++ d :: t) with ((pre ++ [d]) ++ t) in * by (rewrite <- app_assoc; reflexivity).
    eapply IH; eauto.
Qed.

(* The grouping theorem. *)
Lemma merge_small_dims_grouping l m :
  1 <= m -> all_ge1 l ->
  (l <> [] /\ Forall (fun x => x = 1) l /\ merge_small_dims l m = [1]) \/
  exists gs, concat gs = l /\ Forall (good_group m) gs /\
             merge_small_dims l m = filter gt1 (map prod_z gs).
Proof.
  intros Hm Hall. rewrite merge_small_dims_unfold.
  destruct (truthy_list l && forallb (fun x => x =? 1) l) eqn:E.
  - left. apply andb_true_iff in E as [E1 E2]. split; [|split].
    + destruct l; [discriminate | congruence].
    + rewrite forallb_forall in E2. apply Forall_forall. intros x Hx.
      apply E2 in Hx. lia.
    + reflexivity.
  - right.
    assert (H0 : msd_inv m [] (1, []) [] []).
    { split; simpl; try reflexivity; try constructor. rewrite prod_z_nil. lia. }
    destruct (msd_fold_inv m l [] (1, []) [] [] Hm Hall H0) as [gs [cur [Hc Hp Hr Hg Hcur]]].
    simpl in Hc. destruct (fold_left (msd_body m) l (1, [])) as [p rs]. simpl in Hp, Hr.
    exists (gs ++ [cur]). split; [|split].
    + rewrite concat_app. simpl. rewrite app_nil_r. exact Hc.
    + apply Forall_app. split; [exact Hg | constructor; [exact Hcur | constructor]].
    + rewrite map_app, filter_gt1_app. simpl. unfold gt1 at 2. rewrite <- Hp, <- Hr.
      destruct (p >? 1); [reflexivity | rewrite app_nil_r; reflexivity].
Qed.

Lemma prod_concat gs : prod_z (concat gs) = prod_z (map prod_z gs).
Proof.
  induction gs as [|g t IH]; [reflexivity|].
  simpl. rewrite prod_z_app, prod_z_cons, IH. reflexivity.
Qed.

Lemma prod_filter_gt1 l : Forall (fun x => 1 <= x) l -> prod_z (filter gt1 l) = prod_z l.
Proof.
  induction 1 as [|x t Hx Ht IH]; [reflexivity|].
  simpl. unfold gt1 at 1. destruct (x >? 1) eqn:E; rewrite ?prod_z_cons, IH; [reflexivity|].
  assert (x = 1) by lia. subst. lia.
Qed.

Lemma all_ge1_concat gs : all_ge1 (concat gs) -> Forall all_ge1 gs.
Proof.
  induction gs as [|g t IH]; intro H; [constructor|].
  simpl in H. apply all_ge1_app in H as [H1 H2]. constructor; auto.
Qed.

Lemma prod_all_ones l : Forall (fun x => x = 1) l -> prod_z l = 1.
Proof.
  induction 1 as [|x t Hx Ht IH]; [reflexivity|]. rewrite prod_z_cons, IH. lia.
Qed.

(* Element count is preserved. *)
Lemma merge_small_dims_product l m :
  1 <= m -> all_ge1 l -> prod_z (merge_small_dims l m) = prod_z l.
Proof.
  intros Hm Hall.
  destruct (merge_small_dims_grouping l m Hm Hall) as [[_ [H1 ->]] | [gs [Hc [_ ->]]]].
  - rewrite (prod_all_ones l H1). reflexivity.
  - rewrite prod_filter_gt1.
    + rewrite <- Hc. symmetry. apply prod_concat.
    + rewrite <- Hc in Hall. apply all_ge1_concat in Hall.
      apply Forall_forall. intros x Hx. apply in_map_iff in Hx as [g [<- Hg]].
      apply prod_ge1. rewrite Forall_forall in Hall. auto.
Qed.

(* Every merged dimension respects the limit unless it is a single original dimension above it. *)
Lemma merge_small_dims_limit l m x :
  1 <= m -> all_ge1 l -> In x (merge_small_dims l m) -> x <= m \/ (In x l /\ m < x).
Proof.
  intros Hm Hall Hin.
  destruct (merge_small_dims_grouping l m Hm Hall) as [[_ [_ E]] | [gs [Hc [Hg E]]]];
    rewrite E in Hin.
  - destruct Hin as [<-|[]]. left. lia.
  - apply filter_In in Hin as [Hin _]. apply in_map_iff in Hin as [g [<- Hgin]].
    rewrite Forall_forall in Hg. destruct (Hg g Hgin) as [Hle | [y [-> Hy]]].
    + left. exact Hle.
    + right. rewrite prod_z_cons, prod_z_nil, Z.mul_1_r. split.
      * rewrite <- Hc. apply in_concat. exists [y]. split; [exact Hgin | left; reflexivity].
      * lia.
Qed.

(* No unit dimension survives unless the whole shape is ones (then the result is exactly [1]). *)
Lemma merge_small_dims_no_unit l m :
  1 <= m -> all_ge1 l ->
  merge_small_dims l m = [1] \/ Forall (fun x => 1 < x) (merge_small_dims l m).
Proof.
  intros Hm Hall.
  destruct (merge_small_dims_grouping l m Hm Hall) as [[_ [_ E]] | [gs [_ [_ E]]]].
  - left. exact E.
  - right. rewrite E. apply Forall_forall. intros x Hx. apply filter_In in Hx as [_ Hx].
    unfold gt1 in Hx. lia.
Qed.
