(* C06/TransposeProofs.v — theory of C06/Transpose.v for every rank and shape:
   flatten/unflatten are mutually inverse, at/tabulate, transposition and its inverse, reshape,
   pad/slice. *)
From Coq Require Import List Arith Bool Lia Permutation.
From Precond Require Import Base.Tensor C06.TensorProofs C06.Transpose.
Import ListNotations.

(* ---------- generic list lemmas ---------- *)
Lemma firstn_app_l {B} (P R : list B) k : length P = k -> firstn k (P ++ R) = P.
Proof.
  intros <-. rewrite firstn_app, Nat.sub_diag, firstn_all. cbn [firstn]. apply app_nil_r.
Qed.

Lemma skipn_app_l {B} (P R : list B) k : length P = k -> skipn k (P ++ R) = R.
Proof.
  intros <-. rewrite skipn_app, Nat.sub_diag, skipn_all. reflexivity.
Qed.

Lemma list_split_nth {B} (d : B) : forall (l : list B) i, i < length l ->
  l = firstn i l ++ nth i l d :: skipn (S i) l.
Proof.
  induction l as [|x l IH]; intros i H; [simpl in H; lia|].
  destruct i as [|i]; [reflexivity|]. cbn [firstn nth skipn app]. f_equal. apply IH. simpl in H. lia.
Qed.

Lemma nth_map_seq {B} (g : nat -> B) d n k : k < n -> nth k (map g (seq 0 n)) d = g k.
Proof.
  intro H. rewrite (nth_indep _ d (g 0)) by (rewrite map_length, seq_length; exact H).
  rewrite map_nth. rewrite seq_nth by exact H. reflexivity.
Qed.

Lemma map_add_seq a n : map (fun j => a + j) (seq 0 n) = seq a n.
Proof.
  revert a; induction n as [|n IH]; intro a; [reflexivity|].
  cbn [seq map]. rewrite Nat.add_0_r. f_equal. rewrite <- seq_shift, map_map.
  rewrite <- (IH (S a)). apply map_ext. intro j. lia.
Qed.

Lemma seq_mul d P :
  seq 0 (d * P) = flat_map (fun i => map (fun j => i * P + j) (seq 0 P)) (seq 0 d).
Proof.
  induction d as [|d IH]; [reflexivity|].
  replace (S d * P) with (d * P + P) by lia. rewrite seq_app, seq_S, flat_map_app, <- IH.
  cbn [flat_map]. rewrite app_nil_r. f_equal. cbn [Nat.add]. symmetry. apply map_add_seq.
Qed.

Lemma map_flat_map {B C D} (g : C -> D) (f : B -> list C) l :
  map g (flat_map f l) = flat_map (fun x => map g (f x)) l.
Proof. induction l as [|x l IH]; [reflexivity|]. cbn [flat_map]. rewrite map_app, IH. reflexivity. Qed.

Lemma flat_map_ext_in {B C} (f g : B -> list C) l :
  (forall x, In x l -> f x = g x) -> flat_map f l = flat_map g l.
Proof.
  induction l as [|x l IH]; intro H; [reflexivity|]. cbn [flat_map].
  rewrite (H x (or_introl eq_refl)), IH; [reflexivity|]. intros y Hy. apply H. right. exact Hy.
Qed.

Lemma Forall2_nth {B C} (R : B -> C -> Prop) d1 d2 : forall l1 l2 k,
  Forall2 R l1 l2 -> k < length l1 -> R (nth k l1 d1) (nth k l2 d2).
Proof.
  intros l1 l2 k H. revert k. induction H as [|x y l1 l2 Hxy H IH]; intros k Hk; [simpl in Hk; lia|].
  destruct k as [|k]; [exact Hxy|]. cbn [nth]. apply IH. simpl in Hk. lia.
Qed.

(* ---------- flatten / unflatten ---------- *)
Lemma in_range_length shape idx : in_range shape idx -> length idx = length shape.
Proof. unfold in_range. induction 1 as [|? ? ? ? _ _ IH]; [reflexivity | simpl; rewrite IH; reflexivity]. Qed.

Lemma flatten_index_bound shape idx : in_range shape idx -> flatten_index shape idx < prodn shape.
Proof.
  unfold in_range. intro H. induction H as [|i d ix sh Hid H IH]; cbn [flatten_index prodn]; [lia|]. nia.
Qed.

Lemma div_mul_add i P f : f < P -> (i * P + f) / P = i.
Proof. intro H. rewrite Nat.div_add_l by lia. rewrite Nat.div_small by exact H. lia. Qed.

Lemma mod_mul_add i P f : f < P -> (i * P + f) mod P = f.
Proof. intro H. rewrite Nat.add_comm, Nat.mod_add by lia. apply Nat.mod_small. exact H. Qed.

Theorem unflatten_flatten shape idx :
  in_range shape idx -> unflatten_index shape (flatten_index shape idx) = idx.
Proof.
  unfold in_range. intro H. induction H as [|i d ix sh Hid H IH]; [reflexivity|].
  cbn [flatten_index unflatten_index].
  pose proof (flatten_index_bound sh ix H) as Hb.
  rewrite div_mul_add, mod_mul_add by exact Hb. rewrite IH. reflexivity.
Qed.

Theorem flatten_unflatten : forall shape k,
  k < prodn shape -> flatten_index shape (unflatten_index shape k) = k.
Proof.
  induction shape as [|d sh IH]; intros k H; cbn [prodn] in H; cbn [unflatten_index flatten_index]; [lia|].
  assert (HP : prodn sh <> 0) by (intro E; rewrite E in H; lia).
  rewrite IH by (apply Nat.mod_upper_bound; exact HP).
  pose proof (Nat.div_mod k (prodn sh) HP). lia.
Qed.

Lemma unflatten_in_range : forall shape k, k < prodn shape -> in_range shape (unflatten_index shape k).
Proof.
  unfold in_range. induction shape as [|d sh IH]; intros k H; cbn [prodn] in H; cbn [unflatten_index];
    constructor.
  - apply Nat.div_lt_upper_bound; [intro E; rewrite E in H; lia | lia].
  - apply IH. apply Nat.mod_upper_bound. intro E; rewrite E in H; lia.
Qed.

Lemma in_rangeb_spec : forall shape idx, in_rangeb shape idx = true <-> in_range shape idx.
Proof.
  unfold in_range. induction shape as [|d sh IH]; intros [|i ix]; cbn [in_rangeb]; split; intro H;
    try discriminate; try (inversion H; fail); try constructor; try reflexivity.
  - apply andb_true_iff in H as [H1 _]. apply Nat.ltb_lt. exact H1.
  - apply andb_true_iff in H as [_ H2]. apply IH. exact H2.
  - inversion H; subst. apply andb_true_iff. split; [apply Nat.ltb_lt; assumption | apply IH; assumption].
Qed.

(* all_indices enumerates the multi-indices in row-major order *)
Theorem all_indices_spec : forall shape,
  all_indices shape = map (unflatten_index shape) (seq 0 (prodn shape)).
Proof.
  induction shape as [|d sh IH]; [reflexivity|].
  cbn [all_indices prodn]. rewrite seq_mul, map_flat_map. apply flat_map_ext_in. intros i _.
  rewrite IH, !map_map. apply map_ext_in. intros j Hj. apply in_seq in Hj.
  cbn [unflatten_index]. rewrite div_mul_add, mod_mul_add by lia. reflexivity.
Qed.

Lemma all_indices_length shape : length (all_indices shape) = prodn shape.
Proof. rewrite all_indices_spec, map_length, seq_length. reflexivity. Qed.

Lemma all_indices_in_range shape idx : In idx (all_indices shape) <-> in_range shape idx.
Proof.
  rewrite all_indices_spec. split.
  - intro H. apply in_map_iff in H as [k [<- Hk]]. apply in_seq in Hk. apply unflatten_in_range. lia.
  - intro H. apply in_map_iff. exists (flatten_index shape idx). split; [apply unflatten_flatten; exact H|].
    apply in_seq. pose proof (flatten_index_bound shape idx H). lia.
Qed.

Lemma flatten_index_app : forall P S ip s, length ip = length P ->
  flatten_index (P ++ S) (ip ++ s) = flatten_index P ip * prodn S + flatten_index S s.
Proof.
  induction P as [|d P IH]; intros S [|i ip] s H; simpl in H; try lia; [reflexivity|].
  cbn [app flatten_index]. rewrite IH by lia. rewrite prodn_app. ring.
Qed.

Lemma in_range_app P S ip s : in_range P ip -> in_range S s -> in_range (P ++ S) (ip ++ s).
Proof. apply Forall2_app. Qed.

Lemma in_range_le shape padded idx :
  Forall2 le shape padded -> in_range shape idx -> in_range padded idx.
Proof.
  unfold in_range. intro H. revert idx. induction H as [|d p sh pd Hdp H IH]; intros idx Hi;
    inversion Hi; subst; constructor; [lia | apply IH; assumption].
Qed.

(* ---------- at / tabulate ---------- *)
Section Ops.
  Variable A : Type.
  Variable zero : A.
  Notation tensor := (tensor A).
  Notation wf := (wf A).
  Notation t_at := (t_at zero).

  Lemma tabulate_wf shape (f : list nat -> A) : wf (tabulate shape f).
  Proof. unfold wf, tabulate. cbn [t_data t_shape]. rewrite map_length. apply all_indices_length. Qed.

  Lemma tabulate_shape shape (f : list nat -> A) : t_shape (tabulate shape f) = shape.
  Proof. reflexivity. Qed.

  Theorem t_at_tabulate shape (f : list nat -> A) idx :
    in_range shape idx -> t_at (tabulate shape f) idx = f idx.
  Proof.
    intro H. unfold Transpose.t_at, tabulate. cbn [t_shape t_data].
    rewrite all_indices_spec, map_map.
    rewrite nth_map_seq by (apply flatten_index_bound; exact H).
    rewrite unflatten_flatten by exact H. reflexivity.
  Qed.

  Theorem tabulate_t_at (t : tensor) : wf t -> tabulate (t_shape t) (t_at t) = t.
  Proof.
    intro Hwf. destruct t as [sh data]. unfold wf in Hwf. cbn [t_shape t_data] in Hwf.
    unfold tabulate. cbn [t_shape]. f_equal. rewrite all_indices_spec, map_map.
    transitivity (map (fun k => nth k data zero) (seq 0 (length data))); [|apply map_nth_seq].
    rewrite Hwf. apply map_ext_in. intros k Hk. apply in_seq in Hk.
    unfold Transpose.t_at. cbn [t_shape t_data]. rewrite flatten_unflatten by lia. reflexivity.
  Qed.

  Lemma tabulate_ext shape (f g : list nat -> A) :
    (forall idx, in_range shape idx -> f idx = g idx) -> tabulate shape f = tabulate shape g.
  Proof.
    intro H. unfold tabulate. f_equal. apply map_ext_in. intros idx Hi. apply H.
    apply all_indices_in_range. exact Hi.
  Qed.

  (* extensionality: well-formed tensors with the same shape and the same entries are equal *)
  Theorem tensor_ext (t1 t2 : tensor) :
    wf t1 -> wf t2 -> t_shape t1 = t_shape t2 ->
    (forall idx, in_range (t_shape t1) idx -> t_at t1 idx = t_at t2 idx) -> t1 = t2.
  Proof.
    intros H1 H2 Hs He. rewrite <- (tabulate_t_at t1 H1), <- (tabulate_t_at t2 H2), <- Hs.
    apply tabulate_ext. exact He.
  Qed.

  (* ---------- reshape ---------- *)
  Lemma reshape_wf sh (t : tensor) : wf t -> prodn sh = prodn (t_shape t) -> wf (reshape sh t).
  Proof. unfold wf, reshape. cbn [t_shape t_data]. intros H1 H2. lia. Qed.

  Theorem reshape_reshape sh1 sh2 (t : tensor) : reshape sh2 (reshape sh1 t) = reshape sh2 t.
  Proof. reflexivity. Qed.

  Theorem reshape_self (t : tensor) : reshape (t_shape t) t = t.
  Proof. destruct t; reflexivity. Qed.

  Theorem reshape_round_trip sh (t : tensor) : reshape (t_shape t) (reshape sh t) = t.
  Proof. destruct t; reflexivity. Qed.

  Lemma reshape_data sh (t : tensor) : t_data (reshape sh t) = t_data t.
  Proof. reflexivity. Qed.

  (* entry idx of the reshaped tensor is the entry of the original at the same flat position *)
  Lemma t_at_reshape sh (t : tensor) idx idx0 :
    flatten_index sh idx = flatten_index (t_shape t) idx0 -> t_at (reshape sh t) idx = t_at t idx0.
  Proof. intro H. unfold Transpose.t_at, reshape. cbn [t_shape t_data]. rewrite H. reflexivity. Qed.

  (* ---------- expand_dims / squeeze ---------- *)
  Lemma remove_insert_at {B} k (x : B) (R : list B) : k <= length R -> remove_at k (insert_at k x R) = R.
  Proof.
    intro H. unfold remove_at, insert_at.
    assert (L : length (firstn k R) = k) by (apply firstn_length_le; exact H).
    rewrite firstn_app_l by exact L.
    replace (S k) with (k + 1) by lia. rewrite <- skipn_skipn.
    rewrite skipn_app_l by exact L. cbn [skipn]. apply firstn_skipn.
  Qed.

  Theorem squeeze_expand_dims axis (t : tensor) :
    axis <= length (t_shape t) -> squeeze axis (expand_dims axis t) = t.
  Proof.
    intro H. destruct t as [sh data]. unfold squeeze, expand_dims. cbn [t_shape t_data] in *.
    rewrite remove_insert_at by exact H. reflexivity.
  Qed.
End Ops.

(* ---------- permutations (lists of axis numbers) ---------- *)
Lemma is_perm_length n p : is_perm n p -> length p = n.
Proof. intro H. apply Permutation_length in H. rewrite seq_length in H. exact H. Qed.

Lemma is_perm_NoDup n p : is_perm n p -> NoDup p.
Proof. intro H. apply (Permutation_NoDup (Permutation_sym H)). apply seq_NoDup. Qed.

Lemma is_perm_bound n p x : is_perm n p -> In x p -> x < n.
Proof. intros H Hx. apply (Permutation_in _ H) in Hx. apply in_seq in Hx. lia. Qed.

Lemma is_perm_Forall n p : is_perm n p -> Forall (fun x => x < n) p.
Proof. intro H. apply Forall_forall. intros x Hx. exact (is_perm_bound n p x H Hx). Qed.

Lemma is_perm_in n p x : is_perm n p -> x < n -> In x p.
Proof. intros H Hx. apply (Permutation_in _ (Permutation_sym H)). apply in_seq. lia. Qed.

Lemma index_of_in a p : In a p -> index_of a p < length p /\ nth (index_of a p) p 0 = a.
Proof.
  induction p as [|x p IH]; [contradiction|]. intro Hin. cbn [index_of].
  destruct (Nat.eqb x a) eqn:E.
  - apply Nat.eqb_eq in E. subst. split; [simpl; lia | reflexivity].
  - destruct Hin as [H|H]; [subst; rewrite Nat.eqb_refl in E; discriminate|].
    destruct (IH H) as [H1 H2]. split; [simpl; lia | exact H2].
Qed.

Lemma index_of_nth : forall p j, NoDup p -> j < length p -> index_of (nth j p 0) p = j.
Proof.
  induction p as [|x p IH]; intros j Hnd Hj; [simpl in Hj; lia|].
  inversion Hnd as [|? ? Hnotin Hnd']; subst. destruct j as [|j]; cbn [nth index_of].
  - rewrite Nat.eqb_refl. reflexivity.
  - destruct (Nat.eqb x (nth j p 0)) eqn:E.
    + apply Nat.eqb_eq in E. exfalso. apply Hnotin. rewrite E. apply nth_In. simpl in Hj; lia.
    + f_equal. apply IH; [assumption | simpl in Hj; lia].
Qed.

Lemma NoDup_map_inj_in {B C} (f : B -> C) : forall l,
  (forall x y, In x l -> In y l -> f x = f y -> x = y) -> NoDup l -> NoDup (map f l).
Proof.
  induction l as [|x l IH]; intros Hinj Hnd; [constructor|].
  inversion Hnd as [|? ? Hnotin Hnd']; subst. cbn [map]. constructor.
  - intro Hin. apply in_map_iff in Hin as [y [Hy Hyin]]. apply Hnotin.
    rewrite (Hinj x y (or_introl eq_refl) (or_intror Hyin) (eq_sym Hy)). exact Hyin.
  - apply IH; [|exact Hnd']. intros a b Ha Hb. apply Hinj; right; assumption.
Qed.

Lemma permute_length p l : length (permute p l) = length p.
Proof. apply map_length. Qed.

Lemma permute_app p1 p2 l : permute (p1 ++ p2) l = permute p1 l ++ permute p2 l.
Proof. apply map_app. Qed.

Lemma permute_seq l : permute (seq 0 (length l)) l = l.
Proof. apply map_nth_seq. Qed.

Lemma nth_permute p l k : k < length p -> nth k (permute p l) 0 = nth (nth k p 0) l 0.
Proof.
  intro H. unfold permute. rewrite (nth_indep _ 0 (nth 0 l 0)) by (rewrite map_length; exact H).
  apply (map_nth (fun j => nth j l 0)).
Qed.

Lemma permute_permute p q l :
  Forall (fun j => j < length q) p -> permute p (permute q l) = permute (permute p q) l.
Proof.
  intro H. unfold permute at 1 3 4. rewrite map_map. apply map_ext_in. intros j Hj.
  rewrite Forall_forall in H. apply nth_permute. apply H. exact Hj.
Qed.

Lemma permute_inverse_l n p : is_perm n p -> permute (inverse_perm p) p = seq 0 n.
Proof.
  intro H. unfold permute, inverse_perm. rewrite map_map, (is_perm_length n p H).
  rewrite <- (map_id (seq 0 n)) at 2. apply map_ext_in. intros a Ha. apply in_seq in Ha.
  apply index_of_in. apply (is_perm_in n); [exact H | lia].
Qed.

Lemma permute_inverse_r n p : is_perm n p -> permute p (inverse_perm p) = seq 0 n.
Proof.
  intro H. pose proof (is_perm_length n p H) as Hl.
  apply (nth_ext _ _ 0 0).
  - rewrite permute_length, seq_length. exact Hl.
  - intros k Hk. rewrite permute_length in Hk. rewrite nth_permute by exact Hk.
    assert (Hb : nth k p 0 < length p).
    { rewrite Hl. apply (is_perm_bound n p); [exact H | apply nth_In; exact Hk]. }
    unfold inverse_perm. rewrite nth_map_seq by exact Hb.
    rewrite index_of_nth; [| apply (is_perm_NoDup n); exact H | exact Hk].
    rewrite seq_nth by lia. reflexivity.
Qed.

Lemma inverse_perm_length p : length (inverse_perm p) = length p.
Proof. unfold inverse_perm. rewrite map_length, seq_length. reflexivity. Qed.

Lemma inverse_perm_is_perm n p : is_perm n p -> is_perm n (inverse_perm p).
Proof.
  intro H. pose proof (is_perm_length n p H) as Hl. unfold is_perm.
  apply NoDup_Permutation_bis.
  - unfold inverse_perm. apply NoDup_map_inj_in; [|apply seq_NoDup].
    intros a b Ha Hb E. apply in_seq in Ha. apply in_seq in Hb.
    destruct (index_of_in a p) as [_ H1]; [apply (is_perm_in n); [exact H | lia]|].
    destruct (index_of_in b p) as [_ H2]; [apply (is_perm_in n); [exact H | lia]|].
    rewrite <- H1, <- H2, E. reflexivity.
  - rewrite inverse_perm_length, seq_length. lia.
  - intros x Hx. unfold inverse_perm in Hx. apply in_map_iff in Hx as [a [<- Ha]]. apply in_seq in Ha.
    apply in_seq. destruct (index_of_in a p) as [H1 _]; [apply (is_perm_in n); [exact H | lia]|]. lia.
Qed.

(* a right inverse (as a gather) of a permutation is its inverse *)
Lemma inverse_perm_unique n p q :
  is_perm n p -> length q = n -> Forall (fun x => x < n) q -> permute q p = seq 0 n ->
  q = inverse_perm p.
Proof.
  intros Hp Hl Hq H. pose proof (is_perm_length n p Hp) as Hlp.
  apply (nth_ext _ _ 0 0); [rewrite inverse_perm_length; lia|].
  intros k Hk. unfold inverse_perm. rewrite nth_map_seq by lia.
  assert (E : nth (nth k q 0) p 0 = k).
  { rewrite <- nth_permute by exact Hk. rewrite H. rewrite seq_nth by lia. reflexivity. }
  transitivity (index_of (nth (nth k q 0) p 0) p); [|rewrite E; reflexivity].
  symmetry. apply index_of_nth; [apply (is_perm_NoDup n); exact Hp|].
  rewrite Forall_forall in Hq. rewrite Hlp. apply Hq. apply nth_In. exact Hk.
Qed.

(* ---------- pop / insert ---------- *)
Lemma remove_at_length {B} k (l : list B) : k < length l -> length (remove_at k l) = length l - 1.
Proof. intro H. unfold remove_at. rewrite app_length, firstn_length, skipn_length. lia. Qed.

Lemma insert_at_length {B} k (x : B) (l : list B) : length (insert_at k x l) = S (length l).
Proof.
  unfold insert_at. rewrite app_length. cbn [length]. rewrite firstn_length, skipn_length. lia.
Qed.

Lemma nth_insert_at {B} k (x : B) R d : k <= length R -> nth k (insert_at k x R) d = x.
Proof.
  intro H. unfold insert_at.
  assert (L : length (firstn k R) = k) by (apply firstn_length_le; exact H).
  rewrite app_nth2 by lia. rewrite L, Nat.sub_diag. reflexivity.
Qed.

Lemma insert_remove_at {B} k (L : list B) d : k < length L -> insert_at k (nth k L d) (remove_at k L) = L.
Proof.
  intro H. unfold insert_at, remove_at.
  assert (Lf : length (firstn k L) = k) by (apply firstn_length_le; lia).
  rewrite firstn_app_l, skipn_app_l by exact Lf. symmetry. apply list_split_nth. exact H.
Qed.

Lemma insert_at_app {B} (P R : list B) x k : length P = k -> insert_at k x (P ++ R) = P ++ x :: R.
Proof. intro H. unfold insert_at. rewrite firstn_app_l, skipn_app_l by exact H. reflexivity. Qed.

Lemma remove_at_app {B} (P R : list B) x k : length P = k -> remove_at k (P ++ x :: R) = P ++ R.
Proof.
  intro H. unfold remove_at. rewrite firstn_app_l by exact H.
  replace (S k) with (k + 1) by lia. rewrite <- skipn_skipn, skipn_app_l by exact H. reflexivity.
Qed.

Lemma nth_app_mid {B} (P R : list B) x d k : length P = k -> nth k (P ++ x :: R) d = x.
Proof. intros <-. apply nth_middle. Qed.

Lemma permute_insert_at k x R L :
  permute (insert_at k x R) L = insert_at k (nth x L 0) (permute R L).
Proof. unfold permute, insert_at. rewrite map_app. cbn [map]. rewrite firstn_map, skipn_map. reflexivity. Qed.

Lemma permute_remove_at k R L : permute (remove_at k R) L = remove_at k (permute R L).
Proof. unfold permute, remove_at. rewrite map_app, firstn_map, skipn_map. reflexivity. Qed.

Lemma move_perm_is_perm n i j : i < n -> j < n -> is_perm n (move_perm n i j).
Proof.
  intros Hi Hj. unfold is_perm, move_perm, insert_at.
  set (R := remove_at i (seq 0 n)).
  apply Permutation_trans with (i :: R).
  - apply Permutation_sym. rewrite <- (firstn_skipn j R) at 1. apply Permutation_middle.
  - unfold R, remove_at.
    rewrite (list_split_nth 0 (seq 0 n) i) at 3 by (rewrite seq_length; exact Hi).
    rewrite seq_nth by exact Hi. cbn [Nat.add]. apply Permutation_middle.
Qed.

Lemma move_perm_length n i j : i < n -> j < n -> length (move_perm n i j) = n.
Proof. intros Hi Hj. apply is_perm_length. apply move_perm_is_perm; assumption. Qed.

(* gathering with the "move axis i to position j" permutation pops entry i and re-inserts it at j *)
Lemma permute_move_perm n i j L : length L = n ->
  permute (move_perm n i j) L = insert_at j (nth i L 0) (remove_at i L).
Proof.
  intros <-. unfold move_perm. rewrite permute_insert_at, permute_remove_at, permute_seq. reflexivity.
Qed.

(* moving axis i to position j and moving axis j to position i are inverse permutations *)
Lemma move_perm_inverse n i j : i < n -> j < n -> move_perm n j i = inverse_perm (move_perm n i j).
Proof.
  intros Hi Hj. apply (inverse_perm_unique n).
  - apply move_perm_is_perm; assumption.
  - apply move_perm_length; assumption.
  - apply is_perm_Forall. apply move_perm_is_perm; assumption.
  - rewrite permute_move_perm by (apply move_perm_length; assumption).
    unfold move_perm at 1 2.
    assert (HR : j <= length (remove_at i (seq 0 n))).
    { rewrite remove_at_length; rewrite seq_length; lia. }
    rewrite nth_insert_at by exact HR. rewrite remove_insert_at by exact HR.
    pose proof (insert_remove_at i (seq 0 n) 0) as E. rewrite seq_length in E.
    rewrite seq_nth in E by exact Hi. cbn [Nat.add] in E. apply E. exact Hi.
Qed.

Lemma in_range_permute p sh idx :
  in_range sh idx -> Forall (fun j => j < length sh) p -> in_range (permute p sh) (permute p idx).
Proof.
  unfold in_range, permute. intros H Hp. induction Hp as [|j p Hj Hp IH]; cbn [map]; constructor.
  - apply Forall2_nth; [exact H|]. rewrite (in_range_length sh idx H). exact Hj.
  - exact IH.
Qed.

(* ---------- transpose, pad, slice ---------- *)
Section Ops2.
  Variable A : Type.
  Variable zero : A.
  Notation tensor := (tensor A).
  Notation wf := (wf A).
  Notation t_at := (t_at zero).
  Notation transpose := (transpose zero).
  Notation pad_to := (pad_to zero).
  Notation slice_to := (slice_to zero).
  Notation take_axis := (take_axis zero).

  Lemma transpose_shape perm (t : tensor) : t_shape (transpose perm t) = permute perm (t_shape t).
  Proof. reflexivity. Qed.

  Lemma transpose_wf perm (t : tensor) : wf (transpose perm t).
  Proof. apply tabulate_wf. Qed.

  (* entry idx of jnp.transpose(x, perm) is entry (apply_perm perm idx) of x *)
  Theorem t_at_transpose perm (t : tensor) idx :
    in_range (permute perm (t_shape t)) idx ->
    t_at (transpose perm t) idx = t_at t (apply_perm perm idx).
  Proof. intro H. unfold Transpose.transpose. rewrite t_at_tabulate by exact H. reflexivity. Qed.

  Theorem transpose_inverse perm (t : tensor) :
    is_perm (length (t_shape t)) perm -> wf t ->
    transpose (inverse_perm perm) (transpose perm t) = t.
  Proof.
    intros Hp Hwf. set (n := length (t_shape t)) in *. set (q := inverse_perm perm).
    pose proof (inverse_perm_is_perm n perm Hp) as Hq. fold q in Hq.
    pose proof (is_perm_length n perm Hp) as Hlp. pose proof (is_perm_length n q Hq) as Hlq.
    pose proof (inverse_perm_is_perm n q Hq) as Hqq.
    assert (HS : length (permute perm (t_shape t)) = n) by (rewrite permute_length; exact Hlp).
    assert (Hshape : permute q (permute perm (t_shape t)) = t_shape t).
    { rewrite permute_permute by (rewrite Hlp; apply is_perm_Forall; exact Hq).
      unfold q. rewrite (permute_inverse_l n perm Hp). apply permute_seq. }
    apply (tensor_ext A zero).
    - apply transpose_wf.
    - exact Hwf.
    - rewrite !transpose_shape. exact Hshape.
    - intros idx Hidx. rewrite !transpose_shape in Hidx.
      rewrite t_at_transpose by (rewrite transpose_shape; exact Hidx).
      assert (Hlen : length idx = n).
      { rewrite (in_range_length _ _ Hidx), Hshape. reflexivity. }
      rewrite t_at_transpose.
      + f_equal. unfold apply_perm. fold q.
        rewrite permute_permute.
        * rewrite (permute_inverse_r n q Hq). rewrite <- Hlen. apply permute_seq.
        * rewrite inverse_perm_length, Hlq. apply is_perm_Forall. exact Hq.
      + unfold apply_perm.
        replace (permute perm (t_shape t))
          with (permute (inverse_perm q) (permute q (permute perm (t_shape t)))).
        * apply in_range_permute; [exact Hidx|].
          rewrite permute_length, Hlq. apply is_perm_Forall. exact Hqq.
        * rewrite permute_permute by (rewrite Hlq; apply is_perm_Forall; exact Hqq).
          rewrite (permute_inverse_l n q Hq). rewrite <- HS. apply permute_seq.
  Qed.

  (* the permutation family used by _blockify/_deblockify: move one axis, and move it back *)
  Theorem transpose_move_round_trip n i j (t : tensor) :
    length (t_shape t) = n -> i < n -> j < n -> wf t ->
    transpose (move_perm n j i) (transpose (move_perm n i j) t) = t.
  Proof.
    intros Hn Hi Hj Hwf. rewrite (move_perm_inverse n i j Hi Hj).
    apply transpose_inverse; [|exact Hwf]. rewrite Hn. apply move_perm_is_perm; assumption.
  Qed.

  (* ---------- pad / slice ---------- *)
  Lemma pad_to_wf padded (t : tensor) : wf (pad_to padded t).
  Proof. apply tabulate_wf. Qed.

  Lemma pad_to_shape padded (t : tensor) : t_shape (pad_to padded t) = padded.
  Proof. reflexivity. Qed.

  Lemma slice_to_wf shape (t : tensor) : wf (slice_to shape t).
  Proof. apply tabulate_wf. Qed.

  Theorem pad_inside padded (t : tensor) idx :
    Forall2 le (t_shape t) padded -> in_range (t_shape t) idx ->
    t_at (pad_to padded t) idx = t_at t idx.
  Proof.
    intros Hle Hi. unfold Transpose.pad_to.
    rewrite t_at_tabulate by (apply (in_range_le (t_shape t)); assumption).
    rewrite (proj2 (in_rangeb_spec _ _) Hi). reflexivity.
  Qed.

  Theorem pad_outside padded (t : tensor) idx :
    in_range padded idx -> ~ in_range (t_shape t) idx -> t_at (pad_to padded t) idx = zero.
  Proof.
    intros Hi Hn. unfold Transpose.pad_to. rewrite t_at_tabulate by exact Hi.
    destruct (in_rangeb (t_shape t) idx) eqn:E; [|reflexivity].
    apply in_rangeb_spec in E. contradiction.
  Qed.

  Theorem slice_self (t : tensor) : wf t -> slice_to (t_shape t) t = t.
  Proof. apply tabulate_t_at. Qed.

  Theorem slice_pad padded (t : tensor) :
    wf t -> Forall2 le (t_shape t) padded -> slice_to (t_shape t) (pad_to padded t) = t.
  Proof.
    intros Hwf Hle. unfold Transpose.slice_to.
    transitivity (tabulate (t_shape t) (t_at t)); [|apply tabulate_t_at; exact Hwf].
    apply tabulate_ext. intros idx Hi. apply pad_inside; assumption.
  Qed.

  Lemma t_at_take_axis axis k (t : tensor) idx :
    in_range (remove_at axis (t_shape t)) idx ->
    t_at (take_axis axis k t) idx = t_at t (insert_at axis k idx).
  Proof. intro H. unfold Transpose.take_axis. rewrite t_at_tabulate by exact H. reflexivity. Qed.
End Ops2.
