(* C06/BlockifyProofs.v — round-trip and block-content theorems for the tensor-level model of
   Tearfree _blockify/_deblockify and reshaper merge/unmerge (C06/BlockifyModel.v), for every rank,
   shape and block size.  Three layers: (A) nat-level core over abstract before/middle/after
   segments; (B) facts about the translated C06.Ref.blocks_metadata; (C) reshaper. *)
From Coq Require Import List Arith Bool Lia ZArith Permutation.
From Precond Require Import Base.PyLib Base.Tensor C06.Records C06.Ref C06.MergeProofs C06.TensorProofs
     C06.Transpose C06.TransposeProofs C06.BlockifyModel.
Import ListNotations.
Local Open Scope nat_scope.

(* ================= (A) nat-level core ================= *)
Lemma skipn_S_app {B} (P R : list B) x k : length P = k -> skipn (S k) (P ++ x :: R) = R.
Proof.
  intro H. replace (S k) with (k + 1) by lia. rewrite <- skipn_skipn, skipn_app_l by exact H. reflexivity.
Qed.

Lemma split_exclusively_one {B} (P Q : list B) x :
  split_exclusively (P ++ x :: Q) [length P] = [P; Q].
Proof.
  unfold split_exclusively. cbn [split_excl]. rewrite Nat.sub_0_r.
  change (skipn 0 (P ++ x :: Q)) with (P ++ x :: Q).
  rewrite firstn_app_l by reflexivity. rewrite skipn_S_app by reflexivity. reflexivity.
Qed.

Lemma split_exclusively_two {B} (P M Q : list B) x y :
  split_exclusively (P ++ x :: M ++ y :: Q) [length P; length P + 1 + length M] = [P; M; Q].
Proof.
  unfold split_exclusively. cbn [split_excl]. rewrite Nat.sub_0_r.
  change (skipn 0 (P ++ x :: M ++ y :: Q)) with (P ++ x :: M ++ y :: Q).
  rewrite firstn_app_l by reflexivity. rewrite skipn_S_app by reflexivity.
  replace (length P + 1 + length M - S (length P)) with (length M) by lia.
  rewrite firstn_app_l by reflexivity.
  replace (P ++ x :: M ++ y :: Q) with ((P ++ x :: M) ++ y :: Q) by (rewrite <- app_assoc; reflexivity).
  rewrite skipn_S_app by (rewrite app_length; cbn [length]; lia). reflexivity.
Qed.

(* gathering with the permutation of _blockify (move the right block-count axis next to the left
   one) and with the permutation of _deblockify (move it back) *)
Lemma permute_move_fwd (P M Q : list nat) a b c d n :
  n = length P + length M + length Q + 4 ->
  permute (move_perm n (length P + 2 + length M) (length P + 1)) (P ++ a :: b :: M ++ c :: d :: Q)
  = P ++ a :: c :: b :: M ++ d :: Q.
Proof.
  intro Hn. rewrite permute_move_perm by (rewrite !app_length; cbn [length]; rewrite app_length; cbn [length]; lia).
  replace (P ++ a :: b :: M ++ c :: d :: Q) with ((P ++ a :: b :: M) ++ c :: d :: Q)
    by (rewrite <- app_assoc; reflexivity).
  assert (L : length (P ++ a :: b :: M) = length P + 2 + length M)
    by (rewrite app_length; cbn [length]; lia).
  rewrite nth_app_mid by exact L. rewrite remove_at_app by exact L.
  replace ((P ++ a :: b :: M) ++ d :: Q) with ((P ++ [a]) ++ b :: M ++ d :: Q)
    by (rewrite <- !app_assoc; reflexivity).
  rewrite insert_at_app by (rewrite app_length; cbn [length]; lia).
  rewrite <- app_assoc. reflexivity.
Qed.

Lemma permute_move_bwd (P M Q : list nat) a b c d n :
  n = length P + length M + length Q + 4 ->
  permute (move_perm n (length P + 1) (length P + 2 + length M)) (P ++ a :: c :: b :: M ++ d :: Q)
  = P ++ a :: b :: M ++ c :: d :: Q.
Proof.
  intro Hn. rewrite permute_move_perm by (rewrite !app_length; cbn [length]; rewrite app_length; cbn [length]; lia).
  replace (P ++ a :: c :: b :: M ++ d :: Q) with ((P ++ [a]) ++ c :: b :: M ++ d :: Q)
    by (rewrite <- app_assoc; reflexivity).
  assert (L : length (P ++ [a]) = length P + 1) by (rewrite app_length; cbn [length]; lia).
  rewrite nth_app_mid by exact L. rewrite remove_at_app by exact L.
  replace ((P ++ [a]) ++ b :: M ++ d :: Q) with ((P ++ a :: b :: M) ++ d :: Q)
    by (rewrite <- !app_assoc; reflexivity).
  rewrite insert_at_app by (rewrite app_length; cbn [length]; lia).
  rewrite <- app_assoc. reflexivity.
Qed.

Lemma block_origin_nil : forall a g b widx, block_origin a [] g b widx = widx.
Proof.
  intros a g b widx. revert a. induction widx as [|w ws IH]; intro a; [reflexivity|].
  cbn [block_origin]. rewrite IH. reflexivity.
Qed.

Lemma block_origin_skip : forall ip a x la gi g b w ws, x = a + length ip ->
  block_origin a (x :: la) (gi :: g) b (ip ++ w :: ws)
  = ip ++ (gi * b + w) :: block_origin (S x) la g b ws.
Proof.
  induction ip as [|i ip IH]; intros a x la gi g b w ws Hx; cbn [app block_origin length] in *.
  - replace x with a by lia. rewrite Nat.eqb_refl. reflexivity.
  - replace (Nat.eqb x a) with false by (symmetry; apply Nat.eqb_neq; lia).
    f_equal. apply IH. lia.
Qed.

Section Core.
  Variable A : Type.
  Variable zero : A.
  Notation tensor := (tensor A).
  Notation wf := (wf A).
  Notation t_at := (t_at zero).
  Notation transpose := (transpose zero).
  Notation blockify_nat := (blockify_nat zero).
  Notation deblockify_nat := (deblockify_nat zero).

  (* ----- no large axis ----- *)
  Lemma deblockify_blockify_zero bpl ba nb b ps (t : tensor) :
    ba <= length (t_shape t) ->
    deblockify_nat [] bpl ba nb b ps (blockify_nat [] bpl ba nb b t) = t.
  Proof. intro H. cbn [BlockifyModel.blockify_nat BlockifyModel.deblockify_nat]. apply squeeze_expand_dims. exact H. Qed.

  Lemma blockify_zero_at bpl nb b (t : tensor) idx :
    t_at (blockify_nat [] bpl 0 nb b t) (0 :: idx) = t_at t idx.
  Proof.
    cbn [BlockifyModel.blockify_nat]. unfold Transpose.t_at, expand_dims, insert_at.
    cbn [t_shape t_data firstn skipn app flatten_index]. reflexivity.
  Qed.

  (* ----- one large axis ----- *)
  Lemma blockify_one_data a bpl ba nb b (t : tensor) :
    t_data (blockify_nat [a] bpl ba nb b t) = t_data t.
  Proof.
    cbn [BlockifyModel.blockify_nat].
    destruct (split_exclusively (t_shape t) [a]) as [|s1 [|s2 [|s3 r]]]; reflexivity.
  Qed.

  Lemma deblockify_blockify_one a bpl ba nb b (t : tensor) :
    deblockify_nat [a] bpl ba nb b (t_shape t) (blockify_nat [a] bpl ba nb b t) = t.
  Proof.
    cbn [BlockifyModel.deblockify_nat]. unfold reshape. rewrite blockify_one_data.
    destruct t; reflexivity.
  Qed.

  Lemma blockify_one P Q nb bn bpl ba (t : tensor) :
    t_shape t = P ++ (nb * bn) :: Q ->
    blockify_nat [length P] bpl ba nb bn t = reshape (P ++ [nb; bn] ++ Q) t.
  Proof.
    intro Hs. cbn [BlockifyModel.blockify_nat]. rewrite Hs, split_exclusively_one. reflexivity.
  Qed.

  Lemma blockify_one_at P Q nb bn bpl ba (t : tensor) ip iq k u :
    t_shape t = P ++ (nb * bn) :: Q -> length ip = length P ->
    t_at (blockify_nat [length P] bpl ba nb bn t) (ip ++ k :: u :: iq)
    = t_at t (ip ++ (k * bn + u) :: iq).
  Proof.
    intros Hs Hl. rewrite (blockify_one P Q) by exact Hs. apply t_at_reshape. rewrite Hs.
    rewrite !flatten_index_app by exact Hl. cbn [app flatten_index prodn]. ring.
  Qed.

  (* ----- two large axes ----- *)
  Lemma blockify_two P M Q l r bn (t : tensor) :
    t_shape t = P ++ (l * bn) :: M ++ (r * bn) :: Q ->
    blockify_nat [length P; length P + 1 + length M] [l; r] (length P) (l * r) bn t =
    reshape (P ++ (l * r) :: bn :: M ++ bn :: Q)
      (transpose (move_perm (length P + length M + length Q + 4) (length P + 2 + length M) (length P + 1))
         (reshape (P ++ l :: bn :: M ++ r :: bn :: Q) t)).
  Proof.
    intro Hs. cbn [BlockifyModel.blockify_nat]. rewrite Hs, split_exclusively_two. cbv zeta.
    cbn [app].
    replace (length (P ++ l :: bn :: M ++ r :: bn :: Q)) with (length P + length M + length Q + 4)
      by (rewrite app_length; cbn [length]; rewrite app_length; cbn [length]; lia).
    reflexivity.
  Qed.

  Lemma prodn_two_split P M Q l r bn :
    prodn (P ++ l :: bn :: M ++ r :: bn :: Q) = prodn (P ++ (l * bn) :: M ++ (r * bn) :: Q).
  Proof. rewrite !prodn_app. cbn [prodn]. rewrite !prodn_app. cbn [prodn]. ring. Qed.

  Theorem deblockify_blockify_two P M Q l r bn (t : tensor) :
    wf t -> t_shape t = P ++ (l * bn) :: M ++ (r * bn) :: Q ->
    deblockify_nat [length P; length P + 1 + length M] [l; r] (length P) (l * r) bn (t_shape t)
      (blockify_nat [length P; length P + 1 + length M] [l; r] (length P) (l * r) bn t) = t.
  Proof.
    intros Hwf Hs. rewrite (blockify_two P M Q) by exact Hs.
    set (n := length P + length M + length Q + 4).
    set (S1 := P ++ l :: bn :: M ++ r :: bn :: Q).
    set (X1 := reshape S1 t).
    assert (HwfX1 : wf X1).
    { apply reshape_wf; [exact Hwf|]. rewrite Hs. apply prodn_two_split. }
    assert (HlenS1 : length S1 = n).
    { unfold S1, n. rewrite app_length; cbn [length]; rewrite app_length; cbn [length]; lia. }
    set (p := move_perm n (length P + 2 + length M) (length P + 1)).
    set (X2 := transpose p X1).
    assert (HshX2 : t_shape X2 = P ++ l :: r :: bn :: M ++ bn :: Q).
    { unfold X2. rewrite transpose_shape. unfold X1, p, S1. cbn [t_shape reshape].
      apply permute_move_fwd. reflexivity. }
    cbn [BlockifyModel.deblockify_nat]. cbn [t_shape reshape].
    rewrite split_exclusively_one. cbv zeta. cbn [t_shape reshape app t_data].
    rewrite reshape_reshape. rewrite <- HshX2. rewrite reshape_self.
    assert (Hlen2 : length (t_shape X2) = n).
    { rewrite HshX2, app_length; cbn [length]; rewrite app_length; cbn [length]; unfold n; lia. }
    rewrite Hlen2.
    rewrite seq_nth by (unfold n; lia). cbn [Nat.add].
    change (insert_at (length P + 1 + length M + 1) (length P + 1) (remove_at (length P + 1) (seq 0 n)))
      with (move_perm n (length P + 1) (length P + 1 + length M + 1)).
    replace (length P + 1 + length M + 1) with (length P + 2 + length M) by lia.
    unfold X2, p. rewrite transpose_move_round_trip.
    - unfold X1. apply reshape_round_trip.
    - exact HlenS1.
    - unfold n; lia.
    - unfold n; lia.
    - exact HwfX1.
  Qed.

  (* entry (ip, i*r+j, u, im, v, iq) of the blocked tensor is entry (ip, i*b+u, im, j*b+v, iq) of x:
     block number i*r+j (row-major over the l x r grid) is x[..., i*b:(i+1)*b, ..., j*b:(j+1)*b, ...] *)
  Theorem blockify_two_at P M Q l r bn (t : tensor) ip im iq i j u v :
    t_shape t = P ++ (l * bn) :: M ++ (r * bn) :: Q ->
    in_range P ip -> in_range M im -> in_range Q iq -> i < l -> j < r -> u < bn -> v < bn ->
    t_at (blockify_nat [length P; length P + 1 + length M] [l; r] (length P) (l * r) bn t)
         (ip ++ (i * r + j) :: u :: im ++ v :: iq)
    = t_at t (ip ++ (i * bn + u) :: im ++ (j * bn + v) :: iq).
  Proof.
    intros Hs Hip Him Hiq Hi Hj Hu Hv. rewrite (blockify_two P M Q) by exact Hs.
    pose proof (in_range_length _ _ Hip) as Lip. pose proof (in_range_length _ _ Him) as Lim.
    pose proof (in_range_length _ _ Hiq) as Liq.
    set (n := length P + length M + length Q + 4).
    set (S1 := P ++ l :: bn :: M ++ r :: bn :: Q).
    set (X1 := reshape S1 t).
    set (p := move_perm n (length P + 2 + length M) (length P + 1)).
    assert (HshX2 : t_shape (transpose p X1) = P ++ l :: r :: bn :: M ++ bn :: Q).
    { rewrite transpose_shape. unfold X1, p, S1. cbn [t_shape reshape].
      apply permute_move_fwd. reflexivity. }
    (* 1. un-merge the blocks axis *)
    rewrite (t_at_reshape A zero _ _ _ (ip ++ i :: j :: u :: im ++ v :: iq)).
    2:{ rewrite HshX2. rewrite !flatten_index_app by exact Lip. cbn [flatten_index prodn]. ring. }
    (* 2. undo the transposition *)
    rewrite t_at_transpose.
    2:{ rewrite <- (transpose_shape A zero), HshX2. apply in_range_app; [exact Hip|].
        unfold in_range. constructor; [exact Hi|]. constructor; [exact Hj|]. constructor; [exact Hu|].
        apply Forall2_app; [exact Him|]. constructor; [exact Hv | exact Hiq]. }
    unfold apply_perm, p. rewrite <- move_perm_inverse by (unfold n; lia).
    replace (length P + 2 + length M) with (length ip + 2 + length im) by lia.
    replace (length P + 1) with (length ip + 1) by lia.
    rewrite permute_move_bwd by (unfold n; lia).
    (* 3. merge (block index, offset) back into the large axes *)
    apply t_at_reshape. rewrite Hs. unfold S1.
    rewrite !flatten_index_app by exact Lip. cbn [flatten_index prodn].
    rewrite !flatten_index_app by exact Lim. rewrite !prodn_app. cbn [flatten_index prodn]. ring.
  Qed.

  Lemma blockify_two_shape P M Q l r bn (t : tensor) :
    t_shape t = P ++ (l * bn) :: M ++ (r * bn) :: Q ->
    t_shape (blockify_nat [length P; length P + 1 + length M] [l; r] (length P) (l * r) bn t)
    = P ++ (l * r) :: bn :: M ++ bn :: Q.
  Proof. intro Hs. rewrite (blockify_two P M Q) by exact Hs. reflexivity. Qed.

  Lemma blockify_two_wf P M Q l r bn (t : tensor) :
    wf t -> t_shape t = P ++ (l * bn) :: M ++ (r * bn) :: Q ->
    wf (blockify_nat [length P; length P + 1 + length M] [l; r] (length P) (l * r) bn t).
  Proof.
    intros Hwf Hs. rewrite (blockify_two P M Q) by exact Hs. apply reshape_wf; [apply transpose_wf|].
    rewrite transpose_shape. cbn [t_shape reshape].
    rewrite (permute_move_fwd P M Q l bn r bn) by reflexivity.
    rewrite !prodn_app. cbn [prodn]. rewrite !prodn_app. cbn [prodn]. ring.
  Qed.
End Core.

(* ================= (B) the translated metadata (C06.Ref.blocks_metadata) ================= *)
From Coq Require Import ZifyBool.
Local Open Scope Z_scope.

Definition large_from (b k : Z) (l : list Z) : list Z :=
  map (fun '(i, d) => i) (filter (fun '(i, d) => d >=? b) (enumerate_from k l)).

Lemma blocks_metadata_fields b shape :
  blocks_metadata b shape =
  let la := large_from b 0 shape in
  let bpl := map (fun i => nth_z shape i 0 / b) la in
  Build_BlocksMetadata (map (fun dim => Z.min dim b) shape) (prod_z (bpl ++ [1])) b la shape bpl
                       (min_list_z la 0).
Proof. reflexivity. Qed.

Lemma large_from_step b k x l :
  large_from b k (x :: l) = if x >=? b then k :: large_from b (k + 1) l else large_from b (k + 1) l.
Proof. unfold large_from. cbn [enumerate_from filter]. destruct (x >=? b); reflexivity. Qed.

Lemma large_from_nil b : forall l k, large_from b k l = [] -> Forall (fun d => d < b) l.
Proof.
  induction l as [|x l IH]; intros k H; [constructor|]. rewrite large_from_step in H.
  destruct (x >=? b) eqn:E; [discriminate|]. constructor; [lia | apply (IH (k + 1)); exact H].
Qed.

Lemma large_from_decomp b : forall l k a rest, large_from b k l = a :: rest ->
  exists pre d post, l = pre ++ d :: post /\ Forall (fun d => d < b) pre /\ b <= d /\
                     a = k + zlen pre /\ large_from b (a + 1) post = rest.
Proof.
  induction l as [|x l IH]; intros k a rest H; [discriminate|]. rewrite large_from_step in H.
  destruct (x >=? b) eqn:E.
  - inversion H; subst. exists [], x, l. repeat split; [constructor | lia | unfold zlen; simpl; lia].
  - destruct (IH (k + 1) a rest H) as (pre & d & post & Hl & Hpre & Hd & Ha & Hrest).
    exists (x :: pre), d, post. subst l. repeat split.
    + constructor; [lia | exact Hpre].
    + exact Hd.
    + rewrite zlen_cons. lia.
    + exact Hrest.
Qed.

Lemma large_from_length b : forall l k,
  length (large_from b k l) = length (filter (fun d => d >=? b) l).
Proof.
  induction l as [|x l IH]; intro k; [reflexivity|]. rewrite large_from_step. cbn [filter].
  destruct (x >=? b); cbn [length]; rewrite IH; reflexivity.
Qed.

Lemma nth_z_mid {B} (pre post : list B) d dflt k :
  k = zlen pre -> nth_z (pre ++ d :: post) k dflt = d.
Proof.
  intros ->. unfold nth_z, norm_index. pose proof (zlen_nonneg pre) as H.
  replace (zlen pre <? 0) with false by lia. replace (zlen pre <? 0) with false by lia.
  unfold zlen. rewrite Nat2Z.id. apply nth_middle.
Qed.

Lemma to_nat_block d b :
  1 < b -> b <= d -> d mod b = 0 -> Z.to_nat d = (Z.to_nat (d / b) * Z.to_nat b)%nat.
Proof.
  intros Hb Hd Hm. rewrite <- Z2Nat.inj_mul; [f_equal | apply Z.div_pos; lia | lia].
  pose proof (Z.div_mod d b ltac:(lia)). lia.
Qed.

Lemma min_small b l :
  Forall (fun d => d < b) l -> map Z.to_nat (map (fun dim => Z.min dim b) l) = map Z.to_nat l.
Proof.
  induction 1 as [|x l Hx Hl IH]; [reflexivity|]. cbn [map]. rewrite IH. f_equal. f_equal. lia.
Qed.

Lemma zlen_to_nat {B} (l : list B) : Z.to_nat (zlen l) = length l.
Proof. unfold zlen. apply Nat2Z.id. Qed.

(* what the metadata says when there is no / one / two large axes *)
Lemma meta_zero b shape :
  large_from b 0 shape = [] ->
  map Z.to_nat (map (fun dim => Z.min dim b) shape) = map Z.to_nat shape.
Proof. intro E. apply min_small. apply (large_from_nil b shape 0). exact E. Qed.

Lemma meta_one b shape a0 :
  1 < b -> Forall (fun d => b <= d -> d mod b = 0) shape ->
  large_from b 0 shape = [a0] ->
  exists P Q l,
    map Z.to_nat shape = P ++ (l * Z.to_nat b)%nat :: Q /\
    map Z.to_nat [a0] = [length P] /\
    Z.to_nat (min_list_z [a0] 0) = length P /\
    Z.to_nat (prod_z (map (fun i => nth_z shape i 0 / b) [a0] ++ [1])) = l /\
    map Z.to_nat (map (fun i => nth_z shape i 0 / b) [a0]) = [l] /\
    map Z.to_nat (map (fun dim => Z.min dim b) shape) = P ++ Z.to_nat b :: Q.
Proof.
  intros Hb Hdiv E.
  destruct (large_from_decomp b shape 0 a0 [] E) as (pre & d0 & post & Hs & Hpre & Hd0 & Ha0 & Hrest).
  apply large_from_nil in Hrest.
  assert (Hm0 : d0 mod b = 0).
  { rewrite Forall_forall in Hdiv. apply Hdiv; [|exact Hd0]. rewrite Hs. apply in_or_app. right. left. reflexivity. }
  assert (Hn0 : nth_z shape a0 0 = d0) by (rewrite Hs; apply nth_z_mid; lia).
  exists (map Z.to_nat pre), (map Z.to_nat post), (Z.to_nat (d0 / b)).
  rewrite map_length. cbn [map min_list_z]. rewrite Hn0.
  replace (Z.to_nat a0) with (length pre) by (rewrite <- zlen_to_nat; f_equal; lia).
  repeat split.
  - rewrite Hs, map_app. cbn [map]. rewrite (to_nat_block d0 b Hb Hd0 Hm0). reflexivity.
  - unfold prod_z. cbn [app fold_left]. f_equal. lia.
  - rewrite Hs, !map_app. cbn [map].
    rewrite !min_small by assumption. f_equal. f_equal. f_equal. lia.
Qed.

Lemma meta_two b shape a0 a1 :
  1 < b -> Forall (fun d => b <= d -> d mod b = 0) shape ->
  large_from b 0 shape = [a0; a1] ->
  exists P M Q l r,
    map Z.to_nat shape = P ++ (l * Z.to_nat b)%nat :: M ++ (r * Z.to_nat b)%nat :: Q /\
    map Z.to_nat [a0; a1] = [length P; (length P + 1 + length M)%nat] /\
    Z.to_nat (min_list_z [a0; a1] 0) = length P /\
    Z.to_nat (prod_z (map (fun i => nth_z shape i 0 / b) [a0; a1] ++ [1])) = (l * r)%nat /\
    map Z.to_nat (map (fun i => nth_z shape i 0 / b) [a0; a1]) = [l; r] /\
    map Z.to_nat (map (fun dim => Z.min dim b) shape) = P ++ Z.to_nat b :: M ++ Z.to_nat b :: Q.
Proof.
  intros Hb Hdiv E.
  destruct (large_from_decomp b shape 0 a0 [a1] E) as (pre & d0 & post0 & Hs & Hpre & Hd0 & Ha0 & Hrest).
  destruct (large_from_decomp b post0 (a0 + 1) a1 [] Hrest)
    as (mid & d1 & post & Hs1 & Hmid & Hd1 & Ha1 & Hrest1).
  apply large_from_nil in Hrest1. subst post0.
  assert (Hm0 : d0 mod b = 0).
  { rewrite Forall_forall in Hdiv. apply Hdiv; [|exact Hd0]. rewrite Hs. apply in_or_app. right. left. reflexivity. }
  assert (Hm1 : d1 mod b = 0).
  { rewrite Forall_forall in Hdiv. apply Hdiv; [|exact Hd1]. rewrite Hs. apply in_or_app. right. right.
    apply in_or_app. right. left. reflexivity. }
  assert (Hn0 : nth_z shape a0 0 = d0) by (rewrite Hs; apply nth_z_mid; lia).
  assert (Hn1 : nth_z shape a1 0 = d1).
  { rewrite Hs. replace (pre ++ d0 :: mid ++ d1 :: post) with ((pre ++ d0 :: mid) ++ d1 :: post)
      by (rewrite <- app_assoc; reflexivity).
    apply nth_z_mid. rewrite zlen_app, zlen_cons. lia. }
  pose proof (Z.div_pos d0 b ltac:(lia) ltac:(lia)) as Hq0.
  pose proof (Z.div_pos d1 b ltac:(lia) ltac:(lia)) as Hq1.
  pose proof (zlen_nonneg pre) as Hzp. pose proof (zlen_nonneg mid) as Hzm.
  exists (map Z.to_nat pre), (map Z.to_nat mid), (map Z.to_nat post), (Z.to_nat (d0 / b)), (Z.to_nat (d1 / b)).
  rewrite !map_length. cbn [map min_list_z]. rewrite Hn0, Hn1.
  replace (Z.to_nat a0) with (length pre) by (rewrite <- zlen_to_nat; f_equal; lia).
  replace (Z.to_nat a1) with (length pre + 1 + length mid)%nat
    by (rewrite <- !zlen_to_nat; lia).
  repeat split.
  - rewrite Hs, map_app. cbn [map]. rewrite map_app. cbn [map].
    rewrite (to_nat_block d0 b Hb Hd0 Hm0), (to_nat_block d1 b Hb Hd1 Hm1). reflexivity.
  - rewrite <- zlen_to_nat. f_equal. lia.
  - unfold prod_z. cbn [app fold_left]. rewrite <- Z2Nat.inj_mul by lia. f_equal. lia.
  - rewrite Hs. rewrite !map_app. cbn [map]. rewrite !map_app. cbn [map].
    rewrite !min_small by assumption. f_equal. f_equal; [f_equal; lia|]. f_equal. f_equal. f_equal. lia.
Qed.

(* ================= main theorems about blockify / deblockify ================= *)
Local Open Scope nat_scope.

Section Main.
  Variable A : Type.
  Variable zero : A.
  Notation tensor := (tensor A).
  Notation wf := (wf A).
  Notation t_at := (t_at zero).
  Notation blockify_nat := (blockify_nat zero).
  Notation blockify := (blockify zero).
  Notation deblockify := (deblockify zero).

  Lemma blockify_one_block P Q nb bn bpl (t : tensor) k widx :
    t_shape t = P ++ (nb * bn) :: Q -> in_range (P ++ bn :: Q) widx ->
    t_at (blockify_nat [length P] bpl (length P) nb bn t) (insert_at (length P) k widx)
    = t_at t (block_origin 0 [length P] (unflatten_index [nb] k) bn widx).
  Proof.
    intros Hs Hw. unfold in_range in Hw.
    apply Forall2_app_inv_r in Hw as (ip & rest & Hip & Hrest & ->).
    inversion Hrest as [|u bn' iq Q' Hu Hiq]; subst.
    pose proof (in_range_length _ _ Hip) as Lip.
    rewrite insert_at_app by exact Lip.
    cbn [unflatten_index prodn]. rewrite Nat.div_1_r.
    rewrite block_origin_skip by lia. rewrite block_origin_nil.
    apply (blockify_one_at A zero P Q); assumption.
  Qed.

  Lemma blockify_two_block P M Q l r bn (t : tensor) k widx :
    t_shape t = P ++ (l * bn) :: M ++ (r * bn) :: Q -> k < l * r ->
    in_range (P ++ bn :: M ++ bn :: Q) widx ->
    t_at (blockify_nat [length P; length P + 1 + length M] [l; r] (length P) (l * r) bn t)
         (insert_at (length P) k widx)
    = t_at t (block_origin 0 [length P; length P + 1 + length M] (unflatten_index [l; r] k) bn widx).
  Proof.
    intros Hs Hk Hw. unfold in_range in Hw.
    apply Forall2_app_inv_r in Hw as (ip & rest & Hip & Hrest & ->).
    inversion Hrest as [|u bn' rest2 Q' Hu Hrest2]; subst.
    apply Forall2_app_inv_r in Hrest2 as (im & rest3 & Him & Hrest3 & ->).
    inversion Hrest3 as [|v bn' iq Q' Hv Hiq]; subst.
    pose proof (in_range_length _ _ Hip) as Lip. pose proof (in_range_length _ _ Him) as Lim.
    rewrite insert_at_app by exact Lip.
    cbn [unflatten_index prodn]. rewrite Nat.mul_1_r, !Nat.div_1_r.
    assert (Hr : r <> 0) by (intro; subst; lia).
    assert (Hi : k / r < l) by (apply Nat.div_lt_upper_bound; [exact Hr | lia]).
    assert (Hj : k mod r < r) by (apply Nat.mod_upper_bound; exact Hr).
    assert (Ek : k = (k / r) * r + k mod r) by (pose proof (Nat.div_mod k r Hr); lia).
    set (i := k / r) in *. set (j := k mod r) in *. clearbody i j.
    rewrite block_origin_skip by lia. rewrite block_origin_skip by lia. rewrite block_origin_nil.
    rewrite Ek. apply (blockify_two_at A zero P M Q); assumption.
  Qed.

  (* _deblockify inverts _blockify on every accepted parameter shape *)
  Theorem deblockify_blockify_id (shape : list Z) (b : Z) (t : tensor) :
    (1 < b)%Z -> accepted shape b -> wf t -> t_shape t = map Z.to_nat shape ->
    deblockify (blocks_metadata b shape) (blockify (blocks_metadata b shape) t) = t.
  Proof.
    intros Hb (Hunit & Hcnt & Hdiv) Hwf Hsh. unfold BlockifyModel.blockify, BlockifyModel.deblockify.
    rewrite blocks_metadata_fields. cbv zeta.
    cbn [bm_large_axes bm_blocks_per_large_axis bm_blocks_axis bm_num_blocks bm_large_block_size bm_param_shape].
    destruct (large_from b 0 shape) as [|a0 [|a1 [|a2 rest]]] eqn:E.
    - cbn [map min_list_z]. apply deblockify_blockify_zero. cbn. lia.
    - rewrite <- Hsh. apply deblockify_blockify_one.
    - destruct (meta_two b shape a0 a1 Hb Hdiv E) as (P & M & Q & l & r & H1 & H2 & H3 & H4 & H5 & H6).
      rewrite H2, H3, H4, H5, <- Hsh. apply (deblockify_blockify_two A zero P M Q); [exact Hwf | rewrite Hsh; exact H1].
    - exfalso. pose proof (large_from_length b shape 0) as HL. rewrite E in HL.
      unfold zlen in Hcnt. cbn [length] in HL. lia.
  Qed.

  (* shape of the blocked tensor: the block sizes with the N axis inserted at blocks_axis; the
     reshapes are legal (element count preserved) *)
  Theorem blockify_shape_wf (shape : list Z) (b : Z) (t : tensor) :
    (1 < b)%Z -> accepted shape b -> wf t -> t_shape t = map Z.to_nat shape ->
    let meta := blocks_metadata b shape in
    t_shape (blockify meta t)
    = insert_at (Z.to_nat (bm_blocks_axis meta)) (Z.to_nat (bm_num_blocks meta))
                (map Z.to_nat (bm_block_sizes meta)) /\
    Z.to_nat (bm_blocks_axis meta) <= length (map Z.to_nat (bm_block_sizes meta)) /\
    wf (blockify meta t).
  Proof.
    intros Hb (Hunit & Hcnt & Hdiv) Hwf Hsh meta. unfold meta, BlockifyModel.blockify.
    rewrite blocks_metadata_fields. cbv zeta.
    cbn [bm_large_axes bm_blocks_per_large_axis bm_blocks_axis bm_num_blocks bm_large_block_size
         bm_param_shape bm_block_sizes].
    destruct (large_from b 0 shape) as [|a0 [|a1 [|a2 rest]]] eqn:E.
    - rewrite (meta_zero b shape E). cbn [map min_list_z BlockifyModel.blockify_nat].
      split; [|split].
      + unfold expand_dims. cbn [t_shape]. rewrite Hsh. reflexivity.
      + cbn. lia.
      + unfold TensorProofs.wf, expand_dims, insert_at in *. cbn [t_shape t_data firstn skipn app prodn].
        cbn. lia.
    - destruct (meta_one b shape a0 Hb Hdiv E) as (P & Q & l & H1 & H2 & H3 & H4 & H5 & H6).
      rewrite H2, H3, H4, H5, H6. rewrite <- Hsh in H1.
      rewrite (blockify_one A zero P Q) by exact H1. split; [|split].
      + cbn [t_shape reshape]. rewrite insert_at_app by reflexivity. reflexivity.
      + rewrite app_length. lia.
      + apply reshape_wf; [exact Hwf|]. rewrite H1, !prodn_app. cbn [prodn]. ring.
    - destruct (meta_two b shape a0 a1 Hb Hdiv E) as (P & M & Q & l & r & H1 & H2 & H3 & H4 & H5 & H6).
      rewrite H2, H3, H4, H5, H6. rewrite <- Hsh in H1. split; [|split].
      + rewrite (blockify_two_shape A zero P M Q) by exact H1.
        rewrite insert_at_app by reflexivity. reflexivity.
      + rewrite app_length. lia.
      + apply (blockify_two_wf A zero P M Q); assumption.
    - exfalso. pose proof (large_from_length b shape 0) as HL. rewrite E in HL.
      unfold zlen in Hcnt. cbn [length] in HL. lia.
  Qed.

  (* entry widx of block number k of the blocked tensor is entry (block start + widx) of x, where
     block number k has grid coordinates unflatten_index blocks_per_large_axis k (row-major) *)
  Theorem blockify_block_is_subtensor_at (shape : list Z) (b : Z) (t : tensor) k widx :
    (1 < b)%Z -> accepted shape b -> wf t -> t_shape t = map Z.to_nat shape ->
    let meta := blocks_metadata b shape in
    k < Z.to_nat (bm_num_blocks meta) -> in_range (map Z.to_nat (bm_block_sizes meta)) widx ->
    t_at (blockify meta t) (insert_at (Z.to_nat (bm_blocks_axis meta)) k widx)
    = t_at t (block_origin 0 (map Z.to_nat (bm_large_axes meta))
                (unflatten_index (map Z.to_nat (bm_blocks_per_large_axis meta)) k)
                (Z.to_nat (bm_large_block_size meta)) widx).
  Proof.
    intros Hb (Hunit & Hcnt & Hdiv) Hwf Hsh meta. unfold meta, BlockifyModel.blockify.
    rewrite blocks_metadata_fields. cbv zeta.
    cbn [bm_large_axes bm_blocks_per_large_axis bm_blocks_axis bm_num_blocks bm_large_block_size
         bm_param_shape bm_block_sizes].
    destruct (large_from b 0 shape) as [|a0 [|a1 [|a2 rest]]] eqn:E.
    - cbn [map min_list_z app]. intros Hk _. assert (k = 0) by (cbn in Hk; lia). subst k.
      rewrite block_origin_nil. cbn [Z.to_nat]. unfold insert_at. cbn [firstn skipn app].
      apply blockify_zero_at.
    - destruct (meta_one b shape a0 Hb Hdiv E) as (P & Q & l & H1 & H2 & H3 & H4 & H5 & H6).
      rewrite H2, H3, H4, H5, H6. rewrite <- Hsh in H1. intros Hk Hw.
      apply (blockify_one_block P Q); assumption.
    - destruct (meta_two b shape a0 a1 Hb Hdiv E) as (P & M & Q & l & r & H1 & H2 & H3 & H4 & H5 & H6).
      rewrite H2, H3, H4, H5, H6. rewrite <- Hsh in H1. intros Hk Hw.
      apply (blockify_two_block P M Q); assumption.
    - exfalso. pose proof (large_from_length b shape 0) as HL. rewrite E in HL.
      unfold zlen in Hcnt. cbn [length] in HL. lia.
  Qed.

  (* tensor form: np.take(blocked, k, axis=blocks_axis) is the contiguous sub-tensor
     x[i*b:(i+1)*b, ...] (block_subtensor), for every block number k *)
  Theorem blockify_block_is_subtensor (shape : list Z) (b : Z) (t : tensor) k :
    (1 < b)%Z -> accepted shape b -> wf t -> t_shape t = map Z.to_nat shape ->
    let meta := blocks_metadata b shape in
    k < Z.to_nat (bm_num_blocks meta) ->
    take_axis zero (Z.to_nat (bm_blocks_axis meta)) k (blockify meta t) = block_subtensor zero meta k t.
  Proof.
    intros Hb Hacc Hwf Hsh meta Hk.
    destruct (blockify_shape_wf shape b t Hb Hacc Hwf Hsh) as (Hshape & Hba & _). fold meta in Hshape, Hba.
    unfold take_axis, block_subtensor. rewrite Hshape. rewrite remove_insert_at by exact Hba.
    apply tabulate_ext. intros widx Hw.
    apply (blockify_block_is_subtensor_at shape b t k widx Hb Hacc Hwf Hsh Hk Hw).
  Qed.
End Main.

(* ================= (C) reshaper: merge / unmerge (reshape + pad / slice + reshape) ================= *)
Local Open Scope Z_scope.

(* a merged dimension after padding to the next multiple of the block size *)
Definition pad_dim (b s : Z) : Z := if s >=? b then ((s + b - 1) / b) * b else s.

Lemma fold_snoc_map {X Y} (f : X -> Y) : forall l acc,
  fold_left (fun acc x => acc ++ [f x]) l acc = acc ++ map f l.
Proof.
  induction l as [|x l IH]; intro acc; cbn [fold_left map]; [rewrite app_nil_r; reflexivity|].
  rewrite IH, <- app_assoc. reflexivity.
Qed.

Lemma derive_shapes_spec m b shape :
  derive_shapes m b shape =
  let merged := merge_small_dims shape m in
  if list_eqb_z merged [1] then Build_Shapes shape [] []
  else Build_Shapes shape merged (if b =? 0 then merged else map (pad_dim b) merged).
Proof.
  unfold derive_shapes. cbv zeta. destruct (list_eqb_z (merge_small_dims shape m) [1]); [reflexivity|].
  destruct (b =? 0); [reflexivity|]. f_equal.
  exact (fold_snoc_map (pad_dim b) (merge_small_dims shape m) []).
Qed.

Lemma pad_dim_spec b s : 0 < b ->
  (b <= s -> pad_dim b s mod b = 0 /\ s <= pad_dim b s < s + b) /\ (s < b -> pad_dim b s = s).
Proof.
  intro Hb. unfold pad_dim. destruct (s >=? b) eqn:E; split; intro H; try lia.
  split; [apply Z_mod_mult|].
  pose proof (Z.div_mod (s + b - 1) b ltac:(lia)) as H1.
  pose proof (Z.mod_pos_bound (s + b - 1) b Hb) as H2. lia.
Qed.

Lemma pad_dim_ge b s : 0 < b -> s <= pad_dim b s.
Proof.
  intro Hb. destruct (pad_dim_spec b s Hb) as [H1 H2].
  destruct (Z_lt_dec s b) as [Hlt|Hge]; [rewrite H2 by exact Hlt; lia | apply H1; lia].
Qed.

Lemma prod_z_nonneg l : Forall (fun x => 0 <= x) l -> 0 <= prod_z l.
Proof.
  induction 1 as [|x l Hx Hl IH]; [rewrite prod_z_nil; lia | rewrite prod_z_cons; nia].
Qed.

Lemma prodn_to_nat l : Forall (fun x => 0 <= x) l -> prodn (map Z.to_nat l) = Z.to_nat (prod_z l).
Proof.
  induction 1 as [|x l Hx Hl IH]; [reflexivity|]. cbn [map prodn].
  rewrite prod_z_cons, IH, Z2Nat.inj_mul; [reflexivity | exact Hx | apply prod_z_nonneg; exact Hl].
Qed.

Lemma Forall2_le_refl (l : list nat) : Forall2 le l l.
Proof. induction l; constructor; [lia | assumption]. Qed.

Lemma derive_shapes_facts m b shape :
  1 <= m -> 0 <= b -> Forall (fun d => 1 <= d) shape ->
  let s := derive_shapes m b shape in
  sh_original_shape s = shape /\
  prodn (map Z.to_nat (sh_merged_shape s)) = prodn (map Z.to_nat shape) /\
  (b = 0 -> sh_padded_shape s = sh_merged_shape s) /\
  Forall2 le (map Z.to_nat (sh_merged_shape s)) (map Z.to_nat (sh_padded_shape s)).
Proof.
  intros Hm Hb Hall s. unfold s. rewrite derive_shapes_spec. cbv zeta.
  assert (Hnn : Forall (fun x => 0 <= x) shape).
  { eapply Forall_impl; [|exact Hall]. intros a Ha. cbv beta in Ha. lia. }
  pose proof (merge_small_dims_product shape m Hm Hall) as Hprod.
  destruct (list_eqb_z (merge_small_dims shape m) [1]) eqn:E1; cbn [sh_original_shape sh_merged_shape sh_padded_shape].
  - apply list_eqb_z_spec in E1. rewrite E1 in Hprod.
    repeat split; [|constructor].
    cbn [map prodn]. rewrite prodn_to_nat by exact Hnn. rewrite <- Hprod. reflexivity.
  - assert (Hmn : Forall (fun x => 0 <= x) (merge_small_dims shape m)).
    { destruct (merge_small_dims_no_unit shape m Hm Hall) as [H|H].
      - rewrite H. constructor; [lia | constructor].
      - eapply Forall_impl; [|exact H]. intros a Ha. cbv beta in Ha. lia. }
    split; [reflexivity|]. split; [|split].
    + rewrite !prodn_to_nat by assumption. rewrite Hprod. reflexivity.
    + intros ->. reflexivity.
    + destruct (b =? 0) eqn:Eb; [apply Forall2_le_refl|].
      assert (Hb' : 0 < b) by lia. clear - Hb'.
      induction (merge_small_dims shape m) as [|x l IH]; cbn [map]; constructor; [|exact IH].
      pose proof (pad_dim_ge b x Hb'). lia.
Qed.

(* every padded dimension is the merged one rounded up to a multiple of the block size (only the
   dimensions >= block size are padded) *)
Theorem derive_shapes_padded_multiple m b shape :
  0 < b ->
  let s := derive_shapes m b shape in
  Forall2 (fun md pd => (b <= md -> pd mod b = 0 /\ md <= pd < md + b) /\ (md < b -> pd = md))
          (sh_merged_shape s) (sh_padded_shape s).
Proof.
  intros Hb s. unfold s. rewrite derive_shapes_spec. cbv zeta.
  destruct (list_eqb_z (merge_small_dims shape m) [1]); cbn [sh_merged_shape sh_padded_shape]; [constructor|].
  replace (b =? 0) with false by lia.
  induction (merge_small_dims shape m) as [|x l IH]; cbn [map]; constructor; [|exact IH].
  apply pad_dim_spec. exact Hb.
Qed.

Section Reshaper.
  Variable A : Type.
  Variable zero : A.
  Notation tensor := (tensor A).
  Notation wf := (wf A).
  Notation t_at := (t_at zero).
  Notation merge := (merge zero).
  Notation unmerge := (unmerge zero).

  Lemma merge_cases m b shape (t : tensor) :
    1 <= m -> 0 <= b -> Forall (fun d => 1 <= d) shape ->
    let s := derive_shapes m b shape in
    let M := map Z.to_nat (sh_merged_shape s) in
    let Pd := map Z.to_nat (sh_padded_shape s) in
    (merge m b shape t = reshape M t /\ Pd = M) \/
    (merge m b shape t = pad_to zero Pd (reshape M t) /\ (b =? 0) = false).
  Proof.
    intros Hm Hb Hall s M Pd.
    destruct (derive_shapes_facts m b shape Hm Hb Hall) as (Ho & Hp & Hb0 & Hle).
    fold s in Ho, Hp, Hb0, Hle. fold M Pd in Hle.
    unfold BlockifyModel.merge, merge_shapes. fold s. cbv zeta. fold M Pd.
    destruct (b =? 0) eqn:Eb.
    - left. replace (b >? 0) with false by lia. rewrite andb_false_r. split; [reflexivity|].
      unfold Pd, M. rewrite Hb0 by lia. reflexivity.
    - replace (b >? 0) with true by lia. rewrite andb_true_r.
      destruct (combine Pd M) as [|pm rest] eqn:Ec; cbn [is_nil negb].
      + left. split; [reflexivity|].
        inversion Hle as [Hx Hy | x y l l' Hxy Hl Hx Hy].
        * reflexivity.
        * rewrite <- Hx, <- Hy in Ec. discriminate.
      + right. split; reflexivity.
  Qed.

  (* unmerge inverts merge: reshape to the merged shape, pad with zeros, slice the padding off,
     reshape back — including block_size = 0 (no padding) and rank-0 / all-ones parameters *)
  Theorem unmerge_merge_id m b shape (t : tensor) :
    1 <= m -> 0 <= b -> Forall (fun d => 1 <= d) shape ->
    wf t -> t_shape t = map Z.to_nat shape ->
    unmerge m b shape (merge m b shape t) = t.
  Proof.
    intros Hm Hb Hall Hwf Hsh.
    destruct (derive_shapes_facts m b shape Hm Hb Hall) as (Ho & Hp & Hb0 & Hle).
    pose proof (merge_cases m b shape t Hm Hb Hall) as Hc. cbv zeta in Hc.
    set (s := derive_shapes m b shape) in *.
    set (M := map Z.to_nat (sh_merged_shape s)) in *. set (Pd := map Z.to_nat (sh_padded_shape s)) in *.
    assert (HwfM : wf (reshape M t)) by (apply reshape_wf; [exact Hwf | rewrite Hsh; exact Hp]).
    unfold BlockifyModel.unmerge, unmerge_shapes. fold s. cbv zeta. fold M. rewrite Ho, <- Hsh.
    destruct Hc as [[-> HPM] | [-> Eb]].
    - destruct (b =? 0); [apply reshape_round_trip|].
      pose proof (slice_self A zero (reshape M t) HwfM) as Hs.
      change (t_shape (reshape M t)) with M in Hs. rewrite Hs. apply reshape_round_trip.
    - rewrite Eb. pose proof (slice_pad A zero Pd (reshape M t) HwfM Hle) as Hs.
      change (t_shape (reshape M t)) with M in Hs. rewrite Hs. apply reshape_round_trip.
  Qed.

  (* bookkeeping of the merged / padded tensor *)
  Theorem merge_shape_wf m b shape (t : tensor) :
    1 <= m -> 0 <= b -> Forall (fun d => 1 <= d) shape -> wf t -> t_shape t = map Z.to_nat shape ->
    t_shape (merge m b shape t) = map Z.to_nat (sh_padded_shape (derive_shapes m b shape)) /\
    wf (merge m b shape t).
  Proof.
    intros Hm Hb Hall Hwf Hsh.
    destruct (derive_shapes_facts m b shape Hm Hb Hall) as (Ho & Hp & Hb0 & Hle).
    destruct (merge_cases m b shape t Hm Hb Hall) as [[-> HPM] | [-> Eb]].
    - split; [cbn [t_shape reshape]; symmetry; exact HPM|].
      apply reshape_wf; [exact Hwf | rewrite Hsh; exact Hp].
    - split; [reflexivity | apply pad_to_wf].
  Qed.

  (* real entries keep their row-major order: entry idx of the merged (and padded) tensor is the
     entry of the original data at the flat position of idx in the merged shape *)
  Theorem merge_real_entries m b shape (t : tensor) idx :
    1 <= m -> 0 <= b -> Forall (fun d => 1 <= d) shape ->
    in_range (map Z.to_nat (sh_merged_shape (derive_shapes m b shape))) idx ->
    t_at (merge m b shape t) idx
    = nth (flatten_index (map Z.to_nat (sh_merged_shape (derive_shapes m b shape))) idx) (t_data t) zero.
  Proof.
    intros Hm Hb Hall Hi.
    destruct (derive_shapes_facts m b shape Hm Hb Hall) as (Ho & Hp & Hb0 & Hle).
    destruct (merge_cases m b shape t Hm Hb Hall) as [[-> HPM] | [-> Eb]].
    - reflexivity.
    - rewrite pad_inside; [reflexivity | exact Hle | exact Hi].
  Qed.

  (* ... and everything else is zero padding *)
  Theorem merge_padding_zero m b shape (t : tensor) idx :
    1 <= m -> 0 <= b -> Forall (fun d => 1 <= d) shape ->
    in_range (map Z.to_nat (sh_padded_shape (derive_shapes m b shape))) idx ->
    ~ in_range (map Z.to_nat (sh_merged_shape (derive_shapes m b shape))) idx ->
    t_at (merge m b shape t) idx = zero.
  Proof.
    intros Hm Hb Hall Hi Hn.
    destruct (merge_cases m b shape t Hm Hb Hall) as [[-> HPM] | [-> Eb]].
    - exfalso. apply Hn. rewrite <- HPM. exact Hi.
    - apply pad_outside; assumption.
  Qed.
End Reshaper.

(* ================= non-vacuity: the hypotheses are satisfiable (tests, vm_compute) ================= *)
Lemma acceptedb_accepted shape b : acceptedb shape b = true -> accepted shape b.
Proof.
  unfold acceptedb, accepted. intro H.
  apply andb_true_iff in H as [H H3]. apply andb_true_iff in H as [H1 H2].
  rewrite forallb_forall in H1, H3. repeat split.
  - apply Forall_forall. intros d Hd. specialize (H1 d Hd). lia.
  - lia.
  - apply Forall_forall. intros d Hd Hbd. specialize (H3 d Hd). lia.
Qed.

(* shape [3;2;6], block 3: two large axes with a small axis in between and 2 blocks on the right
   axis (the input on which the seeded moveaxis variant of _deblockify goes wrong) *)
Example accepted_3_2_6 : accepted [3; 2; 6] 3.
Proof. apply acceptedb_accepted. vm_compute. reflexivity. Qed.

Example blockify_3_2_6 :
  blockify 0 (blocks_metadata 3 [3; 2; 6]) (mkT [3; 2; 6]%nat (zrange 36))
  = mkT [2; 3; 2; 3]%nat
        [0; 1; 2; 6; 7; 8; 12; 13; 14; 18; 19; 20; 24; 25; 26; 30; 31; 32;
         3; 4; 5; 9; 10; 11; 15; 16; 17; 21; 22; 23; 27; 28; 29; 33; 34; 35].
Proof. vm_compute. reflexivity. Qed.

Example block1_3_2_6 :
  take_axis 0 0 1 (blockify 0 (blocks_metadata 3 [3; 2; 6]) (mkT [3; 2; 6]%nat (zrange 36)))
  = mkT [3; 2; 3]%nat [3; 4; 5; 9; 10; 11; 15; 16; 17; 21; 22; 23; 27; 28; 29; 33; 34; 35].
Proof. vm_compute. reflexivity. Qed.

(* moving the right block-count axis back by ONE position only (jnp.moveaxis(x, ba+1, ba+2)) is
   not the inverse when a small axis sits between the two large axes *)
Example moveaxis_by_one_is_not_the_inverse :
  let meta := blocks_metadata 3 [3; 2; 6] in
  let x := mkT [3; 2; 6]%nat (zrange 36) in
  t_data (reshape [3; 2; 6]%nat
            (transpose 0 (move_perm 5 1 2) (reshape [1; 2; 3; 2; 3]%nat (blockify 0 meta x))))
  <> t_data x.
Proof. vm_compute. discriminate. Qed.

(* other accepted shapes: none / one large axis, large axes adjacent, leading, trailing *)
Example accepted_more :
  accepted [2; 2] 3 /\ accepted [2; 6; 2] 3 /\ accepted [6; 9] 3 /\ accepted [4; 2; 8; 3] 4 /\
  ~ accepted [3; 3; 3] 3 /\ ~ accepted [5; 2] 3 /\ ~ accepted [1; 2] 3.
Proof.
  split; [apply acceptedb_accepted; vm_compute; reflexivity|].
  split; [apply acceptedb_accepted; vm_compute; reflexivity|].
  split; [apply acceptedb_accepted; vm_compute; reflexivity|].
  split; [apply acceptedb_accepted; vm_compute; reflexivity|].
  split; [|split]; intros (H1 & H2 & H3).
  - vm_compute in H2. apply H2. reflexivity.
  - inversion H3 as [|? ? Hd _]; subst. specialize (Hd ltac:(lia)). vm_compute in Hd. discriminate.
  - inversion H1 as [|? ? Hd _]; subst. apply Hd. reflexivity.
Qed.

Example merge_2_2_5 :
  merge 0 4 3 [2; 2; 5] (mkT [2; 2; 5]%nat (map (fun k => k + 1) (zrange 20)))
  = mkT [6; 6]%nat [1; 2; 3; 4; 5; 0; 6; 7; 8; 9; 10; 0; 11; 12; 13; 14; 15; 0; 16; 17; 18; 19; 20; 0;
                    0; 0; 0; 0; 0; 0; 0; 0; 0; 0; 0; 0].
Proof. vm_compute. reflexivity. Qed.
