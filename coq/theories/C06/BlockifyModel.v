(* C06/BlockifyModel.v — tensor-level model of tearfree.shampoo._blockify / _deblockify and of
   tearfree.reshaper.merge / unmerge, on Base.Tensor tensors with the operations of C06/Transpose.v.
   The integer metadata is NOT re-modelled: it is C06.Ref.blocks_metadata / C06.Ref.derive_shapes
   (translator output, re-derived from /repo on every run).  Definitions only. *)
From Precond Require Import Base.PyLib Base.Tensor C06.Records C06.Ref C06.Transpose.
Local Open Scope nat_scope.

(* _split_exclusively(ls, splits): the segments strictly between the (ascending) split points.
   Python: splits = [-1] + splits + [len(ls)]; [ls[l + 1 : r] for l, r in zip(splits, splits[1:])];
   [start] is l + 1. *)
Fixpoint split_excl {B} (ls : list B) (start : nat) (splits : list nat) : list (list B) :=
  match splits with
  | [] => [skipn start ls]
  | s :: rest => firstn (s - start) (skipn start ls) :: split_excl ls (S s) rest
  end.
Definition split_exclusively {B} (ls : list B) (splits : list nat) : list (list B) :=
  split_excl ls 0 splits.

(* _init's acceptance of a parameter shape (the three ValueError sites of make_blocks) *)
Definition accepted (shape : list Z) (b : Z) : Prop :=
  Forall (fun d => d <> 1%Z) shape /\
  (zlen (filter (fun d => d >=? b)%Z shape) <= 2)%Z /\
  Forall (fun d => (b <= d)%Z -> (d mod b = 0)%Z) shape.

Definition acceptedb (shape : list Z) (b : Z) : bool :=
  forallb (fun d => negb (d =? 1)%Z) shape &&
  (zlen (filter (fun d => d >=? b)%Z shape) <=? 2)%Z &&
  forallb (fun d => negb (d >=? b)%Z || (d mod b =? 0)%Z) shape.

(* index into x of entry widx of block number g (grid coordinates, one per large axis):
   walks the axes a, a+1, ...; on a large axis the coordinate is block * b + offset *)
Fixpoint block_origin (a : nat) (la g : list nat) (b : nat) (widx : list nat) : list nat :=
  match widx with
  | [] => []
  | w :: ws =>
    match la, g with
    | x :: la', gi :: g' =>
      if Nat.eqb x a then (gi * b + w) :: block_origin (S a) la' g' b ws
      else w :: block_origin (S a) la g b ws
    | _, _ => w :: block_origin (S a) la g b ws
    end
  end.

Section Model.
  Variable A : Type.
  Variable zero : A.
  Notation tensor := (tensor A).
  Notation transpose := (transpose zero).

  (* _blockify(x, meta); la = meta.large_axes, bpl = meta.blocks_per_large_axis,
     ba = meta.blocks_axis, nb = meta.num_blocks, b = meta.large_block_size *)
  Definition blockify_nat (la bpl : list nat) (ba nb b : nat) (x : tensor) : tensor :=
    match la with
    | [] => expand_dims ba x
    | [_] =>
      match split_exclusively (t_shape x) la with
      | [before; after] =>
        let new_shape := before ++ [nb; b] ++ after in
        reshape new_shape x
      | _ => x
      end
    | [_; _] =>
      match bpl, split_exclusively (t_shape x) la with
      | [l_blocks; r_blocks], [before; middle; after] =>
        let stitch := fun l r : list nat => before ++ l ++ middle ++ r ++ after in
        let split_blocked_shape := stitch [l_blocks; b] [r_blocks; b] in
        let split_blocked_x := reshape split_blocked_shape x in
        let perm := seq 0 (length split_blocked_shape) in
        let l_blocks_ix := length before in
        let r_blocks_ix := length before + 2 + length middle in
        let perm := remove_at r_blocks_ix perm in
        let perm := insert_at (l_blocks_ix + 1) r_blocks_ix perm in
        let adjacent_blocked_x := transpose perm split_blocked_x in
        let new_shape := stitch [nb; b] [b] in
        reshape new_shape adjacent_blocked_x
      | _, _ => x
      end
    | _ => x
    end.

  (* _deblockify(blocked_x, meta) *)
  Definition deblockify_nat (la bpl : list nat) (ba nb b : nat) (param_shape : list nat)
             (blocked_x : tensor) : tensor :=
    match la with
    | [] => squeeze ba blocked_x
    | [_] => reshape param_shape blocked_x
    | [_; la1] =>
      match split_exclusively (t_shape blocked_x) [ba] with
      | [before; after] =>
        let split_blocks_shape := before ++ bpl ++ after in
        let split_blocked_x := reshape split_blocks_shape blocked_x in
        let perm := seq 0 (length (t_shape split_blocked_x)) in
        let r_blocks_ix := ba + 1 in
        let r_blocks_val := nth r_blocks_ix perm 0 in
        let perm := remove_at r_blocks_ix perm in
        let r_blocked_axis_ix := la1 + 1 in
        let perm := insert_at r_blocked_axis_ix r_blocks_val perm in
        let split_blocked_x := transpose perm split_blocked_x in
        reshape param_shape split_blocked_x
      | _ => blocked_x
      end
    | _ => blocked_x
    end.

  Definition blockify (meta : BlocksMetadata) (x : tensor) : tensor :=
    blockify_nat (map Z.to_nat (bm_large_axes meta)) (map Z.to_nat (bm_blocks_per_large_axis meta))
                 (Z.to_nat (bm_blocks_axis meta)) (Z.to_nat (bm_num_blocks meta))
                 (Z.to_nat (bm_large_block_size meta)) x.

  Definition deblockify (meta : BlocksMetadata) (blocked_x : tensor) : tensor :=
    deblockify_nat (map Z.to_nat (bm_large_axes meta)) (map Z.to_nat (bm_blocks_per_large_axis meta))
                   (Z.to_nat (bm_blocks_axis meta)) (Z.to_nat (bm_num_blocks meta))
                   (Z.to_nat (bm_large_block_size meta)) (map Z.to_nat (bm_param_shape meta)) blocked_x.

  (* the contiguous sub-tensor x[i*b:(i+1)*b, ...] for block number k (row-major over the block grid
     of the large axes) *)
  Definition block_subtensor (meta : BlocksMetadata) (k : nat) (x : tensor) : tensor :=
    tabulate (map Z.to_nat (bm_block_sizes meta))
             (fun widx => t_at zero x
                (block_origin 0 (map Z.to_nat (bm_large_axes meta))
                              (unflatten_index (map Z.to_nat (bm_blocks_per_large_axis meta)) k)
                              (Z.to_nat (bm_large_block_size meta)) widx)).

  (* reshaper._merge(update, shapes) / _unmerge(update, shapes) *)
  Definition merge_shapes (block_size : Z) (s : Shapes) (update : tensor) : tensor :=
    let merged_shape := map Z.to_nat (sh_merged_shape s) in
    let padded_shape := map Z.to_nat (sh_padded_shape s) in
    let merged := reshape merged_shape update in
    let padding := combine padded_shape merged_shape in
    if negb (is_nil padding) && (block_size >? 0)%Z then pad_to zero padded_shape merged else merged.

  Definition unmerge_shapes (block_size : Z) (s : Shapes) (update : tensor) : tensor :=
    let merged := if (block_size =? 0)%Z then update
                  else Transpose.slice_to zero (map Z.to_nat (sh_merged_shape s)) update in
    reshape (map Z.to_nat (sh_original_shape s)) merged.

  Definition merge (merge_dims block_size : Z) (param_shape : list Z) (update : tensor) : tensor :=
    merge_shapes block_size (derive_shapes merge_dims block_size param_shape) update.

  Definition unmerge (merge_dims block_size : Z) (param_shape : list Z) (update : tensor) : tensor :=
    unmerge_shapes block_size (derive_shapes merge_dims block_size param_shape) update.
End Model.

Arguments blockify_nat {A}. Arguments deblockify_nat {A}. Arguments blockify {A}. Arguments deblockify {A}.
Arguments block_subtensor {A}.
Arguments merge_shapes {A}. Arguments unmerge_shapes {A}. Arguments merge {A}. Arguments unmerge {A}.

(* ---------- comparators for the run-time correspondence (element type Z, arange tensors) ---------- *)
Fixpoint list_eqb_nat (a b : list nat) : bool :=
  match a, b with
  | [], [] => true
  | x :: s, y :: t => Nat.eqb x y && list_eqb_nat s t
  | _, _ => false
  end.

Definition tensor_eqb (t : tensor Z) (shape : list nat) (data : list Z) : bool :=
  list_eqb_nat (t_shape t) shape && list_eqb_z (t_data t) data.

(* model's _blockify on arange == implementation's blocked tensor *)
Definition chk_blockify_tensor (shape : list Z) (b : Z) (blocked_shape blocked_flat : list Z) : bool :=
  let meta := blocks_metadata b shape in
  let x := mkT (map Z.to_nat shape) (zrange (prod_z shape)) in
  tensor_eqb (blockify 0%Z meta x) (map Z.to_nat blocked_shape) blocked_flat.

(* the model's _deblockify of the implementation's blocked tensor == the implementation's
   _deblockify of it == the original arange tensor *)
Definition chk_deblockify_tensor (shape : list Z) (b : Z) (blocked_shape blocked_flat : list Z)
           (back_shape back_flat : list Z) : bool :=
  let meta := blocks_metadata b shape in
  let back := deblockify 0%Z meta (mkT (map Z.to_nat blocked_shape) blocked_flat) in
  tensor_eqb back (map Z.to_nat back_shape) back_flat &&
  tensor_eqb back (map Z.to_nat shape) (zrange (prod_z shape)).

(* every block of the model's blockified tensor is the contiguous sub-tensor *)
Definition chk_blocks_subtensor (shape : list Z) (b : Z) : bool :=
  let meta := blocks_metadata b shape in
  let x := mkT (map Z.to_nat shape) (zrange (prod_z shape)) in
  let bx := blockify 0%Z meta x in
  forallb (fun k => let s := block_subtensor 0%Z meta k x in
                    tensor_eqb (take_axis 0%Z (Z.to_nat (bm_blocks_axis meta)) k bx) (t_shape s) (t_data s))
          (seq 0 (Z.to_nat (bm_num_blocks meta))).

(* reshaper: the worker feeds arange(1, n+1) so that padding zeros are distinguishable *)
Definition chk_merge_tensor (shape : list Z) (b m : Z) (merged_shape merged_flat : list Z) : bool :=
  let x := mkT (map Z.to_nat shape) (map (fun k => k + 1)%Z (zrange (prod_z shape))) in
  tensor_eqb (merge 0%Z m b shape x) (map Z.to_nat merged_shape) merged_flat.

Definition chk_unmerge_tensor (shape : list Z) (b m : Z) (merged_shape merged_flat : list Z)
           (back_shape back_flat : list Z) : bool :=
  let back := unmerge 0%Z m b shape (mkT (map Z.to_nat merged_shape) merged_flat) in
  tensor_eqb back (map Z.to_nat back_shape) back_flat &&
  tensor_eqb back (map Z.to_nat shape) (map (fun k => k + 1)%Z (zrange (prod_z shape))).
