(* C09/Proofs.v — the frequent-directions bracket  B <= C <= B + t*I  is preserved by every step
   (for every SVD answer meeting its spec) and hence along every history. *)
From Precond Require Import Base.QMat C09.Model.
From Coq Require Import Lqa Lia.
Open Scope Q_scope.

Notation nonneg l := (Forall (fun a => 0 <= a) l) (only parsing).
Definition sorted_desc (l : list Q) : Prop :=
  forall i j, (i <= j < length l)%nat -> nth j l 0 <= nth i l 0.

(* ---------- list algebra ---------- *)
Lemma nth_skipn_add {A} k : forall (l : list A) m d, nth m (skipn k l) d = nth (k + m) l d.
Proof.
  induction k as [|k IH]; intros l m d; [reflexivity|].
  destruct l as [|a l]; [destruct m; reflexivity|]. simpl. apply IH.
Qed.

Lemma nth_firstn_lt {A} k : forall (l : list A) m d, (m < k)%nat -> nth m (firstn k l) d = nth m l d.
Proof.
  induction k as [|k IH]; intros l m d H; [lia|].
  destruct l as [|a l]; [reflexivity|]. destruct m as [|m]; [reflexivity|]. simpl. apply IH. lia.
Qed.

Lemma sumq_app a b : sumq (a ++ b) == sumq a + sumq b.
Proof. induction a as [|x a IH]; simpl; [ring | rewrite IH; ring]. Qed.

Lemma sumq_nonneg l : nonneg l -> 0 <= sumq l.
Proof. induction 1 as [|x l Hx Hl IH]; simpl; lra. Qed.

Lemma dot_app : forall a c a' c', length a = length c ->
  dot (a ++ a') (c ++ c') == dot a c + dot a' c'.
Proof.
  induction a as [|x a IH]; intros [|y c] a' c' H; simpl in *; try discriminate; [ring|].
  rewrite IH by lia. ring.
Qed.

Lemma dot_split k : forall s c, length s = length c ->
  dot s c == dot (firstn k s) (firstn k c) + dot (skipn k s) (skipn k c).
Proof.
  intros s c H. rewrite <- (firstn_skipn k s) at 1. rewrite <- (firstn_skipn k c) at 1.
  apply dot_app. rewrite !firstn_length. lia.
Qed.

Lemma dot_sub_const rho : forall a c, length a = length c ->
  dot (map (fun s => s - rho) a) c == dot a c - rho * sumq c.
Proof.
  induction a as [|x a IH]; intros [|y c] H; simpl in *; try discriminate; [ring|].
  rewrite IH by lia. ring.
Qed.

Lemma dot_nonneg : forall a c, nonneg a -> nonneg c -> 0 <= dot a c.
Proof.
  induction a as [|x a IH]; intros [|y c] Ha Hc; simpl; try lra.
  inversion Ha; inversion Hc; subst.
  assert (0 <= x * y) by (apply Qmult_le_0_compat; assumption).
  specialize (IH c H2 H6). lra.
Qed.

Lemma dot_le_const rho : forall a c, length a = length c ->
  Forall (fun s => s <= rho) a -> nonneg c -> dot a c <= rho * sumq c.
Proof.
  induction a as [|x a IH]; intros [|y c] H Ha Hc; simpl in *; try discriminate; [lra|].
  inversion Ha; inversion Hc; subst.
  specialize (IH c ltac:(lia) H3 H7).
  assert (x * y <= rho * y) by (apply Qmult_le_compat_r; assumption). lra.
Qed.

Lemma dot_zero_l : forall a c, Forall (fun s => s == 0) a -> dot a c == 0.
Proof.
  induction a as [|x a IH]; intros [|y c] Ha; simpl; try reflexivity.
  inversion Ha; subst. rewrite IH by assumption. rewrite H1. ring.
Qed.

Lemma nonneg_firstn k l : nonneg l -> nonneg (firstn k l).
Proof.
  intro H. apply Forall_forall. intros x Hx. rewrite Forall_forall in H. apply H.
  rewrite <- (firstn_skipn k l). apply in_or_app. left. exact Hx.
Qed.
Lemma nonneg_skipn k l : nonneg l -> nonneg (skipn k l).
Proof.
  intro H. apply Forall_forall. intros x Hx. rewrite Forall_forall in H. apply H.
  rewrite <- (firstn_skipn k l). apply in_or_app. right. exact Hx.
Qed.

Lemma cutoff_nonneg k s : nonneg s -> 0 <= cutoff k s.
Proof.
  intro H. unfold cutoff. destruct (Nat.lt_ge_cases k (length s)) as [Hk|Hk].
  - rewrite Forall_forall in H. apply H. apply nth_In. exact Hk.
  - rewrite nth_overflow by lia. lra.
Qed.

Lemma skipn_le_cutoff k s : sorted_desc s -> Forall (fun x => x <= cutoff k s) (skipn k s).
Proof.
  intro Hs. apply Forall_forall. intros x Hx.
  apply In_nth with (d := 0) in Hx as [m [Hm <-]].
  rewrite skipn_length in Hm. rewrite nth_skipn_add. unfold cutoff. apply Hs. lia.
Qed.

(* ---------- the two inequalities of one step ---------- *)
Lemma deflate_lower k s c : length s = length c -> nonneg s -> nonneg c ->
  dot (deflate k s) (firstn k c) <= dot s c.
Proof.
  intros Hl Hs Hc. unfold deflate.
  rewrite dot_sub_const by (rewrite !firstn_length; lia).
  rewrite (dot_split k s c Hl).
  pose proof (cutoff_nonneg k s Hs).
  pose proof (sumq_nonneg _ (nonneg_firstn k c Hc)).
  pose proof (dot_nonneg _ _ (nonneg_skipn k s Hs) (nonneg_skipn k c Hc)).
  assert (0 <= cutoff k s * sumq (firstn k c)) by (apply Qmult_le_0_compat; assumption).
  lra.
Qed.

Lemma sumq_split k c : sumq c == sumq (firstn k c) + sumq (skipn k c).
Proof. rewrite <- (firstn_skipn k c) at 1. apply sumq_app. Qed.

Lemma deflate_upper k s c : length s = length c -> sorted_desc s -> nonneg c ->
  dot s c - dot (deflate k s) (firstn k c) <= cutoff k s * sumq c.
Proof.
  intros Hl Hs Hc. unfold deflate.
  rewrite dot_sub_const by (rewrite !firstn_length; lia).
  rewrite (dot_split k s c Hl). rewrite (sumq_split k c).
  pose proof (dot_le_const (cutoff k s) (skipn k s) (skipn k c)
                ltac:(rewrite !skipn_length; lia) (skipn_le_cutoff k s Hs) (nonneg_skipn k c Hc)).
  lra.
Qed.

Lemma deflate_exact k s c : length s = length c -> sorted_desc s -> nonneg s ->
  cutoff k s == 0 -> dot (deflate k s) (firstn k c) == dot s c.
Proof.
  intros Hl Hs Hn H0. unfold deflate.
  rewrite dot_sub_const by (rewrite !firstn_length; lia).
  rewrite (dot_split k s c Hl). rewrite H0.
  assert (Hz : Forall (fun x => x == 0) (skipn k s)).
  { pose proof (skipn_le_cutoff k s Hs) as Hle. pose proof (nonneg_skipn k s Hn) as Hge.
    rewrite Forall_forall in *. intros x Hx. specialize (Hle x Hx). specialize (Hge x Hx).
    rewrite H0 in Hle. lra. }
  rewrite (dot_zero_l _ _ Hz). ring.
Qed.

Lemma deflate_nonneg k s : sorted_desc s -> nonneg s -> nonneg (deflate k s).
Proof.
  intros Hs Hn. unfold deflate. apply Forall_forall. intros x Hx.
  apply in_map_iff in Hx as [y [<- Hy]].
  apply In_nth with (d := 0) in Hy as [m [Hm <-]].
  rewrite firstn_length in Hm.
  assert (Hmk : (m < k)%nat) by lia.
  rewrite (nth_firstn_lt k s m 0 Hmk).
  unfold cutoff.
  destruct (Nat.lt_ge_cases k (length s)) as [Hk|Hk].
  - specialize (Hs m k ltac:(lia)). lra.
  - rewrite (nth_overflow s 0 Hk).
    rewrite Forall_forall in Hn. specialize (Hn (nth m s 0) ltac:(apply nth_In; lia)). lra.
Qed.

Lemma Qmult_le_l_weak (z x y : Q) : 0 <= z -> x <= y -> z * x <= z * y.
Proof.
  intros Hz Hxy. rewrite (Qmult_comm z x), (Qmult_comm z y). apply Qmult_le_compat_r; assumption.
Qed.

(* ---------- the step, abstractly ---------- *)
Section Step.
  Variable X : Type.
  Variable n2 : X -> Q.                      (* squared Euclidean norm *)

  Definition bracket (s : state X) : Prop :=
    let '(B, t, C) := s in 0 <= t /\ forall x, B x <= C x /\ C x <= B x + t * n2 x.

  (* what an SVD answer for  b*(B+R)+G  guarantees (orthonormality enters only through Bessel's
     inequality  sum_i (u_i.x)^2 <= |x|^2,  see C09.Bessel) *)
  Definition svd_spec (b : Q) (B : X -> Q) (st : step X) : Prop :=
    sorted_desc (st_sigma X st) /\ nonneg (st_sigma X st) /\
    forall x, length (st_c X st x) = length (st_sigma X st) /\ nonneg (st_c X st x) /\
              sumq (st_c X st x) <= n2 x /\ 0 <= st_G X st x /\ 0 <= st_R X st x /\
              dot (st_sigma X st) (st_c X st x) == b * (B x + st_R X st x) + st_G X st x.

  Lemma fd_step_bracket b k (s : state X) (st : step X) :
    0 <= b -> bracket s -> svd_spec b (fst (fst s)) st -> bracket (fd_step X b k s st).
  Proof.
    destruct s as [[B t] C]. intros Hb [Ht Hbr] [Hsort [Hnn Hx]]. simpl in Hx.
    unfold fd_step, bracket. split.
    - pose proof (cutoff_nonneg k _ Hnn). assert (0 <= b * t) by (apply Qmult_le_0_compat; assumption). lra.
    - intro x. destruct (Hx x) as [Hlen [Hc [Hbes [HG [HR HM]]]]]. destruct (Hbr x) as [HBC HCB].
      pose proof (deflate_lower k _ _ (eq_sym Hlen) Hnn Hc) as HL.
      pose proof (deflate_upper k _ _ (eq_sym Hlen) Hsort Hc) as HU.
      pose proof (cutoff_nonneg k _ Hnn) as Hrho.
      set (rho := cutoff k (st_sigma X st)) in *.
      set (B' := dot (deflate k (st_sigma X st)) (firstn k (st_c X st x))) in *.
      set (M := dot (st_sigma X st) (st_c X st x)) in *.
      assert (rho * sumq (st_c X st x) <= rho * n2 x) by (apply Qmult_le_l_weak; [assumption | try assumption; lra]).
      assert (b * B x <= b * C x) by (apply Qmult_le_l_weak; [assumption | try assumption; lra]).
      assert (b * C x <= b * (B x + t * n2 x)) by (apply Qmult_le_l_weak; [assumption | try assumption; lra]).
      split; lra.
  Qed.

  (* hypotheses along a history: every step's SVD answer meets its spec w.r.t. the state then *)
  Fixpoint specs_ok (b : Q) (k : nat) (s : state X) (sts : list (step X)) : Prop :=
    match sts with
    | [] => True
    | st :: r => svd_spec b (fst (fst s)) st /\ specs_ok b k (fd_step X b k s st) r
    end.

  Theorem fd_history_bracket b k : 0 <= b -> forall sts s,
    bracket s -> specs_ok b k s sts -> bracket (fd_run X b k s sts).
  Proof.
    intros Hb. induction sts as [|st r IH]; intros s Hs Hok; [exact Hs|].
    destruct Hok as [H1 H2]. unfold fd_run. cbn [fold_left].
    apply IH; [apply fd_step_bracket; assumption | exact H2].
  Qed.

  (* escaped-mass recurrence: t' = b t + rho (definitional) and new eigenvalues non-negative *)
  Lemma fd_step_tail b k (s : state X) st :
    snd (fst (fd_step X b k s st)) = b * snd (fst s) + cutoff k (st_sigma X st).
  Proof. destruct s as [[B t] C]. reflexivity. Qed.

  (* zero cut-off at a step: nothing is lost, the sketch is exactly b*(B+R)+G *)
  Lemma fd_step_exact b k (s : state X) st :
    svd_spec b (fst (fst s)) st -> cutoff k (st_sigma X st) == 0 ->
    forall x, fst (fst (fd_step X b k s st)) x == b * (fst (fst s) x + st_R X st x) + st_G X st x.
  Proof.
    destruct s as [[B t] C]. intros [Hsort [Hnn Hx]] H0 x. simpl in *.
    destruct (Hx x) as [Hlen [Hc [_ [_ [_ HM]]]]].
    rewrite (deflate_exact k _ _ (eq_sym Hlen) Hsort Hnn H0). exact HM.
  Qed.

  (* zero-gradient, zero-ridge step with zero cut-off: sketch and escaped mass are both scaled by b *)
  Lemma fd_zero_grad_step b k (s : state X) st :
    svd_spec b (fst (fst s)) st -> cutoff k (st_sigma X st) == 0 ->
    (forall x, st_G X st x == 0) -> (forall x, st_R X st x == 0) ->
    (forall x, fst (fst (fd_step X b k s st)) x == b * fst (fst s) x) /\
    snd (fst (fd_step X b k s st)) == b * snd (fst s).
  Proof.
    intros Hspec H0 HG HR. split.
    - intro x. rewrite (fd_step_exact b k s st Hspec H0 x). rewrite HG, HR. ring.
    - rewrite fd_step_tail. rewrite H0. ring.
  Qed.

  Definition exact_state (s : state X) : Prop :=
    let '(B, t, C) := s in t == 0 /\ forall x, B x == C x.

  Fixpoint cutoffs_zero (k : nat) (sts : list (step X)) : Prop :=
    match sts with [] => True | st :: r => cutoff k (st_sigma X st) == 0 /\ cutoffs_zero k r end.

  (* a history whose cut-offs all vanish (rank <= k) is tracked exactly: t = 0 and B = C *)
  Theorem fd_zero_cutoff_exact b k : forall sts s,
    exact_state s -> specs_ok b k s sts -> cutoffs_zero k sts -> exact_state (fd_run X b k s sts).
  Proof.
    induction sts as [|st r IH]; intros s Hs Hok Hz; [exact Hs|].
    destruct Hok as [H1 H2]. destruct Hz as [Hz1 Hz2]. unfold fd_run. cbn [fold_left].
    apply IH; [|exact H2|exact Hz2].
    pose proof (fd_step_exact b k s st H1 Hz1) as HE.
    destruct s as [[B t] C]. destruct Hs as [Ht HBC]. simpl in *. split.
    - rewrite Ht, Hz1. ring.
    - intro x. rewrite (HE x). rewrite (HBC x). reflexivity.
  Qed.
End Step.

(* ---------- stored inverse roots ---------- *)
(* l'_i + t' = sigma_i + b*t : the quantity whose inverse p-th root Distributed Shampoo stores
   ("upshifted" = top^2 + decayed tail) is exactly l' + t'. *)
Lemma upshift_identity (sigma_i rho b t : Q) : (sigma_i - rho) + (b * t + rho) == sigma_i + b * t.
Proof. ring. Qed.

Definition root_spec (p : positive) (r a : Q) : Prop := 0 < r /\ r ^ (Zpos p) * a == 1.

Lemma fd_roots_spec p r sigma_i rho b t eps :
  root_spec p r (sigma_i + b * t + eps) -> root_spec p r ((sigma_i - rho) + (b * t + rho) + eps).
Proof.
  intros [H1 H2]. split; [exact H1|].
  setoid_replace ((sigma_i - rho) + (b * t + rho) + eps) with (sigma_i + b * t + eps) by ring.
  exact H2.
Qed.
