(* C09/Check.v — executable checks evaluated by vm_compute on the implementation's exact float
   values (dyadic rationals).  psd verdicts go through the verified Base.PsdCheck. *)
From Precond Require Import Base.QMat Base.PsdCheck Base.PsdRound C09.Model.
From Coq Require Import Qround.
Open Scope Q_scope.

Definition qclose (tol a b : Q) : bool := Qleb (Qabs (a - b)) tol.
Definition sqv (l : vec) : vec := map (fun a => qnorm (a * a)) l.

(* columns given as list of vectors *)
Definition gram_cols (V : list vec) : mat := map (fun u => map (fun v => qnorm (dot u v)) V) V.

Definition is_zero_vec (v : vec) : bool := forallb (fun a => Qeq_bool a 0) v.

(* each column is (numerically) unit or exactly zero; distinct non-zero columns orthogonal *)
Definition ortho_or_zero (tol : Q) (V : list vec) : bool :=
  let G := gram_cols V in
  forallb (fun '(i, (v, row)) =>
     forallb (fun '(j, (w, g)) =>
        if is_zero_vec v || is_zero_vec w then true
        else if Nat.eqb i j then qclose tol g 1 else qclose tol g 0)
       (combine (seq 0 (length V)) (combine V row)))
    (combine (seq 0 (length V)) (combine V G)).

(* the captured SVD answer (U columns, singular values s) reconstructs M = F F^T and is
   orthonormal, both to tolerance *)
Definition recon (U : list vec) (sig : vec) (n : nat) : mat := sketch_mat n U sig.
Definition chk_svd (tol : Q) (n : nat) (F : mat) (U : list vec) (s : vec) : bool :=
  let M := gram F in
  let scale := maxabs M in
  ortho_or_zero tol U && mclose (tol * scale) (recon U (sqv s) n) M.

(* recurrence of the state, given s (descending) *)
Definition chk_recur (tol b t : Q) (k : nat) (s : vec) (l' : vec) (t' : Q) : bool :=
  let sigma := sqv s in
  let scale := nth 0 sigma 0 in
  vclose (tol * scale) (firstn (length l') (fd_next_eigs k sigma)) l' &&
  (Nat.eqb (length l') (Nat.min k (length s))) &&
  qclose (tol * scale) (fd_next_tail b t k sigma) t'.

(* PSD verdict: on the matrix rounded to a 2^-q grid (fast, sound: Base.PsdRound) or, failing
   that, exactly *)
Definition psd_any (q : positive) (n : nat) (M : mat) : bool :=
  if psd_check_rounded q n M then true else psd_check n M.   (* [if]: lazy under vm_compute *)

(* grid fine enough that the rounding loss n*2^-q stays below eps/2 *)
Definition pick_q (n : nat) (eps : Q) : positive :=
  if Qleb eps 0 then 1%positive
  else Z.to_pos (Z.log2_up (Qceiling (inject_Z (2 * Z.of_nat n) / eps)) + 1).

(* bracket  B - tau I <= C <= B + (t + tau) I  decided by the verified PSD checker *)
Definition chk_bracket (tau : Q) (n : nat) (C : mat) (V : list vec) (l : vec) (t : Q) : bool :=
  let B := sketch_mat n V l in
  let q := pick_q n tau in
  is_square n C && is_square n B &&
  psd_any q n (add_ridge tau (msub C B)) && psd_any q n (add_ridge (t + tau) (msub B C)).

Definition chk_nonneg (l : vec) (t : Q) : bool := forallb (fun a => Qleb 0 a) l && Qleb 0 t.

(* stored inverse roots: r^p * (l + t + eps) ~ 1, or r = 0 where the direction is masked *)
Definition chk_root1 (tol : Q) (p : positive) (r a : Q) : bool :=
  qclose tol (qnorm (Qpower r (Zpos p) * a)) 1.
Definition chk_roots (tol : Q) (p : positive) (rs ls : vec) (t eps : Q) : bool :=
  forallb (fun '(r, l) => if Qeq_bool r 0 then true else chk_root1 tol p r (l + t + eps))
          (combine rs ls).

(* one full step record of an implementation *)
Definition chk_step (tol tau b t : Q) (k n : nat) (F : mat) (U : list vec) (s : vec)
           (V' : list vec) (l' : vec) (t' : Q) (C' : mat) : bool :=
  chk_svd tol n F U s && chk_recur tol b t k s l' t' && ortho_or_zero tol V' &&
  chk_nonneg l' t' && chk_bracket tau n C' V' l' t'.

(* ---------- a whole recorded history of one implementation ---------- *)
Record srec := mkrec {
  r_G : mat;            (* d x m gradient matrix of this step *)
  r_F : mat;            (* d x c matrix handed to the SVD (M = F F^T) *)
  r_U : list vec;       (* captured singular vectors (columns) *)
  r_s : vec;            (* captured singular values, descending *)
  r_V : list vec;       (* stored directions after the step *)
  r_l : vec;            (* stored eigenvalues after the step *)
  r_t : Q;              (* escaped mass after the step *)
  r_inv : vec;          (* stored inverse roots of the kept directions ([] if not stored) *)
  r_const : Q;          (* stored inverse root of the escaped mass (0 if not stored) *)
  r_epsR : Q;           (* ridge added to every retained eigenvalue before this step *)
  r_eps_abs : Q; r_eps_rel : Q   (* eps = abs + rel * max_i (l_i + t) inside the inverse roots *)
}.

Definition zeros (n : nat) : mat := repeat (repeat 0 n) n.
Definition ridge_mat (n : nat) (V : list vec) (eps : Q) : mat :=
  sketch_mat n V (repeat eps (length V)).

(* returns 0 when every check of every step passes, else 100*step + code:
   1 = F F^T differs from b*(B+R) + G G^T      (sketch weighting / decay on the factor)
   2 = captured SVD answer violates its spec   (oracle monitor)
   3 = (l', t') differ from the recurrence      4 = directions not orthonormal-or-zero
   5 = negative l or t                          6 = bracket B <= C <= B + t I fails
   7 = stored inverse roots wrong *)
Fixpoint chk_hist_from (i : Z) (tol tau b : Q) (k n : nat) (p : positive)
         (V : list vec) (l : vec) (t : Q) (C : mat) (recs : list srec) : Z :=
  match recs with
  | [] => 0%Z
  | r :: rest =>
    let B := sketch_mat n V l in
    let R := ridge_mat n V (r_epsR r) in
    let GG := gram (r_G r) in
    let Mexp := madd (mscale b (madd B R)) GG in
    let M := gram (r_F r) in
    let scale := maxabs Mexp in
    let C' := madd (mscale b (madd C R)) GG in
    let tauC := tau * trace C' in
    let epsroot := r_eps_abs r + r_eps_rel r * maxabs_vec (map (fun x => x + r_t r) (r_l r)) in
    let code :=
      if negb (mclose (tol * scale) M Mexp) then 1%Z
      else if negb (chk_svd tol n (r_F r) (r_U r) (r_s r)) then 2%Z
      else if negb (chk_recur tol b t k (r_s r) (r_l r) (r_t r)) then 3%Z
      else if negb (ortho_or_zero tol (r_V r)) then 4%Z
      else if negb (chk_nonneg (r_l r) (r_t r)) then 5%Z
      else if negb (chk_bracket tauC n C' (r_V r) (r_l r) (r_t r)) then 6%Z
      else if negb (chk_roots tol p (r_inv r) (r_l r) (r_t r) epsroot &&
                    (if Qeq_bool (r_const r) 0 then true
                     else chk_root1 tol p (r_const r) (r_t r + epsroot))) then 7%Z
      else 0%Z in
    if (code =? 0)%Z then chk_hist_from (i + 1) tol tau b k n p (r_V r) (r_l r) (r_t r) C' rest
    else (100 * i + code)%Z
  end.

Definition chk_history (tol tau b : Q) (k n : nat) (p : positive) (recs : list srec) : Z :=
  chk_hist_from 0 tol tau b k n p [] [] 0 (zeros n) recs.

(* ---------- sketches inside optimizer state (no captured SVD: state invariants only) ---------- *)
(* codes 4..7 as in chk_hist_from; the exact covariance is rebuilt from the gradients and the
   per-step ridge on the previously stored directions *)
Fixpoint chk_states_from (i : Z) (tol tau b : Q) (n : nat) (p : positive)
         (V : list vec) (C : mat) (recs : list srec) : Z :=
  match recs with
  | [] => 0%Z
  | r :: rest =>
    let R := ridge_mat n V (r_epsR r) in
    let C' := madd (mscale b (madd C R)) (gram (r_G r)) in
    let tauC := tau * trace C' in
    let epsroot := r_eps_abs r + r_eps_rel r * maxabs_vec (map (fun x => x + r_t r) (r_l r)) in
    let code :=
      if negb (ortho_or_zero tol (r_V r)) then 4%Z
      else if negb (chk_nonneg (r_l r) (r_t r)) then 5%Z
      else if negb (chk_bracket tauC n C' (r_V r) (r_l r) (r_t r)) then 6%Z
      else if negb (chk_roots tol p (r_inv r) (r_l r) (r_t r) epsroot &&
                    (if Qeq_bool (r_const r) 0 then true
                     else chk_root1 tol p (r_const r) (r_t r + epsroot))) then 7%Z
      (* escaped-mass budget: every deflation by r removes at least (k+1) r of trace from the sketch
         (k+1 eigenvalues are lowered by r), so by induction over t_new = b t_old + r and
         tr C_new = b tr C_old + |G|^2:  (k+1) t <= tr C - sum l.  Without the captured SVD this is
         what ties t to the recurrence (a history of rank <= k then has t = 0); added after a seeded
         change that let padding singular values into the escaped mass was missed *)
      else if negb (Qleb (inject_Z (Z.of_nat (S (length (r_V r)))) * r_t r)
                         (trace C' - fold_left Qplus (r_l r) 0 + tauC)) then 8%Z
      else 0%Z in
    if (code =? 0)%Z then chk_states_from (i + 1) tol tau b n p (r_V r) C' rest
    else (100 * i + code)%Z
  end.

Definition chk_states (tol tau b : Q) (n : nat) (p : positive) (recs : list srec) : Z :=
  chk_states_from 0 tol tau b n p [] (zeros n) recs.
