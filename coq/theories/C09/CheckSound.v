(* C09/CheckSound.v — what a [true] answer of the run-time bracket check means. *)
From Precond Require Import Base.QMat Base.PsdCheck Base.PsdRound C09.Model C09.Check.
From Coq Require Import Lqa Lia.
Open Scope Q_scope.

Lemma psd_any_sound q n M : psd_any q n M = true -> forall x, length x = n -> 0 <= qf M x.
Proof.
  unfold psd_any. intro H. destruct (psd_check_rounded q n M) eqn:E.
  - apply (psd_check_rounded_sound q n M E).
  - apply (psd_check_sound n M H).
Qed.

Theorem chk_bracket_sound tau n C V l t :
  chk_bracket tau n C V l t = true ->
  forall x, length x = n ->
    qf (sketch_mat n V l) x - tau * dot x x <= qf C x /\
    qf C x <= qf (sketch_mat n V l) x + (t + tau) * dot x x.
Proof.
  unfold chk_bracket. intros H x Hx.
  apply andb_true_iff in H as [H H4]. apply andb_true_iff in H as [H H3].
  apply andb_true_iff in H as [H1 H2].
  pose proof (is_square_wf _ _ H1) as WC. pose proof (is_square_wf _ _ H2) as WB.
  pose proof (psd_any_sound _ _ _ H3 x Hx) as P1.
  pose proof (psd_any_sound _ _ _ H4 x Hx) as P2.
  rewrite (qf_add_ridge n) in P1 by (try apply msub_wf; assumption).
  rewrite (qf_add_ridge n) in P2 by (try apply msub_wf; assumption).
  rewrite (qf_msub n) in P1 by assumption. rewrite (qf_msub n) in P2 by assumption.
  split; lra.
Qed.
