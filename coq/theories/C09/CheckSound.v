(* C09/CheckSound.v — what a [true] answer of the run-time bracket check means. *)
From Precond Require Import Base.QMat Base.PsdCheck Base.PsdRound C09.Model C09.Check.
From Coq Require Import Lqa Lia.
Open Scope Q_scope.

Lemma psd_any_sound q n M : psd_any q n M = true -> forall x, length x = n -> 0 <= qf M x.
Proof.
  unfold psd_any. intro H. destruct (psd_check_rounded q n M) eqn:E.
  - apply (psd_check_rounded_sound q n M E).
  - apply (psd_check_sound n M H).
Qed.

Theorem chk_bracket_sound tau n C V l t :
  chk_bracket tau n C V l t = true ->
  forall x, length x = n ->
    qf (sketch_mat n V l) x - tau * dot x x <= qf C x /\
    qf C x <= qf (sketch_mat n V l) x + (t + tau) * dot x x.
Proof.
  unfold chk_bracket. intros H x Hx.
  apply andb_true_iff in H as [H H4]. apply andb_true_iff in H as [H H3].
  apply andb_true_iff in H as [H1 H2].
  pose proof (is_square_wf _ _ H1) as WC. pose proof (is_square_wf _ _ H2) as WB.
  pose proof (psd_any_sound _ _ _ H3 x Hx) as P1.
  pose proof (psd_any_sound _ _ _ H4 x Hx) as P2.
  rewrite (qf_add_ridge n) in P1 by (try apply msub_wf; assumption).
  rewrite (qf_add_ridge n) in P2 by (try apply msub_wf; assumption).
  rewrite (qf_msub n) in P1 by assumption. rewrite (qf_msub n) in P2 by assumption.
  split; lra.
Qed.

(* ---------- the dense matrix of a sketch has the sketch's quadratic form ---------- *)
Lemma outer_wf (v : vec) : wf (length v) (outer v v).
Proof.
  unfold outer. split; [apply map_length|]. apply Forall_forall. intros r Hr.
  apply in_map_iff in Hr as [a [<- _]]. apply map_length.
Qed.

Lemma qf_outer (v x : vec) : qf (outer v v) x == dot v x * dot v x.
Proof.
  unfold qf, mv, outer. rewrite map_map.
  assert (E : dot x (map (fun a : Q => dot (map (fun b : Q => a * b) v) x) v)
           == dot x (map (fun a : Q => a * dot v x) v)).
  { apply dot_map_ext. intros a _. change (map (fun b : Q => a * b) v) with (vscale a v).
    apply dot_vscale. }
  rewrite E. rewrite (dot_map_scale (fun a : Q => a) (dot v x) v x). rewrite map_id.
  rewrite (dot_comm x v). ring.
Qed.

Lemma zeros_wf n : wf n (zeros n).
Proof.
  unfold zeros. split; [apply repeat_length|]. apply Forall_forall. intros r Hr.
  apply repeat_spec in Hr. subst. apply repeat_length.
Qed.

Lemma qf_zeros n x : qf (zeros n) x == 0.
Proof.
  unfold qf, mv, zeros.
  assert (E : forall k (y : vec), dot y (map (fun r : vec => dot r x) (repeat (repeat 0 n) k)) == 0).
  { induction k as [|k IH]; intros [|b y]; simpl; try reflexivity.
    rewrite IH. assert (Z : dot (repeat 0 n) x == 0).
    { clear. revert x. induction n as [|n IHn]; intros [|c x]; simpl; try reflexivity. rewrite IHn. ring. }
    rewrite Z. ring. }
  apply E.
Qed.

Lemma sketch_mat_form n : forall (V : list vec) (l : vec) (M : mat) (x : vec),
  wf n M -> Forall (fun v => length v = n) V ->
  let R := fold_left (fun M '(v, li) => madd M (mscale li (outer v v))) (combine V l) M in
  wf n R /\ qf R x == qf M x + sketch_form (firstn (length l) V) (firstn (length V) l) x.
Proof.
  induction V as [|v V IH]; intros l M x HM HV.
  - simpl. split; [exact HM|]. unfold sketch_form, coeffs. destruct l; simpl; ring.
  - destruct l as [|li l].
    + simpl. split; [exact HM|]. unfold sketch_form. simpl. ring.
    + inversion HV as [|? ? Hv HV']; subst. cbn [combine fold_left].
      assert (HO : wf (length v) (mscale li (outer v v))) by (apply mscale_wf, outer_wf).
      assert (HM' : wf (length v) (madd M (mscale li (outer v v)))) by (apply madd_wf; assumption).
      destruct (IH l (madd M (mscale li (outer v v))) x HM' HV') as [W Q].
      split; [exact W|]. rewrite Q.
      rewrite (qf_madd (length v)) by assumption. rewrite qf_mscale, qf_outer.
      unfold sketch_form, coeffs. cbn [length firstn map dot]. ring.
Qed.

Theorem sketch_mat_is_form n (V : list vec) (l : vec) (x : vec) :
  Forall (fun v => length v = n) V -> length V = length l ->
  qf (sketch_mat n V l) x == sketch_form V l x.
Proof.
  intros HV Hl. unfold sketch_mat.
  destruct (sketch_mat_form n V l (repeat (repeat 0 n) n) x (zeros_wf n) HV) as [_ Q].
  rewrite Q. fold (zeros n). rewrite qf_zeros.
  rewrite <- Hl at 1. rewrite firstn_all. rewrite Hl. rewrite firstn_all. ring.
Qed.

(* the run-time bracket verdict, stated on the sketch's own quadratic form *)
Theorem chk_bracket_sound_form tau n C V l t :
  chk_bracket tau n C V l t = true ->
  Forall (fun v => length v = n) V -> length V = length l ->
  forall x, length x = n ->
    sketch_form V l x - tau * dot x x <= qf C x /\
    qf C x <= sketch_form V l x + (t + tau) * dot x x.
Proof.
  intros H HV Hl x Hx. destruct (chk_bracket_sound tau n C V l t H x Hx) as [H1 H2].
  rewrite (sketch_mat_is_form n V l x HV Hl) in H1, H2. split; assumption.
Qed.
