(* C09/Budget.v — the escaped-mass budget of frequent directions, at the level of traces.

   One step: F = b (S + R) + G G^T is diagonalised with eigenvalues s_1 >= ... >= s_m >= 0; the new sketch
   keeps l_i = s_i - r (i <= k) with r = s_(k+1), the escaped mass becomes t' = b t + r, and the exact
   covariance becomes C' = b (C + R) + G G^T.  Then (k+1) t <= tr C - tr S is an invariant: a deflation
   by r lowers k+1 eigenvalues by r.  This is what harness/c09 checks on optimizer states (code 8). *)
From Coq Require Import QArith List Lia Lqa.
Import ListNotations.
Open Scope Q_scope.

Definition qsum (l : list Q) : Q := fold_right Qplus 0 l.

(* eigenvalue part: for non-negative s with at least k+1 entries whose (k+1)-th is r,
   sum_{i<=k} (s_i - r) + (k+1) r <= sum_i s_i *)
Lemma qsum_nonneg l : Forall (fun x => 0 <= x) l -> 0 <= qsum l.
Proof.
  unfold qsum. induction l as [|x l IH]; intros H; cbn [fold_right]; [apply Qle_refl|].
  inversion H as [|? ? Hx Hl]; subst. specialize (IH Hl). lra.
Qed.

Lemma qsum_app a b : qsum (a ++ b) == qsum a + qsum b.
Proof.
  unfold qsum. induction a as [|x a IH]; cbn [app fold_right]; [ring | rewrite IH; ring].
Qed.

Lemma qsum_map_sub r l : qsum (map (fun x => x - r) l) == qsum l - inject_Z (Z.of_nat (length l)) * r.
Proof.
  unfold qsum. induction l as [|x l IH]; cbn [map fold_right length].
  - change (inject_Z (Z.of_nat 0)) with 0. ring.
  - rewrite IH, Nat2Z.inj_succ. unfold Z.succ. rewrite inject_Z_plus. change (inject_Z 1) with 1. ring.
Qed.

Theorem deflation_lowers_trace (top rest : list Q) (r : Q) :
  Forall (fun x => 0 <= x) rest ->
  (* the spectrum is top ++ r :: rest, the sketch keeps top - r *)
  qsum (map (fun x => x - r) top) + inject_Z (Z.of_nat (S (length top))) * r
  <= qsum (top ++ r :: rest).
Proof.
  intros Hrest. rewrite qsum_map_sub, qsum_app.
  assert (Hc : qsum (r :: rest) == r + qsum rest) by (unfold qsum; cbn [fold_right]; ring). rewrite Hc.
  pose proof (qsum_nonneg rest Hrest) as H.
  rewrite Nat2Z.inj_succ. unfold Z.succ. rewrite inject_Z_plus.
  change (inject_Z 1) with 1. lra.
Qed.

(* one step on traces *)
Record tr_state := { trC : Q; trS : Q; esc : Q }.
Record tr_step := { decay : Q; trR : Q; g2 : Q; trS_new : Q; removed : Q }.

Definition step_ok (k1 : Q) (s : tr_state) (x : tr_step) : Prop :=
  0 <= decay x /\
  (* what the eigen-decomposition of F = b (S + R) + G G^T gives: deflation_lowers_trace *)
  trS_new x + k1 * removed x <= decay x * (trS s + trR x) + g2 x.

Definition next (s : tr_state) (x : tr_step) : tr_state :=
  {| trC := decay x * (trC s + trR x) + g2 x; trS := trS_new x; esc := decay x * esc s + removed x |}.

Definition budget (k1 : Q) (s : tr_state) : Prop := k1 * esc s <= trC s - trS s.

Lemma budget_step k1 s x : budget k1 s -> step_ok k1 s x -> budget k1 (next s x).
Proof.
  unfold budget, step_ok, next. cbn. intros Hb [Hd Hs]. nra.
Qed.

Fixpoint run (s : tr_state) (xs : list tr_step) : tr_state :=
  match xs with [] => s | x :: r => run (next s x) r end.

Fixpoint all_ok (k1 : Q) (s : tr_state) (xs : list tr_step) : Prop :=
  match xs with [] => True | x :: r => step_ok k1 s x /\ all_ok k1 (next s x) r end.

(* every history: from the empty sketch, (k+1) t <= tr C - tr S at every reachable state *)
Theorem budget_history k1 xs :
  all_ok k1 {| trC := 0; trS := 0; esc := 0 |} xs ->
  budget k1 (run {| trC := 0; trS := 0; esc := 0 |} xs).
Proof.
  assert (H0 : budget k1 {| trC := 0; trS := 0; esc := 0 |}) by (unfold budget; cbn; lra).
  revert H0. generalize {| trC := 0; trS := 0; esc := 0 |} as s.
  induction xs as [|x xs IH]; intros s Hb Hok; cbn in *; [exact Hb|].
  destruct Hok as [H1 H2]. apply IH; [apply budget_step; assumption | exact H2].
Qed.

(* a history whose sketch is exact (tr S = tr C, e.g. rank <= k) has no escaped mass *)
Corollary exact_sketch_no_escaped_mass k1 s : 0 < k1 -> budget k1 s -> trS s == trC s -> 0 <= esc s -> esc s == 0.
Proof. unfold budget. intros Hk Hb He Hn. nra. Qed.

(* non-vacuity: one step with spectrum [5; 3; 1], k = 1: sketch [2], r = 3, budget 2 * 3 <= 9 - 2 *)
Example budget_example :
  let x := {| decay := 1; trR := 0; g2 := 9; trS_new := 2; removed := 3 |} in
  step_ok 2 {| trC := 0; trS := 0; esc := 0 |} x /\ budget 2 (next {| trC := 0; trS := 0; esc := 0 |} x).
Proof. cbv [step_ok budget next]; cbn; split; [split|]; lra. Qed.
