(* C09/Model.v — frequent-directions step, abstractly (quadratic forms as functions X -> Q) and
   concretely (list vectors), definitions only.

   One FD step receives an SVD answer for  M = b*(B + R) + G  (B the sketch form, R the ridge the
   configuration adds on the retained directions at this step, G the new gradient's Gram form):
   eigenvalues sigma_i = s_i^2 (descending) and, for every x, the squared coefficients
   c_i(x) = (u_i . x)^2.  The step keeps the first k directions deflated by rho = sigma_k and
   moves rho into the escaped mass:  l'_i = sigma_i - rho,  t' = b*t + rho. *)
From Precond Require Import Base.QMat.
Open Scope Q_scope.

Definition sumq (l : list Q) : Q := fold_right Qplus 0 l.

Definition cutoff (k : nat) (sigma : list Q) : Q := nth k sigma 0.

Definition deflate (k : nat) (sigma : list Q) : list Q :=
  map (fun s => s - cutoff k sigma) (firstn k sigma).

Section Abstract.
  Variable X : Type.

  Record step := mkstep {
    st_G : X -> Q;            (* x |-> |G^T x|^2 *)
    st_R : X -> Q;            (* ridge form added to the sketch before the step (0 if none) *)
    st_sigma : list Q;        (* squared singular values, descending *)
    st_c : X -> list Q        (* x |-> [(u_i . x)^2]_i *)
  }.

  (* state: sketch form B, escaped mass t, exact covariance C *)
  Definition state := ((X -> Q) * Q * (X -> Q))%type.

  Definition fd_step (b : Q) (k : nat) (s : state) (st : step) : state :=
    let '(B, t, C) := s in
    (fun x => dot (deflate k (st_sigma st)) (firstn k (st_c st x)),
     b * t + cutoff k (st_sigma st),
     fun x => b * (C x + st_R st x) + st_G st x).

  Definition fd_run (b : Q) (k : nat) (s : state) (sts : list step) : state :=
    fold_left (fd_step b k) sts s.
End Abstract.

(* ---------- concrete sketches (what the implementations store) ---------- *)
(* V: list of direction vectors (columns), l: eigenvalues.  B(x) = sum_i l_i (v_i . x)^2 *)
Definition coeffs (V : list vec) (x : vec) : list Q := map (fun v => dot v x * dot v x) V.
Definition sketch_form (V : list vec) (l : list Q) (x : vec) : Q := dot l (coeffs V x).

(* dense matrix of a sketch: sum_i l_i v_i v_i^T, as rows *)
Definition outer (u v : vec) : mat := map (fun a => map (fun b => a * b) v) u.
Definition sketch_mat (n : nat) (V : list vec) (l : list Q) : mat :=
  fold_left (fun M '(v, li) => madd M (mscale li (outer v v))) (combine V l)
            (repeat (repeat 0 n) n).

(* Gram matrix G G^T of a d x m factor given by rows *)
Definition gram (G : mat) : mat := mmul G (transpose G).

(* exact b-discounted covariance of a history of factors (rows), oldest first, with per-step ridge
   matrices (already materialised by the caller) *)
Definition cov_step (b : Q) (C : mat) (R : mat) (G : mat) : mat :=
  madd (mscale b (madd C R)) (gram G).

(* recurrence the three implementations must follow, given sigma (descending) *)
Definition fd_next_eigs (k : nat) (sigma : list Q) : list Q :=
  map (fun s => Qmax 0 s) (deflate k sigma).
Definition fd_next_tail (b t : Q) (k : nat) (sigma : list Q) : Q := b * t + cutoff k sigma.
