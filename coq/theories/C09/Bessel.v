(* C09/Bessel.v — Bessel's inequality for list vectors over Q:
   orthonormal U  ->  sum_i (u_i . x)^2 <= x . x.
   This discharges, from orthonormality of the singular vectors, the only place where the
   FD step (C09.Proofs.svd_spec) uses it. *)
From Precond Require Import Base.QMat C09.Model C09.Proofs.
From Coq Require Import Lqa Lia.
Open Scope Q_scope.

Fixpoint ortho (n : nat) (U : list vec) : Prop :=
  match U with
  | [] => True
  | u :: U' => length u = n /\ dot u u == 1 /\ Forall (fun v => dot v u == 0) U' /\ ortho n U'
  end.

Lemma dot_vsub_l : forall x y z, length x = length y ->
  dot (vsub x y) z == dot x z - dot y z.
Proof.
  induction x as [|a x IH]; intros [|b y] z H; simpl in *; try discriminate; [ring|].
  destruct z as [|c z]; simpl; [ring|]. rewrite IH by lia. ring.
Qed.

Lemma dot_vscale_l c : forall x z, dot (vscale c x) z == c * dot x z.
Proof.
  induction x as [|a x IH]; intros z; simpl; [ring|].
  destruct z as [|d z]; simpl; [ring|]. rewrite IH. ring.
Qed.

Lemma vscale_length c x : length (vscale c x) = length x.
Proof. unfold vscale. apply map_length. Qed.

Lemma vsub_length : forall x y, length x = length y -> length (vsub x y) = length x.
Proof. induction x as [|a x IH]; intros [|b y] H; simpl in *; try discriminate; [reflexivity|]. f_equal. apply IH. lia. Qed.

Lemma dot_self_nonneg : forall x, 0 <= dot x x.
Proof.
  induction x as [|a x IH]; simpl; [lra|].
  assert (0 <= a * a).
  { destruct (Qlt_le_dec a 0).
    - setoid_replace (a * a) with ((- a) * (- a)) by ring. apply Qmult_le_0_compat; lra.
    - apply Qmult_le_0_compat; lra. }
  lra.
Qed.

Fixpoint resid (U : list vec) (x : vec) : vec :=
  match U with
  | [] => x
  | u :: U' => resid U' (vsub x (vscale (dot u x) u))
  end.

Lemma coeffs_ext : forall U x y, Forall (fun v => dot v x == dot v y) U ->
  sumq (coeffs U x) == sumq (coeffs U y).
Proof.
  induction U as [|v U IH]; intros x y H; simpl; [reflexivity|].
  inversion H; subst. rewrite IH by eassumption. rewrite H2. reflexivity.
Qed.

Lemma resid_norm n : forall U x, ortho n U -> length x = n ->
  dot (resid U x) (resid U x) == dot x x - sumq (coeffs U x).
Proof.
  induction U as [|u U IH]; intros x Ho Hx; simpl.
  - ring.
  - destruct Ho as [Hu [H1 [Hperp Ho]]].
    set (c := dot u x). set (x1 := vsub x (vscale c u)).
    assert (Hl : length x = length (vscale c u)) by (rewrite vscale_length; lia).
    assert (Hx1 : length x1 = n) by (unfold x1; rewrite vsub_length; lia).
    rewrite (IH x1 Ho Hx1).
    assert (A1 : dot x1 x == dot x x - c * c).
    { unfold x1. rewrite dot_vsub_l by exact Hl. rewrite dot_vscale_l. unfold c. ring. }
    assert (A2 : dot x1 u == 0).
    { unfold x1. rewrite dot_vsub_l by exact Hl. rewrite dot_vscale_l, H1. unfold c.
      rewrite (dot_comm x u). ring. }
    assert (E1 : dot x1 x1 == dot x x - c * c).
    { unfold x1 at 1. rewrite dot_vsub_l by exact Hl. rewrite dot_vscale_l.
      rewrite (dot_comm x x1), (dot_comm u x1), A1, A2. ring. }
    assert (E2 : sumq (coeffs U x1) == sumq (coeffs U x)).
    { apply coeffs_ext. rewrite Forall_forall in *. intros v Hv. specialize (Hperp v Hv).
      unfold x1. rewrite (dot_comm v (vsub x (vscale c u))). rewrite dot_vsub_l by exact Hl.
      rewrite dot_vscale_l. rewrite (dot_comm u v), Hperp. rewrite (dot_comm x v). ring. }
    rewrite E1, E2. fold c. ring.
Qed.

Theorem bessel n U x : ortho n U -> length x = n -> sumq (coeffs U x) <= dot x x.
Proof.
  intros Ho Hx. pose proof (resid_norm n U x Ho Hx) as H.
  pose proof (dot_self_nonneg (resid U x)). lra.
Qed.

(* ---------- the concrete SVD answer meets the abstract spec ---------- *)
Definition vecn (n : nat) : Type := {x : vec | length x = n}.
Definition vn2 {n} (x : vecn n) : Q := dot (proj1_sig x) (proj1_sig x).

Lemma coeffs_nonneg U x : Forall (fun a => 0 <= a) (coeffs U x).
Proof.
  unfold coeffs. apply Forall_forall. intros a Ha. apply in_map_iff in Ha as [v [<- _]].
  destruct (Qlt_le_dec (dot v x) 0).
  - setoid_replace (dot v x * dot v x) with ((- dot v x) * (- dot v x)) by ring.
    apply Qmult_le_0_compat; lra.
  - apply Qmult_le_0_compat; lra.
Qed.

Lemma concrete_svd_spec n b (B Gf Rf : vecn n -> Q) (U : list vec) (sigma : list Q) :
  ortho n U -> sorted_desc sigma -> Forall (fun a => 0 <= a) sigma -> length U = length sigma ->
  (forall x : vecn n, 0 <= Gf x /\ 0 <= Rf x /\
        dot sigma (coeffs U (proj1_sig x)) == b * (B x + Rf x) + Gf x) ->
  svd_spec (vecn n) vn2 b B (mkstep (vecn n) Gf Rf sigma (fun x => coeffs U (proj1_sig x))).
Proof.
  intros Ho Hs Hn Hl Hx. split; [exact Hs | split; [exact Hn|]]. intro x. simpl.
  destruct (Hx x) as [HG [HR HM]]. destruct x as [x Hlen]. simpl in *.
  split; [unfold coeffs; rewrite map_length; exact Hl|].
  split; [apply coeffs_nonneg|].
  split; [apply (bessel n U x Ho Hlen)|].
  split; [exact HG | split; [exact HR | exact HM]].
Qed.
