(* C05/Model.v — executable model of grafting in distributed_shampoo._transform_grad and
   tearfree/grafting.py.  Definitions only (no proofs).

   Vectors are lists over Q (a parameter tensor of any shape, flattened).  The Euclidean norm, the
   scalar square root and the reciprocal square root are ORACLES: parameters [nrm], [sq], [rsq] of
   the definitions (Section variables); the theorems assume only sqrt_spec. *)
From Coq Require Import ZArith QArith Qabs List Bool.
Import ListNotations.
Open Scope Q_scope.

Definition vec := list Q.

Fixpoint dot (a b : vec) : Q :=
  match a, b with x :: s, y :: t => x * y + dot s t | _, _ => 0 end.
Definition scale (c : Q) (v : vec) : vec := map (Qmult c) v.
Fixpoint vadd (a b : vec) : vec :=
  match a, b with x :: s, y :: t => (x + y) :: vadd s t | _, _ => [] end.
Fixpoint vmap2 (f : Q -> Q -> Q) (a b : vec) : vec :=
  match a, b with x :: s, y :: t => f x y :: vmap2 f s t | _, _ => [] end.
Definition veq (a b : vec) : Prop := Forall2 Qeq a b.
Definition vzero (v : vec) : Prop := Forall (fun x => x == 0) v.

Definition sqrt_spec (r a : Q) : Prop := 0 <= r /\ r * r == a.
(* what the theorems assume about the norm oracle, at each vector they mention *)
Definition spec_at (nrm : vec -> Q) (v : vec) : Prop := sqrt_spec (nrm v) (dot v v).

(* distributed_shampoo._EPSILON = 1e-25 *)
Definition eps : Q := 1 # (10 ^ 25).

(* ------------------------------------------------------------------------------------------- *)
(* combination of the graft step and the preconditioned gradient                                *)
(* ------------------------------------------------------------------------------------------- *)
Section Graft.
  Variable nrm : vec -> Q.

  (* multiplier = grafting_update_norm / (precond_grad_norm + _EPSILON) *)
  Definition ds_multiplier (s p : vec) : Q := nrm s / (nrm p + eps).
  (* shampoo_update = precond_grad * multiplier *)
  Definition ds_graft (s p : vec) : vec := scale (ds_multiplier s p) p.

  (* run_shampoo * a + (1 - run_shampoo) * b, run_shampoo = (step >= start).astype(float) *)
  Definition run_shampoo (step start : Z) : Q := if (start <=? step)%Z then 1 else 0.
  Definition blend (rs : Q) (a b : vec) : vec := vadd (scale rs a) (scale (1 - rs) b).

  (* pre-momentum update of one parameter (beta1 = 0, no weight decay):
     s = grafting_update, pg = preconditioner.preconditioned_grad(grad, ..),
     skip = _skip_preconditioning(param), graft_none = (graft_type == NONE) *)
  Definition ds_update (graft_none skip : bool) (step start : Z) (s pg : vec) : vec :=
    let p := if skip then s else pg in
    let m := if graft_none then 1 else ds_multiplier s p in
    blend (run_shampoo step start) (scale m p) s.

  (* tearfree/grafting.py: maybe_graft *)
  Definition tf_multiplier (s base : vec) : Q :=
    if Qlt_le_dec 0 (nrm base) then nrm s / nrm base else 0.
  Definition tf_update (masked : bool) (count start : Z) (s base : vec) : vec :=
    if masked then s
    else if (start <=? count)%Z then scale (tf_multiplier s base) base else s.
End Graft.

(* ------------------------------------------------------------------------------------------- *)
(* the graft optimizers as state machines over the gradient history                             *)
(* ------------------------------------------------------------------------------------------- *)
Inductive gtype := GNone | GSgd | GAdagrad | GRmsprop | GRmspropN | GSqrtN | GAdagradN.

Section Steps.
  Variable nrm : vec -> Q.
  Variable sq : Q -> Q.     (* jnp.sqrt  *)
  Variable rsq : Q -> Q.    (* jax.lax.rsqrt *)

  (* grad / (norm(grad) + _EPSILON) for the *_NORMALIZED types *)
  Definition scaled (normalized : bool) (g : vec) : vec :=
    if normalized then map (fun x => x / (nrm g + eps)) g else g.

  (* new_stats = w1 * stats + w2 * square(scaled_grad) *)
  Definition acc_update (w1 w2 : Q) (acc g : vec) : vec :=
    vmap2 (fun a x => w1 * a + w2 * (x * x)) acc g.
  (* update = scaled_grad / (sqrt(new_stats) + diagonal_epsilon) *)
  Definition diag_step (deps : Q) (acc g : vec) : vec :=
    vmap2 (fun a x => x / (sq a + deps)) acc g.

  Definition zeros (n : nat) : vec := repeat 0 n.
  (* accumulator after the gradients of [hist] (oldest first), starting from zeros *)
  Definition acc_after (w1 w2 : Q) (normalized : bool) (hist : list vec) (n : nat) : vec :=
    fold_left (fun acc g => acc_update w1 w2 acc (scaled normalized g)) hist (zeros n).

  Definition sgn (x : Q) : Q :=
    if Qlt_le_dec 0 x then 1 else if Qlt_le_dec x 0 then -1 else 0.

  (* w2 = where(beta2 == 1, beta2, 1 - beta2) *)
  Definition rms_w2 (beta2 : Q) : Q := if Qeq_bool beta2 1 then beta2 else 1 - beta2.

  (* grafting_update of distributed_shampoo after the history hist ++ [g] *)
  Definition ds_graft_step (gt : gtype) (beta2 deps : Q) (hist : list vec) (g : vec) : vec :=
    let n := length g in
    let all := hist ++ [g] in
    match gt with
    | GNone | GSgd => g
    | GSqrtN => map sgn g
    | GAdagrad => diag_step deps (acc_after 1 1 false all n) g
    | GAdagradN => diag_step deps (acc_after 1 1 true all n) (scaled true g)
    | GRmsprop => diag_step deps (acc_after beta2 (rms_w2 beta2) false all n) g
    | GRmspropN => diag_step deps (acc_after beta2 (rms_w2 beta2) true all n) (scaled true g)
    end.

  (* tearfree RMSProp: acc = snew * (1 - b) + b * prev  (snew + prev when b == 1);
     update = g * rsqrt(acc + epsilon) *)
  Definition tf_w (b : Q) : Q * Q := if Qeq_bool b 1 then (1, 1) else (b, 1 - b).
  Definition tf_rms_step (b e : Q) (hist : list vec) (g : vec) : vec :=
    let '(w1, w2) := tf_w b in
    vmap2 (fun a x => x * rsq (a + e)) (acc_after w1 w2 false (hist ++ [g]) (length g)) g.
End Steps.

(* closed form of one coordinate of the accumulator: each past (scaled) gradient entry x weighs
   w2 * w1^(number of later gradients) *)
Fixpoint acc_closed (w1 w2 : Q) (xs : list Q) : Q :=
  match xs with
  | [] => 0
  | x :: t => w2 * Qpower w1 (Z.of_nat (length t)) * (x * x) + acc_closed w1 w2 t
  end.
