(* Stable copy of the translator output for tearfree/grafting.py _graft_with.update_fn.maybe_graft;
   compared with the regenerated gen/C05/Gen.v on every run (GenEq obligation). *)
From Precond Require Import Base.PyLib Base.QMat Base.PyFloat.
Open Scope Q_scope.

Definition tf_maybe_graft (nrm : (list Q) -> Q) (masked : bool) (count : Z) (start_preconditioning_step : Z) (graft_upd : (list Q)) (base : (list Q)) : option vec :=
(if masked then
(Some graft_upd)
else
(if (Nat.eqb (length graft_upd) (length base)) then (let base_norm := (nrm base) in
(let multiplier := (if (Qltb (0 # 1) base_norm) then (Qdiv (nrm graft_upd) base_norm) else (0 # 1)) in
(Some (if (count >=? start_preconditioning_step)%Z then (vs_mul base multiplier) else graft_upd)))) else None)).
