(* C05/Check.v — boolean comparators for the correspondence check of C05: the model (C05.Model),
   with the norm / sqrt / rsqrt oracles instantiated by an integer square root accurate to 2^-80,
   against the updates observed on the public API.  Definitions only; evaluated by vm_compute. *)
From Coq Require Import ZArith QArith Qabs Qminmax List Bool.
From Precond Require Import C05.Model.
Import ListNotations.
Open Scope Q_scope.

(* floor(sqrt(a) * 2^80) / 2^80  (0 for a <= 0) *)
Definition qsqrt (a : Q) : Q :=
  if Qle_bool a 0 then 0
  else (Z.sqrt (Qnum a * 2 ^ 160 / Zpos (Qden a)) # (2 ^ 80)).
Definition nrmA (v : vec) : Q := qsqrt (Qred (dot v v)).
Definition rsqA (x : Q) : Q := if Qle_bool x 0 then 0 else 1 / qsqrt x.

Definition tau32 : Q := 1 # (2 ^ 17).

Definition vmaxabs (v : vec) : Q := fold_left (fun a x => Qmax a (Qabs x)) v 0.
Fixpoint vclose (tol : Q) (a b : vec) : bool :=
  match a, b with
  | [], [] => true
  | x :: s, y :: t => Qle_bool (Qabs (x - y)) tol && vclose tol s t
  | _, _ => false
  end.

Definition gt_of (z : Z) : gtype :=
  match z with
  | 0%Z => GNone | 1%Z => GSgd | 2%Z => GAdagrad | 3%Z => GRmsprop | 4%Z => GRmspropN
  | 5%Z => GSqrtN | _ => GAdagradN
  end.

(* Distributed Shampoo: model update (closed-form graft step from the integer history, combined with
   the implementation's own preconditioned gradient pg) vs the observed update u *)
Definition chk_ds (gt : Z) (beta2 deps : Q) (skip : bool) (step start : Z)
           (hist : list vec) (g pg u : vec) (exact : bool) : bool :=
  let s := map Qred (ds_graft_step nrmA qsqrt (gt_of gt) beta2 deps hist g) in
  let m := ds_update nrmA (gt =? 0)%Z skip step start s (if skip then s else pg) in
  vclose (if exact then 0 else tau32 * vmaxabs m) m u.

(* Tearfree: graft 1 = sgd, 2 = rmsprop, 3 = oracle (adafactor: graft step observed from optax) *)
Definition chk_tf (graft : Z) (b e : Q) (masked : bool) (count start : Z)
           (hist : list vec) (g base u s_oracle : vec) (exact : bool) : bool :=
  let s := match graft with
           | 1%Z => g
           | 2%Z => map Qred (tf_rms_step nrmA rsqA b e hist g)
           | _ => s_oracle
           end in
  let m := tf_update nrmA masked count start s (if masked then s else base) in
  vclose (if exact then 0 else tau32 * vmaxabs m) m u.

(* the theorems' conclusions evaluated on observed data (norm identity / non-negative multiple) *)
Definition chk_ds_norm (s p u : vec) : bool :=
  Qle_bool (Qabs (nrmA u * (nrmA p + eps) - nrmA s * nrmA p)) (tau32 * (nrmA s * nrmA p)).
