(* The translated source of tearfree's maybe_graft is the model's tf_update (for every norm oracle). *)
From Coq Require Import QArith List ZArith.
From Precond Require Import Base.PyLib Base.QMat Base.PyFloat.
From Precond Require Import C05.Model.
From Precond Require C05.Ref.
Open Scope Q_scope.

Lemma Qmult_comm_eq (a b : Q) : Qmult a b = Qmult b a.
Proof. unfold Qmult. f_equal; [apply Z.mul_comm | apply Pos.mul_comm]. Qed.

Lemma vs_mul_scale (v : list Q) (m : Q) : vs_mul v m = scale m v.
Proof. unfold vs_mul, scale. apply map_ext. intros a. apply Qmult_comm_eq. Qed.

Lemma Qltb_dec (a b : Q) : Qltb a b = if Qlt_le_dec a b then true else false.
Proof. reflexivity. Qed.

Theorem maybe_graft_is_model (nrm : list Q -> Q) (masked : bool) (count start : Z) (s base : list Q) :
  length s = length base ->
  Ref.tf_maybe_graft nrm masked count start s base = Some (tf_update nrm masked count start s base).
Proof.
  intros Hl. unfold Ref.tf_maybe_graft, tf_update, tf_multiplier.
  destruct masked; [reflexivity|].
  rewrite Hl, Nat.eqb_refl.
  rewrite Z.geb_leb.
  destruct (start <=? count)%Z; [|reflexivity].
  rewrite vs_mul_scale. unfold Qltb.
  change (0 # 1) with 0.
  destruct (Qlt_le_dec 0 (nrm base)); reflexivity.
Qed.

(* masked (skipped) leaves get the graft step whatever the shapes *)
Theorem maybe_graft_masked (nrm : list Q -> Q) (count start : Z) (s base : list Q) :
  Ref.tf_maybe_graft nrm true count start s base = Some s.
Proof. reflexivity. Qed.

(* a shape mismatch is rejected (the source's assert) *)
Theorem maybe_graft_shape_mismatch (nrm : list Q -> Q) (count start : Z) (s base : list Q) :
  length s <> length base -> Ref.tf_maybe_graft nrm false count start s base = None.
Proof.
  intros H. unfold Ref.tf_maybe_graft. apply Nat.eqb_neq in H. rewrite H. reflexivity.
Qed.
