(* C05/Proofs.v — grafting transplants only the norm.  For every norm oracle meeting sqrt_spec, all
   vectors of any dimension, all histories.  Only ordered-field reasoning (squares are injective on
   the non-negatives); no analysis, no axioms. *)
From Coq Require Import ZArith QArith Qabs Qpower Lqa List Bool Lia.
From Precond Require Import C05.Model.
Import ListNotations.
Open Scope Q_scope.

(* ---- elementary vector algebra --------------------------------------------------------------- *)
Lemma dot_cons x s y t : dot (x :: s) (y :: t) = x * y + dot s t.
Proof. reflexivity. Qed.

Lemma scale_cons c x s : scale c (x :: s) = c * x :: scale c s.
Proof. reflexivity. Qed.

Lemma dot_scale c v : dot (scale c v) (scale c v) == c * c * dot v v.
Proof.
  induction v as [|x t IH]; [simpl; ring|].
  rewrite scale_cons, !dot_cons, IH. ring.
Qed.

Lemma dot_veq a b : veq a b -> dot a a == dot b b.
Proof.
  induction 1 as [|x y s t Hxy _ IH]; [reflexivity|].
  rewrite !dot_cons, IH, Hxy. reflexivity.
Qed.

Lemma dot_self_nonneg v : 0 <= dot v v.
Proof. induction v as [|x t IH]; [simpl; lra|]. rewrite dot_cons. nra. Qed.

Lemma dot_self_zero v : dot v v == 0 -> vzero v.
Proof.
  induction v as [|x t IH]; intro H; [constructor|].
  rewrite dot_cons in H. pose proof (dot_self_nonneg t).
  assert (Hx : x * x == 0) by nra. assert (Ht : dot t t == 0) by nra.
  constructor; [nra | apply IH; exact Ht].
Qed.

Lemma veq_refl v : veq v v.
Proof. induction v; constructor; [reflexivity | assumption]. Qed.

Lemma veq_sym a b : veq a b -> veq b a.
Proof. induction 1; constructor; [symmetry; assumption | assumption]. Qed.

Lemma veq_trans a b c : veq a b -> veq b c -> veq a c.
Proof.
  intro H; revert c; induction H as [|x y s t Hxy _ IH]; intros c Hc; inversion Hc; subst;
    constructor; [etransitivity; eassumption | apply IH; assumption].
Qed.

Lemma scale_veq c1 c2 v : c1 == c2 -> veq (scale c1 v) (scale c2 v).
Proof.
  intro H. induction v as [|x t IH]; [constructor|].
  rewrite !scale_cons. constructor; [rewrite H; reflexivity | exact IH].
Qed.

Lemma scale_scale a b v : veq (scale a (scale b v)) (scale (a * b) v).
Proof.
  induction v as [|x t IH]; [constructor|].
  rewrite !scale_cons. constructor; [ring | exact IH].
Qed.

Lemma scale_one v : veq (scale 1 v) v.
Proof. induction v as [|x t IH]; [constructor|]. rewrite scale_cons. constructor; [ring | exact IH]. Qed.

Lemma scale_zero_l c v : c == 0 -> vzero (scale c v).
Proof.
  intro H. induction v as [|x t IH]; [constructor|]. rewrite scale_cons.
  constructor; [rewrite H; ring | exact IH].
Qed.

Lemma scale_vzero c v : vzero v -> vzero (scale c v).
Proof.
  induction 1 as [|x t Hx _ IH]; [constructor|]. rewrite scale_cons.
  constructor; [rewrite Hx; ring | exact IH].
Qed.

Lemma scale_length c v : length (scale c v) = length v.
Proof. apply map_length. Qed.

(* blend with run_shampoo in {0, 1} is a selection *)
Lemma blend_one a b : length a = length b -> veq (blend 1 a b) a.
Proof.
  revert b; induction a as [|x s IH]; intros [|y t] H; simpl in H; try discriminate; [constructor|].
  unfold blend in *. rewrite !scale_cons. simpl vadd. constructor; [ring | apply IH; lia].
Qed.

Lemma blend_zero a b : length a = length b -> veq (blend 0 a b) b.
Proof.
  revert b; induction a as [|x s IH]; intros [|y t] H; simpl in H; try discriminate; [constructor|].
  unfold blend in *. rewrite !scale_cons. simpl vadd. constructor; [ring | apply IH; lia].
Qed.

(* squares are injective on the non-negatives of an ordered field *)
Lemma sq_inj a b : 0 <= a -> 0 <= b -> a * a == b * b -> a == b.
Proof. intros Ha Hb H. nra. Qed.

Lemma eps_pos : 0 < eps.
Proof. reflexivity. Qed.

(* ---- consequences of sqrt_spec for the norm oracle ------------------------------------------- *)
(* NOTE on satisfiability.  Over Q no function satisfies sqrt_spec at EVERY vector (|(1,1)| is
   irrational), so a global hypothesis "forall v, sqrt_spec (nrm v) (v.v)" would make every theorem
   vacuous.  Each statement therefore assumes the spec only AT THE VECTORS IT MENTIONS
   ([spec_at nrm v]); these hypotheses are jointly satisfiable whenever the graft step and the
   preconditioned gradient have rational norms (Example ds_hypotheses_satisfiable below).  The
   proofs use ordered-field reasoning only (field / nra), so they read verbatim over the reals. *)
Section Norm.
  Variable nrm : vec -> Q.

  Lemma nrm_veq a b : spec_at nrm a -> spec_at nrm b -> veq a b -> nrm a == nrm b.
  Proof.
    intros [Ha1 Ha2] [Hb1 Hb2] H. apply sq_inj; try assumption. rewrite Ha2, Hb2. apply dot_veq. exact H.
  Qed.

  (* homogeneity *)
  Lemma nrm_scale c v : spec_at nrm v -> spec_at nrm (scale c v) -> nrm (scale c v) == Qabs c * nrm v.
  Proof.
    intros [Hv1 Hv2] [Hs1 Hs2].
    apply sq_inj.
    - exact Hs1.
    - pose proof (Qabs_nonneg c). nra.
    - rewrite Hs2, dot_scale.
      assert (Hc : Qabs c * Qabs c == c * c).
      { destruct (Qlt_le_dec c 0) as [Hn|Hp].
        - rewrite Qabs_neg by lra. ring.
        - rewrite Qabs_pos by lra. ring. }
      transitivity (Qabs c * Qabs c * (nrm v * nrm v)); [|ring].
      rewrite Hc, Hv2. reflexivity.
  Qed.

  Lemma nrm_scale_nonneg c v : spec_at nrm v -> spec_at nrm (scale c v) -> 0 <= c ->
    nrm (scale c v) == c * nrm v.
  Proof. intros Hv Hs H. rewrite nrm_scale, Qabs_pos by assumption. reflexivity. Qed.

  Lemma nrm_zero_iff v : spec_at nrm v -> (nrm v == 0 <-> vzero v).
  Proof.
    intros [Hv1 Hv2]. split; intro H.
    - apply dot_self_zero. rewrite <- Hv2, H. ring.
    - apply sq_inj; [exact Hv1 | lra |]. rewrite Hv2.
      clear Hv1 Hv2. induction H as [|x t Hx _ IH]; [reflexivity|]. rewrite dot_cons, IH, Hx. ring.
  Qed.

  (* ---- Distributed Shampoo --------------------------------------------------------------------- *)
  Lemma ds_multiplier_nonneg s p : spec_at nrm s -> spec_at nrm p -> 0 <= ds_multiplier nrm s p.
  Proof.
    intros [Hs _] [Hp _]. unfold ds_multiplier. pose proof eps_pos.
    apply Qle_shift_div_l; lra.
  Qed.

  Lemma ds_graft_direction_l s p : spec_at nrm s -> spec_at nrm p ->
    exists c, 0 <= c /\ ds_graft nrm s p = scale c p.
  Proof.
    intros Hs Hp. exists (ds_multiplier nrm s p). split; [apply ds_multiplier_nonneg; assumption | reflexivity].
  Qed.

  Lemma ds_graft_norm_l s p : spec_at nrm s -> spec_at nrm p -> spec_at nrm (ds_graft nrm s p) ->
    nrm (ds_graft nrm s p) * (nrm p + eps) == nrm s * nrm p.
  Proof.
    intros Hs Hp Hu. unfold ds_graft in *.
    rewrite nrm_scale_nonneg by (try assumption; apply ds_multiplier_nonneg; assumption).
    unfold ds_multiplier. destruct Hp as [Hp _]. pose proof eps_pos. field. lra.
  Qed.

  Lemma ds_norm_deficit_l s p : spec_at nrm s -> spec_at nrm p -> spec_at nrm (ds_graft nrm s p) ->
    nrm s - nrm (ds_graft nrm s p) == nrm s * eps / (nrm p + eps).
  Proof.
    intros Hs Hp Hu. unfold ds_graft in *.
    rewrite nrm_scale_nonneg by (try assumption; apply ds_multiplier_nonneg; assumption).
    unfold ds_multiplier. destruct Hp as [Hp _]. pose proof eps_pos. field. lra.
  Qed.

  Lemma ds_graft_zero_l s p : vzero p -> vzero (ds_graft nrm s p).
  Proof. intro H. unfold ds_graft. apply scale_vzero. exact H. Qed.

  (* the norm of the update never exceeds the graft norm *)
  Lemma ds_graft_norm_le s p : spec_at nrm s -> spec_at nrm p -> spec_at nrm (ds_graft nrm s p) ->
    nrm (ds_graft nrm s p) <= nrm s.
  Proof.
    intros Hs Hp Hu. pose proof (ds_norm_deficit_l s p Hs Hp Hu) as H.
    destruct Hs as [Hs _]. destruct Hp as [Hp _]. pose proof eps_pos.
    assert (0 <= nrm s * eps / (nrm p + eps)).
    { apply Qle_shift_div_l; [lra|]. nra. }
    lra.
  Qed.

  Lemma ds_before_start_l gn skip step start s pg : (step < start)%Z -> length pg = length s ->
    veq (ds_update nrm gn skip step start s pg) s.
  Proof.
    intros Hlt Hlen. unfold ds_update, run_shampoo. cbv zeta.
    destruct (Z.leb_spec start step); [lia|].
    apply blend_zero. rewrite scale_length. destruct skip; [reflexivity | exact Hlen].
  Qed.

  Lemma ds_from_start_l step start s pg : (start <= step)%Z -> length pg = length s ->
    veq (ds_update nrm false false step start s pg) (ds_graft nrm s pg).
  Proof.
    intros Hle Hlen. unfold ds_update, run_shampoo. cbv zeta.
    destruct (Z.leb_spec start step); [|lia].
    unfold ds_graft. apply blend_one. rewrite scale_length. exact Hlen.
  Qed.

  Lemma ds_from_start_none_l step start s pg : (start <= step)%Z -> length pg = length s ->
    veq (ds_update nrm true false step start s pg) pg.
  Proof.
    intros Hle Hlen. unfold ds_update, run_shampoo. cbv zeta.
    destruct (Z.leb_spec start step); [|lia].
    eapply veq_trans; [apply blend_one; rewrite scale_length; exact Hlen | apply scale_one].
  Qed.

  (* skipped parameter from the start step on: the graft step times |s| / (|s| + eps) *)
  Lemma ds_skipped_l step start s pg : (start <= step)%Z ->
    veq (ds_update nrm false true step start s pg) (scale (nrm s / (nrm s + eps)) s).
  Proof.
    intros Hle. unfold ds_update, run_shampoo. cbv zeta.
    destruct (Z.leb_spec start step); [|lia].
    apply blend_one. rewrite scale_length. reflexivity.
  Qed.

  Lemma ds_skipped_none_l step start s pg : veq (ds_update nrm true true step start s pg) s.
  Proof.
    unfold ds_update, run_shampoo. cbv zeta.
    destruct (Z.leb_spec start step).
    - eapply veq_trans; [apply blend_one; rewrite scale_length; reflexivity | apply scale_one].
    - apply blend_zero. rewrite scale_length. reflexivity.
  Qed.

  (* ---- Tearfree ------------------------------------------------------------------------------ *)
  Lemma tf_multiplier_nonneg s b : spec_at nrm s -> 0 <= tf_multiplier nrm s b.
  Proof.
    intros [Hs _]. unfold tf_multiplier. destruct (Qlt_le_dec 0 (nrm b)) as [H|H]; [|lra].
    apply Qle_shift_div_l; lra.
  Qed.

  Lemma tf_graft_direction_l count start s b : spec_at nrm s -> (start <= count)%Z ->
    exists c, 0 <= c /\ tf_update nrm false count start s b = scale c b.
  Proof.
    intros Hs H. exists (tf_multiplier nrm s b). split; [apply tf_multiplier_nonneg; assumption|].
    unfold tf_update. destruct (Z.leb_spec start count); [reflexivity | lia].
  Qed.

  Lemma tf_graft_norm_exact_l count start s b :
    spec_at nrm s -> spec_at nrm b -> spec_at nrm (tf_update nrm false count start s b) ->
    (start <= count)%Z -> 0 < nrm b ->
    nrm (tf_update nrm false count start s b) == nrm s.
  Proof.
    intros Hs Hb Hu H Hpos. unfold tf_update in *. destruct (Z.leb_spec start count); [|lia].
    rewrite nrm_scale_nonneg by (try assumption; apply tf_multiplier_nonneg; assumption).
    unfold tf_multiplier. destruct (Qlt_le_dec 0 (nrm b)); [|lra]. field. lra.
  Qed.

  Lemma tf_graft_zero_l count start s b : (start <= count)%Z -> vzero b ->
    vzero (tf_update nrm false count start s b).
  Proof.
    intros H Hb. unfold tf_update. destruct (Z.leb_spec start count); [|lia].
    apply scale_vzero. exact Hb.
  Qed.

  Lemma tf_before_start_l masked count start s b : (count < start)%Z ->
    tf_update nrm masked count start s b = s.
  Proof.
    intro H. unfold tf_update. destruct masked; [reflexivity|].
    destruct (Z.leb_spec start count); [lia | reflexivity].
  Qed.

  Lemma tf_masked_l count start s b : tf_update nrm true count start s b = s.
  Proof. reflexivity. Qed.
End Norm.

(* the hypotheses of the norm theorems are jointly satisfiable (graft step (3,4), preconditioned
   gradient (6,8): norms 5, 10 and 50/(10+eps)), with a non-zero preconditioned gradient *)
Definition nrm_example (v : vec) : Q :=
  match v with
  | [a; _] => if Qeq_bool a 3 then 5 else if Qeq_bool a 6 then 10 else 50 / (10 + eps)
  | _ => 0
  end.

Lemma ds_hypotheses_satisfiable_l :
  exists nrm s p, spec_at nrm s /\ spec_at nrm p /\ spec_at nrm (ds_graft nrm s p) /\ 0 < nrm p.
Proof.
  exists nrm_example, [3; 4], [6; 8].
  unfold spec_at, sqrt_spec. repeat split; vm_compute; try reflexivity; try discriminate.
Qed.

(* ---- closed forms of the accumulators, over ALL histories ------------------------------------- *)
Definition all_len (n : nat) (hist : list vec) : Prop := Forall (fun g => length g = n) hist.

Lemma vmap2_length f a b : length a = length b -> length (vmap2 f a b) = length a.
Proof.
  revert b; induction a as [|x s IH]; intros [|y t] H; simpl in *; try discriminate; [reflexivity|].
  f_equal. apply IH. lia.
Qed.

Lemma nth_vmap2 f a b k : length a = length b -> (k < length a)%nat ->
  nth k (vmap2 f a b) 0 = f (nth k a 0) (nth k b 0).
Proof.
  revert b k; induction a as [|x s IH]; intros [|y t] k H Hk; simpl in *; try discriminate; [lia|].
  destruct k as [|k]; [reflexivity|]. apply IH; lia.
Qed.

Lemma nth_zeros n k : nth k (zeros n) 0 = 0.
Proof. unfold zeros. revert k; induction n as [|n IH]; intros [|k]; simpl; auto. Qed.

Lemma zeros_length n : length (zeros n) = n.
Proof. apply repeat_length. Qed.

Section Closed.
  Variable nrm : vec -> Q.

  Lemma scaled_length nz g : length (scaled nrm nz g) = length g.
  Proof. unfold scaled. destruct nz; [apply map_length | reflexivity]. Qed.

  Lemma acc_fold_length w1 w2 nz hist acc n : all_len n hist -> length acc = n ->
    length (fold_left (fun a g => acc_update w1 w2 a (scaled nrm nz g)) hist acc) = n.
  Proof.
    revert acc; induction hist as [|g t IH]; intros acc Hh Ha; [exact Ha|].
    inversion Hh; subst. simpl. apply IH; [assumption|].
    unfold acc_update. rewrite vmap2_length; [reflexivity|]. rewrite scaled_length. congruence.
  Qed.

  (* generalised invariant: starting from any accumulator *)
  Lemma acc_fold_closed w1 w2 nz hist : forall acc n k, all_len n hist -> length acc = n -> (k < n)%nat ->
    nth k (fold_left (fun a g => acc_update w1 w2 a (scaled nrm nz g)) hist acc) 0 ==
    Qpower w1 (Z.of_nat (length hist)) * nth k acc 0 +
    acc_closed w1 w2 (map (fun g => nth k (scaled nrm nz g) 0) hist).
  Proof.
    induction hist as [|g t IH]; intros acc n k Hh Ha Hk.
    - simpl. ring.
    - inversion Hh as [|g' t' Hg Ht]; subst g' t'. cbn [fold_left map acc_closed].
      assert (Hl : length (acc_update w1 w2 acc (scaled nrm nz g)) = n).
      { unfold acc_update. rewrite vmap2_length; [exact Ha|]. rewrite scaled_length. congruence. }
      rewrite (IH _ n k Ht Hl Hk).
      unfold acc_update at 1. rewrite nth_vmap2 by (rewrite ?scaled_length; congruence).
      rewrite map_length.
      replace (Z.of_nat (length (g :: t))) with (Z.of_nat (length t) + 1)%Z by (simpl length; lia).
      rewrite Qpower_plus' by lia. simpl (Qpower w1 1). ring.
  Qed.

  Lemma acc_after_closed w1 w2 nz hist n k : all_len n hist -> (k < n)%nat ->
    nth k (acc_after nrm w1 w2 nz hist n) 0 ==
    acc_closed w1 w2 (map (fun g => nth k (scaled nrm nz g) 0) hist).
  Proof.
    intros Hh Hk. unfold acc_after.
    rewrite (acc_fold_closed w1 w2 nz hist (zeros n) n k Hh (zeros_length n) Hk).
    rewrite nth_zeros. ring.
  Qed.
End Closed.

(* each coordinate of each graft step, in closed form over the whole history *)
Section StepClosed.
  Variable nrm : vec -> Q.
  Variable sq : Q -> Q.
  Variable rsq : Q -> Q.

  Definition coord_hist (nz : bool) (k : nat) (all : list vec) : list Q :=
    map (fun g => nth k (scaled nrm nz g) 0) all.

  Lemma all_len_snoc n hist g : all_len n hist -> length g = n -> all_len n (hist ++ [g]).
  Proof. intros H Hg. apply Forall_app. split; [exact H | constructor; [exact Hg | constructor]]. Qed.

  Lemma diag_closed w1 w2 nz deps hist g k : all_len (length g) hist -> (k < length g)%nat ->
    nth k (diag_step sq deps (acc_after nrm w1 w2 nz (hist ++ [g]) (length g)) (scaled nrm nz g)) 0 ==
    nth k (scaled nrm nz g) 0 / (sq (nth k (acc_after nrm w1 w2 nz (hist ++ [g]) (length g)) 0) + deps).
  Proof.
    intros Hh Hk. unfold diag_step.
    rewrite nth_vmap2; [reflexivity | |].
    - unfold acc_after. rewrite acc_fold_length with (n := length g);
        [rewrite scaled_length; reflexivity | apply all_len_snoc; [exact Hh | reflexivity] | apply zeros_length].
    - unfold acc_after. rewrite acc_fold_length with (n := length g);
        [exact Hk | apply all_len_snoc; [exact Hh | reflexivity] | apply zeros_length].
  Qed.

  Hypothesis sq_compat : forall a b, a == b -> sq a == sq b.

  (* AdaGrad / RMSProp and their normalised variants: coordinate k of the graft step is
     x_k / (sqrt(sum_s w2 w1^(T-s) x_{s,k}^2) + diagonal_epsilon),  x = (scaled) gradient *)
  Theorem ds_diag_step_closed_l w1 w2 nz deps hist g k : all_len (length g) hist -> (k < length g)%nat ->
    nth k (diag_step sq deps (acc_after nrm w1 w2 nz (hist ++ [g]) (length g)) (scaled nrm nz g)) 0 ==
    nth k (scaled nrm nz g) 0 / (sq (acc_closed w1 w2 (coord_hist nz k (hist ++ [g]))) + deps).
  Proof.
    intros Hh Hk. rewrite diag_closed by assumption.
    assert (E : nth k (acc_after nrm w1 w2 nz (hist ++ [g]) (length g)) 0 ==
                acc_closed w1 w2 (coord_hist nz k (hist ++ [g]))).
    { apply acc_after_closed; [apply all_len_snoc; [exact Hh | reflexivity] | exact Hk]. }
    rewrite (sq_compat _ _ E). reflexivity.
  Qed.
End StepClosed.

(* Tearfree RMSProp: coordinate k is g_k * rsqrt(sum_s w2 w1^(T-s) g_{s,k}^2 + epsilon) *)
Section TfClosed.
  Variable nrm : vec -> Q.
  Variable rsq : Q -> Q.
  Hypothesis rsq_compat : forall a b, a == b -> rsq a == rsq b.

  Theorem tf_rms_step_closed_l b e hist g k : all_len (length g) hist -> (k < length g)%nat ->
    nth k (tf_rms_step nrm rsq b e hist g) 0 ==
    nth k g 0 * rsq (acc_closed (fst (tf_w b)) (snd (tf_w b)) (coord_hist nrm false k (hist ++ [g])) + e).
  Proof.
    intros Hh Hk. unfold tf_rms_step. destruct (tf_w b) as [w1 w2]. cbn [fst snd].
    assert (Hl : length (acc_after nrm w1 w2 false (hist ++ [g]) (length g)) = length g).
    { unfold acc_after. apply acc_fold_length; [apply all_len_snoc; [exact Hh | reflexivity] | apply zeros_length]. }
    rewrite nth_vmap2; [| exact Hl | unfold vec in *; lia].
    assert (E : nth k (acc_after nrm w1 w2 false (hist ++ [g]) (length g)) 0 + e ==
                acc_closed w1 w2 (coord_hist nrm false k (hist ++ [g])) + e).
    { rewrite (acc_after_closed nrm w1 w2 false (hist ++ [g]) (length g) k);
        [reflexivity | apply all_len_snoc; [exact Hh | reflexivity] | exact Hk]. }
    rewrite (rsq_compat _ _ E). reflexivity.
  Qed.
End TfClosed.

(* ---- per graft type (instances of the above, stated on ds_graft_step) --------------------------- *)
Lemma graft_step_sgd_l nrm sq b d hist g :
  ds_graft_step nrm sq GSgd b d hist g = g /\ ds_graft_step nrm sq GNone b d hist g = g.
Proof. split; reflexivity. Qed.

Lemma graft_step_sign_l nrm sq b d hist g : ds_graft_step nrm sq GSqrtN b d hist g = map sgn g.
Proof. reflexivity. Qed.

Lemma graft_step_adagrad_l nrm sq : (forall a b, a == b -> sq a == sq b) ->
  forall beta2 deps hist g k, all_len (length g) hist -> (k < length g)%nat ->
  nth k (ds_graft_step nrm sq GAdagrad beta2 deps hist g) 0 ==
  nth k g 0 / (sq (acc_closed 1 1 (coord_hist nrm false k (hist ++ [g]))) + deps).
Proof. intros H b d hist g k. exact (ds_diag_step_closed_l nrm sq H 1 1 false d hist g k). Qed.

Lemma graft_step_rmsprop_l nrm sq : (forall a b, a == b -> sq a == sq b) ->
  forall beta2 deps hist g k, all_len (length g) hist -> (k < length g)%nat ->
  nth k (ds_graft_step nrm sq GRmsprop beta2 deps hist g) 0 ==
  nth k g 0 / (sq (acc_closed beta2 (rms_w2 beta2) (coord_hist nrm false k (hist ++ [g]))) + deps).
Proof. intros H b d hist g k. exact (ds_diag_step_closed_l nrm sq H b (rms_w2 b) false d hist g k). Qed.

Lemma graft_step_adagrad_normalized_l nrm sq : (forall a b, a == b -> sq a == sq b) ->
  forall beta2 deps hist g k, all_len (length g) hist -> (k < length g)%nat ->
  nth k (ds_graft_step nrm sq GAdagradN beta2 deps hist g) 0 ==
  nth k (scaled nrm true g) 0 / (sq (acc_closed 1 1 (coord_hist nrm true k (hist ++ [g]))) + deps).
Proof. intros H b d hist g k. exact (ds_diag_step_closed_l nrm sq H 1 1 true d hist g k). Qed.

Lemma graft_step_rmsprop_normalized_l nrm sq : (forall a b, a == b -> sq a == sq b) ->
  forall beta2 deps hist g k, all_len (length g) hist -> (k < length g)%nat ->
  nth k (ds_graft_step nrm sq GRmspropN beta2 deps hist g) 0 ==
  nth k (scaled nrm true g) 0 /
  (sq (acc_closed beta2 (rms_w2 beta2) (coord_hist nrm true k (hist ++ [g]))) + deps).
Proof. intros H b d hist g k. exact (ds_diag_step_closed_l nrm sq H b (rms_w2 b) true d hist g k). Qed.
