(* Stable copy of the translator output for distributed_shampoo.preconditioning_compute_steps_schedule;
   compared with the regenerated gen/C04/Gen.v on every run (GenEq obligation). *)
From Precond Require Import Base.PyLib Base.QMat Base.PyFloat.
From Coq Require Import Qround.
Open Scope Q_scope.

Definition compute_steps_schedule (base_lr_ : Q) (lr_ : Q) (start_preconditioning_compute_steps : Z) (end_preconditioning_compute_steps : Z) : Q :=
(let base_lr := base_lr_ in
(let lr := lr_ in
(let decay_factor := (Qdiv lr base_lr) in
(let preconditioning_compute_steps_t := (Qplus (inject_Z start_preconditioning_compute_steps) (Qmult (Qminus (inject_Z 1) decay_factor) (inject_Z end_preconditioning_compute_steps))) in
(Qmax (Qmult (inject_Z (Qfloor (Qdiv preconditioning_compute_steps_t (inject_Z 10)))) (inject_Z 10)) (inject_Z 1)))))).
