(* The translated source of preconditioning_compute_steps_schedule computes exactly the model's
   integer formula C04.Model.sched_interval whenever the learning-rate ratio lr(t)/lr(0) is the
   rational num/den. *)
From Coq Require Import ZArith QArith Qround Qminmax Lia.
From Precond Require Import Base.PyLib Base.QMat Base.PyFloat.
From Precond Require Import C04.Model C04.Ref.
Open Scope Q_scope.

Lemma Qfloor_make (a : Z) (b : positive) : Qfloor (a # b) = (a / Z.pos b)%Z.
Proof. reflexivity. Qed.

Lemma Qmax_inject (a b : Z) : Qmax (inject_Z a) (inject_Z b) == inject_Z (Z.max a b).
Proof.
  destruct (Z.le_ge_cases a b) as [H|H].
  - rewrite Z.max_r by exact H. apply Q.max_r. rewrite <- Zle_Qle. exact H.
  - rewrite Z.max_l by exact H. apply Q.max_l. rewrite <- Zle_Qle. exact H.
Qed.

Lemma sched_arg (start end_ num : Z) (den : positive) (r : Q) :
  r == num # den ->
  (inject_Z start + (inject_Z 1 - r) * inject_Z end_) / inject_Z 10
  == (start * Z.pos den + (Z.pos den - num) * end_) # (10 * den).
Proof.
  intros Hr. rewrite Hr. unfold Qeq, Qdiv, Qmult, Qplus, Qminus, Qopp, Qinv, inject_Z.
  cbn -[Z.add Z.mul Z.sub Z.opp Pos.mul]. lia.
Qed.

Theorem schedule_is_model (base lr : Q) (start end_ num : Z) (den : positive) :
  lr / base == num # den ->
  compute_steps_schedule base lr start end_
  == inject_Z (sched_interval start end_ num (Z.pos den)).
Proof.
  intros Hr. unfold compute_steps_schedule, sched_interval. cbv zeta.
  rewrite (Qfloor_comp _ _ (sched_arg start end_ num den _ Hr)).
  rewrite Qfloor_make.
  rewrite <- inject_Z_mult.
  rewrite Qmax_inject.
  replace (Z.pos (10 * den)) with (10 * Z.pos den)%Z by lia.
  reflexivity.
Qed.

(* non-vacuity: a half-decayed learning rate, start 20, end 100 -> ((20 + 50) // 10) * 10 = 70 *)
Example schedule_example :
  compute_steps_schedule (1#10) (1#20) 20 100 == inject_Z 70
  /\ sched_interval 20 100 1 2 = 70%Z.
Proof. split; vm_compute; reflexivity. Qed.
