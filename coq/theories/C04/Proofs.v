(* C04/Proofs.v — cadence automaton: per-step laws, invariant over all runs (any statistics
   interval s > 0, any positive — possibly step-dependent — preconditioner interval, any horizon),
   closed forms for fixed intervals, the scheduled-interval formula, the warm-up switch. *)
From Precond Require Import Base.PyLib C04.Model.
From Coq Require Import ZifyBool QArith Lqa.
Open Scope Z_scope.

(* ---------- one step ---------- *)
Lemma count_step s p x : count (sched_step s p x) = count x + 1.
Proof. reflexivity. Qed.

Lemma stats_step s p x :
  stats_ver (sched_step s p x) = if is_multiple (count x) s then count x else stats_ver x.
Proof. reflexivity. Qed.

Lemma precond_ver_step s p x :
  precond_ver (sched_step s p x) = if is_multiple (count x) p then count x else precond_ver x.
Proof. reflexivity. Qed.

Lemma precond_src_step s p x :
  precond_src (sched_step s p x) =
  if is_multiple (count x) p then stats_ver (sched_step s p x) else precond_src x.
Proof. reflexivity. Qed.

Lemma metrics_step s p x :
  metrics_ver (sched_step s p x) = if is_multiple (count x) p then count x else metrics_ver x.
Proof. reflexivity. Qed.

(* reachable-state invariant *)
Definition Inv (x : st) : Prop :=
  0 <= count x /\
  -1 <= stats_ver x < count x /\
  -1 <= precond_ver x < count x /\
  -2 <= precond_src x <= stats_ver x /\
  (precond_ver x = -1 -> precond_src x = -2) /\
  (0 <= precond_ver x -> 0 <= precond_src x <= precond_ver x) /\
  metrics_ver x = precond_ver x /\
  (stats_ver x = -1 -> count x = 0).

Lemma Inv_init : Inv init_st.
Proof. unfold Inv, init_st; simpl. lia. Qed.

Lemma Inv_step s p x : Inv x -> Inv (sched_step s p x).
Proof.
  unfold Inv. intros (H0 & H1 & H2 & H3 & H4 & H5 & H6 & H7).
  unfold sched_step, is_multiple. cbn [count stats_ver precond_ver precond_src metrics_ver].
  destruct (Z.eq_dec (count x) 0) as [C0|C0].
  - rewrite C0, !Zmod_0_l. cbn. lia.
  - destruct (count x mod s =? 0); destruct (count x mod p =? 0); lia.
Qed.

Lemma Inv_run_from s pf n : forall x, Inv x -> Inv (run_from s pf n x).
Proof.
  induction n as [|n IH]; intros x H; [exact H|].
  cbn [run_from]. apply IH. apply Inv_step. exact H.
Qed.

Lemma Inv_run s pf n : Inv (run s pf n).
Proof. apply Inv_run_from. apply Inv_init. Qed.

Lemma count_run_from s pf n : forall x, count (run_from s pf n x) = count x + Z.of_nat n.
Proof.
  induction n as [|n IH]; intro x; cbn [run_from]; [lia|].
  rewrite IH, count_step. lia.
Qed.

Lemma count_run s pf n : count (run s pf n) = Z.of_nat n.
Proof. unfold run. rewrite count_run_from. reflexivity. Qed.

(* statistics: change only on multiples of s, and do change on each *)
Lemma stats_change_iff s p x : Inv x ->
  (stats_ver (sched_step s p x) <> stats_ver x <-> count x mod s = 0).
Proof.
  intros (H0 & H1 & _). rewrite stats_step. unfold is_multiple.
  destruct (Z.eqb_spec (count x mod s) 0) as [E|E]; split; intro H; try lia; congruence.
Qed.

Lemma stats_written s p x : count x mod s = 0 -> stats_ver (sched_step s p x) = count x.
Proof. intro H. rewrite stats_step. unfold is_multiple. rewrite H. reflexivity. Qed.

Lemma stats_kept s p x : count x mod s <> 0 -> stats_ver (sched_step s p x) = stats_ver x.
Proof.
  intro H. rewrite stats_step. unfold is_multiple.
  destruct (Z.eqb_spec (count x mod s) 0); [contradiction|reflexivity].
Qed.

(* preconditioners and metrics: written only on multiples of p, and on each *)
Lemma precond_written_iff s p x : Inv x ->
  (precond_ver (sched_step s p x) <> precond_ver x <-> count x mod p = 0).
Proof.
  intros (H0 & H1 & H2 & _). rewrite precond_ver_step. unfold is_multiple.
  destruct (Z.eqb_spec (count x mod p) 0) as [E|E]; split; intro H; try lia; congruence.
Qed.

Lemma precond_kept s p x : count x mod p <> 0 ->
  precond_ver (sched_step s p x) = precond_ver x /\
  precond_src (sched_step s p x) = precond_src x /\
  metrics_ver (sched_step s p x) = metrics_ver x.
Proof.
  intro H. rewrite precond_ver_step, precond_src_step, metrics_step. unfold is_multiple.
  destruct (Z.eqb_spec (count x mod p) 0); [contradiction|]. auto.
Qed.

Lemma metrics_with_precond s pf n : metrics_ver (run s pf n) = precond_ver (run s pf n).
Proof. apply (Inv_run s pf n). Qed.

(* ordering: a refresh at step t is computed from the statistics as they are after the
   statistics update of the same step *)
Lemma refresh_uses_current_stats s p x : count x mod p = 0 ->
  precond_ver (sched_step s p x) = count x /\
  precond_src (sched_step s p x) = stats_ver (sched_step s p x).
Proof.
  intro H. rewrite precond_ver_step, precond_src_step. unfold is_multiple. rewrite H. auto.
Qed.

Lemma refresh_sees_same_step_stats s p x :
  count x mod p = 0 -> count x mod s = 0 -> precond_src (sched_step s p x) = count x.
Proof.
  intros Hp Hs. destruct (refresh_uses_current_stats s p x Hp) as [_ E].
  rewrite E. apply stats_written. exact Hs.
Qed.

(* the VALUE of the preconditioners changes exactly when a refresh sees new statistics *)
Lemma precond_value_changes_iff s p x :
  precond_src (sched_step s p x) <> precond_src x <->
  count x mod p = 0 /\ stats_ver (sched_step s p x) <> precond_src x.
Proof.
  rewrite precond_src_step. unfold is_multiple.
  destruct (Z.eqb_spec (count x mod p) 0) as [E|E]; split; intro H; try tauto; try lia.
Qed.

(* ---------- closed forms for fixed intervals ---------- *)
Lemma last_multiple_step k t : 0 < k -> 0 <= t ->
  k * (t / k) = if t mod k =? 0 then t else k * ((t - 1) / k).
Proof.
  intros Hk Ht. pose proof (Z.div_mod t k ltac:(lia)) as E.
  pose proof (Z.mod_pos_bound t k Hk) as B.
  destruct (Z.eqb_spec (t mod k) 0) as [Z0|NZ]; [lia|].
  f_equal. apply Z.div_unique with (r := t mod k - 1); [left; lia | lia].
Qed.

Lemma run_from_snoc s pf n : forall x,
  run_from s pf (S n) x =
  sched_step s (pf (count (run_from s pf n x))) (run_from s pf n x).
Proof.
  induction n as [|n IH]; intro x; [reflexivity|].
  change (run_from s pf (S (S n)) x) with (run_from s pf (S n) (sched_step s (pf (count x)) x)).
  rewrite IH. reflexivity.
Qed.

Lemma run_snoc s pf n :
  run s pf (S n) = sched_step s (pf (Z.of_nat n)) (run s pf n).
Proof. unfold run. rewrite run_from_snoc. fold (run s pf n). rewrite count_run. reflexivity. Qed.

(* after n+1 steps the statistics are those written at the last multiple of s that is <= n *)
Lemma stats_closed_form s pf n : 0 < s ->
  stats_ver (run s pf (S n)) = s * (Z.of_nat n / s).
Proof.
  intro Hs. induction n as [|n IH].
  - rewrite run_snoc. rewrite stats_step. unfold run; cbn [run_from count init_st].
    unfold is_multiple. rewrite Zmod_0_l. cbn. try rewrite Zdiv_0_l. lia.
  - rewrite run_snoc, stats_step, count_run, IH.
    rewrite (last_multiple_step s (Z.of_nat (S n))) by lia. unfold is_multiple.
    replace (Z.of_nat (S n) - 1) with (Z.of_nat n) by lia. reflexivity.
Qed.

Lemma precond_ver_closed_form s p n : 0 < p ->
  precond_ver (run s (fixed p) (S n)) = p * (Z.of_nat n / p).
Proof.
  intro Hp. induction n as [|n IH].
  - rewrite run_snoc. rewrite precond_ver_step. unfold run, fixed; cbn [run_from count init_st].
    unfold is_multiple. rewrite Zmod_0_l. cbn. try rewrite Zdiv_0_l. lia.
  - rewrite run_snoc, precond_ver_step, count_run, IH. unfold fixed at 1.
    rewrite (last_multiple_step p (Z.of_nat (S n))) by lia. unfold is_multiple.
    replace (Z.of_nat (S n) - 1) with (Z.of_nat n) by lia. reflexivity.
Qed.

Lemma precond_src_snoc s pf n :
  precond_src (run s pf (S n)) =
  if is_multiple (Z.of_nat n) (pf (Z.of_nat n)) then stats_ver (run s pf (S n))
  else precond_src (run s pf n).
Proof. rewrite !run_snoc. rewrite precond_src_step, count_run. reflexivity. Qed.

(* ... and the preconditioners are the root of the statistics written at the last multiple of s
   that is <= the last multiple of p that is <= n *)
Lemma precond_src_closed_form s p n : 0 < s -> 0 < p ->
  precond_src (run s (fixed p) (S n)) = s * ((p * (Z.of_nat n / p)) / s).
Proof.
  intros Hs Hp. induction n as [|n IH].
  - rewrite precond_src_snoc, stats_closed_form by exact Hs. unfold fixed, is_multiple.
    cbn. rewrite (Z.mul_0_r p), Zdiv_0_l. reflexivity.
  - rewrite precond_src_snoc, stats_closed_form by exact Hs. rewrite IH. unfold fixed.
    rewrite (last_multiple_step p (Z.of_nat (S n))) by lia. unfold is_multiple.
    replace (Z.of_nat (S n) - 1) with (Z.of_nat n) by lia.
    destruct (Z.of_nat (S n) mod p =? 0); reflexivity.
Qed.

(* ---------- scheduled interval ---------- *)
Lemma interval_ge_1_lemma start end_ num den : 1 <= sched_interval start end_ num den.
Proof. unfold sched_interval. lia. Qed.

Lemma interval_shape start end_ num den :
  sched_interval start end_ num den = 1 \/ sched_interval start end_ num den mod 10 = 0.
Proof.
  unfold sched_interval.
  destruct (Z.max_spec ((start * den + (den - num) * end_) / (10 * den) * 10) 1) as [[_ E]|[_ E]];
    rewrite E; [left; reflexivity | right; apply Z.mod_mul; lia].
Qed.

(* the integer formula is the floor of the rational expression of the docstring *)
Lemma interval_is_floor start end_ num den : 0 < den ->
  let v := (start * den + (den - num) * end_) in
  let q := v / (10 * den) in
  10 * den * q <= v < 10 * den * (q + 1).
Proof.
  intros Hd v q. subst q.
  pose proof (Z.div_mod v (10 * den) ltac:(lia)) as E.
  pose proof (Z.mod_pos_bound v (10 * den) ltac:(lia)) as B. lia.
Qed.

(* ---------- warm-up ---------- *)
Lemma ds_update_before start t a b : t < start -> (ds_update start t a b == b)%Q.
Proof.
  intro H. unfold ds_update, blend, run_shampoo_q, use_precond.
  replace (start <=? t) with false by lia. ring.
Qed.

Lemma ds_update_from start t a b : start <= t -> (ds_update start t a b == a)%Q.
Proof.
  intro H. unfold ds_update, blend, run_shampoo_q, use_precond.
  replace (start <=? t) with true by lia. ring.
Qed.

Lemma tf_update_before {U} start t (a b : U) : t < start -> tf_update start t a b = b.
Proof. intro H. unfold tf_update, use_precond. replace (start <=? t) with false by lia. reflexivity. Qed.

Lemma tf_update_from {U} start t (a b : U) : start <= t -> tf_update start t a b = a.
Proof. intro H. unfold tf_update, use_precond. replace (start <=? t) with true by lia. reflexivity. Qed.

Lemma selected_spec start t :
  (t < start -> selected start t = Graft) /\ (start <= t -> selected start t = Precond).
Proof.
  unfold selected, use_precond. split; intro H.
  - replace (start <=? t) with false by lia. reflexivity.
  - replace (start <=? t) with true by lia. reflexivity.
Qed.

(* ---------- sharded mode: one step lag in the USE of the preconditioners ---------- *)
Lemma sharded_lag s p x :
  used_src_sharded (sched_step s p x) = used_src_replicated s p x.
Proof. reflexivity. Qed.

Lemma sharded_first_step_uses_initial s pf : used_src_sharded (run s pf 0) = -2.
Proof. reflexivity. Qed.

Lemma replicated_every_step_fresh n : 
  used_src_replicated 1 1 (run 1 (fixed 1) n) = Z.of_nat n.
Proof.
  unfold used_src_replicated. rewrite precond_src_step, stats_step, count_run.
  unfold is_multiple. rewrite Z.mod_1_r. reflexivity.
Qed.

Lemma sharded_every_step_stale n :
  used_src_sharded (run 1 (fixed 1) (S n)) = Z.of_nat n.
Proof.
  rewrite run_snoc. unfold fixed at 1. rewrite sharded_lag. apply replicated_every_step_fresh.
Qed.

Lemma depends_on_stored_spec sharded start p x :
  depends_on_stored_precond sharded start p x = true <->
  start <= count x /\ (sharded = true \/ count x mod p <> 0).
Proof.
  unfold depends_on_stored_precond, use_precond, is_multiple.
  rewrite andb_true_iff, Z.leb_le.
  destruct sharded.
  - split; [intros [A _]; split; [exact A | left; reflexivity] | intros [A _]; split; [exact A | reflexivity]].
  - rewrite negb_true_iff, Z.eqb_neq.
    split; [intros [A B]; split; [exact A | right; exact B] |
            intros [A [B|B]]; [discriminate | split; assumption]].
Qed.
