(* C04/Model.v — executable model of the refresh cadence and of the warm-up switch
   (definitions only, no proofs).

   State of the automaton: the step counter and, for every component, the step at which it was
   last written ("version"); for the preconditioners additionally the version of the statistics
   they were computed from ([precond_src]), which is what decides whether a refresh changes their
   value (a root recomputed from unchanged statistics is bit-identical).

     distributed_shampoo.update_fn / sharded_update_fn:
        stats  : written iff count % statistics_compute_steps == 0            (_compute_stats)
        precond: written iff count % preconditioning_compute_steps_t == 0, from the statistics
                 as they are AFTER this step's statistics update                (_compute_preconditioners
                 runs on new_stats_flat; sharded: on new_stacked_padded_statistics)
        metrics: written together with the preconditioners
        count  : + 1
     tearfree.shampoo._update : the same two conditions (update_statistics_freq,
        update_preconditioners_freq), statistics cond first, roots cond second.
     tearfree.sketchy._update : one frequency for both (update_freq).
*)
From Precond Require Import Base.PyLib.
From Coq Require Import QArith.
Open Scope Z_scope.

Record st := mkst {
  count : Z;
  stats_ver : Z;
  precond_ver : Z;
  precond_src : Z;
  metrics_ver : Z }.

(* nothing has been computed yet: statistics are eps*I (version -1), preconditioners the
   initial identity, computed from nothing (source -2) *)
Definition init_st : st := mkst 0 (-1) (-1) (-2) (-1).

Definition is_multiple (t k : Z) : bool := t mod k =? 0.

(* one optimizer update with statistics interval s and preconditioner interval p (the value
   the interval has AT THIS STEP when it is scheduled) *)
Definition sched_step (s p : Z) (x : st) : st :=
  let t := count x in
  let sv := if is_multiple t s then t else stats_ver x in
  let refresh := is_multiple t p in
  mkst (t + 1) sv
       (if refresh then t else precond_ver x)
       (if refresh then sv else precond_src x)
       (if refresh then t else metrics_ver x).

(* run n steps; pf gives the preconditioner interval as a function of the step *)
Fixpoint run_from (s : Z) (pf : Z -> Z) (n : nat) (x : st) : st :=
  match n with
  | O => x
  | S n' => run_from s pf n' (sched_step s (pf (count x)) x)
  end.

Definition run (s : Z) (pf : Z -> Z) (n : nat) : st := run_from s pf n init_st.

(* preconditioning_compute_steps_schedule with decay_factor = lr(t)/lr(0) = num/den (den > 0):
     max( ((start + (1 - num/den) * end) // 10) * 10, 1 )                                   *)
Definition sched_interval (start end_ num den : Z) : Z :=
  Z.max (((start * den + (den - num) * end_) / (10 * den)) * 10) 1.

(* fixed interval *)
Definition fixed (p : Z) : Z -> Z := fun _ => p.

(* ---------- what is observable on the implementation, per step ---------- *)
(* bits for the step taken from state x:
     (count advanced by one, statistics value changed, preconditioner value changed,
      metrics changed, statistics depend on this step's gradient,
      preconditioners depend on this step's gradient) *)
Definition step_bits (s p : Z) (x : st) : list bool :=
  let y := sched_step s p x in
  [ count y =? count x + 1;
    negb (stats_ver y =? stats_ver x);
    negb (precond_src y =? precond_src x);
    negb (precond_src y =? precond_src x);
    stats_ver y =? count x;
    precond_src y =? count x ].

Fixpoint trace_from (s : Z) (pf : Z -> Z) (n : nat) (x : st) : list (list bool) :=
  match n with
  | O => []
  | S n' => step_bits s (pf (count x)) x :: trace_from s pf n' (sched_step s (pf (count x)) x)
  end.

Definition trace (s : Z) (pf : Z -> Z) (n : nat) : list (list bool) := trace_from s pf n init_st.

(* interval table for a scheduled run: pf t = nth t table *)
Definition table_fn (tbl : list Z) : Z -> Z := fun t => nth (Z.to_nat t) tbl 1.

(* ---------- warm-up ---------- *)
(* run_shampoo = (step >= start_preconditioning_step) ; tearfree: count >= start *)
Definition use_precond (start t : Z) : bool := start <=? t.

Inductive which := Graft | Precond.
Definition selected (start t : Z) : which := if use_precond start t then Precond else Graft.

(* distributed_shampoo blends arithmetically:  r * shampoo + (1 - r) * graft  with r in {0,1} *)
Definition blend (r a b : Q) : Q := (r * a + (1 - r) * b)%Q.
Definition run_shampoo_q (start t : Z) : Q := if use_precond start t then 1%Q else 0%Q.
Definition ds_update (start t : Z) (shampoo graft : Q) : Q :=
  blend (run_shampoo_q start t) shampoo graft.
(* tearfree selects: jnp.where(count >= start, base * multiplier, graft) *)
Definition tf_update {U} (start t : Z) (precond graft : U) : U :=
  if use_precond start t then precond else graft.

(* which preconditioner version an update at the step taken from state x uses:
   replicated mode: the one just (re)computed in this very step; sharded mode: the one stored in
   the incoming state (one step lag) *)
Definition used_src_replicated (s p : Z) (x : st) : Z := precond_src (sched_step s p x).
Definition used_src_sharded (x : st) : Z := precond_src x.

(* does the update depend on the preconditioners stored in the incoming state? *)
Definition depends_on_stored_precond (sharded : bool) (start p : Z) (x : st) : bool :=
  use_precond start (count x) && (if sharded then true else negb (is_multiple (count x) p)).

Fixpoint dep_trace_from (sharded : bool) (start s : Z) (pf : Z -> Z) (n : nat) (x : st) : list bool :=
  match n with
  | O => []
  | S n' => depends_on_stored_precond sharded start (pf (count x)) x ::
            dep_trace_from sharded start s pf n' (sched_step s (pf (count x)) x)
  end.
Definition dep_trace (sharded : bool) (start s : Z) (pf : Z -> Z) (n : nat) : list bool :=
  dep_trace_from sharded start s pf n init_st.

(* ---------- comparators for the correspondence ---------- *)
Fixpoint beqb_list4 (a b : list bool) : bool :=
  match a, b with
  | [], [] => true
  | x :: s, y :: t => Bool.eqb x y && beqb_list4 s t
  | _, _ => false
  end.

Fixpoint bits_eqb (a b : list (list bool)) : bool :=
  match a, b with
  | [], [] => true
  | x :: s, y :: t => beqb_list4 x y && bits_eqb s t
  | _, _ => false
  end.

(* first step at which the model and the observation disagree, -1 if none *)
Fixpoint first_diff_from (k : Z) (a b : list (list bool)) : Z :=
  match a, b with
  | [], [] => -1
  | x :: s, y :: t => if beqb_list4 x y then first_diff_from (k + 1) s t else k
  | _, _ => k
  end.

Definition chk_trace (s : Z) (tbl : list Z) (obs : list (list bool)) : Z :=
  first_diff_from 0 (trace s (table_fn tbl) (length obs)) obs.

Definition chk_dep (sharded : bool) (start s : Z) (tbl : list Z) (obs : list bool) : bool :=
  beqb_list4 (dep_trace sharded start s (table_fn tbl) (length obs)) obs.

Definition chk_select (start : Z) (obs : list bool) : bool :=
  beqb_list4 (map (fun t => use_precond start t) (zrange (zlen obs))) obs.

(* scheduled intervals: lrs = list of (num, den) of lr(t)/lr(0) *)
Definition sched_table (start end_ : Z) (ratios : list (Z * Z)) : list Z :=
  map (fun r => sched_interval start end_ (fst r) (snd r)) ratios.
