(* C08/Proofs.v — the flat state layout of Distributed Shampoo is block diagonal; the root
   computation over all parameters returns each parameter's own roots; Tearfree's _pth_inv_root is
   block local with the per-block maximum and not with the whole-batch maximum. *)
From Coq Require Import QArith ZArith List Bool Lia.
From Precond Require Import Base.PyLib Base.QMat C06.Records C06.Ref C06.BlockProofs C09.Model
     C15.Tensor C15.Model C15.Proofs C08.Model.
Import ListNotations.
Open Scope Q_scope.

(* ---------- list arithmetic of the flat layout ---------- *)
Lemma map2_app {A B C} (f : A -> B -> C) : forall l1 l2 m1 m2, length l1 = length m1 ->
  map2 f (l1 ++ l2) (m1 ++ m2) = map2 f l1 m1 ++ map2 f l2 m2.
Proof.
  induction l1 as [|a l1 IH]; intros l2 [|b m1] m2 H; cbn in *; try discriminate; [reflexivity|].
  rewrite IH by lia. reflexivity.
Qed.

Lemma blockview_0 {A} np (x y : list A) : length x = np -> blockview np 0 (x ++ y) = x.
Proof. intro H. unfold blockview. cbn [Nat.mul skipn]. apply firstn_app_exact. exact H. Qed.

Lemma skipn_add {A} : forall a b (l : list A), skipn (a + b) l = skipn b (skipn a l).
Proof.
  induction a as [|a IH]; intros b l; [reflexivity|].
  destruct l as [|x l]; cbn [Nat.add skipn]; [destruct b; reflexivity | apply IH].
Qed.

Lemma blockview_S {A} np k (x y : list A) : length x = np ->
  blockview np (S k) (x ++ y) = blockview np k y.
Proof.
  intro H. unfold blockview. replace (S k * np)%nat with (np + k * np)%nat by lia.
  rewrite skipn_add. rewrite (skipn_app_exact x y np H). reflexivity.
Qed.

Lemma grams_from_length k : forall t, length (grams_from k t) = k.
Proof. induction k as [|k IH]; intro t; cbn [grams_from length]; [reflexivity | rewrite IH; reflexivity]. Qed.

Lemma grams_length t : length (grams t) = length (t_shape t).
Proof. apply grams_from_length. Qed.

Definition uniform_rank (np : nat) (blocks : list tensor) : Prop :=
  Forall (fun b => length (t_shape b) = np) blocks.

(* One statistics update: the np entries of block k in the flat list are the update of block k's
   own entries with block k's own Gram matrices. *)
Theorem ds_stats_block_local w1 w2 np : forall blocks stats k blk,
  uniform_rank np blocks -> length stats = (length blocks * np)%nat ->
  nth_error blocks k = Some blk ->
  blockview np k (ds_new_stats w1 w2 blocks stats) =
  map2 (stat_update w1 w2) (blockview np k stats) (grams blk).
Proof.
  unfold ds_new_stats.
  induction blocks as [|b bs IH]; intros stats k blk Hu Hl Hk; [destruct k; discriminate|].
  inversion Hu as [|? ? Hb Hbs]; subst. cbn [flat_map length] in *.
  rewrite <- (firstn_skipn (length (t_shape b)) stats).
  assert (H1 : length (firstn (length (t_shape b)) stats) = length (t_shape b))
    by (rewrite firstn_length; lia).
  rewrite map2_app by (rewrite grams_length; exact H1).
  assert (H2 : length (map2 (stat_update w1 w2) (firstn (length (t_shape b)) stats) (grams b))
               = length (t_shape b)) by (rewrite map2_length; [exact H1 | rewrite grams_length; exact H1]).
  destruct k as [|k].
  - cbn in Hk. inversion Hk; subst blk. rewrite !blockview_0 by assumption. reflexivity.
  - cbn in Hk. rewrite !blockview_S by assumption.
    apply IH; [exact Hbs | rewrite skipn_length; lia | exact Hk].
Qed.

Lemma flat_grams_length np blocks : uniform_rank np blocks ->
  length (flat_map grams blocks) = (length blocks * np)%nat.
Proof.
  induction blocks as [|t l IH]; intro U; [reflexivity|]. inversion U; subst.
  cbn [flat_map length]. rewrite app_length, grams_length, IH by assumption. lia.
Qed.

Lemma nth_error_combine_seq {A} : forall (l : list A) k s,
  nth_error (combine (seq s (length l)) l) k = option_map (fun x => ((s + k)%nat, x)) (nth_error l k).
Proof.
  induction l as [|a l IH]; intros k s; destruct k; cbn [length seq combine nth_error option_map];
    try reflexivity.
  - rewrite Nat.add_0_r. reflexivity.
  - rewrite IH. replace (S s + k)%nat with (s + S k)%nat by lia. reflexivity.
Qed.

Lemma blockview_map {A B} (f : A -> B) np k l : blockview np k (map f l) = map f (blockview np k l).
Proof. unfold blockview. rewrite skipn_map, firstn_map. reflexivity. Qed.

(* ---------- histories: statistics, roots and preconditioned gradient of block k ---------- *)
Section History.
  Variable root : positive -> mat -> mat.       (* per-statistic oracle (padding: see ds_param_local) *)
  Variables (w1 w2 : Q) (b : Z) (shape : list nat) (p : positive).

  (* history entries: (statistics refreshed at this step?, gradient) *)
  Fixpoint stats_run (stats : list mat) (h : list (bool * vec)) : list mat :=
    match h with
    | [] => stats
    | (upd, g) :: rest =>
      stats_run (if upd then ds_new_stats w1 w2 (ds_blocks b shape g) stats else stats) rest
    end.

  Definition agree_on (k : nat) (h h' : list (bool * vec)) : Prop :=
    Forall2 (fun e e' => fst e = fst e' /\
                         nth_error (ds_blocks b shape (snd e)) k = nth_error (ds_blocks b shape (snd e')) k)
            h h'.

  Hypothesis blocks_uniform : forall g, uniform_rank (length shape) (ds_blocks b shape g).

  Lemma ds_blocks_length g g' : length (ds_blocks b shape g) = length (ds_blocks b shape g').
  Proof. unfold ds_blocks. rewrite !map_length. reflexivity. Qed.

  Lemma stats_step_length g stats : length stats = (length (ds_blocks b shape g) * length shape)%nat ->
    length (ds_new_stats w1 w2 (ds_blocks b shape g) stats) = length stats.
  Proof.
    intro H. unfold ds_new_stats. apply map2_length. rewrite H.
    symmetry. apply flat_grams_length. apply blocks_uniform.
  Qed.

  (* non-interference: two gradient histories that agree on block k give equal statistics of
     block k, for every length of history *)
  Theorem ds_block_local_stats k : forall h h' stats stats' g0,
    agree_on k h h' ->
    length stats = (length (ds_blocks b shape g0) * length shape)%nat -> length stats' = length stats ->
    blockview (length shape) k stats = blockview (length shape) k stats' ->
    (k < length (ds_blocks b shape g0))%nat ->
    blockview (length shape) k (stats_run stats h) = blockview (length shape) k (stats_run stats' h').
  Proof.
    induction h as [|[u g] h IH]; intros h' stats stats' g0 Ha Hl Hl' Hv Hk; inversion Ha; subst.
    - exact Hv.
    - destruct y as [u' g']. destruct H1 as [Hu Hb]. cbn [fst snd] in *. subst u'. cbn [stats_run].
      assert (Hg : forall g1, length stats = (length (ds_blocks b shape g1) * length shape)%nat)
        by (intro g1; rewrite (ds_blocks_length g1 g0); exact Hl).
      assert (Hg' : forall g1, length stats' = (length (ds_blocks b shape g1) * length shape)%nat)
        by (intro g1; rewrite Hl'; apply Hg).
      destruct u.
      + apply (IH _ _ _ g0 H3).
        * rewrite stats_step_length by apply Hg. exact Hl.
        * rewrite !stats_step_length by (apply Hg || apply Hg'). exact Hl'.
        * destruct (nth_error (ds_blocks b shape g) k) as [blk|] eqn:E.
          -- rewrite (ds_stats_block_local w1 w2 (length shape) _ stats k blk (blocks_uniform g) (Hg g) E).
             rewrite (ds_stats_block_local w1 w2 (length shape) _ stats' k blk (blocks_uniform g')
                        (Hg' g') (eq_sym Hb)).
             rewrite Hv. reflexivity.
          -- apply nth_error_None in E. rewrite (ds_blocks_length g g0) in E. lia.
        * exact Hk.
      + apply (IH _ _ _ g0 H3); assumption.
  Qed.

  (* ... hence equal roots of block k (vmap over the flat list = map) and an equal preconditioned
     gradient on block k *)
  Theorem ds_block_local k h h' stats g0 g g' :
    agree_on k h h' ->
    length stats = (length (ds_blocks b shape g0) * length shape)%nat ->
    (k < length (ds_blocks b shape g0))%nat ->
    nth_error (ds_blocks b shape g) k = nth_error (ds_blocks b shape g') k ->
    let S := stats_run stats h in let S' := stats_run stats h' in
    blockview (length shape) k S = blockview (length shape) k S' /\
    blockview (length shape) k (map (root p) S) = blockview (length shape) k (map (root p) S') /\
    nth_error (ds_precond_blocks (length shape) (ds_blocks b shape g) (map (root p) S)) k =
    nth_error (ds_precond_blocks (length shape) (ds_blocks b shape g') (map (root p) S')) k.
  Proof.
    intros Ha Hl Hk Hg S S'.
    assert (E : blockview (length shape) k S = blockview (length shape) k S')
      by (apply (ds_block_local_stats k h h' stats stats g0); auto).
    split; [exact E|]. split; [rewrite !blockview_map, E; reflexivity|].
    unfold ds_precond_blocks.
    assert (L : forall bl pre, nth_error
              (map (fun '(i, blk) => precondition_block blk (blockview (length shape) i pre))
                   (combine (seq 0 (length bl)) bl)) k =
              option_map (fun blk => precondition_block blk (blockview (length shape) k pre))
                         (nth_error bl k)).
    { intros bl pre. rewrite nth_error_map.
      rewrite nth_error_combine_seq. destruct (nth_error bl k); reflexivity. }
    rewrite !L, !blockview_map, E, Hg. reflexivity.
  Qed.
End History.

(* ---------- blocked = assemble (separate blocks) ---------- *)
Lemma firstn_firstn_same {A} n (l : list A) : firstn n (firstn n l) = firstn n l.
Proof. rewrite firstn_firstn. rewrite Nat.min_id. reflexivity. Qed.

(* the preconditioned blocks of the blocked tensor are, block by block, what a single-block
   parameter consisting of that block alone gets from its own np preconditioners *)
Theorem blocked_equals_separate np blocks pre :
  ds_precond_blocks np blocks pre =
  map (fun '(k, blk) => hd blk (ds_precond_blocks np [blk] (blockview np k pre)))
      (combine (seq 0 (length blocks)) blocks).
Proof.
  unfold ds_precond_blocks. apply map_ext. intros [k blk]. cbn [length seq combine map hd].
  unfold blockview at 2. cbn [Nat.mul skipn]. unfold blockview. rewrite firstn_firstn_same. reflexivity.
Qed.

(* a parameter no dimension of which exceeds the block size is its own single block *)
Lemma slice_full : forall shape data, length data = prodn shape ->
  slice_rec shape (origin shape) shape data = data.
Proof.
  induction shape as [|d rest IH]; intros data H; [reflexivity|].
  cbn [origin map slice_rec skipn]. rewrite prodn_cons in H.
  assert (Hl : length (chunks (prodn rest) d data) = d) by apply chunks_length.
  rewrite firstn_all2 by lia.
  rewrite (map_ext_in _ (fun r => r)).
  - rewrite map_id. apply concat_chunks. exact H.
  - intros r Hr. apply IH.
    pose proof (chunks_row_length (prodn rest) d data H) as F.
    apply (proj1 (Forall_forall _ _) F). exact Hr.
Qed.

Lemma prefix_single d : prefix_starts [d] = [0%nat].
Proof. reflexivity. Qed.

Theorem single_block (b : Z) (shape : list nat) (g : vec) :
  Forall (fun d => ~ (0 < b /\ b < Z.of_nat d)%Z) shape -> length g = prodn shape ->
  Forall (fun d => (0 < d)%nat) shape ->
  ds_blocks b shape g = [mkT shape g].
Proof.
  intros Hs Hg Hp. unfold ds_blocks, ds_boxes, ds_split_sizes.
  rewrite split_sizes_spec.
  assert (E : map (map Z.to_nat) (map (dim_sizes b) (map Z.of_nat shape)) = map (fun d => [d]) shape).
  { rewrite !map_map. apply map_ext_in. intros d Hd.
    rewrite dim_sizes_small by (apply (proj1 (Forall_forall _ _) Hs); exact Hd).
    cbn [map]. rewrite Nat2Z.id. reflexivity. }
  rewrite E. clear E.
  assert (C1 : forall l : list nat, cart_prod (map (fun d => [d]) l) = [l]).
  { induction l as [|a l IH]; [reflexivity|]. cbn [map cart_prod flat_map]. rewrite IH. reflexivity. }
  assert (C2 : forall l : list nat, cart_prod (map prefix_starts (map (fun d => [d]) l)) = [origin l]).
  { induction l as [|a l IH]; [reflexivity|]. cbn [map cart_prod flat_map]. rewrite IH. reflexivity. }
  rewrite C1, C2. cbn [combine map]. unfold box_of. cbn [fst snd]. rewrite slice_full by exact Hg. reflexivity.
Qed.

(* ---------- parameters: one flat list through the (padded, batched) root computation ---------- *)
Lemma regroup_concat {A B} (f : A -> B) : forall (ls : list (list A)),
  regroup (map (fun l => length l) ls) (map f (concat ls)) = map (map f) ls.
Proof.
  induction ls as [|l ls IH]; [reflexivity|].
  cbn [map concat regroup]. rewrite map_app.
  rewrite firstn_app_exact by (rewrite map_length; reflexivity).
  rewrite skipn_app_exact by (rewrite map_length; reflexivity).
  rewrite IH. reflexivity.
Qed.

Lemma fold_max_ge : forall (l : list nat) a x, (In x l \/ x <= a)%nat -> (x <= fold_left Nat.max l a)%nat.
Proof.
  induction l as [|y l IH]; intros a x H; cbn [fold_left].
  - destruct H as [[]|H]; exact H.
  - apply IH. destruct H as [[H|H]|H]; [right; subst; lia | left; exact H | right; lia].
Qed.

Section ParamLocal.
  Variable root : positive -> mat -> nat -> mat.
  (* named assumption (C01 masked_closed + padding_start masking; batching: C13 unbatch o batch = id):
     the root of a statistic padded to ANY common size, cropped back, is the root of the statistic *)
  Hypothesis root_padding_invariant : forall p mx M, (length M <= mx)%nat ->
    crop (length M) (root p (pad_square mx M) (length M)) = root p M (length M).

  (* every parameter gets the roots of its own statistics, whatever other parameters (their number,
     shapes, scales, values — hence the common padded size) are present *)
  Theorem ds_param_local p (statss : list (list mat)) :
    tree_roots root p statss = map (map (fun M => root p M (length M))) statss.
  Proof.
    unfold tree_roots.
    set (mx := fold_left Nat.max (map (fun M => length M) (concat statss)) 0%nat).
    rewrite <- (regroup_concat (fun M => root p M (length M))).
    f_equal. apply map_ext_in. intros M HM. apply root_padding_invariant.
    unfold mx. apply fold_max_ge. left. apply in_map_iff. exists M. split; [reflexivity | exact HM].
  Qed.

  Corollary ds_param_local_nth p statss statss' l :
    nth_error statss l = nth_error statss' l ->
    nth_error (tree_roots root p statss) l = nth_error (tree_roots root p statss') l.
  Proof. intro H. rewrite !ds_param_local, !nth_error_map, H. reflexivity. Qed.
End ParamLocal.

(* ---------- Tearfree _pth_inv_root ---------- *)
Section PthLocal.
  Variable eigh : mat -> vec * list vec.
  Variable hroot : positive -> Q -> Q.

  (* per-block maximum (current code): the root of block k is a function of block k's covariance *)
  Theorem tf_pth_inv_root_block_local p covs covs' k :
    nth_error covs k = nth_error covs' k ->
    nth_error (pth_inv_root eigh hroot p covs) k = nth_error (pth_inv_root eigh hroot p covs') k.
  Proof. intro H. unfold pth_inv_root. rewrite !nth_error_map, H. reflexivity. Qed.

  Theorem tf_pth_inv_root_is_map p covs k :
    nth_error (pth_inv_root eigh hroot p covs) k =
    option_map (fun C => pth_with eigh hroot p (eps6 * vmaxq (fst (eigh C))) C) (nth_error covs k).
  Proof. unfold pth_inv_root. apply nth_error_map. Qed.
End PthLocal.

(* whole-batch maximum (code before the fix): refuted.  Two batches of 1x1 blocks that agree on
   block 1 (covariance 1e-14, i.e. gradient scale 1e-7) but differ on block 0 (covariance 1 vs 1e-14):
   next to the unit-scale block every eigenvalue of block 1 is masked and its root is 0. *)
Definition eigh_1x1 (C : mat) : vec * list vec := (map (fun r => hd 0 r) C, [[1]]).

Theorem tf_pth_inv_root_old_refuted :
  exists covs covs' k,
    nth_error covs k = nth_error covs' k /\
    nth_error (pth_inv_root_old eigh_1x1 (fun _ _ => 1) 2 covs) k <>
    nth_error (pth_inv_root_old eigh_1x1 (fun _ _ => 1) 2 covs') k.
Proof.
  exists [[[1]]; [[1 # 100000000000000]]], [[[1 # 100000000000000]]; [[1 # 100000000000000]]], 1%nat.
  split; [reflexivity|]. vm_compute. discriminate.
Qed.

(* ... while the current code gives block 1 the same root in both batches *)
Example tf_pth_inv_root_new_same :
  nth_error (pth_inv_root eigh_1x1 (fun _ _ => 1) 2 [[[1]]; [[1 # 100000000000000]]]) 1 =
  nth_error (pth_inv_root eigh_1x1 (fun _ _ => 1) 2 [[[1 # 100000000000000]]; [[1 # 100000000000000]]]) 1.
Proof. reflexivity. Qed.

(* ---------- the uniform-rank hypothesis holds for BlockPartitioner's blocks ---------- *)
Lemma cart_prod_length {A} : forall (ls : list (list A)),
  Forall (fun t => length t = length ls) (cart_prod ls).
Proof.
  induction ls as [|l ls IH]; cbn [cart_prod length].
  - constructor; [reflexivity | constructor].
  - apply Forall_forall. intros t Ht. apply in_flat_map in Ht as [x [_ Ht]].
    apply in_map_iff in Ht as [t' [E Ht']]. subst t. cbn [length]. f_equal.
    apply (proj1 (Forall_forall _ _) IH). exact Ht'.
Qed.

Lemma ds_blocks_uniform b shape g : uniform_rank (length shape) (ds_blocks b shape g).
Proof.
  unfold uniform_rank, ds_blocks, ds_boxes. apply Forall_forall. intros t Ht.
  apply in_map_iff in Ht as [[st sz] [E Hin]]. subst t. cbn [box_of t_shape snd].
  apply in_combine_r in Hin.
  pose proof (cart_prod_length (ds_split_sizes b shape)) as F.
  rewrite (proj1 (Forall_forall _ _) F sz Hin).
  unfold ds_split_sizes. rewrite split_sizes_spec, !map_length. reflexivity.
Qed.

(* final form of the non-interference theorem, no residual hypothesis *)
Theorem ds_block_local_closed (root : positive -> mat -> mat) w1 w2 b shape p k h h' stats g0 g g' :
  agree_on b shape k h h' ->
  length stats = (length (ds_blocks b shape g0) * length shape)%nat ->
  (k < length (ds_blocks b shape g0))%nat ->
  nth_error (ds_blocks b shape g) k = nth_error (ds_blocks b shape g') k ->
  let S := stats_run w1 w2 b shape stats h in let S' := stats_run w1 w2 b shape stats h' in
  blockview (length shape) k S = blockview (length shape) k S' /\
  blockview (length shape) k (map (root p) S) = blockview (length shape) k (map (root p) S') /\
  nth_error (ds_precond_blocks (length shape) (ds_blocks b shape g) (map (root p) S)) k =
  nth_error (ds_precond_blocks (length shape) (ds_blocks b shape g') (map (root p) S')) k.
Proof.
  intros. apply (ds_block_local root w1 w2 b shape p (ds_blocks_uniform b shape) k h h' stats g0 g g');
    assumption.
Qed.
