(* C08/Model.v — block-diagonal structure of Distributed Shampoo and Tearfree Shampoo, definitions
   only.  The Distributed Shampoo part follows the CODE's data layout: one FLAT list of statistics
   / preconditioners per parameter (Preconditioner.updated_statistics_from_grad loops over blocks
   and axes; preconditioned_grad slices preconditioners[i*np:(i+1)*np]) and one flat list over
   all parameters for the root computation (_compute_preconditioners, padded to a common max size);
   the theorems of C08.Proofs show that this layout is block diagonal.  Partition arithmetic is
   C06.Ref.block_partitioner_init (regenerated from /repo's source on every run). *)
From Precond Require Import Base.PyLib Base.QMat C06.Records C06.Ref C09.Model C15.Tensor C15.Model.
Open Scope Q_scope.

(* ---------- BlockPartitioner: boxes of the blocks, partition order ---------- *)
Definition ds_split_sizes (b : Z) (shape : list nat) : list (list nat) :=
  map (map Z.to_nat) (snd (block_partitioner_init (map Z.of_nat shape) b)).

Definition prefix_starts (sizes : list nat) : list nat :=
  fst (fold_left (fun '(acc, o) s => (acc ++ [o], (o + s)%nat)) sizes ([], 0%nat)).

(* (starts, sizes) of every block; jnp.split axis by axis = row-major over the per-axis pieces *)
Definition ds_boxes (b : Z) (shape : list nat) : list (list nat * list nat) :=
  let ss := ds_split_sizes b shape in
  combine (cart_prod (map prefix_starts ss)) (cart_prod ss).

Definition box_of (shape : list nat) (g : vec) (bx : list nat * list nat) : tensor :=
  mkT (snd bx) (slice_rec shape (fst bx) (snd bx) g).

Definition ds_blocks (b : Z) (shape : list nat) (g : vec) : list tensor :=
  map (box_of shape g) (ds_boxes b shape).

(* BlockPartitioner.merge_partitions *)
Definition ds_merge (b : Z) (shape : list nat) (bs : list tensor) : vec :=
  fold_left (fun acc '(bx, t) => put_rec shape (fst bx) (snd bx) (t_data t) acc)
            (combine (ds_boxes b shape) bs) (zeros_like shape).

(* ---------- one parameter: flat lists, as the code keeps them (PreconditionerType.ALL) ---------- *)
Definition stat_update (w1 w2 : Q) (St G : mat) : mat := madd (mscale w1 St) (mscale w2 G).

(* updated_statistics_from_grad: index runs over blocks (outer) and axes (inner) *)
Definition ds_new_stats (w1 w2 : Q) (blocks : list tensor) (stats : list mat) : list mat :=
  map2 (stat_update w1 w2) stats (flat_map grams blocks).

(* _precondition_block: tensordot(g, P, axes=[[0],[0]]) for every axis *)
Definition precondition_block (blk : tensor) (ps : list mat) : tensor :=
  fold_left (fun g P => roll_mul (Some (transpose P)) g) ps blk.

(* [i*np : (i+1)*np] *)
Definition blockview {A} (np k : nat) (flat : list A) : list A := firstn np (skipn (k * np) flat).

(* preconditioned_grad: block i uses preconditioners[i*np:(i+1)*np] *)
Definition ds_precond_blocks (np : nat) (blocks : list tensor) (pre : list mat) : list tensor :=
  map (fun '(i, blk) => precondition_block blk (blockview np i pre))
      (combine (seq 0 (length blocks)) blocks).

(* ---------- all parameters: one flat list through the root computation ---------- *)
(* pad_square_matrix: [[M, 0], [0, I]] *)
Definition pad_square (mx : nat) (M : mat) : mat :=
  let n := length M in
  map (fun r => r ++ repeat 0 (mx - n)) M ++
  map (fun i => repeat 0 n ++ eye_row (mx - n) i) (seq 0 (mx - n)).
Definition crop (n : nat) (M : mat) : mat := map (firstn n) (firstn n M).

(* regroup a flat list by the per-parameter counts (idx += num_statistics) *)
Fixpoint regroup {A} (counts : list nat) (flat : list A) : list (list A) :=
  match counts with
  | [] => []
  | n :: rest => firstn n flat :: regroup rest (skipn n flat)
  end.

Section Roots.
  (* the oracle: inverse p-th root of ONE (padded) statistic with its padding_start; vmap = map *)
  Variable root : positive -> mat -> nat -> mat.

  Definition tree_roots (p : positive) (statss : list (list mat)) : list (list mat) :=
    let flat := concat statss in
    let mx := fold_left Nat.max (map (fun M => length M) flat) 0%nat in
    regroup (map (fun l => length l) statss)
            (map (fun M => crop (length M) (root p (pad_square mx M) (length M))) flat).
End Roots.

(* ---------- Tearfree shampoo._pth_inv_root on a batch of blocks ---------- *)
Section Pth.
  Variable eigh : mat -> vec * list vec.           (* eigenvalues, eigenvectors (columns) *)
  Variable hroot : positive -> Q -> Q.              (* w |-> w^(-1/p)  (= (w^(-0.5/p))^2) *)

  Definition vmaxq (v : vec) : Q := match v with [] => 0 | a :: t => fold_left Qmax t a end.
  Definition eps6 : Q := 1 # 1000000.

  (* root of one block given the cut-off threshold *)
  Definition pth_with (p : positive) (thr : Q) (C : mat) : mat :=
    let '(w, V) := eigh C in
    sketch_mat (length C) V (map (fun wi => if Qleb wi thr then 0 else hroot p wi) w).

  (* current code: mask = w <= eps * max(w, axis=-1, keepdims=True): the block's own maximum *)
  Definition pth_inv_root (p : positive) (covs : list mat) : list mat :=
    map (fun C => pth_with p (eps6 * vmaxq (fst (eigh C))) C) covs.

  (* the code before the fix: eps * max(w) over the whole batch of blocks *)
  Definition pth_inv_root_old (p : positive) (covs : list mat) : list mat :=
    let gmax := vmaxq (flat_map (fun C => fst (eigh C)) covs) in
    map (pth_with p (eps6 * gmax)) covs.
End Pth.
