(* C08/Check.v — evaluation (vm_compute, exact dyadics) of the differential comparison
   blocked tensor  vs  its blocks as separate leaves  vs  blocked tensor with companion leaves.
   Which state entry belongs to which block is derived here from C06.Ref (block_partitioner_init
   resp. blocks_metadata); exact equality of dyadics is bitwise equality of the floats. *)
From Precond Require Import Base.PyLib Base.QMat Base.PsdCheck C06.Records C06.Ref C09.Model C09.Check
     C15.Tensor C15.Model C15.Check C08.Model.
Open Scope Q_scope.

Definition meq (A B : mat) : bool := mclose 0 A B.

(* running context: amplification seen so far, per-block update scale seen so far *)
Definition amp_of (ops : list mat) (g pg : vec) : Q :=
  let b := maxabs_vec pg in
  if Qeq_bool b 0 then 1
  else qnorm (fold_left (fun acc M => acc * minf M) ops 1 * maxabs_vec g / b).

Definition close_or_eq (tol : Q) (x y : vec) : bool * bool :=     (* (acceptable, bitwise) *)
  let e := veq x y in (if e then true else vclose tol x y, e).

Definition nb (b : bool) : Z := if b then 0%Z else 1%Z.

(* direction comparison  x/|x| ~ y/|y|  without division *)
Definition same_direction (tol : Q) (x y : vec) : bool :=
  let nx := vnorm x in let ny := vnorm y in
  vclose (tol * nx * ny) (vscale ny x) (vscale nx y).

(* ---------- Distributed Shampoo ---------- *)
Record dstep := mkd {
  d_g : vec; d_gB : list vec;
  d_uA : vec; d_uB : list vec; d_uP : vec;
  d_statsA : list mat; d_preA : list mat;
  d_statsP : list mat; d_preP : list mat;
  d_statsB : list (list mat); d_preB : list (list mat);
  d_lam : list (Q * Q) }.        (* proposed (lower, upper) eigenvalue bounds of A's statistics *)

(* state: (running amplification, per-block running scales, per-block running relative
   preconditioner differences A vs A+, counters of non-bitwise acceptances) *)
Definition dacc := (Q * list Q * list Q * list (option Q) * (Z * Z * Z))%type.

(* Two float32 roots of the same statistic may differ by rounding amplified by the condition number
   of the damped matrix (C01's slack is of the same form): relative slack 16 n u kappa, where
   kappa = (lmax + ridge) / (lmin + ridge) and the proposed bounds lmin <= A <= lmax are VERIFIED
   here by the PSD checker (unverifiable proposal: unbounded slack, counted by the harness). *)
Definition u32 : Q := 1 # 16777216.
Definition scaled_eye (n : nat) (c : Q) : mat := mscale c (eye n).
Definition root_slack (meps : Q) (rel : bool) (A : mat) (lam : Q * Q) : option Q :=
  let n := length A in
  let '(lo, hi) := lam in
  if psd_check n (msub A (scaled_eye n lo)) && psd_check n (msub (scaled_eye n hi) A) then
    let ridge := if rel then meps * hi else meps in
    if Qleb ridge 0 then None
    else Some (16 * inject_Z (Z.of_nat n) * u32 * ((hi + ridge) / (Qmax lo 0 + ridge)))
  else None.
Definition reldiff (A B : mat) : Q :=
  let m := maxabs A in if Qeq_bool m 0 then (if meq A B then 0 else 1) else maxabs (msub A B) / m.

(* code of one step (0 = fine) and the updated running context *)
Definition ds_step_code (b : Z) (shape : list nat) (tau meps : Q) (rel graft_none strict : bool)
           (st : dacc) (r : dstep) : Z * dacc :=
  let '(amp0, scales0, rels0, slk0, (c1, c2, c3)) := st in
  let blocks := ds_blocks b shape (d_g r) in
  let np := length shape in
  let nblk := length blocks in
  if negb (all2 (fun t gb => veq (t_data t) gb) blocks (d_gB r)) then (1%Z, st)
  else if negb (Nat.eqb (length (d_statsA r)) (nblk * np) && Nat.eqb (length (d_preA r)) (nblk * np)
                && Nat.eqb (length (d_statsB r)) nblk && Nat.eqb (length (d_preB r)) nblk
                && Nat.eqb (length (d_uB r)) nblk) then (8%Z, st)
  else
    let ks := seq 0 nblk in
    let slacks_now := map (fun '(A, lam) => root_slack meps rel A lam) (combine (d_statsA r) (d_lam r)) in
    (* the stored roots may stem from an earlier refresh: running maximum of the slack *)
    let slacks := map (fun '(i, sl) =>
                         match nth i slk0 (Some 0), sl with
                         | Some a, Some b0 => Some (Qmax a b0)
                         | _, _ => None
                         end) (combine (seq 0 (length slacks_now)) slacks_now) in
    let stat_ok (x y : mat) := if meq x y then true else if strict then false else mrel tau y x in
    if negb (forallb (fun k => all2 stat_ok (blockview np k (d_statsA r)) (nth k (d_statsB r) [])) ks)
    then (2%Z, st)
    else
    let preB_flat := concat (d_preB r) in
    let rPreB := map (fun '(sl, (pa, pb)) =>
                        let d := reldiff pa pb in
                        (if meq pa pb then true else if strict then false
                         else match sl with Some s0 => Qleb d (tau + s0) | None => true end, d))
                     (combine slacks (combine (d_preA r) preB_flat)) in
    if negb (Nat.eqb (length preB_flat) (length (d_preA r)) && forallb fst rPreB
             && forallb (fun k => Nat.eqb (length (nth k (d_preB r) [])) np) ks)
    then (3%Z, st)
    else
      let relsB := map (fun k => Qmax (nth k rels0 0)
                                   (fold_left Qplus (map snd (blockview np k rPreB)) 0)) ks in
      let relB := fun k => nth k relsB 0 in
      let pgs := map (fun '(k, blk) => t_data (precondition_block blk (blockview np k (d_preA r))))
                     (combine ks blocks) in
      let amp := fold_left Qmax
                   (map (fun '(k, (blk, pg)) => amp_of (blockview np k (d_preA r)) (t_data blk) pg)
                        (combine ks (combine blocks pgs))) amp0 in
      let uAs := map (fun bx => slice_rec shape (fst bx) (snd bx) (d_uA r)) (ds_boxes b shape) in
      let uPs := map (fun bx => slice_rec shape (fst bx) (snd bx) (d_uP r)) (ds_boxes b shape) in
      (* running per-block update scale: the blocked tensor's own entries (with a grafting type the
         separate leaves carry their own multipliers and other magnitudes) and the separate leaf's *)
      let scales := map (fun '(k, (ua, ub)) => Qmax (nth k scales0 0) (Qmax (maxabs_vec ua) (maxabs_vec ub)))
                        (combine ks (combine uAs (d_uB r))) in
      let tolk := fun k => (tau * (4 + amp) + 4 * amp * relB k) * nth k scales 0 in
      let rAB := map (fun '(k, (ua, ub)) =>
                        if graft_none then close_or_eq (tolk k) ua ub
                        else (same_direction (tau * (4 + amp) + 4 * amp * relB k) ua ub, veq ua ub))
                     (combine ks (combine uAs (d_uB r))) in
      if negb (forallb fst rAB) then (4%Z, st)
      else if negb (all2 meq (d_statsA r) (d_statsP r)) then (5%Z, st)
      else
        let rPre := map (fun '(sl, (pa, pp)) =>
                           let d := reldiff pa pp in
                           (match sl with Some s0 => Qleb d (tau + s0) | None => true end, meq pa pp, d,
                            match sl with Some _ => true | None => false end))
                        (combine slacks (combine (d_preA r) (d_preP r))) in
        if negb (Nat.eqb (length (d_preA r)) (length (d_preP r)) &&
                 Nat.eqb (length (d_lam r)) (length (d_preA r)) &&
                 forallb (fun x => fst (fst (fst x))) rPre) then (6%Z, st)
        else
          let rels := map (fun k => Qmax (relB k)
                                      (fold_left Qplus (map (fun x => snd (fst x)) (blockview np k rPre)) 0)) ks in
          (* with a grafting type the multiplier |graft| / |P g| couples the blocks of the parameter *)
          let relall := fold_left Qplus rels 0 in
          let tolP := fun k => (tau * (4 + amp) + 4 * amp * (if graft_none then nth k rels 0 else relall))
                               * nth k scales 0 in
          let rAP := map (fun '(k, (ua, up)) => close_or_eq (tolP k) up ua) (combine ks (combine uAs uPs)) in
          if negb (forallb fst rAP) then (7%Z, st)
          else (0%Z, (amp, scales, rels, slacks,
                      ((c1 + (if graft_none then nb (forallb snd rAB) else 0))%Z,
                       (c2 + nb (forallb (fun x => snd (fst (fst x))) rPre))%Z,
                       (c3 + nb (forallb snd rAP) + 1000000 * nb (forallb snd rPre))%Z))).

Fixpoint ds_steps (b : Z) (shape : list nat) (tau meps : Q) (rel gn strict : bool) (i : Z) (st : dacc)
         (rs : list dstep) : Z * (Z * Z * Z) :=
  match rs with
  | [] => (0%Z, snd st)
  | r :: rest =>
    let '(code, st') := ds_step_code b shape tau meps rel gn strict st r in
    if (code =? 0)%Z then ds_steps b shape tau meps rel gn strict (i + 1) st' rest
    else ((100 * i + code)%Z, snd st)
  end.

(* 100 * step + code; counters = steps whose (A vs B updates, A vs A+ preconditioners,
   A vs A+ updates) were accepted within tolerance but not bitwise *)
Definition chk_ds (b : Z) (shape : list nat) (tau meps : Q) (rel graft_none strict : bool)
           (rs : list dstep) : Z * (Z * Z * Z) :=
  ds_steps b shape tau meps rel graft_none strict 0 (1, [], [], [], (0, 0, 0)%Z) rs.

(* ---------- Tearfree Shampoo ---------- *)
Record tstep := mkt {
  t_g : vec; t_gB : list vec;
  t_uA : vec; t_uB : list vec; t_uP : vec;
  t_statsA : list (list mat); t_preA : list (list mat);      (* [axis][block] *)
  t_statsP : list (list mat); t_preP : list (list mat);
  t_statsB : list (list (list mat)); t_preB : list (list (list mat)) }.   (* leaf: [axis][1] *)

Definition tf_step_code (b : Z) (shape : list nat) (tau : Q) (st : dacc) (r : tstep) : Z * dacc :=
  let '(amp0, scales0, rels0, slk0, (c1, c2, c3)) := st in
  let bm := blocks_metadata b (map Z.of_nat shape) in
  let t := mkT shape (t_g r) in
  let blocks := blocks_of bm t in
  let nblk := length blocks in
  let nax := length shape in
  if negb (all2 (fun blk gb => veq (t_data blk) gb) blocks (t_gB r)) then (1%Z, st)
  else if negb (Nat.eqb (length (t_statsA r)) nax && Nat.eqb (length (t_preA r)) nax
                && forallb (fun ax => Nat.eqb (length ax) nblk) (t_statsA r)
                && forallb (fun ax => Nat.eqb (length ax) nblk) (t_preA r)
                && (Z.of_nat nblk =? bm_num_blocks bm)%Z
                && Nat.eqb (length (t_statsB r)) nblk && Nat.eqb (length (t_preB r)) nblk
                && Nat.eqb (length (t_uB r)) nblk) then (8%Z, st)
  else
    let ks := seq 0 nblk in
    let viewA (xs : list (list mat)) (k : nat) : list mat := map (fun ax => nth k ax []) xs in
    let viewB (xs : list (list mat)) : list mat := map (fun ax => nth 0 ax []) xs in
    if negb (forallb (fun k => all2 meq (viewA (t_statsA r) k) (viewB (nth k (t_statsB r) []))) ks)
    then (2%Z, st)
    else if negb (forallb (fun k => all2 meq (viewA (t_preA r) k) (viewB (nth k (t_preB r) []))) ks)
    then (3%Z, st)
    else
      let pgs := map (fun '(k, blk) => t_data (mode_all (viewA (t_preA r) k) blk)) (combine ks blocks) in
      let amp := fold_left Qmax
                   (map (fun '(k, (blk, pg)) => amp_of (viewA (t_preA r) k) (t_data blk) pg)
                        (combine ks (combine blocks pgs))) amp0 in
      let boxes := blk_starts bm shape in
      let uAs := map (fun st0 => slice_rec shape st0 (blk_sizes bm) (t_uA r)) boxes in
      let uPs := map (fun st0 => slice_rec shape st0 (blk_sizes bm) (t_uP r)) boxes in
      let scales := map (fun '(k, (ua, ub)) => Qmax (nth k scales0 0) (Qmax (maxabs_vec ua) (maxabs_vec ub)))
                        (combine ks (combine uAs (t_uB r))) in
      let tolk := fun k => tau * (4 + amp) * nth k scales 0 in
      let rAB := map (fun '(k, (ua, ub)) => close_or_eq (tolk k) ua ub) (combine ks (combine uAs (t_uB r))) in
      if negb (forallb fst rAB) then (4%Z, st)
      else if negb (all2 (all2 meq) (t_statsA r) (t_statsP r)) then (5%Z, st)
      else if negb (all2 (all2 meq) (t_preA r) (t_preP r)) then (6%Z, st)
      else
        let rAP := map (fun '(k, (ua, up)) => close_or_eq (tolk k) up ua) (combine ks (combine uAs uPs)) in
        if negb (forallb fst rAP) then (7%Z, st)
        else (0%Z, (amp, scales, rels0, slk0,
                    ((c1 + nb (forallb snd rAB))%Z, c2, (c3 + nb (forallb snd rAP))%Z))).

Fixpoint tf_steps (b : Z) (shape : list nat) (tau : Q) (i : Z) (st : dacc) (rs : list tstep)
  : Z * (Z * Z * Z) :=
  match rs with
  | [] => (0%Z, snd st)
  | r :: rest =>
    let '(code, st') := tf_step_code b shape tau st r in
    if (code =? 0)%Z then tf_steps b shape tau (i + 1) st' rest
    else ((100 * i + code)%Z, snd st)
  end.

Definition chk_tf (b : Z) (shape : list nat) (tau : Q) (rs : list tstep) : Z * (Z * Z * Z) :=
  tf_steps b shape tau 0 (1, [], [], [], (0, 0, 0)%Z) rs.
