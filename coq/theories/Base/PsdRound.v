(* Base/PsdRound.v — PSD check on a matrix rounded to a dyadic grid, still sound for the exact
   matrix: if  round(M) - n*2^-q*I  passes the verified LDL^T check then M itself is PSD.
   (Without rounding the fraction-free elimination doubles the bit-size of the entries at every
   level; on 53-bit inputs that made each check take seconds.)  No axioms. *)
From Precond Require Import Base.QMat Base.PsdCheck.
From Coq Require Import Lqa Lia Qround.
Open Scope Q_scope.

Definition grid (q : positive) : Q := 1 # (2 ^ q)%positive.

Definition qround (q : positive) (x : Q) : Q :=
  inject_Z (Qfloor (x * inject_Z (Zpos (2 ^ q)%positive))) * grid q.

Lemma grid_pos q : 0 < grid q. Proof. unfold grid. reflexivity. Qed.

Lemma grid_inv q : inject_Z (Zpos (2 ^ q)%positive) * grid q == 1.
Proof. unfold grid, inject_Z, Qeq, Qmult. simpl. lia. Qed.

Lemma qround_err q x : 0 <= x - qround q x /\ x - qround q x <= grid q.
Proof.
  unfold qround. set (s := inject_Z (Zpos (2 ^ q)%positive)). set (g := grid q).
  assert (Hg : 0 < g) by apply grid_pos.
  assert (Hsg : s * g == 1) by apply grid_inv.
  pose proof (Qfloor_le (x * s)) as H1. pose proof (Qlt_floor (x * s)) as H2.
  set (f := inject_Z (Qfloor (x * s))) in *.
  assert (H2' : x * s < f + 1).
  { unfold f. rewrite inject_Z_plus in H2. change (inject_Z 1) with 1 in H2. exact H2. }
  assert (Hx : x == (x * s) * g) by (rewrite <- Qmult_assoc, Hsg; ring).
  split.
  - assert (f * g <= (x * s) * g) by (apply Qmult_le_compat_r; [exact H1 | lra]).
    rewrite Hx at 1. lra.
  - assert ((x * s) * g <= (f + 1) * g) by (apply Qmult_le_compat_r; lra).
    rewrite Hx at 1. lra.
Qed.

Definition mround (q : positive) (M : mat) : mat := map (map (qround q)) M.

(* ---------- quadratic form of a matrix with small entries ---------- *)
Definition small (delta : Q) (M : mat) : Prop :=
  Forall (Forall (fun e => - delta <= e /\ e <= delta)) M.

Lemma prod_bound (delta e a b : Q) : 0 <= delta -> - delta <= e -> e <= delta ->
  - (delta * ((a * a + b * b) / 2)) <= e * (a * b).
Proof.
  intros Hd H1 H2.
  assert (Hs1 : 0 <= (a + b) * (a + b)) by apply Qsq_nonneg.
  assert (Hs2 : 0 <= (a - b) * (a - b)) by apply Qsq_nonneg.
  set (m := (a * a + b * b) / 2) in *.
  assert (Hm2 : 2 * m == a * a + b * b) by (unfold m; field).
  assert (Hab1 : a * b <= m) by lra.
  assert (Hab2 : - m <= a * b) by lra.
  assert (Hm : 0 <= m).
  { assert (0 <= a * a) by apply Qsq_nonneg. assert (0 <= b * b) by apply Qsq_nonneg. lra. }
  destruct (Qlt_le_dec (a * b) 0) as [Hn|Hp].
  - (* ab < 0: e*(ab) >= delta*(ab) >= -delta*m *)
    assert (e * (a * b) >= delta * (a * b)).
    { setoid_replace (e * (a * b)) with (- (e * (- (a * b)))) by ring.
      setoid_replace (delta * (a * b)) with (- (delta * (- (a * b)))) by ring.
      apply Qopp_le_compat. apply Qmult_le_compat_r; lra. }
    assert (delta * (a * b) >= delta * (- m)).
    { rewrite (Qmult_comm delta (a * b)), (Qmult_comm delta (- m)). apply Qmult_le_compat_r; lra. }
    lra.
  - assert (e * (a * b) >= (- delta) * (a * b)) by (apply Qmult_le_compat_r; lra).
    assert (delta * (a * b) <= delta * m).
    { rewrite (Qmult_comm delta (a * b)), (Qmult_comm delta m). apply Qmult_le_compat_r; lra. }
    lra.
Qed.

(* one row:  a * (row . x) >= -delta/2 * (len * a^2 + x.x) *)
Lemma row_bound delta a : 0 <= delta -> forall row x, length row = length x ->
  Forall (fun e => - delta <= e /\ e <= delta) row ->
  - (delta * ((inject_Z (Z.of_nat (length x)) * (a * a) + dot x x) / 2)) <= a * dot row x.
Proof.
  intros Hd. induction row as [|e row IH]; intros [|b x] Hl Hs; simpl in *; try discriminate.
  - setoid_replace ((0 * (a * a) + 0) / 2) with 0 by field. lra.
  - inversion Hs as [|? ? [He1 He2] Hs']; subst.
    specialize (IH x ltac:(lia) Hs').
    pose proof (prod_bound delta e a b Hd He1 He2) as Hp.
    rewrite Zpos_P_of_succ_nat. rewrite <- Z.add_1_r, inject_Z_plus. change (inject_Z 1) with 1.
    setoid_replace (a * (e * b + dot row x)) with (e * (a * b) + a * dot row x) by ring.
    setoid_replace (((inject_Z (Z.of_nat (length x)) + 1) * (a * a) + (b * b + dot x x)) / 2)
      with ((a * a + b * b) / 2 + (inject_Z (Z.of_nat (length x)) * (a * a) + dot x x) / 2)
      by field.
    lra.
Qed.

Lemma qf_small delta n : 0 <= delta -> forall E x, wf n E -> length x = n -> small delta E ->
  - (inject_Z (Z.of_nat n) * delta) * dot x x <= qf E x.
Proof.
  intros Hd E x [Hl Hr] Hx Hs. unfold qf, mv.
  (* generalise over the list of rows zipped with a prefix of x *)
  assert (G : forall (rows : mat) (y : vec), length rows = length y ->
            Forall (fun r => length r = length x) rows ->
            Forall (Forall (fun e => - delta <= e /\ e <= delta)) rows ->
            - (delta * ((inject_Z (Z.of_nat (length x)) * dot y y
                         + inject_Z (Z.of_nat (length y)) * dot x x) / 2))
            <= dot y (map (fun r => dot r x) rows)).
  { induction rows as [|r rows IH]; intros [|a y] Hly Hlen Hsm; simpl in *; try discriminate.
    - setoid_replace ((inject_Z (Z.of_nat (length x)) * 0 + 0 * dot x x) / 2) with 0 by field. lra.
    - inversion Hlen; inversion Hsm; subst.
      specialize (IH y ltac:(lia) H2 H6).
      pose proof (row_bound delta a Hd r x H1 H5) as Hrow.
      rewrite Zpos_P_of_succ_nat. rewrite <- Z.add_1_r, inject_Z_plus. change (inject_Z 1) with 1.
      setoid_replace ((inject_Z (Z.of_nat (length x)) * (a * a + dot y y)
                        + (inject_Z (Z.of_nat (length y)) + 1) * dot x x) / 2)
        with ((inject_Z (Z.of_nat (length x)) * (a * a) + dot x x) / 2
              + (inject_Z (Z.of_nat (length x)) * dot y y
                 + inject_Z (Z.of_nat (length y)) * dot x x) / 2)
        by field.
      lra. }
  specialize (G E x ltac:(lia)).
  assert (Hrows : Forall (fun r : list Q => length r = length x) E).
  { apply Forall_forall. intros r Hin. rewrite Forall_forall in Hr. rewrite (Hr r Hin). lia. }
  specialize (G Hrows Hs). rewrite Hx in G.
  setoid_replace ((inject_Z (Z.of_nat n) * dot x x + inject_Z (Z.of_nat n) * dot x x) / 2)
    with (inject_Z (Z.of_nat n) * dot x x) in G by field.
  lra.
Qed.

(* ---------- rounding a matrix ---------- *)
Lemma mround_wf q n M : wf n M -> wf n (mround q M).
Proof.
  intros [Hl Hr]. unfold mround. split; [rewrite map_length; exact Hl|].
  apply Forall_forall. intros r Hin. apply in_map_iff in Hin as [r' [<- Hin']].
  rewrite map_length. rewrite Forall_forall in Hr. apply Hr. exact Hin'.
Qed.

Lemma small_msub_round q n M : wf n M -> small (grid q) (msub M (mround q M)).
Proof.
  intros [Hl Hr]. unfold small, msub, mround.
  apply Forall_forall. intros row Hin. apply in_map_iff in Hin as [[r s] [<- Hin]].
  assert (Hs : s = map (qround q) r).
  { clear - Hin. revert Hin. generalize M. induction M0 as [|r0 M0 IH]; simpl; intro Hin; [contradiction|].
    destruct Hin as [Hin|Hin]; [inversion Hin; reflexivity | apply IH; exact Hin]. }
  subst s. clear Hin.
  apply Forall_forall. intros e He. unfold vred in He. apply in_map_iff in He as [e' [<- He']].
  rewrite qnorm_correct.
  assert (He'' : exists a, e' = a - qround q a).
  { clear - He'. revert He'. induction r as [|a r IH]; simpl; intro H; [contradiction|].
    destruct H as [H|H]; [exists a; symmetry; exact H | apply IH; exact H]. }
  destruct He'' as [a ->]. pose proof (qround_err q a) as [H1 H2]. pose proof (grid_pos q). split; lra.
Qed.

Definition psd_check_rounded (q : positive) (n : nat) (M : mat) : bool :=
  is_square n M &&
  psd_check n (add_ridge (- (inject_Z (Z.of_nat n) * grid q)) (mround q M)).

Theorem psd_check_rounded_sound q n M :
  psd_check_rounded q n M = true -> forall x, length x = n -> 0 <= qf M x.
Proof.
  unfold psd_check_rounded. intros H x Hx. apply andb_true_iff in H as [Hsq Hc].
  pose proof (is_square_wf _ _ Hsq) as Hwf.
  pose proof (mround_wf q n M Hwf) as Hwfr.
  pose proof (psd_check_sound _ _ Hc x Hx) as P.
  rewrite (qf_add_ridge n) in P by assumption.
  pose proof (qf_msub n M (mround q M) x Hwf Hwfr) as Hd.
  pose proof (qf_small (grid q) n ltac:(pose proof (grid_pos q); lra) (msub M (mround q M)) x
                (msub_wf n _ _ Hwf Hwfr) Hx (small_msub_round q n M Hwf)) as Hsm.
  lra.
Qed.
