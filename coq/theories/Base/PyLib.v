(* Base/PyLib.v — Gallina counterparts of the Python list / int idioms that the translator
   (tools/py2v.py) emits.  Definitions only + a few characterising lemmas.  Everything is over Z
   and list; no axioms. *)
From Coq Require Export ZArith List Bool Lia.
Export ListNotations.
Open Scope Z_scope.

Definition is_nil {A} (l : list A) : bool := match l with [] => true | _ => false end.
Definition truthy_list {A} (l : list A) : bool := negb (is_nil l).
Definition truthy_z (z : Z) : bool := negb (z =? 0).

Definition zlen {A} (l : list A) : Z := Z.of_nat (length l).

(* range(n) *)
Definition zrange (n : Z) : list Z := map Z.of_nat (seq 0 (Z.to_nat n)).
(* range(a, b) *)
Definition zrange2 (a b : Z) : list Z := map (fun k => a + Z.of_nat k) (seq 0 (Z.to_nat (b - a))).

Fixpoint enumerate_from {A} (k : Z) (l : list A) : list (Z * A) :=
  match l with [] => [] | x :: t => (k, x) :: enumerate_from (k + 1) t end.
Definition enumerate_z {A} (l : list A) : list (Z * A) := enumerate_from 0 l.

Fixpoint zip {A B} (l1 : list A) (l2 : list B) : list (A * B) :=
  match l1, l2 with x :: t1, y :: t2 => (x, y) :: zip t1 t2 | _, _ => [] end.

Definition sum_z (l : list Z) : Z := fold_left Z.add l 0.
Definition prod_z (l : list Z) : Z := fold_left Z.mul l 1.
Definition count_true (l : list bool) : Z := zlen (filter (fun b => b) l).

Fixpoint min_list_z (l : list Z) (default : Z) : Z :=
  match l with [] => default | x :: t => match t with [] => x | _ => Z.min x (min_list_z t default) end end.
Fixpoint max_list_z (l : list Z) (default : Z) : Z :=
  match l with [] => default | x :: t => match t with [] => x | _ => Z.max x (max_list_z t default) end end.

Definition repeat_z {A} (x : A) (n : Z) : list A := repeat x (Z.to_nat n).

(* Python index normalisation for a list of length n: negative indices count from the end. *)
Definition norm_index (n i : Z) : Z := if i <? 0 then i + n else i.
(* slice bound clamp as Python does for step 1 *)
Definition clamp_slice (n i : Z) : Z :=
  let j := if i <? 0 then i + n else i in Z.max 0 (Z.min n j).

Definition nth_z {A} (l : list A) (i : Z) (d : A) : A :=
  let j := norm_index (zlen l) i in
  if (j <? 0) then d else nth (Z.to_nat j) l d.

(* l[a:b] ; None bounds are passed as 0 / len *)
Definition slice {A} (l : list A) (a b : Z) : list A :=
  let n := zlen l in
  let a' := clamp_slice n a in
  let b' := clamp_slice n b in
  firstn (Z.to_nat (b' - a')) (skipn (Z.to_nat a') l).
Definition slice_from {A} (l : list A) (a : Z) : list A := slice l a (zlen l).
Definition slice_to {A} (l : list A) (b : Z) : list A := slice l 0 b.

(* l[i] = v  (in-place store becomes a new list); out-of-range index leaves the list unchanged,
   which the translator never relies on: stores are only emitted for constant index -1 on
   non-empty lists. *)
Fixpoint set_nth {A} (l : list A) (k : nat) (v : A) : list A :=
  match l, k with
  | [], _ => []
  | _ :: t, O => v :: t
  | x :: t, S k' => x :: set_nth t k' v
  end.
Definition set_z {A} (l : list A) (i : Z) (v : A) : list A :=
  let j := norm_index (zlen l) i in
  if (j <? 0) then l else set_nth l (Z.to_nat j) v.

Fixpoint list_eqb_z (l1 l2 : list Z) : bool :=
  match l1, l2 with
  | [], [] => true
  | x :: t1, y :: t2 => (x =? y) && list_eqb_z t1 t2
  | _, _ => false
  end.

(* itertools.product( *ls ): cartesian product, last factor varies fastest *)
Fixpoint cart_prod {A} (ls : list (list A)) : list (list A) :=
  match ls with
  | [] => [[]]
  | l :: rest => flat_map (fun x => map (fun t => x :: t) (cart_prod rest)) l
  end.

Definition flat {A} (ls : list (list A)) : list A := flat_map (fun x => x) ls.

(* Python floor division and modulo on ints coincide with Z.div / Z.modulo (floor semantics,
   sign of the divisor); Python raises on a zero divisor where Coq returns 0 — the translator
   only accepts // and % whose divisor the property statement constrains to be non-zero, and the
   theorems carry that hypothesis. *)

Lemma list_eqb_z_spec l1 l2 : list_eqb_z l1 l2 = true <-> l1 = l2.
Proof.
  revert l2; induction l1 as [|x t IH]; intros [|y t2]; simpl; split; intro H;
    try reflexivity; try discriminate.
  - apply andb_true_iff in H as [H1 H2]. apply Z.eqb_eq in H1. apply IH in H2. congruence.
  - inversion H; subst. rewrite Z.eqb_refl. simpl. apply IH. reflexivity.
Qed.

Lemma zlen_nonneg {A} (l : list A) : 0 <= zlen l.
Proof. unfold zlen. lia. Qed.

Lemma zlen_app {A} (l1 l2 : list A) : zlen (l1 ++ l2) = zlen l1 + zlen l2.
Proof. unfold zlen. rewrite app_length. lia. Qed.

Lemma zlen_cons {A} (x : A) l : zlen (x :: l) = 1 + zlen l.
Proof. unfold zlen. simpl length. lia. Qed.

Lemma fold_add_acc l a : fold_left Z.add l a = a + fold_left Z.add l 0.
Proof.
  revert a; induction l as [|x t IH]; intro a; simpl; [lia|].
  rewrite IH. rewrite (IH x). lia.
Qed.

Lemma sum_z_cons x l : sum_z (x :: l) = x + sum_z l.
Proof. unfold sum_z. simpl. rewrite fold_add_acc. lia. Qed.

Lemma sum_z_app l1 l2 : sum_z (l1 ++ l2) = sum_z l1 + sum_z l2.
Proof. induction l1 as [|x t IH]; [reflexivity|]. simpl app. rewrite !sum_z_cons, IH. lia. Qed.

Lemma fold_mul_acc l a : fold_left Z.mul l a = a * fold_left Z.mul l 1.
Proof.
  revert a; induction l as [|x t IH]; intro a; cbn [fold_left]; [lia|].
  rewrite IH. rewrite (IH (1 * x)). lia.
Qed.

Lemma prod_z_cons x l : prod_z (x :: l) = x * prod_z l.
Proof. unfold prod_z. cbn [fold_left]. rewrite fold_mul_acc. lia. Qed.

Lemma prod_z_app l1 l2 : prod_z (l1 ++ l2) = prod_z l1 * prod_z l2.
Proof.
  induction l1 as [|x t IH].
  - cbn [app]. unfold prod_z at 2. cbn [fold_left]. lia.
  - cbn [app]. rewrite !prod_z_cons, IH. lia.
Qed.

Lemma prod_z_nil : prod_z [] = 1. Proof. reflexivity. Qed.
Lemma sum_z_nil : sum_z [] = 0. Proof. reflexivity. Qed.
