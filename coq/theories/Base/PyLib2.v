(* Base/PyLib2.v — further Python idioms for the translator (kept apart from PyLib.v so that adding
   them does not rebuild every theory). *)
From Coq Require Import ZArith List.
Import ListNotations.
Open Scope Z_scope.

(* range(lo, hi, step) for step > 0 ([] for step <= 0, where Python raises for 0 and counts down for
   negative steps: callers state step > 0) *)
Definition zrange3 (lo hi step : Z) : list Z :=
  if step <=? 0 then []
  else map (fun k => lo + Z.of_nat k * step) (seq 0 (Z.to_nat ((hi - lo + step - 1) / step))).
