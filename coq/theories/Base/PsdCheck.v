(* Base/PsdCheck.v — a verified positive-semidefiniteness checker on rational matrices.
   ldl_psd n M = true  ->  forall x of length n, 0 <= x^T M x.
   (Symmetric elimination without pivoting on the symmetrised matrix; complete only for matrices
   it accepts — a [false] answer proves nothing and is treated by the harness as "not shown".)
   No axioms. *)
From Precond Require Import Base.QMat.
From Coq Require Import Lqa Lia.
Open Scope Q_scope.

Definition wf (n : nat) (M : mat) : Prop := length M = n /\ Forall (fun r => length r = n) M.

(* fraction-free Schur complement  a*C - w w^T  (a > 0): PSD iff C - w w^T / a is, and dyadic
   entries stay dyadic *)
Definition schur (a : Q) (ws : vec) (C : mat) : mat :=
  map (fun '(wi, Ci) => map (fun '(c, wj) => qnorm (a * c - wi * wj)) (combine Ci ws)) (combine ws C).

Definition sym_avg (w wc : vec) : vec := map (fun '(u, v) => (u + v) / 2) (combine w wc).

Fixpoint ldl_psd (n : nat) (M : mat) : bool :=
  match n with
  | O => true
  | S n' =>
    match M with
    | (a :: w) :: rest =>
       let wc := map (hd 0) rest in
       let ws := sym_avg w wc in
       let C := map (@tl Q) rest in
       if Qltb 0 a then ldl_psd n' (schur a ws C)
       else if Qeq_bool a 0 then forallb (fun z => Qeq_bool z 0) ws && ldl_psd n' C
       else false
    | _ => false
    end
  end.

(* ---------- algebra ---------- *)
Lemma dot_sym_avg : forall w wc x, length w = length wc ->
  dot (sym_avg w wc) x == (dot w x + dot wc x) / 2.
Proof.
  unfold sym_avg.
  induction w as [|a w IH]; intros [|b wc] x H; simpl in *; try discriminate.
  - field.
  - destruct x as [|c x]; simpl; [field|].
    rewrite IH by lia. field.
Qed.

Lemma dot_zero_vec : forall ws x, forallb (fun z => Qeq_bool z 0) ws = true -> dot ws x == 0.
Proof.
  induction ws as [|a ws IH]; intros x H; simpl in *; [reflexivity|].
  apply andb_true_iff in H as [Ha Hw]. apply Qeq_bool_iff in Ha.
  destruct x as [|c x]; [reflexivity|]. rewrite IH by exact Hw. rewrite Ha. ring.
Qed.

Lemma row_dot a wi : forall Ci ws x, length Ci = length ws ->
  dot (map (fun '(c, wj) => qnorm (a * c - wi * wj)) (combine Ci ws)) x
  == a * dot Ci x - wi * dot ws x.
Proof.
  induction Ci as [|c Ci IH]; intros [|wj ws] x H; cbn [combine map dot length] in *; try discriminate.
  - ring.
  - destruct x as [|b x]; cbn [dot]; [ring|].
    rewrite (qnorm_correct (a * c - wi * wj)). rewrite IH by lia. ring.
Qed.

Lemma map_snd_combine_fun {A B C} (f : B -> C) : forall (l : list A) (l' : list B),
  length l = length l' -> map (fun p : A * B => f (snd p)) (combine l l') = map f l'.
Proof. induction l; intros [|b l'] H; simpl in *; try discriminate; [reflexivity|]. f_equal. apply IHl. lia. Qed.

Lemma map_fst_combine_fun {A B} : forall (l : list A) (l' : list B),
  length l = length l' -> map (fun p : A * B => fst p) (combine l l') = l.
Proof. induction l; intros [|b l'] H; simpl in *; try discriminate; [reflexivity|]. f_equal. apply IHl. lia. Qed.

Lemma qf_schur a : forall n C ws x,
  wf n C -> length ws = n ->
  qf (schur a ws C) x == a * qf C x - (dot ws x) * (dot ws x).
Proof.
  intros n C ws x [HlC HrC] Hws.
  unfold qf, mv, schur. rewrite map_map.
  assert (E : dot x (map (fun p : Q * vec =>
              dot (let '(wi, Ci) := p in map (fun '(c, wj) => qnorm (a * c - wi * wj)) (combine Ci ws)) x)
              (combine ws C))
           == dot x (map (fun p : Q * vec => dot (snd p) x * a + (fst p) * (- (dot ws x))) (combine ws C))).
  { apply dot_map_ext. intros [wi Ci] Hin. cbn [fst snd].
    assert (HL : length Ci = length ws).
    { apply in_combine_r in Hin. rewrite Forall_forall in HrC. rewrite (HrC Ci Hin). lia. }
    rewrite (row_dot a wi Ci ws x HL). ring. }
  rewrite E. rewrite dot_map_add. rewrite !dot_map_scale.
  rewrite (map_snd_combine_fun (fun r => dot r x)) by lia.
  rewrite map_fst_combine_fun by lia.
  rewrite (dot_comm x ws). ring.
Qed.

Lemma wf_schur a n C ws : wf n C -> length ws = n -> wf n (schur a ws C).
Proof.
  intros [HlC HrC] Hws. unfold schur. split.
  - rewrite map_length, combine_length. lia.
  - apply Forall_forall. intros r Hr. apply in_map_iff in Hr as [[wi Ci] [<- Hin]].
    rewrite map_length, combine_length. apply in_combine_r in Hin.
    rewrite Forall_forall in HrC. rewrite (HrC Ci Hin). lia.
Qed.

Lemma wf_tails n a w rest : wf (S n) ((a :: w) :: rest) ->
  wf n (map (@tl Q) rest) /\ length w = n /\ length (map (hd 0) rest) = n.
Proof.
  intros [Hl Hr]. cbn [length] in Hl.
  assert (Hr0 : length (a :: w) = S n) by (inversion Hr; assumption).
  assert (Hrest : Forall (fun r : vec => length r = S n) rest) by (inversion Hr; assumption).
  cbn [length] in Hr0.
  split; [split|split].
  - rewrite map_length. lia.
  - apply Forall_forall. intros r Hin. apply in_map_iff in Hin as [r' [<- Hin']].
    rewrite Forall_forall in Hrest. specialize (Hrest r' Hin'). destruct r'; cbn [length tl] in *; lia.
  - lia.
  - rewrite map_length. lia.
Qed.

Lemma qf_cons n a w rest x0 x : wf (S n) ((a :: w) :: rest) ->
  qf ((a :: w) :: rest) (x0 :: x) ==
  a * x0 * x0 + x0 * dot w x + x0 * dot (map (hd 0) rest) x + qf (map (@tl Q) rest) x.
Proof.
  intros [Hl Hr].
  assert (Hrest : Forall (fun r : vec => length r = S n) rest) by (inversion Hr; assumption).
  unfold qf, mv. cbn [map dot].
  assert (E : dot x (map (fun r : vec => dot r (x0 :: x)) rest)
           == dot x (map (fun r : vec => dot (tl r) x + hd 0 r * x0) rest)).
  { apply dot_map_ext. intros r Hin. rewrite Forall_forall in Hrest. specialize (Hrest r Hin).
    destruct r as [|c r']; simpl in *; [discriminate|]. ring. }
  rewrite E. rewrite dot_map_add, dot_map_scale. rewrite map_map.
  rewrite (dot_comm x (map (hd 0) rest)). ring.
Qed.

Lemma Qsq_nonneg (y : Q) : 0 <= y * y.
Proof.
  destruct (Qlt_le_dec y 0) as [H|H].
  - setoid_replace (y * y) with ((- y) * (- y)) by ring. apply Qmult_le_0_compat; lra.
  - apply Qmult_le_0_compat; lra.
Qed.

Theorem ldl_psd_sound : forall n M, wf n M -> ldl_psd n M = true ->
  forall x, length x = n -> 0 <= qf M x.
Proof.
  induction n as [|n IH]; intros M Hwf Hchk x Hx.
  - destruct x; [|discriminate]. unfold qf. simpl. lra.
  - destruct M as [|[|a w] rest]; simpl in Hchk; try discriminate.
    destruct x as [|x0 x]; [discriminate|]. simpl in Hx.
    destruct (wf_tails n a w rest Hwf) as [HwfC [Hw Hwc]].
    rewrite (qf_cons n a w rest x0 x Hwf).
    set (wc := map (hd 0) rest) in *. set (C := map (@tl Q) rest) in *.
    set (ws := sym_avg w wc) in *.
    assert (Hws : length ws = n).
    { unfold ws, sym_avg. rewrite map_length, combine_length. lia. }
    assert (Hd : dot ws x == (dot w x + dot wc x) / 2) by (apply dot_sym_avg; lia).
    destruct (Qltb 0 a) eqn:Ea.
    + apply Qltb_true in Ea.
      assert (Ha : ~ a == 0) by lra.
      pose proof (IH (schur a ws C) (wf_schur a n C ws HwfC Hws) Hchk x ltac:(lia)) as Hs.
      rewrite (qf_schur a n C ws x HwfC Hws) in Hs.
      set (d := dot ws x) in *. set (q := qf C x) in *.
      assert (Hsum : dot w x + dot wc x == 2 * d) by (rewrite Hd; field).
      assert (Hsq : 0 <= (a * x0 + d) * (a * x0 + d)) by apply Qsq_nonneg.
      assert (Hgoal : a * (a * x0 * x0 + x0 * dot w x + x0 * dot wc x + q)
                      == (a * x0 + d) * (a * x0 + d) + (a * q - d * d)).
      { transitivity (a * (a * x0 * x0 + x0 * (dot w x + dot wc x) + q)); [ring|].
        rewrite Hsum. ring. }
      assert (Hpos : 0 <= a * (a * x0 * x0 + x0 * dot w x + x0 * dot wc x + q)) by (rewrite Hgoal; lra).
      set (E := a * x0 * x0 + x0 * dot w x + x0 * dot wc x + q) in *.
      destruct (Qlt_le_dec E 0) as [Hneg|Hok]; [|exact Hok].
      exfalso. assert (a * E < 0).
      { setoid_replace (a * E) with (- (a * (- E))) by ring.
        assert (0 < a * (- E)) by (apply Qmult_lt_0_compat; lra). lra. }
      lra.
    + destruct (Qeq_bool a 0) eqn:E0; [|discriminate].
      apply Qeq_bool_iff in E0. apply andb_true_iff in Hchk as [Hz HC].
      pose proof (dot_zero_vec ws x Hz) as Hz0.
      pose proof (IH C HwfC HC x ltac:(lia)) as Hs.
      assert (Hsum : dot w x + dot wc x == 0).
      { setoid_replace (dot w x + dot wc x) with (2 * ((dot w x + dot wc x) / 2)) by field.
        rewrite <- Hd, Hz0. ring. }
      assert (Hgoal : a * x0 * x0 + x0 * dot w x + x0 * dot wc x + qf C x == qf C x).
      { transitivity (a * x0 * x0 + x0 * (dot w x + dot wc x) + qf C x); [ring|].
        rewrite Hsum, E0. ring. }
      rewrite Hgoal. exact Hs.
Qed.

(* Shifted check used on numerically computed matrices: M + tau * I (structural definition so
   that its quadratic form can be characterised). *)
Fixpoint add_ridge_n (n : nat) (tau : Q) (M : mat) : mat :=
  match n with
  | O => []
  | S n' =>
    match M with
    | (a :: w) :: rest =>
        ((a + tau) :: w) ::
        map (fun '(c, r) => c :: r) (combine (map (hd 0) rest) (add_ridge_n n' tau (map (@tl Q) rest)))
    | _ => M
    end
  end.
Definition add_ridge (tau : Q) (M : mat) : mat := add_ridge_n (length M) tau M.

Lemma map_hd_cons_combine : forall (h : vec) (T : mat), length h = length T ->
  map (hd 0) (map (fun '(c, r) => c :: r) (combine h T)) = h.
Proof. induction h as [|c h IH]; intros [|r T] H; simpl in *; try discriminate; [reflexivity|]. f_equal. apply IH. lia. Qed.

Lemma map_tl_cons_combine : forall (h : vec) (T : mat), length h = length T ->
  map (@tl Q) (map (fun '(c, r) => c :: r) (combine h T)) = T.
Proof. induction h as [|c h IH]; intros [|r T] H; simpl in *; try discriminate; [reflexivity|]. f_equal. apply IH. lia. Qed.

Lemma add_ridge_n_wf : forall n tau M, wf n M -> wf n (add_ridge_n n tau M).
Proof.
  induction n as [|n IH]; intros tau M Hwf.
  - destruct Hwf as [Hl _]. split; [reflexivity | constructor].
  - destruct M as [|[|a w] rest]; try exact Hwf.
    destruct (wf_tails n a w rest Hwf) as [HwfC [Hw Hwc]].
    destruct (IH tau _ HwfC) as [Hl' Hr']. cbn [add_ridge_n]. split.
    + cbn [length]. rewrite map_length, combine_length. lia.
    + constructor; [cbn [length]; lia|].
      apply Forall_forall. intros r Hr. apply in_map_iff in Hr as [[c r'] [<- Hin]].
      apply in_combine_r in Hin. rewrite Forall_forall in Hr'. cbn [length]. rewrite (Hr' r' Hin). reflexivity.
Qed.

Lemma qf_add_ridge_n : forall n tau M x, wf n M -> length x = n ->
  qf (add_ridge_n n tau M) x == qf M x + tau * dot x x.
Proof.
  induction n as [|n IH]; intros tau M x Hwf Hx.
  - destruct x; [|discriminate]. destruct Hwf as [Hl _]. destruct M; [|discriminate].
    unfold qf. simpl. ring.
  - destruct M as [|[|a w] rest]; try (destruct Hwf as [Hl Hr]; simpl in Hl; try discriminate;
      inversion Hr; simpl in *; discriminate).
    destruct x as [|x0 x]; [discriminate|]. simpl in Hx.
    destruct (wf_tails n a w rest Hwf) as [HwfC [Hw Hwc]].
    pose proof (add_ridge_n_wf n tau _ HwfC) as HwfR. destruct HwfR as [HlR HrR].
    assert (Hwf' : wf (S n) (add_ridge_n (S n) tau ((a :: w) :: rest))) by (apply add_ridge_n_wf; exact Hwf).
    cbn [add_ridge_n] in *.
    rewrite (qf_cons n (a + tau) w _ x0 x Hwf').
    rewrite map_hd_cons_combine by (rewrite map_length in Hwc; rewrite map_length; lia).
    rewrite map_tl_cons_combine by (rewrite map_length in Hwc; rewrite map_length; lia).
    rewrite (IH tau _ x HwfC ltac:(lia)).
    rewrite (qf_cons n a w rest x0 x Hwf). cbn [dot]. ring.
Qed.

Lemma qf_add_ridge n tau M x : wf n M -> length x = n ->
  qf (add_ridge tau M) x == qf M x + tau * dot x x.
Proof. intros Hwf Hx. unfold add_ridge. destruct Hwf as [Hl Hr]. rewrite Hl. apply qf_add_ridge_n; [split; assumption | exact Hx]. Qed.

Lemma add_ridge_wf n tau M : wf n M -> wf n (add_ridge tau M).
Proof. intros Hwf. unfold add_ridge. destruct Hwf as [Hl Hr]. rewrite Hl. apply add_ridge_n_wf. split; assumption. Qed.

(* quadratic form of a difference *)
Lemma dot_vred : forall v x, dot (vred v) x == dot v x.
Proof.
  induction v as [|a v IH]; intros [|b x]; cbn [vred map dot]; try reflexivity.
  fold (vred v). rewrite IH. rewrite (qnorm_correct a). reflexivity.
Qed.

Lemma dot_vsub : forall r s x, length r = length s -> dot (vsub r s) x == dot r x - dot s x.
Proof.
  induction r as [|a r IH]; intros [|b s] x H; simpl in *; try discriminate; [ring|].
  destruct x as [|c x]; simpl; [ring|]. rewrite IH by lia. ring.
Qed.

Lemma qf_msub n A B x : wf n A -> wf n B -> qf (msub A B) x == qf A x - qf B x.
Proof.
  intros [HlA HrA] [HlB HrB]. unfold qf, mv, msub. rewrite map_map.
  assert (E : dot x (map (fun p : vec * vec => dot (let '(r, s) := p in vred (vsub r s)) x) (combine A B))
           == dot x (map (fun p : vec * vec => dot (fst p) x + dot (snd p) x * (- (1))) (combine A B))).
  { apply dot_map_ext. intros [r s] Hin. cbn [fst snd].
    rewrite dot_vred. rewrite dot_vsub; [ring|].
    pose proof (in_combine_l _ _ _ _ Hin) as H1. pose proof (in_combine_r _ _ _ _ Hin) as H2.
    rewrite Forall_forall in HrA, HrB. rewrite (HrA r H1), (HrB s H2). reflexivity. }
  rewrite E. rewrite dot_map_add, dot_map_scale.
  rewrite (map_snd_combine_fun (fun r => dot r x)) by lia.
  assert (F : map (fun r : vec * vec => dot (fst r) x) (combine A B) = map (fun r => dot r x) A).
  { clear E HrA HrB. revert B HlB. revert HlA. revert n.
    induction A as [|r A IH]; intros n HlA [|s B] HlB; simpl in *; try reflexivity; try lia.
    f_equal. destruct n; [discriminate|]. apply (IH n); lia. }
  rewrite F. ring.
Qed.

Lemma msub_wf n A B : wf n A -> wf n B -> wf n (msub A B).
Proof.
  intros [HlA HrA] [HlB HrB]. unfold msub. split.
  - rewrite map_length, combine_length. lia.
  - apply Forall_forall. intros r Hr. apply in_map_iff in Hr as [[a b] [<- Hin]].
    pose proof (in_combine_l _ _ _ _ Hin) as H1. pose proof (in_combine_r _ _ _ _ Hin) as H2.
    rewrite Forall_forall in HrA, HrB. unfold vred. rewrite map_length.
    assert (forall u v : vec, length u = length v -> length (vsub u v) = length u) as L.
    { induction u as [|p u IHu]; intros [|q v] H; simpl in *; try discriminate; [reflexivity|]. f_equal. apply IHu. lia. }
    rewrite L; [apply HrA; exact H1 | rewrite (HrA a H1), (HrB b H2); reflexivity].
Qed.

Definition is_square (n : nat) (M : mat) : bool :=
  Nat.eqb (length M) n && forallb (fun r => Nat.eqb (length r) n) M.

Lemma is_square_wf n M : is_square n M = true -> wf n M.
Proof.
  unfold is_square. intro H. apply andb_true_iff in H as [H1 H2]. split.
  - apply Nat.eqb_eq. exact H1.
  - apply Forall_forall. intros r Hr. rewrite forallb_forall in H2. apply Nat.eqb_eq. auto.
Qed.

Definition psd_check (n : nat) (M : mat) : bool := is_square n M && ldl_psd n M.

Theorem psd_check_sound n M : psd_check n M = true -> forall x, length x = n -> 0 <= qf M x.
Proof.
  unfold psd_check. intro H. apply andb_true_iff in H as [H1 H2].
  apply ldl_psd_sound; [apply is_square_wf; exact H1 | exact H2].
Qed.

Lemma dot_vscale c : forall r x, dot (vscale c r) x == c * dot r x.
Proof.
  induction r as [|a r IH]; intros x; simpl; [ring|].
  destruct x as [|b x]; simpl; [ring|]. unfold vscale in IH. rewrite IH. ring.
Qed.

Lemma qf_mscale c A x : qf (mscale c A) x == c * qf A x.
Proof.
  unfold qf, mv, mscale. rewrite map_map.
  assert (E : dot x (map (fun r : vec => dot (vred (vscale c r)) x) A)
           == dot x (map (fun r : vec => dot r x * c) A)).
  { apply dot_map_ext. intros r _. rewrite dot_vred, dot_vscale. ring. }
  rewrite E, dot_map_scale. reflexivity.
Qed.

Lemma mscale_wf n c A : wf n A -> wf n (mscale c A).
Proof.
  intros [Hl Hr]. unfold mscale. split; [rewrite map_length; exact Hl|].
  apply Forall_forall. intros r Hin. apply in_map_iff in Hin as [r' [<- Hin']].
  unfold vred, vscale. rewrite !map_length. rewrite Forall_forall in Hr. apply Hr. exact Hin'.
Qed.

(* ---------- quadratic forms of sums and outer products ---------- *)
Lemma dot_vadd : forall r s x, length r = length s -> dot (vadd r s) x == dot r x + dot s x.
Proof.
  induction r as [|a r IH]; intros [|b s] x H; simpl in *; try discriminate; [ring|].
  destruct x as [|c x]; simpl; [ring|]. rewrite IH by lia. ring.
Qed.

Lemma qf_madd n A B x : wf n A -> wf n B -> qf (madd A B) x == qf A x + qf B x.
Proof.
  intros [HlA HrA] [HlB HrB]. unfold qf, mv, madd. rewrite map_map.
  assert (E : dot x (map (fun p : vec * vec => dot (let '(r, s) := p in vred (vadd r s)) x) (combine A B))
           == dot x (map (fun p : vec * vec => dot (fst p) x + dot (snd p) x) (combine A B))).
  { apply dot_map_ext. intros [r s] Hin. cbn [fst snd].
    rewrite dot_vred. rewrite dot_vadd; [reflexivity|].
    pose proof (in_combine_l _ _ _ _ Hin) as H1. pose proof (in_combine_r _ _ _ _ Hin) as H2.
    rewrite Forall_forall in HrA, HrB. rewrite (HrA r H1), (HrB s H2). reflexivity. }
  rewrite E. rewrite dot_map_add.
  rewrite (map_snd_combine_fun (fun r => dot r x)) by lia.
  assert (F : map (fun r : vec * vec => dot (fst r) x) (combine A B) = map (fun r => dot r x) A).
  { clear E HrA HrB. revert B HlB. revert HlA. revert n.
    induction A as [|r A IH]; intros n HlA [|s B] HlB; simpl in *; try reflexivity; try lia.
    f_equal. destruct n; [discriminate|]. apply (IH n); lia. }
  rewrite F. reflexivity.
Qed.

Lemma madd_wf n A B : wf n A -> wf n B -> wf n (madd A B).
Proof.
  intros [HlA HrA] [HlB HrB]. unfold madd. split.
  - rewrite map_length, combine_length. lia.
  - apply Forall_forall. intros r Hr. apply in_map_iff in Hr as [[a b] [<- Hin]].
    pose proof (in_combine_l _ _ _ _ Hin) as H1. pose proof (in_combine_r _ _ _ _ Hin) as H2.
    rewrite Forall_forall in HrA, HrB. unfold vred. rewrite map_length.
    assert (forall u v : vec, length u = length v -> length (vadd u v) = length u) as L.
    { induction u as [|p u IHu]; intros [|q v] H; simpl in *; try discriminate; [reflexivity|]. f_equal. apply IHu. lia. }
    rewrite L; [apply HrA; exact H1 | rewrite (HrA a H1), (HrB b H2); reflexivity].
Qed.
