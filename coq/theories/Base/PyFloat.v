(* Base/PyFloat.v — combinators emitted by tools/py2v_float.py for jax.numpy code on scalars (Q)
   and flat vectors (list Q); exact arithmetic, square roots by integer square root to 2^-40. *)
From Precond Require Import Base.PyLib Base.QMat.
From Coq Require Import QArith Qround.
Open Scope Q_scope.

Definition sqrt_bits : positive := 40.
(* square roots to 2^-40 RELATIVE: the argument is first scaled by a power of four to at least 1 (an
   absolute 2^-40 is useless for norms of size 1e-10).  k with x * 4^k >= 1 for small x, 0 for x >= 1: *)
Definition sqrt_shift (x : Q) : Z :=
  Z.max 0 ((Z.log2_up (Zpos (Qden x)) - Z.log2 (Qnum x)) / 2 + 1).
Definition sqrt_q (x : Q) : Q :=
  if Qleb x 0 then 0
  else
    let e := (Zpos sqrt_bits + sqrt_shift x)%Z in
    let n := Qfloor (x * inject_Z (2 ^ (2 * e))) in
    (Z.sqrt n) # (Z.to_pos (2 ^ e)).

Definition vnorm (v : vec) : Q := sqrt_q (qnorm (dot v v)).
Definition vsqrt (v : vec) : vec := map sqrt_q v.

Definition truthy_q (x : Q) : bool := negb (Qeq_bool x 0).
Definition b2q (b : bool) : Q := if b then 1 else 0.

Definition vmap2 (f : Q -> Q -> Q) (x y : vec) : vec := map (fun '(a, b) => f a b) (combine x y).
Definition vv_add := vmap2 Qplus.
Definition vv_sub := vmap2 Qminus.
Definition vv_mul := vmap2 Qmult.
Definition vv_div := vmap2 Qdiv.
Definition vs_add (x : vec) (s : Q) : vec := map (fun a => a + s) x.
Definition vs_sub (x : vec) (s : Q) : vec := map (fun a => a - s) x.
Definition vs_mul (x : vec) (s : Q) : vec := map (fun a => a * s) x.
Definition vs_div (x : vec) (s : Q) : vec := map (fun a => a / s) x.
Definition sv_add (s : Q) (x : vec) : vec := map (fun a => s + a) x.
Definition sv_sub (s : Q) (x : vec) : vec := map (fun a => s - a) x.
Definition sv_mul (s : Q) (x : vec) : vec := map (fun a => s * a) x.
Definition sv_div (s : Q) (x : vec) : vec := map (fun a => s / a) x.
Definition vneg (x : vec) : vec := map Qopp x.
Definition vones (x : vec) : vec := map (fun _ => 1) x.
Definition vsign (x : vec) : vec := map (fun a => if Qltb 0 a then 1 else if Qltb a 0 then -(1) else 0) x.
Definition vwhere_eq0 (x : vec) (r : Q) : vec := map (fun a => if Qeq_bool a 0 then r else a) x.
