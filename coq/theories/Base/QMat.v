(* Base/QMat.v — vectors and matrices over Q as lists (rows), executable, with the few algebraic
   lemmas the verified checkers need.  Dyadic inputs (m, e) |-> m * 2^e.  No axioms. *)
From Coq Require Export QArith Qminmax Qabs List ZArith.
From Coq Require Import Lqa Lia.
Export ListNotations.
Open Scope Q_scope.

Notation vec := (list Q) (only parsing).
Notation mat := (list (list Q)) (only parsing).

(* ---------- dyadics ---------- *)
Definition dy2q (d : Z * Z) : Q :=
  let '(m, e) := d in
  if (0 <=? e)%Z then inject_Z (m * 2 ^ e) else (m # (Z.to_pos (2 ^ (- e)))).

Definition dyvec (l : list (Z * Z)) : vec := map dy2q l.
Definition dymat (l : list (list (Z * Z))) : mat := map dyvec l.

(* ---------- cheap normalisation: strip common factors of two ----------
   (all implementation values are dyadic; Qred's gcd on thousand-bit numbers dominated the run
   time, whereas powers of two are removed in linear time.  qnorm q == q for every q.) *)
Fixpoint strip2 (n : Z) (d : positive) : Q :=
  match d with
  | xO d' => if Z.even n then strip2 (Z.div2 n) d' else (n # d)
  | _ => (n # d)
  end.
Definition qnorm (q : Q) : Q :=
  if (Qnum q =? 0)%Z then 0 else strip2 (Qnum q) (Qden q).

Lemma strip2_correct : forall d n, strip2 n d == n # d.
Proof.
  induction d as [d IH|d IH|]; intro n; cbn [strip2]; try reflexivity.
  destruct (Z.even n) eqn:E; [|reflexivity].
  rewrite IH. unfold Qeq. cbn [Qnum Qden].
  rewrite (Z.div2_odd n) at 2. rewrite <- Z.negb_even, E. cbn [negb Z.b2z].
  rewrite Pos2Z.inj_xO. ring.
Qed.

Lemma qnorm_correct q : qnorm q == q.
Proof.
  unfold qnorm. destruct q as [n d]. cbn [Qnum Qden].
  destruct (n =? 0)%Z eqn:E.
  - apply Z.eqb_eq in E. subst. reflexivity.
  - apply strip2_correct.
Qed.

(* ---------- vectors ---------- *)
Fixpoint dot (x y : vec) : Q :=
  match x, y with
  | a :: x', b :: y' => a * b + dot x' y'
  | _, _ => 0
  end.

Definition vscale (c : Q) (x : vec) : vec := map (fun a => c * a) x.
Fixpoint vadd (x y : vec) : vec :=
  match x, y with a :: x', b :: y' => (a + b) :: vadd x' y' | _, _ => [] end.
Fixpoint vsub (x y : vec) : vec :=
  match x, y with a :: x', b :: y' => (a - b) :: vsub x' y' | _, _ => [] end.
Definition vzero (n : nat) : vec := repeat 0 n.
Definition vred (x : vec) : vec := map qnorm x.

(* ---------- matrices ---------- *)
Definition mv (M : mat) (x : vec) : vec := map (fun r => dot r x) M.
Definition qf (M : mat) (x : vec) : Q := dot x (mv M x).

Fixpoint transpose_n (n : nat) (M : mat) : mat :=
  match n with
  | O => []
  | S n' => map (fun r => hd 0 r) M :: transpose_n n' (map (@tl Q) M)
  end.
Definition ncols (M : mat) : nat := match M with [] => O | r :: _ => length r end.
Definition transpose (M : mat) : mat := transpose_n (ncols M) M.

Definition mmul (A B : mat) : mat :=
  let Bt := transpose B in map (fun r => map (fun c => qnorm (dot r c)) Bt) A.
Definition madd (A B : mat) : mat := map (fun '(r, s) => vred (vadd r s)) (combine A B).
Definition msub (A B : mat) : mat := map (fun '(r, s) => vred (vsub r s)) (combine A B).
Definition mscale (c : Q) (A : mat) : mat := map (fun r => vred (vscale c r)) A.
Definition eye_row (n i : nat) : vec := map (fun j => if Nat.eqb i j then 1 else 0) (seq 0 n).
Definition eye (n : nat) : mat := map (eye_row n) (seq 0 n).
Definition diag (d : vec) : mat :=
  let n := length d in
  map (fun '(i, a) => map (fun j => if Nat.eqb i j then a else 0) (seq 0 n)) (combine (seq 0 n) d).

Fixpoint mpow (A : mat) (n : nat) (k : nat) : mat :=   (* A^k, A n x n *)
  match k with O => eye n | S k' => mmul A (mpow A n k') end.

(* fast power by repeated squaring on positive *)
Fixpoint mpow_pos (A : mat) (p : positive) : mat :=
  match p with
  | xH => A
  | xO p' => let B := mpow_pos A p' in mmul B B
  | xI p' => let B := mpow_pos A p' in mmul A (mmul B B)
  end.

Definition maxabs_vec (x : vec) : Q := fold_left (fun m a => Qmax m (Qabs a)) x 0.
Definition maxabs (A : mat) : Q := fold_left (fun m r => Qmax m (maxabs_vec r)) A 0.
Definition trace (A : mat) : Q :=
  fold_left Qplus (map (fun '(i, r) => nth i r 0) (combine (seq 0 (length A)) A)) 0.

Definition Qleb (a b : Q) : bool := if Qlt_le_dec b a then false else true.
Definition Qltb (a b : Q) : bool := if Qlt_le_dec a b then true else false.

Lemma Qleb_true a b : Qleb a b = true <-> a <= b.
Proof. unfold Qleb. destruct (Qlt_le_dec b a); split; intro H; try discriminate; try lra; auto. Qed.
Lemma Qltb_true a b : Qltb a b = true <-> a < b.
Proof. unfold Qltb. destruct (Qlt_le_dec a b); split; intro H; try discriminate; try lra; auto. Qed.

(* all entries of A within tol of B *)
Definition vclose (tol : Q) (x y : vec) : bool :=
  (Nat.eqb (length x) (length y)) && forallb (fun '(a, b) => Qleb (Qabs (a - b)) tol) (combine x y).
Definition mclose (tol : Q) (A B : mat) : bool :=
  (Nat.eqb (length A) (length B)) && forallb (fun '(r, s) => vclose tol r s) (combine A B).

(* ---------- lemmas ---------- *)
Lemma dot_nil_l y : dot [] y = 0. Proof. reflexivity. Qed.
Lemma dot_nil_r x : dot x [] = 0. Proof. destruct x; reflexivity. Qed.
Lemma dot_cons a x b y : dot (a :: x) (b :: y) = a * b + dot x y. Proof. reflexivity. Qed.

Lemma dot_comm x : forall y, dot x y == dot y x.
Proof.
  induction x as [|a x IH]; intros [|b y]; simpl; try reflexivity.
  rewrite IH. ring.
Qed.

Lemma dot_map_add {A} (f g : A -> Q) (l : list A) : forall x,
  dot x (map (fun r => f r + g r) l) == dot x (map f l) + dot x (map g l).
Proof.
  induction l as [|r l IH]; intros [|a x]; simpl; try ring.
  rewrite IH. ring.
Qed.

Lemma dot_map_scale {A} (f : A -> Q) (c : Q) (l : list A) : forall x,
  dot x (map (fun r => f r * c) l) == c * dot x (map f l).
Proof.
  induction l as [|r l IH]; intros [|a x]; simpl; try ring.
  rewrite IH. ring.
Qed.

Lemma dot_map_ext {A} (f g : A -> Q) (l : list A) :
  (forall r, In r l -> f r == g r) -> forall x, dot x (map f l) == dot x (map g l).
Proof.
  induction l as [|r l IH]; intros H [|a x]; simpl; try reflexivity.
  rewrite (H r (or_introl eq_refl)). rewrite IH; [reflexivity|].
  intros r' Hr. apply H. right. exact Hr.
Qed.
