(* Base/Tensor.v — tensors as (shape, flat row-major data); splitting / concatenating along an
   axis; BlockPartitioner.partition / merge_partitions.  Definitions only (proofs: C06/TensorProofs). *)
From Coq Require Import List Arith.
Import ListNotations.

Section Tensor.
  Variable A : Type.

  Record tensor := mkT { t_shape : list nat; t_data : list A }.

  Fixpoint prodn (l : list nat) : nat := match l with [] => 1 | d :: r => d * prodn r end.
  Fixpoint sumn (l : list nat) : nat := match l with [] => 0 | d :: r => d + sumn r end.

  Fixpoint chunks (n : nat) (k : nat) (l : list A) : list (list A) :=   (* k chunks of length n *)
    match k with O => [] | S k' => firstn n l :: chunks n k' (skipn n l) end.

  Fixpoint offsets (o : nat) (sizes : list nat) : list nat :=
    match sizes with [] => [] | s :: r => o :: offsets (o + s) r end.

  (* the part of one slab (dim * inner elements) belonging to the piece at offset o of size s *)
  Definition sub_slab (inner o s : nat) (slab : list A) : list A :=
    firstn (s * inner) (skipn (o * inner) slab).

  Definition split_axis (axis : nat) (sizes : list nat) (t : tensor) : list tensor :=
    let sh := t_shape t in
    let outer := prodn (firstn axis sh) in
    let inner := prodn (skipn (S axis) sh) in
    let d := nth axis sh 0 in
    let slabs := chunks (d * inner) outer (t_data t) in
    map (fun '(o, s) =>
           mkT (firstn axis sh ++ [s] ++ skipn (S axis) sh)
               (concat (map (sub_slab inner o s) slabs)))
        (combine (offsets 0 sizes) sizes).

  Definition concat_axis (axis : nat) (ts : list tensor) : tensor :=
    match ts with
    | [] => mkT [] []
    | t0 :: _ =>
      let sh := t_shape t0 in
      let outer := prodn (firstn axis sh) in
      let inner := prodn (skipn (S axis) sh) in
      let d := sumn (map (fun t => nth axis (t_shape t) 0) ts) in
      let slabss := map (fun t => chunks (nth axis (t_shape t) 0 * inner) outer (t_data t)) ts in
      let rows := map (fun o => concat (map (fun slabs => nth o slabs []) slabss)) (seq 0 outer) in
      mkT (firstn axis sh ++ [d] ++ skipn (S axis) sh) (concat rows)
    end.

  Fixpoint group {B} (n : nat) (fuel : nat) (l : list B) : list (list B) :=
    match fuel with
    | O => []
    | S f => match l with [] => [] | _ => firstn n l :: group n f (skipn n l) end
    end.

  (* axes: list of (axis index, split sizes); an axis with a single size is left alone *)
  Definition part_axes (axes : list (nat * list nat)) (ts : list tensor) : list tensor :=
    fold_left (fun ts '(axis, sizes) =>
                 if Nat.leb (length sizes) 1 then ts else flat_map (split_axis axis sizes) ts)
              axes ts.

  Definition merge_axes (axes : list (nat * list nat)) (ps : list tensor) : list tensor :=
    fold_right (fun '(axis, sizes) ps =>
                  if Nat.leb (length sizes) 1 then ps
                  else map (concat_axis axis) (group (length sizes) (length ps) ps))
               ps axes.

  Definition partition (split_sizes : list (list nat)) (t : tensor) : list tensor :=
    part_axes (combine (seq 0 (length split_sizes)) split_sizes) [t].

  Definition merge_partitions (split_sizes : list (list nat)) (parts : list tensor) : tensor :=
    hd (mkT [] []) (merge_axes (combine (seq 0 (length split_sizes)) split_sizes) parts).
End Tensor.

Arguments mkT {A}. Arguments t_shape {A}. Arguments t_data {A}.
Arguments chunks {A}. Arguments sub_slab {A}. Arguments split_axis {A}. Arguments concat_axis {A}.
Arguments group {B}. Arguments part_axes {A}. Arguments merge_axes {A}.
Arguments partition {A}. Arguments merge_partitions {A}.
