(* C07/Model.v — layout calculus of precondition.distributed_shampoo (definitions only, executable).

   What is modelled: which configurations the constructor / init / update accept, and what init
   and one update do to the STATE LAYOUT (tree structure, static pytree metadata, leaf shapes and
   dtypes): _compute_stats, _compute_preconditioners (replicated / pmap, int16-quantized and the
   sharded/pjit variant), _transform_grad, quantization of the buffers, the typing rules of
   lax.cond / lax.while_loop (branches / carry must have one layout), the sharded
   shape-and-dtype and partition-spec declarations.  Shape arithmetic (merge_small_dims,
   BlockPartitioner split sizes, shapes_for_preconditioners, _precond_dim, _preconds_for_grad)
   is C06.Ref, regenerated from the source on every run.

   [bugs] selects between the behaviour of the tree as it is today ([as_is]: each flag = one open
   defect, the model then predicts the internal error / the layout change) and the repaired
   behaviour ([repaired]) about which the property theorems are proved. *)
From Precond Require Import Base.PyLib C06.Records C06.Ref C07.Layout.
Open Scope Z_scope.

Record bugs := mkBugs {
  bD7 : bool;   (* FD without reuse_preconditioner: `assert prev is not None` *)
  bD8 : bool;   (* _compute_stats drops avg_grad of parameters it does not average *)
  bD10 : bool;  (* sharded_init_shape_and_dtype_fn: count f32, quantized momentum dtypes swapped *)
  bD11 : bool;  (* _fd_low_rank_pack allocates with the default dtype (x64: f64 vs f32 branch) *)
  bN1 : bool;   (* "all layers are too small for compression_rank": assert, not ValueError *)
  bN2 : bool;   (* lobpcg_topk_precondition with 5k >= matrix dim: ValueError from jax's lobpcg *)
  bN3 : bool;   (* sharded + reuse_preconditioner: list of matrices handed to vmap *)
  bN4 : bool;   (* int16-quantized pmap mode with no statistics at all: quantizes a 0x0 eye *)
  bN5 : bool;   (* sharded shape/pspec functions `assert params_flat` on the empty tree *)
  bN6 : bool;   (* FD + generate_fd_metrics without generate_training_metrics: cond structure *)
  bN7 : bool;   (* sharded: max([]) for a non-skipped parameter without statistics (rank 0) *)
  bN8 : bool;   (* sharded + batch_axis_name + memory reduction: statistics get quantized *)
  bN9 : bool;   (* skipped parameter: FD diagnostics dropped from its training_metrics *)
  bT1 : bool;   (* tearfree second_order: missing sub-options object trips an `assert` *)
  bB1 : bool;   (* distributed_shampoo, non-float32 parameters: momentum / updates drift to f32 *)
  bB2 : bool;   (* sm3, non-float32 parameters: bucket sizes / updates drift to f32 *)
  bB3 : bool;   (* tearfree, non-float32 parameters: trace / updates drift to f32 *)
  bB4 : bool    (* sharded declaration: int8 momentum bucket sizes declared float32, not param dtype *)
}.
Definition repaired : bugs :=
  mkBugs false false false false false false false false false false false false false false
         false false false false.
Definition as_is : bugs :=
  mkBugs true true true true true true true true true true true true true true true true true true.

Record dscfg := mkDS {
  ds_block : Z;            (* block_size *)
  ds_merge : Z;            (* merge_small_dims_block_size *)
  ds_best_effort : bool;   (* best_effort_shape_interpretation *)
  ds_ptype : Z;            (* precondtioner_type 1 ALL | 2 INPUT | 3 OUTPUT *)
  ds_cr : Z;               (* compression_rank *)
  ds_fd : bool;            (* frequent_directions *)
  ds_reset : bool;         (* reset_preconditioner *)
  ds_avg : bool;           (* average_grad *)
  ds_reuse : bool;         (* reuse_preconditioner *)
  ds_stat_steps : Z;       (* statistics_compute_steps *)
  ds_pcs : Z;              (* preconditioning_compute_steps *)
  ds_scheduled : bool;     (* decay_preconditioning_compute_steps and end_... and callable lr *)
  ds_graft : Z;            (* GraftingType 0..6 *)
  ds_memred : bool;        (* best_effort_memory_usage_reduction *)
  ds_batch_axis : bool;    (* batch_axis_name is set *)
  ds_sharded : bool;       (* shard_optimizer_states *)
  ds_ndev : Z;             (* num_devices_for_pjit *)
  ds_skip_gt : Z;          (* skip_preconditioning_dim_size_gt *)
  ds_skip_rank_lt : Z;     (* skip_preconditioning_rank_lt *)
  ds_metrics : bool;       (* generate_training_metrics *)
  ds_fd_metrics : bool;    (* generate_fd_metrics (as passed) *)
  ds_lobpcg : Z;           (* lobpcg_topk_precondition *)
  ds_eigh : bool;
  ds_x64 : bool;           (* jax_enable_x64 *)
  ds_pdt : dtype           (* dtype of the parameters (one dtype for the whole tree) *)
}.

(* ------------------------------------------------------------------------------------------ *)
(* option validation: the `raise ValueError` sites of distributed_shampoo(...)                   *)
(* ------------------------------------------------------------------------------------------ *)
Definition ds_accepts (b : bugs) (c : dscfg) : outcome unit :=
  if ds_reset c && negb (ds_fd c) then Reject 1
  else if ds_fd c && (ds_cr c <=? 0) then Reject 2
  else if ds_avg c && negb (ds_fd c) then Reject 3
  else if ds_fd c && negb (ds_stat_steps c =? ds_pcs c) then Reject 4
  else if ds_fd c && negb (ds_reuse c) && negb (bD7 b) then Reject 5   (* repaired D7 *)
  else Ok tt.

Definition fdm (c : dscfg) : bool := ds_fd_metrics c && ds_fd c.
Definition has_diag (c : dscfg) : bool :=
  negb ((ds_graft c =? 1) || (ds_graft c =? 5) || (ds_graft c =? 0)).
(* quantize_second_moment; the repaired behaviour never quantizes sharded statistics *)
Definition qsm_flag (c : dscfg) : bool :=
  ds_memred c && (ds_cr c =? 0) && negb (ds_fd c) && ds_batch_axis c.
Definition qsm (c : dscfg) : bool := qsm_flag c && negb (ds_sharded c).

(* ------------------------------------------------------------------------------------------ *)
(* leaf-level layouts                                                                           *)
(* ------------------------------------------------------------------------------------------ *)
Definition qv (q d bk : layout) (dt : dtype) (ext : bool) (shape : list Z) : layout :=
  Node KQuantized [SDt dt; SBool ext; SZs shape] [q; d; bk].
(* an unquantized buffer: static quantized_dtype float32, the array keeps its own dtype [d] *)
Definition qv_flt (d : dtype) (shape : list Z) : layout :=
  qv (Leaf shape d) empty_list empty_list F32 false shape.
Definition qv_empty : layout := qv empty_list empty_list empty_list F32 false [].
(* int8 buffer; the bucket sizes are computed in the dtype [d] of the quantized value *)
Definition qv_i8 (d : dtype) (shape : list Z) : layout :=
  qv (Leaf shape I8) empty_list (Leaf (tl shape) d) I8 false shape.
(* quantized_dtype_for_momentum_buffers *)
Definition qv_mom (c : dscfg) (shape : list Z) : layout :=
  if ds_memred c && (1 <? zlen shape) then qv_i8 (ds_pdt c) shape else qv_flt (ds_pdt c) shape.
(* int16 matrix with extracted diagonal: quantized r x c, diagonal min(r,c), bucket sizes c *)
Definition qv_mat (r c : Z) : layout :=
  qv (Leaf [r; c] I16) (Leaf [Z.min r c] F32) (Leaf [c] F32) I16 true [r; c].
Definition mat (q : bool) (r c : Z) : layout := if q then qv_mat r c else Leaf [r; c] F32.

Definition vecs (n k : Z) : list layout := repeat_z (Leaf [n] F32) k.
Definition fd_diag (n : Z) : layout := Node KFD [] (vecs n 22).
Definition tm_layout (n : Z) (with_fd : bool) : layout :=
  Node KTrainingMetrics []
       (vecs n 5 ++ [Node KLobpcg [] (vecs n 7); Node KInvDiag [] (vecs n 5);
                     Node KInvDiag [] (vecs n 5); if with_fd then fd_diag n else masked]).
(* init_training_metrics *)
Definition metrics_layout (n : Z) (gen with_fd : bool) : layout :=
  if gen then tm_layout n with_fd else masked.

(* ------------------------------------------------------------------------------------------ *)
(* per-parameter shape arithmetic (C06.Ref)                                                     *)
(* ------------------------------------------------------------------------------------------ *)
Definition skipped (c : dscfg) (p : list Z) : bool :=
  (zlen p <? ds_skip_rank_lt c) || existsb (fun s => s >? ds_skip_gt c) p.
Definition tshape (c : dscfg) (p : list Z) : list Z :=
  if ds_best_effort c then merge_small_dims p (ds_merge c) else p.
Definition split_sizes (c : dscfg) (p : list Z) : list (list Z) :=
  snd (block_partitioner_init (tshape c p) (ds_block c)).
(* announced: Preconditioner.shapes_for_preconditioners *)
Definition pshapes (c : dscfg) (p : list Z) : list (list Z) :=
  shapes_for_preconditioners (split_sizes c p) (ds_ptype c) (ds_cr c).
Definition eff_pshapes (c : dscfg) (p : list Z) : list (list Z) :=
  if skipped c p then [] else pshapes c p.
Definition dim0 (s : list Z) : Z := nth_z s 0 0.
Definition dim1 (s : list Z) : Z := nth_z s 1 0.

(* produced: the statistics updated_statistics_from_grad really computes -- one per block (in
   itertools.product order) and preconditioned axis, of the size of that block's axis *)
Definition blk_axes (ptype rank : Z) (t : list Z) : list Z :=
  if (ptype =? 1) || (rank <=? 1) then t
  else if ptype =? 2 then slice_to t (-1)
  else if ptype =? 3 then slice_from t (-1)
  else [].
Definition produced_dims (c : dscfg) (p : list Z) : list Z :=
  let ss := split_sizes c p in
  flat_map (fun t => blk_axes (ds_ptype c) (zlen ss) t) (cart_prod ss).
Definition num_blocks (c : dscfg) (p : list Z) : Z := zlen (cart_prod (split_sizes c p)).
Definition num_pre (c : dscfg) (p : list Z) : Z :=
  count_true (should_precondition_dims (split_sizes c p) (ds_ptype c)).

(* the closure precond_dim(max_size) of distributed_shampoo (its assert is bug N1) *)
Definition pd_of (c : dscfg) (m : Z) : Z := if ds_cr c =? 0 then m else precond_dim (ds_cr c) m.
Definition too_small (c : dscfg) (m : Z) : bool := negb (ds_cr c =? 0) && (m <=? pd_of c m).

(* ------------------------------------------------------------------------------------------ *)
(* ParameterStats                                                                               *)
(* ------------------------------------------------------------------------------------------ *)
Record pstats := mkPS {
  ps_diag : layout; ps_stats : list layout; ps_preconds : list layout;
  ps_dmom : layout; ps_mom : layout; ps_avg : layout; ps_tm : layout }.

Definition ps_layout (s : pstats) : layout :=
  Node KParameterStats []
       [ps_diag s; list_of (ps_stats s); list_of (ps_preconds s); ps_dmom s; ps_mom s; ps_avg s;
        ps_tm s].
Definition parse_ps (l : layout) : option pstats :=
  match l with
  | Node KParameterStats [] [d; Node KList [] ss; Node KList [] pp; dm; m; a; t] =>
      Some (mkPS d ss pp dm m a t)
  | _ => None
  end.

Fixpoint mapM {A B} (f : A -> option B) (l : list A) : option (list B) :=
  match l with
  | [] => Some []
  | x :: t => match f x, mapM f t with Some y, Some r => Some (y :: r) | _, _ => None end
  end.

Definition avg_layout (c : dscfg) (p : list Z) : layout :=
  if ds_fd c && ds_avg c then Leaf p (ds_pdt c) else masked.

(* init_fn._init *)
Definition init_ps (c : dscfg) (p : list Z) : pstats :=
  let shp := eff_pshapes c p in
  let q := qsm c in
  mkPS (if has_diag c then qv_flt (ds_pdt c) p else qv_empty)
       (map (fun s => mat q (dim0 s) (dim0 s)) shp)
       (map (fun s => mat q (dim0 s) (dim1 s)) shp)
       (qv_mom c p) (qv_mom c p) (avg_layout c p)
       (metrics_layout (zlen shp) (ds_metrics c) (fdm c)).

Definition count_leaf : layout := Leaf [] I32.

Definition ds_state (t : layout) (sts : list pstats) : layout :=
  Node KShampooState [] [count_leaf; fst (rebuild t (map ps_layout sts))].

(* ------------------------------------------------------------------------------------------ *)
(* one update, replicated / pmap mode                                                           *)
(* ------------------------------------------------------------------------------------------ *)
Definition stat_shape (l : layout) : option (list Z) :=
  match l with
  | Leaf s _ => Some s
  | Node KQuantized [SDt _; SBool _; SZs s] _ => Some s
  | _ => None
  end.

(* _compute_stats.  [q]: statistics are re-quantized by from_float *)
Definition compute_stats (b : bugs) (c : dscfg) (q : bool) (p : list Z) (st : pstats)
  : outcome pstats :=
  let skip := skipped c p in
  let keep := if bD8 b then masked else ps_avg st in
  do new_avg <- (if skip then Ok keep
                 else if ds_fd c && ds_avg c then
                        (if layout_eqb (ps_avg st) (Leaf p (ds_pdt c)) then Ok (Leaf p (ds_pdt c))
                         else Internal [93])            (* state.avg_grad + grad *)
                      else Ok keep);
  do new_stats <- (if skip then Ok (repeat_z empty_list (zlen (ps_stats st)))
                   else
                     let comp := map (fun d => mat q d d) (produced_dims c p) in
                     if zlen (ps_stats st) <? zlen comp then Internal [90]   (* stats[index] *)
                     else if (1 <? ds_stat_steps c) && negb (layouts_eqb (ps_stats st) comp)
                          then Internal [92]            (* efficient_cond carry typing *)
                          else Ok comp);
  Ok (mkPS (ps_diag st) new_stats (ps_preconds st) (ps_dmom st) (ps_mom st) new_avg (ps_tm st)).

(* which FD diagnostics the root kernels attach to their metrics *)
Definition root_fdm (c : dscfg) : bool := if ds_cr c =? 0 then false else fdm c.

(* defects that make tracing of the root computation fail, given n > 0 statistics padded to m *)
Definition root_tags (b : bugs) (c : dscfg) (m : Z) : list Z :=
  (if bN1 b && too_small c m then [21] else []) ++
  (if bD7 b && ds_fd c && negb (ds_reuse c) then [7] else []) ++
  (if bN2 b && (0 <? ds_lobpcg c) && negb (ds_eigh c) && (m <=? 5 * ds_lobpcg c)
   then [22] else []) ++
  (if bD11 b && ds_fd c && ds_x64 c && negb (too_small c m) then [11] else []) ++
  (if bN6 b && fdm c && negb (ds_metrics c) && negb (too_small c m) then [26] else []).

Definition root_gate (b : bugs) (c : dscfg) (m : Z) : outcome unit :=
  if negb (bN1 b) && too_small c m then Reject 6     (* repaired N1: explicit ValueError *)
  else match root_tags b c m with [] => Ok tt | tags => Internal tags end.

(* candidate preconditioner for a statistic of shape [r;k], roots padded to m x cols:
   p[:shape[0], :shape[1]] (and d[:shape[0]], b[:shape[0]] when quantized) *)
Definition cand_precond (q : bool) (m cols : Z) (shape : list Z) : layout :=
  let r := Z.min (dim0 shape) m in
  let k := Z.min (dim1 shape) cols in
  if q then qv (Leaf [r; k] I16) (Leaf [r] F32) (Leaf [r] F32) I16 true [r; k]
  else Leaf [r; k] F32.

Fixpoint select_all (q : bool) (m cols : Z) (stats prevs : list layout) : outcome (list layout) :=
  match stats, prevs with
  | [], _ => Ok []
  | s :: st', pv :: pv' =>
      match stat_shape s with
      | None => Internal [94]
      | Some shp =>
          let cnd := cand_precond q m cols shp in
          if layout_eqb cnd pv then
            do r <- select_all q m cols st' pv'; Ok (cnd :: r)
          else Internal [96]                         (* lax.cond branch typing *)
      end
  | _ :: _, [] => Internal [95]
  end.

(* "Add back empty preconditioners": hand each state its slice of the flat list *)
Fixpoint regroup (b : bugs) (c : dscfg) (sts : list pstats) (newp : list layout) (idx : Z)
  : outcome (list pstats) :=
  match sts with
  | [] => Ok []
  | st :: r =>
      let num := zlen (ps_stats st) in
      if num =? 0 then
        do rest <- regroup b c r newp idx;
        Ok (mkPS (ps_diag st) (ps_stats st) [] (ps_dmom st) (ps_mom st) (ps_avg st)
                 (metrics_layout 0 (ds_metrics c) (fdm c && negb (bN9 b))) :: rest)
      else
        let mine := slice newp idx (idx + num) in
        do _ <- guard (zlen mine =? num) 95;
        do tm <- (if ds_metrics c then
                    let m := tm_layout num (root_fdm c) in
                    if layout_eqb m (ps_tm st) then Ok m else Internal [97]
                  else Ok masked);
        do rest <- regroup b c r newp (idx + num);
        Ok (mkPS (ps_diag st) (ps_stats st) mine (ps_dmom st) (ps_mom st) (ps_avg st) tm :: rest)
  end.

Fixpoint stat_dims (l : list layout) : outcome (list Z) :=
  match l with
  | [] => Ok []
  | s :: t => match stat_shape s with
              | Some shp => do r <- stat_dims t; Ok (dim0 shp :: r)
              | None => Internal [94]
              end
  end.

(* _compute_preconditioners -> _pmap_compute_preconditioners / _pmap_quantized_... *)
Definition compute_preconditioners (b : bugs) (c : dscfg) (sts : list pstats)
  : outcome (list pstats) :=
  let stats := flat_map ps_stats sts in
  let prevs := flat_map (fun s => if is_nil (ps_stats s) then [] else ps_preconds s) sts in
  do dims <- stat_dims stats;
  let m := max_z dims in
  if is_nil stats then
    (if qsm c && bN4 b then Internal [24] else Ok sts)
  else
    do _ <- root_gate b c m;
    do _ <- guard (negb (ds_reuse c) || (zlen prevs =? zlen stats)) 95;
    do newp <- select_all (qsm c) m (pd_of c m) stats prevs;
    regroup b c sts newp 0.

(* _transform_grad *)
Definition slots_ok (c : dscfg) (p : list Z) (n : Z) : bool :=
  let rank := zlen (split_sizes c p) in
  let np := num_pre c p in
  forallb (fun i => match preconds_for_grad (ds_ptype c) (zrange n) rank (i * np) ((i + 1) * np)
                    with Some _ => true | None => false end)
          (zrange (num_blocks c p)) &&
  (num_blocks c p * np <=? n).

Definition transform_grad (c : dscfg) (p : list Z) (st : pstats) : outcome pstats :=
  do nd <- (if has_diag c || ds_sharded c then
              match ps_diag st with
              | Node KQuantized _ [Leaf s _; _; _] =>
                  if list_eqb_z s p then Ok (qv_flt (ds_pdt c) p) else Internal [98]
              | _ => Internal [98]
              end
            else
              match ps_diag st with
              | Node KQuantized _ [Leaf s d; _; _] => Ok (qv (Leaf s d) empty_list empty_list F32 false s)
              | Node KQuantized _ [Node KList [] []; _; _] => Ok qv_empty
              | _ => Internal [98]
              end);
  do _ <- (if skipped c p then Ok tt
           else guard (slots_ok c p (zlen (ps_preconds st))) 99);   (* _preconds_for_grad assert *)
  Ok (mkPS nd (ps_stats st) (ps_preconds st) (qv_mom c p) (qv_mom c p) (ps_avg st) (ps_tm st)).

Fixpoint map2o {A B C} (f : A -> B -> outcome C) (l1 : list A) (l2 : list B) : outcome (list C) :=
  match l1, l2 with
  | [], [] => Ok []
  | x :: t1, y :: t2 => do z <- f x y; do r <- map2o f t1 t2; Ok (z :: r)
  | _, _ => Internal [89]
  end.

Definition update_pstats (b : bugs) (c : dscfg) (ps : list (list Z)) (sts : list pstats)
  : outcome (list pstats) :=
  do s1 <- map2o (compute_stats b c (qsm c)) ps sts;
  do s2 <- compute_preconditioners b c s1;
  map2o (transform_grad c) ps s2.

Definition ds_init_plain (c : dscfg) (t : layout) : layout :=
  ds_state t (map (init_ps c) (leaves t)).

Definition ds_update_plain (b : bugs) (c : dscfg) (t l : layout) : outcome layout :=
  match l with
  | Node KShampooState [] [Leaf [] I32; st] =>
      match collect t st with
      | None => Internal [89]
      | Some lls =>
          match mapM parse_ps lls with
          | None => Internal [89]
          | Some sts => do sts' <- update_pstats b c (leaves t) sts; Ok (ds_state t sts')
          end
      end
  | _ => Internal [89]
  end.

(* ------------------------------------------------------------------------------------------ *)
(* sharded (pjit) mode                                                                          *)
(* ------------------------------------------------------------------------------------------ *)
Definition sh_sizes (c : dscfg) (p : list Z) : list Z := map dim0 (eff_pshapes c p).
Definition sh_total (c : dscfg) (ps : list (list Z)) : Z := zlen (flat_map (sh_sizes c) ps).
Definition sh_max (c : dscfg) (ps : list (list Z)) : Z := max_z (flat_map (sh_sizes c) ps).
(* (number of rows N, padded size) of the global statistics *)
Definition sh_dims (c : dscfg) (ps : list (list Z)) : Z * Z :=
  let total := sh_total c ps in
  let m := sh_max c ps in
  if m =? 0 then (total + ds_ndev c, ds_block c)
  else (total + ((- total) mod (ds_ndev c)), m).

Definition global_layout (c : dscfg) (n m : Z) : layout :=
  Node KGlobalStats [] [Leaf [n; m; m] F32; Leaf [n; m; pd_of c m] F32; Leaf [n] I32].

Record lstats := mkLS {
  ls_diag : layout; ls_dmom : layout; ls_mom : layout; ls_avg : layout; ls_tm : layout;
  ls_start : Z; ls_sizes : list Z }.
Definition ls_layout (s : lstats) : layout :=
  Node KLocalStats [SInt (ls_start s); SZs (ls_sizes s)]
       [ls_diag s; ls_dmom s; ls_mom s; ls_avg s; ls_tm s].
Definition parse_ls (l : layout) : option lstats :=
  match l with
  | Node KLocalStats [SInt i; SZs sz] [d; dm; m; a; t] => Some (mkLS d dm m a t i sz)
  | _ => None
  end.

Fixpoint init_locals (c : dscfg) (ps : list (list Z)) (start : Z) : list lstats :=
  match ps with
  | [] => []
  | p :: r =>
      let sz := sh_sizes c p in
      mkLS (qv_flt (ds_pdt c) p) (qv_mom c p) (qv_mom c p) (avg_layout c p)
           (metrics_layout (zlen sz) (ds_metrics c) (fdm c)) start sz
      :: init_locals c r (start + zlen sz)
  end.

Definition sh_state (t : layout) (g : layout) (ls : list lstats) : layout :=
  Node KShampooState []
       [count_leaf; Node KShardedStats [] [g; fst (rebuild t (map ls_layout ls))]].

(* a non-skipped parameter for which no statistic is announced (rank 0): max([]) *)
Definition has_empty_unskipped (c : dscfg) (ps : list (list Z)) : bool :=
  existsb (fun p => negb (skipped c p) && is_nil (pshapes c p)) ps.

(* sharded_init_fn calls precond_dim(max_size) (i) for every non-skipped parameter with the max_size
   of the first pass -- which is still 0 when NO parameter announces a statistic, e.g. a tree of
   skipped parameters plus a non-skipped rank-0 one -- and (ii) once with the final padded size *)
Definition sh_too_small (c : dscfg) (ps : list (list Z)) : bool :=
  too_small c (snd (sh_dims c ps)) || (has_empty_unskipped c ps && too_small c (sh_max c ps)).

Definition sh_init_gate (b : bugs) (c : dscfg) (ps : list (list Z)) : outcome unit :=
  if negb (bN1 b) && sh_too_small c ps then Reject 6
  else match (if bN1 b && sh_too_small c ps then [21] else []) ++
             (if bN7 b && has_empty_unskipped c ps then [27] else []) with
       | [] => Ok tt
       | tags => Internal tags
       end.

Definition ds_init_sharded (b : bugs) (c : dscfg) (t : layout) : outcome layout :=
  let ps := leaves t in
  do _ <- sh_init_gate b c ps;
  let '(n, m) := sh_dims c ps in
  Ok (sh_state t (global_layout c n m) (init_locals c ps 0)).

(* sharded_init_shape_and_dtype_fn *)
Definition qv_mom_declared (b : bugs) (c : dscfg) (shape : list Z) : layout :=
  if ds_memred c && (1 <? zlen shape) then
    (if bD10 b then qv (Leaf shape (ds_pdt c)) empty_list (Leaf (tl shape) I8) I8 false shape
     else qv_i8 (if bB4 b then F32 else ds_pdt c) shape)
  else qv_flt (ds_pdt c) shape.

Fixpoint declared_locals (b : bugs) (c : dscfg) (ps : list (list Z)) (start : Z) : list lstats :=
  match ps with
  | [] => []
  | p :: r =>
      let sz := sh_sizes c p in
      mkLS (qv_flt (ds_pdt c) p) (qv_mom_declared b c p) (qv_mom_declared b c p) (avg_layout c p)
           (metrics_layout (zlen sz) (ds_metrics c) (fdm c)) start sz
      :: declared_locals b c r (start + zlen sz)
  end.

Definition ds_declared (b : bugs) (c : dscfg) (t : layout) : outcome layout :=
  let ps := leaves t in
  if bN5 b && is_nil ps then Internal [25]
  else
    do _ <- sh_init_gate b c ps;
    let '(n, m) := sh_dims c ps in
    Ok (Node KShampooState []
             [Leaf [] (if bD10 b then F32 else I32);
              Node KShardedStats []
                   [global_layout c n m;
                    fst (rebuild t (map ls_layout (declared_locals b c ps 0)))]]).

(* sharded_init_partition_spec_fn, called with one full-rank PartitionSpec per parameter and a
   rank-3 spec for the statistics *)
Definition ps_mom_pspec (c : dscfg) (shape : list Z) : layout :=
  let r := zlen shape in
  if ds_memred c && (1 <? r) then
    qv (PSpec r) empty_list (PSpec (r - 1)) I8 false shape
  else qv (PSpec r) empty_list empty_list F32 false shape.

Fixpoint pspec_of (l : layout) : layout :=       (* every array leaf -> replicated spec *)
  match l with
  | Leaf _ _ => PSpec 0
  | PSpec n => PSpec n
  | Node k st ch => Node k st (map pspec_of ch)
  end.

Fixpoint pspec_locals (c : dscfg) (ps : list (list Z)) (start : Z) : list layout :=
  match ps with
  | [] => []
  | p :: r =>
      let sz := sh_sizes c p in
      let rk := zlen p in
      Node KLocalStats [SInt start; SZs sz]
           [qv (PSpec rk) empty_list empty_list F32 false p; ps_mom_pspec c p; ps_mom_pspec c p;
            (if ds_fd c && ds_avg c then PSpec rk else masked);
            pspec_of (metrics_layout 0 (ds_metrics c) (fdm c))]
      :: pspec_locals c r (start + zlen sz)
  end.

Definition ds_pspec (b : bugs) (c : dscfg) (t : layout) : outcome layout :=
  let ps := leaves t in
  if bN5 b && is_nil ps then Internal [25]
  else
    Ok (Node KShampooState []
             [PSpec 0;
              Node KShardedStats []
                   [Node KGlobalStats [] [PSpec 3; PSpec 3; PSpec 0];
                    fst (rebuild t (pspec_locals c ps 0))]]).

(* sharded_update_fn *)
Definition to_pstats (c : dscfg) (gm gcols : Z) (sdt pdt : dtype) (ls : lstats) : pstats :=
  mkPS (ls_diag ls)
       (map (fun s => Leaf [Z.min s gm; Z.min s gm] sdt) (ls_sizes ls))
       (map (fun s => Leaf [Z.min s gm; Z.min (pd_of c s) gcols] pdt) (ls_sizes ls))
       (ls_dmom ls) (ls_mom ls) (ls_avg ls) (ls_tm ls).

Definition sh_root_tags (b : bugs) (c : dscfg) (n m : Z) : list Z :=
  (if bN3 b && ds_reuse c then [23] else []) ++
  (if bN8 b && qsm_flag c && (0 <? n) then [28] else []) ++
  root_tags b c m.

Fixpoint sh_metrics (c : dscfg) (ls : list lstats) (sts : list pstats) : outcome (list lstats) :=
  match ls, sts with
  | [], [] => Ok []
  | l :: lr, s :: sr =>
      do tm <- (if ds_metrics c then
                  let m := tm_layout (zlen (ls_sizes l)) (root_fdm c) in
                  if layout_eqb m (ls_tm l) then Ok m else Internal [97]
                else Ok (ps_tm s));
      do rest <- sh_metrics c lr sr;
      Ok (mkLS (ps_diag s) (ps_dmom s) (ps_mom s) (ps_avg s) tm (ls_start l) (ls_sizes l) :: rest)
  | _, _ => Internal [89]
  end.

Definition ds_update_sharded (b : bugs) (c : dscfg) (t l : layout) : outcome layout :=
  match l with
  | Node KShampooState [] [Leaf [] I32;
      Node KShardedStats []
        [Node KGlobalStats [] [Leaf [n0; gm; gm'] sdt; Leaf [n1; gr; gcols] pdt; ex]; loc]] =>
      match collect t loc with
      | None => Internal [89]
      | Some lls =>
          match mapM parse_ls lls with
          | None => Internal [89]
          | Some lss =>
              let ps := leaves t in
              do _ <- guard (forallb (fun s => ls_start s + zlen (ls_sizes s) <=? Z.min n0 n1) lss) 90;
              let sts := map (to_pstats c gm gcols sdt pdt) lss in
              do s1 <- map2o (compute_stats b c false) ps sts;
              do s2 <- map2o (transform_grad c) ps s1;
              let stats := flat_map ps_stats s2 in
              do dims <- stat_dims stats;
              do _ <- guard (forallb (fun d => d <=? gm) dims) 94;      (* pad_square_matrix *)
              let n := zlen stats in
              let nn := if n =? 0 then ds_ndev c else n + ((- n) mod (ds_ndev c)) in
              do _ <- (if negb (bN1 b) && too_small c gm then Reject 6 else Ok tt);
              do _ <- (match sh_root_tags b c n gm with [] => Ok tt | tags => Internal tags end);
              let newp := Leaf [nn; gm; pd_of c gm] F32 in
              do _ <- guard (layout_eqb newp (Leaf [n1; gr; gcols] pdt)) 96;
              do ls' <- sh_metrics c lss s2;
              Ok (sh_state t (Node KGlobalStats [] [Leaf [nn; gm; gm] sdt; newp; ex]) ls')
          end
      end
  | _ => Internal [89]
  end.

(* ------------------------------------------------------------------------------------------ *)
(* the three entry points used by the correspondence and by the theorems                        *)
(* ------------------------------------------------------------------------------------------ *)
Definition ds_init (b : bugs) (c : dscfg) (t : layout) : outcome layout :=
  do _ <- ds_accepts b c;
  if ds_sharded c then ds_init_sharded b c t else Ok (ds_init_plain c t).

Definition ds_update (b : bugs) (c : dscfg) (t l : layout) : outcome layout :=
  if bB1 b && negb (dtype_eqb (ds_pdt c) F32) then Internal [41]     (* dtype drift, not modelled *)
  else if ds_sharded c then ds_update_sharded b c t l else ds_update_plain b c t l.

(* the update tree handed back to the caller: one f32 array per parameter, same tree *)
Definition updates_layout (t : layout) : layout := t.

Fixpoint iterate (b : bugs) (c : dscfg) (t : layout) (k : nat) (l : layout) : outcome layout :=
  match k with
  | O => Ok l
  | S k' => do l' <- ds_update b c t l; iterate b c t k' l'
  end.
