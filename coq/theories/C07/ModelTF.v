(* C07/ModelTF.v — layout calculus of precondition.sm3 and precondition.tearfree (definitions only).

   Tearfree: option validation of reshaper / shampoo / sketchy / grafting / momentum (every
   `raise ValueError`), the parameter-dependent rejections of shampoo._init and sketchy._init,
   the state layout of the chain  graft(second_order) , momentum , learning-rate  and what one
   update does to it (lax.cond branch typing of the statistics / preconditioner refresh).  The
   states of the optax building blocks (trace, adafactor, scale, add_decayed_weights) are optax's;
   their layouts are modelled as observed and their updates as layout-preserving (oracle,
   monitored by the correspondence).  Float-valued options enter as exact rationals. *)
From Coq Require Import QArith.
From Precond Require Import Base.PyLib C06.Records C06.Ref C07.Layout C07.Model.
Open Scope Z_scope.

(* ------------------------------------------------------------------------------------------ *)
(* SM3                                                                                          *)
(* ------------------------------------------------------------------------------------------ *)
(* [d]: dtype of the parameters.  Accumulators are float32 (jnp.zeros default), the int8 momentum's
   bucket sizes have the dtype of the quantized value. *)
Definition sm3_param (d : dtype) (p : list Z) : layout :=
  Node KSM3Param [] [list_of (map (fun s => Leaf [s] F32) p); qv_i8 d p].

(* quantization_utils.quantize raises for a 0-d momentum buffer *)
Definition sm3_init (d : dtype) (t : layout) : outcome layout :=
  if existsb (fun p => is_nil p) (leaves t) then Reject 20
  else Ok (Node KSM3State [] [count_leaf; fst (rebuild t (map (sm3_param d) (leaves t)))]).

Fixpoint accs_fit (p : list Z) (accs : list layout) : bool :=
  match p, accs with
  | [], _ => true
  | s :: p', Leaf sh _ :: a' => (prod_z sh =? s) && accs_fit p' a'    (* jnp.reshape to [1..s..1] *)
  | _, _ => false
  end.

Definition sm3_update_param (d : dtype) (p : list Z) (l : layout) : outcome layout :=
  match l with
  | Node KSM3Param [] [Node KList [] accs; Node KQuantized _ [Leaf ms _; _; _]] =>
      if accs_fit p accs && list_eqb_z ms p then Ok (sm3_param d p) else Internal [70]
  | _ => Internal [70]
  end.

Definition sm3_update (b : bugs) (d : dtype) (t l : layout) : outcome layout :=
  if bB2 b && negb (dtype_eqb d F32) then Internal [42] else     (* dtype drift, not modelled *)
  match l with
  | Node KSM3State [] [Leaf [] I32; st] =>
      match collect t st with
      | None => Internal [89]
      | Some lls =>
          do r <- map2o (sm3_update_param d) (leaves t) lls;
          Ok (Node KSM3State [] [count_leaf; fst (rebuild t r)])
      end
  | _ => Internal [89]
  end.

(* ------------------------------------------------------------------------------------------ *)
(* Tearfree                                                                                     *)
(* ------------------------------------------------------------------------------------------ *)
Record tfcfg := mkTF {
  tf_direct : bool;        (* shampoo.apply / sketchy.apply alone, without reshaper and grafting *)
  tf_so : Z;               (* 0 SHAMPOO | 1 SKETCHY *)
  tf_has_sub : bool;       (* the selected second-order method's options object is present *)
  tf_merge : Z;            (* second_order.Options.merge_dims *)
  tf_block : Z; tf_pfreq : Z; tf_sfreq : Z; tf_sh_decay : Q;                   (* shampoo *)
  tf_rank : Z; tf_ufreq : Z; tf_sk_decay : Q; tf_add_ggt : bool; tf_ekfac : bool; (* sketchy *)
  tf_graft : Z;            (* 0 NONE | 1 SGD | 2 RMSPROP | 3 ADAFACTOR *)
  tf_g_decay : Q; tf_g_eps : Q; tf_g_clip : Q; tf_g_minfac : Z; tf_g_mult : bool;
  tf_skip_gt : Z; tf_skip_rank1 : bool;
  tf_m_decay : Q; tf_m_wd : Q; tf_m_ema : bool; tf_m_after : bool;
  tf_lr_callable : bool;
  tf_pdt : dtype           (* dtype of the parameters *)
}.

Definition qle (a b : Q) : bool := Qle_bool a b.
Definition qlt (a b : Q) : bool := Qle_bool a b && negb (Qeq_bool a b).
Definition q0 : Q := 0%Q.
Definition q1 : Q := 1%Q.
Definition in01 (x : Q) : bool := qle q0 x && qle x q1.

Definition so_block (c : tfcfg) : Z := if tf_so c =? 0 then tf_block c else 0.

Definition so_validate (c : tfcfg) : outcome unit :=
  if tf_so c =? 0 then
    if tf_block c <=? 1 then Reject 33
    else if tf_pfreq c <=? 0 then Reject 34
    else if tf_sfreq c <=? 0 then Reject 35
    else if negb (in01 (tf_sh_decay c)) then Reject 36
    else Ok tt
  else
    if tf_ufreq c <=? 0 then Reject 37
    else if negb (in01 (tf_sk_decay c)) then Reject 38
    else if tf_rank c <=? 0 then Reject 39
    else Ok tt.

Definition graft_validate (c : tfcfg) : outcome unit :=
  let g := tf_graft c in
  if ((g =? 2) || (g =? 3)) && qlt (tf_g_eps c) q0 then Reject 40
  else if (g =? 2) && negb (qlt q0 (tf_g_decay c) && qle (tf_g_decay c) q1) then Reject 41
  else if (g =? 3) && negb (qlt q0 (tf_g_decay c) && qlt (tf_g_decay c) q1) then Reject 42
  else if (g =? 3) && negb (0 <? tf_g_minfac c) then Reject 43
  else if (g =? 3) && qlt (tf_g_clip c) q1 then Reject 44
  else Ok tt.

Definition mom_validate (c : tfcfg) : outcome unit :=
  if negb (in01 (tf_m_decay c)) then Reject 45
  else if negb (qle q0 (tf_m_wd c)) then Reject 46
  else Ok tt.

Definition tf_accepts (b : bugs) (c : tfcfg) : outcome unit :=
  if tf_direct c then so_validate c
  else
    do _ <- (if tf_has_sub c then Ok tt else if bT1 b then Internal [31] else Reject 30);
    do _ <- (if tf_merge c <? 2 then Reject 31
             else if (so_block c <? 2) && negb (so_block c =? 0) then Reject 32 else Ok tt);
    do _ <- so_validate c;
    do _ <- graft_validate c;
    mom_validate c.

(* grafting._mask_skipped *)
Definition tf_masked (c : tfcfg) (p : list Z) : bool :=
  negb (tf_direct c) && negb (tf_graft c =? 0) &&
  ((tf_skip_rank1 c && (zlen p <=? 1)) || existsb (fun s => s >? tf_skip_gt c) p).

(* reshaper: the shape the second-order transform sees *)
Definition tf_qshape (c : tfcfg) (p : list Z) : list Z :=
  if tf_direct c then p else sh_padded_shape (derive_shapes (tf_merge c) (so_block c) p).

Definition graft_mask : layout := Node KGraftMask [] [].

(* the tree handed to shampoo._init / sketchy._init *)
Fixpoint so_tree (c : tfcfg) (t : layout) : layout :=
  match t with
  | Leaf p d => if tf_masked c p then graft_mask else Leaf (tf_qshape c p) d
  | PSpec n => PSpec n
  | Node k st ch => Node k st (map (so_tree c) ch)
  end.

(* shampoo._init.make_blocks *)
Definition sh_reject (c : tfcfg) (q : list Z) : option Z :=
  let bs := tf_block c in
  if existsb (fun d => d =? 1) q then Some 50
  else if 2 <? zlen (filter (fun d => d >=? bs) q) then Some 51
  else if existsb (fun d => (d >=? bs) && negb (d mod bs =? 0)) q then Some 52
  else None.

Definition axes_blocks (c : tfcfg) (q : list Z) : layout :=
  let md := blocks_metadata (tf_block c) q in
  let n := bm_num_blocks md in
  let ms := map (fun d => Leaf [n; d; d] F32) (bm_block_sizes md) in
  Node KAxesBlocks [] [list_of ms; list_of ms].

(* sketchy._init._tensor_state *)
Definition sk_reject (q : list Z) : option Z :=
  if existsb (fun d => d =? 1) q then Some 53 else None.

Definition opt_leaf (on : bool) (shape : list Z) : layout := if on then Leaf shape F32 else masked.

Definition axis_state (c : tfcfg) (d m : Z) : layout :=
  let k := Z.min d (tf_rank c) in
  let mm := Z.min d (k + m) in
  Node KAxisState []
       [Leaf [d; k] F32; Leaf [k] F32; Leaf [k] F32; Leaf [] F32; Leaf [] F32;
        opt_leaf (tf_add_ggt c) [d; d]; opt_leaf (tf_ekfac c) [d; mm]; opt_leaf (tf_ekfac c) [mm];
        opt_leaf (tf_ekfac c) []].
Definition tensor_state (c : tfcfg) (q : list Z) : layout :=
  let total := prod_z q in
  Node KTensorState [] [list_of (map (fun d => axis_state c d (total / d)) q)].

Definition so_param_init (c : tfcfg) (q : list Z) : outcome layout :=
  if tf_so c =? 0 then
    match sh_reject c q with Some s => Reject s | None => Ok (axes_blocks c q) end
  else
    match sk_reject q with Some s => Reject s | None => Ok (tensor_state c q) end.

Definition so_kind (c : tfcfg) : nkind := if tf_so c =? 0 then KTFShampooState else KSketchyState.

Definition so_init (c : tfcfg) (t : layout) : outcome layout :=
  let t' := so_tree c t in
  do ls <- omap (so_param_init c) (leaves t');
  Ok (Node (so_kind c) [] [count_leaf; fst (rebuild t' ls)]).

(* one update of the second-order state: recompute every parameter's entry and apply the typing
   rule of the lax.cond that selects between the refreshed and the old value *)
Definition sh_param_update (c : tfcfg) (q : list Z) (old : layout) : outcome layout :=
  match old with
  | Node KAxesBlocks [] [Node KList [] st; Node KList [] rt] =>
      let new := axes_blocks c q in
      if (zlen st =? zlen q) && layout_eqb new old then Ok new else Internal [60]
  | _ => Internal [60]
  end.

Definition axis_update (c : tfcfg) (d m : Z) (old : layout) : outcome layout :=
  match old with
  | Node KAxisState [] [ev; el; ie; tl; it; gg; su; ss; ip] =>
      let k := Z.min d (tf_rank c) in
      let ucols := Z.min d (k + m) in
      if negb (layout_eqb ev (Leaf [d; k] F32)) then Internal [61]      (* assert sketch_dk.shape *)
      else
        let kk := Z.min k ucols in
        let new := Node KAxisState []
                     [Leaf [d; kk] F32; Leaf [kk] F32; Leaf [kk] F32; Leaf [] F32; Leaf [] F32;
                      (if tf_add_ggt c then Leaf [d; d] F32 else gg);
                      (if tf_ekfac c then Leaf [d; ucols] F32 else su);
                      (if tf_ekfac c then Leaf [ucols] F32 else ss);
                      (if tf_ekfac c then it else ip)] in
        if tf_ekfac c || layout_eqb new old then Ok new else Internal [62]
  | _ => Internal [61]
  end.

Fixpoint axes_update (c : tfcfg) (total : Z) (q : list Z) (olds : list layout)
  : outcome (list layout) :=
  match q, olds with
  | _, [] => Ok []
  | d :: q', o :: r => do x <- axis_update c d (total / d) o;
                       do rest <- axes_update c total q' r; Ok (x :: rest)
  | [], _ :: _ => Internal [61]                     (* update.shape[dim] *)
  end.

Definition sk_param_update (c : tfcfg) (q : list Z) (old : layout) : outcome layout :=
  match old with
  | Node KTensorState [] [Node KList [] axes] =>
      do ax <- axes_update c (prod_z q) q axes;
      do _ <- guard (zlen ax =? zlen q) 61;          (* _precondition: assert g.shape[0] == d *)
      Ok (Node KTensorState [] [list_of ax])
  | _ => Internal [61]
  end.

Definition so_update (c : tfcfg) (t l : layout) : outcome layout :=
  let t' := so_tree c t in
  match l with
  | Node k [] [Leaf [] I32; st] =>
      if negb (nkind_eqb k (so_kind c)) then Internal [89]
      else match collect t' st with
           | None => Internal [89]
           | Some olds =>
               do r <- map2o (if tf_so c =? 0 then sh_param_update c else sk_param_update c)
                             (leaves t') olds;
               Ok (Node (so_kind c) [] [count_leaf; fst (rebuild t' r)])
           end
  | _ => Internal [89]
  end.

(* --- optax pieces: layouts as observed (oracle) --- *)
Fixpoint remove_nth (l : list Z) (i : nat) : list Z :=
  match l, i with
  | [], _ => []
  | _ :: t, O => t
  | x :: t, S i' => x :: remove_nth t i'
  end.
(* index of the maximum, the LAST one among equals (stable ascending argsort, last position) *)
Fixpoint argmax_last (l : list Z) (i : nat) (best : Z) (bi : nat) : nat :=
  match l with
  | [] => bi
  | x :: t => if best <=? x then argmax_last t (S i) x i else argmax_last t (S i) best bi
  end.
Definition factored_dims (p : list Z) (minfac : Z) : option (nat * nat) :=
  if zlen p <? 2 then None
  else
    let i1 := argmax_last p 0 (-1) 0 in                      (* sorted_dims[-1] *)
    let rest := firstn i1 p ++ (-1) :: skipn (S i1) p in
    let i2 := argmax_last rest 0 (-2) 0 in                    (* sorted_dims[-2] *)
    if nth i2 p 0 <? minfac then None else Some (i2, i1).

Definition fact_rows (dt : dtype) (minfac : Z) (p : list Z) : layout :=
  match factored_dims p minfac with Some (_, d0) => Leaf (remove_nth p d0) dt | None => Leaf [1] dt end.
Definition fact_cols (dt : dtype) (minfac : Z) (p : list Z) : layout :=
  match factored_dims p minfac with Some (d1, _) => Leaf (remove_nth p d1) dt | None => Leaf [1] dt end.
Definition fact_v (dt : dtype) (minfac : Z) (p : list Z) : layout :=
  match factored_dims p minfac with Some _ => Leaf [1] dt | None => Leaf p dt end.

Definition norm_state (c : tfcfg) (t : layout) : layout :=
  let g := tf_graft c in
  if g =? 1 then empty_state
  else if g =? 2 then Node KRmsAcc [] [t]
  else
    let ps := leaves t in
    let mf := tf_g_minfac c in
    tuple_of
      [tuple_of ([Node KFactoredState []
                       [count_leaf; fst (rebuild t (map (fact_rows (tf_pdt c) mf) ps));
                        fst (rebuild t (map (fact_cols (tf_pdt c) mf) ps));
                        fst (rebuild t (map (fact_v (tf_pdt c) mf) ps))];
                  empty_state] ++ (if tf_g_mult c then [empty_state] else []) ++ [empty_state]);
       empty_state].

Definition mom_state (c : tfcfg) (t : layout) : layout :=
  let mom := if Qeq_bool (tf_m_decay c) q0 then []
             else (if tf_m_ema c then [empty_state] else []) ++ [Node KTraceState [] [t]] in
  let wd := if qlt q0 (tf_m_wd c) then [empty_state] else [] in
  tuple_of (if tf_m_after c then mom ++ wd else wd ++ mom).

Definition lr_state (c : tfcfg) : layout :=
  if tf_lr_callable c then Node KScaleBySchedule [] [count_leaf] else empty_state.

Definition direction_state (so : layout) : layout := tuple_of [masked; so; masked].

Definition tf_init (b : bugs) (c : tfcfg) (t : layout) : outcome layout :=
  do _ <- tf_accepts b c;
  do so <- so_init c t;
  if tf_direct c then Ok so
  else
    let g := if tf_graft c =? 0 then direction_state so
             else Node KGraftingState [] [count_leaf; direction_state so; norm_state c t] in
    Ok (tuple_of [g; mom_state c t; lr_state c]).

Definition dir_update (c : tfcfg) (t d : layout) : outcome layout :=
  match d with
  | Node KTuple [] [Node KMasked [] []; so; Node KMasked [] []] =>
      do so' <- so_update c t so; Ok (direction_state so')
  | _ => Internal [89]
  end.

Definition norm_update (c : tfcfg) (t n : layout) : outcome layout :=
  if tf_graft c =? 2 then
    (if layout_eqb n (Node KRmsAcc [] [t]) then Ok n else Internal [63])
  else Ok n.

Definition tf_update (b : bugs) (c : tfcfg) (t l : layout) : outcome layout :=
  if bB3 b && negb (dtype_eqb (tf_pdt c) F32) then Internal [43] else   (* dtype drift, not modelled *)
  if tf_direct c then so_update c t l
  else
    match l with
    | Node KTuple [] [g; m; lr] =>
        do g' <- (if tf_graft c =? 0 then dir_update c t g
                  else match g with
                       | Node KGraftingState [] [Leaf [] I32; d; n] =>
                           do d' <- dir_update c t d;
                           do n' <- norm_update c t n;
                           Ok (Node KGraftingState [] [count_leaf; d'; n'])
                       | _ => Internal [89]
                       end);
        Ok (tuple_of [g'; m; lr])
    | _ => Internal [89]
    end.
