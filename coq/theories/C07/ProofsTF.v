(* C07/ProofsTF.v — SM3 and Tearfree: the initial layout is a fixed point of the update. *)
From Coq Require Import ZArith List Bool Lia ZifyBool QArith.
From Precond Require Import Base.PyLib C06.Records C06.Ref C06.MergeProofs.
From Precond Require Import C07.Layout C07.Model C07.ModelTF C07.Infra C07.Proofs.
Import ListNotations.
Open Scope Z_scope.

(* ------------------------------------------------------------------------------------------ *)
(* SM3                                                                                          *)
(* ------------------------------------------------------------------------------------------ *)
Lemma accs_fit_init p : accs_fit p (map (fun s => Leaf [s] F32) p) = true.
Proof.
  induction p as [|s t IH]; [reflexivity|].
  cbn [map accs_fit]. rewrite IH, andb_true_r.
  unfold prod_z. cbn [fold_left]. lia.
Qed.

Lemma sm3_update_param_init d p : sm3_update_param d p (sm3_param d p) = Ok (sm3_param d p).
Proof.
  unfold sm3_update_param, sm3_param, qv_i8, qv, list_of.
  rewrite accs_fit_init, list_eqb_z_refl. reflexivity.
Qed.

Theorem sm3_fixed_point d t l : sm3_init d t = Ok l -> sm3_update repaired d t l = Ok l.
Proof.
  unfold sm3_init. destruct (existsb (fun p => is_nil p) (leaves t)); [discriminate|].
  intro H. inversion H as [Hl]. clear H.
  unfold sm3_update, count_leaf. cbn [bB2 repaired andb].
  rewrite collect_rebuild' by (unfold nleaves; rewrite map_length; reflexivity).
  rewrite map2o_id by (intros; apply sm3_update_param_init). reflexivity.
Qed.

(* ------------------------------------------------------------------------------------------ *)
(* Tearfree                                                                                     *)
(* ------------------------------------------------------------------------------------------ *)
Definition shapes_pos (c : tfcfg) (t : layout) : Prop :=
  Forall (Forall (fun d => 1 <= d)) (leaves (so_tree c t)).

Lemma omap_map2o {A B} (f : A -> outcome B) (g : A -> B -> outcome B) (l : list A) :
  forall ls, (forall q x, In q l -> f q = Ok x -> g q x = Ok x) ->
  omap f l = Ok ls -> map2o g l ls = Ok ls /\ length ls = length l.
Proof.
  induction l as [|q r IH]; intros ls H E; cbn in E.
  - inversion E; subst. split; reflexivity.
  - destruct (f q) as [x| |] eqn:Fq; cbn in E; try discriminate.
    destruct (omap f r) as [rs| |] eqn:Fr; cbn in E; try discriminate.
    inversion E; subst. destruct (IH rs) as [I1 I2]; [intros; apply H; auto; now right|reflexivity|].
    cbn [map2o]. rewrite (H q x (or_introl eq_refl) Fq). cbn [obind]. rewrite I1. cbn [obind].
    split; [reflexivity|]. cbn. rewrite I2. reflexivity.
Qed.

Lemma sh_param_update_init c q : sh_param_update c q (axes_blocks c q) = Ok (axes_blocks c q).
Proof.
  unfold sh_param_update. unfold axes_blocks at 1. unfold list_of.
  rewrite layout_eqb_refl, andb_true_r.
  unfold blocks_metadata. cbn [bm_block_sizes]. rewrite !zlen_map, Z.eqb_refl. reflexivity.
Qed.

Lemma axis_update_init c d m :
  1 <= d -> 0 <= m -> axis_update c d m (axis_state c d m) = Ok (axis_state c d m).
Proof.
  intros Hd Hm. unfold axis_update, axis_state. cbv zeta.
  set (k := Z.min d (tf_rank c)). set (mm := Z.min d (k + m)).
  rewrite layout_eqb_refl. cbn [negb].
  assert (K : Z.min k mm = k) by (unfold mm, k; lia). rewrite K.
  assert (E : Node KAxisState []
      [Leaf [d; k] F32; Leaf [k] F32; Leaf [k] F32; Leaf [] F32; Leaf [] F32;
       if tf_add_ggt c then Leaf [d; d] F32 else opt_leaf (tf_add_ggt c) [d; d];
       if tf_ekfac c then Leaf [d; mm] F32 else opt_leaf (tf_ekfac c) [d; mm];
       if tf_ekfac c then Leaf [mm] F32 else opt_leaf (tf_ekfac c) [mm];
       if tf_ekfac c then Leaf [] F32 else opt_leaf (tf_ekfac c) []] =
    Node KAxisState []
      [Leaf [d; k] F32; Leaf [k] F32; Leaf [k] F32; Leaf [] F32; Leaf [] F32;
       opt_leaf (tf_add_ggt c) [d; d]; opt_leaf (tf_ekfac c) [d; mm];
       opt_leaf (tf_ekfac c) [mm]; opt_leaf (tf_ekfac c) []]).
  { unfold opt_leaf. destruct (tf_add_ggt c), (tf_ekfac c); reflexivity. }
  rewrite E, layout_eqb_refl, orb_true_r. reflexivity.
Qed.

Lemma axes_update_init c total q :
  0 <= total -> Forall (fun d => 1 <= d) q ->
  axes_update c total q (map (fun d => axis_state c d (total / d)) q) =
  Ok (map (fun d => axis_state c d (total / d)) q).
Proof.
  intros Ht. induction q as [|d r IH]; intro H; [reflexivity|].
  inversion H as [|? ? Hd Hr]; subst.
  cbn [map axes_update]. rewrite axis_update_init by (try lia; apply Z.div_pos; lia).
  cbn [obind]. rewrite IH by exact Hr. reflexivity.
Qed.

Lemma sk_param_update_init c q :
  Forall (fun d => 1 <= d) q -> sk_param_update c q (tensor_state c q) = Ok (tensor_state c q).
Proof.
  intro H. unfold sk_param_update, tensor_state, list_of.
  rewrite axes_update_init; [|pose proof (prod_ge1 q H); lia|exact H].
  cbn [obind]. rewrite zlen_map, Z.eqb_refl. reflexivity.
Qed.

Lemma so_update_init c t so :
  shapes_pos c t -> so_init c t = Ok so -> so_update c t so = Ok so.
Proof.
  intros Hpos. unfold so_init, so_update.
  destruct (omap (so_param_init c) (leaves (so_tree c t))) as [ls| |] eqn:E; cbn [obind]; try discriminate.
  intro H. inversion H as [Hso]. clear H.
  rewrite nkind_eqb_refl. cbn [negb]. unfold count_leaf.
  destruct (omap_map2o (so_param_init c)
              (if tf_so c =? 0 then sh_param_update c else sk_param_update c)
              (leaves (so_tree c t)) ls) as [M L]; [|exact E|].
  - intros q x Hq Hx. unfold so_param_init in Hx.
    destruct (tf_so c =? 0).
    + destruct (sh_reject c q); inversion Hx; subst. apply sh_param_update_init.
    + destruct (sk_reject q); inversion Hx; subst. apply sk_param_update_init.
      unfold shapes_pos in Hpos. rewrite Forall_forall in Hpos. apply Hpos. exact Hq.
  - rewrite collect_rebuild' by (unfold nleaves; exact L).
    rewrite M. reflexivity.
Qed.

Theorem tf_fixed_point c t l :
  shapes_pos c t -> tf_init repaired c t = Ok l -> tf_update repaired c t l = Ok l.
Proof.
  intros Hpos. unfold tf_init, tf_update. cbn [bB3 repaired andb].
  destruct (tf_accepts repaired c); cbn [obind]; try discriminate.
  destruct (so_init c t) as [so| |] eqn:Eso; cbn [obind]; try discriminate.
  pose proof (so_update_init c t so Hpos Eso) as U.
  destruct (tf_direct c).
  - intro H. inversion H; subst. exact U.
  - intro H. inversion H as [Hl]. clear H. unfold tuple_of.
    destruct (tf_graft c =? 0) eqn:G.
    + unfold direction_state, tuple_of, masked, dir_update. rewrite U. reflexivity.
    + unfold count_leaf, direction_state, tuple_of, masked, dir_update. rewrite U. cbn [obind].
      unfold norm_update, norm_state.
      destruct (tf_graft c =? 2) eqn:G2.
      * replace (tf_graft c =? 1) with false by lia. rewrite layout_eqb_refl. reflexivity.
      * reflexivity.
Qed.
