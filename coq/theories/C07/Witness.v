(* C07/Witness.v — corollaries (any number of updates), bookkeeping facts, and the refutations:
   concrete configurations on which the model of TODAY's code ([as_is]) violates the statement
   that is proved for the repaired behaviour. *)
From Coq Require Import ZArith List Bool Lia ZifyBool QArith.
From Precond Require Import Base.PyLib C06.Records C06.Ref C06.MergeProofs C06.BlockProofs.
From Precond Require Import C07.Layout C07.Model C07.ModelTF C07.Infra C07.Proofs C07.ProofsSharded
     C07.ProofsTF.
Import ListNotations.
Open Scope Z_scope.

(* ------------------------------------------------------------------------------------------ *)
(* any number of updates                                                                        *)
(* ------------------------------------------------------------------------------------------ *)
Definition stable_or_rejected (l0 : layout) (o : outcome layout) : Prop :=
  match o with Ok l => l = l0 | Reject s => s = 6 | Internal _ => False end.

Lemma ds_plain_stable c t k :
  ds_accepts repaired c = Ok tt -> valid_ptype c -> ds_sharded c = false ->
  stable_or_rejected (ds_init_plain c t) (iterate repaired c t k (ds_init_plain c t)).
Proof.
  intros Hacc Hp Hsh. induction k as [|k IH]; [reflexivity|].
  cbn [iterate]. unfold ds_update. cbn [bB1 repaired andb]. rewrite Hsh.
  destruct (ds_plain_fixed_point c t Hacc Hp Hsh) as [E|E]; rewrite E; cbn [obind].
  - exact IH.
  - reflexivity.
Qed.

Lemma ds_sharded_stable c t l k :
  ds_accepts repaired c = Ok tt -> valid_ptype c -> ds_sharded c = true -> 0 < ds_ndev c ->
  sizes_positive c (leaves t) -> ds_init_sharded repaired c t = Ok l ->
  iterate repaired c t k l = Ok l.
Proof.
  intros Hacc Hp Hsh Hnd Hpos Hinit. induction k as [|k IH]; [reflexivity|].
  cbn [iterate]. unfold ds_update. cbn [bB1 repaired andb]. rewrite Hsh.
  rewrite (ds_sharded_fixed_point c t l Hacc Hp Hsh Hnd Hpos Hinit). cbn [obind]. exact IH.
Qed.

(* the public entry points: init then any number of updates *)
Theorem ds_layout_fixed_point c t l k :
  ds_accepts repaired c = Ok tt -> valid_ptype c -> 0 < ds_ndev c ->
  (ds_sharded c = true -> sizes_positive c (leaves t)) ->
  ds_init repaired c t = Ok l ->
  stable_or_rejected l (iterate repaired c t k l).
Proof.
  intros Hacc Hp Hnd Hpos. unfold ds_init. rewrite Hacc. cbn [obind].
  destruct (ds_sharded c) eqn:Hsh.
  - intro Hinit. rewrite (ds_sharded_stable c t l k Hacc Hp Hsh Hnd (Hpos eq_refl) Hinit).
    reflexivity.
  - intro H. inversion H; subst. apply ds_plain_stable; assumption.
Qed.

Fixpoint iter_upd (upd : layout -> outcome layout) (k : nat) (l : layout) : outcome layout :=
  match k with O => Ok l | S k' => do l' <- upd l; iter_upd upd k' l' end.

Theorem sm3_layout_fixed_point d t l k :
  sm3_init d t = Ok l -> iter_upd (sm3_update repaired d t) k l = Ok l.
Proof.
  intro H. induction k as [|k IH]; [reflexivity|].
  cbn [iter_upd]. rewrite (sm3_fixed_point d t l H). exact IH.
Qed.

Theorem tf_layout_fixed_point c t l k :
  shapes_pos c t -> tf_init repaired c t = Ok l -> iter_upd (tf_update repaired c t) k l = Ok l.
Proof.
  intros Hp H. induction k as [|k IH]; [reflexivity|].
  cbn [iter_upd]. rewrite (tf_fixed_point c t l Hp H). exact IH.
Qed.

(* repaired model never reports an internal error at init either *)
Theorem ds_init_no_internal c t : forall tags, ds_init repaired c t <> Internal tags.
Proof.
  intros tags. unfold ds_init, ds_accepts. cbn [bD7 repaired negb].
  repeat match goal with |- context [if ?b then _ else _] => destruct b; cbn [obind]; try discriminate end.
  unfold ds_init_sharded, sh_init_gate. cbn [bN1 bN7 repaired negb andb app].
  destruct (sh_too_small c (leaves t)); cbn [obind]; try discriminate.
  destruct (sh_dims c (leaves t)); discriminate.
Qed.

Theorem tf_accepts_no_internal c : forall tags, tf_accepts repaired c <> Internal tags.
Proof.
  intros tags. unfold tf_accepts, so_validate, graft_validate, mom_validate. cbn [bT1 repaired].
  repeat match goal with |- context [if ?b then _ else _] => destruct b; cbn [obind]; try discriminate end.
Qed.

(* ------------------------------------------------------------------------------------------ *)
(* update tree / reshape-back facts                                                             *)
(* ------------------------------------------------------------------------------------------ *)
Lemma tshape_ge1 c p :
  1 <= ds_merge c -> Forall (fun d => 1 <= d) p -> Forall (fun d => 1 <= d) (tshape c p).
Proof.
  intros Hm Hp. unfold tshape. destruct (ds_best_effort c); [|exact Hp].
  destruct (merge_small_dims_no_unit p (ds_merge c) Hm Hp) as [E|F].
  - rewrite E. constructor; [lia|constructor].
  - eapply Forall_impl; [|exact F]. cbn. intros; lia.
Qed.

Theorem update_reshapes_back c p :
  1 <= ds_merge c -> Forall (fun d => 1 <= d) p ->
  prod_z (tshape c p) = prod_z p /\ map sum_z (split_sizes c p) = tshape c p /\
  layout_eqb (updates_layout (Leaf p F32)) (Leaf p F32) = true.
Proof.
  intros Hm Hp. split; [|split].
  - unfold tshape. destruct (ds_best_effort c); [|reflexivity].
    apply merge_small_dims_product; assumption.
  - unfold split_sizes. apply split_sizes_sum. apply tshape_ge1; assumption.
  - apply layout_eqb_refl.
Qed.

Theorem updates_like_params t : layout_eqb (updates_layout t) t = true /\ leaves (updates_layout t) = leaves t.
Proof. split; [apply layout_eqb_refl|reflexivity]. Qed.

(* ------------------------------------------------------------------------------------------ *)
(* bookkeeping                                                                                  *)
(* ------------------------------------------------------------------------------------------ *)
Lemma pad_to_multiple n d : 0 < d -> (n + (- n) mod d) mod d = 0 /\ 0 <= (- n) mod d < d.
Proof.
  intro H. split; [|apply Z.mod_pos_bound; exact H].
  rewrite Z.add_mod_idemp_r by lia. replace (n + - n) with 0 by lia. apply Z.mod_0_l. lia.
Qed.

Theorem bookkeeping c p :
  valid_ptype c ->
  zlen (pshapes c p) = num_blocks c p * num_pre c p /\
  slots_ok c p (zlen (pshapes c p)) = true /\
  map dim0 (pshapes c p) = produced_dims c p /\
  (forall n d, 0 < d -> (n + (- n) mod d) mod d = 0 /\ 0 <= (- n) mod d < d).
Proof.
  intro Hp. repeat split; try (apply pad_to_multiple; assumption).
  - apply zlen_pshapes; exact Hp.
  - apply slots_ok_init; exact Hp.
  - apply announced_eq_produced.
Qed.

(* ------------------------------------------------------------------------------------------ *)
(* concrete instances (tests by computation, not part of the general statements)                *)
(* ------------------------------------------------------------------------------------------ *)
Definition base_cfg : dscfg :=
  mkDS 8 4096 true 1 0 false false false false 1 1 false 1 false false false 1 4096 1 true false 0
       false false F32.
Definition tree1 : layout := Node KDict [SZs [0; 1]] [Leaf [8; 6] F32; Leaf [] F32].
Definition tree0 : layout := Node KDict [SZs []] [].

(* 1x1 statistics (block_size = 1), the empty tree, a compressed configuration *)
Example ex_block1 :
  let c := mkDS 1 4096 true 1 0 false false false false 1 1 false 1 false false false 1 4096 1 true
                false 0 false false F32 in
  iterate repaired c tree1 3 (ds_init_plain c tree1) = Ok (ds_init_plain c tree1).
Proof. vm_compute. reflexivity. Qed.

Example ex_empty_tree :
  iterate repaired base_cfg tree0 3 (ds_init_plain base_cfg tree0) = Ok (ds_init_plain base_cfg tree0).
Proof. vm_compute. reflexivity. Qed.

Definition fd_cfg (reuse avg fdm metrics x64 : bool) : dscfg :=
  mkDS 8 4096 true 1 1 true false avg reuse 1 1 false 1 false false false 1 4096 1 metrics fdm 0
       false x64 F32.

Example ex_fd_repaired :
  let c := fd_cfg true true true true true in
  ds_accepts repaired c = Ok tt /\
  iterate repaired c tree1 3 (ds_init_plain c tree1) = Ok (ds_init_plain c tree1).
Proof. vm_compute. split; reflexivity. Qed.

(* bfloat16 parameters, int8 momentum with bfloat16 bucket sizes: layout stable (repaired) *)
Example ex_bf16_repaired :
  let c := mkDS 4 4096 true 1 0 false false false false 1 1 false 3 true true false 1 4096 1 true
                false 0 false false BF16 in
  let t := Node KDict [SZs [0; 1]] [Leaf [3; 4] BF16; Leaf [5] BF16] in
  iterate repaired c t 3 (ds_init_plain c t) = Ok (ds_init_plain c t) /\
  updates_layout t = t.
Proof. vm_compute. split; reflexivity. Qed.

Example ex_sizes_positive : sizes_positive (mkDS 4 4096 true 1 0 false false false false 1 1 false 1
  false false true 2 4096 1 true false 0 false false F32) (leaves tree1).
Proof. vm_compute. repeat constructor; discriminate. Qed.

(* --- refutations: today's code, modelled by [as_is] --- *)

(* D7: accepted, first update dies with the internal assertion *)
Theorem d7_refuted : exists c t l,
  ds_accepts as_is c = Ok tt /\ ds_init as_is c t = Ok l /\ ds_update as_is c t l = Internal [7].
Proof.
  exists (fd_cfg false false false true false), tree1.
  eexists. split; [reflexivity|]. split; vm_compute; reflexivity.
Qed.

(* D8: the layout after one update differs from the initial layout *)
Theorem d8_refuted : exists c t l l',
  ds_init as_is c t = Ok l /\ ds_update as_is c t l = Ok l' /\ layout_eqb l l' = false.
Proof.
  exists (mkDS 8 4096 true 1 1 true false true true 1 1 false 1 false false false 1 4096 1 true
               false 0 false false F32), tree1.
  eexists. eexists. split; [|split]; vm_compute; reflexivity.
Qed.

(* N9: the same with the FD diagnostics of a skipped parameter *)
Theorem n9_refuted : exists c t l l',
  ds_init as_is c t = Ok l /\ ds_update as_is c t l = Ok l' /\ layout_eqb l l' = false.
Proof.
  exists (mkDS 8 4096 true 1 1 true false false true 1 1 false 1 false false false 1 4096 1 true
               true 0 false false F32), tree1.
  eexists. eexists. split; [|split]; vm_compute; reflexivity.
Qed.

(* D10: the declared shapes/dtypes are not the initial state's *)
Theorem d10_refuted : exists c t l d,
  ds_init as_is c t = Ok l /\ ds_declared as_is c t = Ok d /\ layout_eqb l d = false.
Proof.
  exists (mkDS 4 4096 true 1 0 false false false false 1 1 false 1 true false true 1 4096 1 true
               false 0 false false F32), tree1.
  eexists. eexists. split; [|split]; vm_compute; reflexivity.
Qed.

(* D11 (x64), N1 (too small for compression), N6 (fd metrics without training metrics) *)
Theorem d11_n1_n6_refuted :
  (exists c t l, ds_init as_is c t = Ok l /\ ds_update as_is c t l = Internal [11]) /\
  (exists c t l, ds_init as_is c t = Ok l /\ ds_update as_is c t l = Internal [21]) /\
  (exists c t l, ds_init as_is c t = Ok l /\ ds_update as_is c t l = Internal [26]).
Proof.
  split; [|split].
  - exists (fd_cfg true false false true true), tree1. eexists. split; vm_compute; reflexivity.
  - exists (mkDS 2 4096 true 1 2 false false false false 1 1 false 1 false false false 1 4096 1
                 true false 0 false false F32), tree1. eexists. split; vm_compute; reflexivity.
  - exists (fd_cfg true false true false false), tree1. eexists. split; vm_compute; reflexivity.
Qed.

(* the excluding hypotheses: outside the listed defects today's model IS the repaired model *)
Theorem as_is_accepts_outside_d7 c :
  (ds_fd c && negb (ds_reuse c)) = false -> ds_accepts as_is c = ds_accepts repaired c.
Proof.
  intro H. unfold ds_accepts. cbn [bD7 as_is repaired negb].
  destruct (ds_reset c && negb (ds_fd c)); [reflexivity|].
  destruct (ds_fd c && (ds_cr c <=? 0)); [reflexivity|].
  destruct (ds_avg c && negb (ds_fd c)); [reflexivity|].
  destruct (ds_fd c && negb (ds_stat_steps c =? ds_pcs c)); [reflexivity|].
  rewrite H. reflexivity.
Qed.

Theorem compute_stats_outside_d8 c q p st :
  (skipped c p = false /\ (ds_fd c && ds_avg c) = true) \/ ps_avg st = masked ->
  compute_stats as_is c q p st = compute_stats repaired c q p st.
Proof.
  intro H. unfold compute_stats. cbn [bD8 as_is repaired].
  destruct H as [[Hs Hf]|Hm].
  - rewrite Hs, Hf. reflexivity.
  - rewrite Hm. reflexivity.
Qed.
