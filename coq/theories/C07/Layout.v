(* C07/Layout.v — the data types of the layout calculus (definitions only).

   A [layout] is the canonical signature of a JAX pytree: array leaves carry (shape, dtype); inner
   nodes carry the node kind (tuple / list / dict / NamedTuple / flax struct dataclass ...) and the
   node's STATIC metadata (dict keys, `pytree_node=False` dataclass fields such as
   QuantizedValue.quantized_dtype / extract_diagonal / shape, LocalShardedParameterStats.index_start
   / sizes).  harness/impl/c07_worker.py:sig computes exactly this signature from a real pytree
   (jax.tree_util.default_registry.flatten_one_level), harness/c07.py prints it as a term of this
   type.  A parameter tree is a layout whose leaves are the parameters' shapes. *)
From Precond Require Import Base.PyLib.
Open Scope Z_scope.

Inductive dtype := F32 | F64 | BF16 | I8 | I16 | I32 | I64 | B1 | PyScalar | DOther.

Definition dtype_code (d : dtype) : Z :=
  match d with F32 => 0 | F64 => 1 | BF16 => 2 | I8 => 3 | I16 => 4 | I32 => 5 | I64 => 6
             | B1 => 7 | PyScalar => 8 | DOther => 9 end.
Definition dtype_eqb (a b : dtype) : bool := dtype_code a =? dtype_code b.

(* static metadata values *)
Inductive sval := SInt (z : Z) | SBool (b : bool) | SDt (d : dtype) | SZs (l : list Z) | SOther.

Definition sval_eqb (a b : sval) : bool :=
  match a, b with
  | SInt x, SInt y => x =? y
  | SBool x, SBool y => Bool.eqb x y
  | SDt x, SDt y => dtype_eqb x y
  | SZs x, SZs y => list_eqb_z x y
  | SOther, SOther => true
  | _, _ => false
  end.

Fixpoint svals_eqb (a b : list sval) : bool :=
  match a, b with
  | [], [] => true
  | x :: s, y :: t => sval_eqb x y && svals_eqb s t
  | _, _ => false
  end.

Inductive nkind :=
  | KNone | KTuple | KList | KDict | KMasked | KEmpty
  | KShampooState | KParameterStats | KQuantized | KTrainingMetrics | KLobpcg | KInvDiag | KFD
  | KShardedStats | KGlobalStats | KLocalStats
  | KSM3State | KSM3Param
  | KTFShampooState | KAxesBlocks | KSketchyState | KTensorState | KAxisState
  | KGraftingState | KRmsAcc | KGraftMask | KTraceState | KScaleBySchedule | KFactoredState
  | KOtherKind.

Definition nkind_code (k : nkind) : Z :=
  match k with
  | KNone => 0 | KTuple => 1 | KList => 2 | KDict => 3 | KMasked => 4 | KEmpty => 5
  | KShampooState => 6 | KParameterStats => 7 | KQuantized => 8 | KTrainingMetrics => 9
  | KLobpcg => 10 | KInvDiag => 11 | KFD => 12 | KShardedStats => 13 | KGlobalStats => 14
  | KLocalStats => 15 | KSM3State => 16 | KSM3Param => 17 | KTFShampooState => 18
  | KAxesBlocks => 19 | KSketchyState => 20 | KTensorState => 21 | KAxisState => 22
  | KGraftingState => 23 | KRmsAcc => 24 | KGraftMask => 25 | KTraceState => 26
  | KScaleBySchedule => 27 | KFactoredState => 28 | KOtherKind => 29
  end.
Definition nkind_eqb (a b : nkind) : bool := nkind_code a =? nkind_code b.

Inductive layout :=
  | Leaf (shape : list Z) (dt : dtype)          (* an array *)
  | PSpec (n : Z)                               (* a PartitionSpec of length n (pspec trees) *)
  | Node (k : nkind) (st : list sval) (ch : list layout).

Fixpoint layout_eqb (a b : layout) {struct a} : bool :=
  match a, b with
  | Leaf s d, Leaf s' d' => list_eqb_z s s' && dtype_eqb d d'
  | PSpec n, PSpec m => n =? m
  | Node k st ch, Node k' st' ch' =>
      nkind_eqb k k' && svals_eqb st st' &&
      (fix go (x y : list layout) {struct x} : bool :=
         match x, y with
         | [], [] => true
         | u :: x', v :: y' => layout_eqb u v && go x' y'
         | _, _ => false
         end) ch ch'
  | _, _ => false
  end.

Fixpoint layouts_eqb (x y : list layout) : bool :=
  match x, y with
  | [], [] => true
  | u :: x', v :: y' => layout_eqb u v && layouts_eqb x' y'
  | _, _ => false
  end.

(* the "same tree, PartitionSpec where the state has an array" relation of the sharded views;
   a spec may not be longer than the rank of the array it annotates *)
Fixpoint pspec_matches (a p : layout) {struct a} : bool :=
  match a, p with
  | Leaf s _, PSpec n => (0 <=? n) && (n <=? zlen s)
  | PSpec n, PSpec m => n =? m
  | Node k st ch, Node k' st' ch' =>
      nkind_eqb k k' && svals_eqb st st' &&
      (fix go (x y : list layout) {struct x} : bool :=
         match x, y with
         | [], [] => true
         | u :: x', v :: y' => pspec_matches u v && go x' y'
         | _, _ => false
         end) ch ch'
  | _, _ => false
  end.

(* outcome of running the implementation, as predicted by the model *)
Inductive outcome (A : Type) :=
  | Ok (a : A)
  | Reject (site : Z)              (* an explicit `raise ValueError/NotImplementedError` *)
  | Internal (tags : list Z).      (* an internal error; tags = defect ids that can cause it *)
Arguments Ok {A} a.
Arguments Reject {A} site.
Arguments Internal {A} tags.

Definition obind {A B} (x : outcome A) (f : A -> outcome B) : outcome B :=
  match x with Ok a => f a | Reject s => Reject s | Internal t => Internal t end.
Notation "'do' x <- e ; f" := (obind e (fun x => f)) (at level 200, x name, e at level 100, f at level 200).

Definition guard (b : bool) (tag : Z) : outcome unit := if b then Ok tt else Internal [tag].

Fixpoint omap {A B} (f : A -> outcome B) (l : list A) : outcome (list B) :=
  match l with
  | [] => Ok []
  | x :: t => do y <- f x; do r <- omap f t; Ok (y :: r)
  end.

(* generic helpers on parameter trees (= layouts with parameter-shaped leaves) *)
Fixpoint leaves (t : layout) : list (list Z) :=
  match t with
  | Leaf s _ => [s]
  | PSpec _ => []
  | Node _ _ ch => flat_map leaves ch
  end.

(* replace the array leaves of [t], left to right, by the given layouts; returns the rebuilt
   tree and the unused rest (jax.tree.unflatten) *)
Fixpoint rebuild (t : layout) (ls : list layout) {struct t} : layout * list layout :=
  match t with
  | Leaf _ _ => match ls with x :: r => (x, r) | [] => (t, []) end
  | PSpec _ => (t, ls)
  | Node k st ch =>
      let '(ch', r) :=
        (fix go (c : list layout) (ls : list layout) {struct c} : list layout * list layout :=
           match c with
           | [] => ([], ls)
           | u :: c' => let '(u', r1) := rebuild u ls in
                        let '(c'', r2) := go c' r1 in (u' :: c'', r2)
           end) ch ls in
      (Node k st ch', r)
  end.

(* treedef.flatten_up_to: the sub-layouts of [l] sitting at the leaf positions of [t]; None when
   the trees do not line up *)
Fixpoint collect (t l : layout) {struct t} : option (list layout) :=
  match t with
  | Leaf _ _ => Some [l]
  | PSpec _ => Some []
  | Node k st ch =>
      match l with
      | Node k' st' ch' =>
          if nkind_eqb k k' && svals_eqb st st' then
            (fix go (c c' : list layout) {struct c} : option (list layout) :=
               match c, c' with
               | [], [] => Some []
               | u :: r, u' :: r' =>
                   match collect u u', go r r' with
                   | Some a, Some b => Some (a ++ b)
                   | _, _ => None
                   end
               | _, _ => None
               end) ch ch'
          else None
      | _ => None
      end
  end.

Definition masked : layout := Node KMasked [] [].
Definition empty_state : layout := Node KEmpty [] [].
Definition empty_list : layout := Node KList [] [].
Definition tuple_of (l : list layout) : layout := Node KTuple [] l.
Definition list_of (l : list layout) : layout := Node KList [] l.

Definition max_z (l : list Z) : Z := fold_left Z.max l 0.
