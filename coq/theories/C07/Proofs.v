(* C07/Proofs.v — Distributed Shampoo, replicated / pmap mode: the initial layout is a fixed
   point of the (repaired) update; no internal bookkeeping error is reachable. *)
From Coq Require Import ZArith List Bool Lia ZifyBool.
From Precond Require Import Base.PyLib C06.Records C06.Ref C06.BlockProofs.
From Precond Require Import C07.Layout C07.Model C07.Infra.
Import ListNotations.
Open Scope Z_scope.

Definition valid_ptype (c : dscfg) : Prop := ds_ptype c = 1 \/ ds_ptype c = 2 \/ ds_ptype c = 3.

(* ------------------------------------------------------------------------------------------ *)
(* shape arithmetic                                                                             *)
(* ------------------------------------------------------------------------------------------ *)
Lemma dim0_pshape cr d : dim0 (preconditioner_shape cr d) = d.
Proof. unfold preconditioner_shape. destruct (truthy_z cr); reflexivity. Qed.

Lemma dim1_pshape cr d :
  dim1 (preconditioner_shape cr d) = if cr =? 0 then d else precond_dim cr d.
Proof.
  unfold preconditioner_shape, truthy_z. destruct (cr =? 0); reflexivity.
Qed.

Lemma blk_axes_eq ptype rank t : blk_axes ptype rank t = axes_of_block ptype rank t.
Proof. reflexivity. Qed.

(* announced = produced (C06: shapes_for_preconditioners lists one entry per block and
   preconditioned axis) *)
Lemma announced_eq_produced c p : map dim0 (pshapes c p) = produced_dims c p.
Proof.
  unfold pshapes, produced_dims. rewrite shapes_for_preconditioners_spec.
  induction (cart_prod (split_sizes c p)) as [|t r IH]; [reflexivity|].
  cbn [flat_map]. rewrite map_app, IH. f_equal.
  rewrite map_map. erewrite map_ext; [apply map_id|]. intro d. apply dim0_pshape.
Qed.

Lemma pshape_canonical c p s :
  In s (pshapes c p) -> s = preconditioner_shape (ds_cr c) (dim0 s).
Proof.
  unfold pshapes. rewrite shapes_for_preconditioners_spec. intro H.
  apply in_flat_map in H as [t [_ H]]. apply in_map_iff in H as [d [E _]]. subst s.
  rewrite dim0_pshape. reflexivity.
Qed.

Lemma precond_cols c m d :
  too_small c m = false -> d <= m ->
  Z.min d (pd_of c m) = dim1 (preconditioner_shape (ds_cr c) d).
Proof.
  unfold too_small, pd_of. rewrite dim1_pshape. unfold precond_dim, truthy_z.
  destruct (ds_cr c =? 0) eqn:E; cbn [negb andb]; intros H Hd; [lia|].
  cbn [negb] in *. cbv zeta in *.
  destruct (Z.abs (ds_cr c) + 2 >=? m) eqn:E1; [lia|].
  destruct (Z.abs (ds_cr c) + 2 >=? d) eqn:E2; lia.
Qed.

(* lengths: one slot per block and preconditioned axis *)
Lemma cart_prod_length {A} (ls : list (list A)) t : In t (cart_prod ls) -> length t = length ls.
Proof.
  revert t. induction ls as [|l r IH]; intros t H; cbn in H.
  - destruct H as [<-|[]]. reflexivity.
  - apply in_flat_map in H as [x [_ H]]. apply in_map_iff in H as [u [<- Hu]].
    cbn. f_equal. apply IH. exact Hu.
Qed.

Lemma zlen_slice_to_m1 {A} (t : list A) : 1 <= zlen t -> zlen (slice_to t (-1)) = zlen t - 1.
Proof.
  intro H. unfold slice_to, slice, clamp_slice. cbn [Z.ltb Z.compare].
  replace (-1 <? 0) with true by reflexivity.
  unfold zlen in *. rewrite firstn_length, skipn_length. lia.
Qed.

Lemma zlen_slice_from_m1 {A} (t : list A) : 1 <= zlen t -> zlen (slice_from t (-1)) = 1.
Proof.
  intro H. unfold slice_from, slice, clamp_slice.
  replace (-1 <? 0) with true by reflexivity.
  replace (zlen t <? 0) with false by (pose proof (zlen_nonneg t); lia).
  unfold zlen in *. rewrite firstn_length, skipn_length. lia.
Qed.

Lemma zlen_axes_of_block ptype rank t :
  (ptype = 1 \/ ptype = 2 \/ ptype = 3) -> zlen t = rank ->
  zlen (axes_of_block ptype rank t) = num_preconditioned ptype rank.
Proof.
  intros Hp Ht. unfold axes_of_block, num_preconditioned.
  destruct ((ptype =? 1) || (rank <=? 1)) eqn:E1; [exact Ht|].
  destruct (ptype =? 2) eqn:E2; [rewrite zlen_slice_to_m1; lia|].
  destruct (ptype =? 3) eqn:E3; [rewrite zlen_slice_from_m1; lia|]. lia.
Qed.

Lemma zlen_flat_map_const {A B} (f : A -> list B) (l : list A) n :
  (forall x, In x l -> zlen (f x) = n) -> zlen (flat_map f l) = zlen l * n.
Proof.
  induction l as [|x t IH]; intro H; [reflexivity|].
  cbn [flat_map]. rewrite zlen_app, zlen_cons, IH, (H x) by (intros; apply H; now right) || now left.
  lia.
Qed.

Lemma zlen_pshapes c p :
  valid_ptype c -> zlen (pshapes c p) = num_blocks c p * num_pre c p.
Proof.
  intro Hp. unfold pshapes, num_blocks, num_pre.
  rewrite shapes_for_preconditioners_spec, should_precondition_dims_count.
  apply zlen_flat_map_const. intros t Ht. rewrite zlen_map.
  apply zlen_axes_of_block; [exact Hp|].
  unfold zlen. f_equal. apply cart_prod_length. exact Ht.
Qed.

Lemma zlen_zrange n : 0 <= n -> zlen (zrange n) = n.
Proof. intro H. unfold zlen, zrange. rewrite map_length, seq_length. lia. Qed.

Lemma in_zrange i n : In i (zrange n) -> 0 <= i < n.
Proof.
  unfold zrange. intro H. apply in_map_iff in H as [k [<- Hk]]. apply in_seq in Hk. lia.
Qed.

Lemma num_pre_nonneg c p : 0 <= num_pre c p.
Proof.
  unfold num_pre, count_true. apply zlen_nonneg.
Qed.

(* _preconds_for_grad never trips its assertion on a layout produced by init *)
Lemma slots_ok_init c p :
  valid_ptype c -> slots_ok c p (zlen (pshapes c p)) = true.
Proof.
  intro Hp. unfold slots_ok. rewrite zlen_pshapes by exact Hp.
  apply andb_true_iff. split; [|apply Z.leb_le; lia].
  apply forallb_forall. intros i Hi. apply in_zrange in Hi.
  pose proof (num_pre_nonneg c p) as Hn.
  assert (E : num_pre c p = num_preconditioned (ds_ptype c) (zlen (split_sizes c p))).
  { unfold num_pre. apply should_precondition_dims_count. }
  destruct (preconds_for_grad_total (ds_ptype c) (zrange (num_blocks c p * num_pre c p))
              (zlen (split_sizes c p)) i Hp (zlen_nonneg _)) as [r [Hr _]]; [lia| |].
  - rewrite <- E, zlen_zrange by nia. nia.
  - rewrite <- E in Hr. rewrite Hr. reflexivity.
Qed.

(* ------------------------------------------------------------------------------------------ *)
(* _compute_stats and _transform_grad leave an initial ParameterStats layout unchanged          *)
(* ------------------------------------------------------------------------------------------ *)
Lemma init_stats_eq c q p :
  map (fun s => mat q (dim0 s) (dim0 s)) (pshapes c p) =
  map (fun d => mat q d d) (produced_dims c p).
Proof. rewrite <- announced_eq_produced, map_map. reflexivity. Qed.

Lemma compute_stats_init c p :
  compute_stats repaired c (qsm c) p (init_ps c p) = Ok (init_ps c p).
Proof.
  unfold compute_stats, init_ps, eff_pshapes, avg_layout. cbn [bD8 repaired ps_avg ps_stats].
  destruct (skipped c p) eqn:Hs.
  - cbn [map zlen length obind]. reflexivity.
  - destruct (ds_fd c && ds_avg c) eqn:Hfa.
    + rewrite layout_eqb_refl. cbn [obind]. rewrite init_stats_eq.
      rewrite Z.ltb_irrefl, layouts_eqb_refl, andb_false_r. reflexivity.
    + cbn [obind]. rewrite init_stats_eq.
      rewrite Z.ltb_irrefl, layouts_eqb_refl, andb_false_r. reflexivity.
Qed.

Lemma transform_grad_init c p :
  valid_ptype c -> ds_sharded c = false ->
  transform_grad c p (init_ps c p) = Ok (init_ps c p).
Proof.
  intros Hp Hsh. unfold transform_grad, init_ps. cbn [ps_diag ps_preconds ps_stats ps_avg ps_tm].
  rewrite Hsh, orb_false_r.
  assert (G : (if skipped c p then Ok tt
               else guard (slots_ok c p (zlen (map (fun s => mat (qsm c) (dim0 s) (dim1 s))
                                                     (eff_pshapes c p)))) 99) = Ok tt).
  { unfold eff_pshapes. destruct (skipped c p); [reflexivity|].
    rewrite zlen_map, slots_ok_init by exact Hp. reflexivity. }
  destruct (has_diag c).
  - cbn [qv_flt qv]. rewrite list_eqb_z_refl. cbn [obind]. rewrite G. reflexivity.
  - cbn [qv_empty qv empty_list obind]. rewrite G. reflexivity.
Qed.

(* ------------------------------------------------------------------------------------------ *)
(* _compute_preconditioners                                                                     *)
(* ------------------------------------------------------------------------------------------ *)
Definition shp_stats (c : dscfg) (shp : list (list Z)) : list layout :=
  map (fun s => mat (qsm c) (dim0 s) (dim0 s)) shp.
Definition shp_preconds (c : dscfg) (shp : list (list Z)) : list layout :=
  map (fun s => mat (qsm c) (dim0 s) (dim1 s)) shp.

Lemma stat_shape_mat q r k : stat_shape (mat q r k) = Some [r; k].
Proof. destruct q; reflexivity. Qed.

Lemma stat_dims_shp c shp : stat_dims (shp_stats c shp) = Ok (map dim0 shp).
Proof.
  induction shp as [|s t IH]; [reflexivity|].
  cbn [shp_stats map stat_dims]. rewrite stat_shape_mat. fold (shp_stats c t). rewrite IH.
  reflexivity.
Qed.

Lemma stat_dims_app a : forall b x y,
  stat_dims a = Ok x -> stat_dims b = Ok y -> stat_dims (a ++ b) = Ok (x ++ y).
Proof.
  induction a as [|s t IH]; intros b x y Ha Hb; cbn in *.
  - inversion Ha; subst. exact Hb.
  - destruct (stat_shape s); [|discriminate].
    destruct (stat_dims t) as [r| |] eqn:E; cbn in Ha; try discriminate.
    inversion Ha; subst. rewrite (IH b r y eq_refl Hb). reflexivity.
Qed.

Definition all_shp (c : dscfg) (ps : list (list Z)) : list (list Z) := flat_map (eff_pshapes c) ps.

Lemma flat_stats c ps :
  flat_map ps_stats (map (init_ps c) ps) = shp_stats c (all_shp c ps).
Proof.
  induction ps as [|p r IH]; [reflexivity|].
  cbn [map flat_map all_shp]. rewrite IH. unfold shp_stats, all_shp. rewrite map_app. reflexivity.
Qed.

Lemma is_nil_map {A B} (f : A -> B) l : is_nil (map f l) = is_nil l.
Proof. destruct l; reflexivity. Qed.

Lemma flat_prevs c ps :
  flat_map (fun s => if is_nil (ps_stats s) then [] else ps_preconds s) (map (init_ps c) ps) =
  shp_preconds c (all_shp c ps).
Proof.
  induction ps as [|p r IH]; [reflexivity|].
  cbn [map flat_map all_shp]. rewrite IH. unfold shp_preconds, all_shp. rewrite map_app. f_equal.
  unfold init_ps. cbn [ps_stats ps_preconds]. rewrite is_nil_map.
  destruct (eff_pshapes c p); reflexivity.
Qed.

Lemma eff_in_pshapes c p s : In s (eff_pshapes c p) -> In s (pshapes c p).
Proof. unfold eff_pshapes. destruct (skipped c p); [intros []|auto]. Qed.

Lemma qsm_cr0 c : qsm c = true -> ds_cr c =? 0 = true.
Proof.
  unfold qsm, qsm_flag. intro H. repeat (apply andb_true_iff in H as [H ?]). assumption.
Qed.

Lemma select_all_init c m shp :
  too_small c m = false ->
  (forall s, In s shp -> s = preconditioner_shape (ds_cr c) (dim0 s) /\ dim0 s <= m) ->
  select_all (qsm c) m (pd_of c m) (shp_stats c shp) (shp_preconds c shp) = Ok (shp_preconds c shp).
Proof.
  intros Hts. induction shp as [|s t IH]; intro H; [reflexivity|].
  cbn [shp_stats shp_preconds map select_all]. rewrite stat_shape_mat.
  destruct (H s (or_introl eq_refl)) as [Hc Hm].
  assert (Hd1 : dim1 s = dim1 (preconditioner_shape (ds_cr c) (dim0 s))) by (rewrite <- Hc; reflexivity).
  assert (E : cand_precond (qsm c) m (pd_of c m) [dim0 s; dim0 s] = mat (qsm c) (dim0 s) (dim1 s)).
  { unfold cand_precond. replace (dim0 [dim0 s; dim0 s]) with (dim0 s) by reflexivity.
    replace (dim1 [dim0 s; dim0 s]) with (dim0 s) by reflexivity.
    rewrite Z.min_l by exact Hm.
    rewrite (precond_cols c m (dim0 s) Hts Hm). rewrite <- Hd1.
    unfold mat. destruct (qsm c) eqn:Q; [|reflexivity].
    apply qsm_cr0 in Q.
    assert (Hd : dim1 s = dim0 s) by (rewrite Hd1, dim1_pshape, Q; reflexivity).
    rewrite Hd. unfold qv_mat. rewrite Z.min_id. reflexivity. }
  rewrite E, layout_eqb_refl.
  fold (shp_stats c t). fold (shp_preconds c t).
  rewrite IH by (intros; apply H; now right). reflexivity.
Qed.

Lemma accepted_fdm c : ds_accepts repaired c = Ok tt -> root_fdm c = fdm c.
Proof.
  unfold ds_accepts, root_fdm, fdm. intro H.
  destruct (ds_cr c =? 0) eqn:E; [|reflexivity].
  destruct (ds_fd c) eqn:F; [|rewrite andb_false_r; reflexivity].
  exfalso. destruct (ds_reset c && negb true); [discriminate|].
  cbn [andb] in H. replace (ds_cr c <=? 0) with true in H by lia. discriminate.
Qed.

Lemma ps_eta st :
  mkPS (ps_diag st) (ps_stats st) (ps_preconds st) (ps_dmom st) (ps_mom st) (ps_avg st) (ps_tm st) = st.
Proof. destruct st; reflexivity. Qed.

Lemma zlen_shp_stats c l : zlen (shp_stats c l) = zlen l.
Proof. apply zlen_map. Qed.
Lemma zlen_shp_preconds c l : zlen (shp_preconds c l) = zlen l.
Proof. apply zlen_map. Qed.
Lemma shp_preconds_app c a b : shp_preconds c (a ++ b) = shp_preconds c a ++ shp_preconds c b.
Proof. apply map_app. Qed.

Lemma regroup_init c ps : ds_accepts repaired c = Ok tt -> forall pre post,
  regroup repaired c (map (init_ps c) ps) (pre ++ shp_preconds c (all_shp c ps) ++ post) (zlen pre)
  = Ok (map (init_ps c) ps).
Proof.
  intro Hacc. induction ps as [|p r IH]; intros pre post; [reflexivity|].
  cbn [map regroup].
  assert (Hs : ps_stats (init_ps c p) = shp_stats c (eff_pshapes c p)) by reflexivity.
  assert (Hp : ps_preconds (init_ps c p) = shp_preconds c (eff_pshapes c p)) by reflexivity.
  assert (Ht : ps_tm (init_ps c p) = metrics_layout (zlen (eff_pshapes c p)) (ds_metrics c) (fdm c))
    by reflexivity.
  remember (init_ps c p) as st eqn:Est.
  rewrite Hs. rewrite !zlen_shp_stats.
  replace (all_shp c (p :: r)) with (eff_pshapes c p ++ all_shp c r) by reflexivity.
  rewrite shp_preconds_app, <- app_assoc.
  pose proof (zlen_shp_preconds c (eff_pshapes c p)) as L.
  destruct (zlen (eff_pshapes c p) =? 0) eqn:E.
  - assert (N : eff_pshapes c p = []).
    { destruct (eff_pshapes c p) as [|x l0]; [reflexivity|]. rewrite zlen_cons in E.
      pose proof (zlen_nonneg l0). lia. }
    rewrite N in *. cbn [shp_preconds map app].
    rewrite IH. cbn [obind bN9 repaired negb]. rewrite andb_true_r.
    f_equal. f_equal. clear Est IH. destruct st as [d ss pp dm m a t].
    cbn [ps_diag ps_stats ps_preconds ps_dmom ps_mom ps_avg ps_tm] in *. subst ss pp t. reflexivity.
  - rewrite <- L. rewrite slice_app_middle.
    rewrite Z.eqb_refl. cbn [guard obind].
    rewrite (accepted_fdm c Hacc), Ht, L.
    assert (T : (if ds_metrics c
                 then if layout_eqb (tm_layout (zlen (eff_pshapes c p)) (fdm c))
                           (metrics_layout (zlen (eff_pshapes c p)) (ds_metrics c) (fdm c))
                      then Ok (tm_layout (zlen (eff_pshapes c p)) (fdm c)) else Internal [97]
                 else Ok masked) = Ok (ps_tm st)).
    { rewrite Ht. unfold metrics_layout. destruct (ds_metrics c); [|reflexivity].
      rewrite layout_eqb_refl. reflexivity. }
    rewrite T. cbn [obind].
    rewrite <- L. rewrite <- zlen_app.
    rewrite (app_assoc pre). rewrite IH. cbn [obind].
    f_equal. f_equal. clear Est IH T. destruct st as [d ss pp dm m a t].
    cbn [ps_diag ps_stats ps_preconds ps_dmom ps_mom ps_avg ps_tm] in *. subst ss pp t. reflexivity.
Qed.

Lemma is_nil_shp_stats c l : is_nil (shp_stats c l) = is_nil l.
Proof. apply is_nil_map. Qed.

Lemma compute_preconditioners_init c ps :
  ds_accepts repaired c = Ok tt ->
  compute_preconditioners repaired c (map (init_ps c) ps) = Ok (map (init_ps c) ps) \/
  compute_preconditioners repaired c (map (init_ps c) ps) = Reject 6.
Proof.
  intro Hacc. unfold compute_preconditioners.
  rewrite flat_stats, flat_prevs, stat_dims_shp. cbn [obind].
  rewrite is_nil_shp_stats.
  destruct (is_nil (all_shp c ps)) eqn:N.
  - cbn [bN4 repaired]. rewrite andb_false_r. left. reflexivity.
  - set (m := max_z (map dim0 (all_shp c ps))).
    unfold root_gate. cbn [bN1 repaired negb andb].
    destruct (too_small c m) eqn:Hts; [right; reflexivity|].
    unfold root_tags. cbn [bN1 bD7 bN2 bD11 bN6 repaired andb app obind].
    rewrite zlen_shp_preconds, zlen_shp_stats, Z.eqb_refl, orb_true_r.
    cbn [guard obind].
    rewrite select_all_init.
    + cbn [obind]. left.
      pose proof (regroup_init c ps Hacc [] []) as R. rewrite app_nil_r in R. exact R.
    + exact Hts.
    + intros s Hs. split.
      * unfold all_shp in Hs. apply in_flat_map in Hs as [p [_ Hs]].
        apply (pshape_canonical c p). apply eff_in_pshapes. exact Hs.
      * apply max_z_ge. apply in_map. exact Hs.
Qed.

(* ------------------------------------------------------------------------------------------ *)
(* the whole update                                                                             *)
(* ------------------------------------------------------------------------------------------ *)
Lemma map2o_id {A B} (f : A -> B -> outcome B) (g : A -> B) (l : list A) :
  (forall x, In x l -> f x (g x) = Ok (g x)) -> map2o f l (map g l) = Ok (map g l).
Proof.
  induction l as [|x t IH]; intro H; [reflexivity|].
  cbn [map map2o]. rewrite (H x) by now left. cbn [obind].
  rewrite IH by (intros; apply H; now right). reflexivity.
Qed.

Lemma update_pstats_init c ps :
  ds_accepts repaired c = Ok tt -> valid_ptype c -> ds_sharded c = false ->
  update_pstats repaired c ps (map (init_ps c) ps) = Ok (map (init_ps c) ps) \/
  update_pstats repaired c ps (map (init_ps c) ps) = Reject 6.
Proof.
  intros Hacc Hp Hsh. unfold update_pstats.
  rewrite map2o_id by (intros; apply compute_stats_init). cbn [obind].
  destruct (compute_preconditioners_init c ps Hacc) as [E|E]; rewrite E; cbn [obind].
  - left. apply map2o_id. intros. apply transform_grad_init; assumption.
  - right. reflexivity.
Qed.

Lemma mapM_parse_ps sts : mapM parse_ps (map ps_layout sts) = Some sts.
Proof.
  induction sts as [|s t IH]; [reflexivity|].
  cbn [map mapM]. rewrite IH. destruct s; reflexivity.
Qed.

Theorem ds_plain_fixed_point c t :
  ds_accepts repaired c = Ok tt -> valid_ptype c -> ds_sharded c = false ->
  ds_update_plain repaired c t (ds_init_plain c t) = Ok (ds_init_plain c t) \/
  ds_update_plain repaired c t (ds_init_plain c t) = Reject 6.
Proof.
  intros Hacc Hp Hsh. unfold ds_update_plain, ds_init_plain, ds_state, count_leaf.
  rewrite collect_rebuild' by (unfold nleaves; rewrite !map_length; reflexivity).
  rewrite mapM_parse_ps.
  destruct (update_pstats_init c (leaves t) Hacc Hp Hsh) as [E|E]; rewrite E; cbn [obind].
  - left. reflexivity.
  - right. reflexivity.
Qed.
