(* C07/ProofsSharded.v — Distributed Shampoo, sharded (pjit) mode: the initial state is a fixed
   point of the repaired update, and init / declared shapes+dtypes / partition specs describe one
   and the same tree. *)
From Coq Require Import ZArith List Bool Lia ZifyBool.
From Precond Require Import Base.PyLib C06.Records C06.Ref C06.BlockProofs.
From Precond Require Import C07.Layout C07.Model C07.Infra C07.Proofs.
Import ListNotations.
Open Scope Z_scope.

Definition sizes_positive (c : dscfg) (ps : list (list Z)) : Prop :=
  Forall (fun s => 1 <= s) (flat_map (sh_sizes c) ps).

(* what _convert_to_parameter_stats makes of an initial local state *)
Definition sps (c : dscfg) (p : list Z) : pstats :=
  mkPS (qv_flt (ds_pdt c) p)
       (map (fun s => Leaf [s; s] F32) (sh_sizes c p))
       (map (fun s => Leaf [s; pd_of c s] F32) (sh_sizes c p))
       (qv_mom c p) (qv_mom c p) (avg_layout c p)
       (metrics_layout (zlen (sh_sizes c p)) (ds_metrics c) (fdm c)).

Lemma pd_of_mono c s m : s <= m -> Z.min (pd_of c s) (pd_of c m) = pd_of c s.
Proof.
  unfold pd_of, precond_dim, truthy_z. destruct (ds_cr c =? 0); cbn [negb]; intro H; [lia|].
  cbv zeta.
  destruct (Z.abs (ds_cr c) + 2 >=? s) eqn:E1; destruct (Z.abs (ds_cr c) + 2 >=? m) eqn:E2; lia.
Qed.

Lemma to_pstats_init c m ps : forall start,
  Forall (fun s => s <= m) (flat_map (sh_sizes c) ps) ->
  map (to_pstats c m (pd_of c m) F32 F32) (init_locals c ps start) = map (sps c) ps.
Proof.
  induction ps as [|p r IH]; intros start H; [reflexivity|].
  cbn [flat_map] in H. apply Forall_app in H as [H1 H2].
  cbn [init_locals map]. rewrite IH by exact H2. f_equal.
  unfold to_pstats, sps.
  cbn [ls_diag ls_dmom ls_mom ls_avg ls_tm ls_sizes]. f_equal.
  - apply map_ext_in. intros s Hs. rewrite Forall_forall in H1. specialize (H1 s Hs).
    rewrite Z.min_l by exact H1. reflexivity.
  - apply map_ext_in. intros s Hs. rewrite Forall_forall in H1. specialize (H1 s Hs).
    rewrite Z.min_l by exact H1. rewrite pd_of_mono by exact H1. reflexivity.
Qed.

Lemma sh_sizes_skip c p : skipped c p = true -> sh_sizes c p = [].
Proof. unfold sh_sizes, eff_pshapes. intros ->. reflexivity. Qed.

Lemma sh_sizes_noskip c p : skipped c p = false -> sh_sizes c p = produced_dims c p.
Proof.
  unfold sh_sizes, eff_pshapes. intros ->. apply announced_eq_produced.
Qed.

Lemma compute_stats_sps c p :
  compute_stats repaired c false p (sps c p) = Ok (sps c p).
Proof.
  unfold compute_stats, sps, avg_layout. cbn [bD8 repaired ps_avg ps_stats].
  destruct (skipped c p) eqn:Hs.
  - rewrite (sh_sizes_skip c p Hs). cbn [map zlen length obind]. reflexivity.
  - rewrite (sh_sizes_noskip c p Hs).
    assert (E : map (fun d => mat false d d) (produced_dims c p) =
                map (fun s => Leaf [s; s] F32) (produced_dims c p)) by reflexivity.
    destruct (ds_fd c && ds_avg c) eqn:Hfa.
    + rewrite layout_eqb_refl. cbn [obind]. rewrite E.
      rewrite Z.ltb_irrefl, layouts_eqb_refl, andb_false_r. reflexivity.
    + cbn [obind]. rewrite E.
      rewrite Z.ltb_irrefl, layouts_eqb_refl, andb_false_r. reflexivity.
Qed.

Lemma transform_grad_sps c p :
  valid_ptype c -> ds_sharded c = true -> transform_grad c p (sps c p) = Ok (sps c p).
Proof.
  intros Hp Hsh. unfold transform_grad, sps. cbn [ps_diag ps_preconds ps_stats ps_avg ps_tm].
  rewrite Hsh, orb_true_r. cbn [qv_flt qv]. rewrite list_eqb_z_refl. cbn [obind].
  assert (G : (if skipped c p then Ok tt
               else guard (slots_ok c p (zlen (map (fun s => Leaf [s; pd_of c s] F32)
                                                     (sh_sizes c p)))) 99) = Ok tt).
  { destruct (skipped c p) eqn:Hs; [reflexivity|].
    rewrite zlen_map. unfold sh_sizes, eff_pshapes. rewrite Hs, zlen_map.
    rewrite slots_ok_init by exact Hp. reflexivity. }
  rewrite G. reflexivity.
Qed.

Lemma init_locals_length c ps : forall start, length (init_locals c ps start) = length ps.
Proof. induction ps as [|p r IH]; intro start; cbn; [reflexivity|]. rewrite IH. reflexivity. Qed.

Lemma mapM_parse_ls lss : mapM parse_ls (map ls_layout lss) = Some lss.
Proof.
  induction lss as [|s t IH]; [reflexivity|].
  cbn [map mapM]. rewrite IH. destruct s; reflexivity.
Qed.

Lemma init_locals_ranges c ps : forall start n,
  0 <= start -> start + sh_total c ps <= n ->
  forallb (fun s => ls_start s + zlen (ls_sizes s) <=? Z.min n n) (init_locals c ps start) = true.
Proof.
  induction ps as [|p r IH]; intros start n H0 H; [reflexivity|].
  unfold sh_total in H. cbn [flat_map] in H. rewrite zlen_app in H.
  cbn [init_locals forallb ls_start ls_sizes].
  pose proof (zlen_nonneg (sh_sizes c p)). pose proof (zlen_nonneg (flat_map (sh_sizes c) r)).
  apply andb_true_iff. split; [lia|].
  apply IH; [lia|]. unfold sh_total. lia.
Qed.

Lemma flat_stats_sps c ps :
  flat_map ps_stats (map (sps c) ps) = map (fun s => Leaf [s; s] F32) (flat_map (sh_sizes c) ps).
Proof.
  induction ps as [|p r IH]; [reflexivity|].
  cbn [map flat_map]. rewrite IH, map_app. reflexivity.
Qed.

Lemma stat_dims_leaves l : stat_dims (map (fun s => Leaf [s; s] F32) l) = Ok l.
Proof. induction l as [|x t IH]; [reflexivity|]. cbn [map stat_dims stat_shape]. rewrite IH. reflexivity. Qed.

Lemma sh_metrics_init c ps : ds_accepts repaired c = Ok tt -> forall start,
  sh_metrics c (init_locals c ps start) (map (sps c) ps) = Ok (init_locals c ps start).
Proof.
  intro Hacc. induction ps as [|p r IH]; intro start; [reflexivity|].
  cbn [init_locals map sh_metrics ls_sizes ls_tm ls_start].
  rewrite (accepted_fdm c Hacc).
  assert (T : (if ds_metrics c
               then if layout_eqb (tm_layout (zlen (sh_sizes c p)) (fdm c))
                         (metrics_layout (zlen (sh_sizes c p)) (ds_metrics c) (fdm c))
                    then Ok (tm_layout (zlen (sh_sizes c p)) (fdm c)) else Internal [97]
               else Ok (ps_tm (sps c p))) =
              Ok (metrics_layout (zlen (sh_sizes c p)) (ds_metrics c) (fdm c))).
  { unfold metrics_layout, sps. cbn [ps_tm]. unfold metrics_layout.
    destruct (ds_metrics c); [|reflexivity]. rewrite layout_eqb_refl. reflexivity. }
  rewrite T. cbn [obind]. rewrite IH. cbn [obind]. reflexivity.
Qed.

Lemma total_zero_iff c ps :
  sizes_positive c ps -> (sh_max c ps =? 0) = (sh_total c ps =? 0).
Proof.
  unfold sizes_positive, sh_max, sh_total. intro H.
  destruct (flat_map (sh_sizes c) ps) as [|x l] eqn:E; [reflexivity|].
  inversion H as [|? ? Hx Hl]; subst.
  pose proof (max_z_ge (x :: l) x (or_introl eq_refl)).
  rewrite zlen_cons. pose proof (zlen_nonneg l). lia.
Qed.

Theorem ds_sharded_fixed_point c t l :
  ds_accepts repaired c = Ok tt -> valid_ptype c -> ds_sharded c = true -> 0 < ds_ndev c ->
  sizes_positive c (leaves t) ->
  ds_init_sharded repaired c t = Ok l -> ds_update_sharded repaired c t l = Ok l.
Proof.
  intros Hacc Hp Hsh Hnd Hpos Hinit.
  unfold ds_init_sharded, sh_init_gate in Hinit. cbn [bN1 bN7 repaired negb andb app] in Hinit.
  set (ps := leaves t) in *.
  destruct (sh_too_small c ps) eqn:Hts'; [discriminate|].
  assert (Hts : too_small c (snd (sh_dims c ps)) = false)
    by (unfold sh_too_small in Hts'; apply orb_false_elim in Hts'; apply Hts').
  cbn [obind] in Hinit.
  destruct (sh_dims c ps) as [n m] eqn:Hd. cbn [snd] in Hts.
  inversion Hinit as [Hl]. clear Hinit.
  unfold sh_state, global_layout, count_leaf.
  unfold ds_update_sharded.
  rewrite collect_rebuild' by (unfold nleaves; rewrite map_length, init_locals_length; reflexivity).
  rewrite mapM_parse_ls. fold ps.
  (* facts about n and m *)
  pose proof (total_zero_iff c ps Hpos) as Hz.
  assert (Hn : sh_total c ps <= n /\
               n = (if sh_total c ps =? 0 then ds_ndev c
                    else sh_total c ps + (- sh_total c ps) mod ds_ndev c)).
  { unfold sh_dims in Hd. rewrite Hz in Hd.
    pose proof (Z.mod_pos_bound (- sh_total c ps) (ds_ndev c) Hnd).
    destruct (sh_total c ps =? 0) eqn:E; inversion Hd; subst; split; lia. }
  assert (Hm : Forall (fun s => s <= m) (flat_map (sh_sizes c) ps)).
  { apply Forall_forall. intros s Hs.
    unfold sh_dims in Hd. destruct (sh_max c ps =? 0) eqn:E.
    - exfalso. unfold sizes_positive in Hpos. rewrite Forall_forall in Hpos.
      specialize (Hpos s Hs). pose proof (max_z_ge _ s Hs). unfold sh_max in E. lia.
    - inversion Hd; subst. apply max_z_ge. exact Hs. }
  rewrite init_locals_ranges by (unfold sh_total in *; lia). cbn [guard obind].
  rewrite to_pstats_init by exact Hm.
  rewrite map2o_id by (intros; apply compute_stats_sps). cbn [obind].
  rewrite map2o_id by (intros; apply transform_grad_sps; assumption). cbn [obind].
  rewrite flat_stats_sps, stat_dims_leaves. cbn [obind].
  assert (G : forallb (fun d => d <=? m) (flat_map (sh_sizes c) ps) = true).
  { apply forallb_forall. intros s Hs. rewrite Forall_forall in Hm. specialize (Hm s Hs). lia. }
  rewrite G. cbn [guard obind]. rewrite zlen_map. fold (sh_total c ps).
  cbn [bN1 repaired negb andb]. rewrite Hts. cbn [obind].
  unfold sh_root_tags, root_tags. cbn [bN3 bN8 bN1 bD7 bN2 bD11 bN6 repaired andb app obind].
  destruct Hn as [_ Hn]. rewrite <- Hn.
  rewrite layout_eqb_refl. cbn [guard obind].
  rewrite sh_metrics_init by exact Hacc. cbn [obind]. reflexivity.
Qed.

(* ------------------------------------------------------------------------------------------ *)
(* three views                                                                                  *)
(* ------------------------------------------------------------------------------------------ *)
Lemma declared_locals_repaired c ps : forall start,
  declared_locals repaired c ps start = init_locals c ps start.
Proof.
  induction ps as [|p r IH]; intro start; [reflexivity|].
  cbn [declared_locals init_locals]. rewrite IH. reflexivity.
Qed.

Theorem declared_is_init c t l :
  ds_init_sharded repaired c t = Ok l -> ds_declared repaired c t = Ok l.
Proof.
  unfold ds_init_sharded, ds_declared. cbn [bN5 bD10 repaired andb].
  destruct (sh_init_gate repaired c (leaves t)); cbn [obind]; try discriminate.
  destruct (sh_dims c (leaves t)) as [n m]. rewrite declared_locals_repaired.
  intro H. exact H.
Qed.

Lemma pspec_matches_node k st ch ch' :
  pspec_matches (Node k st ch) (Node k st ch') =
  (fix go (x y : list layout) : bool :=
     match x, y with
     | [], [] => true
     | u :: x', v :: y' => pspec_matches u v && go x' y'
     | _, _ => false
     end) ch ch'.
Proof. cbn [pspec_matches]. rewrite nkind_eqb_refl, svals_eqb_refl. reflexivity. Qed.

Fixpoint pm_list (x y : list layout) : bool :=
  match x, y with
  | [], [] => true
  | u :: x', v :: y' => pspec_matches u v && pm_list x' y'
  | _, _ => false
  end.

Lemma pspec_matches_node' k st ch ch' :
  pspec_matches (Node k st ch) (Node k st ch') = pm_list ch ch'.
Proof. rewrite pspec_matches_node. reflexivity. Qed.

(* rebuilding one tree with two lists of pairwise matching entries gives matching trees *)
Lemma pm_rebuild t : forall a b ra rb,
  length a = nleaves t -> length b = nleaves t -> pm_list a b = true ->
  pspec_matches (fst (rebuild t (a ++ ra))) (fst (rebuild t (b ++ rb))) = true /\
  snd (rebuild t (a ++ ra)) = ra /\ snd (rebuild t (b ++ rb)) = rb.
Proof.
  induction t as [s d|n|k st ch IH] using layout_ind'; intros a b ra rb La Lb H.
  - unfold nleaves in *. cbn in La, Lb. destruct a as [|x [|? ?]]; try discriminate.
    destruct b as [|y [|? ?]]; try discriminate. cbn in *. rewrite andb_true_r in H. auto.
  - unfold nleaves in *. cbn in La, Lb. destruct a; try discriminate. destruct b; try discriminate.
    cbn. rewrite Z.eqb_refl. auto.
  - rewrite !rebuild_node.
    assert (G : forall a b ra rb, length a = length (flat_map leaves ch) ->
              length b = length (flat_map leaves ch) -> pm_list a b = true ->
              pm_list (fst (rebuild_list ch (a ++ ra))) (fst (rebuild_list ch (b ++ rb))) = true /\
              snd (rebuild_list ch (a ++ ra)) = ra /\ snd (rebuild_list ch (b ++ rb)) = rb).
    { clear a b ra rb La Lb H. induction IH as [|u r Hu Hr IHr]; intros a b ra rb La Lb H.
      - cbn in La, Lb. destruct a; try discriminate. destruct b; try discriminate. cbn. auto.
      - cbn [flat_map] in La, Lb. rewrite app_length in La, Lb.
        set (n1 := length (leaves u)) in *.
        assert (Ea : a = firstn n1 a ++ skipn n1 a) by (symmetry; apply firstn_skipn).
        assert (Eb : b = firstn n1 b ++ skipn n1 b) by (symmetry; apply firstn_skipn).
        assert (Hsplit : pm_list (firstn n1 a) (firstn n1 b) = true /\
                         pm_list (skipn n1 a) (skipn n1 b) = true).
        { assert (Ka : (n1 <= length a)%nat) by lia. assert (Kb : (n1 <= length b)%nat) by lia.
          clear -H Ka Kb. revert a b H Ka Kb. induction n1 as [|k IHk]; intros a b H Ka Kb.
          - cbn. auto.
          - destruct a as [|x a']; destruct b as [|y b']; cbn in *; try lia; try discriminate.
            apply andb_true_iff in H as [H1 H2].
            assert (Ka' : (k <= length a')%nat) by lia. assert (Kb' : (k <= length b')%nat) by lia.
            destruct (IHk a' b' H2 Ka' Kb') as [G1 G2]. rewrite H1, G1, G2. auto. }
        destruct Hsplit as [S1 S2].
        rewrite Ea, Eb. rewrite <- !app_assoc.
        destruct (Hu (firstn n1 a) (firstn n1 b) (skipn n1 a ++ ra) (skipn n1 b ++ rb))
          as [U1 [U2 U3]]; try (unfold nleaves; rewrite firstn_length; lia); [exact S1|].
        cbn [rebuild_list].
        destruct (rebuild u (firstn n1 a ++ skipn n1 a ++ ra)) as [ua rra] eqn:Ra.
        destruct (rebuild u (firstn n1 b ++ skipn n1 b ++ rb)) as [ub rrb] eqn:Rb.
        cbn [fst snd] in U1, U2, U3. subst rra rrb.
        destruct (IHr (skipn n1 a) (skipn n1 b) ra rb) as [V1 [V2 V3]];
          try (rewrite skipn_length; lia); [exact S2|].
        destruct (rebuild_list r (skipn n1 a ++ ra)) as [ca rca].
        destruct (rebuild_list r (skipn n1 b ++ rb)) as [cb rcb].
        cbn [fst snd] in *. cbn [pm_list]. rewrite U1, V1. auto. }
    unfold nleaves in La, Lb. cbn [leaves] in La, Lb.
    destruct (G a b ra rb La Lb H) as [G1 [G2 G3]].
    destruct (rebuild_list ch (a ++ ra)) as [ca rca].
    destruct (rebuild_list ch (b ++ rb)) as [cb rcb].
    cbn [fst snd] in *. rewrite pspec_matches_node'. auto.
Qed.

Lemma pm_metrics n gen f :
  pspec_matches (metrics_layout n gen f) (pspec_of (metrics_layout 0 gen f)) = true.
Proof. destruct gen, f; reflexivity. Qed.

Lemma pm_mom c p : pspec_matches (qv_mom c p) (ps_mom_pspec c p) = true.
Proof.
  unfold qv_mom, ps_mom_pspec. pose proof (zlen_nonneg p).
  destruct (ds_memred c && (1 <? zlen p)) eqn:E.
  - apply andb_true_iff in E as [_ E]. unfold qv_i8, qv. cbn [pspec_matches].
    rewrite nkind_eqb_refl, svals_eqb_refl. cbn [andb].
    assert (zlen (tl p) = zlen p - 1) by (destruct p; [cbn in *; lia|cbn [tl]; rewrite zlen_cons; lia]).
    repeat (apply andb_true_iff; split); try reflexivity; lia.
  - unfold qv_flt, qv. cbn [pspec_matches].
    rewrite nkind_eqb_refl, svals_eqb_refl. cbn [andb].
    repeat (apply andb_true_iff; split); try reflexivity; lia.
Qed.

Lemma pm_locals c ps : forall start,
  pm_list (map ls_layout (init_locals c ps start)) (pspec_locals c ps start) = true.
Proof.
  induction ps as [|p r IH]; intro start; [reflexivity|].
  cbn [init_locals pspec_locals map pm_list]. rewrite IH, andb_true_r.
  unfold ls_layout. cbn [ls_diag ls_dmom ls_mom ls_avg ls_tm ls_start ls_sizes].
  rewrite pspec_matches_node'. cbn [pm_list].
  rewrite !pm_mom, pm_metrics. pose proof (zlen_nonneg p).
  assert (A : pspec_matches (qv_flt (ds_pdt c) p) (qv (PSpec (zlen p)) empty_list empty_list F32 false p) = true).
  { unfold qv_flt, qv. cbn [pspec_matches]. rewrite nkind_eqb_refl, svals_eqb_refl. cbn [andb].
    repeat (apply andb_true_iff; split); try reflexivity; lia. }
  assert (B : pspec_matches (avg_layout c p) (if ds_fd c && ds_avg c then PSpec (zlen p) else masked) = true).
  { unfold avg_layout. destruct (ds_fd c && ds_avg c); [cbn; lia|reflexivity]. }
  rewrite A, B. reflexivity.
Qed.

Lemma pspec_locals_length c ps : forall start, length (pspec_locals c ps start) = length ps.
Proof. induction ps as [|p r IH]; intro start; cbn; [reflexivity|]. rewrite IH. reflexivity. Qed.

Theorem pspec_matches_init c t l :
  ds_init_sharded repaired c t = Ok l ->
  exists pl, ds_pspec repaired c t = Ok pl /\ pspec_matches l pl = true.
Proof.
  unfold ds_init_sharded, ds_pspec. cbn [bN5 repaired andb].
  destruct (sh_init_gate repaired c (leaves t)); cbn [obind]; try discriminate.
  destruct (sh_dims c (leaves t)) as [n m]. intro H. inversion H as [Hl]. clear H.
  eexists. split; [reflexivity|].
  unfold sh_state, global_layout, count_leaf.
  destruct (pm_rebuild t (map ls_layout (init_locals c (leaves t) 0)) (pspec_locals c (leaves t) 0) [] [])
    as [M _].
  - unfold nleaves. rewrite map_length, init_locals_length. reflexivity.
  - unfold nleaves. rewrite pspec_locals_length. reflexivity.
  - apply pm_locals.
  - rewrite !app_nil_r in M.
    cbn [pspec_matches]. rewrite !nkind_eqb_refl. cbn [svals_eqb andb].
    rewrite M. reflexivity.
Qed.

Theorem three_views_agree c t l :
  ds_init_sharded repaired c t = Ok l ->
  ds_declared repaired c t = Ok l /\
  exists pl, ds_pspec repaired c t = Ok pl /\ pspec_matches l pl = true.
Proof. intro H. split; [apply declared_is_init; exact H|apply pspec_matches_init; exact H]. Qed.
