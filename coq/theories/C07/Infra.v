(* C07/Infra.v — generic lemmas about layouts: decidable equality is reflexive, rebuild/collect
   are inverse (jax.tree.unflatten / flatten_up_to), slices of concatenations. *)
From Coq Require Import ZArith List Bool Lia ZifyBool.
From Precond Require Import Base.PyLib C07.Layout.
Import ListNotations.
Open Scope Z_scope.

(* induction principle for the nested inductive [layout] *)
Section LayoutInd.
  Variable P : layout -> Prop.
  Hypothesis Hleaf : forall s d, P (Leaf s d).
  Hypothesis Hpspec : forall n, P (PSpec n).
  Hypothesis Hnode : forall k st ch, Forall P ch -> P (Node k st ch).
  Fixpoint layout_ind' (l : layout) : P l :=
    match l with
    | Leaf s d => Hleaf s d
    | PSpec n => Hpspec n
    | Node k st ch =>
        Hnode k st ch
          ((fix go (c : list layout) : Forall P c :=
              match c with
              | [] => Forall_nil P
              | x :: r => Forall_cons x (layout_ind' x) (go r)
              end) ch)
    end.
End LayoutInd.

Lemma list_eqb_z_refl l : list_eqb_z l l = true.
Proof. apply list_eqb_z_spec. reflexivity. Qed.

Lemma dtype_eqb_refl d : dtype_eqb d d = true.
Proof. unfold dtype_eqb. apply Z.eqb_refl. Qed.

Lemma nkind_eqb_refl k : nkind_eqb k k = true.
Proof. unfold nkind_eqb. apply Z.eqb_refl. Qed.

Lemma sval_eqb_refl s : sval_eqb s s = true.
Proof.
  destruct s; cbn; auto using Z.eqb_refl, eqb_reflx, dtype_eqb_refl, list_eqb_z_refl.
Qed.

Lemma svals_eqb_refl l : svals_eqb l l = true.
Proof. induction l as [|x t IH]; cbn; [reflexivity|]. rewrite sval_eqb_refl, IH. reflexivity. Qed.

Lemma layout_eqb_refl l : layout_eqb l l = true.
Proof.
  induction l as [s d|n|k st ch IH] using layout_ind'.
  - cbn. rewrite list_eqb_z_refl, dtype_eqb_refl. reflexivity.
  - cbn. apply Z.eqb_refl.
  - cbn [layout_eqb]. rewrite nkind_eqb_refl, svals_eqb_refl. cbn [andb].
    induction IH as [|x r Hx Hr IHr]; [reflexivity|].
    rewrite Hx. cbn [andb]. exact IHr.
Qed.

Lemma layouts_eqb_refl l : layouts_eqb l l = true.
Proof. induction l as [|x t IH]; cbn; [reflexivity|]. rewrite layout_eqb_refl, IH. reflexivity. Qed.

(* decidable equality really is equality *)
Lemma dtype_eqb_eq a b : dtype_eqb a b = true -> a = b.
Proof. destruct a, b; cbn; intro H; try reflexivity; discriminate. Qed.

Lemma nkind_eqb_eq a b : nkind_eqb a b = true -> a = b.
Proof. destruct a, b; cbn; intro H; try reflexivity; discriminate. Qed.

Lemma sval_eqb_eq a b : sval_eqb a b = true -> a = b.
Proof.
  destruct a, b; cbn; intro H; try discriminate; try reflexivity.
  - apply Z.eqb_eq in H. congruence.
  - apply eqb_prop in H. congruence.
  - apply dtype_eqb_eq in H. congruence.
  - apply list_eqb_z_spec in H. congruence.
Qed.

Lemma svals_eqb_eq a : forall b, svals_eqb a b = true -> a = b.
Proof.
  induction a as [|x t IH]; intros [|y u]; cbn; intro H; try discriminate; [reflexivity|].
  apply andb_true_iff in H as [H1 H2]. apply sval_eqb_eq in H1. apply IH in H2. congruence.
Qed.

Lemma layout_eqb_eq a : forall b, layout_eqb a b = true -> a = b.
Proof.
  induction a as [s d|n|k st ch IH] using layout_ind'; intros [s' d'|n'|k' st' ch']; cbn [layout_eqb];
    intro H; try discriminate.
  - apply andb_true_iff in H as [H1 H2]. apply list_eqb_z_spec in H1. apply dtype_eqb_eq in H2.
    congruence.
  - apply Z.eqb_eq in H. congruence.
  - apply andb_true_iff in H as [H H3]. apply andb_true_iff in H as [H1 H2].
    apply nkind_eqb_eq in H1. apply svals_eqb_eq in H2. subst. f_equal.
    revert ch' H3. induction IH as [|x r Hx Hr IHr]; intros [|y u] H3; try discriminate; [reflexivity|].
    apply andb_true_iff in H3 as [Ha Hb]. apply Hx in Ha. apply IHr in Hb. congruence.
Qed.

(* ---------------------------------------------------------------------------------------- *)
(* rebuild / collect                                                                          *)
(* ---------------------------------------------------------------------------------------- *)
Fixpoint rebuild_list (c : list layout) (ls : list layout) : list layout * list layout :=
  match c with
  | [] => ([], ls)
  | u :: c' => let '(u', r1) := rebuild u ls in
               let '(c'', r2) := rebuild_list c' r1 in (u' :: c'', r2)
  end.

Lemma rebuild_node k st ch ls :
  rebuild (Node k st ch) ls = let '(ch', r) := rebuild_list ch ls in (Node k st ch', r).
Proof.
  cbn [rebuild].
  assert (E : forall c l,
    (fix go (c : list layout) (ls : list layout) {struct c} : list layout * list layout :=
       match c with
       | [] => ([], ls)
       | u :: c' => let '(u', r1) := rebuild u ls in
                    let '(c'', r2) := go c' r1 in (u' :: c'', r2)
       end) c l = rebuild_list c l).
  { induction c as [|u c' IH]; intro l; cbn; [reflexivity|].
    destruct (rebuild u l) as [u' r1]. rewrite IH. reflexivity. }
  rewrite E. reflexivity.
Qed.

Fixpoint collect_list (c c' : list layout) : option (list layout) :=
  match c, c' with
  | [], [] => Some []
  | u :: r, u' :: r' =>
      match collect u u', collect_list r r' with
      | Some a, Some b => Some (a ++ b)
      | _, _ => None
      end
  | _, _ => None
  end.

Lemma collect_node k st ch l :
  collect (Node k st ch) l =
  match l with
  | Node k' st' ch' => if nkind_eqb k k' && svals_eqb st st' then collect_list ch ch' else None
  | _ => None
  end.
Proof.
  cbn [collect]. destruct l as [s d|n|k' st' ch']; reflexivity.
Qed.

Definition nleaves (t : layout) : nat := length (leaves t).

(* unflatten then flatten_up_to gives the leaves back (and leaves the rest untouched) *)
Lemma collect_rebuild t : forall ls rest,
  length ls = nleaves t ->
  rebuild t (ls ++ rest) = (fst (rebuild t (ls ++ rest)), rest) /\
  collect t (fst (rebuild t (ls ++ rest))) = Some ls.
Proof.
  induction t as [s d|n|k st ch IH] using layout_ind'; intros ls rest Hlen.
  - unfold nleaves in Hlen. cbn in Hlen. destruct ls as [|x [|y r]]; try discriminate.
    cbn. split; reflexivity.
  - unfold nleaves in Hlen. cbn in Hlen. destruct ls; try discriminate. cbn. split; reflexivity.
  - rewrite rebuild_node.
    assert (G : forall ls rest, length ls = length (flat_map leaves ch) ->
              rebuild_list ch (ls ++ rest) = (fst (rebuild_list ch (ls ++ rest)), rest) /\
              collect_list ch (fst (rebuild_list ch (ls ++ rest))) = Some ls).
    { clear ls rest Hlen. induction IH as [|u r Hu Hr IHr]; intros ls rest Hlen.
      - cbn in Hlen. destruct ls; try discriminate. cbn. split; reflexivity.
      - cbn [flat_map] in Hlen. rewrite app_length in Hlen.
        set (n1 := length (leaves u)) in *.
        assert (E : ls = firstn n1 ls ++ skipn n1 ls) by (symmetry; apply firstn_skipn).
        assert (L1 : length (firstn n1 ls) = n1) by (rewrite firstn_length; lia).
        assert (L2 : length (skipn n1 ls) = length (flat_map leaves r)) by (rewrite skipn_length; lia).
        rewrite E at 1 2 3. rewrite <- app_assoc.
        destruct (Hu (firstn n1 ls) (skipn n1 ls ++ rest) L1) as [Hu1 Hu2].
        cbn [rebuild_list]. rewrite Hu1.
        destruct (IHr (skipn n1 ls) rest L2) as [Hr1 Hr2].
        rewrite Hr1. cbn [fst]. split; [reflexivity|].
        cbn [collect_list]. rewrite Hu2, Hr2. rewrite <- E. reflexivity. }
    unfold nleaves in Hlen. cbn [leaves] in Hlen.
    destruct (G ls rest Hlen) as [G1 G2]. rewrite G1. cbn [fst]. split; [reflexivity|].
    rewrite collect_node, nkind_eqb_refl, svals_eqb_refl. cbn [andb]. exact G2.
Qed.

Lemma collect_rebuild' t ls :
  length ls = nleaves t -> collect t (fst (rebuild t ls)) = Some ls.
Proof.
  intro H. pose proof (collect_rebuild t ls [] H) as [_ G]. rewrite app_nil_r in G. exact G.
Qed.

(* ---------------------------------------------------------------------------------------- *)
(* slices of concatenations (the idx bookkeeping of _compute_preconditioners)                 *)
(* ---------------------------------------------------------------------------------------- *)
Lemma slice_app_middle {A} (a b c : list A) :
  slice (a ++ b ++ c) (zlen a) (zlen a + zlen b) = b.
Proof.
  unfold slice, clamp_slice.
  pose proof (zlen_nonneg a). pose proof (zlen_nonneg b). pose proof (zlen_nonneg c).
  rewrite !zlen_app.
  replace (zlen a <? 0) with false by lia. replace (zlen a + zlen b <? 0) with false by lia.
  replace (Z.max 0 (Z.min (zlen a + (zlen b + zlen c)) (zlen a))) with (zlen a) by lia.
  replace (Z.max 0 (Z.min (zlen a + (zlen b + zlen c)) (zlen a + zlen b))) with (zlen a + zlen b) by lia.
  replace (zlen a + zlen b - zlen a) with (zlen b) by lia.
  unfold zlen. rewrite !Nat2Z.id.
  rewrite skipn_app, skipn_all, Nat.sub_diag. cbn [skipn app].
  rewrite firstn_app, firstn_all, Nat.sub_diag. cbn [firstn]. apply app_nil_r.
Qed.

Lemma max_z_acc l : forall a, a <= fold_left Z.max l a /\ Forall (fun x => x <= fold_left Z.max l a) l.
Proof.
  induction l as [|x t IH]; intro a; cbn [fold_left]; [split; [lia|constructor]|].
  destruct (IH (Z.max a x)) as [H1 H2]. split; [lia|].
  constructor; [lia|exact H2].
Qed.

Lemma max_z_ge l x : In x l -> x <= max_z l.
Proof.
  intro H. unfold max_z. pose proof (max_z_acc l 0) as [_ F].
  rewrite Forall_forall in F. apply F. exact H.
Qed.

Lemma max_z_nonneg l : 0 <= max_z l.
Proof. unfold max_z. apply (max_z_acc l 0). Qed.

Lemma zlen_map {A B} (f : A -> B) l : zlen (map f l) = zlen l.
Proof. unfold zlen. rewrite map_length. reflexivity. Qed.

Lemma zlen_repeat_z {A} (x : A) n : 0 <= n -> zlen (repeat_z x n) = n.
Proof. intro H. unfold zlen, repeat_z. rewrite repeat_length. lia. Qed.
