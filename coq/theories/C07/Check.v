(* C07/Check.v — comparators used by the correspondence check (harness/c07.py): the model's
   prediction for one (configuration, parameter tree) against what the implementation did.
   Definitions only. *)
From Coq Require Import QArith.
From Precond Require Import Base.PyLib C06.Records C06.Ref C07.Layout C07.Model C07.ModelTF.
Open Scope Z_scope.

(* 0 Ok | 1 Reject [site] | 2 Internal tags *)
Definition code {A} (o : outcome A) : Z * list Z :=
  match o with Ok _ => (0, []) | Reject s => (1, [s]) | Internal t => (2, t) end.

Definition agrees (o : outcome layout) (obs : layout) : bool :=
  match o with Ok l => layout_eqb l obs | _ => false end.

(* prediction for: init, then the observed chain of states s0 -> s1 -> ... (each step checked from
   the OBSERVED predecessor), then -- when the implementation failed in the following update --
   the predicted outcome of that update.
   Result: (init code, init layout agrees, per observed step (code, agrees), failing step code) *)
Fixpoint steps (upd : layout -> outcome layout) (prev : layout) (obs : list layout)
  : list ((Z * list Z) * bool) :=
  match obs with
  | [] => []
  | s :: r => let o := upd prev in (code o, agrees o s) :: steps upd s r
  end.

Definition verdict (init : outcome layout) (upd : layout -> outcome layout)
           (obs_init : option layout) (obs : list layout) (failed_next : bool)
  : ((Z * list Z) * bool) * list ((Z * list Z) * bool) * (Z * list Z) :=
  match obs_init with
  | None => ((code init, false), [], (0, []))
  | Some s0 =>
      ((code init, agrees init s0), steps upd s0 obs,
       if failed_next then code (upd (last obs s0)) else (0, []))
  end.

Definition ds_verdict (b : bugs) (c : dscfg) (t : layout) :=
  verdict (ds_init b c t) (ds_update b c t).
Definition sm3_verdict (b : bugs) (d : dtype) (t : layout) := verdict (sm3_init d t) (sm3_update b d t).
Definition tf_verdict (b : bugs) (c : tfcfg) (t : layout) :=
  verdict (tf_init b c t) (tf_update b c t).

(* sharded views: (declared code, declared == observed declaration, declared == observed state),
   (pspec code, pspec == observed pspec tree, observed state matches the pspec tree) *)
Definition views_verdict (b : bugs) (c : dscfg) (t : layout) (obs_state : layout)
           (obs_decl obs_pspec : option layout) :=
  let d := ds_declared b c t in
  let p := ds_pspec b c t in
  ((code d, match obs_decl with Some o => agrees d o | None => false end, agrees d obs_state),
   (code p, match obs_pspec with Some o => agrees p o | None => false end,
    match p with Ok pl => pspec_matches obs_state pl | _ => false end)).

(* updates handed back have the parameters' tree, shapes and dtype *)
Definition updates_ok (t obs : layout) : bool := layout_eqb (updates_layout t) obs.
