(* C16/Model.v — OCO algorithms, definitions only.
   OGD and diagonal AdaGrad act coordinatewise, so they are modelled per coordinate over Q with the
   reciprocal square root as an oracle [rs] (spec: C16.Proofs.rs_spec).  The sketched methods reuse
   the frequent-directions step of C09.Model; here are their per-algorithm factors, the alpha
   recurrence and the update formula (dense, on list vectors). *)
From Precond Require Import Base.QMat C09.Model.
Open Scope Q_scope.

Section Coordinatewise.
  Variable rs : Q -> Q.

  (* OGD: t += 1; w -= lr * g * rsqrt(t + delta) *)
  Definition ogd_step (lr delta : Q) (st : Q * Q) (g : Q) : Q * Q :=
    let '(w, t) := st in let t' := t + 1 in (w - lr * g * rs (t' + delta), t').
  Definition ogd_run (lr delta : Q) (gs : list Q) : Q * Q := fold_left (ogd_step lr delta) gs (0, 0).

  Fixpoint ogd_sum (delta t0 : Q) (gs : list Q) : Q :=
    match gs with [] => 0 | g :: r => g * rs (t0 + 1 + delta) + ogd_sum delta (t0 + 1) r end.

  (* diagonal AdaGrad: h += g^2; w -= rsqrt(h or 1 if h = 0) * g * lr *)
  Definition guard0 (h : Q) : Q := if Qeq_bool h 0 then 1 else h.
  Definition ada_step (lr : Q) (st : Q * Q) (g : Q) : Q * Q :=
    let '(w, h) := st in let h' := h + g * g in (w - rs (guard0 h') * g * lr, h').
  Definition ada_run (lr delta : Q) (gs : list Q) : Q * Q := fold_left (ada_step lr) gs (0, delta).

  Fixpoint ada_sum (h0 : Q) (gs : list Q) : Q :=
    match gs with [] => 0 | g :: r => rs (guard0 (h0 + g * g)) * g + ada_sum (h0 + g * g) r end.
  Fixpoint sumsq (gs : list Q) : Q := match gs with [] => 0 | g :: r => g * g + sumsq r end.
End Coordinatewise.

(* ---------- sketched methods ---------- *)
(* alpha recurrence: alpha' = alpha + f * rho^2, rho = last singular value *)
Definition alpha_step (f alpha rho : Q) : Q := alpha + f * (rho * rho).
Definition alpha_run (f delta : Q) (rhos : list Q) : Q := fold_left (alpha_step f) rhos delta.

(* new squared sketch eigenvalues from the singular values: (s - rho)(s + rho), rho = last s *)
Definition oco_deflate (s : vec) : vec :=
  let rho := last s 0 in map (fun x => (x - rho) * (x + rho)) s.

(* update direction of the non-Ada-FD methods, given the (oracle) inverted values:
   P^T (inv_s o (P g)) + inv_alpha (g - P^T P g);  P given by rows *)
Definition lincomb (cs : vec) (rows : list vec) (n : nat) : vec :=
  fold_left (fun acc '(c, r) => vred (vadd acc (vscale c r))) (combine cs rows) (vzero n).
Definition sk_update (P : list vec) (inv_s : vec) (inv_alpha : Q) (g : vec) : vec :=
  let n := length g in
  let pg := map (fun p => dot p g) P in
  let inside := lincomb pg P n in
  let scaled := lincomb (map (fun '(a, b) => a * b) (combine inv_s pg)) P n in
  vred (vadd scaled (vscale inv_alpha (vsub g inside))).
(* Ada-FD: (g - P^T (d o P g)) * inv_alpha,  d = e / (alpha + e) supplied as dvals *)
Definition adafd_update (P : list vec) (dvals : vec) (inv_alpha : Q) (g : vec) : vec :=
  let n := length g in
  let pg := map (fun p => dot p g) P in
  vred (vscale inv_alpha (vsub g (lincomb (map (fun '(a, b) => a * b) (combine dvals pg)) P n))).
