(* C16/RefLink.v — the translated vector updates act coordinatewise as the model steps. *)
From Precond Require Import Base.PyLib Base.QMat Base.PyFloat C09.Model C16.Model C16.Ref.
From Coq Require Import Lia.
Open Scope Q_scope.

Lemma nth_map_lt {A} (f : Q -> A) (d : A) : forall (x : vec) i, (i < length x)%nat ->
  nth i (map f x) d = f (nth i x 0).
Proof.
  induction x as [|a x IH]; intros i H; [simpl in H; lia|].
  destruct i; [reflexivity|]. simpl. apply IH. simpl in H. lia.
Qed.

Lemma nth_vmap2 (f : Q -> Q -> Q) : forall (x y : vec) i, (i < length x)%nat -> (i < length y)%nat ->
  nth i (vmap2 f x y) 0 = f (nth i x 0) (nth i y 0).
Proof.
  unfold vmap2. induction x as [|a x IH]; intros [|b y] i Hx Hy; simpl in *; try lia.
  destruct i; [reflexivity|]. apply IH; lia.
Qed.

Lemma vmap2_length (f : Q -> Q -> Q) : forall x y : vec, length x = length y -> length (vmap2 f x y) = length x.
Proof. intros x y H. unfold vmap2. rewrite map_length, combine_length. lia. Qed.

(* ---------- OGD ---------- *)
Lemma ogd_update_coord rs lr delta (w : vec) t (g : vec) i :
  length w = length g -> (i < length w)%nat ->
  nth i (fst (ogd_update_fn rs lr delta w t g)) 0
    = (nth i w 0 - (lr * nth i g 0) * rs (t + (1 # 1) + delta))%Q /\
  snd (ogd_update_fn rs lr delta w t g) = (t + (1 # 1))%Q /\
  length (fst (ogd_update_fn rs lr delta w t g)) = length w.
Proof.
  intros Hl Hi. unfold ogd_update_fn. cbn [fst snd]. unfold vv_sub, vs_mul, sv_mul. split; [|split].
  - rewrite nth_vmap2; [|exact Hi | rewrite !map_length; lia].
    rewrite (nth_map_lt (fun a => a * rs (t + (1 # 1) + delta)) 0) by (rewrite map_length; lia).
    rewrite (nth_map_lt (fun a => lr * a) 0) by lia. reflexivity.
  - reflexivity.
  - apply vmap2_length. rewrite !map_length. exact Hl.
Qed.

(* the translated step equals the model's per-coordinate step (up to ==) *)
Theorem ogd_update_is_model_step rs lr delta (w : vec) t (g : vec) i :
  length w = length g -> (i < length w)%nat ->
  nth i (fst (ogd_update_fn rs lr delta w t g)) 0
    == fst (ogd_step rs lr delta (nth i w 0, t) (nth i g 0)) /\
  snd (ogd_update_fn rs lr delta w t g) = snd (ogd_step rs lr delta (nth i w 0, t) (nth i g 0)).
Proof.
  intros Hl Hi. destruct (ogd_update_coord rs lr delta w t g i Hl Hi) as [H1 [H2 _]].
  unfold ogd_step. cbn [fst snd]. split; [rewrite H1; ring | exact H2].
Qed.

(* ---------- diagonal AdaGrad ---------- *)
Theorem ada_update_is_model_step rs lr (w h g : vec) i :
  length w = length g -> length h = length g -> (i < length w)%nat ->
  nth i (fst (ada_update_fn rs lr w h g)) 0
    = fst (ada_step rs lr (nth i w 0, nth i h 0) (nth i g 0)) /\
  nth i (snd (ada_update_fn rs lr w h g)) 0
    = snd (ada_step rs lr (nth i w 0, nth i h 0) (nth i g 0)) /\
  length (fst (ada_update_fn rs lr w h g)) = length w /\
  length (snd (ada_update_fn rs lr w h g)) = length h.
Proof.
  intros Hw Hh Hi. unfold ada_update_fn, ada_step. cbn [fst snd].
  unfold vv_sub, vv_add, vv_mul, vs_mul, vwhere_eq0.
  assert (Lh : length (vmap2 Qplus h (vmap2 Qmult g g)) = length h).
  { apply vmap2_length. rewrite vmap2_length; lia. }
  assert (Nh : nth i (vmap2 Qplus h (vmap2 Qmult g g)) 0 = (nth i h 0 + nth i g 0 * nth i g 0)%Q).
  { rewrite nth_vmap2; [|lia | rewrite vmap2_length; lia]. rewrite nth_vmap2 by lia. reflexivity. }
  split; [|split; [|split]].
  - rewrite nth_vmap2; [|exact Hi | rewrite map_length, vmap2_length; rewrite ?map_length; lia].
    rewrite (nth_map_lt (fun a => a * lr) 0) by (rewrite vmap2_length; rewrite ?map_length; lia).
    rewrite nth_vmap2 by (rewrite ?map_length; lia).
    rewrite (nth_map_lt rs 0) by (rewrite map_length; lia).
    rewrite (nth_map_lt (fun a => if Qeq_bool a 0 then 1 # 1 else a) 0) by lia.
    rewrite Nh. unfold guard0. reflexivity.
  - exact Nh.
  - apply vmap2_length. rewrite map_length, vmap2_length; rewrite ?map_length; lia.
  - exact Lh.
Qed.
