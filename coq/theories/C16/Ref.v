(* C16/Ref.v — stable reference copy of the translator's output (tools/py2v_float.py) for
   precondition/oco/algorithms.py: _ogd_update_fn and _diag_adagrad_update_fn (dict state flattened
   to its fields; rsqrt is the oracle rs).  C16/RefLink.v proves that, coordinate by coordinate, they
   are the per-coordinate model steps of C16.Model about which the closed forms are proved; on every
   run the fresh translation must equal this file (GenEq obligations).  Definitions only. *)
From Precond Require Import Base.PyLib Base.QMat Base.PyFloat.
Open Scope Q_scope.

Definition ogd_update_fn (rs : Q -> Q) (lr : Q) (delta : Q) (state_w : (list Q)) (state_t : Q) (grad : (list Q)) : (list Q) * Q :=
(let state_t := (Qplus state_t (1 # 1)) in
(let state_w := (vv_sub state_w (vs_mul (sv_mul lr grad) (rs (Qplus state_t delta)))) in
(state_w, state_t))).

Definition ada_update_fn (rs : Q -> Q) (lr : Q) (state_w : (list Q)) (state_diag_h : (list Q)) (grad : (list Q)) : (list Q) * (list Q) :=
(let state_diag_h := (vv_add state_diag_h (vv_mul grad grad)) in
(let rsqrt := (map rs (vwhere_eq0 state_diag_h (1 # 1))) in
(let state_w := (vv_sub state_w (vs_mul (vv_mul rsqrt grad) lr)) in
(state_w, state_diag_h)))).

