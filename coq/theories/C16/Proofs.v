(* C16/Proofs.v — closed forms of OGD / diagonal AdaGrad for every history; alpha recurrence;
   last sketch row zero. *)
From Precond Require Import Base.QMat C09.Model C16.Model.
From Coq Require Import Lqa Lia.
Open Scope Q_scope.

Section Closed.
  Variable rs : Q -> Q.

  Lemma ogd_fold lr delta : forall gs w t,
    fst (fold_left (ogd_step rs lr delta) gs (w, t)) == w - lr * ogd_sum rs delta t gs /\
    snd (fold_left (ogd_step rs lr delta) gs (w, t)) == t + inject_Z (Z.of_nat (length gs)).
  Proof.
    induction gs as [|g r IH]; intros w t; cbn [fold_left ogd_sum length].
    - simpl. split; ring.
    - unfold ogd_step at 2. destruct (IH (w - lr * g * rs (t + 1 + delta)) (t + 1)) as [H1 H2]. split.
      + rewrite H1. ring.
      + rewrite H2. rewrite Nat2Z.inj_succ, <- Z.add_1_r, inject_Z_plus. change (inject_Z 1) with 1. ring.
  Qed.

  (* OGD closed form: w_T = - lr * sum_{t=1..T} g_t * rsqrt(t + delta), and the step counter is T *)
  Theorem ogd_closed_form lr delta gs :
    fst (ogd_run rs lr delta gs) == - (lr * ogd_sum rs delta 0 gs) /\
    snd (ogd_run rs lr delta gs) == inject_Z (Z.of_nat (length gs)).
  Proof.
    unfold ogd_run. destruct (ogd_fold lr delta gs 0 0) as [H1 H2]. split.
    - rewrite H1. ring.
    - rewrite H2. ring.
  Qed.

  Lemma ada_fold lr : forall gs w h,
    fst (fold_left (ada_step rs lr) gs (w, h)) == w - lr * ada_sum rs h gs /\
    snd (fold_left (ada_step rs lr) gs (w, h)) == h + sumsq gs.
  Proof.
    induction gs as [|g r IH]; intros w h; cbn [fold_left ada_sum sumsq].
    - simpl. split; ring.
    - unfold ada_step at 2. destruct (IH (w - rs (guard0 (h + g * g)) * g * lr) (h + g * g)) as [H1 H2]. split.
      + rewrite H1. ring.
      + rewrite H2. ring.
  Qed.

  (* diagonal AdaGrad closed form: h_T = delta + sum g_t^2,
     w_T = - lr * sum_t g_t * rsqrt(h_t) (h_t replaced by 1 where it is exactly 0) *)
  Theorem ada_closed_form lr delta gs :
    fst (ada_run rs lr delta gs) == - (lr * ada_sum rs delta gs) /\
    snd (ada_run rs lr delta gs) == delta + sumsq gs.
  Proof.
    unfold ada_run. destruct (ada_fold lr gs 0 delta) as [H1 H2]. split.
    - rewrite H1. ring.
    - exact H2.
  Qed.
End Closed.

(* alpha_T = delta + f * sum_t rho_t^2  (S-AdaGrad: f = 1) *)
Lemma alpha_fold f : forall rhos a,
  fold_left (alpha_step f) rhos a == a + f * sumsq rhos.
Proof.
  induction rhos as [|r rs IH]; intro a; cbn [fold_left sumsq]; [ring|].
  rewrite IH. unfold alpha_step. ring.
Qed.

Theorem sada_alpha f delta rhos : alpha_run f delta rhos == delta + f * sumsq rhos.
Proof. unfold alpha_run. apply alpha_fold. Qed.

(* lossless case: every rho is zero -> alpha stays delta *)
Lemma sumsq_zero rhos : Forall (fun r => r == 0) rhos -> sumsq rhos == 0.
Proof. induction 1 as [|r l Hr Hl IH]; simpl; [reflexivity|]. rewrite IH, Hr. ring. Qed.

Theorem sada_alpha_lossless f delta rhos :
  Forall (fun r => r == 0) rhos -> alpha_run f delta rhos == delta.
Proof. intro H. rewrite sada_alpha, (sumsq_zero rhos H). ring. Qed.

(* the last sketch row always has eigenvalue zero after a step: overwriting it loses nothing *)
Lemma last_map_gen {A B} (f : A -> B) : forall (l : list A) d1 d2, l <> [] ->
  last (map f l) d1 = f (last l d2).
Proof.
  induction l as [|a l IH]; intros d1 d2 H; [contradiction|].
  destruct l as [|b l]; [reflexivity|].
  change (last (map f (b :: l)) d1 = f (last (b :: l) d2)). apply IH. discriminate.
Qed.

Theorem fd_last_row_zero (s : vec) : s <> [] -> last (oco_deflate s) 0 == 0.
Proof.
  intro H. unfold oco_deflate.
  rewrite (last_map_gen (fun x : Q => (x - last s 0) * (x + last s 0)) s 0 0 H). ring.
Qed.

(* in an eigen-direction with eigenvalue s, S-AdaGrad's factor rsqrt(alpha+s)^2 inverts alpha+s;
   with the sketch exact (C09: zero cut-offs) and alpha = delta this is full-matrix AdaGrad's
   factor for  delta*I + C  in that direction. *)
Definition rs_spec (rs : Q -> Q) : Prop := forall a, 0 < a -> 0 < rs a /\ rs a * rs a * a == 1.

Theorem sada_direction_factor (rs : Q -> Q) : rs_spec rs ->
  forall delta s, 0 < delta -> 0 <= s -> rs (delta + s) * rs (delta + s) * (delta + s) == 1.
Proof. intros Hrs delta s Hd Hs. apply (Hrs (delta + s)). lra. Qed.

(* ---------- lossless S-AdaGrad IS full-matrix AdaGrad (matrix level) ---------- *)
(* In any (non-commutative) algebra of d x d matrices over Q:  let Pi = P^T P be the projector onto
   the sketch's row space, Qc = I - Pi, Dm = P^T diag(s) P the sketch (= the exact covariance when
   the history is lossless, C09), Fm = P^T diag(rsqrt(delta + s)) P.  S-AdaGrad preconditions with
   X = Fm + rsqrt(delta) * Qc.  Then  X X (delta I + Dm) = I : X is an inverse square root of
   delta I + C, i.e. full-matrix AdaGrad's preconditioner. *)
Section Lossless.
  Variable M : Type.
  Variables (mul add : M -> M -> M) (one zero : M) (sm : Q -> M -> M).
  Notation "x * y" := (mul x y).
  Notation "x + y" := (add x y).
  Hypothesis mul_assoc : forall a b c, a * (b * c) = (a * b) * c.
  Hypothesis distr_l : forall a b c, a * (b + c) = a * b + a * c.
  Hypothesis distr_r : forall a b c, (a + b) * c = a * c + b * c.
  Hypothesis mul_0_l : forall a, zero * a = zero.
  Hypothesis mul_0_r : forall a, a * zero = zero.
  Hypothesis add_0_l : forall a, zero + a = a.
  Hypothesis add_0_r : forall a, a + zero = a.
  Hypothesis add_assoc : forall a b c, a + (b + c) = (a + b) + c.
  Hypothesis add_comm : forall a b, a + b = b + a.
  Hypothesis mul_1_l : forall a, one * a = a.
  Hypothesis sm_mul_l : forall q a b, (sm q a) * b = sm q (a * b).
  Hypothesis sm_mul_r : forall q a b, a * (sm q b) = sm q (a * b).
  Hypothesis sm_add : forall q a b, sm q (a + b) = sm q a + sm q b.
  Hypothesis sm_sm : forall p q a, sm p (sm q a) = sm (p * q)%Q a.
  Hypothesis sm_ext : forall p q a, (p == q)%Q -> sm p a = sm q a.
  Hypothesis sm_1 : forall a, sm 1%Q a = a.
  Hypothesis sm_zero : forall q, sm q zero = zero.

  Variables (Pi Qc Dm Fm : M) (delta a : Q).
  Hypothesis split_one : Pi + Qc = one.
  Hypothesis PiQc : Pi * Qc = zero.
  Hypothesis QcPi : Qc * Pi = zero.
  Hypothesis FmPi : Fm * Pi = Fm.
  Hypothesis PiFm : Pi * Fm = Fm.
  Hypothesis PiDm : Pi * Dm = Dm.
  Hypothesis root_on_sketch : (Fm * Fm) * (sm delta Pi + Dm) = Pi.
  Hypothesis root_of_delta : (a * a * delta == 1)%Q.

  Lemma QcQc : Qc * Qc = Qc.
  Proof.
    rewrite <- (mul_1_l Qc) at 3. rewrite <- split_one. rewrite distr_r, PiQc, add_0_l. reflexivity.
  Qed.
  Lemma FmQc : Fm * Qc = zero.
  Proof. rewrite <- FmPi. rewrite <- mul_assoc, PiQc. apply mul_0_r. Qed.
  Lemma QcFm : Qc * Fm = zero.
  Proof. rewrite <- PiFm. rewrite mul_assoc, QcPi. apply mul_0_l. Qed.
  Lemma QcDm : Qc * Dm = zero.
  Proof. rewrite <- PiDm. rewrite mul_assoc, QcPi. apply mul_0_l. Qed.

  Definition Xs : M := Fm + sm a Qc.                   (* S-AdaGrad's preconditioner *)
  Definition As : M := sm delta one + Dm.              (* delta I + C *)

  Lemma Xs_squared : Xs * Xs = Fm * Fm + sm (a * a)%Q Qc.
  Proof.
    unfold Xs. rewrite distr_r, !distr_l.
    rewrite (sm_mul_r a Fm Qc), FmQc, sm_zero, add_0_r.
    rewrite (sm_mul_l a Qc Fm), QcFm, sm_zero, add_0_l.
    rewrite (sm_mul_l a Qc (sm a Qc)), (sm_mul_r a Qc Qc), QcQc, sm_sm. reflexivity.
  Qed.

  Lemma As_split : As = (sm delta Pi + Dm) + sm delta Qc.
  Proof.
    unfold As. rewrite <- split_one, sm_add.
    rewrite <- (add_assoc (sm delta Pi) (sm delta Qc) Dm), (add_comm (sm delta Qc) Dm), add_assoc.
    reflexivity.
  Qed.

  Theorem sada_lossless_is_full_adagrad : (Xs * Xs) * As = one.
  Proof.
    rewrite Xs_squared, As_split. rewrite distr_r.
    rewrite (distr_l (Fm * Fm) (sm delta Pi + Dm) (sm delta Qc)).
    rewrite (distr_l (sm (a * a)%Q Qc) (sm delta Pi + Dm) (sm delta Qc)).
    rewrite (distr_l (sm (a * a)%Q Qc) (sm delta Pi) Dm).
    rewrite root_on_sketch.
    rewrite (sm_mul_r delta (Fm * Fm) Qc), <- (mul_assoc Fm Fm Qc), FmQc, mul_0_r, sm_zero, add_0_r.
    rewrite (sm_mul_l (a * a)%Q Qc (sm delta Pi)), (sm_mul_r delta Qc Pi), QcPi, !sm_zero.
    rewrite (sm_mul_l (a * a)%Q Qc Dm), QcDm, sm_zero, add_0_l.
    rewrite (sm_mul_l (a * a)%Q Qc (sm delta Qc)), (sm_mul_r delta Qc Qc), QcQc, sm_sm.
    rewrite (sm_ext (a * a * delta)%Q 1%Q Qc root_of_delta), sm_1.
    rewrite ?add_0_l, ?add_0_r. exact split_one.
  Qed.
End Lossless.
