(* C16/Check.v — run-time checks (vm_compute on exact dyadics) of the OCO implementations against
   the model / closed forms.  Oracle values (rsqrt, reciprocal, sqrt) computed by the
   implementation side are first checked against their specs, then used. *)
From Precond Require Import Base.QMat Base.PsdCheck Base.PsdRound C09.Model C09.Check C16.Model.
Open Scope Q_scope.

Definition chk_rs (tol a r : Q) : bool :=       (* r ~ a^(-1/2); safe inversion: a <= 0 -> 0 *)
  if Qleb a 0 then Qeq_bool r 0 else Qleb 0 r && qclose tol (qnorm (r * r * a)) 1.
Definition chk_recip (tol a r : Q) : bool :=
  if Qleb a 0 then Qeq_bool r 0 else qclose tol (qnorm (r * a)) 1.
Definition chk_sqrt (tol a r : Q) : bool := Qleb 0 r && qclose (tol * Qmax 1 a) (qnorm (r * r)) a.

(* ---------- OGD / diagonal AdaGrad against their closed forms ---------- *)
(* G: history of gradient vectors; rv: claimed rsqrt(t + delta), t = 1..T *)
Fixpoint times_from (t : Q) (n : nat) : vec :=
  match n with O => [] | S n' => (t + 1) :: times_from (t + 1) n' end.
Definition wsum_cols (n : nat) (coefs : list vec) (G : list vec) : vec :=
  (* sum_t coefs_t o g_t, coordinatewise *)
  fold_left (fun acc '(c, g) => vred (vadd acc (map (fun '(a, b) => a * b) (combine c g))))
            (combine coefs G) (vzero n).

Definition chk_ogd (tol lr delta : Q) (n : nat) (G : list vec) (rv : vec) (w : vec) (t : Q) : Z :=
  let T := length G in
  let ts := times_from 0 T in
  if negb (Nat.eqb (length rv) T) then 1%Z
  else if negb (forallb (fun '(tm, r) => chk_rs tol (tm + delta) r) (combine ts rv)) then 2%Z
  else if negb (Qeq_bool t (inject_Z (Z.of_nat T))) then 3%Z
  else
    let s := wsum_cols n (map (fun r => repeat r n) rv) G in
    let wm := vscale (- lr) s in
    if vclose (tol * Qmax (maxabs_vec wm) (maxabs_vec w)) wm w then 0%Z else 4%Z.

(* rv: per step, per coordinate claimed rsqrt(guard0 h_t) *)
Definition chk_ada (tol lr delta : Q) (n : nat) (G : list vec) (rv : list vec) (w h : vec) : Z :=
  let hs := (* h_t per step *)
    snd (fold_left (fun '(hcur, acc) g =>
            let h' := vred (vadd hcur (map (fun a => a * a) g)) in (h', acc ++ [h']))
          G (repeat delta n, [])) in
  if negb (Nat.eqb (length rv) (length G)) then 1%Z
  else if negb (forallb (fun '(ht, rt) =>
                 forallb (fun '(a, r) => chk_rs tol (guard0 a) r) (combine ht rt) &&
                 Nat.eqb (length rt) n) (combine hs rv)) then 2%Z
  else if negb (vclose (tol * Qmax 1 (maxabs_vec h)) (last hs (repeat delta n)) h) then 3%Z
  else
    let wm := vscale (- lr) (wsum_cols n rv G) in
    if vclose (tol * Qmax (maxabs_vec wm) (maxabs_vec w)) wm w then 0%Z else 4%Z.

(* ---------- sketched methods, step by step ---------- *)
Record orec := mkorec {
  o_g : vec;           (* raw gradient *)
  o_gin : vec;         (* last row handed to the SVD (gradient times the sketch update factor) *)
  o_fac : Q;           (* claimed sketch update factor *)
  o_aux : Q;           (* claimed sqrt(t) (FD-SON only) *)
  o_s : vec; o_vt : list vec;     (* captured SVD answer: singular values, right vectors (rows) *)
  o_P : list vec; o_e : vec; o_alpha : Q; o_w : vec;   (* state after the step *)
  o_inv : vec;         (* claimed inverted values per direction (or d = e/(alpha+e) for Ada-FD) *)
  o_inv_alpha : Q      (* claimed inverted alpha *)
}.

(* kind: 0 S-AdaGrad, 1 RFD-SON, 2 FD-SON, 3 Ada-FD *)
Definition alpha_factor (kind : Z) : Q :=
  if (kind =? 0)%Z then 1 else if (kind =? 1)%Z then (1 # 2) else 0.

Definition chk_factor (tol : Q) (kind : Z) (lr t : Q) (r : orec) : bool :=
  if ((kind =? 0) || (kind =? 3))%Z then Qeq_bool (o_fac r) 1
  else if (kind =? 1)%Z then chk_rs tol (t * lr) (o_fac r)
  else chk_sqrt tol t (o_aux r) && chk_rs tol (o_aux r * lr) (o_fac r).

Definition chk_inversions (tol : Q) (kind : Z) (r : orec) : bool :=
  let l := map (fun e => e * e) (o_e r) in
  let a := o_alpha r in
  if (kind =? 0)%Z then
    forallb (fun '(li, v) => chk_rs tol (a + li) v) (combine l (o_inv r)) && chk_rs tol a (o_inv_alpha r)
  else if (kind =? 3)%Z then
    forallb (fun '(ei, v) => if Qleb (a + ei) 0 then true else qclose tol (qnorm (v * (a + ei))) ei)
            (combine (o_e r) (o_inv r)) && chk_recip tol a (o_inv_alpha r)
  else
    forallb (fun '(li, v) => chk_recip tol (a + li) v) (combine l (o_inv r)) && chk_recip tol a (o_inv_alpha r).

Fixpoint chk_oco_from (i : Z) (kind : Z) (tol lr : Q) (n : nat)
         (P : list vec) (e : vec) (alpha : Q) (w : vec) (t : Q) (recs : list orec) : Z :=
  match recs with
  | [] => 0%Z
  | r :: rest =>
    let t' := t + 1 in
    let ell := length (o_s r) in
    let rho := last (o_s r) 0 in
    (* B = diag(e) P with the last row replaced by gin; F = B^T *)
    let rowsB := firstn (ell - 1) (map (fun '(ei, p) => vscale ei p) (combine e P)) ++ [o_gin r] in
    let F := transpose rowsB in
    let lr_eff := if ((kind =? 0) || (kind =? 3))%Z then lr else 1 in
    let upd := if (kind =? 3)%Z then adafd_update (o_P r) (o_inv r) (o_inv_alpha r) (o_g r)
               else sk_update (o_P r) (o_inv r) (o_inv_alpha r) (o_g r) in
    let wm := vred (vsub w (vscale lr_eff upd)) in
    let sigma := oco_deflate (o_s r) in
    let code :=
      if negb (chk_factor tol kind lr t' r &&
               vclose (tol * Qmax 1 (maxabs_vec (o_gin r))) (vscale (o_fac r) (o_g r)) (o_gin r)) then 1%Z
      else if negb (chk_svd tol n F (o_vt r) (o_s r)) then 2%Z
      else if negb (vclose (tol * Qmax 1 (nth 0 sigma 0)) sigma (map (fun x => x * x) (o_e r)) &&
                    Qeq_bool (last (o_e r) 1) 0 &&
                    forallb (fun '(a, b) => vclose tol a b) (combine (o_vt r) (o_P r)) &&
                    Nat.eqb (length (o_P r)) ell) then 3%Z
      else if negb (qclose (tol * Qmax 1 (o_alpha r)) (alpha_step (alpha_factor kind) alpha rho) (o_alpha r)) then 4%Z
      else if negb (chk_inversions tol kind r) then 5%Z
      else if negb (vclose (tol * Qmax (Qmax (maxabs_vec wm) (maxabs_vec upd))
                                        (* rounding of g - P^T P g is amplified by the inverted values *)
                                        (lr_eff * maxabs_vec (o_inv_alpha r :: o_inv r) * maxabs_vec (o_g r)
                                         * inject_Z (Z.of_nat n)))
                           wm (o_w r)) then 6%Z
      else 0%Z in
    if (code =? 0)%Z
    then chk_oco_from (i + 1) kind tol lr n (o_P r) (o_e r) (o_alpha r) (o_w r) t' rest
    else (100 * i + code)%Z
  end.

Definition chk_oco (kind : Z) (tol lr delta : Q) (n ell : nat) (recs : list orec) : Z :=
  let c := chk_oco_from 0 kind tol lr n (repeat (vzero n) ell) (vzero ell) delta (vzero n) 0 recs in
  if negb (c =? 0)%Z then c
  else (* closed form of alpha over the whole history *)
    let rhos := map (fun r => last (o_s r) 0) recs in
    let aT := last (map o_alpha recs) delta in
    if qclose (tol * Qmax 1 aT) (delta + alpha_factor kind * sumsq rhos) aT then 0%Z else 7%Z.

(* ---------- lossless S-AdaGrad = full-matrix AdaGrad (certificate form) ---------- *)
(* Y: proposed (delta I + C_t)^(-1/2), certified by: Y PSD, Y Y (delta I + C_t) ~ I; then the
   S-AdaGrad iterate must move by -lr * Y g_t. *)
Definition chk_full_step (tol lr delta : Q) (n : nat) (C : mat) (Y : mat) (g w_prev w_new : vec) : Z :=
  let A := add_ridge delta C in
  let YYA := mmul Y (mmul Y A) in
  if negb (is_square n Y && psd_any (pick_q n tol) n (add_ridge tol Y)) then 8%Z
  else if negb (mclose tol YYA (eye n)) then 9%Z
  else
    let wm := vred (vsub w_prev (vscale lr (mv Y g))) in
    if vclose (tol * Qmax 1 (maxabs_vec wm)) wm w_new then 0%Z else 10%Z.

Fixpoint chk_full_from (i : Z) (tol lr delta : Q) (n : nat) (C : mat) (w : vec)
         (steps : list (vec * mat * vec)) : Z :=
  match steps with
  | [] => 0%Z
  | (g, Y, w') :: rest =>
    let C' := madd C (outer g g) in
    let c := chk_full_step tol lr delta n C' Y g w w' in
    if (c =? 0)%Z then chk_full_from (i + 1) tol lr delta n C' w' rest else (100 * i + c)%Z
  end.
Definition chk_full (tol lr delta : Q) (n : nat) (steps : list (vec * mat * vec)) : Z :=
  chk_full_from 0 tol lr delta n (zeros n) (vzero n) steps.
