(* C11/F32Basics.v — basic facts about the DAZ/FTZ binary32 layer (C11/F32.v), through Flocq's
   B..._correct lemmas.  Everything here inherits the standard-library real-number axioms that
   Flocq is built on. *)
From Coq Require Import ZArith List Bool Reals Lia Lra Psatz.
From Flocq Require Import Core Relative.
From Flocq Require Import IEEE754.BinarySingleNaN.
From Precond Require Import C11.F32.
Import ListNotations.
Open Scope R_scope.

Notation fexp32 := (SpecFloat.fexp 24 128).
Notation rnd32 := (round radix2 fexp32 (round_mode mode_NE)).
Definition uro : R := bpow radix2 (-24).          (* unit round-off 2^-24 *)
Definition eta : R := bpow radix2 (-150).         (* half the smallest subnormal *)
Definition minnorm : R := bpow radix2 (-126).

Lemma fexp32_FLT : fexp32 = FLT_exp (-149) 24.
Proof. reflexivity. Qed.

(* ---------------- ftz / daz ---------------- *)
Lemma ftz_finite z : is_finite (ftz z) = is_finite z.
Proof. destruct z as [s|s| |s m e H]; simpl; try reflexivity. destruct (Z.pos m <? 8388608)%Z; reflexivity. Qed.

Lemma ftz_cases z : ftz z = z \/ (exists s, ftz z = B754_zero s) .
Proof.
  destruct z as [s|s| |s m e H]; simpl; auto.
  destruct (Z.pos m <? 8388608)%Z; [right; eexists; reflexivity|left; reflexivity].
Qed.

Lemma ftz_idem z : ftz (ftz z) = ftz z.
Proof.
  destruct z as [s|s| |s m e H]; simpl; try reflexivity.
  destruct (Z.pos m <? 8388608)%Z eqn:E; simpl; [reflexivity|rewrite E; reflexivity].
Qed.

Lemma B2R_ftz_abs_le z : Rabs (B2R (ftz z)) <= Rabs (B2R z).
Proof.
  destruct (ftz_cases z) as [->|[s ->]]; [lra|]. simpl. rewrite Rabs_R0. apply Rabs_pos.
Qed.

Lemma ftz_sign_R z : 0 <= B2R z -> 0 <= B2R (ftz z).
Proof. destruct (ftz_cases z) as [->|[s ->]]; simpl; lra. Qed.

(* a finite, non-subnormal, non-zero binary32 number is at least 2^-126 in magnitude *)
Lemma normal_ge_minnorm s m e (H : SpecFloat.bounded 24 128 m e = true) :
  (Z.pos m <? 8388608)%Z = false ->
  minnorm <= Rabs (B2R (B754_finite s m e H : f32)).
Proof.
  intro Hm. apply Z.ltb_ge in Hm.
  unfold B2R. rewrite <- F2R_Zabs. rewrite abs_cond_Zopp. simpl Z.abs.
  unfold SpecFloat.bounded in H. apply andb_prop in H. destruct H as [Hc _].
  unfold SpecFloat.canonical_mantissa in Hc. apply Zeq_bool_eq in Hc.
  unfold SpecFloat.fexp, SpecFloat.emin in Hc.
  assert (He : (-149 <= e)%Z) by lia.
  unfold F2R, minnorm. simpl Fnum. simpl Fexp.
  replace (bpow radix2 (-126)) with (IZR 8388608 * bpow radix2 (-149)).
  - apply Rmult_le_compat; [lra|apply bpow_ge_0|apply IZR_le; lia|apply bpow_le; exact He].
  - change (-126)%Z with (23 + -149)%Z. rewrite bpow_plus. f_equal.
Qed.

Lemma ftz_pos_normal z : 0 < B2R (ftz z) -> ftz z = z /\ minnorm <= B2R z.
Proof.
  destruct z as [s|s| |s m e H]; simpl; try lra.
  destruct (Z.pos m <? 8388608)%Z eqn:E; simpl; [lra|].
  intro Hp. split; [reflexivity|].
  pose proof (normal_ge_minnorm s m e H E) as Hn. simpl in Hn.
  rewrite Rabs_pos_eq in Hn; lra.
Qed.

(* flushed to zero means the unflushed value was below 2^-126 *)
Lemma ftz_zero_small z : is_finite z = true -> B2R (ftz z) = 0 -> Rabs (B2R z) < minnorm.
Proof.
  destruct z as [s|s| |s m e H]; simpl; intros Hf Hz; try discriminate;
    try (rewrite Rabs_R0; apply bpow_gt_0).
  destruct (Z.pos m <? 8388608)%Z eqn:E.
  - (* subnormal *)
    apply Z.ltb_lt in E.
    unfold B2R. rewrite <- F2R_Zabs, abs_cond_Zopp. simpl Z.abs.
    pose proof H as H'. unfold SpecFloat.bounded in H'. apply andb_prop in H'. destruct H' as [Hc _].
    unfold SpecFloat.canonical_mantissa in Hc. apply Zeq_bool_eq in Hc.
    assert (Hd : (Zdigits radix2 (Z.pos m) <= 23)%Z).
    { apply Zdigits_le_Zpower. simpl Z.abs. change (Zpower radix2 23) with 8388608%Z. lia. }
    rewrite <- Zdigits2_Zdigits in Hd. change (SpecFloat.digits2_pos m) with (SpecFloat.digits2_pos m) in *.
    unfold SpecFloat.fexp, SpecFloat.emin in Hc.
    assert (He : (e = -149)%Z).
    { unfold Zdigits2 in Hd. lia. }
    subst e. unfold F2R, minnorm. simpl Fnum; simpl Fexp.
    replace (bpow radix2 (-126)) with (IZR 8388608 * bpow radix2 (-149)).
    + apply Rmult_lt_compat_r; [apply bpow_gt_0|apply IZR_lt; lia].
    + change (-126)%Z with (23 + -149)%Z. rewrite bpow_plus. f_equal.
  - exfalso. simpl in Hz. revert Hz. unfold F2R; simpl.
    assert (0 < bpow radix2 e) by apply bpow_gt_0.
    destruct s; simpl; intro Hz.
    + assert (IZR (Z.neg m) < 0) by (apply IZR_lt; lia). nra.
    + assert (0 < IZR (Z.pos m)) by (apply IZR_lt; lia). nra.
Qed.

(* a finite float whose real value is 0 is a zero *)
Lemma finite_B2R_0 (z : f32) : is_finite z = true -> B2R z = 0 -> exists s, z = B754_zero s.
Proof.
  destruct z as [s|s| |s m e H]; simpl; intros Hf Hz; try discriminate; [eexists; reflexivity|].
  exfalso. revert Hz. unfold F2R; simpl.
  assert (0 < bpow radix2 e) by apply bpow_gt_0.
  destruct s; simpl; intro Hz.
  - assert (IZR (Z.neg m) < 0) by (apply IZR_lt; lia). nra.
  - assert (0 < IZR (Z.pos m)) by (apply IZR_lt; lia). nra.
Qed.

(* ---------------- rounding error of binary32 ---------------- *)
Lemma rnd32_error x : exists eps et, Rabs eps <= uro /\ Rabs et <= eta /\ rnd32 x = x * (1 + eps) + et.
Proof.
  destruct (error_N_FLT radix2 (-149) 24 ltac:(lia) (fun x => negb (Z.even x)) x)
    as (eps & et & He & Ht & _ & Hr).
  exists eps, et. repeat split.
  - unfold uro. replace (bpow radix2 (-24)) with (/2 * bpow radix2 (-24 + 1)); [exact He|].
    rewrite bpow_plus. simpl (bpow radix2 1). lra.
  - unfold eta. replace (bpow radix2 (-150)) with (/2 * bpow radix2 (-149)); [exact Ht|].
    change (-149)%Z with (-150 + 1)%Z. rewrite bpow_plus. simpl (bpow radix2 1). lra.
  - exact Hr.
Qed.

Lemma rnd32_abs_ub x : Rabs (rnd32 x) <= Rabs x * (1 + uro) + eta.
Proof.
  destruct (rnd32_error x) as (eps & et & He & Ht & ->).
  eapply Rle_trans; [apply Rabs_triang|]. rewrite Rabs_mult.
  assert (Rabs (1 + eps) <= 1 + uro).
  { eapply Rle_trans; [apply Rabs_triang|]. rewrite Rabs_R1. lra. }
  pose proof (Rabs_pos x). nra.
Qed.

Lemma rnd32_lb x : 0 <= x -> x * (1 - uro) - eta <= rnd32 x.
Proof.
  intro Hx. destruct (rnd32_error x) as (eps & et & He & Ht & ->).
  apply Rabs_le_inv in He. apply Rabs_le_inv in Ht. nra.
Qed.

Lemma rnd32_nonneg x : 0 <= x -> 0 <= rnd32 x.
Proof.
  intro Hx. rewrite <- (round_0 radix2 fexp32 (round_mode mode_NE)).
  apply round_le; [apply fexp_correct; reflexivity|apply valid_rnd_round_mode|exact Hx].
Qed.

Lemma rnd32_le_bpow x e : (-149 <= e)%Z -> Rabs x <= bpow radix2 e -> Rabs (rnd32 x) <= bpow radix2 e.
Proof.
  intros He Hx. apply abs_round_le_generic; [apply fexp_correct; reflexivity|apply valid_rnd_round_mode| |exact Hx].
  apply generic_format_bpow. unfold SpecFloat.fexp, SpecFloat.emin. lia.
Qed.

Lemma uro_val : uro = / 16777216.
Proof. unfold uro. simpl. lra. Qed.
Lemma uro_pos : 0 < uro. Proof. apply bpow_gt_0. Qed.
Lemma eta_pos : 0 < eta. Proof. apply bpow_gt_0. Qed.
Lemma minnorm_pos : 0 < minnorm. Proof. apply bpow_gt_0. Qed.
Lemma eta_minnorm : eta = uro * minnorm.
Proof. unfold eta, uro, minnorm. rewrite <- bpow_plus. reflexivity. Qed.

(* sharper bounds *)
Lemma rnd32_err x : Rabs (rnd32 x - x) <= uro * Rabs x + eta.
Proof.
  destruct (rnd32_error x) as (eps & et & He & Ht & ->).
  replace (x * (1 + eps) + et - x) with (x * eps + et) by ring.
  eapply Rle_trans; [apply Rabs_triang|]. rewrite Rabs_mult.
  pose proof (Rabs_pos x). rewrite (Rmult_comm uro). 
  apply Rplus_le_compat; [apply Rmult_le_compat_l; assumption|assumption].
Qed.

Lemma rnd32_abs_lb x : Rabs x * (1 - uro) - eta <= Rabs (rnd32 x).
Proof.
  pose proof (rnd32_err x) as H.
  pose proof (Rabs_triang (rnd32 x) (x - rnd32 x)) as H2.
  replace (rnd32 x + (x - rnd32 x)) with x in H2 by ring.
  rewrite (Rabs_minus_sym x (rnd32 x)) in H2.
  set (a := Rabs x) in *. set (c := Rabs (rnd32 x - x)) in *. set (d := Rabs (rnd32 x)) in *.
  replace (a * (1 - uro)) with (a - uro * a) by ring. lra.
Qed.

(* in the normal range the error is purely relative *)
Lemma rnd32_rel x : minnorm <= Rabs x -> Rabs (rnd32 x - x) <= uro * Rabs x.
Proof.
  intro H.
  pose proof (relative_error_N_FLT radix2 (-149) 24 ltac:(lia) (fun x => negb (Z.even x)) x) as R.
  change (-149 + 24 - 1)%Z with (-126)%Z in R. specialize (R H).
  replace (/ 2 * bpow radix2 (- (24) + 1)) with uro in R; [exact R|].
  unfold uro. change (- (24) + 1)%Z with (-24 + 1)%Z. rewrite bpow_plus. simpl (bpow radix2 1). lra.
Qed.
