(* C11/Model.v — executable binary32 model of precondition/quantization_utils.py
   (QuantizedValue.quantize / to_float), one column at a time.  Definitions only.

   quantize, for quantized_dtype int8 (N = 127) / int16 (N = 32767), per column (axis 0 reduced):
     max_abs     = jnp.max(jnp.abs(fvalue), axis=0)
     bucket_size = max_abs / num_buckets
     bs_nonzero  = jnp.where(bucket_size > 0.0, bucket_size, 1)
     quantized   = jnp.round(fvalue / bs_nonzero).astype(intN)
   to_float:       quantized.astype(float32) * bucket_size
   with extract_diagonal (square matrices): the diagonal is kept exactly, subtracted before
   quantization and added back after de-quantization.
   Every float32 operation is the IEEE operation wrapped in DAZ/FTZ (see F32.v).

   Division.  XLA:CPU rewrites  a / broadcast(b)  into  a * broadcast(1 / b)  whenever the divisor
   is genuinely broadcast (has fewer elements than the numerator); otherwise it emits a true
   (correctly rounded) division.  Observed and asserted bit-exactly by the correspondence check:
     max_abs / num_buckets    is  m * fl(1/N)     iff the tensor has more than one column  [rb],
     fvalue / bs_nonzero      is  x * fl(1/bnz)   iff the column has more than one row      [rr]. *)
From Coq Require Import ZArith List Bool.
From Precond Require Import C11.F32.
Import ListNotations.
Open Scope Z_scope.

Definition col_maxabs (xs : list f32) : f32 := fold_left fmaxd (map fabs xs) fzero.

(* a / b, as a true division or as a * (1 / b) *)
Definition fdivx (recip : bool) (a b : f32) : f32 :=
  if recip then fmul a (fdiv fone b) else fdiv a b.

Definition bucket (rb : bool) (N : Z) (xs : list f32) : f32 := fdivx rb (col_maxabs xs) (of_Z N).

(* jnp.where(bs > 0.0, bs, ones) *)
Definition bucket_nz (b : f32) : f32 := if flt fzero b then b else fone.

Definition quant1 (rr : bool) (N : Z) (bnz x : f32) : Z :=
  to_int_sat (- N - 1) N (frne (fdivx rr x bnz)).

Definition dequant1 (b : f32) (q : Z) : f32 := fmul (of_Z q) b.

Definition quantize_col (rb rr : bool) (N : Z) (xs : list f32) : list Z * f32 :=
  let b := bucket rb N xs in (map (quant1 rr N (bucket_nz b)) xs, b).

Definition to_float_col (b : f32) (qs : list Z) : list f32 := map (dequant1 b) qs.

(* extract_diagonal: column j of a square matrix, rows i = 0..n-1 *)
Fixpoint mapi_from {A B} (k : Z) (f : Z -> A -> B) (l : list A) : list B :=
  match l with [] => [] | x :: t => f k x :: mapi_from (k + 1) f t end.

(* fvalue - jnp.diag(jnp.diag(fvalue)) restricted to column j *)
Definition offdiag_col (j : Z) (xs : list f32) : list f32 :=
  mapi_from 0 (fun i x => fsub x (if i =? j then x else fzero)) xs.

Definition quantize_diagcol (rb rr : bool) (N j : Z) (xs : list f32) : list Z * f32 :=
  quantize_col rb rr N (offdiag_col j xs).

(* val += jnp.diag(diagonal) restricted to column j; d = diagonal[j] *)
Definition to_float_diagcol (j : Z) (d b : f32) (qs : list Z) : list f32 :=
  mapi_from 0 (fun i v => fadd v (if i =? j then d else fzero)) (to_float_col b qs).

(* bfloat16 "quantization": astype(bfloat16) is round-to-nearest-even on the upper 16 bits of the
   binary32 pattern (NaN kept NaN), astype(float32) back is exact.  Bit-level model. *)
Definition is_nan_bits (z : Z) : bool := 2139095040 <? (z mod 2147483648).
Definition bf16_round_bits (z : Z) : Z :=
  if is_nan_bits z then (z / 2147483648) * 2147483648 + 2143289344
  else ((z + 32767 + ((z / 65536) mod 2)) / 65536) * 65536.
