(* C11/F32Ops.v — real-number meaning of the DAZ/FTZ-wrapped operations (fmul, fdiv, of_Z, fmaxd),
   derived from Flocq's Bmult_correct / Bdiv_correct / binary_normalize_correct / Bltb_correct. *)
From Coq Require Import ZArith List Bool Reals Lia Lra Psatz.
From Flocq Require Import Core Relative.
From Flocq Require Import IEEE754.BinarySingleNaN.
From Precond Require Import C11.F32 C11.F32Basics.
Import ListNotations.
Open Scope R_scope.

Lemma bpow127_lt : bpow radix2 127 < bpow radix2 128.
Proof. apply bpow_lt. lia. Qed.

Lemma daz_finite z : is_finite (daz z) = is_finite z.
Proof. apply ftz_finite. Qed.
Lemma daz_abs_le z : Rabs (B2R (daz z)) <= Rabs (B2R z).
Proof. apply B2R_ftz_abs_le. Qed.

(* result of an operation followed by FTZ: either the rounded value (zero or at least 2^-126 in
   magnitude) or zero because the rounded value was tiny *)
Definition ftz_of (r v : R) : Prop :=
  (r = v /\ (v = 0 \/ minnorm <= Rabs v)) \/ (r = 0 /\ Rabs v < minnorm).

Lemma ftz_of_intro z : is_finite z = true -> ftz_of (B2R (ftz z)) (B2R z).
Proof.
  intro Hf. destruct z as [s|s| |s m e H]; try discriminate.
  - left. simpl. split; [reflexivity|left; reflexivity].
  - unfold ftz. destruct (Z.pos m <? 8388608)%Z eqn:E.
    + right. split; [reflexivity|].
      apply (ftz_zero_small (B754_finite s m e H) Hf). simpl. rewrite E. reflexivity.
    + left. split; [reflexivity|]. right. apply normal_ge_minnorm, E.
Qed.

Lemma ftz_of_abs_le r v : ftz_of r v -> Rabs r <= Rabs v.
Proof. intros [[-> _]|[-> _]]; [apply Rle_refl|rewrite Rabs_R0; apply Rabs_pos]. Qed.

Lemma ftz_of_pos r v : ftz_of r v -> 0 < r -> r = v /\ minnorm <= Rabs v.
Proof.
  intros [[-> [Hz|Hn]]|[-> _]] H; try lra; try (split; [reflexivity|exact Hn]).
Qed.

Lemma ftz_of_zero r v : ftz_of r v -> r = 0 -> Rabs v < minnorm.
Proof.
  intros [[-> [Hz|Hn]]|[_ Hs]] H.
  - rewrite Hz, Rabs_R0. apply minnorm_pos.
  - rewrite H, Rabs_R0 in Hn. pose proof minnorm_pos. lra.
  - exact Hs.
Qed.

Lemma fmul_correct x y :
  is_finite x = true -> is_finite y = true ->
  Rabs (B2R (daz x) * B2R (daz y)) <= bpow radix2 127 ->
  is_finite (fmul x y) = true /\
  ftz_of (B2R (fmul x y)) (rnd32 (B2R (daz x) * B2R (daz y))).
Proof.
  intros Hx Hy Hb. unfold fmul.
  pose proof (Bmult_correct 24 128 _ _ mode_NE (daz x) (daz y)) as H.
  rewrite Rlt_bool_true in H.
  - destruct H as (Hr & Hf & _). rewrite !daz_finite, Hx, Hy in Hf. simpl in Hf.
    split; [rewrite ftz_finite; exact Hf|]. rewrite <- Hr. apply ftz_of_intro, Hf.
  - apply (Rle_lt_trans _ (bpow radix2 127)); [apply rnd32_le_bpow; [lia|exact Hb]|apply bpow127_lt].
Qed.

Lemma fdiv_correct x y :
  is_finite x = true -> is_finite y = true -> B2R (daz y) <> 0 ->
  Rabs (B2R (daz x) / B2R (daz y)) <= bpow radix2 127 ->
  is_finite (fdiv x y) = true /\
  ftz_of (B2R (fdiv x y)) (rnd32 (B2R (daz x) / B2R (daz y))).
Proof.
  intros Hx Hy Hy0 Hb. unfold fdiv.
  pose proof (Bdiv_correct 24 128 _ _ mode_NE (daz x) (daz y) Hy0) as H.
  rewrite Rlt_bool_true in H.
  - destruct H as (Hr & Hf & _). rewrite daz_finite, Hx in Hf.
    split; [rewrite ftz_finite; exact Hf|]. rewrite <- Hr. apply ftz_of_intro, Hf.
  - apply (Rle_lt_trans _ (bpow radix2 127)); [apply rnd32_le_bpow; [lia|exact Hb]|apply bpow127_lt].
Qed.

(* small integers are exact *)
Lemma of_Z_correct n : (Z.abs n < 16777216)%Z ->
  B2R (of_Z n) = IZR n /\ is_finite (of_Z n) = true.
Proof.
  intro Hn. unfold of_Z.
  pose proof (binary_normalize_correct 24 128 _ _ mode_NE n 0 false) as H. cbv zeta in H.
  assert (G : generic_format radix2 fexp32 (F2R (Float radix2 n 0))).
  { apply generic_format_FLT. exists (Float radix2 n 0); [reflexivity|exact Hn|vm_compute; discriminate]. }
  assert (E : F2R (Float radix2 n 0) = IZR n) by (unfold F2R; simpl; lra).
  rewrite round_generic in H; [|apply valid_rnd_round_mode|exact G].
  rewrite Rlt_bool_true in H.
  - destruct H as (Hr & Hf & _). rewrite E in Hr. split; assumption.
  - rewrite E. rewrite <- abs_IZR. eapply Rlt_le_trans; [apply IZR_lt; exact Hn|].
    change 16777216%Z with (2 ^ 24)%Z. rewrite (IZR_Zpower radix2) by lia.
    apply bpow_le. lia.
Qed.

Lemma fone_correct : B2R fone = 1 /\ is_finite fone = true.
Proof. apply (of_Z_correct 1). lia. Qed.

Lemma ftz_id_large z : is_finite z = true -> minnorm <= Rabs (B2R z) -> ftz z = z.
Proof.
  intros Hf Hl. destruct (ftz_cases z) as [E|[s E]]; [exact E|].
  assert (B2R (ftz z) = 0) by (rewrite E; reflexivity).
  pose proof (ftz_zero_small z Hf H). lra.
Qed.

Lemma minnorm_le_1 : minnorm <= 1.
Proof. unfold minnorm. change 1 with (bpow radix2 0). apply bpow_le. lia. Qed.

Lemma daz_of_Z n : (Z.abs n < 16777216)%Z -> B2R (daz (of_Z n)) = IZR n.
Proof.
  intro Hn. destruct (of_Z_correct n Hn) as (Hr & Hf).
  destruct (Z.eq_dec n 0) as [->|Hz].
  - pose proof (B2R_ftz_abs_le (of_Z 0)) as H. rewrite Hr, Rabs_R0 in H.
    unfold daz. pose proof (Rabs_pos (B2R (ftz (of_Z 0)))).
    assert (Rabs (B2R (ftz (of_Z 0))) = 0) by lra.
    destruct (Req_dec (B2R (ftz (of_Z 0))) 0) as [E|E]; [exact E|].
    apply Rabs_no_R0 in E. lra.
  - unfold daz. rewrite ftz_id_large; [exact Hr|exact Hf|].
    rewrite Hr, <- abs_IZR. pose proof minnorm_le_1.
    assert (1 <= IZR (Z.abs n)) by (apply IZR_le; lia). lra.
Qed.

(* ---------------- column max-abs ---------------- *)
Lemma B2R_daz_fabs x : B2R (daz (fabs x)) = Rabs (B2R (daz x)).
Proof.
  destruct x as [s|s| |s m e H]; simpl; try (rewrite Rabs_R0; reflexivity).
  destruct (Z.pos m <? 8388608)%Z; simpl; [rewrite Rabs_R0; reflexivity|].
  rewrite <- F2R_Zabs. rewrite abs_cond_Zopp. reflexivity.
Qed.

Lemma fabs_finite x : is_finite (fabs x) = is_finite x.
Proof. destruct x; reflexivity. Qed.

Definition good_max (m : f32) : Prop :=
  is_finite m = true /\ 0 <= B2R m /\ daz m = m.

Lemma fmaxd_good a b :
  is_finite a = true -> is_finite b = true -> 0 <= B2R (daz a) -> 0 <= B2R (daz b) ->
  good_max (fmaxd a b) /\ B2R (daz a) <= B2R (fmaxd a b) /\ B2R (daz b) <= B2R (fmaxd a b).
Proof.
  intros Ha Hb Pa Pb. unfold fmaxd.
  assert (Fa : is_finite (daz a) = true) by (rewrite daz_finite; exact Ha).
  assert (Fb : is_finite (daz b) = true) by (rewrite daz_finite; exact Hb).
  rewrite (Bltb_correct 24 128 _ _ Fa Fb).
  destruct (Rlt_bool_spec (B2R (daz a)) (B2R (daz b))) as [H|H].
  - split; [split; [exact Fb|split; [exact Pb|apply ftz_idem]]|lra].
  - split; [split; [exact Fa|split; [exact Pa|apply ftz_idem]]|lra].
Qed.

Lemma col_maxabs_spec xs :
  Forall (fun x => is_finite x = true) xs ->
  good_max (fold_left fmaxd (map fabs xs) fzero) /\
  forall x, In x xs -> Rabs (B2R (daz x)) <= B2R (fold_left fmaxd (map fabs xs) fzero).
Proof.
  intro Hf.
  assert (G : forall xs acc, Forall (fun x => is_finite x = true) xs -> good_max acc ->
            good_max (fold_left fmaxd (map fabs xs) acc) /\
            B2R acc <= B2R (fold_left fmaxd (map fabs xs) acc) /\
            forall x, In x xs -> Rabs (B2R (daz x)) <= B2R (fold_left fmaxd (map fabs xs) acc)).
  { clear. induction xs as [|y t IH]; intros acc Hf (Fa & Pa & Da); simpl.
    - split; [repeat split; assumption|]. split; [lra|]. intros x [].
    - inversion Hf as [|? ? Hy Ht]; subst.
      assert (Py : 0 <= B2R (daz (fabs y))) by (rewrite B2R_daz_fabs; apply Rabs_pos).
      assert (Pa' : 0 <= B2R (daz acc)) by (rewrite Da; exact Pa).
      destruct (fmaxd_good acc (fabs y) Fa ltac:(rewrite fabs_finite; exact Hy) Pa' Py)
        as (Gm & L1 & L2).
      destruct (IH (fmaxd acc (fabs y)) Ht Gm) as (G2 & L3 & L4).
      split; [exact G2|]. rewrite Da in L1. split; [lra|].
      intros x [<-|Hin]; [rewrite B2R_daz_fabs in L2; lra|apply L4, Hin]. }
  assert (G0 : good_max fzero) by (repeat split; simpl; lra).
  destruct (G xs fzero Hf G0) as (A & _ & C). split; assumption.
Qed.
