(* C11/F32Proofs.v — theorems about the bit-exact binary32 model (C11/Model.v).
   Through Flocq: inherits the stdlib real axioms (sig_not_dec, sig_forall_dec,
   functional_extensionality_dep, classic). *)
From Coq Require Import ZArith List Bool Reals Lia Lra Psatz.
From Flocq Require Import Core Relative.
From Flocq Require Import IEEE754.BinarySingleNaN.
From Precond Require Import C11.F32 C11.F32Basics C11.F32Ops C11.Model.
Import ListNotations.
Open Scope R_scope.

(* ---------------------------------------------------------------------------------------- *)
(* zeros *)
Lemma to_int_sat_zero lo hi s : (lo <= 0 <= hi)%Z -> to_int_sat lo hi (frne (ftz (B754_zero s : f32))) = 0%Z.
Proof. intros H. simpl. lia. Qed.

Lemma quant1_zero rr N bnz s : (0 <= N)%Z -> quant1 rr N bnz (B754_zero s) = 0%Z.
Proof.
  intro HN. unfold quant1, fdivx. destruct rr.
  - unfold fmul. generalize (fdiv fone bnz). intro c. simpl (daz (B754_zero s)).
    destruct (daz c) as [t|t| |t m e H]; simpl; lia.
  - unfold fdiv. simpl (daz (B754_zero s)).
    destruct (daz bnz) as [t|t| |t m e H]; simpl; lia.
Qed.

Lemma of_Z_0 : exists s, of_Z 0 = B754_zero s.
Proof.
  destruct (of_Z_correct 0 ltac:(lia)) as (Hr & Hf). apply finite_B2R_0; assumption.
Qed.

Lemma dequant1_zero b : is_finite b = true -> exists s, dequant1 b 0 = B754_zero s.
Proof.
  intro Hb. unfold dequant1, fmul. destruct of_Z_0 as (s & ->). simpl (daz (B754_zero s)).
  assert (Hd : is_finite (daz b) = true) by (rewrite daz_finite; exact Hb).
  destruct (daz b) as [t|t| |t m e H]; try discriminate; simpl; eexists; reflexivity.
Qed.

(* zeros are stored as 0 and come back as a zero *)
Theorem zero_exact_f32_lemma : forall rr N bnz b s,
  (0 <= N)%Z -> is_finite b = true ->
  quant1 rr N bnz (B754_zero s) = 0%Z /\
  B2R (dequant1 b (quant1 rr N bnz (B754_zero s))) = 0.
Proof.
  intros rr N bnz b s HN Hb. rewrite quant1_zero by exact HN. split; [reflexivity|].
  destruct (dequant1_zero b Hb) as (t & ->). reflexivity.
Qed.

(* ---------------------------------------------------------------------------------------- *)
(* extracted diagonal: x - x = 0 is stored as 0, de-quantizes to a zero, and 0 + d = d *)
Lemma fsub_self d : is_finite d = true -> exists s, fsub d d = B754_zero s.
Proof.
  intro Hd. unfold fsub.
  assert (Fd : is_finite (daz d) = true) by (rewrite daz_finite; exact Hd).
  pose proof (Bminus_correct 24 128 _ _ mode_NE (daz d) (daz d) Fd Fd) as H.
  replace (B2R (daz d) - B2R (daz d)) with 0 in H by ring.
  rewrite round_0 in H by apply valid_rnd_round_mode.
  rewrite Rabs_R0, Rlt_bool_true in H by apply bpow_gt_0.
  destruct H as (Hr & Hf & _).
  destruct (finite_B2R_0 _ Hf Hr) as (s & ->). exists s. reflexivity.
Qed.

Theorem diag_entry_exact_f32_lemma : forall rr N bnz b d,
  (0 <= N)%Z -> is_finite b = true -> is_finite d = true ->
  let res := fadd (dequant1 b (quant1 rr N bnz (fsub d d))) d in
  quant1 rr N bnz (fsub d d) = 0%Z /\
  B2R res = B2R (daz d) /\
  (is_subnormal d = false -> B2R res = B2R d /\ (B2R d <> 0 -> res = d)).
Proof.
  intros rr N bnz b d HN Hb Hd res. subst res.
  destruct (fsub_self d Hd) as (s & ->). rewrite quant1_zero by exact HN.
  split; [reflexivity|].
  destruct (dequant1_zero b Hb) as (t & ->).
  assert (E : B2R (fadd (B754_zero t) d) = B2R (daz d) /\
              (B2R (daz d) <> 0 -> fadd (B754_zero t) d = daz d)).
  { unfold fadd. simpl (daz (B754_zero t)).
    assert (Fd : is_finite (daz d) = true) by (rewrite daz_finite; exact Hd).
    destruct (daz d) as [u|u| |u m e H] eqn:Ed; try discriminate.
    - simpl. split; [destruct (Bool.eqb t u); reflexivity|intro; lra].
    - simpl Bplus. rewrite <- Ed. rewrite ftz_idem. split; [reflexivity|reflexivity]. }
  destruct E as (E1 & E2). split; [exact E1|]. intro Hs.
  assert (Ed : daz d = d).
  { destruct d as [u|u| |u m e H]; try reflexivity. simpl in Hs. unfold daz, ftz. rewrite Hs. reflexivity. }
  rewrite Ed in *. split; [exact E1|exact E2].
Qed.
