(* C11/F32HalfBucket.v — de-quantization error of the binary32 model: at most half a bucket plus
   the stated rounding of the three float32 operations, outside the flush / overflow regions. *)
From Coq Require Import ZArith List Bool Reals Lia Lra Psatz.
From Flocq Require Import Core Relative.
From Flocq Require Import IEEE754.BinarySingleNaN.
From Precond Require Import C11.F32 C11.F32Basics C11.F32Ops C11.Model C11.F32NoWrap.
Import ListNotations.
Open Scope R_scope.

Lemma eta_le_minnorm : eta <= minnorm.
Proof. rewrite eta_minnorm, uro_val. pose proof minnorm_pos. lra. Qed.

(* rounding followed by flush: absolute error *)
Lemma ftz_rnd_err r t : ftz_of r (rnd32 t) -> Rabs (r - t) <= uro * Rabs t + 2 * minnorm.
Proof.
  pose proof eta_le_minnorm as He. pose proof minnorm_pos as Mp.
  intros [[-> _]|[-> Hs]].
  - pose proof (rnd32_err t). lra.
  - pose proof (rnd32_abs_lb t) as Hl.
    replace (0 - t) with (- t) by ring. rewrite Rabs_Ropp.
    set (a := Rabs t) in *. replace (a * (1 - uro)) with (a - uro * a) in Hl by ring. lra.
Qed.

Lemma ftz_of_zero_val r : ftz_of r (rnd32 0) -> r = 0.
Proof.
  rewrite round_0 by apply valid_rnd_round_mode. intros [[-> _]|[-> _]]; reflexivity.
Qed.

Section HalfBucket.
  Variable N : Z.
  Hypothesis HN : (127 <= N <= 32767)%Z.
  Let Nr := IZR N.
  Variable xs : list f32.
  Hypothesis Hfin : Forall (fun x => is_finite x = true) xs.
  Variables rb rr : bool.
  Let b := bucket rb N xs.
  Let B := B2R b.
  Let bnz := bucket_nz b.
  Hypothesis HB2 : 2 * minnorm <= B.
  Hypothesis HNB : Nr * B <= bpow radix2 127.

  Let HNr : 127 <= Nr <= 32767.
  Proof. unfold Nr. split; apply IZR_le; lia. Qed.
  Let Bpos : 0 < B.
  Proof. pose proof minnorm_pos. lra. Qed.

  Lemma bnz_is_b : bnz = b.
  Proof. destruct (bucket_nz_spec N HN xs Hfin rb) as (H & _). apply H. exact Bpos. Qed.

  (* |X'| / B <= Nr (1 + 8u) *)
  Lemma rho_bound x : In x xs -> Rabs (B2R (daz x)) * / B <= Nr * (1 + 8 * uro).
  Proof.
    intro Hin. destruct (m_spec xs Hfin) as (_ & _ & _ & _ & UX). specialize (UX x Hin).
    destruct (bucket_spec N HN xs Hfin rb) as (_ & _ & _ & _ & Hpos & _).
    destruct (Hpos Bpos) as (_ & HM). fold b in HM. fold Nr B in HM.
    apply (Rmult_le_reg_r B); [exact Bpos|].
    replace (Rabs (B2R (daz x)) * / B * B) with (Rabs (B2R (daz x))) by (field; lra).
    replace (Nr * (1 + 8 * uro) * B) with (Nr * B * (1 + 8 * uro)) by ring. lra.
  Qed.

  Lemma ratio_err x : In x xs ->
    let X' := B2R (daz x) in
    let r := fdivx rr x b in
    is_finite r = true /\
    Rabs (B2R r - X' / B) <= (2 * uro + uro * uro) * (Rabs X' * / B) + 2 * minnorm /\
    (X' = 0 -> B2R r = 0).
  Proof.
    intros Hin X' r. subst r.
    assert (Fx : is_finite x = true) by (rewrite Forall_forall in Hfin; apply Hfin, Hin).
    pose proof (rho_bound x Hin) as Hrho. fold X' in Hrho.
    destruct (bucket_spec N HN xs Hfin rb) as (Fb & Db & PB & UB & Hpos & _).
    fold b in Fb, Db. fold b B in PB, UB, Hpos.
    destruct (Hpos Bpos) as (Bn & _).
    pose proof uro_val as Uv. pose proof minnorm_val as Mv. pose proof minnorm_pos as Mp.
    destruct bpow_vals as (B128 & B127 & B122).
    destruct fone_correct as (H1 & F1).
    assert (D1 : B2R (daz fone) = 1) by (apply (daz_of_Z 1); lia).
    assert (Hu : 0 < uro) by apply uro_pos.
    assert (HiB : 0 < / B) by (apply Rinv_0_lt_compat; exact Bpos).
    assert (Hrho0 : 0 <= Rabs X' * / B) by (apply Rmult_le_pos; [apply Rabs_pos|lra]).
    assert (HXB1 : Rabs (X' / B) = Rabs X' * / B).
    { unfold Rdiv. rewrite Rabs_mult, Rabs_inv, (Rabs_pos_eq B) by lra. reflexivity. }
    assert (Hbig : Nr * (1 + 8 * uro) * (1 + uro) <= bpow radix2 127).
    { rewrite B127. assert (Nr * (1 + 8 * uro) * (1 + uro) <= 32767 * (1 + 8 * uro) * (1 + uro)).
      { apply Rmult_le_compat_r; [lra|]. apply Rmult_le_compat_r; lra. }
      rewrite Uv in H |- *. lra. }
    unfold fdivx. destruct rr.
    - (* x * fl(1/b) *)
      destruct (fdiv_correct fone b F1 Fb) as (Fc & Hc).
      { rewrite Db. fold B. lra. }
      { rewrite D1, Db. fold B. unfold Rdiv. rewrite Rmult_1_l, Rabs_pos_eq by lra.
        assert (/ B <= / minnorm) by (apply Rinv_le_contravar; [exact Mp|exact Bn]).
        rewrite B127. rewrite Mv in H. rewrite Rinv_inv in H. lra. }
      rewrite D1, Db in Hc. fold B in Hc. unfold Rdiv in Hc. rewrite Rmult_1_l in Hc.
      set (cb := fdiv fone b) in *. set (Cb := B2R cb) in *.
      assert (Dcb : daz cb = cb) by (unfold cb, fdiv; apply ftz_idem).
      (* 1/B is in the normal range: purely relative error, not flushed *)
      assert (HiBn : 16 * minnorm <= / B).
      { assert (/ bpow radix2 122 <= / B) by (apply Rinv_le_contravar; [exact Bpos|exact UB]).
        rewrite B122 in H. rewrite Mv. lra. }
      pose proof (rnd32_rel (/ B)) as Hrel. rewrite (Rabs_pos_eq (/ B)) in Hrel by lra.
      specialize (Hrel ltac:(lra)).
      assert (HCb : Cb = rnd32 (/ B)).
      { destruct Hc as [[E _]|[_ Hs]]; [exact E|]. exfalso.
        apply Rabs_le_inv in Hrel.
        assert (/ B * (1 - uro) <= rnd32 (/ B)) by lra.
        assert (minnorm <= rnd32 (/ B)) by (rewrite Uv in H; nra).
        rewrite Rabs_pos_eq in Hs by lra. lra. }
      rewrite <- HCb in Hrel.
      set (t := X' * Cb).
      assert (Ht1 : Rabs (t - X' / B) <= uro * (Rabs X' * / B)).
      { unfold t. replace (X' * Cb - X' / B) with (X' * (Cb - / B)) by (unfold Rdiv; ring).
        rewrite Rabs_mult. replace (uro * (Rabs X' * / B)) with (Rabs X' * (uro * / B)) by ring.
        apply Rmult_le_compat_l; [apply Rabs_pos|exact Hrel]. }
      assert (Ht2 : Rabs t <= Rabs X' * / B * (1 + uro)).
      { pose proof (Rabs_triang (X' / B) (t - X' / B)) as H.
        replace (X' / B + (t - X' / B)) with t in H by ring. rewrite HXB1 in H. lra. }
      destruct (fmul_correct x cb Fx Fc) as (Fr & Hr).
      { fold X'. rewrite Dcb. fold Cb. fold t.
        apply Rle_trans with (Nr * (1 + 8 * uro) * (1 + uro)); [|exact Hbig].
        apply Rle_trans with (Rabs X' * / B * (1 + uro)); [exact Ht2|].
        apply Rmult_le_compat_r; lra. }
      fold X' in Hr. rewrite Dcb in Hr. fold Cb in Hr. fold t in Hr.
      split; [exact Fr|]. split.
      + pose proof (ftz_rnd_err _ _ Hr) as He.
        pose proof (Rabs_triang (B2R (fmul x cb) - t) (t - X' / B)) as Htri.
        replace (B2R (fmul x cb) - t + (t - X' / B)) with (B2R (fmul x cb) - X' / B) in Htri by ring.
        assert (uro * Rabs t <= uro * (Rabs X' * / B * (1 + uro))) by (apply Rmult_le_compat_l; lra).
        set (q := Rabs X' * / B) in *. 
        replace ((2 * uro + uro * uro) * q) with (uro * (q * (1 + uro)) + uro * q) by ring. lra.
      + intro Hz. apply ftz_of_zero_val. replace t with 0 in Hr; [exact Hr|]. unfold t. rewrite Hz. ring.
    - (* x / b *)
      destruct (fdiv_correct x b Fx Fb) as (Fr & Hr).
      { rewrite Db. fold B. lra. }
      { fold X'. rewrite Db. fold B. rewrite HXB1.
        apply Rle_trans with (Nr * (1 + 8 * uro) * (1 + uro)); [|exact Hbig].
        apply Rle_trans with (Nr * (1 + 8 * uro)); [exact Hrho|].
        rewrite <- (Rmult_1_r (Nr * (1 + 8 * uro))) at 1. apply Rmult_le_compat_l; lra. }
      fold X' in Hr. rewrite Db in Hr. fold B in Hr.
      split; [exact Fr|]. split.
      + pose proof (ftz_rnd_err _ _ Hr) as He. rewrite HXB1 in He.
        set (q := Rabs X' * / B) in *.
        assert (0 <= uro * uro * q) by (apply Rmult_le_pos; [nra|exact Hrho0]).
        replace ((2 * uro + uro * uro) * q) with (uro * q + uro * q + uro * uro * q) by ring.
        assert (0 <= uro * q) by (apply Rmult_le_pos; lra). lra.
      + intro Hz. apply ftz_of_zero_val. replace (X' / B) with 0 in Hr; [exact Hr|].
        rewrite Hz. unfold Rdiv. ring.
  Qed.

  (* q * bucket: purely relative error, never flushed *)
  Lemma dequant_err z : (- N <= z <= N)%Z ->
    Rabs (B2R (dequant1 b z) - IZR z * B) <= uro * Nr * B /\ (z = 0%Z -> B2R (dequant1 b z) = 0).
  Proof.
    intro Hz.
    destruct (bucket_spec N HN xs Hfin rb) as (Fb & Db & _). fold b in Fb, Db.
    pose proof uro_val as Uv. pose proof minnorm_pos as Mp. assert (Hu : 0 < uro) by apply uro_pos.
    assert (Hzs : (Z.abs z < 16777216)%Z) by lia.
    destruct (of_Z_correct z Hzs) as (_ & Fz). pose proof (daz_of_Z z Hzs) as Dz.
    assert (Hza : Rabs (IZR z) <= Nr).
    { rewrite <- abs_IZR. unfold Nr. apply IZR_le. lia. }
    assert (HzB : Rabs (IZR z * B) <= Nr * B).
    { rewrite Rabs_mult, (Rabs_pos_eq B) by lra. apply Rmult_le_compat_r; lra. }
    unfold dequant1.
    destruct (fmul_correct (of_Z z) b Fz Fb) as (Fd & Hd).
    { rewrite Dz, Db. fold B. lra. }
    rewrite Dz, Db in Hd. fold B in Hd.
    destruct (Z.eq_dec z 0) as [->|Hnz].
    - replace (0 * B) with 0 in * by ring. pose proof (ftz_of_zero_val _ Hd) as E. rewrite E.
      split; [|intros _; reflexivity]. replace (0 - 0) with 0 by ring. rewrite Rabs_R0.
      apply Rmult_le_pos; [apply Rmult_le_pos; lra|lra].
    - split; [|intro; contradiction].
      assert (H1 : 1 <= Rabs (IZR z)) by (rewrite <- abs_IZR; apply IZR_le; lia).
      assert (Hn : 2 * minnorm <= Rabs (IZR z * B)).
      { rewrite Rabs_mult, (Rabs_pos_eq B) by lra.
        apply Rle_trans with (1 * B); [lra|]. apply Rmult_le_compat_r; lra. }
      pose proof (rnd32_rel (IZR z * B) ltac:(lra)) as Hrel.
      assert (Hv : B2R (fmul (of_Z z) b) = rnd32 (IZR z * B)).
      { destruct Hd as [[E _]|[_ Hs]]; [exact E|]. exfalso.
        pose proof (Rabs_triang_inv (IZR z * B) (IZR z * B - rnd32 (IZR z * B))) as Ht.
        replace (IZR z * B - (IZR z * B - rnd32 (IZR z * B))) with (rnd32 (IZR z * B)) in Ht by ring.
        rewrite (Rabs_minus_sym (IZR z * B)) in Ht.
        set (a := Rabs (IZR z * B)) in *.
        assert (uro * a <= a / 2) by (rewrite Uv; lra). lra. }
      rewrite Hv. apply Rle_trans with (uro * Rabs (IZR z * B)); [exact Hrel|].
      rewrite Rmult_assoc. apply Rmult_le_compat_l; lra.
  Qed.

  Lemma final_hb q :
    0 <= q <= Nr * (1 + 8 * uro) ->
    (2 * uro + uro * uro) * q + 2 * minnorm + / 2 + uro * Nr <= / 2 + (3 * Nr + 2) * uro.
  Proof.
    intros Hq. pose proof uro_val as Uv. pose proof minnorm_val as Mv.
    assert (Hu : 0 < uro) by apply uro_pos.
    assert (H1 : (2 * uro + uro * uro) * q <= (2 * uro + uro * uro) * (Nr * (1 + 8 * uro))).
    { apply Rmult_le_compat_l; [nra|lra]. }
    assert (H2 : (2 * uro + uro * uro) * (Nr * (1 + 8 * uro)) = 2 * uro * Nr + Nr * (uro * uro * (17 + 8 * uro))) by ring.
    assert (H3 : Nr * (uro * uro * (17 + 8 * uro)) <= 32767 * (uro * uro * (17 + 8 * uro))).
    { apply Rmult_le_compat_r; [|lra]. rewrite Uv. lra. }
    assert (H4 : 32767 * (uro * uro * (17 + 8 * uro)) + 2 * minnorm <= 2 * uro) by (rewrite Uv, Mv; lra).
    lra.
  Qed.

  Theorem half_bucket_f32_sec x : In x xs ->
    Rabs (B2R x - B2R (dequant1 b (quant1 rr N bnz x))) <= B * (/ 2 + IZR (3 * N + 2) * uro).
  Proof.
    intro Hin. rewrite bnz_is_b.
    assert (Fx : is_finite x = true) by (rewrite Forall_forall in Hfin; apply Hfin, Hin).
    destruct (ratio_err x Hin) as (Fr & Herr & Hzero). cbv zeta in Herr, Hzero.
    pose proof (ratio_bound N HN xs Hfin rb rr x Hin) as (_ & Hrb).
    rewrite (proj1 (bucket_nz_spec N HN xs Hfin rb) Bpos) in Hrb. fold b in Hrb.
    set (r := fdivx rr x b) in *. set (R0 := B2R r) in *. set (X' := B2R (daz x)) in *.
    destruct (frne_spec r Fr) as (z & Hz & Hhalf & Fz). fold R0 in Hhalf.
    pose proof (int_of_near z N R0 Hhalf Hrb) as Hzn.
    assert (Hq : quant1 rr N b x = z).
    { unfold quant1. fold r. apply to_int_sat_spec; [exact Fz|exact Hz|lia]. }
    rewrite Hq. destruct (dequant_err z Hzn) as (Hd & Hd0).
    set (D := B2R (dequant1 b z)) in *.
    assert (E3 : IZR (3 * N + 2) = 3 * Nr + 2) by (rewrite plus_IZR, mult_IZR; reflexivity).
    rewrite E3.
    pose proof (rho_bound x Hin) as Hrho. fold X' in Hrho.
    assert (HiB : 0 < / B) by (apply Rinv_0_lt_compat; exact Bpos).
    assert (Hrho0 : 0 <= Rabs X' * / B) by (apply Rmult_le_pos; [apply Rabs_pos|lra]).
    pose proof (final_hb _ (conj Hrho0 Hrho)) as Hfin2.
    pose proof minnorm_pos as Mp. assert (Hu : 0 < uro) by apply uro_pos.
    (* subnormal entry or not *)
    pose proof (ftz_of_intro x Fx) as Hx. change (B2R (ftz x)) with X' in Hx.
    destruct Hx as [[EX _]|[EX0 HXs]].
    - (* X' = X *)
      rewrite <- EX.
      pose proof (Rabs_triang (X' - IZR z * B) (IZR z * B - D)) as Htri.
      replace (X' - IZR z * B + (IZR z * B - D)) with (X' - D) in Htri by ring.
      rewrite (Rabs_minus_sym (IZR z * B) D) in Htri.
      assert (E1 : X' - IZR z * B = B * (X' / B - IZR z)) by (field; lra).
      assert (H1 : Rabs (X' - IZR z * B) <= B * ((2 * uro + uro * uro) * (Rabs X' * / B) + 2 * minnorm + / 2)).
      { rewrite E1, Rabs_mult, (Rabs_pos_eq B) by lra. apply Rmult_le_compat_l; [lra|].
        pose proof (Rabs_triang (X' / B - R0) (R0 - IZR z)) as Ht2.
        replace (X' / B - R0 + (R0 - IZR z)) with (X' / B - IZR z) in Ht2 by ring.
        rewrite (Rabs_minus_sym (X' / B) R0), (Rabs_minus_sym R0 (IZR z)) in Ht2. lra. }
      apply Rle_trans with (B * ((2 * uro + uro * uro) * (Rabs X' * / B) + 2 * minnorm + / 2) + uro * Nr * B);
        [lra|].
      replace (B * ((2 * uro + uro * uro) * (Rabs X' * / B) + 2 * minnorm + / 2) + uro * Nr * B)
        with (B * ((2 * uro + uro * uro) * (Rabs X' * / B) + 2 * minnorm + / 2 + uro * Nr)) by ring.
      apply Rmult_le_compat_l; lra.
    - (* subnormal entry, read as zero: stored 0, comes back 0; |X| < 2^-126 <= bucket / 2 *)
      assert (R0 = 0) by (apply Hzero; exact EX0).
      assert (z = 0%Z).
      { rewrite H, Rminus_0_r in Hhalf. apply Rabs_le_inv in Hhalf.
        assert (IZR (-1) < IZR z < IZR 1) by (simpl; lra).
        destruct H0 as [A1 A2]. apply lt_IZR in A1, A2. lia. }
      rewrite (Hd0 H0), Rminus_0_r.
      apply Rle_trans with (B * / 2); [lra|]. apply Rmult_le_compat_l; [lra|].
      assert (0 <= (3 * Nr + 2) * uro) by (apply Rmult_le_pos; lra). lra.
  Qed.
End HalfBucket.

Theorem half_bucket_f32_lemma : forall (N : Z), (127 <= N <= 32767)%Z ->
  forall (xs : list f32), Forall (fun x => is_finite x = true) xs ->
  forall (rb rr : bool) (x : f32), In x xs ->
  let b := bucket rb N xs in
  2 * minnorm <= B2R b ->
  IZR N * B2R b <= bpow radix2 127 ->
  Rabs (B2R x - B2R (dequant1 b (quant1 rr N (bucket_nz b) x)))
    <= B2R b * (/ 2 + IZR (3 * N + 2) * uro).
Proof.
  intros N HN xs Hfin rb rr x Hin b H1 H2.
  apply (half_bucket_f32_sec N HN xs Hfin rb rr H1 H2 x Hin).
Qed.
