(* C11/QModel.v — real-number model of quantization over Q (definitions only):
     bucket b = m / N  (m = column max-abs, N = 127 for int8, 32767 for int16),
     q = round-half-even(x / b')  with b' = b if b > 0 else 1,   deq = q * b. *)
From Coq Require Import ZArith List Bool QArith Qround Qabs Qminmax.
Import ListNotations.
Open Scope Q_scope.

(* round half to even *)
Definition rne (x : Q) : Z :=
  let f := Qfloor x in
  match Qcompare (x - inject_Z f)%Q (1 # 2)%Q with
  | Lt => f
  | Gt => (f + 1)%Z
  | Eq => if Z.even f then f else (f + 1)%Z
  end.

Definition qabs_max (l : list Q) : Q := fold_right (fun x m => Qmax (Qabs x) m) 0 l.

Definition qbucket (N : Z) (xs : list Q) : Q := qabs_max xs / inject_Z N.
Definition qbucket_nz (b : Q) : Q := if Qle_bool b 0 then 1 else b.
Definition qquant (bnz x : Q) : Z := rne (x / bnz).
Definition qdeq (b : Q) (q : Z) : Q := inject_Z q * b.

Definition qquantize_col (N : Z) (xs : list Q) : list Z * Q :=
  let b := qbucket N xs in (map (qquant (qbucket_nz b)) xs, b).
Definition qto_float_col (b : Q) (qs : list Z) : list Q := map (qdeq b) qs.

(* extract_diagonal on an n x n matrix given as an index function *)
Section Diag.
  Variable n : nat.
  Variable M : nat -> nat -> Q.
  Variable N : Z.
  Definition offd (i j : nat) : Q := if Nat.eqb i j then 0 else M i j.
  Definition colj (j : nat) : list Q := map (fun i => offd i j) (seq 0 n).
  Definition diag_bucket (j : nat) : Q := qbucket N (colj j).
  Definition diag_q (i j : nat) : Z := qquant (qbucket_nz (diag_bucket j)) (offd i j).
  Definition diag_to_float (i j : nat) : Q :=
    qdeq (diag_bucket j) (diag_q i j) + (if Nat.eqb i j then M i i else 0).
End Diag.
