(* C11/Refuted.v — the full (unconditional) half-bucket statement is FALSE of the faithful binary32
   model in three regions; witnesses by vm_compute on the executable model, with the exact rational
   value of each float.  The same inputs are replayed on the implementation (corpus/C11). *)
From Coq Require Import ZArith List Bool QArith Qabs.
From Flocq Require Import IEEE754.BinarySingleNaN.
From Precond Require Import C11.F32 C11.Model.
Import ListNotations.
Open Scope Z_scope.

(* exact rational value of a finite binary32 number (0 for inf / nan) *)
Definition f32_to_Q (x : f32) : Q :=
  match x with
  | B754_finite s m e _ =>
      let z := if s then Z.neg m else Z.pos m in
      if 0 <=? e then inject_Z (z * 2 ^ e) else Qmake z (Z.to_pos (2 ^ (- e)))
  | _ => 0%Q
  end.

(* slack of theorem half_bucket_f32 / of the implementation-side oracle: 1/2 + (3N+2) * 2^-24 *)
Definition hb_slack (N : Z) : Q := ((1 # 2) + inject_Z (3 * N + 2) * (1 # 16777216))%Q.

(* |x - deq| <= bucket * slack, decided exactly; a non-finite de-quantized value fails *)
Definition half_bucket_okb (rb rr : bool) (N : Z) (xs : list f32) : bool :=
  let '(qs, b) := quantize_col rb rr N xs in
  forallb (fun '(x, d) =>
             is_fin d &&
             Qle_bool (Qabs (f32_to_Q x - f32_to_Q d)) (f32_to_Q b * hb_slack N))
          (combine xs (to_float_col b qs)).

Definition all_finite (xs : list f32) : bool := forallb is_fin xs.

(* D12a: column (126 * 2^-126, 2^-126), int8: max/127 underflows, bucket flushed to 0 *)
Lemma refuted_bucket_underflow :
  let xs := map of_bits [66846720; 8388608] in
  all_finite xs = true /\ half_bucket_okb true true 127 xs = false /\
  to_bits (snd (quantize_col true true 127 xs)) = 0 /\
  fst (quantize_col true true 127 xs) = [0; 0].
Proof. vm_compute. repeat split; reflexivity. Qed.

(* D12b: column (127 * 2^-126, 1.5 * 2^-127): bucket 2^-126 is fine, but the subnormal entry is
   read as zero although it exceeds half a bucket *)
Lemma refuted_subnormal_entry :
  let xs := map of_bits [66977792; 6291456] in
  all_finite xs = true /\ half_bucket_okb true true 127 xs = false /\
  to_bits (snd (quantize_col true true 127 xs)) = 8388608 /\
  fst (quantize_col true true 127 xs) = [127; 0].
Proof. vm_compute. repeat split; reflexivity. Qed.

(* D13: column (FLT_MAX): 127 * fl(FLT_MAX / 127) rounds to +inf *)
Lemma refuted_overflow :
  let xs := map of_bits [2139095039] in
  all_finite xs = true /\ half_bucket_okb false false 127 xs = false /\
  map to_bits (to_float_col (snd (quantize_col false false 127 xs))
                            (fst (quantize_col false false 127 xs))) = [2139095040].
Proof. vm_compute. repeat split; reflexivity. Qed.

(* sanity: the checker accepts ordinary columns (so `false` above is meaningful) *)
Lemma half_bucket_okb_example :
  half_bucket_okb true true 127 (map of_bits [1065353216; 3225419776; 0; 1036831949]) = true /\
  half_bucket_okb false true 32767 (map of_bits [1065353216; 3225419776; 0; 1036831949]) = true.
Proof. vm_compute. split; reflexivity. Qed.
