(* C11/Check.v — boolean comparators for the bit-exact correspondence: model output against the
   integers / bit patterns observed on the implementation.  Definitions only. *)
From Coq Require Import ZArith List Bool.
From Precond Require Import C11.F32 C11.Model.
Import ListNotations.
Open Scope Z_scope.

Fixpoint zeqb_list (a b : list Z) : bool :=
  match a, b with
  | [], [] => true
  | x :: s, y :: t => (x =? y) && zeqb_list s t
  | _, _ => false
  end.

(* normal column: inputs as bit patterns; observed integers, bucket bits, dequantized bits *)
Definition chk_col (rb rr : bool) (N : Z) (xs qs : list Z) (bb : Z) (deq : list Z) : bool :=
  let '(mq, mb) := quantize_col rb rr N (map of_bits xs) in
  zeqb_list mq qs && (to_bits mb =? bb) &&
  zeqb_list (map to_bits (to_float_col mb mq)) deq.

Definition chk_diagcol (rb rr : bool) (N j : Z) (xs qs : list Z) (bb : Z) (deq : list Z) : bool :=
  let fx := map of_bits xs in
  let '(mq, mb) := quantize_diagcol rb rr N j fx in
  let d := nth (Z.to_nat j) fx fzero in
  zeqb_list mq qs && (to_bits mb =? bb) &&
  zeqb_list (map to_bits (to_float_diagcol j d mb mq)) deq.

(* the model's own outputs, for diagnostics / replay *)
Definition run_col (rb rr : bool) (N : Z) (xs : list Z) : list Z * Z * list Z :=
  let '(mq, mb) := quantize_col rb rr N (map of_bits xs) in
  (mq, to_bits mb, map to_bits (to_float_col mb mq)).

Definition run_diagcol (rb rr : bool) (N j : Z) (xs : list Z) : list Z * Z * list Z :=
  let fx := map of_bits xs in
  let '(mq, mb) := quantize_diagcol rb rr N j fx in
  let d := nth (Z.to_nat j) fx fzero in
  (mq, to_bits mb, map to_bits (to_float_diagcol j d mb mq)).

Definition chk_bf16 (xs outs : list Z) : bool := zeqb_list (map bf16_round_bits xs) outs.
