(* C11/Bf16Proofs.v — the bfloat16 "quantization" mode is a plain cast: rounding the binary32 bit
   pattern to its upper 16 bits (nearest, ties to even).  The cast is idempotent: re-quantizing a
   de-quantized bfloat16 value changes nothing.  Pure integer arithmetic, axiom-free. *)
From Coq Require Import ZArith Bool Lia ZifyBool.
From Precond Require Import C11.Model.
Open Scope Z_scope.

Lemma bf16_round_multiple z : exists k, bf16_round_bits z = k * 65536.
Proof.
  unfold bf16_round_bits. destruct (is_nan_bits z).
  - exists ((z / 2147483648) * 32768 + 32704). lia.
  - eexists; reflexivity.
Qed.

Lemma bf16_round_fixpoint k :
  is_nan_bits (k * 65536) = false -> bf16_round_bits (k * 65536) = k * 65536.
Proof.
  intro H. unfold bf16_round_bits. rewrite H.
  rewrite Z.div_mul by lia.
  assert (0 <= k mod 2 < 2) by (apply Z.mod_pos_bound; lia).
  replace (k * 65536 + 32767 + k mod 2) with ((32767 + k mod 2) + k * 65536) by lia.
  rewrite Z.div_add by lia. rewrite Z.div_small by lia. lia.
Qed.

Theorem bf16_requantize_fixed_lemma z :
  is_nan_bits (bf16_round_bits z) = false ->
  bf16_round_bits (bf16_round_bits z) = bf16_round_bits z.
Proof.
  intro H. destruct (bf16_round_multiple z) as (k & E). rewrite E in *.
  apply bf16_round_fixpoint, H.
Qed.
