(* C11/F32NoWrap.v — the stored integer never leaves [-N, N] (binary32 model, both division
   variants), for N between 127 (int8) and 32767 (int16). *)
From Coq Require Import ZArith List Bool Reals Lia Lra Psatz.
From Flocq Require Import Core Relative.
From Flocq Require Import IEEE754.BinarySingleNaN.
From Precond Require Import C11.F32 C11.F32Basics C11.F32Ops C11.Model.
Import ListNotations.
Open Scope R_scope.

Lemma bpow_vals :
  bpow radix2 128 = 340282366920938463463374607431768211456 /\
  bpow radix2 127 = 170141183460469231731687303715884105728 /\
  bpow radix2 122 = 5316911983139663491615228241121378304.
Proof. repeat split; simpl; lra. Qed.

Lemma minnorm_val : minnorm = / 85070591730234615865843651857942052864.
Proof. unfold minnorm. simpl. lra. Qed.

Lemma eta_le_u_minnorm : eta = uro * minnorm.
Proof. apply eta_minnorm. Qed.

(* ---------------- real-number chains (no floats) ---------------- *)
Lemma chain_lower t k V :
  0 <= t -> 1 - 2 * uro <= k -> minnorm <= V ->
  t * k * (1 - uro) - eta <= V ->
  t <= V * (1 + 8 * uro).
Proof.
  intros Ht Hk HV H. pose proof uro_val as Uv. pose proof minnorm_pos as Mp.
  assert (Hu : 0 < uro < / 1000) by (rewrite Uv; lra).
  assert (He : eta <= uro * V) by (rewrite eta_minnorm; apply Rmult_le_compat_l; lra).
  assert (H1 : t * k * (1 - uro) <= V * (1 + uro)) by lra.
  assert (H2 : t * (1 - 3 * uro) <= t * k * (1 - uro)).
  { assert (1 - 3 * uro <= k * (1 - uro)) by nra.
    replace (t * k * (1 - uro)) with (t * (k * (1 - uro))) by ring.
    apply Rmult_le_compat_l; assumption. }
  assert (H3 : V * (1 + uro) <= V * (1 + 8 * uro) * (1 - 3 * uro)).
  { replace (V * (1 + 8 * uro) * (1 - 3 * uro)) with (V * ((1 + 8 * uro) * (1 - 3 * uro))) by ring.
    apply Rmult_le_compat_l; [lra|]. nra. }
  apply (Rmult_le_reg_r (1 - 3 * uro)); lra.
Qed.

Lemma chain_zero t k :
  0 <= t -> 1 - 2 * uro <= k ->
  t * k * (1 - uro) - eta < minnorm ->
  t <= 2 * minnorm.
Proof.
  intros Ht Hk H. pose proof uro_val as Uv. pose proof minnorm_pos as Mp.
  assert (Hu : 0 < uro < / 1000) by (rewrite Uv; lra).
  assert (He : eta <= / 1000 * minnorm) by (rewrite eta_minnorm; apply Rmult_le_compat_r; lra).
  assert (H2 : t * (1 - 3 * uro) <= t * k * (1 - uro)).
  { assert (1 - 3 * uro <= k * (1 - uro)) by nra.
    replace (t * k * (1 - uro)) with (t * (k * (1 - uro))) by ring.
    apply Rmult_le_compat_l; assumption. }
  assert (H3 : t * (1 - 3 * uro) <= minnorm * (1 + / 1000)) by lra.
  assert (H4 : minnorm * (1 + / 1000) <= 2 * minnorm * (1 - 3 * uro)) by nra.
  apply (Rmult_le_reg_r (1 - 3 * uro)); lra.
Qed.

Lemma scale_N Nr M W : 0 < Nr -> M * / Nr <= W -> M <= Nr * W.
Proof.
  intros HN H. apply (Rmult_le_compat_l Nr) in H; [|lra].
  replace (Nr * (M * / Nr)) with M in H by (field; lra). exact H.
Qed.

Section Bucket.
  Variable N : Z.
  Hypothesis HN : (127 <= N <= 32767)%Z.
  Let Nr := IZR N.
  Let HNr : 127 <= Nr <= 32767.
  Proof. unfold Nr. split; apply IZR_le; lia. Qed.

  Lemma Nf_spec : B2R (daz (of_Z N)) = Nr /\ is_finite (of_Z N) = true.
  Proof.
    split; [apply daz_of_Z; lia|apply of_Z_correct; lia].
  Qed.

  Variable xs : list f32.
  Hypothesis Hfin : Forall (fun x => is_finite x = true) xs.
  Let m := col_maxabs xs.
  Let M := B2R m.

  Lemma m_spec : is_finite m = true /\ 0 <= M /\ daz m = m /\ M < bpow radix2 128 /\
                 forall x, In x xs -> Rabs (B2R (daz x)) <= M.
  Proof.
    pose proof (col_maxabs_spec xs Hfin) as H0.
    change (fold_left fmaxd (map fabs xs) fzero) with m in H0.
    destruct H0 as ((F & P & D) & U). fold M in P, U.
    repeat split; try assumption.
    pose proof (abs_B2R_lt_emax 24 128 m) as H. fold M in H. rewrite Rabs_pos_eq in H; assumption.
  Qed.

  (* reciprocal of N *)
  Lemma recipN_spec : let c := fdiv fone (of_Z N) in
    is_finite c = true /\ daz c = c /\
    / Nr * (1 - 2 * uro) <= B2R c <= / Nr * (1 + 2 * uro).
  Proof.
    intro c. destruct Nf_spec as (HNv & HNf). destruct fone_correct as (H1 & F1).
    assert (D1 : B2R (daz fone) = 1) by (apply (daz_of_Z 1); lia).
    assert (Hinv : / 32767 <= / Nr <= / 127).
    { split; apply Rinv_le_contravar; lra. }
    destruct (fdiv_correct fone (of_Z N) F1 HNf) as (Fc & Hc).
    - rewrite HNv. lra.
    - rewrite D1, HNv. unfold Rdiv. rewrite Rmult_1_l, Rabs_pos_eq by lra.
      destruct bpow_vals as (_ & -> & _). lra.
    - rewrite D1, HNv in Hc. unfold Rdiv in Hc. rewrite Rmult_1_l in Hc.
      pose proof (rnd32_lb (/ Nr) ltac:(lra)) as Hl.
      pose proof (rnd32_abs_ub (/ Nr)) as Hu. rewrite (Rabs_pos_eq (/ Nr)) in Hu by lra.
      pose proof (rnd32_nonneg (/ Nr) ltac:(lra)) as Hp. rewrite (Rabs_pos_eq _ Hp) in Hu.
      pose proof uro_val as Uv. pose proof minnorm_val as Mv. pose proof eta_minnorm as Ev.
      assert (Hsmall : eta <= uro * / Nr) by (rewrite Ev; nra).
      assert (Hbig : minnorm <= rnd32 (/ Nr)) by nra.
      assert (Hcv : B2R c = rnd32 (/ Nr)).
      { destruct Hc as [[E _]|[E Hs]]; [exact E|]. rewrite Rabs_pos_eq in Hs by exact Hp. lra. }
      split; [exact Fc|]. split; [unfold c, fdiv; apply ftz_idem|].
      rewrite Hcv. split; nra.
  Qed.

  (* the bucket *)
  Variable rb : bool.
  Let b := bucket rb N xs.
  Let B := B2R b.

  Lemma bucket_spec :
    is_finite b = true /\ daz b = b /\ 0 <= B /\ B <= bpow radix2 122 /\
    (0 < B -> minnorm <= B /\ M <= Nr * B * (1 + 8 * uro)) /\
    (B = 0 -> M <= 2 * Nr * minnorm).
  Proof.
    destruct m_spec as (Fm & Pm & Dm & Um & _).
    destruct Nf_spec as (HNv & HNf).
    pose proof uro_val as Uv. pose proof minnorm_val as Mv. pose proof eta_minnorm as Ev.
    destruct bpow_vals as (B128 & B127 & B122).
    assert (Hinv : / 32767 <= / Nr <= / 127) by (split; apply Rinv_le_contravar; lra).
    unfold B, b, bucket, fdivx. fold m. destruct rb.
    - (* m * fl(1/N) *)
      destruct recipN_spec as (Fc & Dc & Hc). set (c := fdiv fone (of_Z N)) in *.
      set (C := B2R c) in *.
      assert (HC1 : 0 <= C <= / 127 * (1 + 2 * uro)) by (split; nra).
      assert (HMC0 : M * C <= M * (/ 127 * (1 + 2 * uro))) by nra.
      assert (HMC : 0 <= M * C <= bpow radix2 122).
      { split; [nra|]. rewrite B122. rewrite B128 in Um. rewrite Uv in HMC0. lra. }
      destruct (fmul_correct m c Fm Fc) as (Fb & Hb).
      { rewrite Dm, Dc. fold M C. rewrite Rabs_pos_eq by lra. rewrite B127. rewrite B122 in HMC. lra. }
      rewrite Dm, Dc in Hb. fold M C in Hb.
      pose proof (rnd32_nonneg (M * C) ltac:(lra)) as Hp.
      pose proof (rnd32_lb (M * C) ltac:(lra)) as Hl.
      assert (Hub : rnd32 (M * C) <= bpow radix2 122).
      { pose proof (rnd32_le_bpow (M * C) 122 ltac:(lia)) as H. rewrite !Rabs_pos_eq in H by lra. apply H. lra. }
      split; [exact Fb|]. split; [unfold fmul; apply ftz_idem|].
      assert (HB0 : 0 <= B2R (fmul m c)).
      { destruct Hb as [[-> _]|[-> _]]; lra. }
      split; [exact HB0|]. split.
      { pose proof (ftz_of_abs_le _ _ Hb) as H. rewrite !Rabs_pos_eq in H by lra. lra. }
      split.
      + intro Hpos. destruct (ftz_of_pos _ _ Hb Hpos) as (E & Hn).
        rewrite Rabs_pos_eq in Hn by exact Hp. rewrite E. split; [exact Hn|].
        assert (HM1 : M * / Nr <= rnd32 (M * C) * (1 + 8 * uro)).
        { apply (chain_lower (M * / Nr) (Nr * C) (rnd32 (M * C))).
          - assert (0 <= / Nr) by lra. apply Rmult_le_pos; assumption.
          - assert (Nr * (/ Nr * (1 - 2 * uro)) <= Nr * C) by (apply Rmult_le_compat_l; lra).
            replace (Nr * (/ Nr * (1 - 2 * uro))) with (1 - 2 * uro) in H by (field; lra). exact H.
          - exact Hn.
          - replace (M * / Nr * (Nr * C)) with (M * C) by (field; lra). exact Hl. }
        rewrite Rmult_assoc. apply scale_N; [lra|exact HM1].
      + intro Hz. pose proof (ftz_of_zero _ _ Hb Hz) as Hs. rewrite Rabs_pos_eq in Hs by exact Hp.
        assert (HM1 : M * / Nr <= 2 * minnorm).
        { apply (chain_zero (M * / Nr) (Nr * C)).
          - assert (0 <= / Nr) by lra. apply Rmult_le_pos; assumption.
          - assert (Nr * (/ Nr * (1 - 2 * uro)) <= Nr * C) by (apply Rmult_le_compat_l; lra).
            replace (Nr * (/ Nr * (1 - 2 * uro))) with (1 - 2 * uro) in H by (field; lra). exact H.
          - replace (M * / Nr * (Nr * C)) with (M * C) by (field; lra). lra. }
        replace (2 * Nr * minnorm) with (Nr * (2 * minnorm)) by ring.
        apply scale_N; [lra|exact HM1].
    - (* m / N *)
      assert (HMN : 0 <= M / Nr <= bpow radix2 122).
      { unfold Rdiv. split; [nra|]. assert (M * / Nr <= M * / 127) by nra.
        rewrite B122. rewrite B128 in Um. lra. }
      destruct (fdiv_correct m (of_Z N) Fm HNf) as (Fb & Hb).
      { rewrite HNv. lra. }
      { rewrite Dm, HNv. fold M. rewrite Rabs_pos_eq by lra. rewrite B127. rewrite B122 in HMN. lra. }
      rewrite Dm, HNv in Hb. fold M in Hb.
      pose proof (rnd32_nonneg (M / Nr) ltac:(lra)) as Hp.
      pose proof (rnd32_lb (M / Nr) ltac:(lra)) as Hl.
      assert (Hub : rnd32 (M / Nr) <= bpow radix2 122).
      { pose proof (rnd32_le_bpow (M / Nr) 122 ltac:(lia)) as H. rewrite !Rabs_pos_eq in H by lra. apply H. lra. }
      split; [exact Fb|]. split; [unfold fdiv; apply ftz_idem|].
      assert (HB0 : 0 <= B2R (fdiv m (of_Z N))).
      { destruct Hb as [[-> _]|[-> _]]; lra. }
      split; [exact HB0|]. split.
      { pose proof (ftz_of_abs_le _ _ Hb) as H. rewrite !Rabs_pos_eq in H by lra. lra. }
      split.
      + intro Hpos. destruct (ftz_of_pos _ _ Hb Hpos) as (E & Hn).
        rewrite Rabs_pos_eq in Hn by exact Hp. rewrite E. split; [exact Hn|].
        assert (HM1 : M / Nr <= rnd32 (M / Nr) * (1 + 8 * uro)).
        { apply (chain_lower (M / Nr) 1 (rnd32 (M / Nr))); [lra|pose proof uro_pos; lra|exact Hn|].
          rewrite Rmult_1_r. exact Hl. }
        rewrite Rmult_assoc. apply scale_N; [lra|exact HM1].
      + intro Hz. pose proof (ftz_of_zero _ _ Hb Hz) as Hs. rewrite Rabs_pos_eq in Hs by exact Hp.
        assert (HM1 : M / Nr <= 2 * minnorm).
        { apply (chain_zero (M / Nr) 1); [lra|pose proof uro_pos; lra|]. rewrite Rmult_1_r. lra. }
        replace (2 * Nr * minnorm) with (Nr * (2 * minnorm)) by ring.
        apply scale_N; [lra|exact HM1].
  Qed.
End Bucket.

(* ---------------- rounding to an integer and conversion ---------------- *)
Lemma round_FIX0 rnd x : round radix2 (FIX_exp 0) rnd x = IZR (rnd x).
Proof.
  unfold round, F2R, scaled_mantissa, cexp, FIX_exp. simpl. rewrite !Rmult_1_r. reflexivity.
Qed.

Lemma frne_spec r : is_finite r = true ->
  exists z, B2R (frne r) = IZR z /\ Rabs (IZR z - B2R r) <= / 2 /\ is_finite (frne r) = true.
Proof.
  intro Hf. unfold frne.
  destruct (Bnearbyint_correct 24 128 _ mode_NE r) as (Hr & Hfin & _).
  rewrite round_FIX0 in Hr. simpl round_mode in Hr.
  exists (ZnearestE (B2R r)). split; [exact Hr|]. split.
  - rewrite Rabs_minus_sym. apply Znearest_half.
  - rewrite Hfin. exact Hf.
Qed.

Lemma to_int_sat_spec (y : f32) z lo hi :
  is_finite y = true -> B2R y = IZR z -> (lo <= z <= hi)%Z -> to_int_sat lo hi y = z.
Proof.
  intros Hf Hy Hz.
  assert (Ht : Btrunc y = z).
  { apply eq_IZR. rewrite (Btrunc_correct 24 128 _), Hy, round_FIX0. rewrite Ztrunc_IZR. reflexivity. }
  destruct y as [s|s| |s m e H]; try discriminate; unfold to_int_sat; rewrite Ht; lia.
Qed.

Lemma int_of_near (z N : Z) (R : R) :
  Rabs (IZR z - R) <= / 2 -> Rabs R < IZR N + / 2 -> (- N <= z <= N)%Z.
Proof.
  intros H1 H2. apply Rabs_le_inv in H1.
  assert (H3 : - (IZR N + / 2) < R < IZR N + / 2).
  { split; [|apply Rle_lt_trans with (Rabs R); [apply Rle_abs|exact H2]].
    pose proof (Rle_abs (- R)) as H. rewrite Rabs_Ropp in H. lra. }
  assert (A : IZR z < IZR (N + 1)) by (rewrite plus_IZR; lra).
  assert (B : IZR (- N - 1) < IZR z) by (rewrite minus_IZR, opp_IZR; lra).
  apply lt_IZR in A, B. lia.
Qed.

Lemma final_numeric Nr T :
  127 <= Nr <= 32767 -> 0 <= T <= Nr * (1 + 8 * uro) * (1 + 2 * uro) ->
  T * (1 + uro) + eta < Nr + / 2.
Proof.
  intros HN HT. pose proof uro_val as Uv. pose proof minnorm_val as Mv. pose proof eta_minnorm as Ev.
  assert (Hu : 0 < uro) by apply uro_pos.
  assert (He : eta < / 100) by (rewrite Ev, Uv, Mv; lra).
  assert (H1 : (1 + 8 * uro) * (1 + 2 * uro) * (1 + uro) <= 1 + 12 * uro) by (rewrite Uv; lra).
  assert (H2 : T * (1 + uro) <= Nr * ((1 + 8 * uro) * (1 + 2 * uro) * (1 + uro))).
  { replace (Nr * ((1 + 8 * uro) * (1 + 2 * uro) * (1 + uro)))
      with (Nr * (1 + 8 * uro) * (1 + 2 * uro) * (1 + uro)) by ring.
    apply Rmult_le_compat_r; lra. }
  assert (H3 : Nr * ((1 + 8 * uro) * (1 + 2 * uro) * (1 + uro)) <= Nr * (1 + 12 * uro))
    by (apply Rmult_le_compat_l; lra).
  assert (H4 : Nr * (12 * uro) <= 32767 * (12 * uro)) by (apply Rmult_le_compat_r; lra).
  rewrite Uv in H2, H3, H4 |- *. lra.
Qed.

Section Ratio.
  Variable N : Z.
  Hypothesis HN : (127 <= N <= 32767)%Z.
  Let Nr := IZR N.
  Variable xs : list f32.
  Hypothesis Hfin : Forall (fun x => is_finite x = true) xs.
  Variables rb rr : bool.
  Let b := bucket rb N xs.
  Let B := B2R b.
  Let bnz := bucket_nz b.
  Let M := B2R (col_maxabs xs).

  Lemma bucket_nz_spec : (0 < B -> bnz = b) /\ (B = 0 -> bnz = fone).
  Proof.
    destruct (bucket_spec N HN xs Hfin rb) as (Fb & Db & _). fold b in Fb, Db.
    unfold bnz, bucket_nz, flt. rewrite Db. change (daz fzero) with fzero.
    rewrite (Bltb_correct 24 128 fzero b eq_refl Fb). change (B2R fzero) with 0. fold B.
    split; intro H.
    - rewrite Rlt_bool_true by exact H. reflexivity.
    - rewrite Rlt_bool_false by lra. reflexivity.
  Qed.

  Lemma ratio_bound x : In x xs ->
    is_finite (fdivx rr x bnz) = true /\ Rabs (B2R (fdivx rr x bnz)) < Nr + / 2.
  Proof.
    intro Hin.
    assert (HNr : 127 <= Nr <= 32767) by (unfold Nr; split; apply IZR_le; lia).
    assert (Fx : is_finite x = true) by (rewrite Forall_forall in Hfin; apply Hfin, Hin).
    destruct (m_spec xs Hfin) as (_ & PM & _ & _ & UX). fold M in PM, UX.
    specialize (UX x Hin). set (X := B2R (daz x)) in *.
    destruct (bucket_spec N HN xs Hfin rb) as (Fb & Db & PB & UB & Hpos & Hzero).
    fold b in Fb, Db. fold b B in PB, UB, Hpos, Hzero. fold Nr M in Hpos, Hzero.
    destruct bucket_nz_spec as (Hnz1 & Hnz2).
    pose proof uro_val as Uv. pose proof minnorm_val as Mv. pose proof eta_minnorm as Ev.
    destruct bpow_vals as (B128 & B127 & B122).
    destruct fone_correct as (H1 & F1).
    assert (D1 : B2R (daz fone) = 1) by (apply (daz_of_Z 1); lia).
    assert (Hu : 0 < uro) by apply uro_pos.
    destruct (Rle_lt_or_eq_dec 0 B PB) as [Bpos|Bz].
    - (* bucket not flushed *)
      rewrite (Hnz1 Bpos). destruct (Hpos Bpos) as (Bn & HM).
      assert (HiB : 0 < / B) by (apply Rinv_0_lt_compat; exact Bpos).
      (* |X| / B <= Nr (1 + 8u) *)
      assert (HXB : Rabs X * / B <= Nr * (1 + 8 * uro)).
      { apply (Rmult_le_reg_r B); [exact Bpos|].
        replace (Rabs X * / B * B) with (Rabs X) by (field; lra).
        replace (Nr * (1 + 8 * uro) * B) with (Nr * B * (1 + 8 * uro)) by ring. lra. }
      assert (HXB0 : 0 <= Rabs X * / B) by (apply Rmult_le_pos; [apply Rabs_pos|lra]).
      unfold fdivx. destruct rr.
      + (* x * fl(1/b) *)
        destruct (fdiv_correct fone b F1 Fb) as (Fc & Hc).
        { rewrite Db. fold B. lra. }
        { rewrite D1, Db. fold B. unfold Rdiv. rewrite Rmult_1_l, Rabs_pos_eq by lra.
          assert (/ B <= / minnorm) by (apply Rinv_le_contravar; [apply minnorm_pos|exact Bn]).
          rewrite B127. rewrite Mv in H. rewrite Rinv_inv in H. lra. }
        rewrite D1, Db in Hc. fold B in Hc. unfold Rdiv in Hc. rewrite Rmult_1_l in Hc.
        set (cb := fdiv fone b) in *. set (Cb := B2R cb) in *.
        assert (Dcb : daz cb = cb) by (unfold cb, fdiv; apply ftz_idem).
        assert (HCb : Rabs Cb <= / B * (1 + 2 * uro)).
        { pose proof (ftz_of_abs_le _ _ Hc) as H. pose proof (rnd32_abs_ub (/ B)) as H2.
          rewrite (Rabs_pos_eq (/ B)) in H2 by lra.
          assert (eta <= uro * / B).
          { rewrite Ev. apply Rmult_le_compat_l; [lra|].
            assert (/ bpow radix2 122 <= / B) by (apply Rinv_le_contravar; [exact Bpos|exact UB]).
            rewrite B122 in H0. rewrite Mv. lra. }
          lra. }
        assert (HXC : Rabs (X * Cb) <= Nr * (1 + 8 * uro) * (1 + 2 * uro)).
        { rewrite Rabs_mult.
          apply Rle_trans with (Rabs X * (/ B * (1 + 2 * uro))).
          - apply Rmult_le_compat_l; [apply Rabs_pos|exact HCb].
          - replace (Rabs X * (/ B * (1 + 2 * uro))) with (Rabs X * / B * (1 + 2 * uro)) by ring.
            apply Rmult_le_compat_r; lra. }
        assert (HXC2 : Nr * (1 + 8 * uro) * (1 + 2 * uro) <= bpow radix2 127).
        { rewrite B127. assert (Nr * (1 + 8 * uro) * (1 + 2 * uro) <= 32767 * (1 + 8 * uro) * (1 + 2 * uro)).
          { apply Rmult_le_compat_r; [lra|]. apply Rmult_le_compat_r; lra. }
          rewrite Uv in H |- *. lra. }
        destruct (fmul_correct x cb Fx Fc) as (Fr & Hr).
        { fold X. rewrite Dcb. fold Cb. lra. }
        fold X in Hr. rewrite Dcb in Hr. fold Cb in Hr.
        split; [exact Fr|].
        pose proof (ftz_of_abs_le _ _ Hr) as Ha. pose proof (rnd32_abs_ub (X * Cb)) as Hb2.
        pose proof (final_numeric Nr (Rabs (X * Cb)) HNr (conj (Rabs_pos _) HXC)). lra.
      + (* x / b *)
        assert (HXB1 : Rabs (X / B) = Rabs X * / B).
        { unfold Rdiv. rewrite Rabs_mult, Rabs_inv, (Rabs_pos_eq B) by lra. reflexivity. }
        destruct (fdiv_correct x b Fx Fb) as (Fr & Hr).
        { rewrite Db. fold B. lra. }
        { fold X. rewrite Db. fold B. rewrite HXB1, B127.
          assert (Nr * (1 + 8 * uro) <= 32767 * (1 + 8 * uro)) by (apply Rmult_le_compat_r; lra).
          rewrite Uv in H, HXB. lra. }
        fold X in Hr. rewrite Db in Hr. fold B in Hr.
        split; [exact Fr|].
        pose proof (ftz_of_abs_le _ _ Hr) as Ha. pose proof (rnd32_abs_ub (X / B)) as Hb2.
        rewrite HXB1 in Hb2.
        assert (HT : 0 <= Rabs X * / B <= Nr * (1 + 8 * uro) * (1 + 2 * uro)).
        { split; [exact HXB0|]. apply Rle_trans with (Nr * (1 + 8 * uro)); [exact HXB|].
          rewrite <- (Rmult_1_r (Nr * (1 + 8 * uro))) at 1. apply Rmult_le_compat_l; lra. }
        pose proof (final_numeric Nr (Rabs X * / B) HNr HT). lra.
    - (* bucket is zero: divide by one; the column is tiny *)
      symmetry in Bz. rewrite (Hnz2 Bz). specialize (Hzero Bz).
      assert (HMs : M <= / 1000000).
      { assert (2 * Nr * minnorm <= 2 * 32767 * minnorm).
        { apply Rmult_le_compat_r; [pose proof minnorm_pos; lra|lra]. }
        rewrite Mv in H, Hzero. lra. }
      assert (He : eta < / 1000000) by (rewrite Ev, Uv, Mv; lra).
      unfold fdivx. destruct rr.
      + destruct (fdiv_correct fone fone F1 F1) as (Fc & Hc).
        { rewrite D1. lra. }
        { rewrite D1. unfold Rdiv. rewrite Rinv_1, Rmult_1_r, Rabs_R1, B127. lra. }
        rewrite D1 in Hc. unfold Rdiv in Hc. rewrite Rinv_1, Rmult_1_r in Hc.
        set (c1 := fdiv fone fone) in *. set (C1 := B2R c1) in *.
        assert (Dc1 : daz c1 = c1) by (unfold c1, fdiv; apply ftz_idem).
        assert (HC1 : Rabs C1 <= 2).
        { pose proof (ftz_of_abs_le _ _ Hc) as H. pose proof (rnd32_abs_ub 1) as H2.
          rewrite Rabs_R1 in H2. rewrite Uv in H2. lra. }
        assert (HXC : Rabs (X * C1) <= 2 * M).
        { rewrite Rabs_mult. pose proof (Rabs_pos X). pose proof (Rabs_pos C1). nra. }
        destruct (fmul_correct x c1 Fx Fc) as (Fr & Hr).
        { fold X. rewrite Dc1. fold C1. rewrite B127. lra. }
        fold X in Hr. rewrite Dc1 in Hr. fold C1 in Hr.
        split; [exact Fr|].
        pose proof (ftz_of_abs_le _ _ Hr) as Ha. pose proof (rnd32_abs_ub (X * C1)) as Hb2.
        rewrite Uv in Hb2. lra.
      + destruct (fdiv_correct x fone Fx F1) as (Fr & Hr).
        { rewrite D1. lra. }
        { fold X. rewrite D1. unfold Rdiv. rewrite Rinv_1, Rmult_1_r, B127. lra. }
        fold X in Hr. rewrite D1 in Hr. unfold Rdiv in Hr. rewrite Rinv_1, Rmult_1_r in Hr.
        split; [exact Fr|].
        pose proof (ftz_of_abs_le _ _ Hr) as Ha. pose proof (rnd32_abs_ub X) as Hb2.
        rewrite Uv in Hb2. lra.
  Qed.

  (* the stored integer never takes the unused most-negative value: no wrap-around *)
  Theorem no_wrap_f32_lemma x : In x xs -> (- N <= quant1 rr N bnz x <= N)%Z.
  Proof.
    intro Hin. destruct (ratio_bound x Hin) as (Fr & Hr).
    unfold quant1. destruct (frne_spec _ Fr) as (z & Hz & Hhalf & Fz).
    pose proof (int_of_near z N _ Hhalf Hr) as Hzn.
    rewrite (to_int_sat_spec _ z _ _ Fz Hz); lia.
  Qed.
End Ratio.
