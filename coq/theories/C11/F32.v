(* C11/F32.v — bit-exact binary32 layer shared by C11 (quantization) and C17 (reallocation scores).
   Definitions only.  Built on Flocq 4.1 IEEE754.BinarySingleNaN at prec = 24, emax = 128; the
   operations compute under vm_compute and have B..._correct lemmas.  XLA:CPU runs with the SSE
   control bits FTZ and DAZ set: subnormal operands are read as (signed) zero and subnormal results
   are replaced by (signed) zero; [daz]/[ftz] below model that and the wrapped operations
   [fdiv fmul fadd fsub fmaxd] are "DAZ on every operand, IEEE operation, FTZ on the result".
   PrimFloat is not used anywhere. *)
From Coq Require Import ZArith List Bool.
From Flocq Require Import Core.
From Flocq Require IEEE754.Binary IEEE754.Bits.
From Flocq Require Import IEEE754.BinarySingleNaN.
Import ListNotations.
Open Scope Z_scope.

#[global] Instance prec_gt_0_24 : Prec_gt_0 24 := eq_refl.
#[global] Instance prec_lt_emax_24_128 : Prec_lt_emax 24 128 := eq_refl.

Definition f32 := binary_float 24 128.

(* bit pattern <-> value.  Decoding goes through Flocq's Bits.b32_of_bits; encoding is written
   out (NaN is encoded canonically as 0x7fc00000). *)
Definition of_bits (z : Z) : f32 := Binary.B2BSN 24 128 (Bits.b32_of_bits z).

Definition sign_bit (s : bool) : Z := if s then 2147483648 else 0.

Definition to_bits (x : f32) : Z :=
  match x with
  | B754_zero s => sign_bit s
  | B754_infinity s => sign_bit s + 2139095040
  | B754_nan => 2143289344
  | B754_finite s m e _ =>
      if Z.pos m <? 8388608 then sign_bit s + Z.pos m
      else sign_bit s + (e + 150) * 8388608 + (Z.pos m - 8388608)
  end.

Definition fzero : f32 := B754_zero false.
Definition fone : f32 := binary_normalize 24 128 _ _ mode_NE 1 0 false.  (* 1.0 = bits 1065353216 *)

Definition is_subnormal (x : f32) : bool :=
  match x with B754_finite _ m _ _ => Z.pos m <? 8388608 | _ => false end.

(* flush a subnormal to the zero of the same sign *)
Definition ftz (x : f32) : f32 :=
  match x with
  | B754_finite s m _ _ => if Z.pos m <? 8388608 then B754_zero s else x
  | _ => x
  end.
Definition daz := ftz.

Definition fdiv (x y : f32) : f32 := ftz (Bdiv mode_NE (daz x) (daz y)).
Definition fmul (x y : f32) : f32 := ftz (Bmult mode_NE (daz x) (daz y)).
Definition fadd (x y : f32) : f32 := ftz (Bplus mode_NE (daz x) (daz y)).
Definition fsub (x y : f32) : f32 := ftz (Bminus mode_NE (daz x) (daz y)).
Definition fabs (x : f32) : f32 := Babs x.        (* sign-bit operation: no flush *)
Definition flt (x y : f32) : bool := Bltb (daz x) (daz y).
Definition fle (x y : f32) : bool := Bleb (daz x) (daz y).
(* max(a, b) as a reduction step; operands read through DAZ *)
Definition fmaxd (a b : f32) : f32 := let a' := daz a in let b' := daz b in
  if Bltb a' b' then b' else a'.

(* exact for |z| < 2^24 *)
Definition of_Z (z : Z) : f32 := binary_normalize 24 128 _ _ mode_NE z 0 false.

(* jnp.round / lax.round(TO_NEAREST_EVEN) and floor, result still a float *)
Definition frne (x : f32) : f32 := Bnearbyint mode_NE x.
Definition ffloor (x : f32) : f32 := Bnearbyint mode_DN x.

Definition is_fin (x : f32) : bool := is_finite x.

(* float -> signed integer conversion as XLA:CPU performs it (observed, asserted by the
   correspondence check): NaN -> 0, saturating at [lo, hi], otherwise truncation. *)
Definition to_int_sat (lo hi : Z) (x : f32) : Z :=
  match x with
  | B754_nan => 0
  | B754_infinity s => if s then lo else hi
  | _ => Z.max lo (Z.min hi (Btrunc x))
  end.

(* Python int(x) for a finite integral-valued float; None for inf / nan (Python raises). *)
Definition to_int_opt (x : f32) : option Z :=
  match x with
  | B754_nan | B754_infinity _ => None
  | _ => Some (Btrunc x)
  end.
