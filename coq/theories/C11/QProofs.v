(* C11/QProofs.v — theorems about the real-number model (complete, axiom-free). *)
From Coq Require Import ZArith List Bool QArith Qround Qabs Qminmax Lqa Lia.
From Precond Require Import C11.QModel.
Import ListNotations.
Open Scope Q_scope.

(* ---------------- round half to even ---------------- *)
Lemma rne_comp x y : x == y -> rne x = rne y.
Proof.
  intro H. unfold rne. rewrite (Qfloor_comp _ _ H).
  assert (E : (x - inject_Z (Qfloor y) ?= 1 # 2) = (y - inject_Z (Qfloor y) ?= 1 # 2)).
  { apply Qcompare_comp; [rewrite H; reflexivity|reflexivity]. }
  rewrite E. reflexivity.
Qed.

Lemma floor_bounds x : inject_Z (Qfloor x) <= x < inject_Z (Qfloor x) + 1.
Proof.
  split; [apply Qfloor_le|].
  pose proof (Qlt_floor x) as H. rewrite inject_Z_plus in H. exact H.
Qed.

Lemma rne_half x : Qabs (x - inject_Z (rne x)) <= 1 # 2.
Proof.
  unfold rne. pose proof (floor_bounds x) as [L U].
  destruct (x - inject_Z (Qfloor x) ?= 1 # 2) eqn:E.
  - apply Qeq_alt in E. destruct (Z.even (Qfloor x)).
    + apply Qabs_case; intros; lra.
    + rewrite inject_Z_plus; change (inject_Z 1) with 1. apply Qabs_case; intros; lra.
  - apply Qlt_alt in E. apply Qabs_case; intros; lra.
  - apply Qgt_alt in E. rewrite inject_Z_plus; change (inject_Z 1) with 1. apply Qabs_case; intros; lra.
Qed.

Lemma rne_Z z : rne (inject_Z z) = z.
Proof.
  unfold rne. rewrite Qfloor_Z.
  assert (E : (inject_Z z - inject_Z z ?= 1 # 2) = Lt).
  { apply (proj1 (Qlt_alt _ _)). lra. }
  rewrite E. reflexivity.
Qed.

(* rne x is an integer within 1/2 of x: if |x| <= n then |rne x| <= n *)
Lemma rne_bound x (n : Z) : Qabs x <= inject_Z n -> (Z.abs (rne x) <= n)%Z.
Proof.
  intro H. pose proof (rne_half x) as Hh.
  assert (A : inject_Z (rne x) < inject_Z n + 1).
  { revert H Hh. apply Qabs_case; apply Qabs_case; intros; lra. }
  assert (B : - inject_Z n - 1 < inject_Z (rne x)).
  { revert H Hh. apply Qabs_case; apply Qabs_case; intros; lra. }
  assert (A' : (rne x < n + 1)%Z) by (rewrite Zlt_Qlt, inject_Z_plus; exact A).
  assert (B' : (- n - 1 < rne x)%Z).
  { rewrite Zlt_Qlt. unfold Z.sub. rewrite !inject_Z_plus, inject_Z_opp. exact B. }
  lia.
Qed.

(* ---------------- column max-abs ---------------- *)
Lemma qabs_max_nonneg l : 0 <= qabs_max l.
Proof.
  induction l as [|x t IH]; simpl; [apply Qle_refl|].
  apply Q.max_le_iff. right. exact IH.
Qed.

Lemma qabs_max_ub l x : In x l -> Qabs x <= qabs_max l.
Proof.
  induction l as [|y t IH]; simpl; [tauto|].
  intros [->|H]; apply Q.max_le_iff; [left; apply Qle_refl|right; auto].
Qed.

Lemma qabs_max_attained l : 0 < qabs_max l -> exists x, In x l /\ Qabs x == qabs_max l.
Proof.
  induction l as [|y t IH]; simpl; intro H; [lra|].
  destruct (Q.max_spec (Qabs y) (qabs_max t)) as [[Hlt E]|[Hle E]].
  - rewrite E in H. destruct (IH H) as (x & Hin & Hx). exists x. split; [right; exact Hin|].
    rewrite E. exact Hx.
  - exists y. split; [left; reflexivity|]. rewrite E. reflexivity.
Qed.

Lemma qabs_max_char l m :
  0 <= m -> (forall x, In x l -> Qabs x <= m) -> (0 < m -> exists x, In x l /\ Qabs x == m) ->
  qabs_max l == m.
Proof.
  intros Hm Hub Hex. apply Qle_antisym.
  - clear Hex. induction l as [|y t IH]; simpl; [exact Hm|].
    apply Q.max_lub; [apply Hub; left; reflexivity|apply IH; intros; apply Hub; right; assumption].
  - destruct (Qlt_le_dec 0 m) as [Hp|Hn].
    + destruct (Hex Hp) as (x & Hin & Hx). rewrite <- Hx. apply qabs_max_ub, Hin.
    + pose proof (qabs_max_nonneg l). lra.
Qed.

Lemma qabs_max_comp_zero l : (forall x, In x l -> x == 0) -> qabs_max l == 0.
Proof.
  intro H. apply qabs_max_char; [apply Qle_refl| |intro; lra].
  intros x Hin. rewrite (H x Hin). simpl. apply Qle_refl.
Qed.

(* ---------------- bucket ---------------- *)
Lemma qbucket_nz_pos b : 0 < qbucket_nz b.
Proof.
  unfold qbucket_nz. destruct (Qle_bool b 0) eqn:E; [reflexivity|].
  destruct (Qlt_le_dec 0 b) as [H|H]; [exact H|].
  apply Qle_bool_iff in H. congruence.
Qed.

Lemma qbucket_nz_of_pos b : 0 < b -> qbucket_nz b = b.
Proof.
  intro H. unfold qbucket_nz. destruct (Qle_bool b 0) eqn:E; [|reflexivity].
  apply Qle_bool_iff in E. lra.
Qed.

Lemma qbucket_nz_of_zero b : b == 0 -> qbucket_nz b = 1.
Proof.
  intro H. unfold qbucket_nz. destruct (Qle_bool b 0) eqn:E; [reflexivity|].
  assert (Qle_bool b 0 = true) by (apply Qle_bool_iff; lra). congruence.
Qed.

Section Column.
  Variable N : Z.
  Hypothesis HN : (0 < N)%Z.
  Let HNq : 0 < inject_Z N.
  Proof. change 0 with (inject_Z 0). rewrite <- Zlt_Qlt. exact HN. Qed.

  Lemma qbucket_nonneg xs : 0 <= qbucket N xs.
  Proof.
    unfold qbucket. apply Qle_shift_div_l; [exact HNq|]. pose proof (qabs_max_nonneg xs). lra.
  Qed.

  Lemma qbucket_times_N xs : inject_Z N * qbucket N xs == qabs_max xs.
  Proof. unfold qbucket. field. lra. Qed.

  (* the scaled entry lies in [-N, N] *)
  Lemma ratio_bound xs x : In x xs -> Qabs (x / qbucket_nz (qbucket N xs)) <= inject_Z N.
  Proof.
    intro Hin. pose proof (qabs_max_ub xs x Hin) as Hx.
    pose proof (qbucket_nonneg xs) as Hb. pose proof (qbucket_times_N xs) as HbN.
    destruct (Qlt_le_dec 0 (qbucket N xs)) as [Hp|Hz].
    - rewrite (qbucket_nz_of_pos _ Hp).
      assert (E : x / qbucket N xs == x * / qbucket N xs) by reflexivity.
      rewrite E, Qabs_Qmult. rewrite (Qabs_pos (/ qbucket N xs)).
      + apply Qle_shift_div_r; [exact Hp|]. lra.
      + apply Qlt_le_weak, Qinv_lt_0_compat, Hp.
    - assert (Hb0 : qbucket N xs == 0) by lra.
      rewrite (qbucket_nz_of_zero _ Hb0).
      assert (Hm : qabs_max xs == 0) by (rewrite <- HbN, Hb0; ring).
      assert (E : x / 1 == x) by (field).
      rewrite E. lra.
  Qed.

  (* T1: the stored integer never leaves [-N, N]: the most negative value -N-1 is unused *)
  Theorem no_wrap_q_lemma xs x :
    In x xs -> (Z.abs (qquant (qbucket_nz (qbucket N xs)) x) <= N)%Z.
  Proof. intro Hin. unfold qquant. apply rne_bound, ratio_bound, Hin. Qed.

  (* T2: de-quantization error at most half a bucket *)
  Theorem half_bucket_q_lemma xs x :
    In x xs ->
    let b := qbucket N xs in
    Qabs (x - qdeq b (qquant (qbucket_nz b) x)) <= b / 2.
  Proof.
    intros Hin b. unfold qdeq, qquant.
    pose proof (qbucket_nonneg xs) as Hb. fold b in Hb.
    destruct (Qlt_le_dec 0 b) as [Hp|Hz].
    - rewrite (qbucket_nz_of_pos _ Hp).
      pose proof (rne_half (x / b)) as Hh.
      assert (E : x - inject_Z (rne (x / b)) * b == (x / b - inject_Z (rne (x / b))) * b)
        by (field; lra).
      rewrite E, Qabs_Qmult, (Qabs_pos b) by lra.
      assert (Qabs (x / b - inject_Z (rne (x / b))) * b <= (1 # 2) * b).
      { apply Qmult_le_compat_r; lra. }
      assert (E2 : b / 2 == (1 # 2) * b) by field. rewrite E2. exact H.
    - assert (Hb0 : b == 0) by lra.
      rewrite (qbucket_nz_of_zero _ Hb0).
      assert (Hm : qabs_max xs == 0).
      { rewrite <- (qbucket_times_N xs). fold b. rewrite Hb0. ring. }
      pose proof (qabs_max_ub xs x Hin) as Hx. rewrite Hm in Hx.
      assert (Hx0 : x == 0).
      { revert Hx. apply Qabs_case; intros; lra. }
      assert (E : x - inject_Z (rne (x / 1)) * b == 0).
      { rewrite Hb0. rewrite Hx0 at 1. ring. }
      rewrite E, Hb0. discriminate.
  Qed.

  (* T3: zeros are exact *)
  Theorem zero_exact_q_lemma bnz b : 0 < bnz -> qquant bnz 0 = 0%Z /\ qdeq b (qquant bnz 0) == 0.
  Proof.
    intro H. assert (E : qquant bnz 0 = 0%Z).
    { unfold qquant. rewrite (rne_comp (0 / bnz) (inject_Z 0)); [apply rne_Z|]. simpl. field. lra. }
    split; [exact E|]. rewrite E. unfold qdeq. ring.
  Qed.

  Lemma Qabs_inject_le q : (Z.abs q <= N)%Z -> Qabs (inject_Z q) <= inject_Z N.
  Proof.
    intro H. apply Qabs_case; intros _.
    - rewrite <- Zle_Qle. lia.
    - rewrite <- inject_Z_opp, <- Zle_Qle. lia.
  Qed.

  (* T4: re-quantizing a de-quantized column reproduces the same integers and the same bucket *)
  Theorem requantize_fixed_q_lemma xs :
    let qs := fst (qquantize_col N xs) in
    let b := snd (qquantize_col N xs) in
    let r := qquantize_col N (qto_float_col b qs) in
    fst r = qs /\ snd r == b.
  Proof.
    unfold qquantize_col; simpl fst; simpl snd.
    set (b := qbucket N xs). set (bnz := qbucket_nz b).
    set (qs := map (qquant bnz) xs). set (xs' := qto_float_col b qs).
    pose proof (qbucket_nonneg xs) as Hb. fold b in Hb.
    pose proof (qbucket_times_N xs) as HbN. fold b in HbN.
    assert (Hq : forall x, In x xs -> (Z.abs (qquant bnz x) <= N)%Z)
      by (intros; apply no_wrap_q_lemma; assumption).
    (* max-abs of the de-quantized column equals the original one *)
    assert (Hm : qabs_max xs' == qabs_max xs).
    { apply qabs_max_char; [apply qabs_max_nonneg| |].
      - intros y Hy. unfold xs', qto_float_col, qs in Hy. rewrite map_map in Hy.
        apply in_map_iff in Hy. destruct Hy as (x & <- & Hin).
        unfold qdeq. rewrite Qabs_Qmult, (Qabs_pos b) by exact Hb.
        rewrite <- HbN. apply Qmult_le_compat_r; [|exact Hb].
        apply Qabs_inject_le, Hq, Hin.
      - intro Hpos. destruct (qabs_max_attained xs Hpos) as (x0 & Hin & Hx0).
        assert (Hbp : 0 < b).
        { unfold b, qbucket. apply Qlt_shift_div_l; [exact HNq|]. lra. }
        exists (qdeq b (qquant bnz x0)). split.
        + unfold xs', qto_float_col, qs. rewrite map_map. apply in_map_iff. exists x0. auto.
        + unfold bnz. rewrite (qbucket_nz_of_pos _ Hbp). unfold qquant, qdeq.
          revert Hx0. apply Qabs_case; intros Hs Hx0.
          * assert (E : x0 / b == inject_Z N) by (rewrite Hx0, <- HbN; field; lra).
            rewrite (rne_comp _ _ E), rne_Z. rewrite HbN. apply Qabs_pos. lra.
          * assert (E : x0 / b == inject_Z (- N)).
            { rewrite inject_Z_opp. assert (x0 == - qabs_max xs) by lra.
              rewrite H, <- HbN. field. lra. }
            rewrite (rne_comp _ _ E), rne_Z, inject_Z_opp.
            assert (E2 : - inject_Z N * b == - qabs_max xs) by (rewrite <- HbN; ring).
            rewrite E2, Qabs_opp. apply Qabs_pos. lra. }
    assert (Hb' : qbucket N xs' == b).
    { unfold b, qbucket. rewrite Hm. reflexivity. }
    split; [|exact Hb'].
    set (bnz' := qbucket_nz (qbucket N xs')).
    assert (Hbnz' : (0 < b -> bnz' == b) /\ (b == 0 -> bnz' = 1)).
    { split; intro H.
      - unfold bnz'. rewrite qbucket_nz_of_pos by lra. exact Hb'.
      - unfold bnz'. apply qbucket_nz_of_zero. lra. }
    clearbody bnz'. unfold xs', qto_float_col. rewrite map_map.
    rewrite <- (map_id qs) at 2. apply map_ext_in. intros q Hqin.
    destruct (Qlt_le_dec 0 b) as [Hp|Hz].
    - destruct Hbnz' as [H1 _]. specialize (H1 Hp). unfold qquant, qdeq.
      assert (E : inject_Z q * b / bnz' == inject_Z q) by (rewrite H1; field; lra).
      rewrite (rne_comp _ _ E). apply rne_Z.
    - assert (Hb0 : b == 0) by lra. destruct Hbnz' as [_ H2]. rewrite (H2 Hb0).
      unfold qquant, qdeq.
      assert (E : inject_Z q * b / 1 == inject_Z 0) by (rewrite Hb0; simpl; field).
      rewrite (rne_comp _ _ E), rne_Z.
      (* q itself is 0: it quantizes an entry of an all-zero column *)
      unfold qs in Hqin. apply in_map_iff in Hqin. destruct Hqin as (x & <- & Hin).
      assert (Hmz : qabs_max xs == 0) by (rewrite <- HbN, Hb0; ring).
      pose proof (qabs_max_ub xs x Hin) as Hx. rewrite Hmz in Hx.
      assert (Hx0 : x == 0) by (revert Hx; apply Qabs_case; intros; lra).
      unfold bnz. rewrite (qbucket_nz_of_zero _ Hb0). unfold qquant.
      assert (E3 : x / 1 == inject_Z 0) by (rewrite Hx0; simpl; field).
      rewrite (rne_comp _ _ E3), rne_Z. reflexivity.
  Qed.
End Column.

(* T5: with extract_diagonal the diagonal is reproduced exactly and off-diagonal entries obey
   the half-bucket bound of their column *)
Section DiagProofs.
  Variable n : nat.
  Variable M : nat -> nat -> Q.
  Variable N : Z.
  Hypothesis HN : (0 < N)%Z.

  Theorem diag_exact_q_lemma i : diag_to_float n M N i i == M i i.
  Proof.
    unfold diag_to_float, diag_q, offd. rewrite Nat.eqb_refl.
    destruct (zero_exact_q_lemma (qbucket_nz (diag_bucket n M N i)) (diag_bucket n M N i)
                (qbucket_nz_pos _)) as [E _].
    rewrite E. unfold qdeq. ring.
  Qed.

  Theorem offdiag_half_bucket_q_lemma i j :
    (i < n)%nat -> i <> j ->
    Qabs (M i j - diag_to_float n M N i j) <= diag_bucket n M N j / 2.
  Proof.
    intros Hi Hij. unfold diag_to_float.
    assert (En : Nat.eqb i j = false) by (apply Nat.eqb_neq; exact Hij).
    rewrite En.
    assert (Hin : In (offd M i j) (colj n M j)).
    { unfold colj. apply in_map_iff. exists i. split; [reflexivity|]. apply in_seq. lia. }
    pose proof (half_bucket_q_lemma N HN (colj n M j) (offd M i j) Hin) as H. cbv zeta in H.
    assert (Eo : offd M i j = M i j) by (unfold offd; rewrite En; reflexivity).
    unfold diag_q, diag_bucket. rewrite Eo in H at 1.
    assert (E : M i j - (qdeq (qbucket N (colj n M j))
                          (qquant (qbucket_nz (qbucket N (colj n M j))) (offd M i j)) + 0)
                == M i j - qdeq (qbucket N (colj n M j))
                          (qquant (qbucket_nz (qbucket N (colj n M j))) (offd M i j))) by ring.
    rewrite E. exact H.
  Qed.
End DiagProofs.
