(* C15/Proofs.v — theorems about tf_spec (C15.Model): linearity in the learning rate and
   lr-independence of the state along every history, momentum chain = documented formula,
   unmerge o merge = id, root spec at ring level. *)
From Coq Require Import QArith Qminmax ZArith List Bool Lia Lqa.
From Precond Require Import Base.PyLib Base.QMat C06.Records C06.Ref C09.Model C15.Tensor C15.Model.
Import ListNotations.
Open Scope Q_scope.

Definition veqv (x y : vec) : Prop := Forall2 Qeq x y.

Lemma veqv_refl x : veqv x x.
Proof. induction x; constructor; [reflexivity | assumption]. Qed.

(* ------------------------------------------------------------------------------------------- *)
(* 1. learning rate                                                                             *)
(* ------------------------------------------------------------------------------------------- *)
Lemma vscale_neg_lr lr u : veqv (vscale (- lr) u) (vscale lr (vscale (- (1)) u)).
Proof. induction u as [|a u IH]; cbn; constructor; [ring | exact IH]. Qed.

Lemma tf_leaf_state c lr gc sc shape x g s ans ada :
  snd (tf_leaf c lr gc sc shape x g s ans ada) = snd (leaf_core c gc sc shape x g s ans ada).
Proof. unfold tf_leaf. destruct (leaf_core c gc sc shape x g s ans ada). reflexivity. Qed.

Lemma tf_leaf_update c lr gc sc shape x g s ans ada :
  fst (tf_leaf c lr gc sc shape x g s ans ada) = vscale (- lr) (fst (leaf_core c gc sc shape x g s ans ada)).
Proof. unfold tf_leaf. destruct (leaf_core c gc sc shape x g s ans ada). reflexivity. Qed.

(* one step: the state does not see lr; the update is lr times the update at lr = 1 *)
Theorem tf_leaf_linear c lr gc sc shape x g s ans ada :
  snd (tf_leaf c lr gc sc shape x g s ans ada) = snd (tf_leaf c 1 gc sc shape x g s ans ada) /\
  veqv (fst (tf_leaf c lr gc sc shape x g s ans ada))
       (vscale lr (fst (tf_leaf c 1 gc sc shape x g s ans ada))).
Proof.
  rewrite !tf_leaf_state, !tf_leaf_update. split; [reflexivity|]. apply vscale_neg_lr.
Qed.

Fixpoint scaled (lr : Z -> Q) (k : Z) (us : list vec) : list vec :=
  match us with [] => [] | u :: t => vscale (lr k) u :: scaled lr (k + 1) t end.

(* whole histories (induction): for every schedule lr, every configuration, every sequence of
   gradients / parameter values / oracle answers *)
Theorem tf_run_linear c lr shape : forall h k s,
  snd (tf_run c lr k shape s h) = snd (tf_run c (fun _ => 1) k shape s h) /\
  Forall2 veqv (fst (tf_run c lr k shape s h)) (scaled lr k (fst (tf_run c (fun _ => 1) k shape s h))).
Proof.
  induction h as [|i h IH]; intros k s; cbn [tf_run].
  - split; [reflexivity | constructor].
  - pose proof (tf_leaf_linear c (lr k) k k shape (i_x i) (i_g i) s (i_ans i) (i_ada i)) as [Hs Hu].
    destruct (tf_leaf c (lr k) k k shape (i_x i) (i_g i) s (i_ans i) (i_ada i)) as [u s1] eqn:E1.
    destruct (tf_leaf c 1 k k shape (i_x i) (i_g i) s (i_ans i) (i_ada i)) as [u' s1'] eqn:E2.
    cbn [fst snd] in Hs, Hu. subst s1'.
    specialize (IH (k + 1)%Z s1). destruct IH as [IHs IHu].
    destruct (tf_run c lr (k + 1) shape s1 h) as [us sT].
    destruct (tf_run c (fun _ => 1) (k + 1) shape s1 h) as [us' sT'].
    cbn [fst snd] in *. split; [exact IHs|].
    cbn [scaled]. constructor; [exact Hu | exact IHu].
Qed.

(* two schedules: identical states *)
Corollary tf_state_independent_of_lr c lr lr' shape h k s :
  snd (tf_run c lr k shape s h) = snd (tf_run c lr' k shape s h).
Proof.
  destruct (tf_run_linear c lr shape h k s) as [H1 _].
  destruct (tf_run_linear c lr' shape h k s) as [H2 _]. congruence.
Qed.

(* ------------------------------------------------------------------------------------------- *)
(* 2. momentum chain = documented formula                                                       *)
(* ------------------------------------------------------------------------------------------- *)
(* scalar version of tx_apply *)
Definition tx1 (x : Q) (st : Q * Q) (t : tx) : Q * Q :=
  let '(u, tr) := st in
  match t with
  | TxScale s => (s * u, tr)
  | TxTrace d nest => let tr' := u + d * tr in ((if nest then u + d * tr' else tr'), tr')
  | TxWd w => (u + w * x, tr)
  end.

(* the vector chain acts entry by entry *)
Lemma chain_cons (l : list tx) : forall a u b tr e x,
  fold_left (tx_apply (e :: x)) l (a :: u, b :: tr) =
  (fst (fold_left (tx1 e) l (a, b)) :: fst (fold_left (tx_apply x) l (u, tr)),
   snd (fold_left (tx1 e) l (a, b)) :: snd (fold_left (tx_apply x) l (u, tr))).
Proof.
  induction l as [|t l IH]; intros a u b tr e x; [reflexivity|].
  cbn [fold_left]. destruct t as [s|d nest|w]; cbn [tx_apply tx1 vscale map vadd].
  - apply IH.
  - destruct nest; cbn [vadd vscale map]; apply IH.
  - apply IH.
Qed.

Lemma chain_nil_u (l : list tx) : forall tr x,
  fst (fold_left (tx_apply x) l ([], tr)) = [].
Proof.
  induction l as [|t l IH]; intros tr x; [reflexivity|].
  cbn [fold_left]. destruct t as [s|d nest|w]; cbn [tx_apply vscale map vadd].
  - apply IH.
  - destruct nest; cbn [vadd]; apply IH.
  - apply IH.
Qed.

(* scalar chain = documented formula, all 2^5 configurations *)
Lemma mom1_doc c a b e :
  fst (fold_left (tx1 e) (momentum_txs c) (a, b)) == fst (doc_momentum1 c a b e) /\
  snd (fold_left (tx1 e) (momentum_txs c) (a, b)) == snd (doc_momentum1 c a b e).
Proof.
  unfold momentum_txs, doc_momentum1.
  destruct (Qeq_bool (c_mdecay c) 0), (c_ema c), (c_nest c), (Qltb 0 (c_wd c)), (c_wdafter c);
    cbn; split; ring.
Qed.

Definition doc_momentum (c : cfg) (u tr x : vec) : vec * vec :=
  (map (fun '(a, (b, e)) => fst (doc_momentum1 c a b e)) (combine u (combine tr x)),
   map (fun '(a, (b, e)) => snd (doc_momentum1 c a b e)) (combine u (combine tr x))).

(* ema scale -> trace / nesterov -> weight decay before / after, for every option combination and
   all vectors (of equal length) *)
Theorem tf_momentum_order c : forall u tr x, length u = length tr -> length u = length x ->
  veqv (fst (momentum_apply c u tr x)) (fst (doc_momentum c u tr x)) /\
  veqv (snd (momentum_apply c u tr x)) (snd (doc_momentum c u tr x)).
Proof.
  unfold momentum_apply.
  induction u as [|a u IH]; intros [|b tr] [|e x] H1 H2; try discriminate.
  - cbn [doc_momentum combine map fst snd]. rewrite chain_nil_u. split; [constructor|].
    assert (forall l, snd (fold_left (tx_apply []) l ([], [])) = []) as L.
    { induction l as [|t l IHl]; [reflexivity|]. cbn [fold_left].
      destruct t as [s|d nest|w]; cbn [tx_apply vscale map vadd]; try apply IHl.
      destruct nest; apply IHl. }
    rewrite L. constructor.
  - rewrite chain_cons. cbn [doc_momentum combine map fst snd].
    destruct (mom1_doc c a b e) as [Ha Hb].
    destruct (IH tr x) as [IHu IHt]; [cbn in H1; lia | cbn in H2; lia |].
    split; constructor; assumption.
Qed.

(* ------------------------------------------------------------------------------------------- *)
(* 3. sub-tensor insertion / extraction; unmerge o merge = id                                    *)
(* ------------------------------------------------------------------------------------------- *)
Lemma chunks_length {A} n : forall k (l : list A), length (chunks n k l) = k.
Proof. induction k as [|k IH]; intro l; cbn [chunks length]; [reflexivity | rewrite IH; reflexivity]. Qed.

Lemma chunks_row_length {A} n : forall k (l : list A), length l = (k * n)%nat ->
  Forall (fun r => length r = n) (chunks n k l).
Proof.
  induction k as [|k IH]; intros l H; cbn [chunks]; constructor.
  - rewrite firstn_length. lia.
  - apply IH. rewrite skipn_length. lia.
Qed.

Lemma concat_chunks {A} n : forall k (l : list A), length l = (k * n)%nat -> concat (chunks n k l) = l.
Proof.
  induction k as [|k IH]; intros l H; cbn [chunks concat].
  - destruct l; [reflexivity | discriminate].
  - rewrite IH by (rewrite skipn_length; lia). apply firstn_skipn.
Qed.

Lemma chunks_concat {A} n : forall (rows : list (list A)),
  Forall (fun r => length r = n) rows -> chunks n (length rows) (concat rows) = rows.
Proof.
  induction rows as [|r rows IH]; intro H; [reflexivity|].
  inversion H as [|? ? Hr Hrest]; subst. cbn [length chunks concat].
  rewrite firstn_app, Nat.sub_diag, firstn_O, app_nil_r, firstn_all.
  rewrite skipn_app, Nat.sub_diag, skipn_O, skipn_all, app_nil_l.
  rewrite IH by assumption. reflexivity.
Qed.

Lemma concat_length_rows {A} n : forall (rows : list (list A)),
  Forall (fun r => length r = n) rows -> length (concat rows) = (length rows * n)%nat.
Proof.
  induction rows as [|r rows IH]; intro H; [reflexivity|].
  inversion H; subst. cbn [concat length]. rewrite app_length, IH by assumption. lia.
Qed.

Lemma map2_length {A B C} (f : A -> B -> C) : forall l1 l2, length l1 = length l2 ->
  length (map2 f l1 l2) = length l1.
Proof.
  induction l1 as [|a l1 IH]; intros [|b l2] H; cbn in *; try discriminate; [reflexivity|].
  rewrite IH by lia. reflexivity.
Qed.

Lemma Forall_map2 {A B C} (f : A -> B -> C) (P : C -> Prop) : forall l1 l2,
  length l1 = length l2 ->
  (forall a b, In a l1 -> In b l2 -> P (f a b)) -> Forall P (map2 f l1 l2).
Proof.
  induction l1 as [|a l1 IH]; intros [|b l2] H Hf; cbn in *; try discriminate; constructor.
  - apply Hf; left; reflexivity.
  - apply IH; [lia|]. intros; apply Hf; right; assumption.
Qed.

Lemma map_map2 {A B C D} (g : C -> D) (f : A -> B -> C) : forall l1 l2,
  map g (map2 f l1 l2) = map2 (fun a b => g (f a b)) l1 l2.
Proof. induction l1 as [|a l1 IH]; intros [|b l2]; cbn; try reflexivity. rewrite IH. reflexivity. Qed.

Lemma map2_fst_ext {A B} (f : A -> B -> A) : forall l1 l2, length l1 = length l2 ->
  (forall a b, In a l1 -> In b l2 -> f a b = a) -> map2 f l1 l2 = l1.
Proof.
  induction l1 as [|a l1 IH]; intros [|b l2] H Hf; cbn in *; try discriminate; [reflexivity|].
  rewrite Hf by (left; reflexivity). rewrite IH; [reflexivity | lia |].
  intros; apply Hf; right; assumption.
Qed.

Lemma In_firstn_In {A} (x : A) : forall n l, In x (firstn n l) -> In x l.
Proof.
  induction n as [|n IH]; intros [|a l] H; cbn in *; try contradiction.
  destruct H as [H|H]; [left; exact H | right; apply IH; exact H].
Qed.

Lemma In_skipn_In {A} (x : A) : forall n l, In x (skipn n l) -> In x l.
Proof.
  induction n as [|n IH]; intros [|a l] H; cbn in *; try contradiction; try exact H.
  right. apply IH. exact H.
Qed.

Lemma prodn_cons d rest : prodn (d :: rest) = (d * prodn rest)%nat.
Proof. reflexivity. Qed.

(* well-formed box: same rank, starts + sizes within the shape *)
Fixpoint box_ok (shape starts sizes : list nat) : Prop :=
  match shape, starts, sizes with
  | [], [], [] => True
  | d :: rest, s :: ss, z :: zs => (s + z <= d)%nat /\ box_ok rest ss zs
  | _, _, _ => False
  end.

Lemma put_rec_length : forall shape starts sizes block data,
  box_ok shape starts sizes -> length data = prodn shape -> length block = prodn sizes ->
  length (put_rec shape starts sizes block data) = prodn shape.
Proof.
  induction shape as [|d rest IH]; intros [|s ss] [|z zs] block data Hb Hd Hk;
    cbn [box_ok] in Hb; try contradiction.
  - cbn [put_rec]. exact Hk.
  - destruct Hb as [Hle Hb]. cbn [put_rec]. rewrite prodn_cons in *.
    set (rows := chunks (prodn rest) d data).
    assert (Hrows : Forall (fun r => length r = prodn rest) rows)
      by (apply chunks_row_length; lia).
    assert (Hlen : length rows = d) by apply chunks_length.
    set (brows := chunks (prodn zs) z block).
    assert (Hbrows : Forall (fun r => length r = prodn zs) brows)
      by (apply chunks_row_length; lia).
    assert (Hblen : length brows = z) by apply chunks_length.
    rewrite (concat_length_rows (prodn rest)).
    + assert (E : length (firstn s rows ++
                   map2 (fun b r => put_rec rest ss zs b r) brows (firstn z (skipn s rows)) ++
                   skipn (s + z) rows) = d).
      { rewrite !app_length.
        rewrite map2_length by (rewrite firstn_length, skipn_length; lia).
        rewrite firstn_length, skipn_length. lia. }
      rewrite E. reflexivity.
    + apply Forall_app. split; [|apply Forall_app; split].
      * apply Forall_forall. intros r Hr. apply (proj1 (Forall_forall _ _) Hrows).
        eapply In_firstn_In; eauto.
      * apply Forall_map2; [rewrite firstn_length, skipn_length; lia|].
        intros b r Hb' Hr. apply IH; [exact Hb | |].
        -- apply (proj1 (Forall_forall _ _) Hrows). apply (In_skipn_In r s). eapply In_firstn_In; eauto.
        -- apply (proj1 (Forall_forall _ _) Hbrows). exact Hb'.
      * apply Forall_forall. intros r Hr. apply (proj1 (Forall_forall _ _) Hrows).
        eapply In_skipn_In; eauto.
Qed.

Lemma firstn_app_exact {A} (l1 l2 : list A) n : length l1 = n -> firstn n (l1 ++ l2) = l1.
Proof. intro H. rewrite firstn_app, H, Nat.sub_diag, firstn_O, app_nil_r. rewrite <- H. apply firstn_all. Qed.

Lemma skipn_app_exact {A} (l1 l2 : list A) n : length l1 = n -> skipn n (l1 ++ l2) = l2.
Proof. intro H. rewrite skipn_app, H, Nat.sub_diag, skipn_O. rewrite <- H, skipn_all. reflexivity. Qed.

(* extracting the box that was just written returns what was written *)
Theorem slice_put : forall shape starts sizes block data,
  box_ok shape starts sizes -> length data = prodn shape -> length block = prodn sizes ->
  slice_rec shape starts sizes (put_rec shape starts sizes block data) = block.
Proof.
  induction shape as [|d rest IH]; intros [|s ss] [|z zs] block data Hb Hd Hk;
    cbn [box_ok] in Hb; try contradiction.
  - reflexivity.
  - destruct Hb as [Hle Hb]. cbn [put_rec slice_rec]. rewrite prodn_cons in *.
    set (rows := chunks (prodn rest) d data).
    assert (Hrows : Forall (fun r => length r = prodn rest) rows)
      by (apply chunks_row_length; lia).
    assert (Hlen : length rows = d) by apply chunks_length.
    set (brows := chunks (prodn zs) z block).
    assert (Hbrows : Forall (fun r => length r = prodn zs) brows)
      by (apply chunks_row_length; lia).
    assert (Hblen : length brows = z) by apply chunks_length.
    set (X := firstn z (skipn s rows)).
    assert (HX : length X = z) by (unfold X; rewrite firstn_length, skipn_length; lia).
    assert (HXrows : forall r, In r X -> length r = prodn rest).
    { intros r Hr. apply (proj1 (Forall_forall _ _) Hrows). apply (In_skipn_In r s).
      eapply In_firstn_In; eauto. }
    set (mid := map2 (fun b r => put_rec rest ss zs b r) brows X).
    assert (Hmid : length mid = z) by (unfold mid; rewrite map2_length; lia).
    set (new := firstn s rows ++ mid ++ skipn (s + z) rows).
    assert (Hnew : Forall (fun r => length r = prodn rest) new).
    { unfold new. apply Forall_app. split; [|apply Forall_app; split].
      - apply Forall_forall. intros r Hr. apply (proj1 (Forall_forall _ _) Hrows).
        eapply In_firstn_In; eauto.
      - apply Forall_map2; [lia|]. intros b r Hb' Hr.
        apply put_rec_length; [exact Hb | apply HXrows; exact Hr |].
        apply (proj1 (Forall_forall _ _) Hbrows). exact Hb'.
      - apply Forall_forall. intros r Hr. apply (proj1 (Forall_forall _ _) Hrows).
        eapply In_skipn_In; eauto. }
    assert (Hnewlen : length new = d).
    { unfold new. rewrite !app_length, Hmid, firstn_length, skipn_length. lia. }
    rewrite <- Hnewlen at 1. rewrite chunks_concat by exact Hnew.
    unfold new. rewrite skipn_app_exact by (rewrite firstn_length; lia).
    rewrite firstn_app_exact by exact Hmid.
    unfold mid. rewrite map_map2.
    rewrite map2_fst_ext.
    + apply concat_chunks. lia.
    + lia.
    + intros b r Hb' Hr. apply IH; [exact Hb | apply HXrows; exact Hr |].
      apply (proj1 (Forall_forall _ _) Hbrows). exact Hb'.
Qed.

Fixpoint le_all (m p : list nat) : Prop :=
  match m, p with
  | [], [] => True
  | a :: m', b :: p' => (a <= b)%nat /\ le_all m' p'
  | _, _ => False
  end.

Lemma box_origin : forall m p, le_all m p -> box_ok p (origin p) m.
Proof.
  induction m as [|a m IH]; intros [|b p] H; cbn in *; try contradiction; [exact I|].
  destruct H as [H1 H2]. split; [lia | apply IH; exact H2].
Qed.

Lemma zeros_like_length shape : length (zeros_like shape) = prodn shape.
Proof. unfold zeros_like. apply repeat_length. Qed.

(* x[tuple(slice(0, m))] of jnp.pad(x, (0, p - m)) is x, for every rank and all shapes m <= p *)
Theorem unpad_pad m p data : le_all m p -> length data = prodn m ->
  unpad_from m p (pad_to m p data) = data.
Proof.
  intros H Hd. unfold unpad_from, pad_to.
  apply slice_put; [apply box_origin; exact H | apply zeros_like_length | exact Hd].
Qed.

(* padded shapes of reshaper._derive_shapes dominate the merged shapes *)
Lemma fold_snoc_map {A B} (f : A -> B) : forall l init,
  fold_left (fun acc s => acc ++ [f s]) l init = init ++ map f l.
Proof.
  induction l as [|a l IH]; intro init; cbn [fold_left map]; [rewrite app_nil_r; reflexivity|].
  rewrite IH, <- app_assoc. reflexivity.
Qed.

Lemma le_all_refl m : le_all m m.
Proof. induction m; cbn; [exact I | split; [lia | assumption]]. Qed.

Lemma round_up_ge s b : (0 < b)%Z -> (s <= (s + b - 1) / b * b)%Z.
Proof.
  intro Hb. pose proof (Z.div_mod (s + b - 1) b ltac:(lia)) as E.
  pose proof (Z.mod_pos_bound (s + b - 1) b Hb) as M. nia.
Qed.

Lemma derive_shapes_le merge block shape : (0 <= block)%Z ->
  le_all (nats (sh_merged_shape (derive_shapes merge block shape)))
         (nats (sh_padded_shape (derive_shapes merge block shape))).
Proof.
  intro Hb. unfold derive_shapes.
  destruct (list_eqb_z (merge_small_dims shape merge) [1%Z]); cbn [sh_merged_shape sh_padded_shape].
  - exact I.
  - destruct (block =? 0)%Z eqn:E0; [apply le_all_refl|].
    apply Z.eqb_neq in E0.
    set (f := fun s : Z => if (s >=? block)%Z then ((s + block - 1) / block * block)%Z else s).
    assert (Efold : fold_left (fun (padded : list Z) (s : Z) =>
               let s0 := if (s >=? block)%Z then (let s1 := ((s + block - 1) / block)%Z in
                                                  let s2 := (s1 * block)%Z in s2) else s in
               padded ++ [s0]) (merge_small_dims shape merge) [] = [] ++ map f (merge_small_dims shape merge)).
    { apply (fold_snoc_map f). }
    cbv zeta in Efold. cbv zeta. rewrite Efold. cbn [app]. clear Efold.
    induction (merge_small_dims shape merge) as [|a l IH]; cbn; [exact I|].
    split; [|exact IH]. unfold f. destruct (a >=? block)%Z; [|lia].
    pose proof (round_up_ge a block ltac:(lia)). lia.
Qed.

(* merging / zero-padding never changes the values delivered for real entries: for every
   configuration and parameter shape, unmerge (merge_pad g) = g *)
Theorem tf_unmerge_merge_id c shape g :
  (0 <= so_block c)%Z ->
  length g = prodn (nats (sh_merged_shape (shapes_of c shape))) ->
  unmerge (shapes_of c shape) (merge_pad (shapes_of c shape) g) = g.
Proof.
  intros Hb Hg. unfold unmerge, merge_pad. cbn [t_data].
  apply unpad_pad; [apply derive_shapes_le; exact Hb | exact Hg].
Qed.

(* the merged shape has as many entries as the parameter (C06: merge_small_dims preserves the
   product), so the length hypothesis above says "g has the parameter's size" *)
From Precond Require Import C06.MergeProofs.

Lemma prodn_nats l : all_ge1 l -> Z.of_nat (prodn (nats l)) = prod_z l.
Proof.
  induction l as [|a l IH]; intro H; [reflexivity|].
  inversion H; subst. cbn [nats map]. rewrite prodn_cons, prod_z_cons, Nat2Z.inj_mul.
  fold (nats l). rewrite IH by assumption. rewrite Z2Nat.id by lia. reflexivity.
Qed.

Lemma all_ge1_merge l m : (1 <= m)%Z -> all_ge1 l -> all_ge1 (merge_small_dims l m).
Proof.
  intros Hm Hl. destruct (merge_small_dims_no_unit l m Hm Hl) as [E|F].
  - rewrite E. constructor; [lia | constructor].
  - eapply Forall_impl; [|exact F]. cbn. intros; lia.
Qed.

Theorem merged_size c shape : (1 <= c_merge c)%Z -> all_ge1 shape ->
  prodn (nats (sh_merged_shape (shapes_of c shape))) = prodn (nats shape).
Proof.
  intros Hm Hs. apply Nat2Z.inj. rewrite (prodn_nats shape Hs).
  unfold shapes_of, derive_shapes.
  pose proof (merge_small_dims_product shape (c_merge c) Hm Hs) as P.
  destruct (list_eqb_z (merge_small_dims shape (c_merge c)) [1%Z]) eqn:E; cbn [sh_merged_shape].
  - apply list_eqb_z_spec in E. rewrite E in P. rewrite <- P. reflexivity.
  - rewrite prodn_nats by (apply all_ge1_merge; assumption). exact P.
Qed.

(* ------------------------------------------------------------------------------------------- *)
(* 4. root spec, over any associative algebra (matrices with their product)                     *)
(* ------------------------------------------------------------------------------------------- *)
Section RootSpec.
  Variable M : Type.
  Variable mul : M -> M -> M.
  Variable one : M.
  Hypothesis mul_assoc : forall a b c, mul a (mul b c) = mul (mul a b) c.
  Hypothesis mul_1_l : forall a, mul one a = a.
  Hypothesis mul_1_r : forall a, mul a one = a.

  Fixpoint mpw (a : M) (n : nat) : M := match n with O => one | S n' => mul a (mpw a n') end.

  (* eigh answer: V^T V = I, C = V Dw V^T; scalar roots on the diagonal: Dr^p Dw = Dm (the 0/1
     mask of kept eigenvalues), Dr Dm = Dr, Dm Dm = Dm *)
  Variables V Vt Dw Dr Dm : M.
  Hypothesis ortho : mul Vt V = one.

  Lemma conj_pow n : mpw (mul (mul V Dr) Vt) n = mul (mul V (mpw Dr n)) Vt \/ n = O.
  Proof.
    induction n as [|n IH]; [right; reflexivity|]. left. cbn [mpw].
    destruct IH as [IH|IH].
    - rewrite IH.
      rewrite (mul_assoc (mul (mul V Dr) Vt) (mul V (mpw Dr n)) Vt).
      rewrite (mul_assoc (mul (mul V Dr) Vt) V (mpw Dr n)).
      rewrite <- (mul_assoc (mul V Dr) Vt V). rewrite ortho, mul_1_r.
      rewrite <- (mul_assoc V Dr (mpw Dr n)). reflexivity.
    - subst n. cbn [mpw]. rewrite !mul_1_r. reflexivity.
  Qed.

  (* root^p * cov = projector onto the kept eigenspace;  root * projector = root;  projector
     idempotent — for every p >= 1 *)
  Theorem roots_spec p : (1 <= p)%nat ->
    mul (mpw Dr p) Dw = Dm -> mul Dr Dm = Dr -> mul Dm Dm = Dm ->
    let R := mul (mul V Dr) Vt in
    let C := mul (mul V Dw) Vt in
    let P := mul (mul V Dm) Vt in
    mul (mpw R p) C = P /\ mul R P = R /\ mul P P = P.
  Proof.
    intros Hp H1 H2 H3 R C P. unfold R, C, P.
    assert (Hconj : forall A B, mul (mul (mul V A) Vt) (mul (mul V B) Vt) = mul (mul V (mul A B)) Vt).
    { intros A B.
      rewrite (mul_assoc (mul (mul V A) Vt) (mul V B) Vt).
      rewrite (mul_assoc (mul (mul V A) Vt) V B).
      rewrite <- (mul_assoc (mul V A) Vt V). rewrite ortho, mul_1_r.
      rewrite <- (mul_assoc V A B). reflexivity. }
    split; [|split].
    - destruct (conj_pow p) as [E|E]; [|lia]. rewrite E, Hconj, H1. reflexivity.
    - rewrite Hconj, H2. reflexivity.
    - rewrite Hconj, H3. reflexivity.
  Qed.
End RootSpec.

(* the scalar identity on the diagonal: r^p w = [kept], given r^p w = 1 on kept entries and r = 0
   elsewhere *)
Lemma scalar_root_mask (p : positive) (kept : bool) (r w : Q) :
  (if kept then Qpower r (Zpos p) * w == 1 else r == 0) ->
  Qpower r (Zpos p) * w == (if kept then 1 else 0).
Proof.
  destruct kept; intro H; [exact H|].
  assert (E : Qpower r (Zpos p) == 0).
  { cbn [Qpower]. rewrite H. clear H. induction p as [p IH|p IH|]; cbn [Qpower_positive pow_pos] in *.
    - rewrite IH. ring.
    - rewrite IH. ring.
    - reflexivity. }
  rewrite E. ring.
Qed.
