(* C15/Tensor.v — row-major tensors over Q (shape + flat data) with exactly the operations the
   Tearfree pipeline performs: axis-0 unfolding, mode product followed by the axis roll, Gram
   matrices of every axis, rectangular sub-tensor extraction / insertion (zero padding and
   blocking are instances), plus a computed square root.  Definitions only. *)
From Precond Require Import Base.QMat.
Open Scope Q_scope.

Definition prodn (l : list nat) : nat := fold_right Nat.mul 1%nat l.

(* k chunks of length n *)
Fixpoint chunks {A} (n k : nat) (l : list A) : list (list A) :=
  match k with O => [] | S k' => firstn n l :: chunks n k' (skipn n l) end.

Fixpoint map2 {A B C} (f : A -> B -> C) (l1 : list A) (l2 : list B) : list C :=
  match l1, l2 with a :: t1, b :: t2 => f a b :: map2 f t1 t2 | _, _ => [] end.

Record tensor := mkT { t_shape : list nat; t_data : vec }.

(* d0 x (product of the remaining dims); a scalar is a 1 x 1 matrix *)
Definition unfold0 (t : tensor) : mat :=
  match t_shape t with
  | [] => [t_data t]
  | d0 :: rest => chunks (prodn rest) d0 (t_data t)
  end.

(* out[rest.., o] = sum_c P[o][c] * t[c, rest..]  (mode product on axis 0 by P, then axis 0 moved
   last).  [None]: the plain roll (transpose of the unfolding). *)
Definition roll_mul (P : option mat) (t : tensor) : tensor :=
  match t_shape t with
  | [] => t
  | d0 :: rest =>
    let Gt := transpose_n (prodn rest) (chunks (prodn rest) d0 (t_data t)) in
    match P with
    | None => mkT (rest ++ [d0]) (concat Gt)
    | Some Pm =>
      mkT (rest ++ [length Pm]) (concat (map (fun r => map (fun pr => qnorm (dot r pr)) Pm) Gt))
    end
  end.

(* every axis multiplied by its matrix: n rolls bring the axes back in place *)
Definition mode_all (Ps : list mat) (t : tensor) : tensor :=
  fold_left (fun g P => roll_mul (Some P) g) Ps t.

Definition gram_rows (G : mat) : mat := map (fun r => map (fun s => qnorm (dot r s)) G) G.

(* G_(k) G_(k)^T for every axis k, in axis order *)
Fixpoint grams_from (k : nat) (t : tensor) : list mat :=
  match k with
  | O => []
  | S k' => gram_rows (unfold0 t) :: grams_from k' (roll_mul None t)
  end.
Definition grams (t : tensor) : list mat := grams_from (length (t_shape t)) t.

(* unfolding along axis k: d_k x (product of the others, cyclic order) *)
Fixpoint roll_n (k : nat) (t : tensor) : tensor :=
  match k with O => t | S k' => roll_n k' (roll_mul None t) end.
Definition unfold_axis (k : nat) (t : tensor) : mat := unfold0 (roll_n k t).

(* ---------- rectangular sub-tensors ---------- *)
(* data of t[starts_0 : starts_0+sizes_0, ...] *)
Fixpoint slice_rec (shape starts sizes : list nat) (data : vec) : vec :=
  match shape, starts, sizes with
  | d :: rest, s :: ss, z :: zs =>
    let rows := chunks (prodn rest) d data in
    concat (map (slice_rec rest ss zs) (firstn z (skipn s rows)))
  | _, _, _ => data
  end.

(* data of t with t[starts : starts+sizes] replaced by [block] *)
Fixpoint put_rec (shape starts sizes : list nat) (block data : vec) : vec :=
  match shape, starts, sizes with
  | d :: rest, s :: ss, z :: zs =>
    let rows := chunks (prodn rest) d data in
    let brows := chunks (prodn zs) z block in
    concat (firstn s rows ++
            map2 (fun b r => put_rec rest ss zs b r) brows (firstn z (skipn s rows)) ++
            skipn (s + z) rows)
  | _, _, _ => block
  end.

Definition zeros_like (shape : list nat) : vec := repeat 0 (prodn shape).
Definition origin (shape : list nat) : list nat := map (fun _ => 0%nat) shape.

(* jnp.pad(x, [(0, p - m)]) and x[tuple(slice(0, m))] *)
Definition pad_to (small big : list nat) (data : vec) : vec :=
  put_rec big (origin big) small data (zeros_like big).
Definition unpad_from (small big : list nat) (data : vec) : vec :=
  slice_rec big (origin big) small data.

(* ---------- computed square root, relative precision 2^-60 ---------- *)
Definition qsqrt (x : Q) : Q :=
  if Qleb x 0 then 0
  else
    let n := Qnum x in
    let d := Zpos (Qden x) in
    let lg := (Z.log2 n - Z.log2 d)%Z in
    let s := (64 - lg / 2)%Z in
    if (0 <=? s)%Z
    then (Z.sqrt ((n * 4 ^ s) / d)) # (Z.to_pos (2 ^ s))
    else inject_Z (Z.sqrt (n / (d * 4 ^ (- s))) * 2 ^ (- s)).

Definition vnorm (v : vec) : Q := qsqrt (qnorm (dot v v)).

(* infinity norm of a matrix / vector (error-scale bookkeeping only) *)
Definition vsumabs (v : vec) : Q := fold_left (fun a x => a + Qabs x) v 0.
Definition minf (M : mat) : Q := fold_left (fun a r => Qmax a (vsumabs r)) M 0.
