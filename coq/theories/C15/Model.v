(* C15/Model.v — tf_spec: the documented composition of the Tearfree optimizer,
       scale(-lr t)  o  momentum / weight decay  o  graft  o  unmerge  o  second_order  o  merge+pad
   as executable Gallina over Q, definitions only.

   Shape logic (merge_small_dims, _derive_shapes, _blocks_metadata) is C06.Ref, regenerated from
   /repo's source on every run.  LAPACK-style kernels are NOT computed: the inverse roots of the
   Shampoo statistics and the frequent-directions factorisation of Sketchy enter as oracle ANSWERS
   (arguments), whose specs live in C15.Check (executable, with tolerance) and C15.Proofs (exact).
   Square roots are computed to 2^-60 relative precision (Tensor.qsqrt). *)
From Precond Require Import Base.PyLib Base.QMat C06.Records C06.Ref C09.Model C15.Tensor.
Open Scope Q_scope.

(* ---------- configuration ---------- *)
Record cfg := mkcfg {
  c_so : Z;                       (* 0 = Shampoo, 1 = Sketchy *)
  c_block : Z; c_merge : Z; c_sfreq : Z; c_pfreq : Z; c_beta2 : Q;
  c_rank : Z; c_seps : Q; c_releps : bool;
  c_graft : Z;                    (* 0 none, 1 sgd, 2 rmsprop, 3 adafactor *)
  c_gbeta : Q; c_geps : Q; c_gstart : Z; c_skip1 : bool; c_skipgt : Z;
  c_ema : bool; c_nest : bool; c_mdecay : Q; c_wd : Q; c_wdafter : bool
}.

Definition nats (l : list Z) : list nat := map Z.to_nat l.

(* grafting._mask_skipped (only consulted when a grafting type is configured) *)
Definition masked (c : cfg) (shape : list Z) : bool :=
  negb (c_graft c =? 0)%Z &&
  ((c_skip1 c && (zlen shape <=? 1)%Z) || existsb (fun s => (s >? c_skipgt c)%Z) shape).

(* second_order._reshaper_options + reshaper._derive_shapes *)
Definition so_block (c : cfg) : Z := if (c_so c =? 0)%Z then c_block c else 0%Z.
Definition shapes_of (c : cfg) (shape : list Z) : Shapes := derive_shapes (c_merge c) (so_block c) shape.

(* reshaper.merge: reshape (row-major data unchanged) then zero-pad; reshaper.unmerge: slice, reshape *)
Definition merge_pad (sh : Shapes) (g : vec) : tensor :=
  let m := nats (sh_merged_shape sh) in
  let p := nats (sh_padded_shape sh) in
  mkT p (pad_to m p g).
Definition unmerge (sh : Shapes) (t : tensor) : vec :=
  unpad_from (nats (sh_merged_shape sh)) (nats (sh_padded_shape sh)) (t_data t).

(* ---------- Shampoo: blocks ---------- *)
(* block b of the padded tensor is the contiguous sub-tensor at [starts b] of size [sizes];
   blocks are numbered row-major over the blocked axes (shampoo._blockify) *)
Definition sh_meta (c : cfg) (pshape : list nat) : BlocksMetadata :=
  blocks_metadata (c_block c) (map Z.of_nat pshape).
Definition blk_sizes (bm : BlocksMetadata) : list nat := nats (bm_block_sizes bm).
Definition axis_starts (bm : BlocksMetadata) (i : Z) (d : nat) : list nat :=
  if existsb (Z.eqb i) (bm_large_axes bm)
  then map (fun k => (k * Z.to_nat (bm_large_block_size bm))%nat)
           (seq 0 (d / Z.to_nat (bm_large_block_size bm))%nat)
  else [0%nat].
Definition blk_starts (bm : BlocksMetadata) (pshape : list nat) : list (list nat) :=
  cart_prod (map (fun '(i, d) => axis_starts bm i d) (enumerate_z pshape)).

Definition blocks_of (bm : BlocksMetadata) (t : tensor) : list tensor :=
  map (fun st => mkT (blk_sizes bm) (slice_rec (t_shape t) st (blk_sizes bm) (t_data t)))
      (blk_starts bm (t_shape t)).
Definition assemble (bm : BlocksMetadata) (pshape : list nat) (bs : list tensor) : tensor :=
  mkT pshape (fold_left (fun acc '(st, b) => put_rec pshape st (blk_sizes bm) (t_data b) acc)
                        (combine (blk_starts bm pshape) bs) (zeros_like pshape)).

(* [axis][block] -> [block][axis] *)
Definition per_block {A} (nb : nat) (xs : list (list A)) : list (list A) :=
  map (fun b => flat_map (fun ax => match nth_error ax b with Some x => [x] | None => [] end) xs)
      (seq 0 nb).

Definition ema (beta : Q) (St C : mat) : mat :=
  if Qeq_bool beta 1 then madd St C else madd (mscale beta St) (mscale (1 - beta) C).

(* shampoo._update_block_stats: stats[axis][block] <- ema(stats, Gram of that axis of that block) *)
Definition sh_new_stats (c : cfg) (t : tensor) (stats : list (list mat)) : list (list mat) :=
  let bm := sh_meta c (t_shape t) in
  let gs := map grams (blocks_of bm t) in                       (* [block][axis] *)
  map (fun '(k, ax) =>
         map (fun '(b, St) => ema (c_beta2 c) St (nth k (nth b gs []) [])) (combine (seq 0 (length ax)) ax))
      (combine (seq 0 (length stats)) stats).

(* shampoo._precondition_blocks + _deblockify *)
Definition sh_precondition (c : cfg) (t : tensor) (roots : list (list mat)) : tensor :=
  let bm := sh_meta c (t_shape t) in
  let bs := blocks_of bm t in
  let rs := per_block (length bs) roots in
  assemble bm (t_shape t) (map2 (fun b r => mkT (t_shape b) (t_data (mode_all r b))) bs rs).

(* ---------- Sketchy ---------- *)
Record skaxis := mkax { a_V : list vec; a_e : vec; a_inv : vec; a_tail : Q; a_itail : Q }.

(* sketchy._precondition, one axis:  V diag(inv) V^T + inv_tail (I - V V^T) *)
Definition sk_axis_matrix (d : nat) (a : skaxis) : mat :=
  let VV := sketch_mat d (a_V a) (repeat 1 (length (a_V a))) in
  madd (sketch_mat d (a_V a) (a_inv a)) (mscale (a_itail a) (msub (eye d) VV)).
Definition sk_matrices (t : tensor) (axes : list skaxis) : list mat :=
  map2 sk_axis_matrix (t_shape t) axes.
Definition sk_precondition (t : tensor) (axes : list skaxis) : tensor :=
  mkT (t_shape t) (t_data (mode_all (sk_matrices t axes) t)).

(* matrix whose factorisation sketchy._update_axis asks for, axis k:
   beta * V diag(e^2) V^T + G_(k) G_(k)^T *)
Definition sqv (l : vec) : vec := map (fun a => qnorm (a * a)) l.
Definition sk_expected_gram (beta : Q) (d : nat) (a : skaxis) (Gk : mat) : mat :=
  madd (mscale beta (sketch_mat d (a_V a) (sqv (a_e a)))) (gram_rows Gk).

(* ---------- second-order state of one leaf ---------- *)
Inductive so_state :=
| SoNone                                             (* masked leaf / nothing tracked *)
| SoSh (stats roots : list (list mat))               (* [axis][block] *)
| SoSk (axes : list skaxis).

Record lstate := mkls { l_so : so_state; l_acc : vec; l_trace : vec }.

Definition due (count freq : Z) : bool := (count mod freq =? 0)%Z.

(* second_order.apply on one leaf, given the oracle's answer [ans] (the refreshed roots resp. the
   refreshed sketch; ignored when nothing is refreshed at this step).  Returns the new state and
   the preconditioned gradient in the parameter's own shape. *)
Definition so_step (c : cfg) (socount : Z) (shape : list Z) (g : vec) (s ans : so_state)
  : so_state * vec :=
  let sh := shapes_of c shape in
  let t := merge_pad sh g in
  match s, ans with
  | SoSh stats roots, SoSh _ new_roots =>
    let stats' := if due socount (c_sfreq c) then sh_new_stats c t stats else stats in
    let roots' := if due socount (c_pfreq c) then new_roots else roots in
    (SoSh stats' roots', unmerge sh (sh_precondition c t roots'))
  | SoSk axes, SoSk new_axes =>
    let axes' := if due socount (c_sfreq c) then new_axes else axes in
    (SoSk axes', unmerge sh (sk_precondition t axes'))
  | _, _ => (s, g)
  end.

(* ---------- grafting ---------- *)
Definition rms_acc (beta : Q) (acc g : vec) : vec :=
  map2 (fun a x => if Qeq_bool beta 1 then x * x + a else x * x * (1 - beta) + beta * a) acc g.
Definition rms_update (eps : Q) (g acc : vec) : vec := map2 (fun x a => x / qsqrt (a + eps)) g acc.

(* (grafting update, new accumulator); adafactor's update is an oracle value [ada] *)
Definition graft_update (c : cfg) (g acc ada : vec) : vec * vec :=
  if (c_graft c =? 2)%Z then let acc' := rms_acc (c_gbeta c) acc g in (rms_update (c_geps c) g acc', acc')
  else if (c_graft c =? 3)%Z then (ada, acc)
  else (g, acc).

(* grafting._graft_with.maybe_graft *)
Definition graft_combine (count start : Z) (graft base : vec) : vec :=
  let bn := vnorm base in
  let m := if Qltb 0 bn then vnorm graft / bn else 0 in
  if (start <=? count)%Z then vscale m base else graft.

(* ---------- momentum.apply: the chain of optax transforms, exactly as composed ---------- *)
Inductive tx := TxScale (s : Q) | TxTrace (d : Q) (nest : bool) | TxWd (w : Q).

(* (update, trace state) -> (update, trace state); x = current parameters *)
Definition tx_apply (x : vec) (st : vec * vec) (t : tx) : vec * vec :=
  let '(u, tr) := st in
  match t with
  | TxScale s => (vscale s u, tr)                                   (* optax.scale *)
  | TxTrace d nest =>                                               (* optax.trace *)
    let tr' := vadd u (vscale d tr) in
    ((if nest then vadd u (vscale d tr') else tr'), tr')
  | TxWd w => (vadd u (vscale w x), tr)                             (* optax.add_decayed_weights *)
  end.

Definition momentum_txs (c : cfg) : list tx :=
  let m := if Qeq_bool (c_mdecay c) 0 then []
           else (if c_ema c then [TxScale (1 - c_mdecay c)] else []) ++ [TxTrace (c_mdecay c) (c_nest c)] in
  let w := if Qltb 0 (c_wd c) then [TxWd (c_wd c)] else [] in
  if c_wdafter c then m ++ w else w ++ m.

Definition momentum_apply (c : cfg) (u tr x : vec) : vec * vec :=
  fold_left (tx_apply x) (momentum_txs c) (u, tr).

(* ---------- learning rate: optax.scale(-lr) / scale_by_schedule(-lr(count)) ---------- *)
Definition lr_at (lr : Q) (sched : list Q) (lrcount : Z) : Q :=
  match sched with [] => lr | _ => nth (Z.to_nat lrcount) sched 0 end.

(* ---------- one leaf, one step ---------- *)
(* everything the learning rate does not touch *)
Definition leaf_core (c : cfg) (gcount socount : Z) (shape : list Z) (x g : vec) (s : lstate)
           (ans : so_state) (ada : vec) : vec * lstate :=
  let msk := masked c shape in
  let '(so', base) := if msk then (l_so s, g) else so_step c socount shape g (l_so s) ans in
  let '(gu, acc') := graft_update c g (l_acc s) ada in
  let grafted :=
    if (c_graft c =? 0)%Z then base
    else if msk then gu
    else graft_combine gcount (c_gstart c) gu base in
  let '(u, tr') := momentum_apply c grafted (l_trace s) x in
  (u, mkls so' acc' tr').

Definition tf_leaf (c : cfg) (lr : Q) (gcount socount : Z) (shape : list Z) (x g : vec) (s : lstate)
           (ans : so_state) (ada : vec) : vec * lstate :=
  let '(u, s') := leaf_core c gcount socount shape x g s ans ada in
  (vscale (- lr) u, s').

(* ---------- a whole history of one leaf (all three counters start at 0 and advance together;
   the parameter values x_t and the oracle answers are part of the history) ---------- *)
Record inp := mkinp { i_x : vec; i_g : vec; i_ans : so_state; i_ada : vec }.

Fixpoint tf_run (c : cfg) (lr : Z -> Q) (count : Z) (shape : list Z) (s : lstate) (h : list inp)
  : list vec * lstate :=
  match h with
  | [] => ([], s)
  | i :: rest =>
    let '(u, s1) := tf_leaf c (lr count) count count shape (i_x i) (i_g i) s (i_ans i) (i_ada i) in
    let '(us, sT) := tf_run c lr (count + 1) shape s1 rest in
    (u :: us, sT)
  end.

(* ---------- the documented momentum formula (momentum.Options docstring) ---------- *)
(* velocity' = decay * velocity + s * update,   s = 1 - decay if ema else 1
   update'   = s * update + decay * velocity'   if nesterov else velocity'
   weight decay adds wd * x to the incoming update (before) or to the outgoing one (after) *)
Definition doc_momentum1 (c : cfg) (u tr x : Q) : Q * Q :=
  let d := c_mdecay c in
  let s := if c_ema c then 1 - d else 1 in
  let has_wd := Qltb 0 (c_wd c) in
  let u_in := if has_wd && negb (c_wdafter c) then u + c_wd c * x else u in
  let after := if has_wd && c_wdafter c then c_wd c * x else 0 in
  if Qeq_bool d 0 then (u_in + after, tr)
  else
    let v := d * tr + s * u_in in
    ((if c_nest c then s * u_in + d * v else v) + after, v).
