(* C15/Padding.v — zero padding of a block (reshaper.merge pads the last block of a blocked axis
   with zero rows): its statistics are block diagonal with a zero block, the other axis' statistics
   do not change, and with root (+) 0 the preconditioned block is the unpadded result with zero rows
   appended.  List matrices of Base.QMat, entrywise equality ==. *)
From Coq Require Import QArith ZArith List Bool Lia Lqa.
From Precond Require Import Base.QMat C15.Tensor C15.Proofs.
Import ListNotations.
Open Scope Q_scope.

Definition meqv (A B : mat) : Prop := Forall2 veqv A B.

Definition zrow (m : nat) : vec := repeat 0 m.
Definition zrows (k m : nat) : mat := repeat (zrow m) k.
Definition padr (T : mat) (k m : nat) : mat := T ++ zrows k m.            (* k zero rows appended *)
Definition bd (C : mat) (k : nat) : mat :=                                 (* C (+) 0_k *)
  map (fun r => r ++ zrow k) C ++ zrows k (length C + k).

Lemma meqv_refl A : meqv A A.
Proof. induction A; constructor; [apply veqv_refl | assumption]. Qed.

Lemma dot_zrow_r : forall x k, dot x (zrow k) == 0.
Proof.
  induction x as [|a x IH]; intro k; [reflexivity|].
  destruct k as [|k]; [reflexivity|]. cbn [zrow repeat dot]. fold (zrow k). rewrite IH. ring.
Qed.

Lemma dot_zrow_l : forall k x, dot (zrow k) x == 0.
Proof. intros k x. rewrite dot_comm. apply dot_zrow_r. Qed.

Lemma dot_app : forall x1 y1 x2 y2, length x1 = length y1 ->
  dot (x1 ++ x2) (y1 ++ y2) == dot x1 y1 + dot x2 y2.
Proof.
  induction x1 as [|a x1 IH]; intros [|b y1] x2 y2 H; cbn in *; try discriminate.
  - ring.
  - rewrite IH by lia. ring.
Qed.

Lemma dot_app_zero x y k : length x = length y -> dot (x ++ zrow k) (y ++ zrow k) == dot x y.
Proof. intro H. rewrite dot_app by exact H. rewrite dot_zrow_r. ring. Qed.

Lemma veqv_app a b c d : veqv a b -> veqv c d -> veqv (a ++ c) (b ++ d).
Proof. intros H1 H2. apply Forall2_app; assumption. Qed.

Lemma veqv_zrow (f : vec -> Q) (Z : mat) : (forall z, In z Z -> f z == 0) ->
  veqv (map f Z) (zrow (length Z)).
Proof.
  induction Z as [|z Z IH]; intro H; [constructor|].
  cbn [map length zrow repeat]. constructor.
  - apply H. left. reflexivity.
  - apply IH. intros z' Hz. apply H. right. exact Hz.
Qed.

Lemma in_zrows z k m : In z (zrows k m) -> z = zrow m.
Proof. intro H. apply repeat_spec in H. exact H. Qed.

Lemma zrows_length k m : length (zrows k m) = k.
Proof. apply repeat_length. Qed.

(* (i) statistics of the padded axis: Gram (T ++ zero rows) = Gram T (+) 0 *)
Theorem gram_padded_axis T k m :
  meqv (gram_rows (padr T k m)) (bd (gram_rows T) k).
Proof.
  unfold gram_rows, padr, bd. rewrite map_app. apply Forall2_app.
  - rewrite map_map.
    assert (G : forall rows, Forall2 veqv
              (map (fun r => map (fun s => qnorm (dot r s)) (T ++ zrows k m)) rows)
              (map (fun x => map (fun s => qnorm (dot x s)) T ++ zrow k) rows)).
    { induction rows as [|r rows IH]; [constructor|]. cbn [map]. constructor; [|exact IH].
      rewrite map_app. apply veqv_app; [apply veqv_refl|].
      rewrite <- (zrows_length k m) at 2. apply veqv_zrow.
      intros z Hz. apply in_zrows in Hz. subst z. rewrite qnorm_correct. apply dot_zrow_r. }
    apply G.
  - rewrite map_length.
    assert (G : forall Z, (forall z, In z Z -> z = zrow m) ->
              Forall2 veqv (map (fun r => map (fun s => qnorm (dot r s)) (T ++ zrows k m)) Z)
                           (repeat (zrow (length T + k)) (length Z))).
    { induction Z as [|z Z IH]; intro HZ; [constructor|]. cbn [map length repeat]. constructor.
      - rewrite (HZ z (or_introl eq_refl)).
        replace (length T + k)%nat with (length (T ++ zrows k m))
          by (rewrite app_length, zrows_length; reflexivity).
        apply veqv_zrow. intros s _. rewrite qnorm_correct. apply dot_zrow_l.
      - apply IH. intros z' Hz'. apply HZ. right. exact Hz'. }
    specialize (G (zrows k m) (fun z Hz => in_zrows z k m Hz)).
    rewrite zrows_length in G. exact G.
Qed.

(* transposition of a matrix with zero rows appended: every column gets k zeros appended *)
Lemma hd_zrows k m : map (hd 0) (zrows k m) = zrow k.
Proof.
  unfold zrows, zrow. induction k as [|k IH]; [reflexivity|]. cbn [repeat map]. rewrite IH.
  destruct m; reflexivity.
Qed.

Lemma tl_zrows k m : map (@tl Q) (zrows k m) = zrows k (pred m).
Proof.
  unfold zrows, zrow. induction k as [|k IH]; [reflexivity|]. cbn [repeat map]. rewrite IH.
  destruct m; reflexivity.
Qed.

Lemma transpose_n_padr : forall n T k m,
  transpose_n n (T ++ zrows k m) = map (fun c => c ++ zrow k) (transpose_n n T).
Proof.
  induction n as [|n IH]; intros T k m; [reflexivity|].
  cbn [transpose_n map]. rewrite !map_app, hd_zrows, tl_zrows, IH. reflexivity.
Qed.

(* (ii) statistics of the other axis do not change *)
Theorem gram_other_axis T k m n :
  Forall (fun c => True) T ->
  meqv (gram_rows (transpose_n n (padr T k m))) (gram_rows (transpose_n n T)).
Proof.
  intros _. unfold padr. rewrite transpose_n_padr. unfold gram_rows.
  set (Tt := transpose_n n T).
  assert (L : forall c, In c Tt -> length c = length T).
  { unfold Tt. clear. revert T. induction n as [|n IH]; intros T c H; [destruct H|].
    cbn [transpose_n] in H. destruct H as [H|H].
    - subst c. apply map_length.
    - rewrite (IH _ _ H). apply map_length. }
  rewrite map_map.
  assert (G : forall rows, (forall c, In c rows -> length c = length T) ->
            Forall2 veqv
              (map (fun x => map (fun s => qnorm (dot (x ++ zrow k) s)) (map (fun c => c ++ zrow k) Tt)) rows)
              (map (fun r => map (fun s => qnorm (dot r s)) Tt) rows)).
  { induction rows as [|r rows IH]; intro Hr; [constructor|]. cbn [map]. constructor.
    - rewrite map_map.
      assert (G2 : forall cols, (forall c, In c cols -> length c = length T) ->
                Forall2 Qeq (map (fun x => qnorm (dot (r ++ zrow k) (x ++ zrow k))) cols)
                            (map (fun s => qnorm (dot r s)) cols)).
      { induction cols as [|c cols IHc]; intro Hc; [constructor|]. cbn [map]. constructor.
        - rewrite !qnorm_correct. apply dot_app_zero.
          rewrite (Hr r (or_introl eq_refl)), (Hc c (or_introl eq_refl)). reflexivity.
        - apply IHc. intros c' Hc'. apply Hc. right. exact Hc'. }
      apply G2. exact L.
    - apply IH. intros c Hc. apply Hr. right. exact Hc. }
  apply G. exact L.
Qed.

(* (iii) preconditioning the padded axis with root (+) 0: the unpadded result, zero rows appended *)
Theorem precondition_padded_axis L T k m :
  T <> [] -> length L = length T -> Forall (fun l => length l = length T) L ->
  Forall (fun r => length r = m) T ->
  meqv (mmul (bd L k) (padr T k m)) (padr (mmul L T) k m).
Proof.
  intros Hne HL Hl Hm. unfold mmul.
  assert (Hnc : ncols (padr T k m) = ncols T) by (destruct T; [contradiction | reflexivity]).
  assert (Hm' : ncols T = m) by (destruct T; [contradiction | inversion Hm; assumption]).
  unfold transpose. rewrite Hnc. unfold padr at 1. rewrite transpose_n_padr.
  set (Tt := transpose_n (ncols T) T).
  assert (Lc : forall c, In c Tt -> length c = length T).
  { unfold Tt. generalize (ncols T). clear. intro n. revert T.
    induction n as [|n IH]; intros T c H; [destruct H|].
    cbn [transpose_n] in H. destruct H as [H|H].
    - subst c. apply map_length.
    - rewrite (IH _ _ H). apply map_length. }
  assert (Ltt : length Tt = m).
  { unfold Tt. rewrite Hm'. clear. generalize T. induction m as [|m IH]; intro T0; [reflexivity|].
    cbn [transpose_n length]. rewrite IH. reflexivity. }
  unfold bd, padr. rewrite map_app. apply Forall2_app.
  - rewrite map_map.
    assert (G : forall rows, (forall l, In l rows -> length l = length T) ->
              Forall2 veqv
                (map (fun x => map (fun c => qnorm (dot (x ++ zrow k) c)) (map (fun c => c ++ zrow k) Tt)) rows)
                (map (fun r => map (fun c => qnorm (dot r c)) Tt) rows)).
    { induction rows as [|r rows IH]; intro Hr; [constructor|]. cbn [map]. constructor.
      - rewrite map_map.
        assert (G2 : forall cols, (forall c, In c cols -> length c = length T) ->
                  Forall2 Qeq (map (fun x => qnorm (dot (r ++ zrow k) (x ++ zrow k))) cols)
                              (map (fun c => qnorm (dot r c)) cols)).
        { induction cols as [|c cols IHc]; intro Hc; [constructor|]. cbn [map]. constructor.
          - rewrite !qnorm_correct. apply dot_app_zero.
            rewrite (Hr r (or_introl eq_refl)), (Hc c (or_introl eq_refl)). reflexivity.
          - apply IHc. intros c' Hc'. apply Hc. right. exact Hc'. }
        apply G2. exact Lc.
      - apply IH. intros l Hl'. apply Hr. right. exact Hl'. }
    apply G. intros l Hin. apply (proj1 (Forall_forall _ _) Hl). exact Hin.
  - assert (G : forall Z, (forall z, In z Z -> z = zrow (length L + k)) ->
              Forall2 veqv
                (map (fun r => map (fun c => qnorm (dot r c)) (map (fun c => c ++ zrow k) Tt)) Z)
                (repeat (zrow m) (length Z))).
    { induction Z as [|z Z IH]; intro HZ; [constructor|]. cbn [map length repeat]. constructor.
      - rewrite (HZ z (or_introl eq_refl)). rewrite <- Ltt.
        rewrite <- (map_length (fun c => c ++ zrow k) Tt).
        apply veqv_zrow. intros s _. rewrite qnorm_correct. apply dot_zrow_l.
      - apply IH. intros z' Hz'. apply HZ. right. exact Hz'. }
    specialize (G (zrows k (length L + k)) (fun z Hz => in_zrows z k _ Hz)).
    rewrite zrows_length in G. exact G.
Qed.

(* right multiplication (the other axis' root): zero rows stay zero rows *)
Theorem precondition_other_axis T R k m :
  meqv (mmul (padr T k m) R) (padr (mmul T R) k (length (transpose R))).
Proof.
  unfold mmul, padr. rewrite map_app. apply Forall2_app; [apply meqv_refl|].
  assert (G : forall Z, (forall z, In z Z -> z = zrow m) ->
            Forall2 veqv (map (fun r => map (fun c => qnorm (dot r c)) (transpose R)) Z)
                         (repeat (zrow (length (transpose R))) (length Z))).
  { induction Z as [|z Z IH]; intro HZ; [constructor|]. cbn [map length repeat]. constructor.
    - rewrite (HZ z (or_introl eq_refl)). apply veqv_zrow.
      intros s _. rewrite qnorm_correct. apply dot_zrow_l.
    - apply IH. intros z' Hz'. apply HZ. right. exact Hz'. }
  specialize (G (zrows k m) (fun z Hz => in_zrows z k m Hz)).
  rewrite zrows_length in G. exact G.
Qed.

(* ---------- the root of a padded block, on the spec side ---------- *)
(* over any associative algebras with unit and a multiplicative embedding emb (C |-> C (+) 0): the
   pseudo-inverse-root spec is preserved, so root (+) 0 satisfies the spec of the padded statistics;
   with uniqueness of the root (an ASSUMPTION, named) the padded root IS root (+) 0 *)
Section PaddedRoot.
  Variables (M M' : Type) (mul : M -> M -> M) (one : M) (mul' : M' -> M' -> M') (one' : M').
  Hypothesis mul_1_r : forall a, mul a one = a.
  Hypothesis mul'_1_r : forall a, mul' a one' = a.
  Variable emb : M -> M'.
  Hypothesis emb_mul : forall a b, emb (mul a b) = mul' (emb a) (emb b).

  Definition pinv_spec (p : nat) (C R P : M) : Prop :=
    mul (mpw M mul one R p) C = P /\ mul R P = R /\ mul P P = P.
  Definition pinv_spec' (p : nat) (C R P : M') : Prop :=
    mul' (mpw M' mul' one' R p) C = P /\ mul' R P = R /\ mul' P P = P.

  Lemma emb_pow R p : (1 <= p)%nat -> emb (mpw M mul one R p) = mpw M' mul' one' (emb R) p.
  Proof.
    induction p as [|p IH]; intro H; [lia|].
    destruct p as [|p].
    - cbn [mpw]. rewrite mul_1_r, mul'_1_r. reflexivity.
    - change (mpw M mul one R (S (S p))) with (mul R (mpw M mul one R (S p))).
      change (mpw M' mul' one' (emb R) (S (S p))) with (mul' (emb R) (mpw M' mul' one' (emb R) (S p))).
      rewrite emb_mul, IH by lia. reflexivity.
  Qed.

  Theorem padded_root_spec p C R P : (1 <= p)%nat ->
    pinv_spec p C R P -> pinv_spec' p (emb C) (emb R) (emb P).
  Proof.
    intros Hp [H1 [H2 H3]]. unfold pinv_spec'.
    rewrite <- emb_pow by exact Hp. rewrite <- !emb_mul, H1, H2, H3. auto.
  Qed.

  (* named assumption: the spec determines the root *)
  Hypothesis pinv_root_unique : forall p C R R' P P',
    pinv_spec' p C R P -> pinv_spec' p C R' P' -> R = R'.

  Theorem padded_root_is_root_plus_zero p C R P Rpad Ppad : (1 <= p)%nat ->
    pinv_spec p C R P -> pinv_spec' p (emb C) Rpad Ppad -> Rpad = emb R.
  Proof.
    intros Hp HS HS'. eapply pinv_root_unique; [exact HS' | apply padded_root_spec; eassumption].
  Qed.
End PaddedRoot.
