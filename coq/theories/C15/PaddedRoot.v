(* C15/PaddedRoot.v — mmul respects entrywise equality, C |-> C (+) 0 is multiplicative, hence
   root (+) 0 satisfies the pseudo-inverse-root spec of zero-padded statistics (list matrices). *)
From Coq Require Import QArith ZArith List Bool Lia Lqa.
From Precond Require Import Base.QMat C15.Tensor C15.Proofs C15.Padding.
Import ListNotations.
Open Scope Q_scope.

(* ---------- meqv is an equivalence; mmul respects it ---------- *)
Lemma veqv_sym x y : veqv x y -> veqv y x.
Proof. induction 1; constructor; [symmetry; assumption | assumption]. Qed.
Lemma veqv_trans x y z : veqv x y -> veqv y z -> veqv x z.
Proof.
  intro H. revert z. induction H; intros z Hz; inversion Hz; subst; constructor.
  - etransitivity; eassumption.
  - apply IHForall2. assumption.
Qed.
Lemma meqv_sym A B : meqv A B -> meqv B A.
Proof. induction 1; constructor; [apply veqv_sym; assumption | assumption]. Qed.
Lemma meqv_trans A B C : meqv A B -> meqv B C -> meqv A C.
Proof.
  intro H. revert C. induction H; intros C HC; inversion HC; subst; constructor.
  - eapply veqv_trans; eassumption.
  - apply IHForall2. assumption.
Qed.

Lemma dot_veqv : forall x x' y y', veqv x x' -> veqv y y' -> dot x y == dot x' y'.
Proof.
  intros x x' y y' Hx. revert y y'. induction Hx as [|a a' x x' Ha Hx IH]; intros y y' Hy.
  - reflexivity.
  - inversion Hy as [|b b' y0 y0' Hb Hy0]; subst; cbn [dot]; [reflexivity|].
    rewrite Ha, Hb, (IH _ _ Hy0). reflexivity.
Qed.

Lemma veqv_length x y : veqv x y -> length x = length y.
Proof. induction 1; cbn; [reflexivity | f_equal; assumption]. Qed.

Lemma hd_meqv A B : meqv A B -> veqv (map (hd 0) A) (map (hd 0) B).
Proof.
  induction 1 as [|r r' A B Hr HA IH]; cbn [map]; constructor; [|exact IH].
  inversion Hr; subst; cbn [hd]; [reflexivity | assumption].
Qed.
Lemma tl_meqv A B : meqv A B -> meqv (map (@tl Q) A) (map (@tl Q) B).
Proof.
  induction 1 as [|r r' A B Hr HA IH]; cbn [map]; constructor; [|exact IH].
  inversion Hr; subst; cbn [tl]; [constructor | assumption].
Qed.
Lemma transpose_n_meqv : forall n A B, meqv A B -> meqv (transpose_n n A) (transpose_n n B).
Proof.
  induction n as [|n IH]; intros A B H; cbn [transpose_n]; constructor.
  - apply hd_meqv. exact H.
  - apply IH. apply tl_meqv. exact H.
Qed.
Lemma ncols_meqv A B : meqv A B -> ncols A = ncols B.
Proof. destruct 1; cbn [ncols]; [reflexivity | apply veqv_length; assumption]. Qed.

Lemma mmul_meqv A A' B B' : meqv A A' -> meqv B B' -> meqv (mmul A B) (mmul A' B').
Proof.
  intros HA HB. unfold mmul, transpose. rewrite (ncols_meqv _ _ HB).
  pose proof (transpose_n_meqv (ncols B') _ _ HB) as HT.
  set (Bt := transpose_n (ncols B') B) in *. set (Bt' := transpose_n (ncols B') B') in *.
  induction HA as [|r r' A A' Hr HA IH]; cbn [map]; constructor; [|exact IH].
  clear IH HA. induction HT as [|c c' Bt Bt' Hc HT IHc]; cbn [map]; constructor; [|exact IHc].
  rewrite !qnorm_correct. apply dot_veqv; assumption.
Qed.

(* ---------- bd is multiplicative ---------- *)
Lemma transpose_n_zrows : forall n d m, transpose_n n (zrows d m) = zrows n d.
Proof.
  induction n as [|n IH]; intros d m; [reflexivity|].
  cbn [transpose_n]. rewrite hd_zrows, tl_zrows, IH. reflexivity.
Qed.

Lemma transpose_n_zcols : forall n B k, Forall (fun r => length r = n) B ->
  transpose_n (n + k) (map (fun r => r ++ zrow k) B) = transpose_n n B ++ zrows k (length B).
Proof.
  induction n as [|n IH]; intros B k HB.
  - cbn [Nat.add transpose_n app].
    assert (E : map (fun r => r ++ zrow k) B = zrows (length B) k).
    { induction HB as [|r B Hr HB IHB]; [reflexivity|]. cbn [map length]. unfold zrows in *.
      cbn [repeat]. rewrite IHB. destruct r; [reflexivity | discriminate]. }
    rewrite E. apply transpose_n_zrows.
  - cbn [Nat.add transpose_n app]. f_equal.
    + rewrite map_map. apply map_ext_in. intros r Hr.
      pose proof (proj1 (Forall_forall _ _) HB r Hr) as L. destruct r; [discriminate | reflexivity].
    + rewrite map_map.
      rewrite (map_ext_in _ (fun r => tl r ++ zrow k)).
      * rewrite <- (map_map (@tl Q) (fun r => r ++ zrow k)).
        rewrite IH; [rewrite map_length; reflexivity|].
        apply Forall_forall. intros r Hr. apply in_map_iff in Hr as [r0 [E Hr0]]. subst r.
        pose proof (proj1 (Forall_forall _ _) HB r0 Hr0) as L. destruct r0; [discriminate|].
        cbn in *. lia.
      * intros r Hr. pose proof (proj1 (Forall_forall _ _) HB r Hr) as L.
        destruct r; [discriminate | reflexivity].
Qed.

Lemma mmul_length A B : length (mmul A B) = length A.
Proof. unfold mmul. apply map_length. Qed.

(* A * (B with k zero columns appended) = (A * B) with k zero columns appended *)
Lemma mmul_zcols A B k n : B <> [] -> Forall (fun r => length r = n) B ->
  meqv (mmul A (map (fun r => r ++ zrow k) B)) (map (fun r => r ++ zrow k) (mmul A B)).
Proof.
  intros Hne HB. unfold mmul, transpose.
  assert (N1 : ncols B = n) by (destruct B; [contradiction | inversion HB; assumption]).
  assert (N2 : ncols (map (fun r => r ++ zrow k) B) = (n + k)%nat).
  { destruct B as [|r B]; [contradiction|]. cbn [map ncols]. inversion HB; subst.
    rewrite app_length. unfold zrow. rewrite repeat_length. reflexivity. }
  rewrite N1, N2, transpose_n_zcols by exact HB. rewrite map_map.
  induction A as [|a A IH]; cbn [map]; constructor; [|exact IH].
  rewrite map_app. apply veqv_app; [apply veqv_refl|].
  rewrite <- (zrows_length k (length B)) at 2. apply veqv_zrow.
  intros z Hz. apply in_zrows in Hz. subst z. rewrite qnorm_correct. apply dot_zrow_r.
Qed.

Lemma padr_meqv A B k m : meqv A B -> meqv (padr A k m) (padr B k m).
Proof. intro H. unfold padr. apply Forall2_app; [exact H | apply meqv_refl]. Qed.

Theorem bd_mul A B k d : (1 <= d)%nat ->
  length A = d -> Forall (fun r => length r = d) A ->
  length B = d -> Forall (fun r => length r = d) B ->
  meqv (mmul (bd A k) (bd B k)) (bd (mmul A B) k).
Proof.
  intros Hd HA HAr HB HBr.
  assert (Bne : B <> []) by (destruct B; [cbn in HB; lia | discriminate]).
  set (Bz := map (fun r => r ++ zrow k) B).
  assert (E1 : bd B k = padr Bz k (d + k)) by (unfold bd, padr, Bz; rewrite HB; reflexivity).
  rewrite E1.
  assert (Bzne : Bz <> []) by (unfold Bz; destruct B; [contradiction | discriminate]).
  assert (LBz : length Bz = d) by (unfold Bz; rewrite map_length; exact HB).
  eapply meqv_trans.
  - apply (precondition_padded_axis A Bz k (d + k) Bzne).
    + rewrite LBz. exact HA.
    + rewrite LBz. exact HAr.
    + unfold Bz. apply Forall_forall. intros r Hr. apply in_map_iff in Hr as [r0 [E Hr0]]. subst r.
      rewrite app_length. unfold zrow. rewrite repeat_length.
      rewrite (proj1 (Forall_forall _ _) HBr r0 Hr0). reflexivity.
  - unfold bd. rewrite mmul_length, HA. fold (padr (map (fun r => r ++ zrow k) (mmul A B)) k (d + k)).
    apply padr_meqv. apply (mmul_zcols A B k d Bne HBr).
Qed.

(* ---------- the pseudo-inverse-root spec under a multiplicative embedding, up to an
   equivalence (no unit needed: exponent q + 1) ---------- *)
Section PaddedRootSetoid.
  Variables (M : Type) (mul : M -> M -> M) (eqv : M -> M -> Prop) (dom : M -> Prop) (emb : M -> M).
  Hypothesis eqv_sym : forall a b, eqv a b -> eqv b a.
  Hypothesis eqv_trans : forall a b c, eqv a b -> eqv b c -> eqv a c.
  Hypothesis mul_eqv : forall a a' b b', eqv a a' -> eqv b b' -> eqv (mul a b) (mul a' b').
  Hypothesis dom_mul : forall a b, dom a -> dom b -> dom (mul a b).
  Hypothesis emb_mul : forall a b, dom a -> dom b -> eqv (emb (mul a b)) (mul (emb a) (emb b)).
  Hypothesis emb_eqv : forall a a', eqv a a' -> eqv (emb a) (emb a').
  Hypothesis eqv_refl_emb : forall a, eqv (emb a) (emb a).

  Fixpoint pw1 (R : M) (q : nat) : M := match q with O => R | S q' => mul R (pw1 R q') end.

  (* R^(q+1) C = P,  R P = R,  P P = P *)
  Definition pspec (q : nat) (C R P : M) : Prop :=
    eqv (mul (pw1 R q) C) P /\ eqv (mul R P) R /\ eqv (mul P P) P.

  Lemma dom_pw1 R q : dom R -> dom (pw1 R q).
  Proof. intro H. induction q; cbn [pw1]; [exact H | apply dom_mul; assumption]. Qed.

  Lemma emb_pw1 R q : dom R -> eqv (emb (pw1 R q)) (pw1 (emb R) q).
  Proof.
    intro H. induction q as [|q IH]; cbn [pw1]; [apply eqv_refl_emb|].
    eapply eqv_trans; [apply emb_mul; [exact H | apply dom_pw1; exact H]|].
    apply mul_eqv; [apply eqv_refl_emb | exact IH].
  Qed.

  Theorem pspec_emb q C R P : dom C -> dom R -> dom P ->
    pspec q C R P -> pspec q (emb C) (emb R) (emb P).
  Proof.
    intros HC HR HP [H1 [H2 H3]]. unfold pspec. split; [|split].
    - eapply eqv_trans; [|apply emb_eqv; exact H1].
      eapply eqv_trans; [|apply eqv_sym; apply emb_mul; [apply dom_pw1; exact HR | exact HC]].
      apply mul_eqv; [apply eqv_sym; apply emb_pw1; exact HR | apply eqv_refl_emb].
    - eapply eqv_trans; [apply eqv_sym; apply emb_mul; assumption | apply emb_eqv; exact H2].
    - eapply eqv_trans; [apply eqv_sym; apply emb_mul; assumption | apply emb_eqv; exact H3].
  Qed.
End PaddedRootSetoid.

(* ---------- instance: d x d list matrices, mmul, entrywise ==, C |-> C (+) 0_k ---------- *)
Definition sq (d : nat) (A : mat) : Prop := length A = d /\ Forall (fun r => length r = d) A.

Lemma transpose_n_length n : forall A, length (transpose_n n A) = n.
Proof. induction n as [|n IH]; intro A; cbn [transpose_n length]; [reflexivity | rewrite IH; reflexivity]. Qed.

Lemma sq_mmul d A B : (1 <= d)%nat -> sq d A -> sq d B -> sq d (mmul A B).
Proof.
  intros Hd [HA HAr] [HB HBr]. split; [rewrite mmul_length; exact HA|].
  unfold mmul. apply Forall_forall. intros r Hr. apply in_map_iff in Hr as [a [E _]]. subst r.
  rewrite map_length. unfold transpose. rewrite transpose_n_length.
  destruct B as [|b B]; [cbn in HB; lia|]. cbn [ncols]. inversion HBr; assumption.
Qed.

Lemma bd_meqv A B k : meqv A B -> meqv (bd A k) (bd B k).
Proof.
  intro H. unfold bd. apply Forall2_app.
  - induction H as [|r r' A B Hr HA IH]; cbn [map]; constructor; [|exact IH].
    apply veqv_app; [exact Hr | apply veqv_refl].
  - assert (L : length A = length B) by (clear k; induction H; cbn; [reflexivity | f_equal; assumption]).
    rewrite L. apply meqv_refl.
Qed.

(* root (+) 0 satisfies the pseudo-inverse-root spec of the zero-padded statistics C (+) 0, for
   every exponent q + 1 >= 1, block dimension d >= 1 and padding k *)
Theorem padded_root_spec_concrete d k q C R P : (1 <= d)%nat -> sq d C -> sq d R -> sq d P ->
  pspec mat mmul meqv q C R P ->
  pspec mat mmul meqv q (bd C k) (bd R k) (bd P k).
Proof.
  intros Hd HC HR HP HS.
  apply (pspec_emb mat mmul meqv (sq d) (fun A => bd A k)); try assumption.
  - apply meqv_sym.
  - apply meqv_trans.
  - apply mmul_meqv.
  - intros a b. apply (sq_mmul d). exact Hd.
  - intros a b [Ha Har] [Hb Hbr]. apply meqv_sym. apply (bd_mul a b k d); assumption.
  - intros a a'. apply bd_meqv.
  - intro a. apply meqv_refl.
Qed.

(* with uniqueness of the root (ASSUMPTION, named pinv_root_unique) the root of the padded
   statistics is root_unpadded (+) 0 *)
Theorem padded_root_unique_concrete d k q C R P Rpad Ppad :
  (forall C0 R1 R2 P1 P2, pspec mat mmul meqv q C0 R1 P1 -> pspec mat mmul meqv q C0 R2 P2 -> meqv R1 R2) ->
  (1 <= d)%nat -> sq d C -> sq d R -> sq d P ->
  pspec mat mmul meqv q C R P -> pspec mat mmul meqv q (bd C k) Rpad Ppad ->
  meqv Rpad (bd R k).
Proof.
  intros pinv_root_unique Hd HC HR HP HS HS'.
  eapply pinv_root_unique; [exact HS' | apply (padded_root_spec_concrete d k q C R P); assumption].
Qed.
